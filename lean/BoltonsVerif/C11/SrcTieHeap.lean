/-
C11 — SOURCE TIE, heap part (round 3d): the representation relation between the object store of the generated
`IndexedSet` methods (`Generated/Src_setutils_iset.lean`, translated by harness/py2lean_c11.py) and the hand model's
`dead : List (Nat × Nat)`, and specification lemmas for the runtime operations (`PyRtC11.lean`) on represented states.
Nothing here mentions a generated METHOD (only the generated state record), so a changed source cannot break this file;
the tie theorems themselves are in `C11/SrcTie.lean`.
-/
import BoltonsVerif.Generated.Src_setutils_iset
import BoltonsVerif.PyRtLemmas
import BoltonsVerif.C11.Extras

namespace C11
open PyHeap PyRtC11 Src.setutils

set_option linter.unusedSimpArgs false
set_option linter.unusedVariables false
set_option linter.unusedSectionVars false

variable {κ : Type}

/-- the cell of the dead interval `[start, stop]` -/
def ivCell (p : Nat × Nat) : List (Val κ Unit) := [.int (p.1 : Int), .int (p.2 : Int)]

/-- `refs` (the Python list `dead_indices`) holds references to pairwise DIFFERENT cells of the store `h` whose contents
    are the intervals `dead` of the model, in order -/
def RepDead (h : Heap κ Unit) (refs : List (Val κ Unit)) (dead : List (Nat × Nat)) : Prop :=
  ∃ addrs : List Nat, refs = addrs.map Val.ref ∧ addrs.Nodup ∧ addrs.map h.cell = dead.map ivCell

/-! ### the store -/

theorem cell_alloc_of_ne_nil (h : Heap κ Unit) (c : List (Val κ Unit)) (a : Nat) (hne : h.cell a ≠ []) :
    (h.alloc c).cell a = h.cell a := by
  unfold Heap.cell Heap.alloc at *
  simp only [List.getD_eq_getElem?_getD] at *
  by_cases ha : a < h.cells.length
  · rw [List.getElem?_append_left ha]
  · exfalso; apply hne
    rw [List.getElem?_eq_none (by omega)]; rfl

theorem cell_alloc_next (h : Heap κ Unit) (c : List (Val κ Unit)) : (h.alloc c).cell h.cells.length = c := by
  unfold Heap.cell Heap.alloc
  simp [List.getD_eq_getElem?_getD]

theorem lt_of_cell_ne_nil (h : Heap κ Unit) (a : Nat) (hne : h.cell a ≠ []) : a < h.cells.length := by
  apply Classical.byContradiction
  intro hge
  apply hne
  unfold Heap.cell
  rw [List.getD_eq_getElem?_getD, List.getElem?_eq_none (by omega)]; rfl

theorem cell_set_same (h : Heap κ Unit) (a : Nat) (c : List (Val κ Unit)) (ha : a < h.cells.length) :
    (Heap.mk (h.cells.set a c)).cell a = c := by
  unfold Heap.cell
  simp [List.getD_eq_getElem?_getD, List.getElem?_set, ha]

theorem cell_set_other (h : Heap κ Unit) (a b : Nat) (c : List (Val κ Unit)) (hab : b ≠ a) :
    (Heap.mk (h.cells.set a c)).cell b = h.cell b := by
  unfold Heap.cell
  simp [List.getD_eq_getElem?_getD, List.getElem?_set, Ne.symm hab]

/-! ### lists -/

theorem map_insertIdx {α β : Type} (f : α → β) (x : α) : ∀ (l : List α) (i : Nat),
    (l.insertIdx i x).map f = (l.map f).insertIdx i (f x)
  | [], 0 => by simp
  | [], i + 1 => by simp
  | a :: l, 0 => by simp
  | a :: l, i + 1 => by simp [List.insertIdx_succ_cons, map_insertIdx f x l i]

theorem map_congr_set {α β : Type} (f g : α → β) (a : α) (v : β) (hg : g a = v) (hne : ∀ b, b ≠ a → g b = f b) :
    ∀ (l : List α) (j : Nat), l.Nodup → l[j]? = some a → l.map g = (l.map f).set j v
  | [], j, _, h => by simp at h
  | b :: l, 0, hnd, h => by
    simp only [List.getElem?_cons_zero, Option.some.injEq] at h
    subst h
    simp only [List.map_cons, List.set_cons_zero, hg, List.cons.injEq, true_and]
    apply List.map_congr_left
    intro c hc
    apply hne
    intro hcb; subst hcb
    exact (List.nodup_cons.1 hnd).1 hc
  | b :: l, j + 1, hnd, h => by
    simp only [List.getElem?_cons_succ] at h
    have hb : b ≠ a := by
      intro hba; subst hba
      exact (List.nodup_cons.1 hnd).1 (List.mem_of_getElem? h)
    simp only [List.map_cons, List.set_cons_succ, hne b hb, List.cons.injEq, true_and]
    exact map_congr_set f g a v hg hne l j (List.nodup_cons.1 hnd).2 h

/-! ### `bisect_left` through the store = the model's binary search -/

theorem bsearch_le (p : Nat → Bool) : ∀ (fuel lo hi : Nat), lo ≤ hi → bsearch p fuel lo hi ≤ hi := by
  intro fuel
  induction fuel with
  | zero => intro lo hi h; simpa [bsearch] using h
  | succ n ih =>
    intro lo hi h
    simp only [bsearch]
    split
    · split
      · exact ih _ _ (by omega)
      · exact Nat.le_trans (ih _ _ (by omega)) (by omega)
    · exact h

theorem bisectLeftPy_le (d : List (Nat × Nat)) (c : Nat × Nat) : bisectLeftPy d c ≤ d.length :=
  bsearch_le _ _ _ _ (Nat.zero_le _)

theorem bsearch?_eq (lt : Nat → Except PyExc Bool) (p : Nat → Bool) (n : Nat) (h : ∀ i, i < n → lt i = .ok (p i)) :
    ∀ (fuel lo hi : Nat), hi ≤ n → bsearch? lt fuel lo hi = .ok (bsearch p fuel lo hi) := by
  intro fuel
  induction fuel with
  | zero => intro lo hi _; simp [bsearch?, bsearch]
  | succ m ih =>
    intro lo hi hhi
    simp only [bsearch?, bsearch]
    by_cases hlt : lo < hi
    · rw [if_pos hlt, if_pos hlt, h _ (by omega), bx_ok]
      by_cases hp : p ((lo + hi) / 2) = true
      · rw [if_pos hp, if_pos hp]; exact ih _ _ hhi
      · rw [if_neg hp, if_neg hp]; exact ih _ _ (by omega)
    · rw [if_neg hlt, if_neg hlt]

theorem cellLt?_ivCell (q c : Nat × Nat) : cellLt? (ivCell q : List (Val κ Unit)) (ivCell c) = .ok (lexLt c q) := by
  obtain ⟨q1, q2⟩ := q
  obtain ⟨c1, c2⟩ := c
  simp only [ivCell, cellLt?, lexLt]
  by_cases h1 : q1 = c1
  · subst h1
    by_cases h2 : q2 = c2
    · subst h2; simp
    · have : ¬ ((q2 : Int) = (c2 : Int)) := by omega
      simp [this, h2]
  · have : ¬ ((q1 : Int) = (c1 : Int)) := by omega
    simp [this, h1]

/-- on a represented table, `bisect_left(dints, cand)` evaluated through the store (the candidate is a cell too) is the
    model's `bisectLeftPy` -/
theorem bisectLeft?_rep (h : Heap κ Unit) (addrs : List Nat) (dead : List (Nat × Nat)) (n : Nat) (c : Nat × Nat)
    (hcells : addrs.map h.cell = dead.map ivCell) (hn : h.cell n = ivCell c) :
    bisectLeft? h (addrs.map Val.ref) (.ref n) = .ok ((bisectLeftPy dead c : Nat) : Int) := by
  have hlen : addrs.length = dead.length := by simpa using congrArg List.length hcells
  unfold bisectLeft? bisectLeftPy
  rw [bsearch?_eq _ (ltAt dead c) dead.length _ _ _ _ (by simp [hlen])]
  · simp [hlen]
  · intro i hi
    have hi2 : i < addrs.length := by omega
    have hc : h.cell addrs[i] = ivCell dead[i] := by
      have := congrArg (fun l => l[i]?) hcells
      simpa [List.getElem?_map, List.getElem?_eq_getElem hi, List.getElem?_eq_getElem hi2] using this
    simp only [List.getElem?_map, List.getElem?_eq_getElem hi2, Option.map_some, valLt?, hc, hn, cellLt?_ivCell,
      ltAt, List.getElem?_eq_getElem hi]

/-! ### reading / updating an entry of the table -/

theorem rep_cell (h : Heap κ Unit) (addrs : List Nat) (dead : List (Nat × Nat))
    (hcells : addrs.map h.cell = dead.map ivCell) (i : Nat) (hi : i < addrs.length) (hi2 : i < dead.length) :
    h.cell addrs[i] = ivCell dead[i] := by
  have := congrArg (fun l => l[i]?) hcells
  simpa [List.getElem?_map, List.getElem?_eq_getElem hi, List.getElem?_eq_getElem hi2] using this

/-- `dint[k] = …` through the alias: the cell of entry `j` gets new contents, every other entry keeps its own (the
    references are pairwise different) -/
theorem RepDead.set_cell (h : Heap κ Unit) (addrs : List Nat) (dead : List (Nat × Nat)) (j : Nat) (p : Nat × Nat)
    (hnd : addrs.Nodup) (hcells : addrs.map h.cell = dead.map ivCell) (hj : j < addrs.length)
    (hlt : addrs[j] < h.cells.length) :
    RepDead ⟨h.cells.set addrs[j] (ivCell p)⟩ (addrs.map Val.ref) (dead.set j p) := by
  refine ⟨addrs, rfl, hnd, ?_⟩
  rw [map_congr_set h.cell _ addrs[j] (ivCell p) (cell_set_same h _ _ hlt) (fun b hb => cell_set_other h _ b _ hb)
    addrs j hnd (List.getElem?_eq_getElem hj), hcells, List.map_set]

/-- `dints.insert(int_idx, cand_int)` with a cell no entry refers to yet -/
theorem RepDead.insert_new (h : Heap κ Unit) (addrs : List Nat) (dead : List (Nat × Nat)) (i n : Nat) (p : Nat × Nat)
    (hnd : addrs.Nodup) (hcells : addrs.map h.cell = dead.map ivCell) (hi : i ≤ addrs.length) (hn : n ∉ addrs)
    (hc : h.cell n = ivCell p) :
    RepDead h (PyRtC11.insert (addrs.map Val.ref) (i : Int) (.ref n)) (dead.insertIdx i p) := by
  refine ⟨addrs.insertIdx i n, ?_, ?_, ?_⟩
  · unfold PyRtC11.insert PyRt.clampBound
    rw [map_insertIdx]
    congr 1
    simp only [List.length_map]
    split <;> omega
  · exact (List.perm_insertIdx n addrs hi).nodup_iff.2 (List.nodup_cons.2 ⟨hn, hnd⟩)
  · rw [map_insertIdx, map_insertIdx, hcells, hc]


theorem index?_refs (addrs : List Nat) (j : Nat) (i : Int) (a : Nat) (ha : addrs[j]? = some a)
    (hi : PyRt.normIdx (addrs.map (Val.ref (κ := κ) (ν := Unit))) i = (j : Int)) :
    PyRt.index? (addrs.map (Val.ref (κ := κ) (ν := Unit))) i = .ok (.ref a) := by
  unfold PyRt.index?
  rw [hi]
  simp [List.getElem?_map, ha]

end C11
