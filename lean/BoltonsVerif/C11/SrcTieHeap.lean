/-
C11 — SOURCE TIE, heap part (round 3d): the representation relation between the object store of the generated
`IndexedSet` methods (`Generated/Src_setutils_iset.lean`, translated by harness/py2lean_c11.py) and the hand model's
`dead : List (Nat × Nat)`, and specification lemmas for the runtime operations (`PyRtC11.lean`) on represented states.
Nothing here mentions a generated METHOD (only the generated state record), so a changed source cannot break this file;
the tie theorems themselves are in `C11/SrcTie.lean`.
-/
import BoltonsVerif.Generated.Src_setutils_iset
import BoltonsVerif.PyRtLemmas
import BoltonsVerif.C11.Extras

namespace C11
open PyHeap PyRtC11 Src.setutils

set_option linter.unusedSimpArgs false
set_option linter.unusedVariables false
set_option linter.unusedSectionVars false

variable {κ : Type}

/-- the cell of the dead interval `[start, stop]` -/
def ivCell (p : Nat × Nat) : List (Val κ Unit) := [.int (p.1 : Int), .int (p.2 : Int)]

/-- `refs` (the Python list `dead_indices`) holds references to pairwise DIFFERENT cells of the store `h` whose contents
    are the intervals `dead` of the model, in order -/
def RepDead (h : Heap κ Unit) (refs : List (Val κ Unit)) (dead : List (Nat × Nat)) : Prop :=
  ∃ addrs : List Nat, refs = addrs.map Val.ref ∧ addrs.Nodup ∧ addrs.map h.cell = dead.map ivCell

/-! ### the store -/

theorem cell_alloc_of_ne_nil (h : Heap κ Unit) (c : List (Val κ Unit)) (a : Nat) (hne : h.cell a ≠ []) :
    (h.alloc c).cell a = h.cell a := by
  unfold Heap.cell Heap.alloc at *
  simp only [List.getD_eq_getElem?_getD] at *
  by_cases ha : a < h.cells.length
  · rw [List.getElem?_append_left ha]
  · exfalso; apply hne
    rw [List.getElem?_eq_none (by omega)]; rfl

theorem cell_alloc_next (h : Heap κ Unit) (c : List (Val κ Unit)) : (h.alloc c).cell h.cells.length = c := by
  unfold Heap.cell Heap.alloc
  simp [List.getD_eq_getElem?_getD]

theorem lt_of_cell_ne_nil (h : Heap κ Unit) (a : Nat) (hne : h.cell a ≠ []) : a < h.cells.length := by
  apply Classical.byContradiction
  intro hge
  apply hne
  unfold Heap.cell
  rw [List.getD_eq_getElem?_getD, List.getElem?_eq_none (by omega)]; rfl

theorem cell_set_same (h : Heap κ Unit) (a : Nat) (c : List (Val κ Unit)) (ha : a < h.cells.length) :
    (Heap.mk (h.cells.set a c)).cell a = c := by
  unfold Heap.cell
  simp [List.getD_eq_getElem?_getD, List.getElem?_set, ha]

theorem cell_set_other (h : Heap κ Unit) (a b : Nat) (c : List (Val κ Unit)) (hab : b ≠ a) :
    (Heap.mk (h.cells.set a c)).cell b = h.cell b := by
  unfold Heap.cell
  simp [List.getD_eq_getElem?_getD, List.getElem?_set, Ne.symm hab]

/-! ### lists -/

theorem map_insertIdx {α β : Type} (f : α → β) (x : α) : ∀ (l : List α) (i : Nat),
    (l.insertIdx i x).map f = (l.map f).insertIdx i (f x)
  | [], 0 => by simp
  | [], i + 1 => by simp
  | a :: l, 0 => by simp
  | a :: l, i + 1 => by simp [List.insertIdx_succ_cons, map_insertIdx f x l i]

theorem map_congr_set {α β : Type} (f g : α → β) (a : α) (v : β) (hg : g a = v) (hne : ∀ b, b ≠ a → g b = f b) :
    ∀ (l : List α) (j : Nat), l.Nodup → l[j]? = some a → l.map g = (l.map f).set j v
  | [], j, _, h => by simp at h
  | b :: l, 0, hnd, h => by
    simp only [List.getElem?_cons_zero, Option.some.injEq] at h
    subst h
    simp only [List.map_cons, List.set_cons_zero, hg, List.cons.injEq, true_and]
    apply List.map_congr_left
    intro c hc
    apply hne
    intro hcb; subst hcb
    exact (List.nodup_cons.1 hnd).1 hc
  | b :: l, j + 1, hnd, h => by
    simp only [List.getElem?_cons_succ] at h
    have hb : b ≠ a := by
      intro hba; subst hba
      exact (List.nodup_cons.1 hnd).1 (List.mem_of_getElem? h)
    simp only [List.map_cons, List.set_cons_succ, hne b hb, List.cons.injEq, true_and]
    exact map_congr_set f g a v hg hne l j (List.nodup_cons.1 hnd).2 h

/-! ### `bisect_left` through the store = the model's binary search -/

theorem bsearch_le (p : Nat → Bool) : ∀ (fuel lo hi : Nat), lo ≤ hi → bsearch p fuel lo hi ≤ hi := by
  intro fuel
  induction fuel with
  | zero => intro lo hi h; simpa [bsearch] using h
  | succ n ih =>
    intro lo hi h
    simp only [bsearch]
    split
    · split
      · exact ih _ _ (by omega)
      · exact Nat.le_trans (ih _ _ (by omega)) (by omega)
    · exact h

theorem bisectLeftPy_le (d : List (Nat × Nat)) (c : Nat × Nat) : bisectLeftPy d c ≤ d.length :=
  bsearch_le _ _ _ _ (Nat.zero_le _)

theorem bsearch?_eq (lt : Nat → Except PyExc Bool) (p : Nat → Bool) (n : Nat) (h : ∀ i, i < n → lt i = .ok (p i)) :
    ∀ (fuel lo hi : Nat), hi ≤ n → bsearch? lt fuel lo hi = .ok (bsearch p fuel lo hi) := by
  intro fuel
  induction fuel with
  | zero => intro lo hi _; simp [bsearch?, bsearch]
  | succ m ih =>
    intro lo hi hhi
    simp only [bsearch?, bsearch]
    by_cases hlt : lo < hi
    · rw [if_pos hlt, if_pos hlt, h _ (by omega), bx_ok]
      by_cases hp : p ((lo + hi) / 2) = true
      · rw [if_pos hp, if_pos hp]; exact ih _ _ hhi
      · rw [if_neg hp, if_neg hp]; exact ih _ _ (by omega)
    · rw [if_neg hlt, if_neg hlt]

theorem cellLt?_ivCell (q c : Nat × Nat) : cellLt? (ivCell q : List (Val κ Unit)) (ivCell c) = .ok (lexLt c q) := by
  obtain ⟨q1, q2⟩ := q
  obtain ⟨c1, c2⟩ := c
  simp only [ivCell, cellLt?, lexLt]
  by_cases h1 : q1 = c1
  · subst h1
    by_cases h2 : q2 = c2
    · subst h2; simp
    · have : ¬ ((q2 : Int) = (c2 : Int)) := by omega
      simp [this, h2]
  · have : ¬ ((q1 : Int) = (c1 : Int)) := by omega
    simp [this, h1]

/-- on a represented table, `bisect_left(dints, cand)` evaluated through the store (the candidate is a cell too) is the
    model's `bisectLeftPy` -/
theorem bisectLeft?_rep (h : Heap κ Unit) (addrs : List Nat) (dead : List (Nat × Nat)) (n : Nat) (c : Nat × Nat)
    (hcells : addrs.map h.cell = dead.map ivCell) (hn : h.cell n = ivCell c) :
    bisectLeft? h (addrs.map Val.ref) (.ref n) = .ok ((bisectLeftPy dead c : Nat) : Int) := by
  have hlen : addrs.length = dead.length := by simpa using congrArg List.length hcells
  unfold bisectLeft? bisectLeftPy
  rw [bsearch?_eq _ (ltAt dead c) dead.length _ _ _ _ (by simp [hlen])]
  · simp [hlen]
  · intro i hi
    have hi2 : i < addrs.length := by omega
    have hc : h.cell addrs[i] = ivCell dead[i] := by
      have := congrArg (fun l => l[i]?) hcells
      simpa [List.getElem?_map, List.getElem?_eq_getElem hi, List.getElem?_eq_getElem hi2] using this
    simp only [List.getElem?_map, List.getElem?_eq_getElem hi2, Option.map_some, valLt?, hc, hn, cellLt?_ivCell,
      ltAt, List.getElem?_eq_getElem hi]

/-! ### reading / updating an entry of the table -/

theorem rep_cell (h : Heap κ Unit) (addrs : List Nat) (dead : List (Nat × Nat))
    (hcells : addrs.map h.cell = dead.map ivCell) (i : Nat) (hi : i < addrs.length) (hi2 : i < dead.length) :
    h.cell addrs[i] = ivCell dead[i] := by
  have := congrArg (fun l => l[i]?) hcells
  simpa [List.getElem?_map, List.getElem?_eq_getElem hi, List.getElem?_eq_getElem hi2] using this

/-- `dint[k] = …` through the alias: the cell of entry `j` gets new contents, every other entry keeps its own (the
    references are pairwise different) -/
theorem RepDead.set_cell (h : Heap κ Unit) (addrs : List Nat) (dead : List (Nat × Nat)) (j : Nat) (p : Nat × Nat)
    (hnd : addrs.Nodup) (hcells : addrs.map h.cell = dead.map ivCell) (hj : j < addrs.length)
    (hlt : addrs[j] < h.cells.length) :
    RepDead ⟨h.cells.set addrs[j] (ivCell p)⟩ (addrs.map Val.ref) (dead.set j p) := by
  refine ⟨addrs, rfl, hnd, ?_⟩
  rw [map_congr_set h.cell _ addrs[j] (ivCell p) (cell_set_same h _ _ hlt) (fun b hb => cell_set_other h _ b _ hb)
    addrs j hnd (List.getElem?_eq_getElem hj), hcells, List.map_set]

/-- `dints.insert(int_idx, cand_int)` with a cell no entry refers to yet -/
theorem RepDead.insert_new (h : Heap κ Unit) (addrs : List Nat) (dead : List (Nat × Nat)) (i n : Nat) (p : Nat × Nat)
    (hnd : addrs.Nodup) (hcells : addrs.map h.cell = dead.map ivCell) (hi : i ≤ addrs.length) (hn : n ∉ addrs)
    (hc : h.cell n = ivCell p) :
    RepDead h (PyRtC11.insert (addrs.map Val.ref) (i : Int) (.ref n)) (dead.insertIdx i p) := by
  refine ⟨addrs.insertIdx i n, ?_, ?_, ?_⟩
  · unfold PyRtC11.insert PyRt.clampBound
    rw [map_insertIdx]
    congr 1
    simp only [List.length_map]
    split <;> omega
  · exact (List.perm_insertIdx n addrs hi).nodup_iff.2 (List.nodup_cons.2 ⟨hn, hnd⟩)
  · rw [map_insertIdx, map_insertIdx, hcells, hc]


theorem index?_refs (addrs : List Nat) (j : Nat) (i : Int) (a : Nat) (ha : addrs[j]? = some a)
    (hi : PyRt.normIdx (addrs.map (Val.ref (κ := κ) (ν := Unit))) i = (j : Int)) :
    PyRt.index? (addrs.map (Val.ref (κ := κ) (ν := Unit))) i = .ok (.ref a) := by
  unfold PyRt.index?
  rw [hi]
  simp [List.getElem?_map, ha]

/-! ### the whole object: `Rep` -/

section RepSec
variable {α : Type} [DecidableEq α]

/-- a slot of `item_list`: the `_MISSING` tombstone or the item -/
def ofItem : Option α → Val α Unit
  | none => .sentinel
  | some x => .key x

/-- `item_index_map` with Python ints as values -/
def castIdx (m : IMap α) : PyRt.Dict α Int := m.map (fun p => (p.1, (p.2 : Int)))

/-- the generated object state `st` stands for the model state `s` -/
structure Rep (st : IndexedSet.St α) (s : ISet α) : Prop where
  items : st.item_list = s.items.map ofItem
  idx : st.item_index_map = castIdx s.idx
  dead : RepDead st.heap st.dead_indices s.dead

theorem find_castIdx (m : IMap α) (x : α) :
    PyRt.Dict.find (castIdx m) x = (IMap.lookup m x).map (fun n => (n : Int)) := by
  induction m with
  | nil => rfl
  | cons p m ih =>
    obtain ⟨k, v⟩ := p
    simp only [castIdx, List.map_cons, PyRt.Dict.find, IMap.lookup] at *
    split <;> simp_all

theorem contains_castIdx (m : IMap α) (x : α) : PyRt.Dict.contains (castIdx m) x = (IMap.lookup m x).isSome := by
  simp only [PyRt.Dict.contains, find_castIdx]
  cases IMap.lookup m x <;> rfl

theorem set_castIdx (m : IMap α) (x : α) (n : Nat) :
    PyRt.Dict.set (castIdx m) x (n : Int) = castIdx (IMap.set m x n) := by
  induction m with
  | nil => rfl
  | cons p m ih =>
    obtain ⟨k, v⟩ := p
    simp only [castIdx, List.map_cons, PyRt.Dict.set, IMap.set] at *
    split <;> simp_all

theorem length_castIdx (m : IMap α) : (castIdx m).length = m.length := by simp [castIdx]

theorem erase_castIdx (m : IMap α) (x : α) (h : (IMap.keys m).Nodup) :
    PyRt.Dict.erase (castIdx m) x = castIdx (IMap.erase m x) := by
  induction m with
  | nil => rfl
  | cons p m ih =>
    obtain ⟨k, v⟩ := p
    simp only [IMap.keys, List.map_cons, List.nodup_cons] at h
    have ih' := ih (by simpa [IMap.keys] using h.2)
    simp only [castIdx, List.map_cons, PyRt.Dict.erase, IMap.erase, List.filter_cons] at *
    by_cases hk : k = x
    · subst hk
      simp only [decide_true, Bool.not_true, Bool.false_eq_true, if_false, if_true]
      apply List.filter_eq_self.2
      intro q hq
      simp only [List.mem_map] at hq
      obtain ⟨⟨k2, v2⟩, hm, rfl⟩ := hq
      have : k2 ≠ k := by
        intro hkk; subst hkk
        exact h.1 (List.mem_map.2 ⟨(k2, v2), hm, rfl⟩)
      simp [this]
    · simp [hk, ih']


/-- the loop of `_compact`, whatever its body looks like, as long as one iteration writes `items[i] = item` and
    `index_map[item] = i`: `W` = the slots written so far, `M` = stale slots already read, `rest` = the slots not yet read -/
theorem compact_loop {σ ρ φ : Type} (proj : σ → IndexedSet.St α) (frame : σ → φ) (bind : Int → Val α Unit → σ → σ)
    (body : Stmt σ ρ) (keep : Val α Unit → Bool) (hk1 : keep .sentinel = false) (hk2 : ∀ x, keep (.key x) = true)
    (hbody : ∀ (t : σ) (i : Int) (x : α), 0 ≤ i → i < (proj t).item_list.length →
      ∃ t', body (bind i (.key x) t) = (.next, t') ∧
        proj t' = ⟨(proj t).heap, PyRt.Dict.set (proj t).item_index_map x i, (proj t).item_list.set i.toNat (.key x),
                   (proj t).dead_indices, (proj t).compactions, (proj t).c_max_size⟩ ∧ frame t' = frame t) :
    ∀ (rest : List (Option α)) (W M : List (Val α Unit)) (m : IMap α) (fuel : Nat) (t : σ),
      rest.length < fuel →
      (proj t).item_list = W ++ M ++ rest.map ofItem → (proj t).item_index_map = castIdx m →
      ∃ t', forLazy (fun s => (proj s).item_list) keep bind body fuel
            (W.length + M.length) (W.length : Int) t = (.next, t') ∧
        proj t' = ⟨(proj t).heap, castIdx (assignIdx m (live rest) W.length),
                   W ++ (live rest).map Val.key ++ (M ++ rest.map ofItem).drop (live rest).length,
                   (proj t).dead_indices, (proj t).compactions, (proj t).c_max_size⟩ ∧ frame t' = frame t := by
  intro rest
  induction rest with
  | nil =>
    intro W M m fuel t hf hl hi
    obtain ⟨n, rfl⟩ : ∃ n, fuel = n + 1 := ⟨fuel - 1, by simp at hf; omega⟩
    refine ⟨t, ?_, ?_, rfl⟩
    · simp [forLazy, hl]
    · have : (proj t).item_list = W ++ M := by simpa using hl
      simp only [live, assignIdx, List.filterMap_nil, List.map_nil, List.append_nil, List.length_nil, List.drop_zero,
        ← this, ← hi]
  | cons o rest ih =>
    intro W M m fuel t hf hl hi
    obtain ⟨n, rfl⟩ : ∃ n, fuel = n + 1 := ⟨fuel - 1, by simp at hf; omega⟩
    have hget : (proj t).item_list[W.length + M.length]? = some (ofItem o) := by
      rw [hl, List.append_assoc, List.getElem?_append_right (by omega),
        List.getElem?_append_right (by omega)]
      simp
    cases o with
    | none =>
      obtain ⟨t', h1, h2, h3⟩ := ih W (M ++ [Val.sentinel]) m n t (by simp at hf; omega)
        (by rw [hl]; simp [ofItem]) hi
      refine ⟨t', ?_, ?_, h3⟩
      · simp only [forLazy, hget, ofItem, hk1]
        simpa [Nat.add_assoc] using h1
      · rw [h2]; simp [live, ofItem]
    | some x =>
      have hlt : W.length + M.length < (proj t).item_list.length := by rw [hl]; simp
      obtain ⟨t1, hb1, hb2, hb3⟩ := hbody t (W.length : Int) x (by omega) (by omega)
      -- the list after `items[i] = item`
      have hset : (proj t).item_list.set W.length (Val.key x) =
          (W ++ [Val.key x]) ++ (M ++ [Val.key x]).tail ++ rest.map ofItem := by
        rw [hl]
        cases M with
        | nil => simp [ofItem, List.set_append]
        | cons m0 M2 => simp [ofItem, List.set_append]
      have hl1 : (proj t1).item_list = (W ++ [Val.key x]) ++ (M ++ [Val.key x]).tail ++ rest.map ofItem := by
        rw [hb2]; simpa using hset
      have hi1 : (proj t1).item_index_map = castIdx (IMap.set m x W.length) := by
        rw [hb2]; simp only; rw [hi, set_castIdx]
      obtain ⟨t', h1, h2, h3⟩ := ih (W ++ [Val.key x]) ((M ++ [Val.key x]).tail) (IMap.set m x W.length) n t1
        (by simp at hf; omega) hl1 hi1
      refine ⟨t', ?_, ?_, h3.trans hb3⟩
      · simp only [forLazy, hget, ofItem, hk2, if_true, hb1]
        have e1 : (W ++ [Val.key x]).length + (M ++ [Val.key x]).tail.length = W.length + M.length + 1 := by
          simp; omega
        have e2 : (((W ++ [Val.key x]).length : Nat) : Int) = (W.length : Int) + 1 := by simp
        rw [e1, e2] at h1
        exact h1
      · rw [h2, hb2]
        simp only [live, List.filterMap_cons, id, assignIdx, List.length_append, List.length_cons, List.length_nil]
        cases M with
        | nil => simp [ofItem]
        | cons m0 M2 => simp [ofItem]
@[simp] theorem ofItem_some (x : α) : ofItem (some x) = Val.key x := rfl
@[simp] theorem ofItem_none : ofItem (none : Option α) = Val.sentinel := rfl

theorem delSlice_all {β : Type} (l : List β) : delSlice l none none = [] := by
  unfold delSlice
  cases l <;> simp

theorem delSlice_neg_tail {β : Type} (l : List β) (n : Nat) (hn : n ≤ l.length) :
    delSlice l (some (-(n : Int))) none = if n = 0 then [] else l.take (l.length - n) := by
  unfold delSlice PyRt.clampBound
  by_cases h0 : n = 0
  · subst h0; cases l <;> simp
  · have h1 : (-(n : Int)) < 0 := by omega
    have h2 : ((-(n : Int)) + (l.length : Int)).toNat = l.length - n := by omega
    simp only [h1, if_true, h2, h0, if_false]
    rw [if_pos (by omega)]
    simp

theorem repDead_nil_iff {h : Heap α Unit} {refs : List (Val α Unit)} {dead : List (Nat × Nat)} (hr : RepDead h refs dead) :
    refs.isEmpty = dead.isEmpty := by
  obtain ⟨addrs, rfl, _, hc⟩ := hr
  have := congrArg List.length hc
  simp at this
  cases addrs <;> cases dead <;> simp_all

theorem repDead_nil (h : Heap α Unit) : RepDead h [] [] := ⟨[], rfl, by simp, rfl⟩


/-- the whole loop, from the start of the list -/
theorem compact_loop0 {σ ρ φ : Type} (proj : σ → IndexedSet.St α) (frame : σ → φ) (bind : Int → Val α Unit → σ → σ)
    (body : Stmt σ ρ) (keep : Val α Unit → Bool) (hk1 : keep .sentinel = false) (hk2 : ∀ x, keep (.key x) = true)
    (hbody : ∀ (t : σ) (i : Int) (x : α), 0 ≤ i → i < (proj t).item_list.length →
      ∃ t', body (bind i (.key x) t) = (.next, t') ∧
        proj t' = ⟨(proj t).heap, PyRt.Dict.set (proj t).item_index_map x i, (proj t).item_list.set i.toNat (.key x),
                   (proj t).dead_indices, (proj t).compactions, (proj t).c_max_size⟩ ∧ frame t' = frame t)
    (items : List (Option α)) (m : IMap α) (fuel : Nat) (t : σ) (hf : items.length < fuel)
    (hl : (proj t).item_list = items.map ofItem) (hi : (proj t).item_index_map = castIdx m) :
    ∃ t', forLazy (fun s => (proj s).item_list) keep bind body fuel 0 0 t = (.next, t') ∧
      proj t' = ⟨(proj t).heap, castIdx (assignIdx m (live items) 0),
                 (live items).map Val.key ++ (items.map ofItem).drop (live items).length,
                 (proj t).dead_indices, (proj t).compactions, (proj t).c_max_size⟩ ∧ frame t' = frame t := by
  have := compact_loop proj frame bind body keep hk1 hk2 hbody items [] [] m fuel t hf (by simpa using hl) hi
  simpa using this

/-! ### the two loops of `_cull` -/

theorem takeWhile_pos {β : Type} (p : β → Bool) : ∀ (R : List β) (k : Nat), k < (R.takeWhile p).length →
    ∃ x, R[k]? = some x ∧ p x = true
  | [], k, h => by simp at h
  | y :: R, k, h => by
    by_cases hp : p y = true
    · simp only [List.takeWhile_cons, hp, if_true, List.length_cons] at h
      cases k with
      | zero => exact ⟨y, rfl, hp⟩
      | succ k => simpa using takeWhile_pos p R k (by omega)
    · simp [List.takeWhile_cons, hp] at h

theorem takeWhile_stop {β : Type} (p : β → Bool) : ∀ (R : List β), (R.takeWhile p).length < R.length →
    ∃ x, R[(R.takeWhile p).length]? = some x ∧ p x = false
  | [], h => by simp at h
  | y :: R, h => by
    by_cases hp : p y = true
    · simp only [List.takeWhile_cons, hp, if_true, List.length_cons] at h ⊢
      simpa using takeWhile_stop p R (by omega)
    · simp only [List.takeWhile_cons, hp]
      exact ⟨y, rfl, by simpa using hp⟩

/-- the slot `k` from the end -/
theorem index?_from_end (items : List (Option α)) (k : Nat) (hk : k < items.length) :
    PyRt.index? (items.map ofItem) (-((k : Int) + 1)) = .ok (ofItem (items.reverse[k]?.getD none)) := by
  unfold PyRt.index? PyRt.normIdx
  have h1 : (-((k : Int) + 1)) < 0 := by omega
  simp only [h1, if_true, List.length_map]
  have h2 : ¬ (-((k : Int) + 1) + (items.length : Int) < 0) := by omega
  have h3 : (-((k : Int) + 1) + (items.length : Int)).toNat = items.length - 1 - k := by omega
  rw [if_neg h2, h3, List.getElem?_map, List.getElem?_reverse hk]
  have : items.length - 1 - k < items.length := by omega
  simp [List.getElem?_eq_getElem this]

/-- the loop `while items[-(num_dead + 1)] is _MISSING: num_dead += 1` -/
theorem tail_loop {σ ρ φ : Type} (L : σ → List (Val α Unit)) (n : σ → Int) (frame : σ → φ)
    (c : σ → Except PyExc Bool) (body : Stmt σ ρ)
    (hc : ∀ t, c t = bx (PyRt.index? (L t) (-(n t + 1))) (fun v => .ok (Val.isSentinel v)))
    (hb : ∀ t, ∃ t', body t = (.next, t') ∧ L t' = L t ∧ n t' = n t + 1 ∧ frame t' = frame t)
    (items : List (Option α)) (htd : trailingDead items < items.length) :
    ∀ (fuel k : Nat) (t : σ), L t = items.map ofItem → n t = (k : Int) → k ≤ trailingDead items →
      trailingDead items - k < fuel →
      ∃ t', whileLoop c body fuel t = (.next, t') ∧ L t' = L t ∧ n t' = (trailingDead items : Int) ∧
        frame t' = frame t := by
  intro fuel
  induction fuel with
  | zero => intro k t _ _ _ h; omega
  | succ f ih =>
    intro k t hL hn hk hf
    have hidx := index?_from_end items k (by omega)
    simp only [whileLoop, hc, hL, hn, hidx, bx_ok]
    by_cases hlt : k < trailingDead items
    · obtain ⟨x, hx1, hx2⟩ := takeWhile_pos isTomb items.reverse k hlt
      cases x with
      | some y => simp [isTomb] at hx2
      | none =>
        obtain ⟨t1, hb1, hb2, hb3, hb4⟩ := hb t
        obtain ⟨t', h1, h2, h3, h4⟩ := ih (k + 1) t1 (hb2.trans hL) (by rw [hb3, hn]; simp) (by omega) (by omega)
        refine ⟨t', ?_, (h2.trans hb2).trans hL, h3, h4.trans hb4⟩
        simp [hx1, ofItem, Val.isSentinel, hb1, h1]
    · have hk2 : k = trailingDead items := by omega
      obtain ⟨x, hx1, hx2⟩ := takeWhile_stop isTomb items.reverse (by simpa [trailingDead] using htd)
      refine ⟨t, ?_, hL, by rw [hn, hk2], rfl⟩
      subst hk2
      cases x with
      | none => simp [isTomb] at hx2
      | some y =>
        unfold trailingDead
        simp [hx1, ofItem, Val.isSentinel]

theorem nil_or_snoc {β : Type} (l : List β) : l = [] ∨ ∃ L b, l = L ++ [b] := by
  cases h : l.reverse with
  | nil => left; simpa using h
  | cons b L =>
    right
    refine ⟨L.reverse, b, ?_⟩
    have := congrArg List.reverse h
    simpa using this

theorem popDeadFrom_snoc (d : List (Nat × Nat)) (p : Nat × Nat) (n : Nat) :
    popDeadFrom (d ++ [p]) n = if n ≤ p.1 then popDeadFrom d n else d ++ [p] := by
  simp only [popDeadFrom, List.reverse_append, List.reverse_cons, List.reverse_nil, List.nil_append,
    List.singleton_append, List.dropWhile_cons, startsAtOrAfter, decide_eq_true_eq]
  split <;> simp

theorem index?_last {β : Type} (L : List β) (x : β) : PyRt.index? (L ++ [x]) (-1) = .ok x := by
  unfold PyRt.index? PyRt.normIdx
  have h2 : (-1 + ((L ++ [x]).length : Int)).toNat = L.length := by simp; omega
  have h3 : ¬ (-1 + ((L ++ [x]).length : Int) < 0) := by simp; omega
  simp only [show ((-1 : Int) < 0) from by omega, if_true, h2, if_neg h3]
  simp

theorem delIdx?_last {β : Type} (L : List β) (x : β) : delIdx? (L ++ [x]) (-1) = .ok L := by
  unfold delIdx? PyRt.normIdx
  have h2 : (-1 + ((L ++ [x]).length : Int)).toNat = L.length := by simp; omega
  have h3 : 0 ≤ (-1 + ((L ++ [x]).length : Int)) ∧ (-1 + ((L ++ [x]).length : Int)) < ((L ++ [x]).length : Int) := by
    simp; omega
  simp only [show ((-1 : Int) < 0) from by omega, if_true, h2, if_pos h3]
  simp [List.eraseIdx_append_of_length_le]

/-- the loop `while ded and ded[-1][0] >= len(items): del ded[-1]` -/
theorem dead_loop {σ ρ φ : Type} (H : σ → Heap α Unit) (D : σ → List (Val α Unit)) (N : σ → Int) (frame : σ → φ)
    (c : σ → Except PyExc Bool) (body : Stmt σ ρ)
    (hc : ∀ t, c t = andE (.ok (!(D t).isEmpty)) (bx (bx (PyRt.index? (D t) (-1)) (fun v => Heap.get? (H t) v 0))
      (fun v7 => bx (asInt? v7) (fun v8 => .ok (decide (v8 ≥ N t))))))
    (hb : ∀ t L x, D t = L ++ [x] → ∃ t', body t = (.next, t') ∧ D t' = L ∧ H t' = H t ∧ N t' = N t ∧ frame t' = frame t)
    (n : Nat) :
    ∀ (fuel : Nat) (addrs : List Nat) (dead : List (Nat × Nat)) (t : σ), D t = addrs.map Val.ref →
      addrs.map (H t).cell = dead.map ivCell → N t = (n : Int) → dead.length < fuel →
      ∃ t' m, whileLoop c body fuel t = (.next, t') ∧ D t' = (addrs.take m).map Val.ref ∧ m ≤ dead.length ∧
        popDeadFrom dead n = dead.take m ∧ H t' = H t ∧ N t' = N t ∧ frame t' = frame t := by
  intro fuel
  induction fuel with
  | zero => intro _ _ _ _ _ _ h; omega
  | succ f ih =>
    intro addrs dead t hD hcells hN hf
    have hlen : addrs.length = dead.length := by simpa using congrArg List.length hcells
    rcases nil_or_snoc addrs with rfl | ⟨A, a, rfl⟩
    · have : dead = [] := by cases dead with | nil => rfl | cons _ _ => simp at hlen
      subst this
      refine ⟨t, 0, ?_, by simpa using hD, Nat.le_refl _, by simp [popDeadFrom], rfl, rfl, rfl⟩
      simp [whileLoop, hc, hD, andE]
    · rcases nil_or_snoc dead with rfl | ⟨d', p, rfl⟩
      · simp at hlen
      · simp only [List.map_append, List.map_cons, List.map_nil] at hcells hD
        have hl2 : (A.map (H t).cell).length = (d'.map (ivCell (κ := α))).length := by simp at hlen ⊢; omega
        obtain ⟨hc1, hc2⟩ := List.append_inj hcells hl2
        have hca : (H t).cell a = ivCell p := by simpa using hc2
        have hcond : c t = .ok (decide (n ≤ p.1)) := by
          rw [hc, hD]
          have hne : (List.map (Val.ref (κ := α) (ν := Unit)) A ++ [Val.ref a]).isEmpty = false := by
            cases A <;> rfl
          have hi0 : PyRt.index? [Val.int (p.1 : Int), Val.int (p.2 : Int)] 0
              = .ok (Val.int (p.1 : Int) : Val α Unit) := rfl
          simp only [andE, hne, Bool.not_false, bx_ok, if_true, index?_last, Heap.get?, hca, ivCell, hN, hi0, asInt?]
          simp
        by_cases hge : n ≤ p.1
        · obtain ⟨t1, hb1, hb2, hb3, hb4, hb5⟩ := hb t _ _ hD
          obtain ⟨t', m, h1, h2, h3, h4, h5, h6, h7⟩ := ih A d' t1 hb2 (by rw [hb3]; exact hc1) (by rw [hb4, hN])
            (by simp at hf; omega)
          refine ⟨t', m, ?_, ?_, by simp; omega, ?_, h5.trans hb3, h6.trans hb4, h7.trans hb5⟩
          · simp [whileLoop, hcond, hge, hb1, h1]
          · rw [h2, List.take_append_of_le_length (by simp at hlen; omega)]
          · rw [popDeadFrom_snoc, if_pos hge, h4, List.take_append_of_le_length h3]
        · refine ⟨t, (d' ++ [p]).length, ?_, ?_, Nat.le_refl _, ?_, rfl, rfl, rfl⟩
          · simp [whileLoop, hcond, hge]
          · rw [hD, ← hlen, ← List.map_singleton (f := Val.ref), ← List.map_append, List.take_length]
          · rw [popDeadFrom_snoc, if_neg hge, List.take_length]

/-- a prefix of a represented table is represented (what the loop of `_cull` leaves) -/
theorem RepDead.take {h : Heap α Unit} {addrs : List Nat} {dead : List (Nat × Nat)} (hnd : addrs.Nodup)
    (hc : addrs.map h.cell = dead.map ivCell) (m : Nat) :
    RepDead h ((addrs.take m).map Val.ref) (dead.take m) := by
  refine ⟨addrs.take m, rfl, hnd.sublist (List.take_sublist _ _), ?_⟩
  rw [List.map_take, List.map_take, hc]

/-! ### round 3f: what `remove` / `discard` / `pop` need -/

/-- consequences of the class invariant that `_cull`'s tie needs -/
theorem InvC.idx_le {s : ISet α} (h : InvC s) : s.idx.length ≤ s.items.length := by
  have h1 := h.perm.length_eq
  rw [IMap.length_keys] at h1
  rw [h1]
  unfold live; exact List.length_filterMap_le _ _

theorem takeWhile_all {β : Type} (p : β → Bool) : ∀ (R : List β), R.takeWhile p = R → ∀ y ∈ R, p y = true
  | [], _, y, hy => by simp at hy
  | z :: R, h, y, hy => by
    by_cases hp : p z = true
    · simp only [List.takeWhile_cons, hp, if_true, List.cons.injEq, true_and] at h
      rcases List.mem_cons.1 hy with rfl | hy
      · exact hp
      · exact takeWhile_all p R h y hy
    · simp [List.takeWhile_cons, hp] at h

theorem trailingDead_lt (l : List (Option α)) (x : α) (hx : x ∈ live l) : trailingDead l < l.length := by
  unfold trailingDead
  rcases Nat.lt_or_ge (l.reverse.takeWhile isTomb).length l.length with h | h
  · exact h
  · exfalso
    have hp : l.reverse.takeWhile isTomb <+: l.reverse := List.takeWhile_prefix _
    have he : l.reverse.takeWhile isTomb = l.reverse := hp.eq_of_length_le (by simpa using h)
    have hall : ∀ y ∈ l.reverse, isTomb y = true := by
      intro y hy
      exact takeWhile_all isTomb l.reverse he y hy
    have := (mem_live l x).1 hx
    have h2 := hall (some x) (by simpa using this)
    simp [isTomb] at h2

theorem InvC.trailing {s : ISet α} (h : InvC s) (hne : s.idx ≠ []) : trailingDead s.items < s.items.length := by
  cases hi : s.idx with
  | nil => exact absurd hi hne
  | cons p m =>
    have hk : p.1 ∈ IMap.keys s.idx := by rw [hi]; simp [IMap.keys]
    exact trailingDead_lt s.items p.1 (h.perm.mem_iff.1 hk)

theorem addDead_length_le (d : List (Nat × Nat)) (i : Nat) : (addDead d i).length ≤ d.length + 1 := by
  unfold addDead
  split
  · simp_all
  · simp only
    split
    · omega
    · split
      · simp
      · split
        · simp
        · rw [List.length_insertIdx]; split <;> omega

theorem pop?_castIdx (m : IMap α) (x : α) (hn : (IMap.keys m).Nodup) :
    PyRt.Dict.pop? (castIdx m) x = match IMap.lookup m x with
      | some n => .ok ((n : Int), castIdx (IMap.erase m x))
      | none => .error PyExc.KeyError := by
  unfold PyRt.Dict.pop?
  rw [find_castIdx, erase_castIdx m x hn]
  cases IMap.lookup m x <;> rfl

theorem setIdx?_tomb (items : List (Option α)) (i : Nat) (hi : i < items.length) :
    setIdx? (items.map ofItem) (i : Int) Val.sentinel = .ok ((items.map ofItem).set i Val.sentinel) := by
  unfold setIdx? PyRt.normIdx
  have h0 : ¬ ((i : Int) < 0) := by omega
  simp only [h0, if_false, List.length_map]
  rw [if_pos (by omega)]
  simp

theorem map_set_tomb (items : List (Option α)) (i : Nat) :
    (items.set i none).map ofItem = (items.map ofItem).set i Val.sentinel := by simp [List.map_set]


/-- the loop `for d_start, d_stop in self.dead_indices: if real_index < d_start: break; real_index += d_stop - d_start`
    read through the store, whatever its body looks like, as long as one iteration on the cell `[a, b]` either breaks
    (running value below `a`) or adds `b - a` -/
theorem cells_real_loop {σ ρ : Type} (H : σ → Heap α Unit) (D : σ → List (Val α Unit)) (K : σ → Int)
    (keep : Val α Unit → Bool) (bind : Int → Val α Unit → σ → σ) (body : Stmt σ ρ) (hkeep : ∀ v, keep v = true)
    (hbody : ∀ (t : σ) (a : Nat) (p : Nat × Nat) (iv : Int), (H t).cell a = ivCell p → p.1 ≤ p.2 → 0 ≤ K t →
      (K t < p.1 → ∃ t', body (bind iv (.ref a) t) = (.brk, t') ∧ K t' = K t ∧ H t' = H t ∧ D t' = D t) ∧
      (¬ K t < p.1 → ∃ t', body (bind iv (.ref a) t) = (.next, t') ∧ K t' = K t + ((p.2 : Int) - p.1) ∧ H t' = H t ∧
        D t' = D t)) :
    ∀ (dead : List (Nat × Nat)) (addrs : List Nat) (pre : List (Val α Unit)) (fuel : Nat) (iv : Int) (t : σ) (r : Nat),
      D t = pre ++ addrs.map Val.ref → addrs.map (H t).cell = dead.map ivCell → K t = (r : Int) →
      (∀ p ∈ dead, p.1 ≤ p.2) → dead.length < fuel →
      ∃ t', forLazy D keep bind body fuel pre.length iv t = (.next, t') ∧ K t' = (realLoop r dead : Int) ∧ H t' = H t ∧
        D t' = D t := by
  intro dead
  induction dead with
  | nil =>
    intro addrs pre fuel iv t r hD hc hK _ hf
    obtain ⟨n, rfl⟩ : ∃ n, fuel = n + 1 := ⟨fuel - 1, by omega⟩
    have : addrs = [] := by cases addrs with | nil => rfl | cons _ _ => simp at hc
    subst this
    refine ⟨t, ?_, by simpa [realLoop] using hK, rfl, rfl⟩
    simp [forLazy, hD]
  | cons p ds ih =>
    intro addrs pre fuel iv t r hD hc hK hord hf
    obtain ⟨n, rfl⟩ : ∃ n, fuel = n + 1 := ⟨fuel - 1, by omega⟩
    cases addrs with
    | nil => simp at hc
    | cons a as =>
      simp only [List.map_cons, List.cons.injEq] at hc
      obtain ⟨hca, hcs⟩ := hc
      have hget : (D t)[pre.length]? = some (Val.ref a) := by rw [hD]; simp
      obtain ⟨a0, b0⟩ := p
      have hb := hbody t a (a0, b0) iv hca (hord _ (by simp)) (by omega)
      simp only [forLazy, hget, hkeep, if_true, realLoop]
      by_cases hlt : r < a0
      · obtain ⟨t', h1, h2, h3, h4⟩ := hb.1 (by simp only; omega)
        rw [h1, if_pos hlt]
        exact ⟨t', rfl, by rw [h2, hK], h3, h4⟩
      · obtain ⟨t', h1, h2, h3, h4⟩ := hb.2 (by simp only; omega)
        rw [h1, if_neg hlt]
        have hab : a0 ≤ b0 := hord (a0, b0) (by simp)
        obtain ⟨t2, g1, g2, g3, g4⟩ := ih as (pre ++ [Val.ref a]) n (iv + 1) t' (r + (b0 - a0))
          (by rw [h4, hD]; simp) (by rw [h3]; exact hcs) (by rw [h2, hK]; simp only; omega)
          (fun q hq => hord q (List.mem_cons_of_mem _ hq)) (by simp at hf; omega)
        refine ⟨t2, ?_, g2, g3.trans h3, g4.trans h4⟩
        simpa using g1


/-- the state before `_cull` in `pop()` of the last slot keeps the invariant (the argument of `popLast_spec`) -/
theorem invC_dropLast (s : ISet α) (h : InvC s) (x : α) (hl : s.items.getLast? = some (some x)) :
    InvC (⟨s.items.dropLast, IMap.erase s.idx x, s.dead⟩ : ISet α) := by
  have hlive := live_dropLast_some s.items x hl
  have hxnot : x ∉ live s.items.dropLast := by
    intro hm
    have := h.nodup
    rw [hlive, List.nodup_append] at this
    exact this.2.2 x hm x (by simp) rfl
  have hne' : s.items ≠ [] := by intro e; rw [e] at hl; simp at hl
  have hlen : 0 < s.items.length := by cases hi : s.items with | nil => exact absurd hi hne' | cons a b => simp
  have hslot : s.items[s.items.length - 1]? = some (some x) := by
    rw [← List.getLast?_eq_getElem?]; exact hl
  have hget : ∀ j, j < s.items.length - 1 → s.items.dropLast[j]? = s.items[j]? := by
    intro j hj
    rw [List.dropLast_eq_take, List.getElem?_take]; simp [hj]
  refine { nodup := ?_, perm := ?_, look := ?_, chain := ?_, tombs := ?_ }
  · show (live s.items.dropLast).Nodup
    have := h.nodup
    rw [hlive, List.nodup_append] at this
    exact this.1
  · show (IMap.keys (IMap.erase s.idx x)).Perm (live s.items.dropLast)
    rw [IMap.keys_erase]
    have := h.perm.erase x
    rw [hlive, List.erase_append_right _ hxnot] at this
    simpa using this
  · intro y j hly
    show s.items.dropLast[j]? = some (some y)
    have hyx : x ≠ y := by
      intro e; subst e
      rw [IMap.lookup_erase_self _ _ h.keys_nodup] at hly; cases hly
    rw [IMap.lookup_erase_ne _ _ _ hyx] at hly
    have hj := h.look y j hly
    have hjl := getElem?_lt hj
    have : j ≠ s.items.length - 1 := by
      intro e; subst e; rw [hslot] at hj; simp at hj; exact hyx hj
    rw [hget j (by omega)]; exact hj
  · show Chain 0 s.dead s.items.dropLast.length
    rw [List.length_dropLast]
    apply chain_tighten_hi s.dead 0 _ _ h.chain (Nat.zero_le _)
    intro p hp
    have hcp := chain_mem s.dead 0 _ p h.chain hp
    rcases Nat.lt_or_ge (s.items.length - 1) p.2 with hgt | hle
    · exfalso
      have := (h.tombs (s.items.length - 1) (Nat.zero_le _) (by omega)).2 ⟨p, hp, by omega, by omega⟩
      rw [hslot] at this; simp at this
    · exact hle
  · intro j _ hj
    show s.items.dropLast[j]? = some none ↔ DeadAt s.dead j
    have hj : j < s.items.dropLast.length := hj
    rw [List.length_dropLast] at hj
    rw [hget j hj]; exact h.tombs j (Nat.zero_le _) (by omega)

theorem popLast?_items (items : List (Option α)) (o : Option α) (hl : items.getLast? = some o) :
    PyRt.popLast? (items.map ofItem) = .ok (ofItem o, (items.map ofItem).dropLast) := by
  unfold PyRt.popLast?
  rw [List.getLast?_map, hl]; rfl

theorem del?_castIdx (m : IMap α) (x : α) (hn : (IMap.keys m).Nodup) (hx : (IMap.lookup m x).isSome) :
    PyRt.Dict.del? (castIdx m) x = .ok (castIdx (IMap.erase m x)) := by
  unfold PyRt.Dict.del?
  rw [contains_castIdx, hx, erase_castIdx m x hn]; rfl

theorem index?_items (items : List (Option α)) (r : Nat) (o : Option α) (h : items[r]? = some o) :
    PyRt.index? (items.map ofItem) (r : Int) = .ok (ofItem o) := by
  have hr := getElem?_lt h
  unfold PyRt.index? PyRt.normIdx
  have h0 : ¬ ((r : Int) < 0) := by omega
  simp [h0, h]


/-- the loop `for d_start, d_stop in self.dead_indices: if index < d_start: break; apparent_index -= d_stop - d_start`
    read through the store (`I` = the observed index, kept; `K` = the running value) -/
theorem cells_app_loop {σ ρ : Type} (H : σ → Heap α Unit) (D : σ → List (Val α Unit)) (K I : σ → Int)
    (keep : Val α Unit → Bool) (bind : Int → Val α Unit → σ → σ) (body : Stmt σ ρ) (hkeep : ∀ v, keep v = true) (r : Nat)
    (hbody : ∀ (t : σ) (a : Nat) (p : Nat × Nat) (iv : Int), (H t).cell a = ivCell p → p.1 ≤ p.2 → I t = (r : Int) →
      ((r : Int) < p.1 → ∃ t', body (bind iv (.ref a) t) = (.brk, t') ∧ K t' = K t ∧ I t' = I t ∧ H t' = H t ∧ D t' = D t) ∧
      (¬ (r : Int) < p.1 → ∃ t', body (bind iv (.ref a) t) = (.next, t') ∧ K t' = K t - ((p.2 : Int) - p.1) ∧ I t' = I t ∧
        H t' = H t ∧ D t' = D t)) :
    ∀ (dead : List (Nat × Nat)) (addrs : List Nat) (pre : List (Val α Unit)) (fuel : Nat) (iv : Int) (t : σ)
      (lo hi app : Nat),
      D t = pre ++ addrs.map Val.ref → addrs.map (H t).cell = dead.map ivCell → K t = (app : Int) → I t = (r : Int) →
      Chain lo dead hi → (∀ p ∈ dead, ¬ (p.1 ≤ r ∧ r < p.2)) → r ≤ app + lo → app ≤ r → dead.length < fuel →
      ∃ t', forLazy D keep bind body fuel pre.length iv t = (.next, t') ∧ K t' = (appLoop r app dead : Int) := by
  intro dead
  induction dead with
  | nil =>
    intro addrs pre fuel iv t lo hi app hD hc hK _ _ _ _ _ hf
    obtain ⟨n, rfl⟩ : ∃ n, fuel = n + 1 := ⟨fuel - 1, by omega⟩
    have : addrs = [] := by cases addrs with | nil => rfl | cons _ _ => simp at hc
    subst this
    refine ⟨t, ?_, by simpa [appLoop] using hK⟩
    simp [forLazy, hD]
  | cons p ds ih =>
    intro addrs pre fuel iv t lo hi app hD hc hK hI hch hl hlo hle hf
    obtain ⟨n, rfl⟩ : ∃ n, fuel = n + 1 := ⟨fuel - 1, by omega⟩
    cases addrs with
    | nil => simp at hc
    | cons a as =>
      simp only [List.map_cons, List.cons.injEq] at hc
      obtain ⟨hca, hcs⟩ := hc
      have hget : (D t)[pre.length]? = some (Val.ref a) := by rw [hD]; simp
      obtain ⟨a0, b0⟩ := p
      simp only [Chain] at hch
      have hnot := hl (a0, b0) (by simp)
      simp only at hnot
      have hb := hbody t a (a0, b0) iv hca (by simp only; omega) hI
      simp only [forLazy, hget, hkeep, if_true, appLoop]
      by_cases hlt : r < a0
      · obtain ⟨t', h1, h2, _, _, _⟩ := hb.1 (by simp only; omega)
        rw [h1, if_pos hlt]
        exact ⟨t', rfl, by rw [h2, hK]⟩
      · obtain ⟨t', h1, h2, h3, h4, h5⟩ := hb.2 (by simp only; omega)
        rw [h1, if_neg hlt]
        have hb0 : b0 ≤ r := by omega
        obtain ⟨t2, g1, g2⟩ := ih as (pre ++ [Val.ref a]) n (iv + 1) t' b0 hi (app - (b0 - a0))
          (by rw [h5, hD]; simp) (by rw [h4]; exact hcs) (by rw [h2, hK]; simp only; omega) (h3.trans hI) hch.2.2
          (fun q hq => hl q (List.mem_cons_of_mem _ hq)) (by omega) (by omega) (by simp at hf; omega)
        refine ⟨t2, ?_, g2⟩
        simpa using g1

theorem get?_castIdx (m : IMap α) (x : α) :
    PyRt.Dict.get? (castIdx m) x = match IMap.lookup m x with
      | some n => .ok (n : Int)
      | none => .error PyExc.KeyError := by
  unfold PyRt.Dict.get?
  rw [find_castIdx]
  cases IMap.lookup m x <;> rfl


theorem index?_items_none (items : List (Option α)) (r : Nat) (h : items[r]? = none) :
    PyRt.index? (items.map ofItem) (r : Int) = .error PyExc.IndexError := by
  unfold PyRt.index? PyRt.normIdx
  have h0 : ¬ ((r : Int) < 0) := by omega
  simp [h0, h]


end RepSec

end C11
