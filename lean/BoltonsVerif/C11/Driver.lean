import BoltonsVerif.Common
import BoltonsVerif.C11.Model
import BoltonsVerif.Generated.C11_Consts
/-
C11 line protocol.  One line = one whole history:

    <cf> <n0> <tok> <tok> ...

  cf   compaction factor in force (0 = the generated `_COMPACTION_FACTOR`); the interval
       limit is always the generated literal
  n0   the receiver starts as IndexedSet(range(n0))
  mutators   a<x> add   r<x> remove   d<x> discard   p pop()   P<i> pop(i)   c clear
             s0|s1 sort(reverse=0|1)   v reverse
             u<ops> update   n<ops> intersection_update   m<ops> difference_update
             x<op> symmetric_difference_update
  queries    i iter   l len   h<x> in   g<i> s[i]   :<a>,<b>,<c> s[a:b:c] (`_` = None)
             k<x> index   t<x> count   w reversed
             U<ops> union  N<ops> intersection  M<ops> difference  X<ops> symmetric_difference
             B<op> other - s   e<op> issubset   E<op> issuperset   j<op> isdisjoint
             f<nk> full dump (iter | reversed | len | s[i] for -n<=i<n | index of each | x in s for x<nk)
  <ops> = operands separated by `/` (none at all = no operand); an operand is a kind letter
          (S = the receiver itself, I = another IndexedSet, C = set/frozenset/list/tuple)
          followed by the items its iteration yields, comma separated (`-` = empty)
  `consts` prints the generated constants.

Output: one `;`-separated record per token:
  N (None)  I<n>  B0|B1  V<item>  L<items>  S<sorted items>  X<ExceptionName>  F...
-/
namespace C11.Driver
open BV C11

def errName : Err → String
  | .keyError => "KeyError"
  | .indexError => "IndexError"
  | .valueError => "ValueError"
  | .domain => "OutOfModel"

def showOut : Out Nat → String
  | .unit => "N"
  | .nat n => s!"I{n}"
  | .bool b => if b then "B1" else "B0"
  | .item x => s!"V{x}"
  | .list l => "L" ++ showNats l
  | .err e => "X" ++ errName e

def parseOperand? (w : String) : Option (Operand Nat) :=
  let rest := (w.drop 1).toString
  match w.front with
  | 'S' => some ⟨.self, []⟩
  | 'I' => (natList? rest).map fun l => ⟨.iset, l⟩
  | 'C' => (natList? rest).map fun l => ⟨.coll, l⟩
  | _ => none

def parseOperands? (s : String) : Option (List (Operand Nat)) :=
  if s = "" then some [] else
  (splitOnChar s '/').foldr (fun w acc =>
    match acc, parseOperand? w with
    | some l, some o => some (o :: l)
    | _, _ => none) (some [])

def optInt? (w : String) : Option (Option Int) :=
  if w = "_" then some none else w.toInt?.map some

def leNat (a b : Nat) : Bool := a ≤ b

def showGet (s : ISet Nat) (i : Int) : String :=
  match s.getItem i with
  | .ok x => toString x
  | .error e => "X" ++ errName e

def showIndex (s : ISet Nat) (x : Nat) : String :=
  match s.index x with
  | .ok n => toString n
  | .error e => "X" ++ errName e

def joinOr (l : List String) : String := if l.isEmpty then "-" else ",".intercalate l

def full (s : ISet Nat) (nk : Nat) : String :=
  let n := s.len
  let idxs : List Int := (List.range (2 * n)).map fun (k : Nat) => (Int.ofNat k) - (Int.ofNat n)
  "F" ++ "|".intercalate [
    showNats s.toList, showNats s.reversed, toString n,
    joinOr (idxs.map (showGet s)),
    joinOr (s.toList.map (showIndex s)),
    joinOr ((List.range nk).map fun x => if s.contains x then "1" else "0")]

def parseOp? (tok : String) : Option (Op Nat) :=
  let rest := (tok.drop 1).toString
  match tok.front with
  | 'a' => rest.toNat?.map .add
  | 'r' => rest.toNat?.map .remove
  | 'd' => rest.toNat?.map .discard
  | 'p' => if rest = "" then some .pop else none
  | 'P' => rest.toInt?.map .popAt
  | 'c' => if rest = "" then some .clear else none
  | 's' => if rest = "0" then some (.sort false) else if rest = "1" then some (.sort true) else none
  | 'v' => if rest = "" then some .reverse else none
  | 'u' => (parseOperands? rest).map .update
  | 'n' => (parseOperands? rest).map .interUpdate
  | 'm' => (parseOperands? rest).map .diffUpdate
  | 'x' => (parseOperand? rest).map .symUpdate
  | 'i' => if rest = "" then some .iter else none
  | 'l' => if rest = "" then some .len else none
  | 'h' => rest.toNat?.map .contains
  | 'g' => rest.toInt?.map .get
  | ':' => match splitOnChar rest ',' with
    | [a, b, c] => match optInt? a, optInt? b, optInt? c with
      | some a, some b, some c => some (.slice a b c)
      | _, _, _ => none
    | _ => none
  | 'k' => rest.toNat?.map .index
  | 't' => rest.toNat?.map .count
  | 'w' => if rest = "" then some .reversed else none
  | 'U' => (parseOperands? rest).map .union
  | 'N' => (parseOperands? rest).map .inter
  | 'M' => (parseOperands? rest).map .diff
  | 'X' => (parseOperands? rest).map .symdiff
  | 'B' => (parseOperand? rest).map .rsub
  | 'e' => (parseOperand? rest).map .issubset
  | 'E' => (parseOperand? rest).map .issuperset
  | 'j' => (parseOperand? rest).map .isdisjoint
  | _ => none

def natLe (a b : Nat) : Bool := a ≤ b

def sortedNats (l : List Nat) : List Nat := l.mergeSort natLe

def stepTok (cfg : Cfg) (s : ISet Nat) (tok : String) : Option (ISet Nat × String) :=
  if tok.front = 'f' then
    ((tok.drop 1).toString.toNat?).map fun nk => (s, full s nk)
  else
    (parseOp? tok).map fun op =>
      let r := step cfg leNat s op
      match op, r.2 with
      | .rsub _, .list l => (r.1, "S" ++ showNats (sortedNats l))
      | _, out => (r.1, showOut out)

def runToks (cfg : Cfg) : ISet Nat → List String → List String → Option (List String)
  | _, [], acc => some acc.reverse
  | s, t :: ts, acc =>
    match stepTok cfg s t with
    | some (s', out) => runToks cfg s' ts (out :: acc)
    | none => none

def handle (line : String) : String :=
  match words line with
  | ["consts"] => s!"COMPACTION_FACTOR={Gen.COMPACTION_FACTOR} CULL_INTERVAL_LIMIT={Gen.CULL_INTERVAL_LIMIT}"
  | cf :: n0 :: toks =>
    match cf.toNat?, n0.toNat? with
    | some cf, some n0 =>
      let cfg : Cfg := ⟨if cf = 0 then Gen.COMPACTION_FACTOR else cf, Gen.CULL_INTERVAL_LIMIT⟩
      match runToks cfg (ISet.ofList (List.range n0)) toks [] with
      | some outs => ";".intercalate outs
      | none => "bad-op"
    | _, _ => "bad-op"
  | _ => "bad-op"

end C11.Driver
