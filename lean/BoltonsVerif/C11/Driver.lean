import BoltonsVerif.Common
import BoltonsVerif.C11.Model
import BoltonsVerif.Generated.C11_Consts
/-
C11 line protocol.  One line = one whole history:

    <cf> <n0> <tok> <tok> ...

  cf   compaction factor in force (0 = the generated `_COMPACTION_FACTOR`); the interval
       limit is always the generated literal
  n0   the receiver starts as IndexedSet(range(n0))
  mutators   a<x> add   r<x> remove   d<x> discard   p pop()   P<i> pop(i)   c clear
             s0|s1 sort(reverse=0|1)   v reverse
             y<rev>|<key>|<bad> sort(key=<key>, reverse=<rev>) where comparing any item of <bad> raises;
                    <key> = i identity / n negated / m<k> x%k / d<k> x//k / c constant
             u<ops> update   n<ops> intersection_update   m<ops> difference_update
             x<op> symmetric_difference_update
  queries    i iter   l len   h<x> in   g<i> s[i]   :<a>,<b>,<c> s[a:b:c] (`_` = None)
             k<x> index   t<x> count   w reversed
             U<ops> union  N<ops> intersection  M<ops> difference  X<ops> symmetric_difference
             B<op> other - s   e<op> issubset   E<op> issuperset   j<op> isdisjoint
             f<nk> full dump (iter | reversed | len | s[i] for -n<=i<n | index of each | x in s for x<nk)
  <ops> = operands separated by `/` (none at all = no operand); an operand is a kind letter
          (S = the receiver itself, I = another IndexedSet, C = set/frozenset/list/tuple)
          followed by the items its iteration yields, comma separated (`-` = empty),
          or R<k> = the set in register k as it is now (the current register = the receiver itself)
  registers  @<k> the following tokens act on register k (0 = the receiver; must exist)
             +<query token> run the query (U N M X : i) on the current register and keep the set it
                    returns as a new register
  `consts` prints the generated constants.

Output: one `;`-separated record per token:
  N (None)  I<n>  B0|B1  V<item>  L<items>  S<sorted items>  X<ExceptionName>  F...
-/
namespace C11.Driver
open BV C11

def errName : Err → String
  | .keyError => "KeyError"
  | .indexError => "IndexError"
  | .valueError => "ValueError"
  | .domain => "OutOfModel"
  | .cmpError => "CmpError"

def showOut : Out Nat → String
  | .unit => "N"
  | .nat n => s!"I{n}"
  | .bool b => if b then "B1" else "B0"
  | .item x => s!"V{x}"
  | .list l => "L" ++ showNats l
  | .err e => "X" ++ errName e

/-- `views` = what iterating each register yields now, `cur` = the register operated on -/
def parseOperand? (views : List (List Nat)) (cur : Nat) (w : String) : Option (Operand Nat) :=
  let rest := (w.drop 1).toString
  match w.front with
  | 'S' => some ⟨.self, []⟩
  | 'I' => (natList? rest).map fun l => ⟨.iset, l⟩
  | 'C' => (natList? rest).map fun l => ⟨.coll, l⟩
  | 'R' => match rest.toNat? with
    | some k => if k = cur then some ⟨.self, []⟩ else (views[k]?).map fun l => ⟨.iset, l⟩
    | none => none
  | _ => none

def parseOperands? (views : List (List Nat)) (cur : Nat) (s : String) : Option (List (Operand Nat)) :=
  if s = "" then some [] else
  (splitOnChar s '/').foldr (fun w acc =>
    match acc, parseOperand? views cur w with
    | some l, some o => some (o :: l)
    | _, _ => none) (some [])

/-- the order induced by a sort key -/
def keyLe? (k : String) : Option (Nat → Nat → Bool) :=
  let rest := (k.drop 1).toString
  match k.front with
  | 'i' => if rest = "" then some (fun a b => decide (a ≤ b)) else none
  | 'n' => if rest = "" then some (fun a b => decide (b ≤ a)) else none
  | 'c' => if rest = "" then some (fun _ _ => true) else none
  | 'm' => match rest.toNat? with
    | some (m + 1) => some (fun a b => decide (a % (m + 1) ≤ b % (m + 1)))
    | _ => none
  | 'd' => match rest.toNat? with
    | some (m + 1) => some (fun a b => decide (a / (m + 1) ≤ b / (m + 1)))
    | _ => none
  | _ => none

def optInt? (w : String) : Option (Option Int) :=
  if w = "_" then some none else w.toInt?.map some

def leNat (a b : Nat) : Bool := a ≤ b

def showGet (s : ISet Nat) (i : Int) : String :=
  match s.getItem i with
  | .ok x => toString x
  | .error e => "X" ++ errName e

def showIndex (s : ISet Nat) (x : Nat) : String :=
  match s.index x with
  | .ok n => toString n
  | .error e => "X" ++ errName e

def joinOr (l : List String) : String := if l.isEmpty then "-" else ",".intercalate l

def full (s : ISet Nat) (nk : Nat) : String :=
  let n := s.len
  let idxs : List Int := (List.range (2 * n)).map fun (k : Nat) => (Int.ofNat k) - (Int.ofNat n)
  "F" ++ "|".intercalate [
    showNats s.toList, showNats s.reversed, toString n,
    joinOr (idxs.map (showGet s)),
    joinOr (s.toList.map (showIndex s)),
    joinOr ((List.range nk).map fun x => if s.contains x then "1" else "0")]

def parseOp? (views : List (List Nat)) (cur : Nat) (tok : String) : Option (Op Nat) :=
  let rest := (tok.drop 1).toString
  let parseOperands? := parseOperands? views cur
  let parseOperand? := parseOperand? views cur
  match tok.front with
  | 'a' => rest.toNat?.map .add
  | 'r' => rest.toNat?.map .remove
  | 'd' => rest.toNat?.map .discard
  | 'p' => if rest = "" then some .pop else none
  | 'P' => rest.toInt?.map .popAt
  | 'c' => if rest = "" then some .clear else none
  | 's' => if rest = "0" then some (.sort false) else if rest = "1" then some (.sort true) else none
  | 'v' => if rest = "" then some .reverse else none
  | 'y' => match splitOnChar rest '|' with
    | [r, k, b] => match keyLe? k, natList? b with
      | some lek, some bad =>
        if r = "0" then some (.sortBy lek false bad) else if r = "1" then some (.sortBy lek true bad) else none
      | _, _ => none
    | _ => none
  | 'u' => (parseOperands? rest).map .update
  | 'n' => (parseOperands? rest).map .interUpdate
  | 'm' => (parseOperands? rest).map .diffUpdate
  | 'x' => (parseOperand? rest).map .symUpdate
  | 'i' => if rest = "" then some .iter else none
  | 'l' => if rest = "" then some .len else none
  | 'h' => rest.toNat?.map .contains
  | 'g' => rest.toInt?.map .get
  | ':' => match splitOnChar rest ',' with
    | [a, b, c] => match optInt? a, optInt? b, optInt? c with
      | some a, some b, some c => some (.slice a b c)
      | _, _, _ => none
    | _ => none
  | 'k' => rest.toNat?.map .index
  | 't' => rest.toNat?.map .count
  | 'w' => if rest = "" then some .reversed else none
  | 'U' => (parseOperands? rest).map .union
  | 'N' => (parseOperands? rest).map .inter
  | 'M' => (parseOperands? rest).map .diff
  | 'X' => (parseOperands? rest).map .symdiff
  | 'B' => (parseOperand? rest).map .rsub
  | 'e' => (parseOperand? rest).map .issubset
  | 'E' => (parseOperand? rest).map .issuperset
  | 'j' => (parseOperand? rest).map .isdisjoint
  | _ => none

def natLe (a b : Nat) : Bool := a ≤ b

def sortedNats (l : List Nat) : List Nat := l.mergeSort natLe

def showStep (op : Op Nat) (out : Out Nat) : String :=
  match op, out with
  | .rsub _, .list l => "S" ++ showNats (sortedNats l)
  | _, out => showOut out

def stepTok (cfg : Cfg) (m : Mach Nat) (tok : String) : Option (Mach Nat × String) :=
  let rest := (tok.drop 1).toString
  match tok.front with
  | 'f' => (rest.toNat?).map fun nk => (m, full m.curSet nk)
  | '_' => some (m, "N")     -- a read outside the property statement's domain: not compared
  | '@' => match rest.toNat? with
    | some k => if k < m.regs.length then some ((mstep cfg leNat m (.sel k)).1, "N") else none
    | none => none
  | '+' =>
    let cur := m.cur
    (parseOp? m.views cur rest).map fun op =>
      let r := mstep cfg leNat m (.fork fun vs => (parseOp? vs cur rest).getD .iter)
      (r.1, showStep op r.2)
  | _ =>
    let cur := m.cur
    (parseOp? m.views cur tok).map fun op =>
      let r := mstep cfg leNat m (.run fun vs => (parseOp? vs cur tok).getD .iter)
      (r.1, showStep op r.2)

def runToks (cfg : Cfg) : Mach Nat → List String → List String → Option (List String)
  | _, [], acc => some acc.reverse
  | m, t :: ts, acc =>
    match stepTok cfg m t with
    | some (m', out) => runToks cfg m' ts (out :: acc)
    | none => none

def handle (line : String) : String :=
  match words line with
  | ["consts"] => s!"COMPACTION_FACTOR={Gen.COMPACTION_FACTOR} CULL_INTERVAL_LIMIT={Gen.CULL_INTERVAL_LIMIT}"
  | "bisect" :: c1 :: c2 :: rest =>
    -- validation of the `bisect_left` algorithm model: `bisect c1 c2 a1 b1 a2 b2 ...`
    match c1.toNat?, c2.toNat?, rest.mapM String.toNat? with
    | some c1, some c2, some ns =>
      let rec pairs : List Nat → List (Nat × Nat)
        | a :: b :: r => (a, b) :: pairs r
        | _ => []
      let dl := pairs ns
      s!"py={bisectLeftPy dl (c1, c2)} abs={bisectLeft dl (c1, c2)}"
    | _, _, _ => "bad-op"
  | cf :: n0 :: toks =>
    match cf.toNat?, n0.toNat? with
    | some cf, some n0 =>
      let cfg : Cfg := ⟨if cf = 0 then Gen.COMPACTION_FACTOR else cf, Gen.CULL_INTERVAL_LIMIT⟩
      match runToks cfg ⟨[ISet.ofList (List.range n0)], 0⟩ toks [] with
      | some outs => ";".intercalate outs
      | none => "bad-op"
    | _, _ => "bad-op"
  | _ => "bad-op"

end C11.Driver
