import BoltonsVerif.PyRtC08
import BoltonsVerif.C08.Model
/-
C08 — the MEANING of the spec-declared operations of `harness/py2lean_c08.py` (object-graph mode) on the heap of the
C08 model: objects are `C08.Obj`, keys are `C08.Atom`, the store is a `C08.Heap`.  Definitions only (the tie theorems
are in `SrcTie.lean`).  `gOps id` (one heap for reads and writes = the Python heap) is the instance the translator
self-test (`harness/py2lean_c08_selftest.py`) runs against CPython on real object graphs, so that not only the
translation but also these assumed meanings are validated on every run.

Domain (outside it the operations are not claimed to be what Python does; the self-test stays inside):
scalars are `None`, ints and strings; strings are never indexed into (`'ab'[0]`); numeral strings are plain
`-?[0-9]+`; members of sets / keys of dicts are hashable; graphs handed to the deep printer are acyclic.
An operation result `Exc.Other` means "not specified".
-/
namespace C08
open PyRtC08

/-! ## 1. the meaning of the declared operations on the model heap -/

/-- the container behind a reference (scalars and dangling references: none) -/
def nodeOf (h : Heap) : Obj → Option Node
  | .atom _ => none
  | .ref id => h[id]?

/-- `enumerate(seq)` -/
def pyEnumerate (i : Nat) : List Obj → List (Key × Obj)
  | [] => []
  | o :: r => (.int i, o) :: pyEnumerate (i + 1) r

/-- `int(seg)` on a scalar -/
def atomToInt : Atom → Except Exc Atom
  | .int i => .ok (.int i)
  | .bool b => .ok (.int (if b then 1 else 0))
  | .float t => .ok (.int (Int.tdiv t 2))
  | .str s => match s.toInt? with
    | some i => .ok (.int i)
    | none => .error .ValueError
  | .bytes b => match (String.ofList (b.map Char.ofNat)).toInt? with
    | some i => .ok (.int i)
    | none => .error .ValueError
  | .none => .error .TypeError
  | .other _ => .error .TypeError

/-- `seq[i]` for an int (negative: from the end) -/
def seqIndex (l : List Obj) (i : Int) : Except Exc Obj :=
  if 0 ≤ i then
    match l[i.toNat]? with
    | some o => .ok o
    | none => .error .IndexError
  else if 0 ≤ (l.length : Int) + i then
    match l[((l.length : Int) + i).toNat]? with
    | some o => .ok o
    | none => .error .IndexError
  else .error .IndexError

/-- `cur[seg]`: dict lookup, list / tuple index (ints and bools), `TypeError` for sets and scalars
    (str / bytes leaves are not indexed into: outside the domain of the tie) -/
def getitemH (h : Heap) (cur : Obj) (seg : Atom) : Except Exc Obj :=
  match nodeOf h cur with
  | none => .error .TypeError
  | some nd =>
    match nd.kind with
    | .dict => match lookupKey seg nd.items with
      | some o => .ok o
      | none => .error .KeyError
    | .set => .error .TypeError
    | .fset => .error .TypeError
    | _ => match seg with
      | .int i => seqIndex (nd.items.map Prod.snd) i
      | .bool b => seqIndex (nd.items.map Prod.snd) (if b then 1 else 0)
      | _ => .error .TypeError

def isStrBytesA : Obj → Bool
  | .atom (.str _) => true
  | .atom (.bytes _) => true
  | _ => false

def kindIn (h : Heap) (o : Obj) (p : Kind → Bool) : Bool :=
  match nodeOf h o with
  | some nd => p nd.kind
  | none => false

/-- the declared operations on the model heap; reads go to `rd s`, writes and allocations to the store `s` -/
def gOps (rd : Heap → Heap) : Ops Heap Obj Atom where
  getitem s cur seg := getitemH (rd s) cur seg
  toInt := atomToInt
  isIterable s v := isStrBytesA v || (nodeOf (rd s) v).isSome
  isStrBytes _ v := isStrBytesA v
  isStr _ v := match v with | .atom (.str _) => true | _ => false
  isBytes _ v := match v with | .atom (.bytes _) => true | _ => false
  isMapping s v := kindIn (rd s) v (· == .dict)
  isSequence s v := isStrBytesA v || kindIn (rd s) v (fun k => k == .list || k == .tuple)
  isSet s v := kindIn (rd s) v Kind.isSet
  newOfClass s v := match nodeOf (rd s) v with
    | some nd => .ok (.ref s.length, s ++ [⟨nd.kind, []⟩])
    | none => .error .Other
  itemsView s v := match nodeOf (rd s) v with
    | some nd => nd.items
    | none => []
  enumerate s v := match nodeOf (rd s) v with
    | some nd => pyEnumerate 0 (nd.items.map Prod.snd)
    | none => []
  updatePairs s v items := match v with
    | .atom _ => .error .AttributeError
    | .ref id => match s[id]? with
      | none => .error .AttributeError
      | some nd => match nd.kind with
        | .dict => .ok (s.set id ⟨.dict, dictUpdate nd.items items⟩)
        | .set => .error .Other
        | _ => .error .AttributeError
  updateVals s v vals := match v with
    | .atom _ => .error .AttributeError
    | .ref id => match s[id]? with
      | none => .error .AttributeError
      | some nd => match nd.kind with
        | .set => .ok (s.set id ⟨.set, renumber 0 (dedupBy (objEq s (s.length + 1)) (nd.items.map Prod.snd) vals)⟩)
        | .dict => .error .Other
        | _ => .error .AttributeError
  extend s v vals := match v with
    | .atom _ => .error .AttributeError
    | .ref id => match s[id]? with
      | none => .error .AttributeError
      | some nd => match nd.kind with
        | .list => .ok (s.set id ⟨.list, nd.items ++ renumber nd.items.length vals⟩)
        | _ => .error .AttributeError
  classOfVals s v vals := match v with
    | .atom _ => .error .Other
    | .ref id => match s[id]? with
      | none => .error .Other
      | some nd => match nd.kind with
        | .dict => .error .Other
        | kd => .ok (.ref s.length,
                     s ++ [⟨kd, buildItems (objEq s (s.length + 1)) kd (vals.map fun v => (Atom.none, v))⟩])

end C08
