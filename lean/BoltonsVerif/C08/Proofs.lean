import BoltonsVerif.C08.Model
/-
C08 — helper lemmas.  Part 1: the tree-level machine simulates the recursion.
-/
namespace C08

/-! ## tree level: machine = recursion -/

theorem run_stuck (c : Cfg) (s : St) (h : step c s = none) (m : Nat) : run c m s = s := by
  cases m <;> simp [run, h]

theorem run_add (c : Cfg) (a b : Nat) (s : St) : run c (a + b) s = run c b (run c a s) := by
  induction a generalizing s with
  | zero => simp [run]
  | succ n ih =>
    rw [Nat.succ_add]
    simp only [run]
    cases h : step c s with
    | none => simp [run_stuck c s h]
    | some s' => simp [ih]

-- processing one (non-root) item appends exactly its visited rebuild to the parent's accumulator,
-- and logs exactly the pre-order enter calls of that item
mutual
theorem sim_val (c : Cfg) (k : Key) (v : Val) (rest : List Frame) (p pp : Path)
    (acc : List (Key × Val)) (nr : List (Path × List (Key × Val))) (val : Val)
    (lg : List (Path × Key × Val)) :
    ∃ val', run c (vsize v) ⟨.item k v :: rest, p, (pp, acc) :: nr, val, lg⟩ =
      ⟨rest, p, (pp, acc ++ applyVisit c.vf p k (rebuildChild c p k v)) :: nr, val',
       lg ++ preLog p k v⟩ := by
  cases v with
  | leaf a => exact ⟨.leaf a, by simp [run, step, vsize, rebuildChild, preLog]⟩
  | node kd its =>
    obtain ⟨val1, h1⟩ := sim_items c kd 0 its (.exit k (.node kd its) :: rest) (p ++ [k]) p []
      ((pp, acc) :: nr) val (lg ++ [(p, k, .node kd its)])
    refine ⟨c.ex p k (.node kd its) (rebuildItems c (p ++ [k]) kd 0 its), ?_⟩
    have : vsize (.node kd its) = 1 + (isize its + 1) := by simp [vsize]; omega
    rw [this, run_add, run_add]
    simp only [run, step]
    rw [h1]
    simp [rebuildChild, preLog]
theorem sim_items (c : Cfg) (kd : Kind) (i : Nat) (its : Items) (rest : List Frame) (p pp : Path)
    (acc : List (Key × Val)) (nr : List (Path × List (Key × Val))) (val : Val)
    (lg : List (Path × Key × Val)) :
    ∃ val', run c (isize its) ⟨pushItems kd i its rest, p, (pp, acc) :: nr, val, lg⟩ =
      ⟨rest, p, (pp, acc ++ rebuildItems c p kd i its) :: nr, val', lg ++ preLogItems p kd i its⟩ := by
  cases its with
  | nil => exact ⟨val, by simp [run, isize, pushItems, rebuildItems, preLogItems]⟩
  | cons k v r =>
    obtain ⟨v1, h1⟩ := sim_val c (effKey kd i k) v (pushItems kd (i + 1) r rest) p pp acc nr val lg
    obtain ⟨v2, h2⟩ := sim_items c kd (i + 1) r rest p pp
      (acc ++ applyVisit c.vf p (effKey kd i k) (rebuildChild c p (effKey kd i k) v)) nr v1
      (lg ++ preLog p (effKey kd i k) v)
    refine ⟨v2, ?_⟩
    simp only [isize, pushItems, run_add, h1, h2, rebuildItems, preLogItems, List.append_assoc]
end

/-- the whole run on a container root -/
theorem remapFinal_eq (c : Cfg) (kd : Kind) (its : Items) :
    remapFinal c kd its =
      ⟨[], [], [], remapRec c (.node kd its), ([], .none, .node kd its) :: nestedLog (.node kd its)⟩ := by
  obtain ⟨v1, h1⟩ := sim_items c kd 0 its [.exit .none (.node kd its)] [] [] [] [] (.leaf .none)
    [([], .none, .node kd its)]
  simp only [remapFinal, initRoot, run_add, h1]
  simp [run, step, remapRec, nestedLog]

/-! ## heap level: termination (also for cyclic heaps) -/

@[simp] theorem appendItem_stack (s : HSt) (it : Key × Obj) : (appendItem s it).stack = s.stack := by
  unfold appendItem; split <;> rfl
@[simp] theorem appendItem_reg (s : HSt) (it : Key × Obj) : (appendItem s it).reg = s.reg := by
  unfold appendItem; split <;> rfl
@[simp] theorem appendItem_out (s : HSt) (it : Key × Obj) : (appendItem s it).out = s.out := by
  unfold appendItem; split <;> rfl
@[simp] theorem appendItem_trace (s : HSt) (it : Key × Obj) : (appendItem s it).trace = s.trace := by
  unfold appendItem; split <;> rfl

@[simp] theorem finishItem_stack (c : HCfg) (s : HSt) (rest : List HFrame) (k : Key) (src val : Obj) :
    (finishItem c s rest k src val).stack = rest := by
  unfold finishItem; split <;> (try split) <;> simp
@[simp] theorem finishItem_reg (c : HCfg) (s : HSt) (rest : List HFrame) (k : Key) (src val : Obj) :
    (finishItem c s rest k src val).reg = s.reg := by
  unfold finishItem; split <;> (try split) <;> simp

def cost (h : Heap) (id : Nat) : Nat :=
  match h[id]? with
  | some nd => nodeCost nd
  | none => 0

def costSum (h : Heap) (todo : List Nat) : Nat := (todo.map (cost h)).sum

theorem costSum_erase (h : Heap) (todo : List Nat) (id : Nat) (hm : id ∈ todo) :
    costSum h (todo.erase id) + cost h id = costSum h todo := by
  induction todo with
  | nil => simp at hm
  | cons x r ih =>
    by_cases hx : x = id
    · subst hx; simp [costSum]; omega
    · have : id ∈ r := by
        cases hm with
        | head => exact absurd rfl hx
        | tail _ h => exact h
      have ih' := ih this
      simp only [costSum] at ih' ⊢
      rw [List.erase_cons_tail (by simpa using hx)]
      simp only [List.map_cons, List.sum_cons]
      omega

/-- every not yet registered node of the input heap is still on the to-do list -/
def TInv (h : Heap) (todo : List Nat) (s : HSt) : Prop :=
  ∀ id nd, h[id]? = some nd → lookup id s.reg = none → id ∈ todo

def potential (h : Heap) (todo : List Nat) (s : HSt) : Nat := s.stack.length + costSum h todo

theorem lookup_cons_none {id j : Nat} {o : Obj} {r : List (Nat × Obj)}
    (h : lookup id ((j, o) :: r) = none) : j ≠ id ∧ lookup id r = none := by
  simp only [lookup] at h
  split at h
  · simp at h
  · exact ⟨by assumption, h⟩

theorem TInv_cons (h : Heap) (todo : List Nat) (s : HSt) (j : Nat) (o : Obj) (reg' : List (Nat × Obj))
    (hi : TInv h todo s) (hr : reg' = (j, o) :: s.reg) (s' : HSt) (hs : s'.reg = reg') : TInv h todo s' := by
  intro id nd hn hl
  rw [hs, hr] at hl
  exact hi id nd hn (lookup_cons_none hl).2

theorem step_decreases (c : HCfg) (h : Heap) (root : Obj) (todo : List Nat) (s s' : HSt)
    (hi : TInv h todo s) (hs : hstep c h root s = some s') :
    ∃ todo', TInv h todo' s' ∧ potential h todo' s' < potential h todo s := by
  unfold hstep at hs
  split at hs
  · simp at hs
  · split at hs
    · simp at hs
    · -- exit frame
      rename_i k old new kd rest hst
      split at hs
      · injection hs with hs; subst hs
        refine ⟨todo, ?_, ?_⟩
        · intro id nd hn hl; exact hi id nd hn hl
        · simp [potential, hst]
      · split at hs
        · injection hs with hs; subst hs
          refine ⟨todo, ?_, ?_⟩
          · intro id nd hn hl
            exact hi id nd hn (lookup_cons_none hl).2
          · simp [potential, hst]
        · injection hs with hs; subst hs
          refine ⟨todo, ?_, ?_⟩
          · intro id nd hn hl
            simp only [finishItem_reg] at hl
            exact hi id nd hn (lookup_cons_none hl).2
          · simp [potential, hst]
    · -- item frame
      rename_i k o rest hst
      split at hs
      · injection hs with hs; subst hs
        exact ⟨todo, by intro id nd hn hl; simp only [finishItem_reg] at hl; exact hi id nd hn hl,
          by simp [potential, hst]⟩
      · rename_i id
        split at hs
        · injection hs with hs; subst hs
          exact ⟨todo, by intro id nd hn hl; simp only [finishItem_reg] at hl; exact hi id nd hn hl,
            by simp [potential, hst]⟩
        · rename_i hlk
          split at hs
          · injection hs with hs; subst hs
            exact ⟨todo, by intro id nd hn hl; simp only [finishItem_reg] at hl; exact hi id nd hn hl,
              by simp [potential, hst]⟩
          · rename_i nd hnd
            injection hs with hs; subst hs
            have hm : id ∈ todo := hi id nd hnd hlk
            refine ⟨todo.erase id, ?_, ?_⟩
            · intro id' nd' hn hl
              have := lookup_cons_none hl
              exact (List.mem_erase_of_ne (Ne.symm this.1)).2 (hi id' nd' hn this.2)
            · have hc := costSum_erase h todo id hm
              have hcost : cost h id = nd.items.length + 2 := by simp [cost, hnd, nodeCost]
              have hlen : (enumItems nd.kind 0 nd.items).length = nd.items.length := by
                generalize 0 = i
                induction nd.items generalizing i with
                | nil => rfl
                | cons x r ih => obtain ⟨a, b⟩ := x; simp [enumItems, ih]
              simp only [potential, hst, List.length_append, itemFrames, List.length_map, hlen,
                List.length_cons]
              omega

theorem hstep_none_of_potential_zero (c : HCfg) (h : Heap) (root : Obj) (todo : List Nat) (s : HSt)
    (hp : potential h todo s = 0) : hstep c h root s = none := by
  have : s.stack = [] := by
    cases hst : s.stack with
    | nil => rfl
    | cons a r => simp [potential, hst] at hp
  unfold hstep
  split
  · rfl
  · simp [this]

theorem hrun_halts (c : HCfg) (h : Heap) (root : Obj) (n : Nat) (todo : List Nat) (s : HSt)
    (hi : TInv h todo s) (hp : potential h todo s ≤ n) :
    hstep c h root (hrun c h root n s) = none := by
  induction n generalizing s todo with
  | zero =>
    simp only [hrun]
    exact hstep_none_of_potential_zero c h root todo s (by omega)
  | succ n ih =>
    simp only [hrun]
    cases hs : hstep c h root s with
    | none => simpa using hs
    | some s' =>
      obtain ⟨todo', hi', hlt⟩ := step_decreases c h root todo s s' hi hs
      exact ih todo' s' hi' (by omega)

theorem costSum_range (h : Heap) : costSum h (List.range h.length) = (h.map nodeCost).sum := by
  unfold costSum
  congr 1
  apply List.ext_getElem
  · simp
  · intro i h1 h2
    simp at h1
    simp [cost, h1]

theorem TInv_init (h : Heap) (root : Obj) : TInv h (List.range h.length) (hinit root) := by
  intro id nd hn _
  have : id < h.length := by
    rcases Nat.lt_or_ge id h.length with hlt | hge
    · exact hlt
    · simp [List.getElem?_eq_none hge] at hn
  simpa using this

theorem hfinal_halted (c : HCfg) (h : Heap) (root : Obj) :
    hstep c h root (hfinal c h root) = none := by
  unfold hfinal
  apply hrun_halts c h root (hbound h) (List.range h.length) (hinit root) (TInv_init h root)
  simp only [potential, costSum_range, hbound, hinit, List.length_cons, List.length_nil]
  omega

theorem halted_cases (c : HCfg) (h : Heap) (root : Obj) (s : HSt) (hs : hstep c h root s = none) :
    s.err ≠ none ∨ s.stack = [] := by
  cases he : s.err with
  | some e => simp
  | none =>
    right
    cases hst : s.stack with
    | nil => rfl
    | cons f rest =>
      exfalso
      unfold hstep at hs
      simp only [he, hst] at hs
      repeat (first | contradiction | split at hs)

/-! ## heap level: every container is entered once and exited once -/

def enterIds : List Ev → List Nat
  | [] => []
  | .enter _ _ (.ref id) true :: r => id :: enterIds r
  | _ :: r => enterIds r

def exitIds : List Ev → List Nat
  | [] => []
  | .exit id :: r => id :: exitIds r
  | _ :: r => exitIds r

def frameIds : List HFrame → List Nat
  | [] => []
  | .exit _ old _ _ :: r => old :: frameIds r
  | _ :: r => frameIds r

theorem enterIds_append (a b : List Ev) : enterIds (a ++ b) = enterIds a ++ enterIds b := by
  induction a with
  | nil => rfl
  | cons e r ih =>
    cases e with
    | enter p k o t =>
      cases o with
      | atom a => simpa [enterIds] using ih
      | ref id => cases t <;> simp [enterIds, ih]
    | exit id => simpa [enterIds] using ih
    | visit p k s v => simpa [enterIds] using ih

theorem exitIds_append (a b : List Ev) : exitIds (a ++ b) = exitIds a ++ exitIds b := by
  induction a with
  | nil => rfl
  | cons e r ih => cases e <;> simp [exitIds, ih]

theorem frameIds_append (a b : List HFrame) : frameIds (a ++ b) = frameIds a ++ frameIds b := by
  induction a with
  | nil => rfl
  | cons e r ih => cases e <;> simp [frameIds, ih]

theorem frameIds_itemFrames (l : List (Key × Obj)) : frameIds (itemFrames l) = [] := by
  induction l with
  | nil => rfl
  | cons x r ih => simpa [itemFrames, frameIds] using ih

@[simp] theorem finishItem_trace (c : HCfg) (s : HSt) (rest : List HFrame) (k : Key) (src val : Obj) :
    (finishItem c s rest k src val).trace = s.trace ++ [.visit s.path k src val] := by
  unfold finishItem; split <;> (try split) <;> simp

structure OInv (s : HSt) : Prop where
  nodup : (enterIds s.trace).Nodup
  registered : ∀ id ∈ enterIds s.trace, lookup id s.reg ≠ none
  perm : s.err = none → (exitIds s.trace ++ frameIds s.stack).Perm (enterIds s.trace)
  exitsNodup : (exitIds s.trace).Nodup
  exitsSub : ∀ id ∈ exitIds s.trace, id ∈ enterIds s.trace

theorem OInv.mk' (s : HSt) (hnd : (enterIds s.trace).Nodup)
    (hreg : ∀ id ∈ enterIds s.trace, lookup id s.reg ≠ none)
    (hp : (exitIds s.trace ++ frameIds s.stack).Perm (enterIds s.trace)) : OInv s :=
  ⟨hnd, hreg, fun _ => hp, (List.nodup_append.1 (hp.nodup_iff.2 hnd)).1,
   fun _ hid => hp.subset (List.mem_append_left _ hid)⟩

theorem lookup_cons_ne_none {id j : Nat} {o : Obj} {r : List (Nat × Obj)}
    (h : lookup id r ≠ none) : lookup id ((j, o) :: r) ≠ none := by
  simp only [lookup]; split <;> simp [h]

theorem OInv_init (root : Obj) : OInv (hinit root) := by
  constructor <;> simp [hinit, enterIds, exitIds, frameIds]

theorem OInv_step (c : HCfg) (h : Heap) (root : Obj) (s s' : HSt)
    (hi : OInv s) (hs : hstep c h root s = some s') : OInv s' := by
  obtain ⟨hnd, hreg, hperm, hen, hes⟩ := hi
  unfold hstep at hs
  split at hs
  · simp at hs
  · rename_i herr
    have hperm := hperm herr
    split at hs
    · simp at hs
    · rename_i k old new kd rest hst
      rw [hst] at hperm
      simp only [frameIds] at hperm
      split at hs
      · injection hs with hs; subst hs
        exact ⟨hnd, hreg, by intro he; simp at he, hen, hes⟩
      · split at hs
        · injection hs with hs; subst hs
          refine OInv.mk' _ ?_ ?_ ?_
          · simpa [enterIds_append, enterIds] using hnd
          · intro id hid
            simp only [enterIds_append, enterIds, List.append_nil] at hid
            exact lookup_cons_ne_none (hreg id hid)
          · simpa [enterIds_append, exitIds_append, enterIds, exitIds] using hperm
        · injection hs with hs; subst hs
          refine OInv.mk' _ ?_ ?_ ?_
          · simpa [enterIds_append, enterIds] using hnd
          · intro id hid
            simp only [finishItem_trace, enterIds_append, enterIds, List.append_nil] at hid
            simp only [finishItem_reg]
            exact lookup_cons_ne_none (hreg id hid)
          · simpa [enterIds_append, exitIds_append, enterIds, exitIds] using hperm
    · rename_i k o rest hst
      rw [hst] at hperm
      simp only [frameIds] at hperm
      split at hs
      · injection hs with hs; subst hs
        refine OInv.mk' _ ?_ ?_ ?_
        · simpa [enterIds_append, enterIds] using hnd
        · intro id hid
          simp only [finishItem_trace, enterIds_append, enterIds, List.append_nil] at hid
          simpa using hreg id hid
        · simpa [enterIds_append, exitIds_append, enterIds, exitIds] using hperm
      · rename_i id
        split at hs
        · injection hs with hs; subst hs
          refine OInv.mk' _ ?_ ?_ ?_
          · simpa [enterIds_append, enterIds] using hnd
          · intro id hid
            simp only [finishItem_trace, enterIds_append, enterIds, List.append_nil] at hid
            simpa using hreg id hid
          · simpa [enterIds_append, exitIds_append, enterIds, exitIds] using hperm
        · rename_i hlk
          split at hs
          · injection hs with hs; subst hs
            refine OInv.mk' _ ?_ ?_ ?_
            · simpa [enterIds_append, enterIds] using hnd
            · intro id hid
              simp only [finishItem_trace, enterIds_append, enterIds, List.append_nil] at hid
              simpa using hreg id hid
            · simpa [enterIds_append, exitIds_append, enterIds, exitIds] using hperm
          · rename_i nd hnd'
            injection hs with hs; subst hs
            have hfresh : id ∉ enterIds s.trace := fun hm => hreg id hm hlk
            refine OInv.mk' _ ?_ ?_ ?_
            · simp only [enterIds_append, enterIds]
              exact List.nodup_append.2 ⟨hnd, by simp, by
                intro a ha b hb; simp at hb; subst hb; intro hab; subst hab; exact hfresh ha⟩
            · intro id' hid
              simp only [enterIds_append, enterIds, List.mem_append, List.mem_singleton] at hid
              rcases hid with hid | hid
              · exact lookup_cons_ne_none (hreg id' hid)
              · subst hid; simp [lookup]
            · simp only [enterIds_append, exitIds_append, enterIds, exitIds, List.append_nil,
                frameIds_append, frameIds_itemFrames, frameIds, List.nil_append]
              exact (List.perm_middle).trans ((List.Perm.cons id hperm).trans
                (List.perm_append_singleton id _).symm)

theorem OInv_run (c : HCfg) (h : Heap) (root : Obj) (n : Nat) (s : HSt) (hi : OInv s) :
    OInv (hrun c h root n s) := by
  induction n generalizing s with
  | zero => exact hi
  | succ n ih =>
    simp only [hrun]
    cases hs : hstep c h root s with
    | none => exact hi
    | some s' => exact ih s' (OInv_step c h root s s' hi hs)

theorem OInv_final (c : HCfg) (h : Heap) (root : Obj) : OInv (hfinal c h root) :=
  OInv_run c h root _ _ (OInv_init root)

/-! ## heap level: a rebuilt object stays shared -/

/-- the events after the (first) exit of container `id` -/
def afterExit (id : Nat) : List Ev → List Ev
  | [] => []
  | .exit j :: r => if j = id then r else afterExit id r
  | _ :: r => afterExit id r

theorem afterExit_append_of_mem (id : Nat) (a b : List Ev) (h : id ∈ exitIds a) :
    afterExit id (a ++ b) = afterExit id a ++ b := by
  induction a with
  | nil => simp [exitIds] at h
  | cons e r ih =>
    cases e with
    | exit j =>
      by_cases hj : j = id
      · simp [afterExit, hj]
      · have : id ∈ exitIds r := by
          simp only [exitIds, List.mem_cons] at h
          rcases h with h | h
          · exact absurd h.symm hj
          · exact h
        simp [afterExit, hj, ih this]
    | enter p k o t => simpa [afterExit] using ih (by simpa [exitIds] using h)
    | visit p k s v => simpa [afterExit] using ih (by simpa [exitIds] using h)

theorem afterExit_append_of_not_mem (id : Nat) (a b : List Ev) (h : id ∉ exitIds a) :
    afterExit id (a ++ b) = afterExit id b := by
  induction a with
  | nil => rfl
  | cons e r ih =>
    cases e with
    | exit j =>
      have hj : j ≠ id := by intro hj; subst hj; simp [exitIds] at h
      have : id ∉ exitIds r := by intro hm; exact h (by simp [exitIds, hm])
      simp [afterExit, hj, ih this]
    | enter p k o t => simpa [afterExit] using ih (by simpa [exitIds] using h)
    | visit p k s v => simpa [afterExit] using ih (by simpa [exitIds] using h)

theorem afterExit_nil_of_not_mem (id : Nat) (a : List Ev) (h : id ∉ exitIds a) : afterExit id a = [] := by
  simpa [afterExit] using afterExit_append_of_not_mem id a [] h

/-- every visit of a reference to `id` made after `id` was exited saw the registered rebuilt object -/
def SharedInv (s : HSt) : Prop :=
  ∀ id p k v, Ev.visit p k (.ref id) v ∈ afterExit id s.trace → lookup id s.reg = some v

theorem lookup_cons_of_ne {id j : Nat} {o : Obj} {r : List (Nat × Obj)} (h : j ≠ id) :
    lookup id ((j, o) :: r) = lookup id r := by
  simp [lookup, h]

theorem SharedInv_step (c : HCfg) (h : Heap) (root : Obj) (s s' : HSt)
    (ho : OInv s) (hi : SharedInv s) (hs : hstep c h root s = some s') : SharedInv s' := by
  have hreg := ho.registered
  have hsub := ho.exitsSub
  -- not registered ⇒ never exited
  have hfresh : ∀ id, lookup id s.reg = none → id ∉ exitIds s.trace :=
    fun id hl hm => hreg id (hsub id hm) hl
  unfold hstep at hs
  split at hs
  · simp at hs
  · rename_i herr
    have hperm := ho.perm herr
    have hndEF : (exitIds s.trace ++ frameIds s.stack).Nodup := hperm.nodup_iff.2 ho.nodup
    split at hs
    · simp at hs
    · rename_i k old new kd rest hst
      rw [hst] at hndEF
      have hold : old ∉ exitIds s.trace := by
        intro hm
        have := (List.nodup_append.1 hndEF).2.2 old hm old (by simp [frameIds])
        exact this rfl
      split at hs
      · injection hs with hs; subst hs
        exact hi
      · split at hs
        · injection hs with hs; subst hs
          intro id p k' v hm
          simp only at hm
          by_cases hid : old = id
          · subst hid
            rw [afterExit_append_of_not_mem _ _ _ hold] at hm
            simp [afterExit] at hm
          · rw [lookup_cons_of_ne hid]
            by_cases hex : id ∈ exitIds s.trace
            · rw [afterExit_append_of_mem _ _ _ hex] at hm
              simp only [List.mem_append, List.mem_singleton] at hm
              rcases hm with hm | hm
              · exact hi id p k' v hm
              · cases hm
            · rw [afterExit_append_of_not_mem _ _ _ hex] at hm
              simp [afterExit, hid] at hm
        · injection hs with hs; subst hs
          intro id p k' v hm
          simp only [finishItem_trace, finishItem_reg] at hm ⊢
          by_cases hid : old = id
          · subst hid
            rw [List.append_assoc, afterExit_append_of_not_mem _ _ _ hold] at hm
            simp [afterExit] at hm
            simp [lookup, hm.2.2]
          · rw [lookup_cons_of_ne hid]
            by_cases hex : id ∈ exitIds s.trace
            · rw [List.append_assoc, afterExit_append_of_mem _ _ _ hex] at hm
              simp only [List.mem_append, List.mem_cons, List.mem_nil_iff, or_false] at hm
              rcases hm with hm | hm | hm
              · exact hi id p k' v hm
              · cases hm
              · injection hm with _ _ h3 _
                injection h3 with h3
                exact absurd h3.symm hid
            · rw [List.append_assoc, afterExit_append_of_not_mem _ _ _ hex] at hm
              simp [afterExit, hid] at hm
    · rename_i k o rest hst
      split at hs
      · injection hs with hs; subst hs
        intro id p k' v hm
        simp only [finishItem_trace, finishItem_reg] at hm ⊢
        by_cases hex : id ∈ exitIds s.trace
        · rw [List.append_assoc, afterExit_append_of_mem _ _ _ hex] at hm
          simp only [List.mem_append, List.mem_cons, List.mem_nil_iff, or_false] at hm
          rcases hm with hm | hm | hm
          · exact hi id p k' v hm
          · cases hm
          · injection hm with _ _ h3 _; cases h3
        · rw [List.append_assoc, afterExit_append_of_not_mem _ _ _ hex] at hm
          simp [afterExit] at hm
      · rename_i id0
        split at hs
        · rename_i v0 hlk
          injection hs with hs; subst hs
          intro id p k' v hm
          simp only [finishItem_trace, finishItem_reg] at hm ⊢
          by_cases hex : id ∈ exitIds s.trace
          · rw [afterExit_append_of_mem _ _ _ hex] at hm
            simp only [List.mem_append, List.mem_cons, List.mem_nil_iff, or_false] at hm
            rcases hm with hm | hm
            · exact hi id p k' v hm
            · injection hm with _ _ h3 h4
              injection h3 with h3
              subst h3; subst h4; exact hlk
          · rw [afterExit_append_of_not_mem _ _ _ hex] at hm
            simp [afterExit] at hm
        · rename_i hlk
          split at hs
          · injection hs with hs; subst hs
            intro id p k' v hm
            simp only [finishItem_trace, finishItem_reg] at hm ⊢
            by_cases hex : id ∈ exitIds s.trace
            · rw [List.append_assoc, afterExit_append_of_mem _ _ _ hex] at hm
              simp only [List.mem_append, List.mem_cons, List.mem_nil_iff, or_false] at hm
              rcases hm with hm | hm | hm
              · exact hi id p k' v hm
              · cases hm
              · injection hm with _ _ h3 h4
                injection h3 with h3
                subst h3
                exact absurd hex (hfresh _ hlk)
            · rw [List.append_assoc, afterExit_append_of_not_mem _ _ _ hex] at hm
              simp [afterExit] at hm
          · rename_i nd hnd'
            injection hs with hs; subst hs
            intro id p k' v hm
            simp only at hm ⊢
            by_cases hid : id0 = id
            · subst hid
              rw [afterExit_append_of_not_mem _ _ _ (hfresh _ hlk)] at hm
              simp [afterExit] at hm
            · rw [lookup_cons_of_ne hid]
              by_cases hex : id ∈ exitIds s.trace
              · rw [afterExit_append_of_mem _ _ _ hex] at hm
                simp only [List.mem_append, List.mem_singleton] at hm
                rcases hm with hm | hm
                · exact hi id p k' v hm
                · cases hm
              · rw [afterExit_append_of_not_mem _ _ _ hex] at hm
                simp [afterExit] at hm

theorem SharedInv_run (c : HCfg) (h : Heap) (root : Obj) (n : Nat) (s : HSt) (ho : OInv s)
    (hi : SharedInv s) : SharedInv (hrun c h root n s) := by
  induction n generalizing s with
  | zero => exact hi
  | succ n ih =>
    simp only [hrun]
    cases hs : hstep c h root s with
    | none => exact hi
    | some s' => exact ih s' (OInv_step c h root s s' ho hs) (SharedInv_step c h root s s' ho hi hs)

theorem SharedInv_final (c : HCfg) (h : Heap) (root : Obj) : SharedInv (hfinal c h root) :=
  SharedInv_run c h root _ _ (OInv_init root) (by intro id p k v hm; simp [hinit, afterExit] at hm)

end C08
