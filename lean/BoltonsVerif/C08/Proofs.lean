import BoltonsVerif.C08.Model
/-
C08 — helper lemmas.  Part 1: the tree-level machine simulates the recursion.
-/
namespace C08

/-! ## tree level: machine = recursion -/

theorem run_stuck (c : Cfg) (s : St) (h : step c s = none) (m : Nat) : run c m s = s := by
  cases m <;> simp [run, h]

theorem run_add (c : Cfg) (a b : Nat) (s : St) : run c (a + b) s = run c b (run c a s) := by
  induction a generalizing s with
  | zero => simp [run]
  | succ n ih =>
    rw [Nat.succ_add]
    simp only [run]
    cases h : step c s with
    | none => simp [run_stuck c s h]
    | some s' => simp [ih]

-- processing one (non-root) item appends exactly its visited rebuild to the parent's accumulator,
-- and logs exactly the pre-order enter calls of that item
mutual
theorem sim_val (c : Cfg) (k : Key) (v : Val) (rest : List Frame) (p pp : Path)
    (acc : List (Key × Val)) (nr : List (Path × List (Key × Val))) (val : Val)
    (lg : List (Path × Key × Val)) :
    ∃ val', run c (vsize v) ⟨.item k v :: rest, p, (pp, acc) :: nr, val, lg⟩ =
      ⟨rest, p, (pp, acc ++ applyVisit c.vf p k (rebuildChild c p k v)) :: nr, val',
       lg ++ preLog p k v⟩ := by
  cases v with
  | leaf a => exact ⟨.leaf a, by simp [run, step, vsize, rebuildChild, preLog]⟩
  | node kd its =>
    obtain ⟨val1, h1⟩ := sim_items c kd 0 its (.exit k (.node kd its) :: rest) (p ++ [k]) p []
      ((pp, acc) :: nr) val (lg ++ [(p, k, .node kd its)])
    refine ⟨c.ex p k (.node kd its) (rebuildItems c (p ++ [k]) kd 0 its), ?_⟩
    have : vsize (.node kd its) = 1 + (isize its + 1) := by simp [vsize]; omega
    rw [this, run_add, run_add]
    simp only [run, step]
    rw [h1]
    simp [rebuildChild, preLog]
theorem sim_items (c : Cfg) (kd : Kind) (i : Nat) (its : Items) (rest : List Frame) (p pp : Path)
    (acc : List (Key × Val)) (nr : List (Path × List (Key × Val))) (val : Val)
    (lg : List (Path × Key × Val)) :
    ∃ val', run c (isize its) ⟨pushItems kd i its rest, p, (pp, acc) :: nr, val, lg⟩ =
      ⟨rest, p, (pp, acc ++ rebuildItems c p kd i its) :: nr, val', lg ++ preLogItems p kd i its⟩ := by
  cases its with
  | nil => exact ⟨val, by simp [run, isize, pushItems, rebuildItems, preLogItems]⟩
  | cons k v r =>
    obtain ⟨v1, h1⟩ := sim_val c (effKey kd i k) v (pushItems kd (i + 1) r rest) p pp acc nr val lg
    obtain ⟨v2, h2⟩ := sim_items c kd (i + 1) r rest p pp
      (acc ++ applyVisit c.vf p (effKey kd i k) (rebuildChild c p (effKey kd i k) v)) nr v1
      (lg ++ preLog p (effKey kd i k) v)
    refine ⟨v2, ?_⟩
    simp only [isize, pushItems, run_add, h1, h2, rebuildItems, preLogItems, List.append_assoc]
end

/-- the whole run on a container root -/
theorem remapFinal_eq (c : Cfg) (kd : Kind) (its : Items) :
    remapFinal c kd its =
      ⟨[], [], [], remapRec c (.node kd its), ([], .none, .node kd its) :: nestedLog (.node kd its)⟩ := by
  obtain ⟨v1, h1⟩ := sim_items c kd 0 its [.exit .none (.node kd its)] [] [] [] [] (.leaf .none)
    [([], .none, .node kd its)]
  simp only [remapFinal, initRoot, run_add, h1]
  simp [run, step, remapRec, nestedLog]

/-! ## heap level: termination (also for cyclic heaps) -/

@[simp] theorem appendItem_stack (s : HSt) (it : Key × Obj) : (appendItem s it).stack = s.stack := by
  unfold appendItem; split <;> rfl
@[simp] theorem appendItem_reg (s : HSt) (it : Key × Obj) : (appendItem s it).reg = s.reg := by
  unfold appendItem; split <;> rfl
@[simp] theorem appendItem_out (s : HSt) (it : Key × Obj) : (appendItem s it).out = s.out := by
  unfold appendItem; split <;> rfl
@[simp] theorem appendItem_trace (s : HSt) (it : Key × Obj) : (appendItem s it).trace = s.trace := by
  unfold appendItem; split <;> rfl

@[simp] theorem finishItem_stack (c : HCfg) (s : HSt) (rest : List HFrame) (k : Key) (src val : Obj) :
    (finishItem c s rest k src val).stack = rest := by
  unfold finishItem; split <;> (try split) <;> simp
@[simp] theorem finishItem_reg (c : HCfg) (s : HSt) (rest : List HFrame) (k : Key) (src val : Obj) :
    (finishItem c s rest k src val).reg = s.reg := by
  unfold finishItem; split <;> (try split) <;> simp

def cost (h : Heap) (id : Nat) : Nat :=
  match h[id]? with
  | some nd => nodeCost nd
  | none => 0

def costSum (h : Heap) (todo : List Nat) : Nat := (todo.map (cost h)).sum

theorem costSum_erase (h : Heap) (todo : List Nat) (id : Nat) (hm : id ∈ todo) :
    costSum h (todo.erase id) + cost h id = costSum h todo := by
  induction todo with
  | nil => simp at hm
  | cons x r ih =>
    by_cases hx : x = id
    · subst hx; simp [costSum]; omega
    · have : id ∈ r := by
        cases hm with
        | head => exact absurd rfl hx
        | tail _ h => exact h
      have ih' := ih this
      simp only [costSum] at ih' ⊢
      rw [List.erase_cons_tail (by simpa using hx)]
      simp only [List.map_cons, List.sum_cons]
      omega

/-- every not yet registered node of the input heap is still on the to-do list -/
def TInv (h : Heap) (todo : List Nat) (s : HSt) : Prop :=
  ∀ id nd, h[id]? = some nd → lookup id s.reg = none → id ∈ todo

def potential (h : Heap) (todo : List Nat) (s : HSt) : Nat := s.stack.length + costSum h todo

theorem lookup_cons_none {id j : Nat} {o : Obj} {r : List (Nat × Obj)}
    (h : lookup id ((j, o) :: r) = none) : j ≠ id ∧ lookup id r = none := by
  simp only [lookup] at h
  split at h
  · simp at h
  · exact ⟨by assumption, h⟩

theorem TInv_cons (h : Heap) (todo : List Nat) (s : HSt) (j : Nat) (o : Obj) (reg' : List (Nat × Obj))
    (hi : TInv h todo s) (hr : reg' = (j, o) :: s.reg) (s' : HSt) (hs : s'.reg = reg') : TInv h todo s' := by
  intro id nd hn hl
  rw [hs, hr] at hl
  exact hi id nd hn (lookup_cons_none hl).2

theorem step_decreases (c : HCfg) (h : Heap) (root : Obj) (todo : List Nat) (s s' : HSt)
    (hi : TInv h todo s) (hs : hstep c h root s = some s') :
    ∃ todo', TInv h todo' s' ∧ potential h todo' s' < potential h todo s := by
  unfold hstep at hs
  split at hs
  · simp at hs
  · split at hs
    · simp at hs
    · -- exit frame
      rename_i k old new kd rest hst
      split at hs
      · injection hs with hs; subst hs
        refine ⟨todo, ?_, ?_⟩
        · intro id nd hn hl; exact hi id nd hn hl
        · simp [potential, hst]
      · split at hs
        · injection hs with hs; subst hs
          refine ⟨todo, ?_, ?_⟩
          · intro id nd hn hl
            exact hi id nd hn (lookup_cons_none hl).2
          · simp [potential, hst]
        · injection hs with hs; subst hs
          refine ⟨todo, ?_, ?_⟩
          · intro id nd hn hl
            simp only [finishItem_reg] at hl
            exact hi id nd hn (lookup_cons_none hl).2
          · simp [potential, hst]
    · -- item frame
      rename_i k o rest hst
      split at hs
      · injection hs with hs; subst hs
        exact ⟨todo, by intro id nd hn hl; simp only [finishItem_reg] at hl; exact hi id nd hn hl,
          by simp [potential, hst]⟩
      · rename_i id
        split at hs
        · injection hs with hs; subst hs
          exact ⟨todo, by intro id nd hn hl; simp only [finishItem_reg] at hl; exact hi id nd hn hl,
            by simp [potential, hst]⟩
        · rename_i hlk
          split at hs
          · injection hs with hs; subst hs
            exact ⟨todo, by intro id nd hn hl; simp only [finishItem_reg] at hl; exact hi id nd hn hl,
              by simp [potential, hst]⟩
          · rename_i nd hnd
            injection hs with hs; subst hs
            have hm : id ∈ todo := hi id nd hnd hlk
            refine ⟨todo.erase id, ?_, ?_⟩
            · intro id' nd' hn hl
              have := lookup_cons_none hl
              exact (List.mem_erase_of_ne (Ne.symm this.1)).2 (hi id' nd' hn this.2)
            · have hc := costSum_erase h todo id hm
              have hcost : cost h id = nd.items.length + 2 := by simp [cost, hnd, nodeCost]
              have hlen : (enumItems nd.kind 0 nd.items).length = nd.items.length := by
                generalize 0 = i
                induction nd.items generalizing i with
                | nil => rfl
                | cons x r ih => obtain ⟨a, b⟩ := x; simp [enumItems, ih]
              simp only [potential, hst, List.length_append, itemFrames, List.length_map, hlen,
                List.length_cons]
              omega

theorem hstep_none_of_potential_zero (c : HCfg) (h : Heap) (root : Obj) (todo : List Nat) (s : HSt)
    (hp : potential h todo s = 0) : hstep c h root s = none := by
  have : s.stack = [] := by
    cases hst : s.stack with
    | nil => rfl
    | cons a r => simp [potential, hst] at hp
  unfold hstep
  split
  · rfl
  · simp [this]

theorem hrun_halts (c : HCfg) (h : Heap) (root : Obj) (n : Nat) (todo : List Nat) (s : HSt)
    (hi : TInv h todo s) (hp : potential h todo s ≤ n) :
    hstep c h root (hrun c h root n s) = none := by
  induction n generalizing s todo with
  | zero =>
    simp only [hrun]
    exact hstep_none_of_potential_zero c h root todo s (by omega)
  | succ n ih =>
    simp only [hrun]
    cases hs : hstep c h root s with
    | none => simpa using hs
    | some s' =>
      obtain ⟨todo', hi', hlt⟩ := step_decreases c h root todo s s' hi hs
      exact ih todo' s' hi' (by omega)

theorem costSum_range (h : Heap) : costSum h (List.range h.length) = (h.map nodeCost).sum := by
  unfold costSum
  congr 1
  apply List.ext_getElem
  · simp
  · intro i h1 h2
    simp at h1
    simp [cost, h1]

theorem TInv_init (h : Heap) (root : Obj) : TInv h (List.range h.length) (hinit root) := by
  intro id nd hn _
  have : id < h.length := by
    rcases Nat.lt_or_ge id h.length with hlt | hge
    · exact hlt
    · simp [List.getElem?_eq_none hge] at hn
  simpa using this

theorem hfinal_halted (c : HCfg) (h : Heap) (root : Obj) :
    hstep c h root (hfinal c h root) = none := by
  unfold hfinal
  apply hrun_halts c h root (hbound h) (List.range h.length) (hinit root) (TInv_init h root)
  simp only [potential, costSum_range, hbound, hinit, List.length_cons, List.length_nil]
  omega

theorem halted_cases (c : HCfg) (h : Heap) (root : Obj) (s : HSt) (hs : hstep c h root s = none) :
    s.err ≠ none ∨ s.stack = [] := by
  cases he : s.err with
  | some e => simp
  | none =>
    right
    cases hst : s.stack with
    | nil => rfl
    | cons f rest =>
      exfalso
      unfold hstep at hs
      simp only [he, hst] at hs
      repeat (first | contradiction | split at hs)

/-! ## heap level: every container is entered once and exited once -/

def enterIds : List Ev → List Nat
  | [] => []
  | .enter _ _ (.ref id) true :: r => id :: enterIds r
  | _ :: r => enterIds r

def exitIds : List Ev → List Nat
  | [] => []
  | .exit id :: r => id :: exitIds r
  | _ :: r => exitIds r

def frameIds : List HFrame → List Nat
  | [] => []
  | .exit _ old _ _ :: r => old :: frameIds r
  | _ :: r => frameIds r

theorem enterIds_append (a b : List Ev) : enterIds (a ++ b) = enterIds a ++ enterIds b := by
  induction a with
  | nil => rfl
  | cons e r ih =>
    cases e with
    | enter p k o t =>
      cases o with
      | atom a => simpa [enterIds] using ih
      | ref id => cases t <;> simp [enterIds, ih]
    | exit id => simpa [enterIds] using ih
    | visit p k s v => simpa [enterIds] using ih

theorem exitIds_append (a b : List Ev) : exitIds (a ++ b) = exitIds a ++ exitIds b := by
  induction a with
  | nil => rfl
  | cons e r ih => cases e <;> simp [exitIds, ih]

theorem frameIds_append (a b : List HFrame) : frameIds (a ++ b) = frameIds a ++ frameIds b := by
  induction a with
  | nil => rfl
  | cons e r ih => cases e <;> simp [frameIds, ih]

theorem frameIds_itemFrames (l : List (Key × Obj)) : frameIds (itemFrames l) = [] := by
  induction l with
  | nil => rfl
  | cons x r ih => simpa [itemFrames, frameIds] using ih

@[simp] theorem finishItem_trace (c : HCfg) (s : HSt) (rest : List HFrame) (k : Key) (src val : Obj) :
    (finishItem c s rest k src val).trace = s.trace ++ [.visit s.path k src val] := by
  unfold finishItem; split <;> (try split) <;> simp

structure OInv (s : HSt) : Prop where
  nodup : (enterIds s.trace).Nodup
  registered : ∀ id ∈ enterIds s.trace, lookup id s.reg ≠ none
  perm : s.err = none → (exitIds s.trace ++ frameIds s.stack).Perm (enterIds s.trace)
  exitsNodup : (exitIds s.trace).Nodup
  exitsSub : ∀ id ∈ exitIds s.trace, id ∈ enterIds s.trace

theorem OInv.mk' (s : HSt) (hnd : (enterIds s.trace).Nodup)
    (hreg : ∀ id ∈ enterIds s.trace, lookup id s.reg ≠ none)
    (hp : (exitIds s.trace ++ frameIds s.stack).Perm (enterIds s.trace)) : OInv s :=
  ⟨hnd, hreg, fun _ => hp, (List.nodup_append.1 (hp.nodup_iff.2 hnd)).1,
   fun _ hid => hp.subset (List.mem_append_left _ hid)⟩

theorem lookup_cons_ne_none {id j : Nat} {o : Obj} {r : List (Nat × Obj)}
    (h : lookup id r ≠ none) : lookup id ((j, o) :: r) ≠ none := by
  simp only [lookup]; split <;> simp [h]

theorem OInv_init (root : Obj) : OInv (hinit root) := by
  constructor <;> simp [hinit, enterIds, exitIds, frameIds]

theorem OInv_step (c : HCfg) (h : Heap) (root : Obj) (s s' : HSt)
    (hi : OInv s) (hs : hstep c h root s = some s') : OInv s' := by
  obtain ⟨hnd, hreg, hperm, hen, hes⟩ := hi
  unfold hstep at hs
  split at hs
  · simp at hs
  · rename_i herr
    have hperm := hperm herr
    split at hs
    · simp at hs
    · rename_i k old new kd rest hst
      rw [hst] at hperm
      simp only [frameIds] at hperm
      split at hs
      · injection hs with hs; subst hs
        exact ⟨hnd, hreg, by intro he; simp at he, hen, hes⟩
      · split at hs
        · injection hs with hs; subst hs
          refine OInv.mk' _ ?_ ?_ ?_
          · simpa [enterIds_append, enterIds] using hnd
          · intro id hid
            simp only [enterIds_append, enterIds, List.append_nil] at hid
            exact lookup_cons_ne_none (hreg id hid)
          · simpa [enterIds_append, exitIds_append, enterIds, exitIds] using hperm
        · injection hs with hs; subst hs
          refine OInv.mk' _ ?_ ?_ ?_
          · simpa [enterIds_append, enterIds] using hnd
          · intro id hid
            simp only [finishItem_trace, enterIds_append, enterIds, List.append_nil] at hid
            simp only [finishItem_reg]
            exact lookup_cons_ne_none (hreg id hid)
          · simpa [enterIds_append, exitIds_append, enterIds, exitIds] using hperm
    · rename_i k o rest hst
      rw [hst] at hperm
      simp only [frameIds] at hperm
      split at hs
      · injection hs with hs; subst hs
        refine OInv.mk' _ ?_ ?_ ?_
        · simpa [enterIds_append, enterIds] using hnd
        · intro id hid
          simp only [finishItem_trace, enterIds_append, enterIds, List.append_nil] at hid
          simpa using hreg id hid
        · simpa [enterIds_append, exitIds_append, enterIds, exitIds] using hperm
      · rename_i id
        split at hs
        · injection hs with hs; subst hs
          refine OInv.mk' _ ?_ ?_ ?_
          · simpa [enterIds_append, enterIds] using hnd
          · intro id hid
            simp only [finishItem_trace, enterIds_append, enterIds, List.append_nil] at hid
            simpa using hreg id hid
          · simpa [enterIds_append, exitIds_append, enterIds, exitIds] using hperm
        · rename_i hlk
          split at hs
          · injection hs with hs; subst hs
            refine OInv.mk' _ ?_ ?_ ?_
            · simpa [enterIds_append, enterIds] using hnd
            · intro id hid
              simp only [finishItem_trace, enterIds_append, enterIds, List.append_nil] at hid
              simpa using hreg id hid
            · simpa [enterIds_append, exitIds_append, enterIds, exitIds] using hperm
          · rename_i nd hnd'
            injection hs with hs; subst hs
            have hfresh : id ∉ enterIds s.trace := fun hm => hreg id hm hlk
            refine OInv.mk' _ ?_ ?_ ?_
            · simp only [enterIds_append, enterIds]
              exact List.nodup_append.2 ⟨hnd, by simp, by
                intro a ha b hb; simp at hb; subst hb; intro hab; subst hab; exact hfresh ha⟩
            · intro id' hid
              simp only [enterIds_append, enterIds, List.mem_append, List.mem_singleton] at hid
              rcases hid with hid | hid
              · exact lookup_cons_ne_none (hreg id' hid)
              · subst hid; simp [lookup]
            · simp only [enterIds_append, exitIds_append, enterIds, exitIds, List.append_nil,
                frameIds_append, frameIds_itemFrames, frameIds, List.nil_append]
              exact (List.perm_middle).trans ((List.Perm.cons id hperm).trans
                (List.perm_append_singleton id _).symm)

theorem OInv_run (c : HCfg) (h : Heap) (root : Obj) (n : Nat) (s : HSt) (hi : OInv s) :
    OInv (hrun c h root n s) := by
  induction n generalizing s with
  | zero => exact hi
  | succ n ih =>
    simp only [hrun]
    cases hs : hstep c h root s with
    | none => exact hi
    | some s' => exact ih s' (OInv_step c h root s s' hi hs)

theorem OInv_final (c : HCfg) (h : Heap) (root : Obj) : OInv (hfinal c h root) :=
  OInv_run c h root _ _ (OInv_init root)

/-! ## heap level: a rebuilt object stays shared -/

/-- the events after the (first) exit of container `id` -/
def afterExit (id : Nat) : List Ev → List Ev
  | [] => []
  | .exit j :: r => if j = id then r else afterExit id r
  | _ :: r => afterExit id r

theorem afterExit_append_of_mem (id : Nat) (a b : List Ev) (h : id ∈ exitIds a) :
    afterExit id (a ++ b) = afterExit id a ++ b := by
  induction a with
  | nil => simp [exitIds] at h
  | cons e r ih =>
    cases e with
    | exit j =>
      by_cases hj : j = id
      · simp [afterExit, hj]
      · have : id ∈ exitIds r := by
          simp only [exitIds, List.mem_cons] at h
          rcases h with h | h
          · exact absurd h.symm hj
          · exact h
        simp [afterExit, hj, ih this]
    | enter p k o t => simpa [afterExit] using ih (by simpa [exitIds] using h)
    | visit p k s v => simpa [afterExit] using ih (by simpa [exitIds] using h)

theorem afterExit_append_of_not_mem (id : Nat) (a b : List Ev) (h : id ∉ exitIds a) :
    afterExit id (a ++ b) = afterExit id b := by
  induction a with
  | nil => rfl
  | cons e r ih =>
    cases e with
    | exit j =>
      have hj : j ≠ id := by intro hj; subst hj; simp [exitIds] at h
      have : id ∉ exitIds r := by intro hm; exact h (by simp [exitIds, hm])
      simp [afterExit, hj, ih this]
    | enter p k o t => simpa [afterExit] using ih (by simpa [exitIds] using h)
    | visit p k s v => simpa [afterExit] using ih (by simpa [exitIds] using h)

theorem afterExit_nil_of_not_mem (id : Nat) (a : List Ev) (h : id ∉ exitIds a) : afterExit id a = [] := by
  simpa [afterExit] using afterExit_append_of_not_mem id a [] h

/-- every visit of a reference to `id` made after `id` was exited saw the registered rebuilt object -/
def SharedInv (s : HSt) : Prop :=
  ∀ id p k v, Ev.visit p k (.ref id) v ∈ afterExit id s.trace → lookup id s.reg = some v

theorem lookup_cons_of_ne {id j : Nat} {o : Obj} {r : List (Nat × Obj)} (h : j ≠ id) :
    lookup id ((j, o) :: r) = lookup id r := by
  simp [lookup, h]

theorem SharedInv_step (c : HCfg) (h : Heap) (root : Obj) (s s' : HSt)
    (ho : OInv s) (hi : SharedInv s) (hs : hstep c h root s = some s') : SharedInv s' := by
  have hreg := ho.registered
  have hsub := ho.exitsSub
  -- not registered ⇒ never exited
  have hfresh : ∀ id, lookup id s.reg = none → id ∉ exitIds s.trace :=
    fun id hl hm => hreg id (hsub id hm) hl
  unfold hstep at hs
  split at hs
  · simp at hs
  · rename_i herr
    have hperm := ho.perm herr
    have hndEF : (exitIds s.trace ++ frameIds s.stack).Nodup := hperm.nodup_iff.2 ho.nodup
    split at hs
    · simp at hs
    · rename_i k old new kd rest hst
      rw [hst] at hndEF
      have hold : old ∉ exitIds s.trace := by
        intro hm
        have := (List.nodup_append.1 hndEF).2.2 old hm old (by simp [frameIds])
        exact this rfl
      split at hs
      · injection hs with hs; subst hs
        exact hi
      · split at hs
        · injection hs with hs; subst hs
          intro id p k' v hm
          simp only at hm
          by_cases hid : old = id
          · subst hid
            rw [afterExit_append_of_not_mem _ _ _ hold] at hm
            simp [afterExit] at hm
          · rw [lookup_cons_of_ne hid]
            by_cases hex : id ∈ exitIds s.trace
            · rw [afterExit_append_of_mem _ _ _ hex] at hm
              simp only [List.mem_append, List.mem_singleton] at hm
              rcases hm with hm | hm
              · exact hi id p k' v hm
              · cases hm
            · rw [afterExit_append_of_not_mem _ _ _ hex] at hm
              simp [afterExit, hid] at hm
        · injection hs with hs; subst hs
          intro id p k' v hm
          simp only [finishItem_trace, finishItem_reg] at hm ⊢
          by_cases hid : old = id
          · subst hid
            rw [List.append_assoc, afterExit_append_of_not_mem _ _ _ hold] at hm
            simp [afterExit] at hm
            simp [lookup, hm.2.2]
          · rw [lookup_cons_of_ne hid]
            by_cases hex : id ∈ exitIds s.trace
            · rw [List.append_assoc, afterExit_append_of_mem _ _ _ hex] at hm
              simp only [List.mem_append, List.mem_cons, List.mem_nil_iff, or_false] at hm
              rcases hm with hm | hm | hm
              · exact hi id p k' v hm
              · cases hm
              · injection hm with _ _ h3 _
                injection h3 with h3
                exact absurd h3.symm hid
            · rw [List.append_assoc, afterExit_append_of_not_mem _ _ _ hex] at hm
              simp [afterExit, hid] at hm
    · rename_i k o rest hst
      split at hs
      · injection hs with hs; subst hs
        intro id p k' v hm
        simp only [finishItem_trace, finishItem_reg] at hm ⊢
        by_cases hex : id ∈ exitIds s.trace
        · rw [List.append_assoc, afterExit_append_of_mem _ _ _ hex] at hm
          simp only [List.mem_append, List.mem_cons, List.mem_nil_iff, or_false] at hm
          rcases hm with hm | hm | hm
          · exact hi id p k' v hm
          · cases hm
          · injection hm with _ _ h3 _; cases h3
        · rw [List.append_assoc, afterExit_append_of_not_mem _ _ _ hex] at hm
          simp [afterExit] at hm
      · rename_i id0
        split at hs
        · rename_i v0 hlk
          injection hs with hs; subst hs
          intro id p k' v hm
          simp only [finishItem_trace, finishItem_reg] at hm ⊢
          by_cases hex : id ∈ exitIds s.trace
          · rw [afterExit_append_of_mem _ _ _ hex] at hm
            simp only [List.mem_append, List.mem_cons, List.mem_nil_iff, or_false] at hm
            rcases hm with hm | hm
            · exact hi id p k' v hm
            · injection hm with _ _ h3 h4
              injection h3 with h3
              subst h3; subst h4; exact hlk
          · rw [afterExit_append_of_not_mem _ _ _ hex] at hm
            simp [afterExit] at hm
        · rename_i hlk
          split at hs
          · injection hs with hs; subst hs
            intro id p k' v hm
            simp only [finishItem_trace, finishItem_reg] at hm ⊢
            by_cases hex : id ∈ exitIds s.trace
            · rw [List.append_assoc, afterExit_append_of_mem _ _ _ hex] at hm
              simp only [List.mem_append, List.mem_cons, List.mem_nil_iff, or_false] at hm
              rcases hm with hm | hm | hm
              · exact hi id p k' v hm
              · cases hm
              · injection hm with _ _ h3 h4
                injection h3 with h3
                subst h3
                exact absurd hex (hfresh _ hlk)
            · rw [List.append_assoc, afterExit_append_of_not_mem _ _ _ hex] at hm
              simp [afterExit] at hm
          · rename_i nd hnd'
            injection hs with hs; subst hs
            intro id p k' v hm
            simp only at hm ⊢
            by_cases hid : id0 = id
            · subst hid
              rw [afterExit_append_of_not_mem _ _ _ (hfresh _ hlk)] at hm
              simp [afterExit] at hm
            · rw [lookup_cons_of_ne hid]
              by_cases hex : id ∈ exitIds s.trace
              · rw [afterExit_append_of_mem _ _ _ hex] at hm
                simp only [List.mem_append, List.mem_singleton] at hm
                rcases hm with hm | hm
                · exact hi id p k' v hm
                · cases hm
              · rw [afterExit_append_of_not_mem _ _ _ hex] at hm
                simp [afterExit] at hm

theorem SharedInv_run (c : HCfg) (h : Heap) (root : Obj) (n : Nat) (s : HSt) (ho : OInv s)
    (hi : SharedInv s) : SharedInv (hrun c h root n s) := by
  induction n generalizing s with
  | zero => exact hi
  | succ n ih =>
    simp only [hrun]
    cases hs : hstep c h root s with
    | none => exact hi
    | some s' => exact ih s' (OInv_step c h root s s' ho hs) (SharedInv_step c h root s s' ho hi hs)

theorem SharedInv_final (c : HCfg) (h : Heap) (root : Obj) : SharedInv (hfinal c h root) :=
  SharedInv_run c h root _ _ (OInv_init root) (by intro id p k v hm; simp [hinit, afterExit] at hm)

/-! ## tree level: research paths are retrievable with get_path -/

def keysOf (kd : Kind) (i : Nat) : Items → List Key
  | .nil => []
  | .cons k _ r => effKey kd i k :: keysOf kd (i + 1) r

mutual
/-- the keys of every dict are pairwise distinct (a fact about every Python dict) -/
def WFKeys : Val → Prop
  | .leaf _ => True
  | .node kd its => (kd = .dict → (keysOf kd 0 its).Nodup) ∧ WFKeysItems its
def WFKeysItems : Items → Prop
  | .nil => True
  | .cons _ v r => WFKeys v ∧ WFKeysItems r
end

theorem keysOf_seq (kd : Kind) (hk : kd ≠ .dict) : (its : Items) → (i : Nat) →
    ∀ k ∈ keysOf kd i its, ∃ j, i ≤ j ∧ k = .int j
  | .nil, i => by simp [keysOf]
  | .cons k v r, i => by
    intro k' hk'
    simp only [keysOf, List.mem_cons] at hk'
    rcases hk' with h | h
    · exact ⟨i, Nat.le_refl _, by simp [h, effKey, hk]⟩
    · obtain ⟨j, hj, he⟩ := keysOf_seq kd hk r (i + 1) k' h
      exact ⟨j, by omega, he⟩

theorem keysOf_nodup_seq (kd : Kind) (hk : kd ≠ .dict) : (its : Items) → (i : Nat) →
    (keysOf kd i its).Nodup
  | .nil, i => by simp [keysOf]
  | .cons k v r, i => by
    simp only [keysOf, List.nodup_cons]
    refine ⟨?_, keysOf_nodup_seq kd hk r (i + 1)⟩
    intro hm
    obtain ⟨j, hj, he⟩ := keysOf_seq kd hk r (i + 1) _ hm
    simp only [effKey, hk, if_false] at he
    injection he with he
    omega

theorem keysOf_nodup (kd : Kind) (its : Items) (h : kd = .dict → (keysOf kd 0 its).Nodup) :
    (keysOf kd 0 its).Nodup := by
  by_cases hk : kd = .dict
  · exact h hk
  · exact keysOf_nodup_seq kd hk its 0

theorem lookupItems_mem (kd : Kind) (seg : Atom) : (its : Items) → (i : Nat) → (c : Val) →
    lookupItems kd i seg its = some c → seg ∈ keysOf kd i its
  | .nil, i, c, h => by simp [lookupItems] at h
  | .cons k v r, i, c, h => by
    simp only [lookupItems] at h
    split at h
    · rename_i he; simp [keysOf, he]
    · simp [keysOf, lookupItems_mem kd seg r (i + 1) c h]

mutual
theorem log_val (v : Val) (p : Path) (k : Key) (e : Path × Key × Val) (hw : WFKeys v)
    (he : e ∈ preLog p k v) :
    ∃ q, e.1 ++ [e.2.1] = p ++ [k] ++ q ∧ (setOnPath v q = false → getPath v q = some e.2.2) := by
  cases v with
  | leaf a =>
    simp only [preLog, List.mem_singleton] at he
    subst he
    exact ⟨[], by simp, by simp [getPath]⟩
  | node kd its =>
    simp only [preLog, List.mem_cons] at he
    rcases he with he | he
    · subst he
      exact ⟨[], by simp, by simp [getPath]⟩
    · simp only [WFKeys] at hw
      obtain ⟨seg, q, c, h1, h2, h3⟩ := log_items its kd 0 (p ++ [k]) e hw.2 (keysOf_nodup kd its hw.1) he
      refine ⟨seg :: q, by simpa using h1, ?_⟩
      intro hs
      simp only [setOnPath] at hs
      split at hs
      · simp at hs
      · rename_i hset
        rw [h2] at hs
        simp only [getPath, getChild]
        simp only [Bool.not_eq_true] at hset
        simp [hset, h2, h3 hs]
theorem log_items (its : Items) (kd : Kind) (i : Nat) (p : Path) (e : Path × Key × Val)
    (hw : WFKeysItems its) (hn : (keysOf kd i its).Nodup) (he : e ∈ preLogItems p kd i its) :
    ∃ seg q c, e.1 ++ [e.2.1] = p ++ seg :: q ∧ lookupItems kd i seg its = some c ∧
      (setOnPath c q = false → getPath c q = some e.2.2) := by
  cases its with
  | nil => simp [preLogItems] at he
  | cons k v r =>
    simp only [preLogItems, List.mem_append] at he
    simp only [WFKeysItems] at hw
    simp only [keysOf, List.nodup_cons] at hn
    rcases he with he | he
    · obtain ⟨q, h1, h2⟩ := log_val v p (effKey kd i k) e hw.1 he
      exact ⟨effKey kd i k, q, v, by simpa using h1, by simp [lookupItems], h2⟩
    · obtain ⟨seg, q, c, h1, h2, h3⟩ := log_items r kd (i + 1) p e hw.2 hn.2 he
      refine ⟨seg, q, c, h1, ?_, h3⟩
      have hne : effKey kd i k ≠ seg := by
        intro heq
        exact hn.1 (heq ▸ lookupItems_mem kd seg r (i + 1) c h2)
      simp [lookupItems, hne, h2]
end

theorem nested_paths_retrievable (kd : Kind) (its : Items) (hw : WFKeys (.node kd its))
    (e : Path × Key × Val) (he : e ∈ nestedLog (.node kd its))
    (hs : setOnPath (.node kd its) (e.1 ++ [e.2.1]) = false) :
    getPath (.node kd its) (e.1 ++ [e.2.1]) = some e.2.2 := by
  simp only [nestedLog] at he
  simp only [WFKeys] at hw
  obtain ⟨seg, q, c, h1, h2, h3⟩ := log_items its kd 0 [] e hw.2 (keysOf_nodup kd its hw.1) he
  simp only [List.nil_append] at h1
  rw [h1] at hs ⊢
  simp only [setOnPath] at hs
  split at hs
  · simp at hs
  · rename_i hset
    rw [h2] at hs
    simp only [Bool.not_eq_true] at hset
    simp [getPath, getChild, hset, h2, h3 hs]

/-! ## tree level: the default callbacks give an equal copy -/

/-- `a` earlier than `b` in a set ⇒ they are not `==` -/
def DistinctBy (eq : Val → Val → Bool) (l : List Val) : Prop := l.Pairwise fun a b => eq a b = false

mutual
/-- canonical form of a Python value: dict keys pairwise distinct, sequence items numbered
    0, 1, 2, …, set members pairwise not `==` -/
def Canon : Val → Prop
  | .leaf _ => True
  | .node kd its =>
    CanonItems its ∧
    (kd = .dict → (its.toList.map Prod.fst).Nodup) ∧
    (kd ≠ .dict → its.toList = renumber 0 (its.toList.map Prod.snd)) ∧
    (kd.isSet = true → DistinctBy valEqPy (its.toList.map Prod.snd))
def CanonItems : Items → Prop
  | .nil => True
  | .cons _ v r => Canon v ∧ CanonItems r
end

theorem enumT_snd (kd : Kind) : (its : Items) → (i : Nat) →
    (enumT kd i its).map Prod.snd = its.toList.map Prod.snd
  | .nil, i => rfl
  | .cons k v r, i => by simp [enumT, Items.toList, enumT_snd kd r (i + 1)]

theorem enumT_dict : (its : Items) → (i : Nat) → enumT .dict i its = its.toList
  | .nil, i => rfl
  | .cons k v r, i => by simp [enumT, Items.toList, effKey, enumT_dict r (i + 1)]

theorem ofList_toList : (its : Items) → ofList its.toList = its
  | .nil => rfl
  | .cons k v r => by simp [Items.toList, ofList, ofList_toList r]

theorem dictInsert_fresh {V : Type} (k : Key) (v : V) (acc : List (Key × V))
    (h : k ∉ acc.map Prod.fst) : dictInsert k v acc = acc ++ [(k, v)] := by
  induction acc with
  | nil => rfl
  | cons x r ih =>
    obtain ⟨k', v'⟩ := x
    simp only [List.map_cons, List.mem_cons, not_or] at h
    have hne : k' ≠ k := fun he => h.1 he.symm
    simp [dictInsert, hne, ih h.2]

theorem dictUpdate_nodup {V : Type} (acc l : List (Key × V))
    (h : ((acc ++ l).map Prod.fst).Nodup) : dictUpdate acc l = acc ++ l := by
  induction l generalizing acc with
  | nil => simp [dictUpdate]
  | cons x r ih =>
    obtain ⟨k, v⟩ := x
    have hk : k ∉ acc.map Prod.fst := by
      intro hm
      simp only [List.map_append, List.map_cons] at h
      have := (List.nodup_append.1 h).2.2 k hm k (by simp)
      exact this rfl
    simp only [dictUpdate, dictInsert_fresh k v acc hk]
    rw [ih (acc ++ [(k, v)]) (by simpa [List.append_assoc] using h)]
    simp

theorem memBy_false {V : Type} (eq : V → V → Bool) (x : V) (acc : List V)
    (h : ∀ y ∈ acc, eq y x = false) : memBy eq x acc = false := by
  induction acc with
  | nil => rfl
  | cons y r ih =>
    simp only [memBy, Bool.or_eq_false_iff]
    exact ⟨h y (by simp), ih fun z hz => h z (by simp [hz])⟩

theorem dedupBy_distinct {V : Type} (eq : V → V → Bool) (acc l : List V)
    (h : (acc ++ l).Pairwise fun a b => eq a b = false) : dedupBy eq acc l = acc ++ l := by
  induction l generalizing acc with
  | nil => simp [dedupBy]
  | cons x r ih =>
    have hx : memBy eq x acc = false := by
      apply memBy_false
      intro y hy
      exact (List.pairwise_append.1 h).2.2 y hy x (by simp)
    simp only [dedupBy, hx]
    rw [show (if false = true then dedupBy eq acc r else dedupBy eq (acc ++ [x]) r)
          = dedupBy eq (acc ++ [x]) r from rfl]
    rw [ih (acc ++ [x]) (by simpa [List.append_assoc] using h)]
    simp

def copyCfg : Cfg := ⟨keepVisit, defaultExit⟩

theorem build_canon (kd : Kind) (its : Items)
    (hd : kd = .dict → (its.toList.map Prod.fst).Nodup)
    (hs : kd ≠ .dict → its.toList = renumber 0 (its.toList.map Prod.snd))
    (hq : kd.isSet = true → DistinctBy valEqPy (its.toList.map Prod.snd)) :
    ofList (buildItems valEqPy kd (enumT kd 0 its)) = its := by
  cases kd with
  | dict =>
    simp only [buildItems, enumT_dict]
    rw [dictUpdate_nodup [] its.toList (by simpa using hd rfl)]
    simpa using ofList_toList its
  | list =>
    simp only [buildItems, enumT_snd]
    rw [← hs (by decide)]; exact ofList_toList its
  | tuple =>
    simp only [buildItems, enumT_snd]
    rw [← hs (by decide)]; exact ofList_toList its
  | set =>
    simp only [buildItems, enumT_snd]
    rw [dedupBy_distinct valEqPy [] _ (by simpa [DistinctBy] using hq rfl)]
    simp only [List.nil_append]
    rw [← hs (by decide)]; exact ofList_toList its
  | fset =>
    simp only [buildItems, enumT_snd]
    rw [dedupBy_distinct valEqPy [] _ (by simpa [DistinctBy] using hq rfl)]
    simp only [List.nil_append]
    rw [← hs (by decide)]; exact ofList_toList its

mutual
theorem copy_val (p : Path) (k : Key) (v : Val) (hc : Canon v) : rebuildChild copyCfg p k v = v := by
  cases v with
  | leaf a => rfl
  | node kd its =>
    simp only [Canon] at hc
    simp only [rebuildChild, copy_items (p ++ [k]) kd 0 its hc.1]
    simp only [copyCfg, defaultExit, build_canon kd its hc.2.1 hc.2.2.1 hc.2.2.2]
theorem copy_items (p : Path) (kd : Kind) (i : Nat) (its : Items) (hc : CanonItems its) :
    rebuildItems copyCfg p kd i its = enumT kd i its := by
  cases its with
  | nil => rfl
  | cons k v r =>
    simp only [CanonItems] at hc
    simp only [rebuildItems, copy_val p (effKey kd i k) v hc.1, copy_items p kd (i + 1) r hc.2, enumT]
    simp [applyVisit, copyCfg, keepVisit]
end

theorem remapRec_copy (t : Val) (hc : Canon t) : remapRec copyCfg t = t := by
  cases t with
  | leaf a => rfl
  | node kd its =>
    simp only [Canon] at hc
    simp only [remapRec, copy_items [] kd 0 its hc.1]
    simp only [copyCfg, defaultExit, build_canon kd its hc.2.1 hc.2.2.1 hc.2.2.2]

/-! ## heap level: the loop with its id-registry = the memoised recursive rebuild -/

theorem hrun_stuck (c : HCfg) (h : Heap) (root : Obj) (s : HSt) (hs : hstep c h root s = none) (m : Nat) :
    hrun c h root m s = s := by
  cases m <;> simp [hrun, hs]

theorem hrun_add (c : HCfg) (h : Heap) (root : Obj) (a b : Nat) (s : HSt) :
    hrun c h root (a + b) s = hrun c h root b (hrun c h root a s) := by
  induction a generalizing s with
  | zero => simp [hrun]
  | succ n ih =>
    rw [Nat.succ_add]
    simp only [hrun]
    cases hs : hstep c h root s with
    | none => simp [hrun_stuck c h root s hs]
    | some s' => simp [ih]

theorem finishItem_of_visitOut (c : HCfg) (s : HSt) (rest : List HFrame) (k : Key) (src val : Obj)
    (its : List (Key × Obj)) (pp : Path) (acc : List (Key × Obj)) (nr : List (Path × List (Key × Obj)))
    (hn : s.nis = (pp, acc) :: nr) (hv : visitOut c s.out s.path k val = some its) :
    finishItem c s rest k src val =
      { s with stack := rest, value := val, trace := s.trace ++ [.visit s.path k src val],
               nis := (pp, acc ++ its) :: nr } := by
  unfold visitOut at hv
  unfold finishItem
  split at hv
  · injection hv with hv; subst hv
    rename_i hvf; simp [hvf, appendItem, hn]
  · injection hv with hv; subst hv
    rename_i hvf; simp [hvf, hn]
  · injection hv with hv; subst hv
    rename_i hvf; simp [hvf, appendItem, hn]
  · rename_i hvf
    split at hv
    · simp at hv
    · injection hv with hv; subst hv
      rename_i hr; simp [hvf, hr, appendItem, hn]

def SimVal (c : HCfg) (h : Heap) (root : Obj) (n : Nat) : Prop :=
  ∀ (p : Path) (k : Key) (o : Obj) (st st' : RSt) (v : Obj) (its : List (Key × Obj))
    (rest : List HFrame) (pp : Path) (acc : List (Key × Obj)) (nr : List (Path × List (Key × Obj)))
    (val : Obj),
    recVal c h root n p k o st = some (st', v) → visitOut c st'.out p k v = some its →
    ∃ m, hrun c h root m ⟨.item k o :: rest, p, st.reg, (pp, acc) :: nr, st.out, val, st.trace, none⟩ =
      ⟨rest, p, st'.reg, (pp, acc ++ its) :: nr, st'.out, v, st'.trace ++ [.visit p k o v], none⟩

def SimItems (c : HCfg) (h : Heap) (root : Obj) (n : Nat) : Prop :=
  ∀ (p : Path) (items acc : List (Key × Obj)) (st st' : RSt) (acc' : List (Key × Obj))
    (rest : List HFrame) (pp : Path) (nr : List (Path × List (Key × Obj))) (val : Obj),
    recItems c h root n p items acc st = some (st', acc') →
    ∃ m val', hrun c h root m ⟨itemFrames items ++ rest, p, st.reg, (pp, acc) :: nr, st.out, val, st.trace, none⟩ =
      ⟨rest, p, st'.reg, (pp, acc') :: nr, st'.out, val', st'.trace, none⟩

theorem hrun_one (c : HCfg) (h : Heap) (root : Obj) (s s' : HSt) (hs : hstep c h root s = some s') :
    hrun c h root 1 s = s' := by
  simp [hrun, hs]

theorem simItems_succ (c : HCfg) (h : Heap) (root : Obj) (n : Nat)
    (hv : SimVal c h root n) (hi : SimItems c h root n) : SimItems c h root (n + 1) := by
  intro p items acc st st' acc' rest pp nr val hr
  cases items with
  | nil =>
    simp only [recItems] at hr
    injection hr with hr; injection hr with h1 h2; subst h1; subst h2
    exact ⟨0, val, by simp [hrun, itemFrames]⟩
  | cons x r =>
    obtain ⟨k, o⟩ := x
    simp only [recItems] at hr
    split at hr
    · simp at hr
    · rename_i st1 v1 hrv
      split at hr
      · simp at hr
      · rename_i its hvo
        obtain ⟨m1, h1⟩ := hv p k o st st1 v1 its (itemFrames r ++ rest) pp acc nr val hrv hvo
        obtain ⟨m2, val', h2⟩ := hi p r (acc ++ its) { st1 with trace := st1.trace ++ [.visit p k o v1] } st' acc'
          rest pp nr v1 hr
        refine ⟨m1 + m2, val', ?_⟩
        rw [hrun_add]
        simp only [itemFrames, List.map_cons, List.cons_append] at h1 ⊢
        rw [h1]
        exact h2

theorem simVal_succ (c : HCfg) (h : Heap) (root : Obj) (n : Nat)
    (hi : SimItems c h root n) : SimVal c h root (n + 1) := by
  intro p k o st st' v its rest pp acc nr val hr hvo
  simp only [recVal] at hr
  cases o with
  | atom a =>
    simp only at hr
    injection hr with hr; injection hr with h1 h2; subst h1; subst h2
    refine ⟨1, ?_⟩
    apply hrun_one
    simp only [hstep]
    rw [finishItem_of_visitOut c _ rest k (.atom a) (.atom a) its pp acc nr rfl hvo]
  | ref id =>
    simp only at hr
    split at hr
    · rename_i v0 hlk
      injection hr with hr; injection hr with h1 h2; subst h1; subst h2
      refine ⟨1, ?_⟩
      apply hrun_one
      simp only [hstep, hlk]
      rw [finishItem_of_visitOut c _ rest k (.ref id) _ its pp acc nr rfl hvo]
    · rename_i hlk
      split at hr
      · rename_i hnd
        injection hr with hr; injection hr with h1 h2; subst h1; subst h2
        refine ⟨1, ?_⟩
        apply hrun_one
        simp only [hstep, hlk, hnd]
        rw [finishItem_of_visitOut c _ rest k (.ref id) (.ref id) its pp acc nr rfl hvo]
      · rename_i nd hnd
        split at hr
        · simp at hr
        · rename_i st2 items hri
          injection hr with hr; injection hr with h1 h2; subst h1; subst h2
          obtain ⟨m2, val', h2⟩ := hi _ _ _ _ st2 items (.exit k id st.out.length nd.kind :: rest) p
            ((pp, acc) :: nr) val hri
          refine ⟨1 + (m2 + 1), ?_⟩
          have e1 : hrun c h root 1
              ⟨.item k (.ref id) :: rest, p, st.reg, (pp, acc) :: nr, st.out, val, st.trace, none⟩ =
              ⟨itemFrames (enumItems nd.kind 0 nd.items) ++ (.exit k id st.out.length nd.kind :: rest),
               if Obj.ref id = root then p else p ++ [k], (id, .ref st.out.length) :: st.reg,
               (p, []) :: (pp, acc) :: nr, st.out ++ [⟨nd.kind, []⟩], val,
               st.trace ++ [.enter p k (.ref id) true], none⟩ := by
            apply hrun_one
            simp only [hstep, hlk, hnd]
          rw [hrun_add, hrun_add, e1, h2]
          apply hrun_one
          simp only [hstep]
          rw [finishItem_of_visitOut c _ rest k (.ref id) _ its pp acc nr rfl hvo]

theorem sim_all (c : HCfg) (h : Heap) (root : Obj) (n : Nat) : SimVal c h root n ∧ SimItems c h root n := by
  induction n with
  | zero =>
    constructor
    · intro p k o st st' v its rest pp acc nr val hr; simp [recVal] at hr
    · intro p items acc st st' acc' rest pp nr val hr; simp [recItems] at hr
  | succ n ih =>
    exact ⟨simVal_succ c h root n ih.2, simItems_succ c h root n ih.1 ih.2⟩

theorem hrun_eq_of_halted (c : HCfg) (h : Heap) (root : Obj) (m b : Nat) (s f : HSt)
    (hm : hrun c h root m s = f) (hf : hstep c h root f = none)
    (hb : hstep c h root (hrun c h root b s) = none) : hrun c h root b s = f := by
  have h1 : hrun c h root (m + b) s = f := by rw [hrun_add, hm, hrun_stuck c h root f hf]
  have h2 : hrun c h root (b + m) s = hrun c h root b s := by rw [hrun_add, hrun_stuck c h root _ hb]
  rw [Nat.add_comm] at h1
  rw [← h2, h1]

theorem hfinal_eq_recRoot (c : HCfg) (h : Heap) (root : Obj) (n : Nat) (st' : RSt) (v : Obj)
    (hr : recRoot c h root n = some (st', v)) :
    hfinal c h root = ⟨[], [], st'.reg, [], st'.out, v, st'.trace, none⟩ := by
  unfold recRoot at hr
  cases root with
  | atom a => simp at hr
  | ref id =>
    simp only at hr
    split at hr
    · simp at hr
    · rename_i nd hnd
      split at hr
      · simp at hr
      · rename_i st2 items hri
        injection hr with hr; injection hr with h1 h2; subst h1; subst h2
        obtain ⟨m2, val', h2⟩ := (sim_all c h (.ref id) n).2 _ _ _ _ st2 items
          [.exit .none id 0 nd.kind] [] [] (.ref id) hri
        have e1 : hrun c h (.ref id) 1 (hinit (.ref id)) =
            ⟨itemFrames (enumItems nd.kind 0 nd.items) ++ [.exit .none id 0 nd.kind], [],
             [(id, .ref 0)], [([], [])], [⟨nd.kind, []⟩], .ref id, [.enter [] .none (.ref id) true], none⟩ := by
          apply hrun_one
          simp [hstep, hinit, lookup, hnd]
        apply hrun_eq_of_halted c h (.ref id) (1 + (m2 + 1)) (hbound h) (hinit (.ref id))
        · rw [hrun_add, hrun_add, e1, h2]
          apply hrun_one
          simp [hstep]
        · simp [hstep]
        · exact hfinal_halted c h (.ref id)

/-! the recursion itself returns (fuel `hbound h` suffices) unless a visit raises -/

def TInvR (h : Heap) (todo : List Nat) (st : RSt) : Prop :=
  ∀ id nd, h[id]? = some nd → lookup id st.reg = none → id ∈ todo

def NoRaise (c : HCfg) : Prop := ∀ out p k v, visitOut c out p k v ≠ none

def TermVal (c : HCfg) (h : Heap) (root : Obj) (n : Nat) : Prop :=
  ∀ (p : Path) (k : Key) (o : Obj) (st : RSt) (todo : List Nat),
    TInvR h todo st → costSum h todo + 1 ≤ n →
    ∃ st' v todo', recVal c h root n p k o st = some (st', v) ∧ TInvR h todo' st' ∧
      costSum h todo' ≤ costSum h todo

def TermItems (c : HCfg) (h : Heap) (root : Obj) (n : Nat) : Prop :=
  ∀ (p : Path) (items acc : List (Key × Obj)) (st : RSt) (todo : List Nat),
    TInvR h todo st → costSum h todo + items.length + 1 ≤ n →
    ∃ st' acc' todo', recItems c h root n p items acc st = some (st', acc') ∧ TInvR h todo' st' ∧
      costSum h todo' ≤ costSum h todo

theorem enumItems_length (kd : Kind) (l : List (Key × Obj)) (i : Nat) :
    (enumItems kd i l).length = l.length := by
  induction l generalizing i with
  | nil => rfl
  | cons x r ih => obtain ⟨a, b⟩ := x; simp [enumItems, ih]

theorem termItems_succ (c : HCfg) (h : Heap) (root : Obj) (hnr : NoRaise c) (n : Nat)
    (hv : TermVal c h root n) (hi : TermItems c h root n) : TermItems c h root (n + 1) := by
  intro p items acc st todo ht hn
  cases items with
  | nil => exact ⟨st, acc, todo, by simp [recItems], ht, Nat.le_refl _⟩
  | cons x r =>
    obtain ⟨k, o⟩ := x
    simp only [List.length_cons] at hn
    obtain ⟨st1, v1, todo1, h1, ht1, hc1⟩ := hv p k o st todo ht (by omega)
    cases hvo : visitOut c st1.out p k v1 with
    | none => exact absurd hvo (hnr _ _ _ _)
    | some its =>
      obtain ⟨st2, acc2, todo2, h2, ht2, hc2⟩ :=
        hi p r (acc ++ its) { st1 with trace := st1.trace ++ [.visit p k o v1] } todo1 ht1 (by omega)
      exact ⟨st2, acc2, todo2, by simp only [recItems, h1, hvo, h2], ht2, by omega⟩

theorem termVal_succ (c : HCfg) (h : Heap) (root : Obj) (n : Nat)
    (hi : TermItems c h root n) : TermVal c h root (n + 1) := by
  intro p k o st todo ht hn
  cases o with
  | atom a =>
    exact ⟨{ st with trace := st.trace ++ [.enter p k (.atom a) false] }, .atom a, todo,
      by simp only [recVal], ht, Nat.le_refl _⟩
  | ref id =>
    cases hlk : lookup id st.reg with
    | some v0 => exact ⟨st, v0, todo, by simp only [recVal, hlk], ht, Nat.le_refl _⟩
    | none =>
      cases hnd : h[id]? with
      | none =>
        exact ⟨{ st with trace := st.trace ++ [.enter p k (.ref id) false] }, .ref id, todo,
          by simp only [recVal, hlk, hnd], ht, Nat.le_refl _⟩
      | some nd =>
        have hm : id ∈ todo := ht id nd hnd hlk
        have hc := costSum_erase h todo id hm
        have hcost : cost h id = nd.items.length + 2 := by simp [cost, hnd, nodeCost]
        have ht1 : TInvR h (todo.erase id)
            ⟨(id, .ref st.out.length) :: st.reg, st.out ++ [⟨nd.kind, []⟩],
             st.trace ++ [.enter p k (.ref id) true]⟩ := by
          intro id' nd' hn' hl
          have := lookup_cons_none hl
          exact (List.mem_erase_of_ne (Ne.symm this.1)).2 (ht id' nd' hn' this.2)
        obtain ⟨st2, items, todo2, h2, ht2, hc2⟩ :=
          hi (if Obj.ref id = root then p else p ++ [k]) (enumItems nd.kind 0 nd.items) [] _ _ ht1
            (by rw [enumItems_length]; omega)
        refine ⟨⟨(id, (exitNode nd.kind st.out.length items st2.out).2) :: st2.reg,
                  (exitNode nd.kind st.out.length items st2.out).1, st2.trace ++ [.exit id]⟩,
                (exitNode nd.kind st.out.length items st2.out).2, todo2,
                by simp only [recVal, hlk, hnd, h2], ?_, by omega⟩
        intro id' nd' hn' hl
        exact ht2 id' nd' hn' (lookup_cons_none hl).2

theorem term_all (c : HCfg) (h : Heap) (root : Obj) (hnr : NoRaise c) (n : Nat) :
    TermVal c h root n ∧ TermItems c h root n := by
  induction n with
  | zero =>
    constructor
    · intro p k o st todo ht hn; omega
    · intro p items acc st todo ht hn; omega
  | succ n ih =>
    exact ⟨termVal_succ c h root n ih.2, termItems_succ c h root hnr n ih.1 ih.2⟩

theorem recRoot_returns (c : HCfg) (h : Heap) (id : Nat) (nd : Node) (hnr : NoRaise c)
    (hnd : h[id]? = some nd) : ∃ st' v, recRoot c h (.ref id) (hbound h) = some (st', v) := by
  have hm : id ∈ List.range h.length := by
    rcases Nat.lt_or_ge id h.length with hlt | hge
    · simpa using hlt
    · simp [List.getElem?_eq_none hge] at hnd
  have hc := costSum_erase h (List.range h.length) id hm
  have hcost : cost h id = nd.items.length + 2 := by simp [cost, hnd, nodeCost]
  have ht1 : TInvR h ((List.range h.length).erase id)
      ⟨[(id, .ref 0)], [⟨nd.kind, []⟩], [.enter [] .none (.ref id) true]⟩ := by
    intro id' nd' hn' hl
    have := lookup_cons_none hl
    refine (List.mem_erase_of_ne (Ne.symm this.1)).2 ?_
    rcases Nat.lt_or_ge id' h.length with hlt | hge
    · simpa using hlt
    · simp [List.getElem?_eq_none hge] at hn'
  obtain ⟨st2, items, todo2, h2, _, _⟩ :=
    (term_all c h (.ref id) hnr (hbound h)).2 [] (enumItems nd.kind 0 nd.items) [] _ _ ht1
      (by rw [enumItems_length, costSum_range] at *; simp only [hbound]; omega)
  simp only [recRoot, hnd, h2]
  exact ⟨_, _, rfl⟩

/-! ## heap level: the output only refers to rebuilt objects -/

def objClosed (n : Nat) : Obj → Prop
  | .atom _ => True
  | .ref i => i < n

def itemsClosed (n : Nat) (l : List (Key × Obj)) : Prop := ∀ kv ∈ l, objClosed n kv.2

theorem objClosed_mono {n m : Nat} (h : n ≤ m) {o : Obj} (ho : objClosed n o) : objClosed m o := by
  cases o with
  | atom a => trivial
  | ref i => exact Nat.lt_of_lt_of_le ho h

theorem itemsClosed_mono {n m : Nat} (h : n ≤ m) {l : List (Key × Obj)} (hl : itemsClosed n l) :
    itemsClosed m l := fun kv hkv => objClosed_mono h (hl kv hkv)

/-- every ref stored in the input heap points into the input heap -/
def HeapWF (h : Heap) : Prop := ∀ nd ∈ h, ∀ kv ∈ nd.items, objClosed h.length kv.2

/-- a visit callback only hands back the value it was given or a scalar -/
def LocalVisit (c : HCfg) : Prop :=
  ∀ out p k v k' v', c.vf out p k v = .repl k' v' → (∃ a, v' = .atom a) ∨ v' = v

theorem dictInsert_vals {V : Type} (k : Key) (v : V) (acc : List (Key × V)) :
    ∀ kv ∈ dictInsert k v acc, kv.2 = v ∨ kv ∈ acc := by
  induction acc with
  | nil => intro kv h; simp [dictInsert] at h; simp [h]
  | cons x r ih =>
    obtain ⟨k', v'⟩ := x
    intro kv h
    simp only [dictInsert] at h
    split at h
    · simp only [List.mem_cons] at h
      rcases h with h | h
      · left; simp [h]
      · right; simp [h]
    · simp only [List.mem_cons] at h
      rcases h with h | h
      · right; simp [h]
      · rcases ih kv h with h' | h'
        · left; exact h'
        · right; simp [h']

theorem dictUpdate_vals {V : Type} (P : V → Prop) (acc l : List (Key × V))
    (ha : ∀ kv ∈ acc, P kv.2) (hl : ∀ kv ∈ l, P kv.2) : ∀ kv ∈ dictUpdate acc l, P kv.2 := by
  induction l generalizing acc with
  | nil => simpa [dictUpdate] using ha
  | cons x r ih =>
    obtain ⟨k, v⟩ := x
    simp only [dictUpdate]
    apply ih
    · intro kv hkv
      rcases dictInsert_vals k v acc kv hkv with h | h
      · rw [h]; exact hl (k, v) (by simp)
      · exact ha kv h
    · intro kv hkv; exact hl kv (by simp [hkv])

theorem renumber_vals {V : Type} (P : V → Prop) (l : List V) (i : Nat) (hl : ∀ v ∈ l, P v) :
    ∀ kv ∈ renumber i l, P kv.2 := by
  induction l generalizing i with
  | nil => simp [renumber]
  | cons x r ih =>
    intro kv h
    simp only [renumber, List.mem_cons] at h
    rcases h with h | h
    · subst h; exact hl x (by simp)
    · exact ih (i + 1) (fun v hv => hl v (by simp [hv])) kv h

theorem dedupBy_vals {V : Type} (eq : V → V → Bool) (P : V → Prop) (acc l : List V)
    (ha : ∀ v ∈ acc, P v) (hl : ∀ v ∈ l, P v) : ∀ v ∈ dedupBy eq acc l, P v := by
  induction l generalizing acc with
  | nil => simpa [dedupBy] using ha
  | cons x r ih =>
    simp only [dedupBy]
    split
    · exact ih acc ha (fun v hv => hl v (by simp [hv]))
    · apply ih
      · intro v hv
        simp only [List.mem_append, List.mem_singleton] at hv
        rcases hv with hv | hv
        · exact ha v hv
        · subst hv; exact hl v (by simp)
      · exact fun v hv => hl v (by simp [hv])

theorem buildItems_closed (eq : Obj → Obj → Bool) (kd : Kind) (n : Nat) (items : List (Key × Obj))
    (hi : itemsClosed n items) : itemsClosed n (buildItems eq kd items) := by
  have hv : ∀ v ∈ items.map Prod.snd, objClosed n v := by
    intro v hv
    simp only [List.mem_map] at hv
    obtain ⟨kv, hkv, rfl⟩ := hv
    exact hi kv hkv
  cases kd with
  | dict => exact dictUpdate_vals (objClosed n) [] items (by simp) hi
  | list => exact renumber_vals (objClosed n) _ 0 hv
  | tuple => exact renumber_vals (objClosed n) _ 0 hv
  | set => exact renumber_vals (objClosed n) _ 0 (dedupBy_vals eq (objClosed n) [] _ (by simp) hv)
  | fset => exact renumber_vals (objClosed n) _ 0 (dedupBy_vals eq (objClosed n) [] _ (by simp) hv)

structure CInv (h : Heap) (s : HSt) : Prop where
  reg : ∀ kv ∈ s.reg, objClosed s.out.length kv.2
  nis : ∀ pa ∈ s.nis, itemsClosed s.out.length pa.2
  out : ∀ nd ∈ s.out, itemsClosed s.out.length nd.items
  frames : ∀ k old new kd, HFrame.exit k old new kd ∈ s.stack → new < s.out.length
  items : ∀ k o, HFrame.item k o ∈ s.stack → objClosed h.length o

theorem lookup_mem {id : Nat} {v : Obj} {r : List (Nat × Obj)} (h : lookup id r = some v) :
    ∃ j, (j, v) ∈ r := by
  induction r with
  | nil => simp [lookup] at h
  | cons x r ih =>
    obtain ⟨j, o⟩ := x
    simp only [lookup] at h
    split at h
    · injection h with h; subst h; exact ⟨j, by simp⟩
    · obtain ⟨j', hj⟩ := ih h; exact ⟨j', by simp [hj]⟩

theorem exitNode_closed (kd : Kind) (new : Nat) (items : List (Key × Obj)) (out : Heap)
    (ho : ∀ nd ∈ out, itemsClosed out.length nd.items) (hi : itemsClosed out.length items)
    (hn : new < out.length) :
    out.length ≤ (exitNode kd new items out).1.length ∧
    (∀ nd ∈ (exitNode kd new items out).1, itemsClosed (exitNode kd new items out).1.length nd.items) ∧
    objClosed (exitNode kd new items out).1.length (exitNode kd new items out).2 := by
  unfold exitNode
  split
  · refine ⟨by simp, ?_, by simpa [objClosed] using hn⟩
    intro nd hnd
    simp only [List.length_set]
    rcases List.mem_or_eq_of_mem_set hnd with h | h
    · exact ho nd h
    · subst h; exact buildItems_closed _ kd _ items hi
  · refine ⟨by simp, ?_, by simp [objClosed]⟩
    intro nd hnd
    simp only [List.length_append, List.length_cons, List.length_nil]
    simp only [List.mem_append, List.mem_singleton] at hnd
    rcases hnd with h | h
    · exact itemsClosed_mono (by omega) (ho nd h)
    · subst h; exact itemsClosed_mono (by omega) (buildItems_closed _ kd _ items hi)

theorem appendItem_CInv (h : Heap) (s : HSt) (it : Key × Obj) (hi : CInv h s)
    (hc : objClosed s.out.length it.2) : CInv h (appendItem s it) := by
  unfold appendItem
  split
  · exact ⟨hi.reg, hi.nis, hi.out, hi.frames, hi.items⟩
  · rename_i pp acc nr hn
    refine ⟨hi.reg, ?_, hi.out, hi.frames, hi.items⟩
    intro pa hpa
    simp only [List.mem_cons] at hpa
    rcases hpa with h1 | h1
    · subst h1
      intro kv hkv
      simp only [List.mem_append, List.mem_singleton] at hkv
      rcases hkv with h2 | h2
      · exact hi.nis (pp, acc) (by simp [hn]) kv h2
      · subst h2; exact hc
    · exact hi.nis pa (by simp [hn, h1])

theorem finishItem_CInv (c : HCfg) (h : Heap) (s : HSt) (rest : List HFrame) (k : Key) (src val : Obj)
    (hl : LocalVisit c) (hi : CInv h { s with stack := rest }) (hv : objClosed s.out.length val) :
    CInv h (finishItem c s rest k src val) := by
  have hbase : ∀ tr, CInv h { s with stack := rest, value := val, trace := tr } :=
    fun tr => ⟨hi.reg, hi.nis, hi.out, hi.frames, hi.items⟩
  unfold finishItem
  split
  · exact hbase _
  · exact appendItem_CInv h _ _ (hbase _) hv
  · rename_i k' v' hvf
    apply appendItem_CInv h _ _ (hbase _)
    rcases hl _ _ _ _ _ _ hvf with ⟨a, ha⟩ | ha
    · subst ha; trivial
    · subst ha; exact hv
  · split
    · exact ⟨hi.reg, hi.nis, hi.out, hi.frames, hi.items⟩
    · exact appendItem_CInv h _ _ (hbase _) hv

theorem enumItems_closed (kd : Kind) (n : Nat) (l : List (Key × Obj)) (i : Nat)
    (hl : itemsClosed n l) : ∀ kv ∈ enumItems kd i l, objClosed n kv.2 := by
  induction l generalizing i with
  | nil => simp [enumItems]
  | cons x r ih =>
    obtain ⟨a, b⟩ := x
    intro kv hkv
    simp only [enumItems, List.mem_cons] at hkv
    rcases hkv with h | h
    · subst h; exact hl (a, b) (by simp)
    · exact ih (i + 1) (fun kv' h' => hl kv' (by simp [h'])) kv h

theorem CInv_step (c : HCfg) (h : Heap) (root : Obj) (s s' : HSt) (hw : HeapWF h) (hl : LocalVisit c)
    (hi : CInv h s) (hs : hstep c h root s = some s') : CInv h s' := by
  unfold hstep at hs
  split at hs
  · simp at hs
  · split at hs
    · simp at hs
    · rename_i k old new kd rest hst
      have hnew : new < s.out.length := hi.frames k old new kd (by simp [hst])
      have hfr : ∀ k old new kd, HFrame.exit k old new kd ∈ rest → new < s.out.length :=
        fun k old new kd hm => hi.frames k old new kd (by simp [hst, hm])
      have hit : ∀ k o, HFrame.item k o ∈ rest → objClosed h.length o :=
        fun k o hm => hi.items k o (by simp [hst, hm])
      split at hs
      · injection hs with hs; subst hs
        exact ⟨hi.reg, hi.nis, hi.out, hfr, hit⟩
      · rename_i p items nr hnis
        have hitems : itemsClosed s.out.length items := hi.nis (p, items) (by simp [hnis])
        obtain ⟨hle, hout', hval'⟩ := exitNode_closed kd new items s.out hi.out hitems hnew
        have hreg' : ∀ kv ∈ (old, (exitNode kd new items s.out).2) :: s.reg,
            objClosed (exitNode kd new items s.out).1.length kv.2 := by
          intro kv hkv
          simp only [List.mem_cons] at hkv
          rcases hkv with h1 | h1
          · subst h1; exact hval'
          · exact objClosed_mono hle (hi.reg kv h1)
        have hnis' : ∀ pa ∈ nr, itemsClosed (exitNode kd new items s.out).1.length pa.2 :=
          fun pa hpa => itemsClosed_mono hle (hi.nis pa (by simp [hnis, hpa]))
        have hfr' : ∀ k old new' kd', HFrame.exit k old new' kd' ∈ rest →
            new' < (exitNode kd new items s.out).1.length :=
          fun k old new' kd' hm => Nat.lt_of_lt_of_le (hfr k old new' kd' hm) hle
        split at hs
        · injection hs with hs; subst hs
          exact ⟨hreg', by simp, hout', hfr', hit⟩
        · injection hs with hs; subst hs
          apply finishItem_CInv c h _ rest k _ _ hl _ hval'
          exact ⟨hreg', hnis', hout', hfr', hit⟩
    · rename_i k o rest hst
      have hfr : ∀ k old new kd, HFrame.exit k old new kd ∈ rest → new < s.out.length :=
        fun k old new kd hm => hi.frames k old new kd (by simp [hst, hm])
      have hit : ∀ k o, HFrame.item k o ∈ rest → objClosed h.length o :=
        fun k o hm => hi.items k o (by simp [hst, hm])
      have ho : objClosed h.length o := hi.items k o (by simp [hst])
      split at hs
      · injection hs with hs; subst hs
        exact finishItem_CInv c h _ rest k _ _ hl ⟨hi.reg, hi.nis, hi.out, hfr, hit⟩ trivial
      · rename_i id
        split at hs
        · rename_i v hlk
          injection hs with hs; subst hs
          obtain ⟨j, hj⟩ := lookup_mem hlk
          exact finishItem_CInv c h _ rest k _ _ hl ⟨hi.reg, hi.nis, hi.out, hfr, hit⟩ (hi.reg _ hj)
        · split at hs
          · rename_i hnd
            exfalso
            have : id < h.length := ho
            simp at hnd
            omega
          · rename_i nd hnd
            injection hs with hs; subst hs
            have hmem : nd ∈ h := List.mem_of_getElem? hnd
            refine ⟨?_, ?_, ?_, ?_, ?_⟩
            · intro kv hkv
              simp only [List.mem_cons] at hkv
              rcases hkv with h1 | h1
              · subst h1; simp [objClosed]
              · exact objClosed_mono (by simp) (hi.reg kv h1)
            · intro pa hpa
              simp only [List.mem_cons] at hpa
              rcases hpa with h1 | h1
              · subst h1; intro kv hkv; simp at hkv
              · exact itemsClosed_mono (by simp) (hi.nis pa h1)
            · intro nd' hnd'
              simp only [List.mem_append, List.mem_singleton] at hnd'
              rcases hnd' with h1 | h1
              · exact itemsClosed_mono (by simp) (hi.out nd' h1)
              · subst h1; intro kv hkv; simp at hkv
            · intro k' old' new' kd' hm
              simp only [List.mem_append, List.mem_cons, itemFrames, List.mem_map] at hm
              rcases hm with ⟨kv, _, hkv⟩ | hm | hm
              · cases hkv
              · injection hm with _ _ h3 _; subst h3; simp
              · exact Nat.lt_of_lt_of_le (hfr k' old' new' kd' hm) (by simp)
            · intro k' o' hm
              simp only [List.mem_append, List.mem_cons, itemFrames, List.mem_map] at hm
              rcases hm with ⟨kv, hkv1, hkv2⟩ | hm | hm
              · injection hkv2 with h1 h2
                subst h2
                exact enumItems_closed nd.kind h.length nd.items 0 (hw nd hmem) kv hkv1
              · cases hm
              · exact hit k' o' hm

theorem CInv_run (c : HCfg) (h : Heap) (root : Obj) (hw : HeapWF h) (hl : LocalVisit c) (n : Nat)
    (s : HSt) (hi : CInv h s) : CInv h (hrun c h root n s) := by
  induction n generalizing s with
  | zero => exact hi
  | succ n ih =>
    simp only [hrun]
    cases hs : hstep c h root s with
    | none => exact hi
    | some s' => exact ih s' (CInv_step c h root s s' hw hl hi hs)

theorem CInv_final (c : HCfg) (h : Heap) (root : Obj) (hw : HeapWF h) (hl : LocalVisit c)
    (hr : objClosed h.length root) : CInv h (hfinal c h root) := by
  apply CInv_run c h root hw hl
  refine ⟨by simp [hinit], by simp [hinit], by simp [hinit], by simp [hinit], ?_⟩
  intro k o hm
  simp only [hinit, List.mem_singleton] at hm
  injection hm with _ h2; subst h2; exact hr

theorem recRoot_result_registered (c : HCfg) (h : Heap) (id : Nat) (n : Nat) (st' : RSt) (v : Obj)
    (hr : recRoot c h (.ref id) n = some (st', v)) : (id, v) ∈ st'.reg := by
  unfold recRoot at hr
  simp only at hr
  split at hr
  · simp at hr
  · split at hr
    · simp at hr
    · injection hr with hr; injection hr with h1 h2; subst h1; subst h2; simp

theorem hprogVisit_local (pr : Prog) (r : Bool) : LocalVisit ⟨hprogVisit pr, r⟩ := by
  intro out p k v k' v' hv
  simp only [hprogVisit] at hv
  generalize evalProg pr p k (objView out v) = a at hv
  cases a with
  | keep => simp [VAct.toVisit] at hv
  | drop => simp [VAct.toVisit] at hv
  | raise => simp [VAct.toVisit] at hv
  | repl k2 nv =>
    cases nv with
    | none => simp only [VAct.toVisit] at hv; injection hv with _ h2; right; exact h2.symm
    | some a => simp only [VAct.toVisit] at hv; injection hv with _ h2; left; exact ⟨a, h2.symm⟩

/-! ## heap level: research paths are retrievable (sharing and cycles included) -/

/-- `cur[seg]` if sets could be indexed by their enumeration index too -/
def hgetChild' (h : Heap) (cur : Obj) (seg : Atom) : Option Obj :=
  match cur with
  | .atom _ => none
  | .ref id => match h[id]? with
    | none => none
    | some nd => lookupKey seg (enumItems nd.kind 0 nd.items)

def hgetPath' (h : Heap) : Obj → Path → Option Obj
  | cur, [] => some cur
  | cur, seg :: r => match hgetChild' h cur seg with
    | none => none
    | some c => hgetPath' h c r

/-- whether following `path` from `cur` indexes into a set / frozenset (or leaves the structure) -/
def hsetOnPath (h : Heap) : Obj → Path → Bool
  | _, [] => false
  | cur, seg :: r =>
    match cur with
    | .atom _ => true
    | .ref id => match h[id]? with
      | none => true
      | some nd =>
        if nd.kind.isSet then true else
        match lookupKey seg (enumItems nd.kind 0 nd.items) with
        | none => true
        | some c => hsetOnPath h c r

theorem hgetPath_eq_of_noSet (h : Heap) (cur : Obj) (p : Path) (hs : hsetOnPath h cur p = false) :
    hgetPath h cur p = hgetPath' h cur p := by
  induction p generalizing cur with
  | nil => rfl
  | cons seg r ih =>
    cases cur with
    | atom a => simp [hsetOnPath] at hs
    | ref id =>
      simp only [hsetOnPath] at hs
      simp only [hgetPath, hgetPath', hgetChild, hgetChild']
      cases hnd : h[id]? with
      | none => simp [hnd] at hs
      | some nd =>
        simp only [hnd] at hs ⊢
        split at hs
        · simp at hs
        · rename_i hset
          simp only [Bool.not_eq_true] at hset
          simp only [hset]
          cases hl : lookupKey seg (enumItems nd.kind 0 nd.items) with
          | none => simp
          | some c =>
            simp only [hl] at hs
            simpa using ih c hs

theorem hgetPath'_append (h : Heap) (cur : Obj) (p : Path) (k : Atom) :
    hgetPath' h cur (p ++ [k]) = match hgetPath' h cur p with
      | none => none
      | some c => hgetChild' h c k := by
  induction p generalizing cur with
  | nil =>
    simp only [List.nil_append, hgetPath']
    cases hgetChild' h cur k <;> rfl
  | cons seg r ih =>
    simp only [List.cons_append, hgetPath']
    cases hgetChild' h cur seg with
    | none => rfl
    | some c => exact ih c

theorem lookupKey_of_mem (k : Atom) (o : Obj) (l : List (Key × Obj)) (hn : (l.map Prod.fst).Nodup)
    (hm : (k, o) ∈ l) : lookupKey k l = some o := by
  induction l with
  | nil => simp at hm
  | cons x r ih =>
    obtain ⟨k', o'⟩ := x
    simp only [List.map_cons, List.nodup_cons] at hn
    simp only [List.mem_cons] at hm
    rcases hm with h1 | h1
    · injection h1 with h1 h2; subst h1; subst h2; simp [lookupKey]
    · have hne : k' ≠ k := by
        intro he; subst he
        exact hn.1 (List.mem_map.2 ⟨(k', o), h1, rfl⟩)
      simp [lookupKey, hne, ih hn.2 h1]

theorem enumItems_keys_seq (kd : Kind) (hk : kd ≠ .dict) (l : List (Key × Obj)) (i : Nat) :
    ∀ k ∈ (enumItems kd i l).map Prod.fst, ∃ j, i ≤ j ∧ k = .int j := by
  induction l generalizing i with
  | nil => simp [enumItems]
  | cons x r ih =>
    obtain ⟨a, b⟩ := x
    intro k hk'
    simp only [enumItems, List.map_cons, List.mem_cons] at hk'
    rcases hk' with h1 | h1
    · exact ⟨i, Nat.le_refl _, by simp [h1, effKey, hk]⟩
    · obtain ⟨j, hj, he⟩ := ih (i + 1) k h1
      exact ⟨j, by omega, he⟩

theorem enumItems_keys_nodup_seq (kd : Kind) (hk : kd ≠ .dict) (l : List (Key × Obj)) (i : Nat) :
    ((enumItems kd i l).map Prod.fst).Nodup := by
  induction l generalizing i with
  | nil => simp [enumItems]
  | cons x r ih =>
    obtain ⟨a, b⟩ := x
    simp only [enumItems, List.map_cons, List.nodup_cons]
    refine ⟨?_, ih (i + 1)⟩
    intro hm
    obtain ⟨j, hj, he⟩ := enumItems_keys_seq kd hk r (i + 1) _ hm
    simp only [effKey, hk, if_false] at he
    injection he with he
    omega

theorem enumItems_dict (l : List (Key × Obj)) (i : Nat) : enumItems .dict i l = l := by
  induction l generalizing i with
  | nil => rfl
  | cons x r ih => obtain ⟨a, b⟩ := x; simp [enumItems, effKey, ih]

/-- the keys of every dict are pairwise distinct (a fact about every Python dict) -/
def DictKeysNodup (h : Heap) : Prop := ∀ nd ∈ h, nd.kind = .dict → (nd.items.map Prod.fst).Nodup

theorem enum_keys_nodup (h : Heap) (hd : DictKeysNodup h) (nd : Node) (hm : nd ∈ h) :
    ((enumItems nd.kind 0 nd.items).map Prod.fst).Nodup := by
  by_cases hk : nd.kind = .dict
  · rw [hk, enumItems_dict]; exact hd nd hm hk
  · exact enumItems_keys_nodup_seq nd.kind hk nd.items 0

/-- every pending item sits where the current / saved paths say it sits -/
def PathOK (h : Heap) (root : Obj) : List HFrame → Path → List Path → Prop
  | [], _, _ => True
  | .item k o :: rest, p, ps => hgetPath' h root (p ++ [k]) = some o ∧ PathOK h root rest p ps
  | .exit _ _ _ _ :: rest, _, pp :: ps => PathOK h root rest pp ps
  | .exit _ _ _ _ :: _, _, [] => True

theorem PathOK_items (h : Heap) (root : Obj) (l : List (Key × Obj)) (tail : List HFrame) (p : Path)
    (ps : List Path) (hl : ∀ kv ∈ l, hgetPath' h root (p ++ [kv.1]) = some kv.2)
    (ht : PathOK h root tail p ps) : PathOK h root (itemFrames l ++ tail) p ps := by
  induction l with
  | nil => simpa [itemFrames] using ht
  | cons x r ih =>
    simp only [itemFrames, List.map_cons, List.cons_append, PathOK]
    exact ⟨hl x (by simp), ih fun kv hkv => hl kv (by simp [hkv])⟩

@[simp] theorem appendItem_nis_paths (s : HSt) (it : Key × Obj) :
    (appendItem s it).nis.map Prod.fst = s.nis.map Prod.fst := by
  unfold appendItem; split
  · rfl
  · rename_i hn; simp [hn]

@[simp] theorem appendItem_path (s : HSt) (it : Key × Obj) : (appendItem s it).path = s.path := by
  unfold appendItem; split <;> rfl

@[simp] theorem finishItem_nis_paths (c : HCfg) (s : HSt) (rest : List HFrame) (k : Key) (src val : Obj) :
    (finishItem c s rest k src val).nis.map Prod.fst = s.nis.map Prod.fst := by
  unfold finishItem; split <;> (try split) <;> simp

@[simp] theorem finishItem_path (c : HCfg) (s : HSt) (rest : List HFrame) (k : Key) (src val : Obj) :
    (finishItem c s rest k src val).path = s.path := by
  unfold finishItem; split <;> (try split) <;> simp

theorem enterLog_append (a b : List Ev) : enterLog (a ++ b) = enterLog a ++ enterLog b := by
  induction a with
  | nil => rfl
  | cons e r ih => cases e <;> simp [enterLog, ih]

/-- every logged enter call except the root's own -/
def nestedEnters (s : HSt) : List (Path × Key × Obj) := (enterLog s.trace).drop 1

def LogOK (h : Heap) (root : Obj) (s : HSt) : Prop :=
  ∀ e ∈ nestedEnters s, hgetPath' h root (e.1 ++ [e.2.1]) = some e.2.2

def RootOK (root : Obj) (s : HSt) : Prop := ∀ rid, root = .ref rid → lookup rid s.reg ≠ none

def PInv (h : Heap) (root : Obj) (s : HSt) : Prop :=
  LogOK h root s ∧
  (s = hinit root ∨ s.err ≠ none ∨ s.stack = [] ∨
    (enterLog s.trace ≠ [] ∧ RootOK root s ∧ PathOK h root s.stack s.path (s.nis.map Prod.fst)))

theorem LogOK_append_visit (h : Heap) (root : Obj) (s : HSt) (tr : List Ev)
    (hl : LogOK h root s) (ht : enterLog tr = []) (s' : HSt) (hs : s'.trace = s.trace ++ tr) :
    LogOK h root s' := by
  intro e he
  simp only [nestedEnters, hs, enterLog_append, ht, List.append_nil] at he
  exact hl e he

theorem LogOK_append_enter (h : Heap) (root : Obj) (s : HSt) (p : Path) (k : Key) (o : Obj) (t : Bool)
    (tr : List Ev) (hl : LogOK h root s) (hne : enterLog s.trace ≠ [])
    (hp : hgetPath' h root (p ++ [k]) = some o) (ht : enterLog tr = []) (s' : HSt)
    (hs : s'.trace = s.trace ++ [.enter p k o t] ++ tr) : LogOK h root s' := by
  intro e he
  simp only [nestedEnters, hs, enterLog_append, ht, List.append_nil, enterLog] at he
  rw [List.drop_append_of_le_length (by
    cases hx : enterLog s.trace with
    | nil => exact absurd hx hne
    | cons a r => simp)] at he
  simp only [List.mem_append, List.mem_singleton] at he
  rcases he with he | he
  · exact hl e he
  · subst he; exact hp

theorem enterLog_append_ne (a b : List Ev) (h : enterLog a ≠ []) : enterLog (a ++ b) ≠ [] := by
  rw [enterLog_append]
  intro he
  exact h (List.append_eq_nil_iff.1 he).1

theorem children_retrievable (h : Heap) (root : Obj) (hd : DictKeysNodup h) (p : Path) (id : Nat)
    (nd : Node) (hnd : h[id]? = some nd) (hp : hgetPath' h root p = some (.ref id)) :
    ∀ kv ∈ enumItems nd.kind 0 nd.items, hgetPath' h root (p ++ [kv.1]) = some kv.2 := by
  intro kv hkv
  rw [hgetPath'_append, hp]
  simp only [hgetChild', hnd]
  exact lookupKey_of_mem kv.1 kv.2 _ (enum_keys_nodup h hd nd (List.mem_of_getElem? hnd)) hkv

theorem PInv_step (c : HCfg) (h : Heap) (root : Obj) (hd : DictKeysNodup h) (s s' : HSt)
    (hi : PInv h root s) (hs : hstep c h root s = some s') : PInv h root s' := by
  obtain ⟨hlog, hcase⟩ := hi
  rcases hcase with hinit' | herr | hstk | ⟨hne, hroot, hpath⟩
  · -- first step
    subst hinit'
    simp only [hstep, hinit] at hs
    cases root with
    | atom a =>
      simp only at hs
      injection hs with hs; subst hs
      refine ⟨?_, Or.inr (Or.inr (Or.inl (by simp)))⟩
      intro e he; simp [nestedEnters, enterLog_append, enterLog] at he
    | ref rid =>
      simp only [lookup] at hs
      cases hnd : h[rid]? with
      | none =>
        simp only [hnd] at hs
        injection hs with hs; subst hs
        refine ⟨?_, Or.inr (Or.inr (Or.inl (by simp)))⟩
        intro e he; simp [nestedEnters, enterLog_append, enterLog] at he
      | some nd =>
        simp only [hnd] at hs
        injection hs with hs; subst hs
        refine ⟨?_, Or.inr (Or.inr (Or.inr ⟨by simp [enterLog], ?_, ?_⟩))⟩
        · intro e he; simp [nestedEnters, enterLog] at he
        · intro rid' hr; injection hr with hr; subst hr; simp [lookup]
        · simp only [if_true, List.map_cons, List.map_nil]
          apply PathOK_items
          · exact children_retrievable h (.ref rid) hd [] rid nd hnd rfl
          · simp [PathOK]
  · unfold hstep at hs
    split at hs
    · simp at hs
    · rename_i he; exact absurd he herr
  · unfold hstep at hs
    split at hs
    · simp at hs
    · simp [hstk] at hs
  · unfold hstep at hs
    split at hs
    · simp at hs
    · split at hs
      · simp at hs
      · rename_i k old new kd rest hst
        rw [hst] at hpath
        split at hs
        · injection hs with hs; subst hs
          exact ⟨hlog, Or.inr (Or.inl (by simp))⟩
        · rename_i p items nr hnis
          rw [hnis] at hpath
          simp only [List.map_cons, PathOK] at hpath
          split at hs
          · injection hs with hs; subst hs
            refine ⟨LogOK_append_visit h root s [.exit old] hlog rfl _ rfl, Or.inr (Or.inr (Or.inr ⟨?_, ?_, ?_⟩))⟩
            · simp only [finishItem_trace, List.append_assoc]; exact enterLog_append_ne _ _ hne
            · intro rid hr; exact lookup_cons_ne_none (hroot rid hr)
            · simpa using hpath
          · injection hs with hs; subst hs
            refine ⟨LogOK_append_visit h root s [.exit old, .visit p k (.ref old) (exitNode kd new items s.out).2] hlog rfl _ (by simp),
              Or.inr (Or.inr (Or.inr ⟨?_, ?_, ?_⟩))⟩
            · simp only [finishItem_trace, List.append_assoc]; exact enterLog_append_ne _ _ hne
            · intro rid hr; simp only [finishItem_reg]; exact lookup_cons_ne_none (hroot rid hr)
            · simpa using hpath
      · rename_i k o rest hst
        rw [hst] at hpath
        simp only [PathOK] at hpath
        split at hs
        · rename_i a
          injection hs with hs; subst hs
          refine ⟨LogOK_append_enter h root s s.path k (.atom a) false [.visit s.path k (.atom a) (.atom a)] hlog hne hpath.1 rfl _ (by simp),
            Or.inr (Or.inr (Or.inr ⟨?_, ?_, ?_⟩))⟩
          · simp only [finishItem_trace, List.append_assoc]; exact enterLog_append_ne _ _ hne
          · intro rid hr; simpa using hroot rid hr
          · simpa using hpath.2
        · rename_i id
          split at hs
          · rename_i v hlk
            injection hs with hs; subst hs
            refine ⟨LogOK_append_visit h root s [.visit s.path k (.ref id) v] hlog rfl _ (by simp),
              Or.inr (Or.inr (Or.inr ⟨?_, ?_, ?_⟩))⟩
            · simp only [finishItem_trace, List.append_assoc]; exact enterLog_append_ne _ _ hne
            · intro rid hr; simpa using hroot rid hr
            · simpa using hpath.2
          · rename_i hlk
            split at hs
            · injection hs with hs; subst hs
              refine ⟨LogOK_append_enter h root s s.path k (.ref id) false [.visit s.path k (.ref id) (.ref id)]
                  hlog hne hpath.1 rfl _ (by simp), Or.inr (Or.inr (Or.inr ⟨?_, ?_, ?_⟩))⟩
              · simp only [finishItem_trace, List.append_assoc]; exact enterLog_append_ne _ _ hne
              · intro rid hr; simpa using hroot rid hr
              · simpa using hpath.2
            · rename_i nd hnd
              injection hs with hs; subst hs
              have hnr : Obj.ref id ≠ root := by
                intro he; exact hroot id he.symm hlk
              refine ⟨LogOK_append_enter h root s s.path k (.ref id) true [] hlog hne hpath.1 rfl _ (by simp),
                Or.inr (Or.inr (Or.inr ⟨?_, ?_, ?_⟩))⟩
              · simp only [finishItem_trace, List.append_assoc]; exact enterLog_append_ne _ _ hne
              · intro rid hr; exact lookup_cons_ne_none (hroot rid hr)
              · simp only [hnr, if_false, List.map_cons]
                apply PathOK_items
                · exact children_retrievable h root hd (s.path ++ [k]) id nd hnd hpath.1
                · simpa [PathOK] using hpath.2

theorem PInv_run (c : HCfg) (h : Heap) (root : Obj) (hd : DictKeysNodup h) (n : Nat) (s : HSt)
    (hi : PInv h root s) : PInv h root (hrun c h root n s) := by
  induction n generalizing s with
  | zero => exact hi
  | succ n ih =>
    simp only [hrun]
    cases hs : hstep c h root s with
    | none => exact hi
    | some s' => exact ih s' (PInv_step c h root hd s s' hi hs)

theorem LogOK_final (c : HCfg) (h : Heap) (root : Obj) (hd : DictKeysNodup h) :
    LogOK h root (hfinal c h root) :=
  (PInv_run c h root hd _ _ ⟨by intro e he; simp [nestedEnters, hinit, enterLog] at he, Or.inl rfl⟩).1

/-! ## tree level: filtering visitors keep dict keys in order -/

theorem toList_ofList : (l : List (Key × Val)) → (ofList l).toList = l
  | [] => rfl
  | (k, v) :: r => by simp [ofList, Items.toList, toList_ofList r]

/-- a visit callback that only filters: it returns `True` or `False` -/
def FilterVisit (vf : VisitFn Val) : Prop := ∀ p k v, vf p k v = .keep ∨ vf p k v = .drop

theorem rebuildItems_keys_sublist (c : Cfg) (hf : FilterVisit c.vf) (p : Path) (kd : Kind) :
    (its : Items) → (i : Nat) → ((rebuildItems c p kd i its).map Prod.fst).Sublist (keysOf kd i its)
  | .nil, i => by simp [rebuildItems, keysOf]
  | .cons k v r, i => by
    have ih := rebuildItems_keys_sublist c hf p kd r (i + 1)
    simp only [rebuildItems, keysOf, List.map_append]
    rcases hf p (effKey kd i k) (rebuildChild c p (effKey kd i k) v) with h | h
    · simp only [applyVisit, h, List.map_cons, List.map_nil, List.singleton_append]
      exact ih.cons_cons _
    · simp only [applyVisit, h, List.map_nil, List.nil_append]
      exact ih.cons _



/-! ## research: the root's own enter call comes first; members of a research result -/

/-- the trace only grows, and a step never adds an `enter` event in front of existing ones -/
theorem hstep_trace (c : HCfg) (h : Heap) (root : Obj) (s s' : HSt) (hs : hstep c h root s = some s') :
    ∃ tr, s'.trace = s.trace ++ tr := by
  simp only [hstep] at hs
  split at hs
  · simp at hs
  · split at hs
    · simp at hs
    · split at hs
      · injection hs with hs; subst hs; exact ⟨[], by simp⟩
      · split at hs
        · injection hs with hs; subst hs; exact ⟨_, rfl⟩
        · injection hs with hs; subst hs
          rw [finishItem_trace]; exact ⟨_, by simp [List.append_assoc]; rfl⟩
    · split at hs
      · injection hs with hs; subst hs
        rw [finishItem_trace]; exact ⟨_, by simp [List.append_assoc]; rfl⟩
      · split at hs
        · injection hs with hs; subst hs
          rw [finishItem_trace]; exact ⟨_, rfl⟩
        · split at hs
          · injection hs with hs; subst hs
            rw [finishItem_trace]; exact ⟨_, by simp [List.append_assoc]; rfl⟩
          · injection hs with hs; subst hs; exact ⟨_, rfl⟩

theorem researchRun_mem {α : Type} (q : Path → Key → α → Option Bool) (reraise : Bool) :
    (calls : List (Path × Key × α)) → (l : List (Path × α)) → researchRun q reraise calls = some l →
    ∀ pv ∈ l, ∃ e ∈ calls, q e.1 e.2.1 e.2.2 = some true ∧ pv = (e.1 ++ [e.2.1], e.2.2)
  | [], l, h, pv, hm => by
    simp only [researchRun, Option.some.injEq] at h
    subst h; simp at hm
  | (p, k, v) :: r, l, h, pv, hm => by
    simp only [researchRun] at h
    split at h
    · split at h
      · simp at h
      · obtain ⟨e, he, h1, h2⟩ := researchRun_mem q reraise r l h pv hm
        exact ⟨e, List.mem_cons_of_mem _ he, h1, h2⟩
    · obtain ⟨e, he, h1, h2⟩ := researchRun_mem q reraise r l h pv hm
      exact ⟨e, List.mem_cons_of_mem _ he, h1, h2⟩
    · rename_i hq
      cases hr : researchRun q reraise r with
      | none => simp [hr] at h
      | some l' =>
        simp only [hr, Option.map_some, Option.some.injEq] at h
        subst h
        simp only [List.mem_cons] at hm
        rcases hm with hm | hm
        · exact ⟨(p, k, v), List.mem_cons_self, hq, hm⟩
        · obtain ⟨e, he, h1, h2⟩ := researchRun_mem q reraise r l' hr pv hm
          exact ⟨e, List.mem_cons_of_mem _ he, h1, h2⟩

def FirstEnter (root : Obj) (s : HSt) : Prop :=
  s = hinit root ∨ (enterLog s.trace).take 1 = [([], Atom.none, root)]

theorem FirstEnter_step (c : HCfg) (h : Heap) (root : Obj) (s s' : HSt) (hi : FirstEnter root s)
    (hs : hstep c h root s = some s') : FirstEnter root s' := by
  rcases hi with hi | hi
  · subst hi
    right
    simp only [hstep, hinit] at hs
    cases root with
    | atom a =>
      simp only at hs
      injection hs with hs; subst hs
      simp [finishItem_trace, enterLog]
    | ref rid =>
      simp only [lookup] at hs
      cases hnd : h[rid]? with
      | none =>
        simp only [hnd] at hs
        injection hs with hs; subst hs
        simp [finishItem_trace, enterLog]
      | some nd =>
        simp only [hnd] at hs
        injection hs with hs; subst hs
        simp [enterLog]
  · right
    obtain ⟨tr, ht⟩ := hstep_trace c h root s s' hs
    rw [ht, enterLog_append]
    cases hx : enterLog s.trace with
    | nil => simp [hx] at hi
    | cons a r => simp [hx] at hi ⊢; exact hi

theorem FirstEnter_run (c : HCfg) (h : Heap) (root : Obj) (n : Nat) (s : HSt) (hi : FirstEnter root s) :
    FirstEnter root (hrun c h root n s) := by
  induction n generalizing s with
  | zero => exact hi
  | succ n ih =>
    simp only [hrun]
    cases hs : hstep c h root s with
    | none => exact hi
    | some s' => exact ih s' (FirstEnter_step c h root s s' hi hs)

/-- `remap`'s first `enter` call is the root's own, with the empty path and key `None` -/
theorem first_enter_is_root (c : HCfg) (h : Heap) (root : Obj) :
    ∀ e ∈ (enterLog (hfinal c h root).trace).take 1, e = ([], Atom.none, root) := by
  intro e he
  rcases FirstEnter_run c h root (hbound h) (hinit root) (Or.inl rfl) with hf | hf
  · unfold hfinal at he; rw [hf] at he; simp [hinit, enterLog] at he
  · unfold hfinal at he; rw [hf] at he; simpa using he


/-! ## custom enter / exit callbacks: the loop computes the recursion -/



theorem grun_stuck (c : GCfg) (s : GSt) (h : gstep c s = none) (m : Nat) : grun c m s = s := by
  cases m <;> simp [grun, h]

theorem grun_add (c : GCfg) (a b : Nat) (s : GSt) : grun c (a + b) s = grun c b (grun c a s) := by
  induction a generalizing s with
  | zero => simp [grun]
  | succ n ih =>
    rw [Nat.succ_add]
    simp only [grun]
    cases hs : gstep c s with
    | none => simp [grun_stuck c s hs]
    | some s' => simp [ih]

theorem grun_one (c : GCfg) (s s' : GSt) (hs : gstep c s = some s') : grun c 1 s = s' := by
  simp [grun, hs]

def GSimVal (c : GCfg) (n : Nat) : Prop :=
  ∀ (p : Path) (k : Key) (v v' : Val) (rest : List GFrame) (pp : Path) (acc : List (Key × Val))
    (nr : List (Path × List (Key × Val))) (val : Val),
    gValue c n p k v = some v' →
    ∃ m, grun c m ⟨.item k v :: rest, p, (pp, acc) :: nr, val, false, false⟩ =
      ⟨rest, p, (pp, acc ++ applyVisit c.vf p k v') :: nr, v', false, false⟩

def GSimItems (c : GCfg) (n : Nat) : Prop :=
  ∀ (p : Path) (items its : List (Key × Val)) (rest : List GFrame) (pp : Path) (acc : List (Key × Val))
    (nr : List (Path × List (Key × Val))) (val : Val),
    gItems c n p items = some its →
    ∃ m val', grun c m ⟨gFrames items ++ rest, p, (pp, acc) :: nr, val, false, false⟩ =
      ⟨rest, p, (pp, acc ++ its) :: nr, val', false, false⟩

theorem gsimItems_succ (c : GCfg) (n : Nat) (hv : GSimVal c n) (hi : GSimItems c n) :
    GSimItems c (n + 1) := by
  intro p items its rest pp acc nr val hr
  cases items with
  | nil =>
    simp only [gItems, Option.some.injEq] at hr
    subst hr
    exact ⟨0, val, by simp [grun, gFrames]⟩
  | cons x r =>
    obtain ⟨k, v⟩ := x
    simp only [gItems] at hr
    split at hr
    · simp at hr
    · rename_i v' hv'
      split at hr
      · simp at hr
      · rename_i rest' hr'
        injection hr with hr; subst hr
        obtain ⟨m1, h1⟩ := hv p k v v' (gFrames r ++ rest) pp acc nr val hv'
        obtain ⟨m2, val', h2⟩ := hi p r rest' rest pp (acc ++ applyVisit c.vf p k v') nr v' hr'
        refine ⟨m1 + m2, val', ?_⟩
        rw [grun_add]
        simp only [gFrames, List.map_cons, List.cons_append] at h1 ⊢
        rw [h1]
        simpa [gFrames, List.append_assoc] using h2

theorem gsimVal_succ (c : GCfg) (n : Nat) (hi : GSimItems c n) : GSimVal c (n + 1) := by
  intro p k v v' rest pp acc nr val hr
  simp only [gValue] at hr
  split at hr
  · rename_i hen
    injection hr with hr; subst hr
    refine ⟨1, ?_⟩
    apply grun_one
    simp [gstep, hen]
  · rename_i np items hen
    split at hr
    · simp at hr
    · rename_i its hits
      injection hr with hr; subst hr
      obtain ⟨m2, val', h2⟩ := hi (p ++ [k]) items its (.exit k v np :: rest) p [] ((pp, acc) :: nr) val hits
      refine ⟨1 + (m2 + 1), ?_⟩
      have e1 : grun c 1 ⟨.item k v :: rest, p, (pp, acc) :: nr, val, false, false⟩ =
          ⟨gFrames items ++ (.exit k v np :: rest), p ++ [k], (p, []) :: (pp, acc) :: nr, val, false, false⟩ := by
        apply grun_one
        simp [gstep, hen]
      rw [grun_add, grun_add, e1, h2]
      apply grun_one
      simp [gstep]

theorem gsim_all (c : GCfg) (n : Nat) : GSimVal c n ∧ GSimItems c n := by
  induction n with
  | zero =>
    constructor
    · intro p k v v' rest pp acc nr val hr; simp [gValue] at hr
    · intro p items its rest pp acc nr val hr; simp [gItems] at hr
  | succ n ih => exact ⟨gsimVal_succ c n ih.2, gsimItems_succ c n ih.1 ih.2⟩

/-- the loop, run long enough, returns what the recursion returns -/
theorem gRemap_eq_rec_aux (c : GCfg) (n : Nat) (root : Val) (r : GRes) (hr : gRoot c n root = some r) :
    ∃ m, ∀ m', m ≤ m' → gRemapIter c m' root = some r := by
  unfold gRoot at hr
  split at hr
  · rename_i hen
    refine ⟨1, fun m' hm => ?_⟩
    obtain ⟨d, rfl⟩ := Nat.exists_eq_add_of_le hm
    split at hr
    · rename_i hv
      injection hr with hr; subst hr
      have e1 : grun c 1 (ginit root) = ⟨[], [], [], root, false, false⟩ := by
        apply grun_one; simp [gstep, ginit, hen, hv]
      simp only [gRemapIter]
      rw [grun_add, e1, grun_stuck c _ (by simp [gstep])]
      simp
    · rename_i hv
      injection hr with hr; subst hr
      have e1 : grun c 1 (ginit root) = ⟨[], [], [], root, false, true⟩ := by
        apply grun_one; simp [gstep, ginit, hen, hv]
      simp only [gRemapIter]
      rw [grun_add, e1, grun_stuck c _ (by simp [gstep])]
      simp
  · rename_i np items hen
    split at hr
    · simp at hr
    · rename_i its hits
      injection hr with hr; subst hr
      obtain ⟨m2, val', h2⟩ := (gsim_all c n).2 [] items its [.exit .none root np] [] [] [] root hits
      refine ⟨1 + (m2 + 1), fun m' hm => ?_⟩
      obtain ⟨d, rfl⟩ := Nat.exists_eq_add_of_le hm
      have e1 : grun c 1 (ginit root) =
          ⟨gFrames items ++ [.exit .none root np], [], [([], [])], root, false, false⟩ := by
        apply grun_one; simp [gstep, ginit, hen]
      have e3 : grun c (1 + (m2 + 1)) (ginit root) =
          ⟨[], [], [], c.ex [] .none root np its, false, false⟩ := by
        rw [grun_add, grun_add, e1, h2]
        apply grun_one
        simp [gstep]
      simp only [gRemapIter]
      rw [grun_add, e3, grun_stuck c _ (by simp [gstep])]
      simp


theorem vsize_pos : (v : Val) → 1 ≤ vsize v
  | .leaf _ => by simp [vsize]
  | .node _ _ => by simp [vsize]; omega

mutual
theorem gValue_default (vf : VisitFn Val) : (v : Val) → (n : Nat) → (p : Path) → (k : Key) → vsize v ≤ n →
    gValue (dflt vf) n p k v = some (rebuildChild ⟨vf, defaultExit⟩ p k v)
  | .leaf a, n, p, k, hn => by
    cases n with
    | zero => simp [vsize] at hn
    | succ m => simp [gValue, dflt, defaultEnterG, rebuildChild]
  | .node kd its, n, p, k, hn => by
    cases n with
    | zero => simp [vsize] at hn
    | succ m =>
      simp only [vsize] at hn
      have := gItems_default vf its m (p ++ [k]) kd 0 (by omega)
      simp only [dflt] at this
      simp [gValue, dflt, defaultEnterG, this, rebuildChild, defaultExitG, defaultExit]
theorem gItems_default (vf : VisitFn Val) : (its : Items) → (n : Nat) → (p : Path) → (kd : Kind) → (i : Nat) →
    isize its < n → gItems (dflt vf) n p (enumT kd i its) = some (rebuildItems ⟨vf, defaultExit⟩ p kd i its)
  | .nil, n, p, kd, i, hn => by
    cases n with
    | zero => omega
    | succ m => simp [gItems, enumT, rebuildItems]
  | .cons k v r, n, p, kd, i, hn => by
    cases n with
    | zero => omega
    | succ m =>
      simp only [isize] at hn
      have hv := vsize_pos v
      have h1 := gValue_default vf v m p (effKey kd i k) (by omega)
      have h2 := gItems_default vf r m p kd (i + 1) (by omega)
      simp only [dflt] at h1 h2
      simp [gItems, enumT, dflt, h1, h2, rebuildItems]
end

/-- with `default_enter` / `default_exit` plugged in, the generic recursion is the bottom-up
    rebuild `remapRec` of the main theorems -/
theorem gRoot_default (vf : VisitFn Val) (kd : Kind) (its : Items) (n : Nat) (hn : isize its < n) :
    gRoot (dflt vf) n (.node kd its) = some (.ok (remapRec ⟨vf, defaultExit⟩ (.node kd its))) := by
  have := gItems_default vf its n [] kd 0 hn
  simp only [dflt] at this
  simp [gRoot, dflt, defaultEnterG, this, remapRec, defaultExitG, defaultExit]



/-! ## heap level: raising visit callbacks - the loop agrees with the recursion that reports the raise -/

/-! A: an `ok` outcome is an outcome of the original recursion -/
theorem recE_ok (c : HCfg) (h : Heap) (root : Obj) (n : Nat) :
    (∀ p k o st st' v, recValE c h root n p k o st = some (.ok st' v) → recVal c h root n p k o st = some (st', v)) ∧
    (∀ p items acc st st' acc', recItemsE c h root n p items acc st = some (.ok st' acc') →
      recItems c h root n p items acc st = some (st', acc')) := by
  induction n with
  | zero => constructor <;> intros <;> simp_all [recValE, recItemsE]
  | succ n ih =>
    constructor
    · intro p k o st st' v hr
      cases o with
      | atom a => simp only [recValE] at hr; simp only [recVal]; injection hr with hr; injection hr with h1 h2; subst h1; subst h2; rfl
      | ref id =>
        simp only [recValE] at hr
        simp only [recVal]
        split at hr
        · rename_i v0 hlk; injection hr with hr; injection hr with h1 h2; subst h1; subst h2; simp [hlk]
        · rename_i hlk
          split at hr
          · rename_i hnd; injection hr with hr; injection hr with h1 h2; subst h1; subst h2; simp [hlk, hnd]
          · rename_i nd hnd
            split at hr
            · simp at hr
            · simp at hr
            · rename_i st2 items hri
              injection hr with hr; injection hr with h1 h2; subst h1; subst h2
              simp [hlk, hnd, ih.2 _ _ _ _ _ _ hri]
    · intro p items acc st st' acc' hr
      cases items with
      | nil => simp only [recItemsE] at hr; injection hr with hr; injection hr with h1 h2; subst h1; subst h2; simp [recItems]
      | cons x r =>
        obtain ⟨k, o⟩ := x
        simp only [recItemsE] at hr
        simp only [recItems]
        split at hr
        · simp at hr
        · simp at hr
        · rename_i st1 val hv
          rw [ih.1 _ _ _ _ _ _ hv]
          split at hr
          · simp at hr
          · rename_i its hvo
            simp only [hvo]
            exact ih.2 _ _ _ _ _ _ hr

theorem finishItem_raise (c : HCfg) (s : HSt) (rest : List HFrame) (k : Key) (src val : Obj)
    (hv : visitOut c s.out s.path k val = none) :
    finishItem c s rest k src val =
      { s with stack := rest, value := val, trace := s.trace ++ [.visit s.path k src val],
               err := some .visitError } := by
  unfold visitOut at hv
  unfold finishItem
  split at hv <;> try (simp at hv)
  rename_i hvf
  simp [hvf, hv]

/-- the loop state reached when a visit raises: `err` set, registry / output heap / trace as given -/
def Raised (s : HSt) (st' : RSt) : Prop :=
  s.err = some .visitError ∧ s.reg = st'.reg ∧ s.out = st'.out ∧ s.trace = st'.trace

/-- B1: the item is rebuilt, then its visit raises -/
theorem simVal_raise (c : HCfg) (h : Heap) (root : Obj) (n : Nat)
    (p : Path) (k : Key) (o : Obj) (st st' : RSt) (v : Obj)
    (rest : List HFrame) (pp : Path) (acc : List (Key × Obj)) (nr : List (Path × List (Key × Obj))) (val : Obj)
    (hr : recVal c h root n p k o st = some (st', v)) (hvo : visitOut c st'.out p k v = none) :
    ∃ m, Raised (hrun c h root m ⟨.item k o :: rest, p, st.reg, (pp, acc) :: nr, st.out, val, st.trace, none⟩)
      { st' with trace := st'.trace ++ [.visit p k o v] } := by
  cases n with
  | zero => simp [recVal] at hr
  | succ n =>
  simp only [recVal] at hr
  cases o with
  | atom a =>
    simp only at hr
    injection hr with hr; injection hr with h1 h2; subst h1; subst h2
    refine ⟨1, ?_⟩
    rw [hrun_one c h root _ _ (by simp only [hstep]; rfl)]
    rw [finishItem_raise c _ rest k (.atom a) (.atom a) hvo]
    simp [Raised]
  | ref id =>
    simp only at hr
    split at hr
    · rename_i v0 hlk
      injection hr with hr; injection hr with h1 h2; subst h1; subst h2
      refine ⟨1, ?_⟩
      rw [hrun_one c h root _ _ (by simp only [hstep, hlk]; rfl)]
      rw [finishItem_raise c _ rest k (.ref id) _ hvo]
      simp [Raised]
    · rename_i hlk
      split at hr
      · rename_i hnd
        injection hr with hr; injection hr with h1 h2; subst h1; subst h2
        refine ⟨1, ?_⟩
        rw [hrun_one c h root _ _ (by simp only [hstep, hlk, hnd]; rfl)]
        rw [finishItem_raise c _ rest k (.ref id) (.ref id) hvo]
        simp [Raised]
      · rename_i nd hnd
        split at hr
        · simp at hr
        · rename_i st2 items hri
          injection hr with hr; injection hr with h1 h2; subst h1; subst h2
          obtain ⟨m2, val', h2⟩ := (sim_all c h root n).2 _ _ _ _ st2 items (.exit k id st.out.length nd.kind :: rest) p
            ((pp, acc) :: nr) val hri
          refine ⟨1 + (m2 + 1), ?_⟩
          have e1 : hrun c h root 1
              ⟨.item k (.ref id) :: rest, p, st.reg, (pp, acc) :: nr, st.out, val, st.trace, none⟩ =
              ⟨itemFrames (enumItems nd.kind 0 nd.items) ++ (.exit k id st.out.length nd.kind :: rest),
               if Obj.ref id = root then p else p ++ [k], (id, .ref st.out.length) :: st.reg,
               (p, []) :: (pp, acc) :: nr, st.out ++ [⟨nd.kind, []⟩], val,
               st.trace ++ [.enter p k (.ref id) true], none⟩ := by
            apply hrun_one
            simp only [hstep, hlk, hnd]
          rw [hrun_add, hrun_add, e1, h2]
          rw [hrun_one c h root _ _ (by simp only [hstep]; rfl)]
          rw [finishItem_raise c _ rest k (.ref id) _ hvo]
          simp [Raised]

def RaisedVal (c : HCfg) (h : Heap) (root : Obj) (n : Nat) : Prop :=
  ∀ (p : Path) (k : Key) (o : Obj) (st st' : RSt)
    (rest : List HFrame) (pp : Path) (acc : List (Key × Obj)) (nr : List (Path × List (Key × Obj))) (val : Obj),
    recValE c h root n p k o st = some (.raised st') →
    ∃ m, Raised (hrun c h root m ⟨.item k o :: rest, p, st.reg, (pp, acc) :: nr, st.out, val, st.trace, none⟩) st'

def RaisedItems (c : HCfg) (h : Heap) (root : Obj) (n : Nat) : Prop :=
  ∀ (p : Path) (items acc : List (Key × Obj)) (st st' : RSt)
    (rest : List HFrame) (pp : Path) (nr : List (Path × List (Key × Obj))) (val : Obj),
    recItemsE c h root n p items acc st = some (.raised st') →
    ∃ m, Raised (hrun c h root m ⟨itemFrames items ++ rest, p, st.reg, (pp, acc) :: nr, st.out, val, st.trace, none⟩) st'

theorem raised_all (c : HCfg) (h : Heap) (root : Obj) (n : Nat) :
    RaisedVal c h root n ∧ RaisedItems c h root n := by
  induction n with
  | zero =>
    constructor
    · intro p k o st st' rest pp acc nr val hr; simp [recValE] at hr
    · intro p items acc st st' rest pp nr val hr; simp [recItemsE] at hr
  | succ n ih =>
    constructor
    · intro p k o st st' rest pp acc nr val hr
      cases o with
      | atom a => simp [recValE] at hr
      | ref id =>
        simp only [recValE] at hr
        split at hr
        · simp at hr
        · rename_i hlk
          split at hr
          · simp at hr
          · rename_i nd hnd
            split at hr
            · simp at hr
            · rename_i st2 hri
              injection hr with hr; injection hr with hr; subst hr
              obtain ⟨m2, h2⟩ := ih.2 _ _ _ _ st2 (.exit k id st.out.length nd.kind :: rest) p
                ((pp, acc) :: nr) val hri
              refine ⟨1 + m2, ?_⟩
              have e1 : hrun c h root 1
                  ⟨.item k (.ref id) :: rest, p, st.reg, (pp, acc) :: nr, st.out, val, st.trace, none⟩ =
                  ⟨itemFrames (enumItems nd.kind 0 nd.items) ++ (.exit k id st.out.length nd.kind :: rest),
                   if Obj.ref id = root then p else p ++ [k], (id, .ref st.out.length) :: st.reg,
                   (p, []) :: (pp, acc) :: nr, st.out ++ [⟨nd.kind, []⟩], val,
                   st.trace ++ [.enter p k (.ref id) true], none⟩ := by
                apply hrun_one
                simp only [hstep, hlk, hnd]
              rw [hrun_add, e1]
              exact h2
            · simp at hr
    · intro p items acc st st' rest pp nr val hr
      cases items with
      | nil => simp [recItemsE] at hr
      | cons x r =>
        obtain ⟨k, o⟩ := x
        simp only [recItemsE] at hr
        split at hr
        · simp at hr
        · rename_i st1 hv
          injection hr with hr; injection hr with hr; subst hr
          obtain ⟨m, hm⟩ := ih.1 p k o st st1 (itemFrames r ++ rest) pp acc nr val hv
          exact ⟨m, by simpa [itemFrames] using hm⟩
        · rename_i st1 v1 hv
          have hv' := (recE_ok c h root n).1 _ _ _ _ _ _ hv
          split at hr
          · rename_i hvo
            injection hr with hr; injection hr with hr; subst hr
            obtain ⟨m, hm⟩ := simVal_raise c h root n p k o st st1 v1 (itemFrames r ++ rest) pp acc nr val hv' hvo
            exact ⟨m, by simpa [itemFrames] using hm⟩
          · rename_i its hvo
            obtain ⟨m1, h1⟩ := (sim_all c h root n).1 p k o st st1 v1 its (itemFrames r ++ rest) pp acc nr val hv' hvo
            obtain ⟨m2, h2⟩ := ih.2 p r (acc ++ its) { st1 with trace := st1.trace ++ [.visit p k o v1] } st'
              rest pp nr v1 hr
            refine ⟨m1 + m2, ?_⟩
            rw [hrun_add]
            simp only [itemFrames, List.map_cons, List.cons_append] at h1 ⊢
            rw [h1]
            exact h2


/-! C: the recursion with raising visits returns within fuel `hbound h`, for EVERY visit callback -/

def TermValE (c : HCfg) (h : Heap) (root : Obj) (n : Nat) : Prop :=
  ∀ (p : Path) (k : Key) (o : Obj) (st : RSt) (todo : List Nat),
    TInvR h todo st → costSum h todo + 1 ≤ n →
    (∃ st' v todo', recValE c h root n p k o st = some (.ok st' v) ∧ TInvR h todo' st' ∧
      costSum h todo' ≤ costSum h todo) ∨ (∃ st', recValE c h root n p k o st = some (.raised st'))

def TermItemsE (c : HCfg) (h : Heap) (root : Obj) (n : Nat) : Prop :=
  ∀ (p : Path) (items acc : List (Key × Obj)) (st : RSt) (todo : List Nat),
    TInvR h todo st → costSum h todo + items.length + 1 ≤ n →
    (∃ st' acc' todo', recItemsE c h root n p items acc st = some (.ok st' acc') ∧ TInvR h todo' st' ∧
      costSum h todo' ≤ costSum h todo) ∨ (∃ st', recItemsE c h root n p items acc st = some (.raised st'))

theorem termItemsE_succ (c : HCfg) (h : Heap) (root : Obj) (n : Nat)
    (hv : TermValE c h root n) (hi : TermItemsE c h root n) : TermItemsE c h root (n + 1) := by
  intro p items acc st todo ht hn
  cases items with
  | nil => exact Or.inl ⟨st, acc, todo, by simp [recItemsE], ht, Nat.le_refl _⟩
  | cons x r =>
    obtain ⟨k, o⟩ := x
    simp only [List.length_cons] at hn
    rcases hv p k o st todo ht (by omega) with ⟨st1, v1, todo1, h1, ht1, hc1⟩ | ⟨st1, h1⟩
    · cases hvo : visitOut c st1.out p k v1 with
      | none => exact Or.inr ⟨{ st1 with trace := st1.trace ++ [.visit p k o v1] }, by simp only [recItemsE, h1, hvo]⟩
      | some its =>
        rcases hi p r (acc ++ its) { st1 with trace := st1.trace ++ [.visit p k o v1] } todo1 ht1 (by omega)
          with ⟨st2, acc2, todo2, h2, ht2, hc2⟩ | ⟨st2, h2⟩
        · exact Or.inl ⟨st2, acc2, todo2, by simp only [recItemsE, h1, hvo, h2], ht2, by omega⟩
        · exact Or.inr ⟨st2, by simp only [recItemsE, h1, hvo, h2]⟩
    · exact Or.inr ⟨st1, by simp only [recItemsE, h1]⟩

theorem termValE_succ (c : HCfg) (h : Heap) (root : Obj) (n : Nat)
    (hi : TermItemsE c h root n) : TermValE c h root (n + 1) := by
  intro p k o st todo ht hn
  cases o with
  | atom a =>
    exact Or.inl ⟨{ st with trace := st.trace ++ [.enter p k (.atom a) false] }, .atom a, todo,
      by simp only [recValE], ht, Nat.le_refl _⟩
  | ref id =>
    cases hlk : lookup id st.reg with
    | some v0 => exact Or.inl ⟨st, v0, todo, by simp only [recValE, hlk], ht, Nat.le_refl _⟩
    | none =>
      cases hnd : h[id]? with
      | none =>
        exact Or.inl ⟨{ st with trace := st.trace ++ [.enter p k (.ref id) false] }, .ref id, todo,
          by simp only [recValE, hlk, hnd], ht, Nat.le_refl _⟩
      | some nd =>
        have hm : id ∈ todo := ht id nd hnd hlk
        have hc := costSum_erase h todo id hm
        have hcost : cost h id = nd.items.length + 2 := by simp [cost, hnd, nodeCost]
        have ht1 : TInvR h (todo.erase id)
            ⟨(id, .ref st.out.length) :: st.reg, st.out ++ [⟨nd.kind, []⟩],
             st.trace ++ [.enter p k (.ref id) true]⟩ := by
          intro id' nd' hn' hl
          have := lookup_cons_none hl
          exact (List.mem_erase_of_ne (Ne.symm this.1)).2 (ht id' nd' hn' this.2)
        rcases hi (if Obj.ref id = root then p else p ++ [k]) (enumItems nd.kind 0 nd.items) [] _ _ ht1
            (by rw [enumItems_length]; omega) with ⟨st2, items, todo2, h2, ht2, hc2⟩ | ⟨st2, h2⟩
        · refine Or.inl ⟨⟨(id, (exitNode nd.kind st.out.length items st2.out).2) :: st2.reg,
                  (exitNode nd.kind st.out.length items st2.out).1, st2.trace ++ [.exit id]⟩,
                (exitNode nd.kind st.out.length items st2.out).2, todo2,
                by simp only [recValE, hlk, hnd, h2], ?_, by omega⟩
          intro id' nd' hn' hl
          exact ht2 id' nd' hn' (lookup_cons_none hl).2
        · exact Or.inr ⟨st2, by simp only [recValE, hlk, hnd, h2]⟩

theorem termE_all (c : HCfg) (h : Heap) (root : Obj) (n : Nat) :
    TermValE c h root n ∧ TermItemsE c h root n := by
  induction n with
  | zero =>
    constructor
    · intro p k o st todo ht hn; omega
    · intro p items acc st todo ht hn; omega
  | succ n ih =>
    exact ⟨termValE_succ c h root n ih.2, termItemsE_succ c h root n ih.1 ih.2⟩

theorem recRootE_returns (c : HCfg) (h : Heap) (id : Nat) (nd : Node)
    (hnd : h[id]? = some nd) : ∃ r, recRootE c h (.ref id) (hbound h) = some r := by
  have hm : id ∈ List.range h.length := by
    rcases Nat.lt_or_ge id h.length with hlt | hge
    · simpa using hlt
    · simp [List.getElem?_eq_none hge] at hnd
  have hc := costSum_erase h (List.range h.length) id hm
  have hcost : cost h id = nd.items.length + 2 := by simp [cost, hnd, nodeCost]
  have ht1 : TInvR h ((List.range h.length).erase id)
      ⟨[(id, .ref 0)], [⟨nd.kind, []⟩], [.enter [] .none (.ref id) true]⟩ := by
    intro id' nd' hn' hl
    have := lookup_cons_none hl
    refine (List.mem_erase_of_ne (Ne.symm this.1)).2 ?_
    rcases Nat.lt_or_ge id' h.length with hlt | hge
    · simpa using hlt
    · simp [List.getElem?_eq_none hge] at hn'
  rcases (termE_all c h (.ref id) (hbound h)).2 [] (enumItems nd.kind 0 nd.items) [] _ _ ht1
      (by rw [enumItems_length, costSum_range] at *; simp only [hbound]; omega)
    with ⟨st2, items, todo2, h2, _, _⟩ | ⟨st2, h2⟩
  · simp only [recRootE, hnd, h2]; exact ⟨_, rfl⟩
  · simp only [recRootE, hnd, h2]; exact ⟨_, rfl⟩

/-- what the loop's final state is, given the outcome of the recursion -/
def Agrees (s : HSt) : RRes Obj → Prop
  | .ok st' v => s = ⟨[], [], st'.reg, [], st'.out, v, st'.trace, none⟩
  | .raised st' => Raised s st'

theorem hfinal_agrees_recRootE (c : HCfg) (h : Heap) (root : Obj) (n : Nat) (r : RRes Obj)
    (hr : recRootE c h root n = some r) : Agrees (hfinal c h root) r := by
  cases r with
  | ok st' v =>
    have : recRoot c h root n = some (st', v) := by
      unfold recRootE at hr
      unfold recRoot
      cases root with
      | atom a => simp at hr
      | ref id =>
        simp only at hr ⊢
        split at hr
        · simp at hr
        · rename_i nd hnd
          split at hr
          · simp at hr
          · simp at hr
          · rename_i st2 items hri
            injection hr with hr; injection hr with h1 h2; subst h1; subst h2
            simp only [hnd, (recE_ok c h (.ref id) n).2 _ _ _ _ _ _ hri]
    exact hfinal_eq_recRoot c h root n st' v this
  | raised st' =>
    unfold recRootE at hr
    cases root with
    | atom a => simp at hr
    | ref id =>
      simp only at hr
      split at hr
      · simp at hr
      · rename_i nd hnd
        split at hr
        · simp at hr
        · rename_i st2 hri
          injection hr with hr; injection hr with hr; subst hr
          obtain ⟨m2, h2⟩ := (raised_all c h (.ref id) n).2 _ _ _ _ st2 [.exit .none id 0 nd.kind] [] [] (.ref id) hri
          have e1 : hrun c h (.ref id) 1 (hinit (.ref id)) =
              ⟨itemFrames (enumItems nd.kind 0 nd.items) ++ [.exit .none id 0 nd.kind], [],
               [(id, .ref 0)], [([], [])], [⟨nd.kind, []⟩], .ref id, [.enter [] .none (.ref id) true], none⟩ := by
            apply hrun_one
            simp [hstep, hinit, lookup, hnd]
          have h2' : Raised (hrun c h (.ref id) m2
              ⟨itemFrames (enumItems nd.kind 0 nd.items) ++ [.exit .none id 0 nd.kind], [],
               [(id, .ref 0)], [([], [])], [⟨nd.kind, []⟩], .ref id, [.enter [] .none (.ref id) true], none⟩) st2 := h2
          have e2 : hrun c h (.ref id) (1 + m2) (hinit (.ref id)) = hrun c h (.ref id) m2
              ⟨itemFrames (enumItems nd.kind 0 nd.items) ++ [.exit .none id 0 nd.kind], [],
               [(id, .ref 0)], [([], [])], [⟨nd.kind, []⟩], .ref id, [.enter [] .none (.ref id) true], none⟩ := by
            rw [hrun_add, e1]
          have hhalt : hstep c h (.ref id) (hrun c h (.ref id) (1 + m2) (hinit (.ref id))) = none := by
            rw [e2]; simp [hstep, h2'.1]
          have : hfinal c h (.ref id) = hrun c h (.ref id) (1 + m2) (hinit (.ref id)) :=
            hrun_eq_of_halted c h (.ref id) (1 + m2) (hbound h) (hinit (.ref id)) _ rfl hhalt
              (hfinal_halted c h (.ref id))
          rw [Agrees, this, e2]
          exact h2'
        · simp at hr


end C08
