/-
C08 — executable model of `boltons.iterutils.remap` (with `default_enter` /
`default_exit`), `research` and `get_path`.  Core Lean only.

Two levels:

* tree level (`Val` / `Items`): nested values without identity.  `step`/`run` is
  the explicit-stack loop of `remap` (work stack with exit sentinels,
  `new_items_stack`, `path`), `remapRec` the obvious bottom-up recursion,
  `preLog` the pre-order list of `enter` calls (what `research` sees),
  `getPath` the lookup of `get_path`.

* heap level (`Heap` / `Obj`): objects with identity, so that sharing and
  reference cycles exist.  `hstep`/`hrun` is the same loop including the
  `id()`-keyed registry; the rebuilt objects live in an output heap.

Python facts the model relies on (validated by the correspondence):
dict = insertion-ordered association list with unique keys, `dict.update(pairs)`
keeps the position of an existing key and takes the last value, `set.update`
keeps the first of several equal members, `enumerate` numbers from 0,
`tuple(vals)` / `frozenset(vals)` build a new object at exit time (the object
registered while a tuple / frozenset is being traversed is the empty
`value.__class__()`).
-/
namespace C08

inductive Kind | dict | list | tuple | set | fset
deriving DecidableEq, Repr, Inhabited

def Kind.isSet : Kind → Bool
  | .set => true | .fset => true | _ => false

def Kind.isMutable : Kind → Bool
  | .dict => true | .list => true | .set => true | _ => false

/-- scalar leaves (everything `default_enter` does not traverse): `None`, ints, strings, `bytes`
    (the list of byte values), floats (`float twice` is the float `twice / 2`), bools and `other n`,
    the `n`-th of a pool of further truthy scalar objects (`...`, a complex number, a builtin function).
    Each atom is a class of Python objects that are `==` to each other and to nothing else in the
    structure: the harness keeps floats with an integral value and bools (`1 == 1.0 == True`) out of
    hashed positions (dict keys, set members), where Python would identify them with ints.
    `str` and `bytes` are Sequences that `default_enter` names explicitly as leaves: they are visited
    once, as a whole, and never traversed. -/
inductive Atom | none | int (i : Int) | str (s : String) | bytes (b : List Nat) | float (twice : Int)
  | bool (b : Bool) | other (n : Nat)
deriving DecidableEq, Repr, Inhabited

abbrev Key := Atom
abbrev Path := List Atom

/-- what a `visit` callback returns: `True`, `False`, a new `(key, value)` pair, or it raises -/
inductive Visit (V : Type) | keep | drop | repl (k : Key) (v : V) | raise

abbrev VisitFn (V : Type) := Path → Key → V → Visit V

/-- the key `default_enter` hands out for the `i`-th item: the dict key for mappings,
    the `enumerate` index for sequences and sets -/
def effKey (kd : Kind) (i : Nat) (k : Key) : Key := if kd = .dict then k else .int i

/-- the item `remap` appends to the parent's new-items list (a raising visit counts as
    `True`: this is `reraise_visit=False`; with `reraise_visit=True` see the heap level) -/
def applyVisit {V : Type} (vf : VisitFn V) (p : Path) (k : Key) (v : V) : List (Key × V) :=
  match vf p k v with
  | .keep => [(k, v)]
  | .raise => [(k, v)]
  | .drop => []
  | .repl k' v' => [(k', v')]

/-! ## `default_exit`, generically in the value type -/
section exit
variable {V : Type}

/-- `d[k] = v` on an insertion-ordered dict -/
def dictInsert (k : Key) (v : V) : List (Key × V) → List (Key × V)
  | [] => [(k, v)]
  | (k', v') :: r => if k' = k then (k', v) :: r else (k', v') :: dictInsert k v r

/-- `d.update(pairs)` -/
def dictUpdate (acc : List (Key × V)) : List (Key × V) → List (Key × V)
  | [] => acc
  | (k, v) :: r => dictUpdate (dictInsert k v acc) r

def memBy (eq : V → V → Bool) (x : V) : List V → Bool
  | [] => false
  | y :: r => eq y x || memBy eq x r

/-- `s.update(vals)` on a set (insertion order kept, first of equal members wins) -/
def dedupBy (eq : V → V → Bool) (acc : List V) : List V → List V
  | [] => acc
  | x :: r => if memBy eq x acc then dedupBy eq acc r else dedupBy eq (acc ++ [x]) r

def renumber (i : Nat) : List V → List (Key × V)
  | [] => []
  | v :: r => (.int i, v) :: renumber (i + 1) r

/-- the items of the container `default_exit` returns -/
def buildItems (eq : V → V → Bool) (kd : Kind) (items : List (Key × V)) : List (Key × V) :=
  match kd with
  | .dict => dictUpdate [] items
  | .list => renumber 0 (items.map Prod.snd)
  | .tuple => renumber 0 (items.map Prod.snd)
  | .set => renumber 0 (dedupBy eq [] (items.map Prod.snd))
  | .fset => renumber 0 (dedupBy eq [] (items.map Prod.snd))

end exit

/-! ## visitor programs: the table-defined family of `visit` / `query` callbacks

A program is a list of rules; the first rule whose condition holds decides.
The same programs are interpreted by the Python harness on the real objects. -/

/-- what a callback may look at in a value -/
inductive View | atom (a : Atom) | cont (kd : Kind) (n : Nat)

inductive Cond
  | always | isNone | isInt | isStr | isBytes | isFloat | isBool | isCont | isKind (kd : Kind) | isEmptyCont | falsy
  | valIs (a : Atom) | keyIs (a : Atom) | keyIsInt | pathLenGe (n : Nat) | pathLastIs (a : Atom)
deriving Repr

inductive Act
  | keep | keepPair | drop | incr | setKey (a : Atom) | setVal (a : Atom) | keyIncr | keyNeg | keyStr
  | valLen | valDepth | raise
deriving Repr

structure Rule where
  neg : Bool
  cond : Cond
  act : Act
deriving Repr

abbrev Prog := List Rule

def evalCond (c : Cond) (p : Path) (k : Key) (v : View) : Bool :=
  match c with
  | .always => true
  | .isNone => match v with | .atom .none => true | _ => false
  | .isInt => match v with | .atom (.int _) => true | _ => false
  | .isStr => match v with | .atom (.str _) => true | _ => false
  | .isBytes => match v with | .atom (.bytes _) => true | _ => false
  | .isFloat => match v with | .atom (.float _) => true | _ => false
  | .isBool => match v with | .atom (.bool _) => true | _ => false
  | .isCont => match v with | .cont _ _ => true | _ => false
  | .isKind kd => match v with | .cont kd' _ => kd' == kd | _ => false
  | .isEmptyCont => match v with | .cont _ n => n == 0 | _ => false
  | .falsy => match v with
    | .atom .none => true
    | .atom (.int i) => i == 0
    | .atom (.str s) => s == ""
    | .atom (.bytes b) => b.isEmpty
    | .atom (.float t) => t == 0
    | .atom (.bool b) => !b
    | .atom (.other _) => false
    | .cont _ n => n == 0
  | .valIs a => match v with | .atom b => b == a | _ => false
  | .keyIs a => k == a
  | .keyIsInt => match k with | .int _ => true | _ => false
  | .pathLenGe n => decide (n ≤ p.length)
  | .pathLastIs a => match p.getLast? with | some b => b == a | none => false

/-- value-type independent result of a rule -/
inductive VAct | keep | drop | repl (k : Key) (nv : Option Atom) | raise

def evalAct (a : Act) (p : Path) (k : Key) (v : View) : VAct :=
  match a with
  | .keep => .keep
  | .keepPair => .repl k none
  | .drop => .drop
  | .incr => match v with | .atom (.int i) => .repl k (some (.int (i + 1))) | _ => .repl k none
  | .setKey a => .repl a none
  | .setVal a => .repl k (some a)
  | .keyIncr => match k with | .int i => .repl (.int (i + 1)) none | _ => .repl k none
  | .keyNeg => match k with | .int i => .repl (.int (-i)) none | _ => .repl k none
  | .keyStr => match k with | .int i => .repl (.str (toString i)) none | _ => .repl k none
  | .valLen => match v with | .cont _ n => .repl k (some (.int n)) | _ => .repl k none
  | .valDepth => .repl k (some (.int p.length))
  | .raise => .raise

def evalProg : Prog → Path → Key → View → VAct
  | [], _, _, _ => .keep
  | r :: rs, p, k, v => if (evalCond r.cond p k v != r.neg) then evalAct r.act p k v else evalProg rs p k v

def VAct.toVisit {V : Type} (mk : Atom → V) (v : V) : VAct → Visit V
  | .keep => .keep
  | .drop => .drop
  | .raise => .raise
  | .repl k none => .repl k v
  | .repl k (some a) => .repl k (mk a)

/-- a `query` callback of `research`: truthiness of what the program returns (`none` = it raised) -/
def VAct.truth : VAct → Option Bool
  | .keep => some true
  | .drop => some false
  | .repl _ _ => some true
  | .raise => none

/-! ## tree level -/

mutual
inductive Val
  | leaf (a : Atom)
  | node (k : Kind) (items : Items)
inductive Items
  | nil
  | cons (key : Key) (v : Val) (rest : Items)
end

instance : Inhabited Val := ⟨.leaf .none⟩

def Items.toList : Items → List (Key × Val)
  | .nil => []
  | .cons k v r => (k, v) :: r.toList

def ofList : List (Key × Val) → Items
  | [] => .nil
  | (k, v) :: r => .cons k v (ofList r)

def Items.length : Items → Nat
  | .nil => 0
  | .cons _ _ r => r.length + 1

def Val.view : Val → View
  | .leaf a => .atom a
  | .node kd its => .cont kd its.length

mutual
def vsize : Val → Nat
  | .leaf _ => 1
  | .node _ its => 2 + isize its
def isize : Items → Nat
  | .nil => 0
  | .cons _ v rest => vsize v + isize rest
end

/-! Python `==` on hashable values (what a set uses to decide membership), with fuel -/
section eqs
variable (eq : Val → Val → Bool)

def seqEqBy : List (Key × Val) → List (Key × Val) → Bool
  | [], [] => true
  | (k1, v1) :: r1, (k2, v2) :: r2 => k1 == k2 && eq v1 v2 && seqEqBy r1 r2
  | _, _ => false

def memItemsBy (x : Val) : List (Key × Val) → Bool
  | [] => false
  | (_, y) :: r => eq y x || memItemsBy x r

def subItemsBy : List (Key × Val) → List (Key × Val) → Bool
  | [], _ => true
  | (_, x) :: r, ys => memItemsBy eq x ys && subItemsBy r ys
end eqs

def valEq : Nat → Val → Val → Bool
  | 0, _, _ => false
  | _ + 1, .leaf a, .leaf b => a == b
  | n + 1, .node k1 i1, .node k2 i2 =>
    k1 == k2 &&
      (if k1.isSet then subItemsBy (valEq n) i1.toList i2.toList && subItemsBy (valEq n) i2.toList i1.toList
       else seqEqBy (valEq n) i1.toList i2.toList)
  | _ + 1, _, _ => false

def valEqPy (a b : Val) : Bool := valEq (vsize a + vsize b) a b

/-- an `exit` callback: path, key, old parent, new items ↦ new parent -/
abbrev ExitFn := Path → Key → Val → List (Key × Val) → Val

/-- `default_exit` (the new parent has the old parent's class) -/
def defaultExit : ExitFn := fun _ _ old items =>
  match old with
  | .leaf a => .leaf a
  | .node kd _ => .node kd (ofList (buildItems valEqPy kd items))

structure Cfg where
  vf : VisitFn Val
  ex : ExitFn

/-! ### the bottom-up recursion (specification) -/
mutual
def rebuildChild (c : Cfg) (p : Path) (k : Key) : Val → Val
  | .leaf a => .leaf a
  | .node kd its => c.ex p k (.node kd its) (rebuildItems c (p ++ [k]) kd 0 its)
def rebuildItems (c : Cfg) (p : Path) (kd : Kind) (i : Nat) : Items → List (Key × Val)
  | .nil => []
  | .cons k v rest =>
    applyVisit c.vf p (effKey kd i k) (rebuildChild c p (effKey kd i k) v)
      ++ rebuildItems c p kd (i + 1) rest
end

/-- the root's own key is `None` and the path is not extended for the root -/
def remapRec (c : Cfg) : Val → Val
  | .leaf a => .leaf a
  | .node kd its => c.ex [] .none (.node kd its) (rebuildItems c [] kd 0 its)

/-! ### pre-order list of `enter` calls (what `research` filters) -/
mutual
def preLog (p : Path) (k : Key) : Val → List (Path × Key × Val)
  | .leaf a => [(p, k, .leaf a)]
  | .node kd its => (p, k, .node kd its) :: preLogItems (p ++ [k]) kd 0 its
def preLogItems (p : Path) (kd : Kind) (i : Nat) : Items → List (Path × Key × Val)
  | .nil => []
  | .cons k v rest => preLog p (effKey kd i k) v ++ preLogItems p kd (i + 1) rest
end

/-- every `enter` call made for items nested in the root -/
def nestedLog : Val → List (Path × Key × Val)
  | .leaf _ => []
  | .node kd its => preLogItems [] kd 0 its

/-! ### the machine: `remap`'s loop -/
inductive Frame
  | item (k : Key) (v : Val)
  | exit (k : Key) (old : Val)

structure St where
  stack : List Frame
  path  : Path
  nis   : List (Path × List (Key × Val))
  value : Val
  log   : List (Path × Key × Val)

/-- `stack.extend(reversed(list(new_items)))`: the first item ends up on top -/
def pushItems (kd : Kind) (i : Nat) : Items → List Frame → List Frame
  | .nil, s => s
  | .cons k v rest, s => .item (effKey kd i k) v :: pushItems kd (i + 1) rest s

def step (c : Cfg) (s : St) : Option St :=
  match s.stack with
  | [] => none
  | .item k v :: rest =>
    match v with
    | .node kd its =>
      some { stack := pushItems kd 0 its (.exit k (.node kd its) :: rest), path := s.path ++ [k],
             nis := (s.path, []) :: s.nis, value := s.value,
             log := s.log ++ [(s.path, k, .node kd its)] }
    | .leaf a =>
      match s.nis with
      | [] => none
      | (pp, acc) :: nr =>
        some { stack := rest, path := s.path,
               nis := (pp, acc ++ applyVisit c.vf s.path k (.leaf a)) :: nr,
               value := .leaf a, log := s.log ++ [(s.path, k, .leaf a)] }
  | .exit k old :: rest =>
    match s.nis with
    | [] => none
    | (p, items) :: nr =>
      match nr with
      | [] => some { stack := rest, path := p, nis := [], value := c.ex p k old items, log := s.log }
      | (pp, acc) :: nr' =>
        some { stack := rest, path := p,
               nis := (pp, acc ++ applyVisit c.vf p k (c.ex p k old items)) :: nr',
               value := c.ex p k old items, log := s.log }

def run (c : Cfg) : Nat → St → St
  | 0, s => s
  | n + 1, s => match step c s with
    | none => s
    | some s' => run c n s'

/-- state right after the root container has been entered (`value is root`: path not extended) -/
def initRoot (kd : Kind) (its : Items) : St :=
  ⟨pushItems kd 0 its [.exit .none (.node kd its)], [], [([], [])], .leaf .none,
   [([], .none, .node kd its)]⟩

/-- the loop run to completion on a container root (`isize its + 1` steps suffice) -/
def remapFinal (c : Cfg) (kd : Kind) (its : Items) : St :=
  run c (isize its + 1) (initRoot kd its)

/-- `remap(root, visit, exit=…)`; `none` = `TypeError: expected remappable root` -/
def remapIter (c : Cfg) : Val → Option Val
  | .leaf _ => none
  | .node kd its => some (remapFinal c kd its).value

/-! ### `get_path` -/
def lookupItems (kd : Kind) (i : Nat) (seg : Atom) : Items → Option Val
  | .nil => none
  | .cons k v rest => if effKey kd i k = seg then some v else lookupItems kd (i + 1) seg rest

/-- `cur[seg]`: dict lookup / sequence index; sets and scalars are not subscriptable -/
def getChild : Val → Atom → Option Val
  | .leaf _, _ => none
  | .node kd its, seg => if kd.isSet then none else lookupItems kd 0 seg its

/-- `get_path(root, path)`; `none` = `PathAccessError` -/
def getPath : Val → Path → Option Val
  | v, [] => some v
  | v, seg :: r => match getChild v seg with
    | none => none
    | some c => getPath c r

/-- whether following `path` from `v` indexes into a set / frozenset (or leaves the structure) -/
def setOnPath : Val → Path → Bool
  | _, [] => false
  | .leaf _, _ :: _ => true
  | .node kd its, seg :: r =>
    if kd.isSet then true else
    match lookupItems kd 0 seg its with
    | none => true
    | some c => setOnPath c r

/-- `research(root, query)` for a container root: the `enter` calls whose query is true, as
    `(path + (key,), value)` -/
def researchOf (q : Path → Key → Val → Bool) (log : List (Path × Key × Val)) : List (Path × Val) :=
  (log.filter fun e => q e.1 e.2.1 e.2.2).map fun e => (e.1 ++ [e.2.1], e.2.2)

/-- `research`'s `_enter` wrapper run over the sequence of `enter` calls `remap` makes: the query is
    evaluated on each call, in order; a truthy answer appends `(path + (key,), value)` to the result;
    a raising query (`none`) fails the whole call when `reraise` is set (`none`) and is skipped
    otherwise.  Generic in the value type (tree values / heap objects). -/
def researchRun {α : Type} (q : Path → Key → α → Option Bool) (reraise : Bool) :
    List (Path × Key × α) → Option (List (Path × α))
  | [] => some []
  | (p, k, v) :: r =>
    match q p k v with
    | none => if reraise then none else researchRun q reraise r
    | some false => researchRun q reraise r
    | some true => (researchRun q reraise r).map fun l => (p ++ [k], v) :: l

/-- the `enter` calls `research` hands to the query: the ones for the items nested in the root,
    preceded - when `rootQ` is set - by the call for the root itself (`path=()`, `key=None`).  The
    property speaks about nested items only: whether the root itself is queried / reported (under the
    meaningless path `(None,)`) is a convention of the code, read off the implementation by a probe
    on every run and handed to the model as `rootQ`; every theorem holds for both values. -/
def researchCalls (rootQ : Bool) (root : Val) : List (Path × Key × Val) :=
  (if rootQ then [([], Atom.none, root)] else []) ++ nestedLog root

/-- `research(root, query, reraise)` on a tree value; `none` = the query raised and was re-raised -/
def research (rootQ : Bool) (q : Path → Key → Val → Option Bool) (reraise : Bool) (root : Val) :
    Option (List (Path × Val)) :=
  researchRun q reraise (researchCalls rootQ root)

/-- `get_path(root, path, default)`: the default replaces the `PathAccessError` -/
def getPathD (root : Val) (path : Path) (dflt : Val) : Val := (getPath root path).getD dflt

/-! ### the visitor family on trees -/
def keepVisit : VisitFn Val := fun _ _ _ => .keep

def progVisit (pr : Prog) : VisitFn Val := fun p k v =>
  (evalProg pr p k v.view).toVisit Val.leaf v

/-- `ItemsView(d)` / `enumerate(seq)`: the items `default_enter` hands out, with their effective keys -/
def enumT (kd : Kind) (i : Nat) : Items → List (Key × Val)
  | .nil => []
  | .cons k v r => (effKey kd i k, v) :: enumT kd (i + 1) r

/-! ## custom `enter` / `exit` callbacks (tree level) -/

/-- an `enter` callback: `none` = `(value, False)` (do not traverse: the value is handed to visit as
    it is), `some (new_parent, items)` = traverse `items` -/
abbrev EnterFn := Path → Key → Val → Option (Val × List (Key × Val))

/-- an `exit` callback with all five arguments: path, key, old parent, new parent, new items -/
abbrev GExitFn := Path → Key → Val → Val → List (Key × Val) → Val

structure GCfg where
  en : EnterFn
  vf : VisitFn Val
  ex : GExitFn

mutual
/-- the value handed to visit for the item `(k, v)` met at path `p`: the bottom-up recursion for
    arbitrary callbacks (with fuel: an arbitrary `enter` may unfold for ever) -/
def gValue (c : GCfg) : Nat → Path → Key → Val → Option Val
  | 0, _, _, _ => none
  | n + 1, p, k, v =>
    match c.en p k v with
    | none => some v
    | some (np, items) =>
      match gItems c n (p ++ [k]) items with
      | none => none
      | some its => some (c.ex p k v np its)
/-- the new items of one container: each child rebuilt, then visited, left to right -/
def gItems (c : GCfg) : Nat → Path → List (Key × Val) → Option (List (Key × Val))
  | 0, _, _ => none
  | _ + 1, _, [] => some []
  | n + 1, p, (k, v) :: r =>
    match gValue c n p k v with
    | none => none
    | some v' =>
      match gItems c n p r with
      | none => none
      | some rest => some (applyVisit c.vf p k v' ++ rest)
end

/-- result of `remap(root, visit, enter, exit)` as a recursion -/
inductive GRes | typeError | ok (v : Val)
deriving Inhabited

/-- the root is entered with the empty path and key `None`, and does not extend the path -/
def gRoot (c : GCfg) (n : Nat) (root : Val) : Option GRes :=
  match c.en [] .none root with
  | none =>
    -- not traversed: the root is handed to visit like any leaf; with nothing to append the result
    -- to, `remap` raises `TypeError` - unless visit drops it, then the root itself is returned
    if (applyVisit c.vf [] .none root).isEmpty then some (.ok root) else some .typeError
  | some (np, items) =>
    match gItems c n [] items with
    | none => none
    | some its => some (.ok (c.ex [] .none root np its))

/-! the machine -/
inductive GFrame
  | item (k : Key) (v : Val)
  | exit (k : Key) (old np : Val)

structure GSt where
  stack : List GFrame
  path  : Path
  nis   : List (Path × List (Key × Val))
  value : Val
  first : Bool          -- the next item popped is the root (`value is root`)
  err   : Bool          -- `TypeError: expected remappable root`

def gFrames (l : List (Key × Val)) : List GFrame := l.map fun kv => .item kv.1 kv.2

def gstep (c : GCfg) (s : GSt) : Option GSt :=
  if s.err then none else
  match s.stack with
  | [] => none
  | .item k v :: rest =>
    match c.en s.path k v with
    | some (np, items) =>
      some { s with stack := gFrames items ++ (.exit k v np :: rest),
                    path := if s.first then s.path else s.path ++ [k],
                    nis := (s.path, []) :: s.nis, first := false }
    | none =>
      match s.nis with
      | [] =>
        if (applyVisit c.vf s.path k v).isEmpty then some { s with stack := rest, value := v, first := false }
        else some { s with stack := rest, value := v, first := false, err := true }
      | (pp, acc) :: nr =>
        some { s with stack := rest, value := v, first := false,
                      nis := (pp, acc ++ applyVisit c.vf s.path k v) :: nr }
  | .exit k old np :: rest =>
    match s.nis with
    | [] => some { s with stack := rest, err := true }
    | (p, items) :: nr =>
      match nr with
      | [] => some { s with stack := rest, path := p, nis := [], value := c.ex p k old np items }
      | (pp, acc) :: nr' =>
        some { s with stack := rest, path := p, value := c.ex p k old np items,
                      nis := (pp, acc ++ applyVisit c.vf p k (c.ex p k old np items)) :: nr' }

def grun (c : GCfg) : Nat → GSt → GSt
  | 0, s => s
  | n + 1, s => match gstep c s with
    | none => s
    | some s' => grun c n s'

def ginit (root : Val) : GSt := ⟨[.item .none root], [], [], root, true, false⟩

/-- `remap(root, visit, enter, exit)` run for at most `m` loop iterations; `none` = still running -/
def gRemapIter (c : GCfg) (m : Nat) (root : Val) : Option GRes :=
  let s := grun c m (ginit root)
  if s.err then some .typeError
  else if s.stack.isEmpty then some (.ok s.value) else none

/-- `default_enter` as an `enter` callback: scalars (str / bytes included) are not traversed; a container
    gives an empty container of its own class and its items (dict items / enumerated members) -/
def defaultEnterG : EnterFn := fun _ _ v =>
  match v with
  | .leaf _ => none
  | .node kd its => some (.node kd .nil, enumT kd 0 its)

/-- `default_exit` as a five-argument callback: it looks at the NEW parent only -/
def defaultExitG : GExitFn := fun p k _ np items => defaultExit p k np items

def dflt (vf : VisitFn Val) : GCfg := ⟨defaultEnterG, vf, defaultExitG⟩


/-- `len(container)`; 0 for a scalar -/
def Val.len : Val → Nat
  | .leaf _ => 0
  | .node _ its => its.length

/-! ### table-defined `enter` / `exit` callbacks (interpreted identically by the Python harness) -/

/-- `enter` callbacks: the default; containers of one kind are not traversed; the items are handed
    over in reverse; items with one key are pruned before the traversal; the new parent is a list
    whatever the old one was; nothing below a given depth is traversed -/
inductive EnterP | dflt | skipKind (kd : Kind) | rev | skipKey (a : Atom) | asList | depthLimit (n : Nat)
deriving Repr

def evalEnter (e : EnterP) : EnterFn := fun p _ v =>
  match v with
  | .leaf _ => none
  | .node kd its =>
    match e with
    | .dflt => some (.node kd .nil, enumT kd 0 its)
    | .skipKind kd' => if kd = kd' then none else some (.node kd .nil, enumT kd 0 its)
    | .rev => some (.node kd .nil, (enumT kd 0 its).reverse)
    | .skipKey a => some (.node kd .nil, (enumT kd 0 its).filter fun kv => kv.1 != a)
    | .asList => some (.node .list .nil, enumT kd 0 its)
    | .depthLimit n => if n ≤ p.length then none else some (.node kd .nil, enumT kd 0 its)

/-- `exit` callbacks: the default; `len(new_items)`; the list of the new items' keys; `len(path)`;
    the tuple `(key, len(old_parent), default_exit(...))`; a container of the OLD parent's class -/
inductive ExitP | dflt | count | keys | pathLen | keyOld | oldKind
deriving Repr

def evalExit (x : ExitP) : GExitFn := fun p k old np items =>
  match x with
  | .dflt => defaultExit p k np items
  | .count => .leaf (.int items.length)
  | .keys => .node .list (ofList (renumber 0 (items.map fun kv => Val.leaf kv.1)))
  | .pathLen => .leaf (.int p.length)
  | .keyOld => .node .tuple (ofList (renumber 0 [.leaf k, .leaf (.int old.len), defaultExit p k np items]))
  | .oldKind => defaultExit p k old items

def progCfg (e : EnterP) (pr : Prog) (x : ExitP) : GCfg := ⟨evalEnter e, progVisit pr, evalExit x⟩

/-! ## heap level -/

inductive Obj | atom (a : Atom) | ref (id : Nat)
deriving DecidableEq, Repr, Inhabited

structure Node where
  kind : Kind
  items : List (Key × Obj)
deriving Repr, Inhabited

abbrev Heap := List Node

def enumItems (kd : Kind) (i : Nat) : List (Key × Obj) → List (Key × Obj)
  | [] => []
  | (k, o) :: r => (effKey kd i k, o) :: enumItems kd (i + 1) r

def lookup (id : Nat) : List (Nat × Obj) → Option Obj
  | [] => none
  | (j, o) :: r => if j = id then some o else lookup id r

def objView (h : Heap) : Obj → View
  | .atom a => .atom a
  | .ref id => match h[id]? with
    | some nd => .cont nd.kind nd.items.length
    | none => .atom .none

/-- Python `==` between rebuilt hashable objects, with fuel (depth) -/
def objEq (h : Heap) : Nat → Obj → Obj → Bool
  | 0, _, _ => false
  | _ + 1, .atom a, .atom b => a == b
  | n + 1, .ref i, .ref j =>
    match h[i]?, h[j]? with
    | some a, some b =>
      a.kind == b.kind &&
        (if a.kind.isSet then
           a.items.all (fun x => b.items.any fun y => objEq h n y.2 x.2) &&
           b.items.all (fun x => a.items.any fun y => objEq h n y.2 x.2)
         else
           a.items.length == b.items.length &&
           (a.items.zip b.items).all fun xy => xy.1.1 == xy.2.1 && objEq h n xy.1.2 xy.2.2)
    | _, _ => i == j
  | _ + 1, _, _ => false

inductive HFrame
  | item (k : Key) (o : Obj)
  | exit (k : Key) (old new : Nat) (kd : Kind)

inductive Ev
  | enter (p : Path) (k : Key) (o : Obj) (trav : Bool)
  | exit (id : Nat)
  | visit (p : Path) (k : Key) (src val : Obj)
deriving DecidableEq

inductive Err | typeError | visitError
deriving DecidableEq, Repr

structure HSt where
  stack : List HFrame
  path  : Path
  reg   : List (Nat × Obj)
  nis   : List (Path × List (Key × Obj))
  out   : Heap
  value : Obj
  trace : List Ev
  err   : Option Err

/-- a visit callback may inspect the rebuilt heap -/
abbrev HVisitFn := Heap → Path → Key → Obj → Visit Obj

structure HCfg where
  vf : HVisitFn
  reraise : Bool

/-- `new_items_stack[-1][1].append(item)`; an empty stack is the
    `TypeError('expected remappable root')` -/
def appendItem (s : HSt) (it : Key × Obj) : HSt :=
  match s.nis with
  | [] => { s with err := some .typeError }
  | (pp, acc) :: nr => { s with nis := (pp, acc ++ [it]) :: nr }

/-- the tail of the loop body: visit the (possibly rebuilt) value and append the result -/
def finishItem (c : HCfg) (s : HSt) (rest : List HFrame) (k : Key) (src val : Obj) : HSt :=
  match c.vf s.out s.path k val with
  | .drop => { s with stack := rest, value := val, trace := s.trace ++ [.visit s.path k src val] }
  | .keep =>
    appendItem { s with stack := rest, value := val, trace := s.trace ++ [.visit s.path k src val] } (k, val)
  | .repl k' v' =>
    appendItem { s with stack := rest, value := val, trace := s.trace ++ [.visit s.path k src val] } (k', v')
  | .raise =>
    if c.reraise then
      { s with stack := rest, value := val, trace := s.trace ++ [.visit s.path k src val],
               err := some .visitError }
    else
      appendItem { s with stack := rest, value := val, trace := s.trace ++ [.visit s.path k src val] } (k, val)

/-- `default_exit` on the output heap: mutable kinds fill the object created at enter time,
    tuples / frozensets are built now as a new object -/
def exitNode (kd : Kind) (new : Nat) (items : List (Key × Obj)) (out : Heap) : Heap × Obj :=
  if kd.isMutable then
    (out.set new ⟨kd, buildItems (objEq out (out.length + 1)) kd items⟩, .ref new)
  else
    (out ++ [⟨kd, buildItems (objEq out (out.length + 1)) kd items⟩], .ref out.length)

def itemFrames (l : List (Key × Obj)) : List HFrame := l.map fun kv => .item kv.1 kv.2

def hstep (c : HCfg) (h : Heap) (root : Obj) (s : HSt) : Option HSt :=
  match s.err with
  | some _ => none
  | none =>
  match s.stack with
  | [] => none
  | .exit k old new kd :: rest =>
    match s.nis with
    | [] => some { s with stack := rest, err := some .typeError }
    | (p, items) :: nr =>
      match nr with
      | [] =>
        some { s with stack := rest, path := p, nis := [],
                      out := (exitNode kd new items s.out).1, value := (exitNode kd new items s.out).2,
                      reg := (old, (exitNode kd new items s.out).2) :: s.reg,
                      trace := s.trace ++ [.exit old] }
      | _ :: _ =>
        some (finishItem c
          { s with stack := rest, path := p, nis := nr,
                   out := (exitNode kd new items s.out).1, value := (exitNode kd new items s.out).2,
                   reg := (old, (exitNode kd new items s.out).2) :: s.reg,
                   trace := s.trace ++ [.exit old] }
          rest k (.ref old) (exitNode kd new items s.out).2)
  | .item k o :: rest =>
    match o with
    | .atom _ =>
      some (finishItem c { s with trace := s.trace ++ [.enter s.path k o false] } rest k o o)
    | .ref id =>
      match lookup id s.reg with
      | some v => some (finishItem c s rest k o v)
      | none =>
        match h[id]? with
        | none =>
          some (finishItem c { s with trace := s.trace ++ [.enter s.path k o false] } rest k o o)
        | some nd =>
          some { s with
            stack := itemFrames (enumItems nd.kind 0 nd.items) ++ (.exit k id s.out.length nd.kind :: rest),
            path := if o = root then s.path else s.path ++ [k],
            reg := (id, .ref s.out.length) :: s.reg,
            nis := (s.path, []) :: s.nis,
            out := s.out ++ [⟨nd.kind, []⟩],
            trace := s.trace ++ [.enter s.path k o true] }

def hrun (c : HCfg) (h : Heap) (root : Obj) : Nat → HSt → HSt
  | 0, s => s
  | n + 1, s => match hstep c h root s with
    | none => s
    | some s' => hrun c h root n s'

def hinit (root : Obj) : HSt :=
  ⟨[.item .none root], [], [], [], [], root, [], none⟩

def nodeCost (nd : Node) : Nat := nd.items.length + 2

/-- number of loop iterations that always suffices (see `Props.heap_terminates`) -/
def hbound (h : Heap) : Nat := (h.map nodeCost).sum + 1

def hfinal (c : HCfg) (h : Heap) (root : Obj) : HSt := hrun c h root (hbound h) (hinit root)

def hkeepVisit : HVisitFn := fun _ _ _ _ => .keep

def hprogVisit (pr : Prog) : HVisitFn := fun out p k v =>
  (evalProg pr p k (objView out v)).toVisit Obj.atom v

/-! ### `get_path` and `research` on the input heap -/
def lookupKey (seg : Atom) : List (Key × Obj) → Option Obj
  | [] => none
  | (k, o) :: r => if k = seg then some o else lookupKey seg r

def hgetChild (h : Heap) (cur : Obj) (seg : Atom) : Option Obj :=
  match cur with
  | .atom _ => none
  | .ref id => match h[id]? with
    | none => none
    | some nd => if nd.kind.isSet then none else lookupKey seg (enumItems nd.kind 0 nd.items)

def hgetPath (h : Heap) : Obj → Path → Option Obj
  | cur, [] => some cur
  | cur, seg :: r => match hgetChild h cur seg with
    | none => none
    | some c => hgetPath h c r

def enterLog : List Ev → List (Path × Key × Obj)
  | [] => []
  | .enter p k o _ :: r => (p, k, o) :: enterLog r
  | _ :: r => enterLog r

/-- the `enter` calls `research` hands to the query on a heap (cf. `researchCalls`): `remap`'s first
    `enter` call is the root's own -/
def hresearchCalls (rootQ : Bool) (tr : List Ev) : List (Path × Key × Obj) :=
  (if rootQ then (enterLog tr).take 1 else []) ++ (enterLog tr).drop 1

/-- `research(root, query, reraise)` on a heap: `remap(root, enter=_enter)` with the default visit,
    the query evaluated on the `enter` calls; `none` = the query raised and was re-raised -/
def hresearch (rootQ : Bool) (q : Path → Key → Obj → Option Bool) (reraise : Bool) (h : Heap) (root : Obj) :
    Option (List (Path × Obj)) :=
  researchRun q reraise (hresearchCalls rootQ (hfinal ⟨hkeepVisit, true⟩ h root).trace)

/-! ### the memoised bottom-up recursion (heap-level specification) -/

/-- the part of the loop state the recursion threads through -/
structure RSt where
  reg : List (Nat × Obj)
  out : Heap
  trace : List Ev

/-- the items a visit contributes to the parent (`none` = the visit raised and `reraise_visit` is set) -/
def visitOut (c : HCfg) (out : Heap) (p : Path) (k : Key) (val : Obj) : Option (List (Key × Obj)) :=
  match c.vf out p k val with
  | .keep => some [(k, val)]
  | .drop => some []
  | .repl k' v' => some [(k', v')]
  | .raise => if c.reraise then none else some [(k, val)]

mutual
/-- rebuilt counterpart of `o` (memoised through `reg`; a container is registered before its
    children are rebuilt, so that back references terminate) -/
def recVal (c : HCfg) (h : Heap) (root : Obj) : Nat → Path → Key → Obj → RSt → Option (RSt × Obj)
  | 0, _, _, _, _ => none
  | n + 1, p, k, o, st =>
    match o with
    | .atom _ => some ({ st with trace := st.trace ++ [.enter p k o false] }, o)
    | .ref id =>
      match lookup id st.reg with
      | some v => some (st, v)
      | none =>
        match h[id]? with
        | none => some ({ st with trace := st.trace ++ [.enter p k o false] }, o)
        | some nd =>
          match recItems c h root n (if o = root then p else p ++ [k]) (enumItems nd.kind 0 nd.items) []
              ⟨(id, .ref st.out.length) :: st.reg, st.out ++ [⟨nd.kind, []⟩],
               st.trace ++ [.enter p k o true]⟩ with
          | none => none
          | some (st2, items) =>
            some (⟨(id, (exitNode nd.kind st.out.length items st2.out).2) :: st2.reg,
                   (exitNode nd.kind st.out.length items st2.out).1, st2.trace ++ [.exit id]⟩,
                  (exitNode nd.kind st.out.length items st2.out).2)
/-- rebuild the items of one container left to right, visiting each rebuilt item -/
def recItems (c : HCfg) (h : Heap) (root : Obj) :
    Nat → Path → List (Key × Obj) → List (Key × Obj) → RSt → Option (RSt × List (Key × Obj))
  | 0, _, _, _, _ => none
  | _ + 1, _, [], acc, st => some (st, acc)
  | n + 1, p, (k, o) :: rest, acc, st =>
    match recVal c h root n p k o st with
    | none => none
    | some (st1, val) =>
      match visitOut c st1.out p k val with
      | none => none
      | some its =>
        recItems c h root n p rest (acc ++ its) { st1 with trace := st1.trace ++ [.visit p k o val] }
end

/-- `remap(root)` as a recursion: the root container is entered with key `None` and the empty
    path, its items are rebuilt, and its own result is returned without being visited -/
def recRoot (c : HCfg) (h : Heap) (root : Obj) (n : Nat) : Option (RSt × Obj) :=
  match root with
  | .atom _ => none
  | .ref id =>
    match h[id]? with
    | none => none
    | some nd =>
      match recItems c h root n [] (enumItems nd.kind 0 nd.items) []
          ⟨[(id, .ref 0)], [⟨nd.kind, []⟩], [.enter [] .none root true]⟩ with
      | none => none
      | some (st2, items) =>
        some (⟨(id, (exitNode nd.kind 0 items st2.out).2) :: st2.reg,
               (exitNode nd.kind 0 items st2.out).1, st2.trace ++ [.exit id]⟩,
              (exitNode nd.kind 0 items st2.out).2)

/-! ### the memoised recursion with raising visit callbacks -/

/-- outcome of the memoised recursion when visit callbacks may raise: a result, or the state in
    which a visit raised (and `reraise_visit` is set) -/
inductive RRes (α : Type) | ok (st : RSt) (a : α) | raised (st : RSt)

mutual
def recValE (c : HCfg) (h : Heap) (root : Obj) : Nat → Path → Key → Obj → RSt → Option (RRes Obj)
  | 0, _, _, _, _ => none
  | n + 1, p, k, o, st =>
    match o with
    | .atom _ => some (.ok { st with trace := st.trace ++ [.enter p k o false] } o)
    | .ref id =>
      match lookup id st.reg with
      | some v => some (.ok st v)
      | none =>
        match h[id]? with
        | none => some (.ok { st with trace := st.trace ++ [.enter p k o false] } o)
        | some nd =>
          match recItemsE c h root n (if o = root then p else p ++ [k]) (enumItems nd.kind 0 nd.items) []
              ⟨(id, .ref st.out.length) :: st.reg, st.out ++ [⟨nd.kind, []⟩],
               st.trace ++ [.enter p k o true]⟩ with
          | none => none
          | some (.raised st2) => some (.raised st2)
          | some (.ok st2 items) =>
            some (.ok ⟨(id, (exitNode nd.kind st.out.length items st2.out).2) :: st2.reg,
                   (exitNode nd.kind st.out.length items st2.out).1, st2.trace ++ [.exit id]⟩
                  (exitNode nd.kind st.out.length items st2.out).2)
def recItemsE (c : HCfg) (h : Heap) (root : Obj) :
    Nat → Path → List (Key × Obj) → List (Key × Obj) → RSt → Option (RRes (List (Key × Obj)))
  | 0, _, _, _, _ => none
  | _ + 1, _, [], acc, st => some (.ok st acc)
  | n + 1, p, (k, o) :: rest, acc, st =>
    match recValE c h root n p k o st with
    | none => none
    | some (.raised st1) => some (.raised st1)
    | some (.ok st1 val) =>
      match visitOut c st1.out p k val with
      | none => some (.raised { st1 with trace := st1.trace ++ [.visit p k o val] })
      | some its =>
        recItemsE c h root n p rest (acc ++ its) { st1 with trace := st1.trace ++ [.visit p k o val] }
end

def recRootE (c : HCfg) (h : Heap) (root : Obj) (n : Nat) : Option (RRes Obj) :=
  match root with
  | .atom _ => none
  | .ref id =>
    match h[id]? with
    | none => none
    | some nd =>
      match recItemsE c h root n [] (enumItems nd.kind 0 nd.items) []
          ⟨[(id, .ref 0)], [⟨nd.kind, []⟩], [.enter [] .none root true]⟩ with
      | none => none
      | some (.raised st2) => some (.raised st2)
      | some (.ok st2 items) =>
        some (.ok ⟨(id, (exitNode nd.kind 0 items st2.out).2) :: st2.reg,
               (exitNode nd.kind 0 items st2.out).1, st2.trace ++ [.exit id]⟩
              (exitNode nd.kind 0 items st2.out).2)


end C08
