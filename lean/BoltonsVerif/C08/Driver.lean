import BoltonsVerif.Common
import BoltonsVerif.C08.Model
/-
C08 line protocol.  One line = one whole case:

    <mode> <reraise> <tree> P<prog> R<obj> <node> <node> ...

  mode     M = remap(root, visit=prog, reraise_visit=reraise)
           Q = research(root, query=prog, reraise=reraise) followed by get_path on every reported path,
               for an implementation whose research hands the root itself to the query too
           Qn = the same for an implementation whose research queries nested items only
               (the harness probes the implementation for this convention; the statement leaves it free)
  reraise  0 | 1
  tree     1 = the object graph is a tree (no container referenced twice): additionally run the
               tree-level machine and the recursive specification on the unfolded value
  prog     rules separated by `/`, a rule is `<neg>,<cond>,<act>`; `P-` is the empty program
           cond: always isNone isInt isStr isBytes isFloat isBool isCont isKind:<K> isEmptyCont falsy valIs:<atom> keyIs:<atom>
                 keyIsInt pathLenGe:<n> pathLastIs:<atom>
           act:  keep keepPair drop incr setKey:<atom> setVal:<atom> keyIncr keyNeg keyStr valLen valDepth raise
                 (keyNeg: an int key k becomes -k; keyStr: an int key k becomes str(k))
  atom     n | i<int> | s<hex of utf-8> | y<hex of the bytes> | f<twice the float, an integer> | b0 | b1 | o<n>
  obj      atom | @<node id>
  node     <K><items>  K in D L T S F; items separated by `,`; dict items are `<atom>=<obj>`;
           node ids are the positions of the node tokens, starting at 0

           E~<enter>~<exit> = remap(root, visit=prog, enter=<enter>, exit=<exit>, reraise_visit=False) on a
               tree (no container referenced twice), custom callbacks from the table-defined families
               enter: dflt skipKind:<K> rev skipKey:<atom> asList depthLimit:<n>
               exit:  dflt count keys pathLen keyOld oldKind
               output `G=<generic loop> R=<generic recursion>`, label-free text of the result
Output: `H=<heap level loop> [M=<heap level memoised recursion>] T=<tree machine> R=<tree recursion>`
(M only for remap; T and R are `-` unless tree = 1).
  remap:    rebuilt value; containers `<K>#<label>[items]`, a repeated reference `^<label>`,
            labels in first-visit order, set members in the order of their label-free text,
            empty tuples / frozensets carry no label; errors `!TypeError` / `!ValueError`
  research: `;`-separated `<path>><value>:<status>`, path atoms separated by `/`, value = atom or
            `<K><len>`, status = ok | neq | err   (`-` = nothing reported); the root's own entry
            (path `(None,)`), if the implementation reports one, is not part of the output
-/
namespace C08.Driver
open BV C08

/-! parsing -/

def splitChars (sep : Char) (cs : List Char) : List (List Char) :=
  let rec go : List Char → List Char → List (List Char) → List (List Char)
    | [], cur, acc => (cur.reverse :: acc).reverse
    | c :: r, cur, acc => if c = sep then go r [] (cur.reverse :: acc) else go r (c :: cur) acc
  go cs [] []

def parseAtom? : List Char → Option Atom
  | ['n'] => some .none
  | 'i' :: r => (String.ofList r).toInt?.map Atom.int
  | 's' :: r =>
    if r.isEmpty then some (.str "") else
    match hexToBytes? (String.ofList r) with
    | none => none
    | some bs => (String.fromUTF8? (ByteArray.mk bs.toArray)).map Atom.str
  | 'y' :: r =>
    if r.isEmpty then some (.bytes []) else
    (hexToBytes? (String.ofList r)).map fun bs => Atom.bytes (bs.map (·.toNat))
  | 'f' :: r => (String.ofList r).toInt?.map Atom.float
  | ['b', '0'] => some (.bool false)
  | ['b', '1'] => some (.bool true)
  | 'o' :: r => (String.ofList r).toNat?.map Atom.other
  | _ => none

def parseObj? : List Char → Option Obj
  | '@' :: r => (String.ofList r).toNat?.map Obj.ref
  | cs => (parseAtom? cs).map Obj.atom

def parseKind? : Char → Option Kind
  | 'D' => some .dict | 'L' => some .list | 'T' => some .tuple | 'S' => some .set | 'F' => some .fset
  | _ => none

def nameArg (cs : List Char) : String × List Char :=
  match splitChars ':' cs with
  | [a] => (String.ofList a, [])
  | [a, b] => (String.ofList a, b)
  | _ => ("?", [])

def parseCond? (cs : List Char) : Option Cond :=
  let (name, arg) := nameArg cs
  match name with
  | "always" => some .always
  | "isNone" => some .isNone
  | "isInt" => some .isInt
  | "isStr" => some .isStr
  | "isBytes" => some .isBytes
  | "isFloat" => some .isFloat
  | "isBool" => some .isBool
  | "isCont" => some .isCont
  | "isKind" => match arg with
    | [c] => (parseKind? c).map Cond.isKind
    | _ => none
  | "isEmptyCont" => some .isEmptyCont
  | "falsy" => some .falsy
  | "valIs" => (parseAtom? arg).map Cond.valIs
  | "keyIs" => (parseAtom? arg).map Cond.keyIs
  | "keyIsInt" => some .keyIsInt
  | "pathLenGe" => (String.ofList arg).toNat?.map Cond.pathLenGe
  | "pathLastIs" => (parseAtom? arg).map Cond.pathLastIs
  | _ => none

def parseAct? (cs : List Char) : Option Act :=
  let (name, arg) := nameArg cs
  match name with
  | "keep" => some .keep
  | "keepPair" => some .keepPair
  | "drop" => some .drop
  | "incr" => some .incr
  | "setKey" => (parseAtom? arg).map Act.setKey
  | "setVal" => (parseAtom? arg).map Act.setVal
  | "keyIncr" => some .keyIncr
  | "keyNeg" => some .keyNeg
  | "keyStr" => some .keyStr
  | "valLen" => some .valLen
  | "valDepth" => some .valDepth
  | "raise" => some .raise
  | _ => none

def parseRule? (cs : List Char) : Option Rule :=
  match splitChars ',' cs with
  | [n, c, a] =>
    match n, parseCond? c, parseAct? a with
    | ['0'], some c, some a => some ⟨false, c, a⟩
    | ['1'], some c, some a => some ⟨true, c, a⟩
    | _, _, _ => none
  | _ => none

def parseProg? : List Char → Option Prog
  | 'P' :: ['-'] => some []
  | 'P' :: r => (splitChars '/' r).mapM parseRule?
  | _ => none

def parseItem? (kd : Kind) (i : Nat) (cs : List Char) : Option (Key × Obj) :=
  if kd = .dict then
    match splitChars '=' cs with
    | [k, v] => match parseAtom? k, parseObj? v with
      | some k, some v => some (k, v)
      | _, _ => none
    | _ => none
  else (parseObj? cs).map fun o => (Atom.int i, o)

def parseItems? (kd : Kind) : Nat → List (List Char) → Option (List (Key × Obj))
  | _, [] => some []
  | i, c :: r => match parseItem? kd i c, parseItems? kd (i + 1) r with
    | some x, some xs => some (x :: xs)
    | _, _ => none

def parseNode? : List Char → Option Node
  | [] => none
  | c :: r => match parseKind? c with
    | none => none
    | some kd =>
      if r.isEmpty then some ⟨kd, []⟩ else
      (parseItems? kd 0 (splitChars ',' r)).map fun its => ⟨kd, its⟩

/-! rendering -/

def atomS : Atom → String
  | .none => "n"
  | .int i => "i" ++ toString i
  | .str s => "s" ++ (if s.isEmpty then "" else bytesToHex s.toUTF8.toList)
  | .bytes b => "y" ++ (if b.isEmpty then "" else bytesToHex (b.map (·.toUInt8)))
  | .float t => "f" ++ toString t
  | .bool b => if b then "b1" else "b0"
  | .other n => "o" ++ toString n

def kindS : Kind → String
  | .dict => "D" | .list => "L" | .tuple => "T" | .set => "S" | .fset => "F"

def insertSorted {α : Type} (x : String × α) : List (String × α) → List (String × α)
  | [] => [x]
  | y :: r => if x.1 < y.1 then x :: y :: r else y :: insertSorted x r

def sortByKey {α : Type} (l : List (String × α)) : List (String × α) :=
  l.foldl (fun acc x => insertSorted x acc) []

def join (sep : String) (l : List String) : String := sep.intercalate l

/-- label-free text of a tree value -/
def plainV : Nat → Val → String
  | _, .leaf a => atomS a
  | 0, _ => "?"
  | n + 1, .node kd its =>
    let parts := its.toList.map fun kv =>
      (if kd = .dict then atomS kv.1 ++ "=" else "") ++ plainV n kv.2
    let parts := if kd.isSet then (sortByKey (parts.map fun s => (s, ()))).map (·.1) else parts
    kindS kd ++ "[" ++ join "," parts ++ "]"

def showV (v : Val) : String := plainV (vsize v + 1) v

/-- label-free text of a heap object (used for hashable objects: set members) -/
def plainH (h : Heap) : Nat → Obj → String
  | _, .atom a => atomS a
  | 0, .ref _ => "?"
  | n + 1, .ref id =>
    match h[id]? with
    | none => "?"
    | some nd =>
      let parts := nd.items.map fun kv =>
        (if nd.kind = .dict then atomS kv.1 ++ "=" else "") ++ plainH h n kv.2
      let parts := if nd.kind.isSet then (sortByKey (parts.map fun s => (s, ()))).map (·.1) else parts
      kindS nd.kind ++ "[" ++ join "," parts ++ "]"

structure RS where
  seen : List (Nat × Nat)
  next : Nat

def labelH (h : Heap) : Nat → Obj → RS → String × RS
  | _, .atom a, rs => (atomS a, rs)
  | 0, .ref _, rs => ("?", rs)
  | n + 1, .ref id, rs =>
    match h[id]? with
    | none => ("?", rs)
    | some nd =>
      if nd.items.isEmpty && !nd.kind.isMutable then (kindS nd.kind ++ "[]", rs) else
      match rs.seen.lookup id with
      | some l => ("^" ++ toString l, rs)
      | none =>
        let l := rs.next
        let rs1 : RS := ⟨(id, l) :: rs.seen, l + 1⟩
        let items := if nd.kind.isSet then
            (sortByKey (nd.items.map fun kv => (plainH h (h.length + 1) kv.2, kv))).map (·.2)
          else nd.items
        let res := items.foldl (fun (acc : List String × RS) kv =>
            let r := labelH h n kv.2 acc.2
            (acc.1 ++ [(if nd.kind = .dict then atomS kv.1 ++ "=" else "") ++ r.1], r.2)) ([], rs1)
        (kindS nd.kind ++ "#" ++ toString l ++ "[" ++ join "," res.1 ++ "]", res.2)

def showH (h : Heap) (o : Obj) : String := (labelH h (h.length + 1) o ⟨[], 0⟩).1

def errS : Err → String
  | .typeError => "!TypeError"
  | .visitError => "!ValueError"

def pathS (p : Path) : String := join "/" (p.map atomS)

def viewS : View → String
  | .atom a => atomS a
  | .cont kd n => kindS kd ++ toString n

/-! heap → tree -/
def unfold (h : Heap) : Nat → Obj → Option Val
  | _, .atom a => some (.leaf a)
  | 0, .ref _ => none
  | n + 1, .ref id =>
    match h[id]? with
    | none => none
    | some nd =>
      (nd.items.mapM fun kv => (unfold h n kv.2).map fun v => (kv.1, v)).map fun its =>
        .node nd.kind (ofList its)

mutual
def Val.same : Val → Val → Bool
  | .leaf a, .leaf b => a == b
  | .node k1 i1, .node k2 i2 => k1 == k2 && Items.same i1 i2
  | _, _ => false
def Items.same : Items → Items → Bool
  | .nil, .nil => true
  | .cons k1 v1 r1, .cons k2 v2 r2 => k1 == k2 && Val.same v1 v2 && Items.same r1 r2
  | _, _ => false
end

/-! the two modes -/

def remapLine (pr : Prog) (reraise tree : Bool) (h : Heap) (root : Obj) : String :=
  let s := hfinal ⟨hprogVisit pr, reraise⟩ h root
  let hpart := match s.err with
    | some e => errS e
    | none => if s.stack.isEmpty then showH s.out s.value else "!stuck"
  let (tpart, rpart) :=
    if tree then
      match unfold h (h.length + 1) root with
      | some v =>
        let c : Cfg := ⟨progVisit pr, defaultExit⟩
        ((match remapIter c v with | some r => showV r | none => "!TypeError"), showV (remapRec c v))
      | none => ("!unfold", "!unfold")
    else ("-", "-")
  let mpart := match recRootE ⟨hprogVisit pr, reraise⟩ h root (hbound h) with
    | some (.ok st v) => showH st.out v
    | some (.raised _) => errS .visitError
    | none =>
      -- the recursion is specified for container roots
      match root with
      | .atom _ => hpart
      | .ref _ => "!no-result"
  s!"H={hpart} M={mpart} T={tpart} R={rpart}"

def entryS (path : Path) (vw : View) (status : String) : String :=
  pathS path ++ ">" ++ viewS vw ++ ":" ++ status

def showEntries : Option (List String) → String
  | none => "!ValueError"
  | some [] => "-"
  | some l => join ";" l

/-- the root's own entry (present iff the root is queried and the query is truthy on it) is not part
    of the output: the property speaks about nested items -/
def dropRoot {α : Type} (hit : Bool) (l : List α) : List α := if hit then l.drop 1 else l

def researchLine (rootQ : Bool) (pr : Prog) (reraise tree : Bool) (h : Heap) (root : Obj) : String :=
  let s := hfinal ⟨hkeepVisit, true⟩ h root
  let hq : Path → Key → Obj → Option Bool := fun p k o => (evalProg pr p k (objView h o)).truth
  let hstatus : Path × Obj → String := fun pv =>
    match hgetPath h root pv.1 with
    | none => "err"
    | some o' => if o' = pv.2 then "ok" else "neq"
  let rootIsCont := match root with | .ref _ => true | .atom _ => false
  let hent := (hresearch rootQ hq reraise h root).map fun l =>
    (dropRoot (rootQ && rootIsCont && hq [] .none root == some true) l).map fun pv =>
      entryS pv.1 (objView h pv.2) (hstatus pv)
  let hpart := match hent, s.err with
    | none, _ => "!ValueError"
    | some _, some e => errS e
    | some l, none => if s.stack.isEmpty then showEntries (some l) else "!stuck"
  let (tpart, rpart) :=
    if tree then
      match unfold h (h.length + 1) root with
      | some (.node kd its) =>
        let v := Val.node kd its
        let tq : Path → Key → Val → Option Bool := fun p k x => (evalProg pr p k x.view).truth
        let tstatus : Path × Val → String := fun pv =>
          match getPath v pv.1 with
          | none => "err"
          | some x' => if Val.same x' pv.2 then "ok" else "neq"
        let hit := rootQ && tq [] .none v == some true
        let fmt : Option (List (Path × Val)) → String := fun r =>
          showEntries (r.map fun l => (dropRoot hit l).map fun pv => entryS pv.1 pv.2.view (tstatus pv))
        let mlog := (remapFinal ⟨keepVisit, defaultExit⟩ kd its).log
        (fmt (researchRun tq reraise ((if rootQ then mlog.take 1 else []) ++ mlog.drop 1)),
         fmt (research rootQ tq reraise v))
      | _ => ("!unfold", "!unfold")
    else ("-", "-")
  s!"H={hpart} T={tpart} R={rpart}"

/-! custom enter / exit callbacks (mode `E~<enter>~<exit>`; tree level) -/

def parseEnter? (cs : List Char) : Option EnterP :=
  let (name, arg) := nameArg cs
  match name with
  | "dflt" => some .dflt
  | "skipKind" => match arg with
    | [c] => (parseKind? c).map EnterP.skipKind
    | _ => none
  | "rev" => some .rev
  | "skipKey" => (parseAtom? arg).map EnterP.skipKey
  | "asList" => some .asList
  | "depthLimit" => (String.ofList arg).toNat?.map EnterP.depthLimit
  | _ => none

def parseExit? (cs : List Char) : Option ExitP :=
  match String.ofList cs with
  | "dflt" => some .dflt
  | "count" => some .count
  | "keys" => some .keys
  | "pathLen" => some .pathLen
  | "keyOld" => some .keyOld
  | "oldKind" => some .oldKind
  | _ => none

def gresS : Option GRes → String
  | none => "!fuel"
  | some .typeError => "!TypeError"
  | some (.ok v) => showV v

def customLine (e : EnterP) (pr : Prog) (x : ExitP) (h : Heap) (root : Obj) : String :=
  match unfold h (h.length + 1) root with
  | none => "!unfold"
  | some v =>
    let c := progCfg e pr x
    s!"G={gresS (gRemapIter c (2 * vsize v + 8) v)} R={gresS (gRoot c (vsize v + 2) v)}"

def parseFlag? : String → Option Bool
  | "0" => some false
  | "1" => some true
  | _ => none

def handle (line : String) : String :=
  match words line with
  | mode :: rr :: tr :: prog :: rootTok :: nodeToks =>
    match parseFlag? rr, parseFlag? tr, parseProg? prog.toList, rootTok.toList,
          nodeToks.mapM (fun t => parseNode? t.toList) with
    | some rr, some tr, some pr, 'R' :: rcs, some h =>
      match parseObj? rcs with
      | none => "bad-op"
      | some root =>
        if mode = "M" then remapLine pr rr tr h root
        else if mode = "Q" then researchLine true pr rr tr h root
        else if mode = "Qn" then researchLine false pr rr tr h root
        else if mode.startsWith "E~" then
          match splitChars '~' mode.toList with
          | [_, e, x] =>
            match parseEnter? e, parseExit? x with
            | some e, some x => customLine e pr x h root
            | _, _ => "bad-op"
          | _ => "bad-op"
        else "bad-op"
    | _, _, _, _, _ => "bad-op"
  | _ => "bad-op"

end C08.Driver
