import BoltonsVerif.C08.Model
/-
C08 — `remap(..., trace=...)`: the debugging keyword (round 5).

`trace` does not occur in the models of `Model.lean`: it selects which of the loop's three events
(`enter`, `visit`, `exit`) are PRINTED.  Here the generic machine (`gstep`, arbitrary enter / visit /
exit callbacks) is extended by exactly that: every iteration appends the lines it prints to a log.
What an iteration prints is a function of the state it starts in (`gprints`); printing has no access
to the state the iteration produces.  `Props.lean` proves that the traced loop returns what the
untraced loop returns, for every selection of events, and that it prints nothing when tracing is off.

What the model can NOT express (and the harness therefore checks on the implementation, with every
value `trace` accepts): a print that has an effect on the machine after all - e.g. one that iterates
over the one-shot iterator `enter` returned (seeded change C08-13).  In the model the items `enter`
hands over are a list, not a consumable iterator.
-/
namespace C08

/-- `trace` after remap's normalisation: which events are printed.  `trace=True` = all three, a str =
    that one event, a tuple / list / set = its members, `()` (the default) / `False` = none; names
    other than the three are ignored. -/
structure TraceSel where
  enter : Bool
  visit : Bool
  exit  : Bool
deriving DecidableEq, Repr

def TraceSel.off : TraceSel := ⟨false, false, false⟩
def TraceSel.all : TraceSel := ⟨true, true, true⟩

/-- one printed line -/
inductive TLine
  | enter (p : Path) (k : Key) (v : Val)
  | enterResult (res : Option (Val × List (Key × Val)))
  | stackSize (n : Nat)
  | visit (p : Path) (k : Key) (v : Val)
  | visitResult (r : List (Key × Val))            -- `[]` = `<drop>`
  | exit (p : Path) (k : Key) (old np : Val) (items : List (Key × Val))
  | exitResult (v : Val)

def onlyIf (b : Bool) (l : List TLine) : List TLine := if b then l else []

/-- the lines one loop iteration prints, as a function of the state it starts in -/
def gprints (c : GCfg) (t : TraceSel) (s : GSt) : List TLine :=
  if s.err then [] else
  match s.stack with
  | [] => []
  | .item k v :: rest =>
    match c.en s.path k v with
    | some (np, items) =>
      onlyIf t.enter [.enter s.path k v, .enterResult (some (np, items)),
                      .stackSize (items.length + 1 + rest.length)]
    | none =>
      onlyIf t.enter [.enter s.path k v, .enterResult none] ++
      onlyIf t.visit [.visit s.path k v, .visitResult (applyVisit c.vf s.path k v)]
  | .exit k old np :: _ =>
    match s.nis with
    | [] => []
    | (p, items) :: nr =>
      onlyIf t.exit [.exit p k old np items, .exitResult (c.ex p k old np items)] ++
      (match nr with
       | [] => []                                  -- the root's exit: no visit
       | _ :: _ => onlyIf t.visit [.visit p k (c.ex p k old np items),
                                   .visitResult (applyVisit c.vf p k (c.ex p k old np items))])

/-- one iteration of the traced loop: the untraced step, and the printed lines appended to the log -/
def gstepT (c : GCfg) (t : TraceSel) (s : GSt × List TLine) : Option (GSt × List TLine) :=
  match gstep c s.1 with
  | none => none
  | some s' => some (s', s.2 ++ gprints c t s.1)

def grunT (c : GCfg) (t : TraceSel) : Nat → GSt × List TLine → GSt × List TLine
  | 0, s => s
  | n + 1, s => match gstepT c t s with
    | none => s
    | some s' => grunT c t n s'

/-- `remap(root, visit, enter, exit, trace=t)` run for at most `m` iterations: the result (`none` =
    still running) and everything printed so far -/
def gRemapIterT (c : GCfg) (t : TraceSel) (m : Nat) (root : Val) : Option GRes × List TLine :=
  let s := grunT c t m (ginit root, [])
  (if s.1.err then some .typeError else if s.1.stack.isEmpty then some (.ok s.1.value) else none, s.2)

/-! the log is a pure by-product -/

theorem grunT_fst (c : GCfg) (t : TraceSel) (m : Nat) (s : GSt) (log : List TLine) :
    (grunT c t m (s, log)).1 = grun c m s := by
  induction m generalizing s log with
  | zero => rfl
  | succ n ih =>
    simp only [grunT, grun, gstepT]
    cases h : gstep c s with
    | none => rfl
    | some s' => exact ih s' _

theorem gprints_off (c : GCfg) (s : GSt) : gprints c .off s = [] := by
  unfold gprints
  split
  · rfl
  · split
    · rfl
    · split <;> simp [onlyIf, TraceSel.off]
    · split
      · rfl
      · split <;> simp [onlyIf, TraceSel.off]

theorem grunT_off_snd (c : GCfg) (m : Nat) (s : GSt) (log : List TLine) :
    (grunT c .off m (s, log)).2 = log := by
  induction m generalizing s log with
  | zero => rfl
  | succ n ih =>
    simp only [grunT, gstepT]
    cases h : gstep c s with
    | none => rfl
    | some s' =>
      simp only []
      rw [ih, gprints_off, List.append_nil]

end C08
