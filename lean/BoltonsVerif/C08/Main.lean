import BoltonsVerif.C08.Driver
def main : IO Unit := BV.mainLoop C08.Driver.handle
