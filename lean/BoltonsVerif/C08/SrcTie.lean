import BoltonsVerif.Generated.Src_iterutils_remap
import BoltonsVerif.C08.SrcTieOps
/-
C08 — source-translator tie for the callbacks of `boltons.iterutils.remap` and for `get_path` (round 3e).

`Src.iterutils.default_visit / default_enter / default_exit / get_path` are regenerated from the Python source on
every run (harness/py2lean_c08.py, OBJECT-GRAPH MODE): definitions over an abstract object store with every
duck-typed operation a field of the parameter record `PyRtC08.Ops σ V K`.

This file
  1. takes the meaning of the declared operations on the heap of the C08 model from `SrcTieOps.lean` (`gOps rd`: objects are `C08.Obj`,
     the store is a `C08.Heap`; `rd` says which heap READS go to - the store itself (`gOps id`, the single Python
     heap: this instance is what the translator self-test runs against CPython) or a fixed input heap
     (`gOps (fun _ => hin)`: the model keeps the traversed graph `h` and the rebuilt graph `out` apart));
  2. proves that under this meaning the generated definitions ARE the pieces the heap-level machine `hstep` of
     Model.lean is made of: `default_enter` = the allocation / item list of the `.item` step, `default_exit` =
     `exitNode`, `default_visit` = `Visit.keep`, `get_path` = `hgetPath`.

Proof style: specification lemmas for the operations + `simp` with the generated definitions as simp set and a
leaf-wise case analysis; nothing follows the statement order of the source.
-/
namespace C08
open PyRtC08 Src.iterutils

/-! ## 2. specification lemmas -/

theorem enumItems_dict (i : Nat) (l : List (Key × Obj)) : enumItems .dict i l = l := by
  induction l generalizing i with
  | nil => rfl
  | cons x r ih => obtain ⟨k, o⟩ := x; simp [enumItems, effKey, ih]

theorem enumItems_seq (kd : Kind) (hk : kd ≠ .dict) (i : Nat) (l : List (Key × Obj)) :
    enumItems kd i l = pyEnumerate i (l.map Prod.snd) := by
  induction l generalizing i with
  | nil => rfl
  | cons x r ih => obtain ⟨k, o⟩ := x; simp [enumItems, effKey, hk, pyEnumerate, ih]

theorem lookupKey_pyEnumerate_int (l : List Obj) (j : Nat) (i : Int) (hi : (j : Int) ≤ i) :
    lookupKey (.int i) (pyEnumerate j l) = l[(i - j).toNat]? := by
  induction l generalizing j with
  | nil => simp [pyEnumerate, lookupKey]
  | cons o r ih =>
    simp only [pyEnumerate, lookupKey]
    by_cases h : (j : Int) = i
    · subst h; simp
    · have h2 : ((j + 1 : Nat) : Int) ≤ i := by omega
      have h3 : ¬ (Atom.int (j : Int) = Atom.int i) := by
        intro hc; injection hc with hc; exact h hc
      rw [if_neg h3, ih (j + 1) h2]
      have : (i - (j : Int)).toNat = (i - ((j + 1 : Nat) : Int)).toNat + 1 := by omega
      rw [this]; simp

theorem lookupKey_pyEnumerate_nonint (l : List Obj) (j : Nat) (seg : Atom) (hs : ∀ i, seg ≠ .int i) :
    lookupKey seg (pyEnumerate j l) = none := by
  induction l generalizing j with
  | nil => rfl
  | cons o r ih =>
    simp only [pyEnumerate, lookupKey]
    rw [if_neg (fun hc => hs _ hc.symm), ih]

/-- the path segments the model is exact for: non-negative ints, strings that are not numerals, `None` -/
def PlainSeg : Atom → Prop
  | .int i => 0 ≤ i
  | .str s => s.toInt? = none
  | .none => True
  | _ => False

/-- on plain segments the declared `cur[seg]` is the model's `hgetChild`, and it fails with one of the
    three lookup errors -/
theorem getitemH_eq_hgetChild (h : Heap) (cur : Obj) (seg : Atom) (hp : PlainSeg seg) :
    (∀ v, hgetChild h cur seg = some v → getitemH h cur seg = .ok v) ∧
    (hgetChild h cur seg = none →
      ∃ e, getitemH h cur seg = .error e ∧ (e = .KeyError ∨ e = .IndexError ∨ e = .TypeError)) := by
  cases cur with
  | atom a => simp [hgetChild, getitemH, nodeOf]
  | ref id =>
    simp only [hgetChild, getitemH, nodeOf]
    cases hn : h[id]? with
    | none => simp
    | some nd =>
      obtain ⟨kd, items⟩ := nd
      cases kd with
      | dict =>
        simp only [Kind.isSet, enumItems_dict]
        cases hl : lookupKey seg items <;> simp
      | set => simp [Kind.isSet]
      | fset => simp [Kind.isSet]
      | list =>
        simp only [Kind.isSet, enumItems_seq .list (by decide)]
        cases seg with
        | int i =>
          have hi : 0 ≤ i := hp
          have := lookupKey_pyEnumerate_int (items.map Prod.snd) 0 i (by simpa using hi)
          rw [show i - ((0 : Nat) : Int) = i by omega] at this
          simp only [Bool.false_eq_true, if_false, this, seqIndex, hi, if_true]
          cases (items.map Prod.snd)[i.toNat]? <;> simp
        | str s => simp [lookupKey_pyEnumerate_nonint]
        | none => simp [lookupKey_pyEnumerate_nonint]
        | bool b => exact absurd hp (by simp [PlainSeg])
        | bytes b => exact absurd hp (by simp [PlainSeg])
        | float t => exact absurd hp (by simp [PlainSeg])
        | other n => exact absurd hp (by simp [PlainSeg])
      | tuple =>
        simp only [Kind.isSet, enumItems_seq .tuple (by decide)]
        cases seg with
        | int i =>
          have hi : 0 ≤ i := hp
          have := lookupKey_pyEnumerate_int (items.map Prod.snd) 0 i (by simpa using hi)
          rw [show i - ((0 : Nat) : Int) = i by omega] at this
          simp only [Bool.false_eq_true, if_false, this, seqIndex, hi, if_true]
          cases (items.map Prod.snd)[i.toNat]? <;> simp
        | str s => simp [lookupKey_pyEnumerate_nonint]
        | none => simp [lookupKey_pyEnumerate_nonint]
        | bool b => exact absurd hp (by simp [PlainSeg])
        | bytes b => exact absurd hp (by simp [PlainSeg])
        | float t => exact absurd hp (by simp [PlainSeg])
        | other n => exact absurd hp (by simp [PlainSeg])

/-- `int(seg)` of a plain segment gives the segment back or fails with ValueError / TypeError -/
theorem atomToInt_plain (seg : Atom) (hp : PlainSeg seg) :
    atomToInt seg = .ok seg ∨ atomToInt seg = .error .ValueError ∨ atomToInt seg = .error .TypeError := by
  cases seg with
  | int i => simp [atomToInt]
  | str s => have : s.toInt? = none := hp; simp [atomToInt, this]
  | none => simp [atomToInt]
  | bool b => exact absurd hp (by simp [PlainSeg])
  | bytes b => exact absurd hp (by simp [PlainSeg])
  | float t => exact absurd hp (by simp [PlainSeg])
  | other n => exact absurd hp (by simp [PlainSeg])

/-! ## 3. `default_visit` -/

/-- the translated `default_visit` returns `(key, value)` and leaves the store alone … -/
theorem src_default_visit_eq_model {σ V K : Type} (O : Ops σ V K) (s : σ) (p : List K) (k : K) (v : V) :
    default_visit O s p k v = .ok ((k, v), s) := by
  simp [default_visit]

/-- … so as a `visit` callback of the model it is `keep`: `remap` appends `(key, value)` -/
theorem src_default_visit_is_keep (O : Ops Heap Obj Atom) (s : Heap) (p : Path) (k : Key) (v : Obj) :
    applyVisit (fun p k v => match default_visit O s p k v with
      | .ok ((k2, v2), _) => Visit.repl k2 v2
      | .error _ => Visit.raise) p k v = applyVisit (fun _ _ _ => Visit.keep) p k v := by
  simp [default_visit, applyVisit]

example : default_visit (gOps id) [] [] (.int 3) (.atom .none) = .ok ((.int 3, .atom .none), []) := by rfl

/-! ## 4. `default_enter` = what the `.item` step of `hstep` does with a value -/

/-- the model's reading of `enter` on the input heap `hin` with the rebuilt heap `out` -/
def enterModel (hin out : Heap) (o : Obj) : EnterRes Obj Atom × Heap :=
  match nodeOf hin o with
  | none => ((o, none), out)
  | some nd => ((.ref out.length, some (enumItems nd.kind 0 nd.items)), out ++ [⟨nd.kind, []⟩])

theorem src_default_enter_eq_model (hin out : Heap) (p : Path) (k : Key) (o : Obj) :
    default_enter (gOps fun _ => hin) out p k o = .ok (enterModel hin out o) := by
  unfold enterModel
  cases hn : nodeOf hin o with
  | none =>
    cases o with
    | atom a => cases a <;> simp [default_enter, gOps, isStrBytesA, kindIn, nodeOf]
    | ref id => simp_all [default_enter, gOps, isStrBytesA, kindIn, nodeOf]
  | some nd =>
    obtain ⟨kd, items⟩ := nd
    cases o with
    | atom a => simp [nodeOf] at hn
    | ref id =>
      cases kd <;>
        simp [default_enter, gOps, isStrBytesA, kindIn, hn, Kind.isSet, enumItems_dict, enumItems_seq]

/-- the same on the single Python heap (`gOps id`: the instance the self-test runs against CPython), for an
    object of the store -/
theorem src_default_enter_single_heap (h : Heap) (p : Path) (k : Key) (o : Obj)
    (hin : ∀ id, o = .ref id → id < h.length) :
    default_enter (gOps id) h p k o = .ok (enterModel h h o) := by
  unfold enterModel
  cases hn : nodeOf h o with
  | none =>
    cases o with
    | atom a => cases a <;> simp [default_enter, gOps, isStrBytesA, kindIn, nodeOf]
    | ref id => simp_all [default_enter, gOps, isStrBytesA, kindIn, nodeOf]
  | some nd =>
    obtain ⟨kd, items⟩ := nd
    cases o with
    | atom a => simp [nodeOf] at hn
    | ref id =>
      have hlt := hin id rfl
      have hn2 : nodeOf (h ++ [⟨kd, []⟩]) (.ref id) = some ⟨kd, items⟩ := by
        simp only [nodeOf] at hn ⊢
        rw [List.getElem?_append_left hlt]; exact hn
      cases kd <;>
        simp_all [default_enter, gOps, isStrBytesA, kindIn, Kind.isSet, enumItems_dict, enumItems_seq]

/-- the `.item` step of the heap-level machine, for a container met for the first time, expressed through the
    translated `default_enter`: new stack frames, rebuilt heap and registry entry are what the source returns -/
theorem src_default_enter_drives_hstep (c : HCfg) (h : Heap) (root : Obj) (s : HSt) (k : Key) (id : Nat)
    (rest : List HFrame) (nd : Node) (hs : s.stack = .item k (.ref id) :: rest) (he : s.err = none)
    (hreg : lookup id s.reg = none) (hnd : h[id]? = some nd) :
    ∃ np items out2, default_enter (gOps fun _ => h) s.out s.path k (.ref id) = .ok ((np, some items), out2) ∧
      hstep c h root s = some { s with
        stack := itemFrames items ++ (.exit k id s.out.length nd.kind :: rest),
        path := if Obj.ref id = root then s.path else s.path ++ [k],
        reg := (id, np) :: s.reg, nis := (s.path, []) :: s.nis, out := out2,
        trace := s.trace ++ [.enter s.path k (.ref id) true] } := by
  refine ⟨.ref s.out.length, enumItems nd.kind 0 nd.items, s.out ++ [⟨nd.kind, []⟩], ?_, ?_⟩
  · rw [src_default_enter_eq_model]; simp [enterModel, nodeOf, hnd]
  · simp [hstep, hs, he, hreg, hnd]

example : default_enter (gOps fun _ => [⟨.list, [(.none, .atom (.int 7))]⟩]) [] [] .none (.ref 0)
    = .ok ((.ref 0, some [(.int 0, .atom (.int 7))]), [⟨.list, []⟩]) := by rfl

/-! ## 5. `default_exit` = `exitNode` -/

theorem src_default_exit_eq_model (out : Heap) (p : Path) (k : Key) (old : Obj) (new : Nat) (kd : Kind)
    (items : List (Key × Obj)) (hnew : out[new]? = some ⟨kd, []⟩) :
    default_exit (gOps id) out p k old (.ref new) items
      = .ok ((exitNode kd new items out).2, (exitNode kd new items out).1) := by
  cases kd <;>
    simp [default_exit, gOps, isStrBytesA, kindIn, nodeOf, hnew, Kind.isSet, exitNode, Kind.isMutable, buildItems,
      Exc.isA, renumber, List.map_map, Function.comp_def]

/-- the `.exit` step of the heap-level machine expressed through the translated `default_exit`: the value handed
    on, the registry entry of the old parent and the rebuilt heap are what the SOURCE returns (hyp.: the new
    parent is still the blank container created at enter time) -/
theorem src_default_exit_drives_hstep (c : HCfg) (h : Heap) (root : Obj) (s : HSt) (k : Key) (old new : Nat)
    (kd : Kind) (rest : List HFrame) (p : Path) (items : List (Key × Obj)) (nr : List (Path × List (Key × Obj)))
    (hs : s.stack = .exit k old new kd :: rest) (he : s.err = none) (hn : s.nis = (p, items) :: nr)
    (hnew : s.out[new]? = some ⟨kd, []⟩) :
    ∃ ret out2, default_exit (gOps id) s.out p k (.ref old) (.ref new) items = .ok (ret, out2) ∧
      hstep c h root s = some (match nr with
        | [] => { s with stack := rest, path := p, nis := [], out := out2, value := ret,
                         reg := (old, ret) :: s.reg, trace := s.trace ++ [.exit old] }
        | _ :: _ => finishItem c { s with stack := rest, path := p, nis := nr, out := out2, value := ret,
                                          reg := (old, ret) :: s.reg, trace := s.trace ++ [.exit old] }
                      rest k (.ref old) ret) := by
  refine ⟨(exitNode kd new items s.out).2, (exitNode kd new items s.out).1,
    src_default_exit_eq_model s.out p k (.ref old) new kd items hnew, ?_⟩
  cases nr <;> simp [hstep, hs, he, hn]

/-- a scalar as new parent: the source raises `RuntimeError` (the model never gets there) -/
theorem src_default_exit_scalar (out : Heap) (p : Path) (k : Key) (old : Obj) (i : Int)
    (items : List (Key × Obj)) :
    default_exit (gOps id) out p k old (.atom (.int i)) items = .error .RuntimeError := by
  simp [default_exit, gOps, isStrBytesA, kindIn, nodeOf]

example : default_exit (gOps id) [⟨.tuple, []⟩] [] .none (.atom .none) (.ref 0) [(.int 0, .atom (.int 7))]
    = .ok (.ref 1, [⟨.tuple, []⟩, ⟨.tuple, [(.int 0, .atom (.int 7))]⟩]) := by rfl

/-! ## 6. `get_path` = `hgetPath` -/

/-- specification of the loop, for ANY operations record whose `cur[seg]` / `int(seg)` behave as declared -/
theorem get_path_loop_spec {σ V K : Type} (O : Ops σ V K) (child : V → K → Option V) (walk : V → List K → Option V)
    (hw0 : ∀ v, walk v [] = some v)
    (hw1 : ∀ v seg r c, child v seg = some c → walk v (seg :: r) = walk c r)
    (hw2 : ∀ v seg r, child v seg = none → walk v (seg :: r) = none)
    (root : V) (path0 : List K) (d : Option V) (s : σ) (path : List K)
    (hget : ∀ cur seg, seg ∈ path → (∀ v, child cur seg = some v → O.getitem s cur seg = .ok v) ∧
      (child cur seg = none →
        ∃ e, O.getitem s cur seg = .error e ∧ (e = .KeyError ∨ e = .IndexError ∨ e = .TypeError)))
    (hint : ∀ seg, seg ∈ path → O.toInt seg = .ok seg ∨ O.toInt seg = .error .ValueError ∨ O.toInt seg = .error .TypeError)
    (cur : V) :
    get_path.loop1 O root path0 d path cur s = match walk cur path with
      | some v => .ok (v, s)
      | none => .error .PathAccessError := by
  induction path generalizing cur with
  | nil => simp [get_path.loop1, hw0]
  | cons seg r ih =>
    have ih2 := fun c => ih (fun cur seg hm => hget cur seg (List.mem_cons_of_mem _ hm))
      (fun seg hm => hint seg (List.mem_cons_of_mem _ hm)) c
    have hg := hget cur seg (List.mem_cons_self ..)
    have hi := hint seg (List.mem_cons_self ..)
    cases hc : child cur seg with
    | some v =>
      rw [hw1 _ _ _ _ hc]
      have hg := hg.1 v hc
      simp [get_path.loop1, hg, ih2]
    | none =>
      rw [hw2 _ _ _ hc]
      obtain ⟨e, he, hcls⟩ := hg.2 hc
      rcases hcls with rfl | rfl | rfl <;> rcases hi with hi | hi | hi <;>
        simp [get_path.loop1, he, hi, Exc.isA]

/-- `get_path(root, path[, default])` on the heap: the model's `hgetPath`; a failed lookup is
    `PathAccessError` or the default -/
theorem src_get_path_eq_model (h s : Heap) (root : Obj) (path : Path) (d : Option Obj)
    (hp : ∀ seg, seg ∈ path → PlainSeg seg) :
    get_path (gOps fun _ => h) s root path d = match hgetPath h root path with
      | some v => .ok (v, s)
      | none => match d with
        | none => .error .PathAccessError
        | some dv => .ok (dv, s) := by
  have hl := get_path_loop_spec (gOps fun _ => h) (hgetChild h) (hgetPath h) (fun v => by simp [hgetPath])
    (fun v seg r c hc => by simp [hgetPath, hc]) (fun v seg r hc => by simp [hgetPath, hc]) root path d s path
    (fun cur seg hm => by simpa [gOps] using getitemH_eq_hgetChild h cur seg (hp seg hm))
    (fun seg hm => by simpa [gOps] using atomToInt_plain seg (hp seg hm)) root
  simp only [get_path, hl]
  cases hgetPath h root path with
  | some v => simp
  | none => cases d <;> simp [Exc.isA]

/-- with a default: the model's `getPathD` on heaps -/
theorem src_get_path_default (h s : Heap) (root : Obj) (path : Path) (dv : Obj)
    (hp : ∀ seg, seg ∈ path → PlainSeg seg) :
    get_path (gOps fun _ => h) s root path (some dv) = .ok ((hgetPath h root path).getD dv, s) := by
  rw [src_get_path_eq_model h s root path (some dv) hp]
  cases hgetPath h root path <;> simp

example : get_path (gOps id) [⟨.dict, [(.str "a", .ref 1)]⟩, ⟨.list, [(.none, .atom (.int 7))]⟩] (.ref 0)
    [.str "a", .int 0] none = .ok (.atom (.int 7), [⟨.dict, [(.str "a", .ref 1)]⟩, ⟨.list, [(.none, .atom (.int 7))]⟩]) := by
  rfl
example : get_path (gOps id) [⟨.list, [(.none, .atom (.int 7))]⟩] (.ref 0) [.int 3] none = .error .PathAccessError := by
  rfl
example : PlainSeg .none ∧ PlainSeg (.int 0) := by simp [PlainSeg]

/-! ## 7. the MAIN LOOP of `remap` (loop mode of harness/py2lean_c08.py)

`Src.iterutils.remap_loop.loop1` is the `while stack:` loop regenerated from the source, with the callbacks as
parameters.  Instantiated with the TRANSLATED `default_enter` (reads on the input heap `h`, allocation in the rebuilt
heap) and `default_exit` (on the rebuilt heap) and with the model's visit callback, one iteration of the source loop
IS one `hstep` of the heap-level machine of Model.lean (`src_remap_loop_simulates_hstep`). -/

/-- a work-stack entry of the model as the source's entry -/
def frameOf : HFrame → PyRtC08.Frame Obj Atom
  | .item k o => .item k o
  | .exit k old new _ => .exit k (.ref new) (.ref old)

/-- the model's registry (input id ↦ rebuilt object) as the source's `registry` (keyed by `id()` = the reference) -/
def regOf (r : List (Nat × Obj)) : List (Obj × Obj) := r.map fun p => (Obj.ref p.1, p.2)

/-- the model's visit callback as a callback of the source loop (a raising visit raises `Exc.Other`) -/
def visitOf (c : HCfg) : PyRtC08.VisitFn Heap Obj Atom := fun s p k v =>
  match c.vf s p k v with
  | .keep => .ok (.true_, s)
  | .drop => .ok (.false_, s)
  | .repl k2 v2 => .ok (.pair k2 v2, s)
  | .raise => .error .Other

/-- the translated loop with the translated default callbacks and the model's visit -/
abbrev srcLoop (c : HCfg) (h : Heap) (root : Obj) :=
  remap_loop.loop1 root (visitOf c) (default_enter (gOps fun _ => h)) (default_exit (gOps id)) false c.reraise Atom.none

theorem regLookup_regOf_ref (r : List (Nat × Obj)) (id : Nat) : regLookup (regOf r) (.ref id) = lookup id r := by
  induction r with
  | nil => rfl
  | cons x r ih => obtain ⟨j, o⟩ := x; simp [regOf, regLookup, lookup] at ih ⊢; split <;> simp_all [regOf]

theorem regLookup_regOf_atom (r : List (Nat × Obj)) (a : Atom) : regLookup (regOf r) (.atom a) = none := by
  induction r with
  | nil => rfl
  | cons x r ih => obtain ⟨j, o⟩ := x; simp [regOf, regLookup] at ih ⊢; exact ih

/-- how the source loop goes on with `n` more iterations from the model state `s1` reached by one step: it continues
    from the corresponding source state, or the error recorded by the model is the exception the source raised -/
def contFrom (c : HCfg) (h : Heap) (root : Obj) (n : Nat) (ent : List Obj) (s1 : HSt) :=
  match s1.err with
  | none => srcLoop c h root n ent s1.nis s1.path (regOf s1.reg) (s1.stack.map frameOf) (some s1.value) s1.out
  | some .typeError => .error .TypeError
  | some .visitError => .error .Other

set_option hygiene false in
local macro "finish_cases" c:term "," o:term : tactic => `(tactic| (
  cases hv : HCfg.vf $c s.out s.path k $o <;> cases hn : s.nis <;> cases hr : HCfg.reraise $c <;>
    simp [he, hv, hn, hr, srcLoop, Exc.isA]))

theorem srcLoop_item_atom (c : HCfg) (h : Heap) (root : Obj) (n : Nat) (ent : List Obj) (val : Option Obj) (s : HSt)
    (k : Key) (a : Atom) (rest : List HFrame) (hs : s.stack = .item k (.atom a) :: rest) (he : s.err = none) :
    srcLoop c h root (n + 1) ent s.nis s.path (regOf s.reg) (s.stack.map frameOf) val s.out =
      contFrom c h root n ent
        (finishItem c { s with trace := s.trace ++ [.enter s.path k (.atom a) false] } rest k (.atom a) (.atom a)) := by
  simp only [srcLoop, hs, List.map_cons, frameOf]
  rw [remap_loop.loop1]
  simp only [regLookup_regOf_atom, src_default_enter_eq_model, enterModel, nodeOf, visitOf, finishItem, appendItem, contFrom]
  finish_cases c, (Obj.atom a)

theorem srcLoop_item_registered (c : HCfg) (h : Heap) (root : Obj) (n : Nat) (ent : List Obj) (val : Option Obj) (s : HSt)
    (k : Key) (id : Nat) (v : Obj) (rest : List HFrame) (hs : s.stack = .item k (.ref id) :: rest) (he : s.err = none)
    (hreg : lookup id s.reg = some v) :
    srcLoop c h root (n + 1) ent s.nis s.path (regOf s.reg) (s.stack.map frameOf) val s.out =
      contFrom c h root n ent (finishItem c s rest k (.ref id) v) := by
  simp only [srcLoop, hs, List.map_cons, frameOf]
  rw [remap_loop.loop1]
  simp only [regLookup_regOf_ref, hreg, regGet, visitOf, finishItem, appendItem, contFrom]
  finish_cases c, v

theorem srcLoop_item_dangling (c : HCfg) (h : Heap) (root : Obj) (n : Nat) (ent : List Obj) (val : Option Obj) (s : HSt)
    (k : Key) (id : Nat) (rest : List HFrame) (hs : s.stack = .item k (.ref id) :: rest) (he : s.err = none)
    (hreg : lookup id s.reg = none) (hnd : h[id]? = none) :
    srcLoop c h root (n + 1) ent s.nis s.path (regOf s.reg) (s.stack.map frameOf) val s.out =
      contFrom c h root n ent
        (finishItem c { s with trace := s.trace ++ [.enter s.path k (.ref id) false] } rest k (.ref id) (.ref id)) := by
  simp only [srcLoop, hs, List.map_cons, frameOf]
  rw [remap_loop.loop1]
  simp only [regLookup_regOf_ref, hreg, src_default_enter_eq_model, enterModel, nodeOf, hnd, visitOf, finishItem,
    appendItem, contFrom]
  finish_cases c, (Obj.ref id)

theorem map_frameOf_itemFrames (l : List (Key × Obj)) :
    (itemFrames l).map frameOf = l.map fun kv => PyRtC08.Frame.item kv.1 kv.2 := by
  simp [itemFrames, frameOf, List.map_map, Function.comp_def]

theorem srcLoop_item_enter (c : HCfg) (h : Heap) (root : Obj) (n : Nat) (ent : List Obj) (val : Option Obj) (s : HSt)
    (k : Key) (id : Nat) (nd : Node) (rest : List HFrame) (hs : s.stack = .item k (.ref id) :: rest) (he : s.err = none)
    (hreg : lookup id s.reg = none) (hnd : h[id]? = some nd) :
    srcLoop c h root (n + 1) ent s.nis s.path (regOf s.reg) (s.stack.map frameOf) val s.out =
      srcLoop c h root n (ent ++ [.ref id]) ((s.path, []) :: s.nis) (if Obj.ref id = root then s.path else s.path ++ [k])
        (regOf ((id, .ref s.out.length) :: s.reg))
        ((itemFrames (enumItems nd.kind 0 nd.items) ++ (.exit k id s.out.length nd.kind :: rest)).map frameOf)
        (some (.ref id)) (s.out ++ [⟨nd.kind, []⟩]) := by
  simp only [srcLoop, hs, List.map_cons, frameOf, List.map_append, map_frameOf_itemFrames]
  rw [remap_loop.loop1]
  simp only [regLookup_regOf_ref, hreg, src_default_enter_eq_model, enterModel, nodeOf, hnd]
  by_cases hroot : Obj.ref id = root <;> cases hl : enumItems nd.kind 0 nd.items <;> simp [hroot, hl, regOf, srcLoop]

theorem srcLoop_exit (c : HCfg) (h : Heap) (root : Obj) (n : Nat) (ent : List Obj) (val : Option Obj) (s s1 : HSt)
    (k : Key) (old new : Nat) (kd : Kind) (rest : List HFrame) (p : Path) (items : List (Key × Obj))
    (nr : List (Path × List (Key × Obj)))
    (hs : s.stack = .exit k old new kd :: rest) (he : s.err = none) (hn : s.nis = (p, items) :: nr)
    (hnew : s.out[new]? = some ⟨kd, []⟩) (hstep1 : hstep c h root s = some s1) :
    srcLoop c h root (n + 1) ent s.nis s.path (regOf s.reg) (s.stack.map frameOf) val s.out =
      contFrom c h root n ent s1 := by
  simp only [srcLoop, hs, hn, List.map_cons, frameOf]
  rw [remap_loop.loop1]
  simp only [src_default_exit_eq_model _ _ _ _ _ _ _ hnew, visitOf, contFrom]
  cases nr with
  | nil =>
    simp [hstep, hs, he, hn] at hstep1
    subst hstep1
    simp [he, regOf, srcLoop]
  | cons x nr2 =>
    obtain ⟨pp, acc⟩ := x
    simp [hstep, hs, he, hn] at hstep1
    subst hstep1
    simp only [finishItem, appendItem]
    cases hv : c.vf (exitNode kd new items s.out).1 p k (exitNode kd new items s.out).2 <;> cases hr : c.reraise <;>
      simp [he, hv, hr, srcLoop, Exc.isA, regOf]

/-- the same with an arbitrary `entered` list and last `value` (they do not influence the iteration) -/
def contFromV (c : HCfg) (h : Heap) (root : Obj) (n : Nat) (ent : List Obj) (v1 : Option Obj) (s1 : HSt) :=
  match s1.err with
  | none => srcLoop c h root n ent s1.nis s1.path (regOf s1.reg) (s1.stack.map frameOf) v1 s1.out
  | some .typeError => .error .TypeError
  | some .visitError => .error .Other

theorem contFrom_eq (c : HCfg) (h : Heap) (root : Obj) (n : Nat) (ent : List Obj) (s1 : HSt) :
    contFrom c h root n ent s1 = contFromV c h root n ent (some s1.value) s1 := rfl

/-- what an exit entry on top of the stack needs: its blank container is still blank and it has its frame of
    collected items (an invariant of the machine: `LoopInv` below) -/
def StepOK (s : HSt) : Prop :=
  ∀ k old new kd rest, s.stack = .exit k old new kd :: rest → s.out[new]? = some ⟨kd, []⟩ ∧ s.nis ≠ []

/-- ONE ITERATION OF THE SOURCE LOOP IS ONE `hstep`: from the source state that corresponds to the model state `s`
    (work stack `frameOf`, registry `regOf`, same path / collected items / rebuilt heap; ANY `entered` list and last
    value), `n + 1` iterations of the translated `while stack:` loop - with the translated `default_enter` /
    `default_exit` and the model's visit callback - are: finished (empty stack), or `n` iterations from the state
    corresponding to `hstep`'s, or the exception for the error `hstep` records.  When the stack becomes empty the
    source's `value` is the model's. -/
theorem src_remap_loop_simulates_hstep (c : HCfg) (h : Heap) (root : Obj) (n : Nat) (ent : List Obj)
    (val : Option Obj) (s : HSt) (he : s.err = none) (hok : StepOK s) :
    match hstep c h root s with
    | none => srcLoop c h root (n + 1) ent s.nis s.path (regOf s.reg) (s.stack.map frameOf) val s.out
        = .ok ((ent, s.nis, s.path, regOf s.reg, [], val), s.out)
    | some s1 => ∃ ent1 v1, (s1.stack = [] → v1 = some s1.value) ∧
        srcLoop c h root (n + 1) ent s.nis s.path (regOf s.reg) (s.stack.map frameOf) val s.out
          = contFromV c h root n ent1 v1 s1 := by
  cases hst : s.stack with
  | nil =>
    have : hstep c h root s = none := by simp [hstep, he, hst]
    rw [this]
    simp only [srcLoop, List.map_nil]
    rw [remap_loop.loop1]
  | cons fr rest =>
    cases fr with
    | item k o =>
      cases o with
      | atom a =>
        have hh : hstep c h root s = some (finishItem c { s with trace := s.trace ++ [.enter s.path k (.atom a) false] }
            rest k (.atom a) (.atom a)) := by simp [hstep, he, hst]
        rw [hh]
        exact ⟨ent, _, fun _ => rfl, by rw [← hst, srcLoop_item_atom c h root n ent val s k a rest hst he, contFrom_eq]⟩
      | ref id =>
        cases hreg : lookup id s.reg with
        | some v =>
          have hh : hstep c h root s = some (finishItem c s rest k (.ref id) v) := by simp [hstep, he, hst, hreg]
          rw [hh]
          exact ⟨ent, _, fun _ => rfl,
            by rw [← hst, srcLoop_item_registered c h root n ent val s k id v rest hst he hreg, contFrom_eq]⟩
        | none =>
          cases hnd : h[id]? with
          | none =>
            have hh : hstep c h root s = some (finishItem c
                { s with trace := s.trace ++ [.enter s.path k (.ref id) false] } rest k (.ref id) (.ref id)) := by
              simp [hstep, he, hst, hreg, hnd]
            rw [hh]
            exact ⟨ent, _, fun _ => rfl,
              by rw [← hst, srcLoop_item_dangling c h root n ent val s k id rest hst he hreg hnd, contFrom_eq]⟩
          | some nd =>
            have hh := srcLoop_item_enter c h root n ent val s k id nd rest hst he hreg hnd
            have hh2 : hstep c h root s = some { s with
                stack := itemFrames (enumItems nd.kind 0 nd.items) ++ (.exit k id s.out.length nd.kind :: rest),
                path := if Obj.ref id = root then s.path else s.path ++ [k],
                reg := (id, .ref s.out.length) :: s.reg,
                nis := (s.path, []) :: s.nis,
                out := s.out ++ [⟨nd.kind, []⟩],
                trace := s.trace ++ [.enter s.path k (.ref id) true] } := by
              simp [hstep, he, hst, hreg, hnd]
            rw [hh2]
            refine ⟨ent ++ [.ref id], some (.ref id), by simp, ?_⟩
            rw [← hst, hh]
            simp [contFromV, he]
    | exit k old new kd =>
      obtain ⟨hnew, hnis⟩ := hok k old new kd rest hst
      cases hn : s.nis with
      | nil => exact absurd hn hnis
      | cons x nr =>
        obtain ⟨p, items⟩ := x
        cases hh : hstep c h root s with
        | none => simp [hstep, he, hst, hn] at hh; cases nr <;> simp at hh
        | some s1 =>
          exact ⟨ent, _, fun _ => rfl,
            by rw [← hst, ← hn, srcLoop_exit c h root n ent val s s1 k old new kd rest p items nr hst he hn hnew hh,
              contFrom_eq]⟩

end C08
