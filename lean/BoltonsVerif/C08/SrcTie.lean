import BoltonsVerif.Generated.Src_iterutils_remap
import BoltonsVerif.C08.SrcTieOps
/-
C08 — source-translator tie for the callbacks of `boltons.iterutils.remap` and for `get_path` (round 3e).

`Src.iterutils.default_visit / default_enter / default_exit / get_path` are regenerated from the Python source on
every run (harness/py2lean_c08.py, OBJECT-GRAPH MODE): definitions over an abstract object store with every
duck-typed operation a field of the parameter record `PyRtC08.Ops σ V K`.

This file
  1. takes the meaning of the declared operations on the heap of the C08 model from `SrcTieOps.lean` (`gOps rd`: objects are `C08.Obj`,
     the store is a `C08.Heap`; `rd` says which heap READS go to - the store itself (`gOps id`, the single Python
     heap: this instance is what the translator self-test runs against CPython) or a fixed input heap
     (`gOps (fun _ => hin)`: the model keeps the traversed graph `h` and the rebuilt graph `out` apart));
  2. proves that under this meaning the generated definitions ARE the pieces the heap-level machine `hstep` of
     Model.lean is made of: `default_enter` = the allocation / item list of the `.item` step, `default_exit` =
     `exitNode`, `default_visit` = `Visit.keep`, `get_path` = `hgetPath`.

Proof style: specification lemmas for the operations + `simp` with the generated definitions as simp set and a
leaf-wise case analysis; nothing follows the statement order of the source.
-/
namespace C08
open PyRtC08 Src.iterutils

/-! ## 2. specification lemmas -/

theorem enumItems_dict (i : Nat) (l : List (Key × Obj)) : enumItems .dict i l = l := by
  induction l generalizing i with
  | nil => rfl
  | cons x r ih => obtain ⟨k, o⟩ := x; simp [enumItems, effKey, ih]

theorem enumItems_seq (kd : Kind) (hk : kd ≠ .dict) (i : Nat) (l : List (Key × Obj)) :
    enumItems kd i l = pyEnumerate i (l.map Prod.snd) := by
  induction l generalizing i with
  | nil => rfl
  | cons x r ih => obtain ⟨k, o⟩ := x; simp [enumItems, effKey, hk, pyEnumerate, ih]

theorem lookupKey_pyEnumerate_int (l : List Obj) (j : Nat) (i : Int) (hi : (j : Int) ≤ i) :
    lookupKey (.int i) (pyEnumerate j l) = l[(i - j).toNat]? := by
  induction l generalizing j with
  | nil => simp [pyEnumerate, lookupKey]
  | cons o r ih =>
    simp only [pyEnumerate, lookupKey]
    by_cases h : (j : Int) = i
    · subst h; simp
    · have h2 : ((j + 1 : Nat) : Int) ≤ i := by omega
      have h3 : ¬ (Atom.int (j : Int) = Atom.int i) := by
        intro hc; injection hc with hc; exact h hc
      rw [if_neg h3, ih (j + 1) h2]
      have : (i - (j : Int)).toNat = (i - ((j + 1 : Nat) : Int)).toNat + 1 := by omega
      rw [this]; simp

theorem lookupKey_pyEnumerate_nonint (l : List Obj) (j : Nat) (seg : Atom) (hs : ∀ i, seg ≠ .int i) :
    lookupKey seg (pyEnumerate j l) = none := by
  induction l generalizing j with
  | nil => rfl
  | cons o r ih =>
    simp only [pyEnumerate, lookupKey]
    rw [if_neg (fun hc => hs _ hc.symm), ih]

/-- the path segments the model is exact for: non-negative ints, strings that are not numerals, `None` -/
def PlainSeg : Atom → Prop
  | .int i => 0 ≤ i
  | .str s => s.toInt? = none
  | .none => True
  | _ => False

/-- on plain segments the declared `cur[seg]` is the model's `hgetChild`, and it fails with one of the
    three lookup errors -/
theorem getitemH_eq_hgetChild (h : Heap) (cur : Obj) (seg : Atom) (hp : PlainSeg seg) :
    (∀ v, hgetChild h cur seg = some v → getitemH h cur seg = .ok v) ∧
    (hgetChild h cur seg = none →
      ∃ e, getitemH h cur seg = .error e ∧ (e = .KeyError ∨ e = .IndexError ∨ e = .TypeError)) := by
  cases cur with
  | atom a => simp [hgetChild, getitemH, nodeOf]
  | ref id =>
    simp only [hgetChild, getitemH, nodeOf]
    cases hn : h[id]? with
    | none => simp
    | some nd =>
      obtain ⟨kd, items⟩ := nd
      cases kd with
      | dict =>
        simp only [Kind.isSet, enumItems_dict]
        cases hl : lookupKey seg items <;> simp
      | set => simp [Kind.isSet]
      | fset => simp [Kind.isSet]
      | list =>
        simp only [Kind.isSet, enumItems_seq .list (by decide)]
        cases seg with
        | int i =>
          have hi : 0 ≤ i := hp
          have := lookupKey_pyEnumerate_int (items.map Prod.snd) 0 i (by simpa using hi)
          rw [show i - ((0 : Nat) : Int) = i by omega] at this
          simp only [Bool.false_eq_true, if_false, this, seqIndex, hi, if_true]
          cases (items.map Prod.snd)[i.toNat]? <;> simp
        | str s => simp [lookupKey_pyEnumerate_nonint]
        | none => simp [lookupKey_pyEnumerate_nonint]
        | bool b => exact absurd hp (by simp [PlainSeg])
        | bytes b => exact absurd hp (by simp [PlainSeg])
        | float t => exact absurd hp (by simp [PlainSeg])
        | other n => exact absurd hp (by simp [PlainSeg])
      | tuple =>
        simp only [Kind.isSet, enumItems_seq .tuple (by decide)]
        cases seg with
        | int i =>
          have hi : 0 ≤ i := hp
          have := lookupKey_pyEnumerate_int (items.map Prod.snd) 0 i (by simpa using hi)
          rw [show i - ((0 : Nat) : Int) = i by omega] at this
          simp only [Bool.false_eq_true, if_false, this, seqIndex, hi, if_true]
          cases (items.map Prod.snd)[i.toNat]? <;> simp
        | str s => simp [lookupKey_pyEnumerate_nonint]
        | none => simp [lookupKey_pyEnumerate_nonint]
        | bool b => exact absurd hp (by simp [PlainSeg])
        | bytes b => exact absurd hp (by simp [PlainSeg])
        | float t => exact absurd hp (by simp [PlainSeg])
        | other n => exact absurd hp (by simp [PlainSeg])

/-- `int(seg)` of a plain segment gives the segment back or fails with ValueError / TypeError -/
theorem atomToInt_plain (seg : Atom) (hp : PlainSeg seg) :
    atomToInt seg = .ok seg ∨ atomToInt seg = .error .ValueError ∨ atomToInt seg = .error .TypeError := by
  cases seg with
  | int i => simp [atomToInt]
  | str s => have : s.toInt? = none := hp; simp [atomToInt, this]
  | none => simp [atomToInt]
  | bool b => exact absurd hp (by simp [PlainSeg])
  | bytes b => exact absurd hp (by simp [PlainSeg])
  | float t => exact absurd hp (by simp [PlainSeg])
  | other n => exact absurd hp (by simp [PlainSeg])

/-! ## 3. `default_visit` -/

/-- the translated `default_visit` returns `(key, value)` and leaves the store alone … -/
theorem src_default_visit_eq_model {σ V K : Type} (O : Ops σ V K) (s : σ) (p : List K) (k : K) (v : V) :
    default_visit O s p k v = .ok ((k, v), s) := by
  simp [default_visit]

/-- … so as a `visit` callback of the model it is `keep`: `remap` appends `(key, value)` -/
theorem src_default_visit_is_keep (O : Ops Heap Obj Atom) (s : Heap) (p : Path) (k : Key) (v : Obj) :
    applyVisit (fun p k v => match default_visit O s p k v with
      | .ok ((k2, v2), _) => Visit.repl k2 v2
      | .error _ => Visit.raise) p k v = applyVisit (fun _ _ _ => Visit.keep) p k v := by
  simp [default_visit, applyVisit]

example : default_visit (gOps id) [] [] (.int 3) (.atom .none) = .ok ((.int 3, .atom .none), []) := by rfl

/-! ## 4. `default_enter` = what the `.item` step of `hstep` does with a value -/

/-- the model's reading of `enter` on the input heap `hin` with the rebuilt heap `out` -/
def enterModel (hin out : Heap) (o : Obj) : EnterRes Obj Atom × Heap :=
  match nodeOf hin o with
  | none => ((o, none), out)
  | some nd => ((.ref out.length, some (enumItems nd.kind 0 nd.items)), out ++ [⟨nd.kind, []⟩])

theorem src_default_enter_eq_model (hin out : Heap) (p : Path) (k : Key) (o : Obj) :
    default_enter (gOps fun _ => hin) out p k o = .ok (enterModel hin out o) := by
  unfold enterModel
  cases hn : nodeOf hin o with
  | none =>
    cases o with
    | atom a => cases a <;> simp [default_enter, gOps, isStrBytesA, kindIn, nodeOf]
    | ref id => simp_all [default_enter, gOps, isStrBytesA, kindIn, nodeOf]
  | some nd =>
    obtain ⟨kd, items⟩ := nd
    cases o with
    | atom a => simp [nodeOf] at hn
    | ref id =>
      cases kd <;>
        simp [default_enter, gOps, isStrBytesA, kindIn, hn, Kind.isSet, enumItems_dict, enumItems_seq]

/-- the same on the single Python heap (`gOps id`: the instance the self-test runs against CPython), for an
    object of the store -/
theorem src_default_enter_single_heap (h : Heap) (p : Path) (k : Key) (o : Obj)
    (hin : ∀ id, o = .ref id → id < h.length) :
    default_enter (gOps id) h p k o = .ok (enterModel h h o) := by
  unfold enterModel
  cases hn : nodeOf h o with
  | none =>
    cases o with
    | atom a => cases a <;> simp [default_enter, gOps, isStrBytesA, kindIn, nodeOf]
    | ref id => simp_all [default_enter, gOps, isStrBytesA, kindIn, nodeOf]
  | some nd =>
    obtain ⟨kd, items⟩ := nd
    cases o with
    | atom a => simp [nodeOf] at hn
    | ref id =>
      have hlt := hin id rfl
      have hn2 : nodeOf (h ++ [⟨kd, []⟩]) (.ref id) = some ⟨kd, items⟩ := by
        simp only [nodeOf] at hn ⊢
        rw [List.getElem?_append_left hlt]; exact hn
      cases kd <;>
        simp_all [default_enter, gOps, isStrBytesA, kindIn, Kind.isSet, enumItems_dict, enumItems_seq]

/-- the `.item` step of the heap-level machine, for a container met for the first time, expressed through the
    translated `default_enter`: new stack frames, rebuilt heap and registry entry are what the source returns -/
theorem src_default_enter_drives_hstep (c : HCfg) (h : Heap) (root : Obj) (s : HSt) (k : Key) (id : Nat)
    (rest : List HFrame) (nd : Node) (hs : s.stack = .item k (.ref id) :: rest) (he : s.err = none)
    (hreg : lookup id s.reg = none) (hnd : h[id]? = some nd) :
    ∃ np items out2, default_enter (gOps fun _ => h) s.out s.path k (.ref id) = .ok ((np, some items), out2) ∧
      hstep c h root s = some { s with
        stack := itemFrames items ++ (.exit k id s.out.length nd.kind :: rest),
        path := if Obj.ref id = root then s.path else s.path ++ [k],
        reg := (id, np) :: s.reg, nis := (s.path, []) :: s.nis, out := out2,
        trace := s.trace ++ [.enter s.path k (.ref id) true] } := by
  refine ⟨.ref s.out.length, enumItems nd.kind 0 nd.items, s.out ++ [⟨nd.kind, []⟩], ?_, ?_⟩
  · rw [src_default_enter_eq_model]; simp [enterModel, nodeOf, hnd]
  · simp [hstep, hs, he, hreg, hnd]

example : default_enter (gOps fun _ => [⟨.list, [(.none, .atom (.int 7))]⟩]) [] [] .none (.ref 0)
    = .ok ((.ref 0, some [(.int 0, .atom (.int 7))]), [⟨.list, []⟩]) := by rfl

/-! ## 5. `default_exit` = `exitNode` -/

theorem src_default_exit_eq_model (out : Heap) (p : Path) (k : Key) (old : Obj) (new : Nat) (kd : Kind)
    (items : List (Key × Obj)) (hnew : out[new]? = some ⟨kd, []⟩) :
    default_exit (gOps id) out p k old (.ref new) items
      = .ok ((exitNode kd new items out).2, (exitNode kd new items out).1) := by
  cases kd <;>
    simp [default_exit, gOps, isStrBytesA, kindIn, nodeOf, hnew, Kind.isSet, exitNode, Kind.isMutable, buildItems,
      Exc.isA, renumber, List.map_map, Function.comp_def]

/-- the `.exit` step of the heap-level machine expressed through the translated `default_exit`: the value handed
    on, the registry entry of the old parent and the rebuilt heap are what the SOURCE returns (hyp.: the new
    parent is still the blank container created at enter time) -/
theorem src_default_exit_drives_hstep (c : HCfg) (h : Heap) (root : Obj) (s : HSt) (k : Key) (old new : Nat)
    (kd : Kind) (rest : List HFrame) (p : Path) (items : List (Key × Obj)) (nr : List (Path × List (Key × Obj)))
    (hs : s.stack = .exit k old new kd :: rest) (he : s.err = none) (hn : s.nis = (p, items) :: nr)
    (hnew : s.out[new]? = some ⟨kd, []⟩) :
    ∃ ret out2, default_exit (gOps id) s.out p k (.ref old) (.ref new) items = .ok (ret, out2) ∧
      hstep c h root s = some (match nr with
        | [] => { s with stack := rest, path := p, nis := [], out := out2, value := ret,
                         reg := (old, ret) :: s.reg, trace := s.trace ++ [.exit old] }
        | _ :: _ => finishItem c { s with stack := rest, path := p, nis := nr, out := out2, value := ret,
                                          reg := (old, ret) :: s.reg, trace := s.trace ++ [.exit old] }
                      rest k (.ref old) ret) := by
  refine ⟨(exitNode kd new items s.out).2, (exitNode kd new items s.out).1,
    src_default_exit_eq_model s.out p k (.ref old) new kd items hnew, ?_⟩
  cases nr <;> simp [hstep, hs, he, hn]

/-- a scalar as new parent: the source raises `RuntimeError` (the model never gets there) -/
theorem src_default_exit_scalar (out : Heap) (p : Path) (k : Key) (old : Obj) (i : Int)
    (items : List (Key × Obj)) :
    default_exit (gOps id) out p k old (.atom (.int i)) items = .error .RuntimeError := by
  simp [default_exit, gOps, isStrBytesA, kindIn, nodeOf]

example : default_exit (gOps id) [⟨.tuple, []⟩] [] .none (.atom .none) (.ref 0) [(.int 0, .atom (.int 7))]
    = .ok (.ref 1, [⟨.tuple, []⟩, ⟨.tuple, [(.int 0, .atom (.int 7))]⟩]) := by rfl

/-! ## 6. `get_path` = `hgetPath` -/

/-- specification of the loop, for ANY operations record whose `cur[seg]` / `int(seg)` behave as declared -/
theorem get_path_loop_spec {σ V K : Type} (O : Ops σ V K) (child : V → K → Option V) (walk : V → List K → Option V)
    (hw0 : ∀ v, walk v [] = some v)
    (hw1 : ∀ v seg r c, child v seg = some c → walk v (seg :: r) = walk c r)
    (hw2 : ∀ v seg r, child v seg = none → walk v (seg :: r) = none)
    (root : V) (path0 : List K) (d : Option V) (s : σ) (path : List K)
    (hget : ∀ cur seg, seg ∈ path → (∀ v, child cur seg = some v → O.getitem s cur seg = .ok v) ∧
      (child cur seg = none →
        ∃ e, O.getitem s cur seg = .error e ∧ (e = .KeyError ∨ e = .IndexError ∨ e = .TypeError)))
    (hint : ∀ seg, seg ∈ path → O.toInt seg = .ok seg ∨ O.toInt seg = .error .ValueError ∨ O.toInt seg = .error .TypeError)
    (cur : V) :
    get_path.loop1 O root path0 d path cur s = match walk cur path with
      | some v => .ok (v, s)
      | none => .error .PathAccessError := by
  induction path generalizing cur with
  | nil => simp [get_path.loop1, hw0]
  | cons seg r ih =>
    have ih2 := fun c => ih (fun cur seg hm => hget cur seg (List.mem_cons_of_mem _ hm))
      (fun seg hm => hint seg (List.mem_cons_of_mem _ hm)) c
    have hg := hget cur seg (List.mem_cons_self ..)
    have hi := hint seg (List.mem_cons_self ..)
    cases hc : child cur seg with
    | some v =>
      rw [hw1 _ _ _ _ hc]
      have hg := hg.1 v hc
      simp [get_path.loop1, hg, ih2]
    | none =>
      rw [hw2 _ _ _ hc]
      obtain ⟨e, he, hcls⟩ := hg.2 hc
      rcases hcls with rfl | rfl | rfl <;> rcases hi with hi | hi | hi <;>
        simp [get_path.loop1, he, hi, Exc.isA]

/-- `get_path(root, path[, default])` on the heap: the model's `hgetPath`; a failed lookup is
    `PathAccessError` or the default -/
theorem src_get_path_eq_model (h s : Heap) (root : Obj) (path : Path) (d : Option Obj)
    (hp : ∀ seg, seg ∈ path → PlainSeg seg) :
    get_path (gOps fun _ => h) s root path d = match hgetPath h root path with
      | some v => .ok (v, s)
      | none => match d with
        | none => .error .PathAccessError
        | some dv => .ok (dv, s) := by
  have hl := get_path_loop_spec (gOps fun _ => h) (hgetChild h) (hgetPath h) (fun v => by simp [hgetPath])
    (fun v seg r c hc => by simp [hgetPath, hc]) (fun v seg r hc => by simp [hgetPath, hc]) root path d s path
    (fun cur seg hm => by simpa [gOps] using getitemH_eq_hgetChild h cur seg (hp seg hm))
    (fun seg hm => by simpa [gOps] using atomToInt_plain seg (hp seg hm)) root
  simp only [get_path, hl]
  cases hgetPath h root path with
  | some v => simp
  | none => cases d <;> simp [Exc.isA]

/-- with a default: the model's `getPathD` on heaps -/
theorem src_get_path_default (h s : Heap) (root : Obj) (path : Path) (dv : Obj)
    (hp : ∀ seg, seg ∈ path → PlainSeg seg) :
    get_path (gOps fun _ => h) s root path (some dv) = .ok ((hgetPath h root path).getD dv, s) := by
  rw [src_get_path_eq_model h s root path (some dv) hp]
  cases hgetPath h root path <;> simp

example : get_path (gOps id) [⟨.dict, [(.str "a", .ref 1)]⟩, ⟨.list, [(.none, .atom (.int 7))]⟩] (.ref 0)
    [.str "a", .int 0] none = .ok (.atom (.int 7), [⟨.dict, [(.str "a", .ref 1)]⟩, ⟨.list, [(.none, .atom (.int 7))]⟩]) := by
  rfl
example : get_path (gOps id) [⟨.list, [(.none, .atom (.int 7))]⟩] (.ref 0) [.int 3] none = .error .PathAccessError := by
  rfl
example : PlainSeg .none ∧ PlainSeg (.int 0) := by simp [PlainSeg]

end C08
