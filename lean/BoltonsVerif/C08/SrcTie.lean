import BoltonsVerif.Generated.Src_iterutils_remap
import BoltonsVerif.C08.SrcTieOps
import BoltonsVerif.C08.Props
/-
C08 — source-translator tie for the callbacks of `boltons.iterutils.remap` and for `get_path` (round 3e).

`Src.iterutils.default_visit / default_enter / default_exit / get_path` are regenerated from the Python source on
every run (harness/py2lean_c08.py, OBJECT-GRAPH MODE): definitions over an abstract object store with every
duck-typed operation a field of the parameter record `PyRtC08.Ops σ V K`.

This file
  1. takes the meaning of the declared operations on the heap of the C08 model from `SrcTieOps.lean` (`gOps rd`: objects are `C08.Obj`,
     the store is a `C08.Heap`; `rd` says which heap READS go to - the store itself (`gOps id`, the single Python
     heap: this instance is what the translator self-test runs against CPython) or a fixed input heap
     (`gOps (fun _ => hin)`: the model keeps the traversed graph `h` and the rebuilt graph `out` apart));
  2. proves that under this meaning the generated definitions ARE the pieces the heap-level machine `hstep` of
     Model.lean is made of: `default_enter` = the allocation / item list of the `.item` step, `default_exit` =
     `exitNode`, `default_visit` = `Visit.keep`, `get_path` = `hgetPath`.

Proof style: specification lemmas for the operations + `simp` with the generated definitions as simp set and a
leaf-wise case analysis; nothing follows the statement order of the source.
-/
namespace C08
open PyRtC08 Src.iterutils

/-! ## 2. specification lemmas -/

theorem enumItems_dict_id (i : Nat) (l : List (Key × Obj)) : enumItems .dict i l = l := by
  induction l generalizing i with
  | nil => rfl
  | cons x r ih => obtain ⟨k, o⟩ := x; simp [enumItems, effKey, ih]

theorem enumItems_seq_enum (kd : Kind) (hk : kd ≠ .dict) (i : Nat) (l : List (Key × Obj)) :
    enumItems kd i l = pyEnumerate i (l.map Prod.snd) := by
  induction l generalizing i with
  | nil => rfl
  | cons x r ih => obtain ⟨k, o⟩ := x; simp [enumItems, effKey, hk, pyEnumerate, ih]

theorem lookupKey_pyEnumerate_int (l : List Obj) (j : Nat) (i : Int) (hi : (j : Int) ≤ i) :
    lookupKey (.int i) (pyEnumerate j l) = l[(i - j).toNat]? := by
  induction l generalizing j with
  | nil => simp [pyEnumerate, lookupKey]
  | cons o r ih =>
    simp only [pyEnumerate, lookupKey]
    by_cases h : (j : Int) = i
    · subst h; simp
    · have h2 : ((j + 1 : Nat) : Int) ≤ i := by omega
      have h3 : ¬ (Atom.int (j : Int) = Atom.int i) := by
        intro hc; injection hc with hc; exact h hc
      rw [if_neg h3, ih (j + 1) h2]
      have : (i - (j : Int)).toNat = (i - ((j + 1 : Nat) : Int)).toNat + 1 := by omega
      rw [this]; simp

theorem lookupKey_pyEnumerate_nonint (l : List Obj) (j : Nat) (seg : Atom) (hs : ∀ i, seg ≠ .int i) :
    lookupKey seg (pyEnumerate j l) = none := by
  induction l generalizing j with
  | nil => rfl
  | cons o r ih =>
    simp only [pyEnumerate, lookupKey]
    rw [if_neg (fun hc => hs _ hc.symm), ih]

/-- the path segments the model is exact for: non-negative ints, strings that are not numerals, `None` -/
def PlainSeg : Atom → Prop
  | .int i => 0 ≤ i
  | .str s => s.toInt? = none
  | .none => True
  | _ => False

/-- on plain segments the declared `cur[seg]` is the model's `hgetChild`, and it fails with one of the
    three lookup errors -/
theorem getitemH_eq_hgetChild (h : Heap) (cur : Obj) (seg : Atom) (hp : PlainSeg seg) :
    (∀ v, hgetChild h cur seg = some v → getitemH h cur seg = .ok v) ∧
    (hgetChild h cur seg = none →
      ∃ e, getitemH h cur seg = .error e ∧ (e = .KeyError ∨ e = .IndexError ∨ e = .TypeError)) := by
  cases cur with
  | atom a => simp [hgetChild, getitemH, nodeOf]
  | ref id =>
    simp only [hgetChild, getitemH, nodeOf]
    cases hn : h[id]? with
    | none => simp
    | some nd =>
      obtain ⟨kd, items⟩ := nd
      cases kd with
      | dict =>
        simp only [Kind.isSet, enumItems_dict_id]
        cases hl : lookupKey seg items <;> simp
      | set => simp [Kind.isSet]
      | fset => simp [Kind.isSet]
      | list =>
        simp only [Kind.isSet, enumItems_seq_enum .list (by decide)]
        cases seg with
        | int i =>
          have hi : 0 ≤ i := hp
          have := lookupKey_pyEnumerate_int (items.map Prod.snd) 0 i (by simpa using hi)
          rw [show i - ((0 : Nat) : Int) = i by omega] at this
          simp only [Bool.false_eq_true, if_false, this, seqIndex, hi, if_true]
          cases (items.map Prod.snd)[i.toNat]? <;> simp
        | str s => simp [lookupKey_pyEnumerate_nonint]
        | none => simp [lookupKey_pyEnumerate_nonint]
        | bool b => exact absurd hp (by simp [PlainSeg])
        | bytes b => exact absurd hp (by simp [PlainSeg])
        | float t => exact absurd hp (by simp [PlainSeg])
        | other n => exact absurd hp (by simp [PlainSeg])
      | tuple =>
        simp only [Kind.isSet, enumItems_seq_enum .tuple (by decide)]
        cases seg with
        | int i =>
          have hi : 0 ≤ i := hp
          have := lookupKey_pyEnumerate_int (items.map Prod.snd) 0 i (by simpa using hi)
          rw [show i - ((0 : Nat) : Int) = i by omega] at this
          simp only [Bool.false_eq_true, if_false, this, seqIndex, hi, if_true]
          cases (items.map Prod.snd)[i.toNat]? <;> simp
        | str s => simp [lookupKey_pyEnumerate_nonint]
        | none => simp [lookupKey_pyEnumerate_nonint]
        | bool b => exact absurd hp (by simp [PlainSeg])
        | bytes b => exact absurd hp (by simp [PlainSeg])
        | float t => exact absurd hp (by simp [PlainSeg])
        | other n => exact absurd hp (by simp [PlainSeg])

/-- `int(seg)` of a plain segment gives the segment back or fails with ValueError / TypeError -/
theorem atomToInt_plain (seg : Atom) (hp : PlainSeg seg) :
    atomToInt seg = .ok seg ∨ atomToInt seg = .error .ValueError ∨ atomToInt seg = .error .TypeError := by
  cases seg with
  | int i => simp [atomToInt]
  | str s => have : s.toInt? = none := hp; simp [atomToInt, this]
  | none => simp [atomToInt]
  | bool b => exact absurd hp (by simp [PlainSeg])
  | bytes b => exact absurd hp (by simp [PlainSeg])
  | float t => exact absurd hp (by simp [PlainSeg])
  | other n => exact absurd hp (by simp [PlainSeg])

/-! ## 3. `default_visit` -/

/-- the translated `default_visit` returns `(key, value)` and leaves the store alone … -/
theorem src_default_visit_eq_model {σ V K : Type} (O : Ops σ V K) (s : σ) (p : List K) (k : K) (v : V) :
    default_visit O s p k v = .ok ((k, v), s) := by
  simp [default_visit]

/-- … so as a `visit` callback of the model it is `keep`: `remap` appends `(key, value)` -/
theorem src_default_visit_is_keep (O : Ops Heap Obj Atom) (s : Heap) (p : Path) (k : Key) (v : Obj) :
    applyVisit (fun p k v => match default_visit O s p k v with
      | .ok ((k2, v2), _) => Visit.repl k2 v2
      | .error _ => Visit.raise) p k v = applyVisit (fun _ _ _ => Visit.keep) p k v := by
  simp [default_visit, applyVisit]

example : default_visit (gOps id) [] [] (.int 3) (.atom .none) = .ok ((.int 3, .atom .none), []) := by rfl

/-! ## 4. `default_enter` = what the `.item` step of `hstep` does with a value -/

/-- the model's reading of `enter` on the input heap `hin` with the rebuilt heap `out` -/
def enterModel (hin out : Heap) (o : Obj) : EnterRes Obj Atom × Heap :=
  match nodeOf hin o with
  | none => ((o, none), out)
  | some nd => ((.ref out.length, some (enumItems nd.kind 0 nd.items)), out ++ [⟨nd.kind, []⟩])

theorem src_default_enter_eq_model (hin out : Heap) (p : Path) (k : Key) (o : Obj) :
    default_enter (gOps fun _ => hin) out p k o = .ok (enterModel hin out o) := by
  unfold enterModel
  cases hn : nodeOf hin o with
  | none =>
    cases o with
    | atom a => cases a <;> simp [default_enter, gOps, isStrBytesA, kindIn, nodeOf]
    | ref id => simp_all [default_enter, gOps, isStrBytesA, kindIn, nodeOf]
  | some nd =>
    obtain ⟨kd, items⟩ := nd
    cases o with
    | atom a => simp [nodeOf] at hn
    | ref id =>
      cases kd <;>
        simp [default_enter, gOps, isStrBytesA, kindIn, hn, Kind.isSet, enumItems_dict_id, enumItems_seq_enum]

/-- the same on the single Python heap (`gOps id`: the instance the self-test runs against CPython), for an
    object of the store -/
theorem src_default_enter_single_heap (h : Heap) (p : Path) (k : Key) (o : Obj)
    (hin : ∀ id, o = .ref id → id < h.length) :
    default_enter (gOps id) h p k o = .ok (enterModel h h o) := by
  unfold enterModel
  cases hn : nodeOf h o with
  | none =>
    cases o with
    | atom a => cases a <;> simp [default_enter, gOps, isStrBytesA, kindIn, nodeOf]
    | ref id => simp_all [default_enter, gOps, isStrBytesA, kindIn, nodeOf]
  | some nd =>
    obtain ⟨kd, items⟩ := nd
    cases o with
    | atom a => simp [nodeOf] at hn
    | ref id =>
      have hlt := hin id rfl
      have hn2 : nodeOf (h ++ [⟨kd, []⟩]) (.ref id) = some ⟨kd, items⟩ := by
        simp only [nodeOf] at hn ⊢
        rw [List.getElem?_append_left hlt]; exact hn
      cases kd <;>
        simp_all [default_enter, gOps, isStrBytesA, kindIn, Kind.isSet, enumItems_dict_id, enumItems_seq_enum]

/-- the `.item` step of the heap-level machine, for a container met for the first time, expressed through the
    translated `default_enter`: new stack frames, rebuilt heap and registry entry are what the source returns -/
theorem src_default_enter_drives_hstep (c : HCfg) (h : Heap) (root : Obj) (s : HSt) (k : Key) (id : Nat)
    (rest : List HFrame) (nd : Node) (hs : s.stack = .item k (.ref id) :: rest) (he : s.err = none)
    (hreg : lookup id s.reg = none) (hnd : h[id]? = some nd) :
    ∃ np items out2, default_enter (gOps fun _ => h) s.out s.path k (.ref id) = .ok ((np, some items), out2) ∧
      hstep c h root s = some { s with
        stack := itemFrames items ++ (.exit k id s.out.length nd.kind :: rest),
        path := if Obj.ref id = root then s.path else s.path ++ [k],
        reg := (id, np) :: s.reg, nis := (s.path, []) :: s.nis, out := out2,
        trace := s.trace ++ [.enter s.path k (.ref id) true] } := by
  refine ⟨.ref s.out.length, enumItems nd.kind 0 nd.items, s.out ++ [⟨nd.kind, []⟩], ?_, ?_⟩
  · rw [src_default_enter_eq_model]; simp [enterModel, nodeOf, hnd]
  · simp [hstep, hs, he, hreg, hnd]

example : default_enter (gOps fun _ => [⟨.list, [(.none, .atom (.int 7))]⟩]) [] [] .none (.ref 0)
    = .ok ((.ref 0, some [(.int 0, .atom (.int 7))]), [⟨.list, []⟩]) := by rfl

/-! ## 5. `default_exit` = `exitNode` -/

theorem src_default_exit_eq_model (out : Heap) (p : Path) (k : Key) (old : Obj) (new : Nat) (kd : Kind)
    (items : List (Key × Obj)) (hnew : out[new]? = some ⟨kd, []⟩) :
    default_exit (gOps id) out p k old (.ref new) items
      = .ok ((exitNode kd new items out).2, (exitNode kd new items out).1) := by
  cases kd <;>
    simp [default_exit, gOps, isStrBytesA, kindIn, nodeOf, hnew, Kind.isSet, exitNode, Kind.isMutable, buildItems,
      Exc.isA, renumber, List.map_map, Function.comp_def]

/-- the `.exit` step of the heap-level machine expressed through the translated `default_exit`: the value handed
    on, the registry entry of the old parent and the rebuilt heap are what the SOURCE returns (hyp.: the new
    parent is still the blank container created at enter time) -/
theorem src_default_exit_drives_hstep (c : HCfg) (h : Heap) (root : Obj) (s : HSt) (k : Key) (old new : Nat)
    (kd : Kind) (rest : List HFrame) (p : Path) (items : List (Key × Obj)) (nr : List (Path × List (Key × Obj)))
    (hs : s.stack = .exit k old new kd :: rest) (he : s.err = none) (hn : s.nis = (p, items) :: nr)
    (hnew : s.out[new]? = some ⟨kd, []⟩) :
    ∃ ret out2, default_exit (gOps id) s.out p k (.ref old) (.ref new) items = .ok (ret, out2) ∧
      hstep c h root s = some (match nr with
        | [] => { s with stack := rest, path := p, nis := [], out := out2, value := ret,
                         reg := (old, ret) :: s.reg, trace := s.trace ++ [.exit old] }
        | _ :: _ => finishItem c { s with stack := rest, path := p, nis := nr, out := out2, value := ret,
                                          reg := (old, ret) :: s.reg, trace := s.trace ++ [.exit old] }
                      rest k (.ref old) ret) := by
  refine ⟨(exitNode kd new items s.out).2, (exitNode kd new items s.out).1,
    src_default_exit_eq_model s.out p k (.ref old) new kd items hnew, ?_⟩
  cases nr <;> simp [hstep, hs, he, hn]

/-- a scalar as new parent: the source raises `RuntimeError` (the model never gets there) -/
theorem src_default_exit_scalar (out : Heap) (p : Path) (k : Key) (old : Obj) (i : Int)
    (items : List (Key × Obj)) :
    default_exit (gOps id) out p k old (.atom (.int i)) items = .error .RuntimeError := by
  simp [default_exit, gOps, isStrBytesA, kindIn, nodeOf]

example : default_exit (gOps id) [⟨.tuple, []⟩] [] .none (.atom .none) (.ref 0) [(.int 0, .atom (.int 7))]
    = .ok (.ref 1, [⟨.tuple, []⟩, ⟨.tuple, [(.int 0, .atom (.int 7))]⟩]) := by rfl

/-! ## 6. `get_path` = `hgetPath` -/

/-- specification of the loop, for ANY operations record whose `cur[seg]` / `int(seg)` behave as declared -/
theorem get_path_loop_spec {σ V K : Type} (O : Ops σ V K) (child : V → K → Option V) (walk : V → List K → Option V)
    (hw0 : ∀ v, walk v [] = some v)
    (hw1 : ∀ v seg r c, child v seg = some c → walk v (seg :: r) = walk c r)
    (hw2 : ∀ v seg r, child v seg = none → walk v (seg :: r) = none)
    (root : V) (path0 : List K) (d : Option V) (s : σ) (path : List K)
    (hget : ∀ cur seg, seg ∈ path → (∀ v, child cur seg = some v → O.getitem s cur seg = .ok v) ∧
      (child cur seg = none →
        ∃ e, O.getitem s cur seg = .error e ∧ (e = .KeyError ∨ e = .IndexError ∨ e = .TypeError)))
    (hint : ∀ seg, seg ∈ path → O.toInt seg = .ok seg ∨ O.toInt seg = .error .ValueError ∨ O.toInt seg = .error .TypeError)
    (cur : V) :
    get_path.loop1 O root path0 d path cur s = match walk cur path with
      | some v => .ok (v, s)
      | none => .error .PathAccessError := by
  induction path generalizing cur with
  | nil => simp [get_path.loop1, hw0]
  | cons seg r ih =>
    have ih2 := fun c => ih (fun cur seg hm => hget cur seg (List.mem_cons_of_mem _ hm))
      (fun seg hm => hint seg (List.mem_cons_of_mem _ hm)) c
    have hg := hget cur seg (List.mem_cons_self ..)
    have hi := hint seg (List.mem_cons_self ..)
    cases hc : child cur seg with
    | some v =>
      rw [hw1 _ _ _ _ hc]
      have hg := hg.1 v hc
      simp [get_path.loop1, hg, ih2]
    | none =>
      rw [hw2 _ _ _ hc]
      obtain ⟨e, he, hcls⟩ := hg.2 hc
      rcases hcls with rfl | rfl | rfl <;> rcases hi with hi | hi | hi <;>
        simp [get_path.loop1, he, hi, Exc.isA]

/-- `get_path(root, path[, default])` on the heap: the model's `hgetPath`; a failed lookup is
    `PathAccessError` or the default -/
theorem src_get_path_eq_model (h s : Heap) (root : Obj) (path : Path) (d : Option Obj)
    (hp : ∀ seg, seg ∈ path → PlainSeg seg) :
    get_path (gOps fun _ => h) s root path d = match hgetPath h root path with
      | some v => .ok (v, s)
      | none => match d with
        | none => .error .PathAccessError
        | some dv => .ok (dv, s) := by
  have hl := get_path_loop_spec (gOps fun _ => h) (hgetChild h) (hgetPath h) (fun v => by simp [hgetPath])
    (fun v seg r c hc => by simp [hgetPath, hc]) (fun v seg r hc => by simp [hgetPath, hc]) root path d s path
    (fun cur seg hm => by simpa [gOps] using getitemH_eq_hgetChild h cur seg (hp seg hm))
    (fun seg hm => by simpa [gOps] using atomToInt_plain seg (hp seg hm)) root
  simp only [get_path, hl]
  cases hgetPath h root path with
  | some v => simp
  | none => cases d <;> simp [Exc.isA]

/-- with a default: the model's `getPathD` on heaps -/
theorem src_get_path_default (h s : Heap) (root : Obj) (path : Path) (dv : Obj)
    (hp : ∀ seg, seg ∈ path → PlainSeg seg) :
    get_path (gOps fun _ => h) s root path (some dv) = .ok ((hgetPath h root path).getD dv, s) := by
  rw [src_get_path_eq_model h s root path (some dv) hp]
  cases hgetPath h root path <;> simp

example : get_path (gOps id) [⟨.dict, [(.str "a", .ref 1)]⟩, ⟨.list, [(.none, .atom (.int 7))]⟩] (.ref 0)
    [.str "a", .int 0] none = .ok (.atom (.int 7), [⟨.dict, [(.str "a", .ref 1)]⟩, ⟨.list, [(.none, .atom (.int 7))]⟩]) := by
  rfl
example : get_path (gOps id) [⟨.list, [(.none, .atom (.int 7))]⟩] (.ref 0) [.int 3] none = .error .PathAccessError := by
  rfl
example : PlainSeg .none ∧ PlainSeg (.int 0) := by simp [PlainSeg]

/-! ## 7. the MAIN LOOP of `remap` (loop mode of harness/py2lean_c08.py)

`Src.iterutils.remap_loop.loop1` is the `while stack:` loop regenerated from the source, with the callbacks as
parameters.  Instantiated with the TRANSLATED `default_enter` (reads on the input heap `h`, allocation in the rebuilt
heap) and `default_exit` (on the rebuilt heap) and with the model's visit callback, one iteration of the source loop
IS one `hstep` of the heap-level machine of Model.lean (`src_remap_loop_simulates_hstep`). -/

/-- a work-stack entry of the model as the source's entry -/
def frameOf : HFrame → PyRtC08.Frame Obj Atom
  | .item k o => .item k o
  | .exit k old new _ => .exit k (.ref new) (.ref old)

/-- the model's registry (input id ↦ rebuilt object) as the source's `registry` (keyed by `id()` = the reference) -/
def regOf (r : List (Nat × Obj)) : List (Obj × Obj) := r.map fun p => (Obj.ref p.1, p.2)

/-- the model's visit callback as a callback of the source loop (a raising visit raises `Exc.Other`) -/
def visitOf (c : HCfg) : PyRtC08.VisitFn Heap Obj Atom := fun s p k v =>
  match c.vf s p k v with
  | .keep => .ok (.true_, s)
  | .drop => .ok (.false_, s)
  | .repl k2 v2 => .ok (.pair k2 v2, s)
  | .raise => .error .Other

/-- the translated loop with the translated default callbacks and the model's visit -/
abbrev srcLoop (c : HCfg) (h : Heap) (root : Obj) :=
  remap_loop.loop1 root (visitOf c) (default_enter (gOps fun _ => h)) (default_exit (gOps id)) false c.reraise Atom.none

theorem regLookup_regOf_ref (r : List (Nat × Obj)) (id : Nat) : regLookup (regOf r) (.ref id) = lookup id r := by
  induction r with
  | nil => rfl
  | cons x r ih => obtain ⟨j, o⟩ := x; simp [regOf, regLookup, lookup] at ih ⊢; split <;> simp_all [regOf]

theorem regLookup_regOf_atom (r : List (Nat × Obj)) (a : Atom) : regLookup (regOf r) (.atom a) = none := by
  induction r with
  | nil => rfl
  | cons x r ih => obtain ⟨j, o⟩ := x; simp [regOf, regLookup] at ih ⊢; exact ih

/-- how the source loop goes on with `n` more iterations from the model state `s1` reached by one step: it continues
    from the corresponding source state, or the error recorded by the model is the exception the source raised -/
def contFrom (c : HCfg) (h : Heap) (root : Obj) (n : Nat) (ent : List Obj) (s1 : HSt) :=
  match s1.err with
  | none => srcLoop c h root n ent s1.nis s1.path (regOf s1.reg) (s1.stack.map frameOf) (some s1.value) s1.out
  | some .typeError => .error .TypeError
  | some .visitError => .error .Other

set_option hygiene false in
local macro "finish_cases" c:term "," o:term : tactic => `(tactic| (
  cases hv : HCfg.vf $c s.out s.path k $o <;> cases hn : s.nis <;> cases hr : HCfg.reraise $c <;>
    simp [he, hv, hn, hr, srcLoop, Exc.isA]))

theorem srcLoop_item_atom (c : HCfg) (h : Heap) (root : Obj) (n : Nat) (ent : List Obj) (val : Option Obj) (s : HSt)
    (k : Key) (a : Atom) (rest : List HFrame) (hs : s.stack = .item k (.atom a) :: rest) (he : s.err = none) :
    srcLoop c h root (n + 1) ent s.nis s.path (regOf s.reg) (s.stack.map frameOf) val s.out =
      contFrom c h root n ent
        (finishItem c { s with trace := s.trace ++ [.enter s.path k (.atom a) false] } rest k (.atom a) (.atom a)) := by
  simp only [srcLoop, hs, List.map_cons, frameOf]
  rw [remap_loop.loop1]
  simp only [regLookup_regOf_atom, src_default_enter_eq_model, enterModel, nodeOf, visitOf, finishItem, appendItem, contFrom]
  finish_cases c, (Obj.atom a)

theorem srcLoop_item_registered (c : HCfg) (h : Heap) (root : Obj) (n : Nat) (ent : List Obj) (val : Option Obj) (s : HSt)
    (k : Key) (id : Nat) (v : Obj) (rest : List HFrame) (hs : s.stack = .item k (.ref id) :: rest) (he : s.err = none)
    (hreg : lookup id s.reg = some v) :
    srcLoop c h root (n + 1) ent s.nis s.path (regOf s.reg) (s.stack.map frameOf) val s.out =
      contFrom c h root n ent (finishItem c s rest k (.ref id) v) := by
  simp only [srcLoop, hs, List.map_cons, frameOf]
  rw [remap_loop.loop1]
  simp only [regLookup_regOf_ref, hreg, regGet, visitOf, finishItem, appendItem, contFrom]
  finish_cases c, v

theorem srcLoop_item_dangling (c : HCfg) (h : Heap) (root : Obj) (n : Nat) (ent : List Obj) (val : Option Obj) (s : HSt)
    (k : Key) (id : Nat) (rest : List HFrame) (hs : s.stack = .item k (.ref id) :: rest) (he : s.err = none)
    (hreg : lookup id s.reg = none) (hnd : h[id]? = none) :
    srcLoop c h root (n + 1) ent s.nis s.path (regOf s.reg) (s.stack.map frameOf) val s.out =
      contFrom c h root n ent
        (finishItem c { s with trace := s.trace ++ [.enter s.path k (.ref id) false] } rest k (.ref id) (.ref id)) := by
  simp only [srcLoop, hs, List.map_cons, frameOf]
  rw [remap_loop.loop1]
  simp only [regLookup_regOf_ref, hreg, src_default_enter_eq_model, enterModel, nodeOf, hnd, visitOf, finishItem,
    appendItem, contFrom]
  finish_cases c, (Obj.ref id)

theorem map_frameOf_itemFrames (l : List (Key × Obj)) :
    (itemFrames l).map frameOf = l.map fun kv => PyRtC08.Frame.item kv.1 kv.2 := by
  simp [itemFrames, frameOf, List.map_map, Function.comp_def]

theorem srcLoop_item_enter (c : HCfg) (h : Heap) (root : Obj) (n : Nat) (ent : List Obj) (val : Option Obj) (s : HSt)
    (k : Key) (id : Nat) (nd : Node) (rest : List HFrame) (hs : s.stack = .item k (.ref id) :: rest) (he : s.err = none)
    (hreg : lookup id s.reg = none) (hnd : h[id]? = some nd) :
    srcLoop c h root (n + 1) ent s.nis s.path (regOf s.reg) (s.stack.map frameOf) val s.out =
      srcLoop c h root n (ent ++ [.ref id]) ((s.path, []) :: s.nis) (if Obj.ref id = root then s.path else s.path ++ [k])
        (regOf ((id, .ref s.out.length) :: s.reg))
        ((itemFrames (enumItems nd.kind 0 nd.items) ++ (.exit k id s.out.length nd.kind :: rest)).map frameOf)
        (some (.ref id)) (s.out ++ [⟨nd.kind, []⟩]) := by
  simp only [srcLoop, hs, List.map_cons, frameOf, List.map_append, map_frameOf_itemFrames]
  rw [remap_loop.loop1]
  simp only [regLookup_regOf_ref, hreg, src_default_enter_eq_model, enterModel, nodeOf, hnd]
  by_cases hroot : Obj.ref id = root <;> cases hl : enumItems nd.kind 0 nd.items <;> simp [hroot, hl, regOf, srcLoop]

theorem srcLoop_exit (c : HCfg) (h : Heap) (root : Obj) (n : Nat) (ent : List Obj) (val : Option Obj) (s s1 : HSt)
    (k : Key) (old new : Nat) (kd : Kind) (rest : List HFrame) (p : Path) (items : List (Key × Obj))
    (nr : List (Path × List (Key × Obj)))
    (hs : s.stack = .exit k old new kd :: rest) (he : s.err = none) (hn : s.nis = (p, items) :: nr)
    (hnew : s.out[new]? = some ⟨kd, []⟩) (hstep1 : hstep c h root s = some s1) :
    srcLoop c h root (n + 1) ent s.nis s.path (regOf s.reg) (s.stack.map frameOf) val s.out =
      contFrom c h root n ent s1 := by
  simp only [srcLoop, hs, hn, List.map_cons, frameOf]
  rw [remap_loop.loop1]
  simp only [src_default_exit_eq_model _ _ _ _ _ _ _ hnew, visitOf, contFrom]
  cases nr with
  | nil =>
    simp [hstep, hs, he, hn] at hstep1
    subst hstep1
    simp [he, regOf, srcLoop]
  | cons x nr2 =>
    obtain ⟨pp, acc⟩ := x
    simp [hstep, hs, he, hn] at hstep1
    subst hstep1
    simp only [finishItem, appendItem]
    cases hv : c.vf (exitNode kd new items s.out).1 p k (exitNode kd new items s.out).2 <;> cases hr : c.reraise <;>
      simp [he, hv, hr, srcLoop, Exc.isA, regOf]

/-- the same with an arbitrary `entered` list and last `value` (they do not influence the iteration) -/
def contFromV (c : HCfg) (h : Heap) (root : Obj) (n : Nat) (ent : List Obj) (v1 : Option Obj) (s1 : HSt) :=
  match s1.err with
  | none => srcLoop c h root n ent s1.nis s1.path (regOf s1.reg) (s1.stack.map frameOf) v1 s1.out
  | some .typeError => .error .TypeError
  | some .visitError => .error .Other

theorem contFrom_eq (c : HCfg) (h : Heap) (root : Obj) (n : Nat) (ent : List Obj) (s1 : HSt) :
    contFrom c h root n ent s1 = contFromV c h root n ent (some s1.value) s1 := rfl

/-- what an exit entry on top of the stack needs: its blank container is still blank and it has its frame of
    collected items (an invariant of the machine: `LoopInv` below) -/
def StepOK (s : HSt) : Prop :=
  ∀ k old new kd rest, s.stack = .exit k old new kd :: rest → s.out[new]? = some ⟨kd, []⟩ ∧ s.nis ≠ []

/-- ONE ITERATION OF THE SOURCE LOOP IS ONE `hstep`: from the source state that corresponds to the model state `s`
    (work stack `frameOf`, registry `regOf`, same path / collected items / rebuilt heap; ANY `entered` list and last
    value), `n + 1` iterations of the translated `while stack:` loop - with the translated `default_enter` /
    `default_exit` and the model's visit callback - are: finished (empty stack), or `n` iterations from the state
    corresponding to `hstep`'s, or the exception for the error `hstep` records.  When the stack becomes empty the
    source's `value` is the model's. -/
theorem src_remap_loop_simulates_hstep (c : HCfg) (h : Heap) (root : Obj) (n : Nat) (ent : List Obj)
    (val : Option Obj) (s : HSt) (he : s.err = none) (hok : StepOK s) :
    match hstep c h root s with
    | none => srcLoop c h root (n + 1) ent s.nis s.path (regOf s.reg) (s.stack.map frameOf) val s.out
        = .ok ((ent, s.nis, s.path, regOf s.reg, [], val), s.out)
    | some s1 => ∃ ent1 v1, (s1.stack = [] → v1 = some s1.value) ∧
        srcLoop c h root (n + 1) ent s.nis s.path (regOf s.reg) (s.stack.map frameOf) val s.out
          = contFromV c h root n ent1 v1 s1 := by
  cases hst : s.stack with
  | nil =>
    have : hstep c h root s = none := by simp [hstep, he, hst]
    rw [this]
    simp only [srcLoop, List.map_nil]
    rw [remap_loop.loop1]
  | cons fr rest =>
    cases fr with
    | item k o =>
      cases o with
      | atom a =>
        have hh : hstep c h root s = some (finishItem c { s with trace := s.trace ++ [.enter s.path k (.atom a) false] }
            rest k (.atom a) (.atom a)) := by simp [hstep, he, hst]
        rw [hh]
        exact ⟨ent, _, fun _ => rfl, by rw [← hst, srcLoop_item_atom c h root n ent val s k a rest hst he, contFrom_eq]⟩
      | ref id =>
        cases hreg : lookup id s.reg with
        | some v =>
          have hh : hstep c h root s = some (finishItem c s rest k (.ref id) v) := by simp [hstep, he, hst, hreg]
          rw [hh]
          exact ⟨ent, _, fun _ => rfl,
            by rw [← hst, srcLoop_item_registered c h root n ent val s k id v rest hst he hreg, contFrom_eq]⟩
        | none =>
          cases hnd : h[id]? with
          | none =>
            have hh : hstep c h root s = some (finishItem c
                { s with trace := s.trace ++ [.enter s.path k (.ref id) false] } rest k (.ref id) (.ref id)) := by
              simp [hstep, he, hst, hreg, hnd]
            rw [hh]
            exact ⟨ent, _, fun _ => rfl,
              by rw [← hst, srcLoop_item_dangling c h root n ent val s k id rest hst he hreg hnd, contFrom_eq]⟩
          | some nd =>
            have hh := srcLoop_item_enter c h root n ent val s k id nd rest hst he hreg hnd
            have hh2 : hstep c h root s = some { s with
                stack := itemFrames (enumItems nd.kind 0 nd.items) ++ (.exit k id s.out.length nd.kind :: rest),
                path := if Obj.ref id = root then s.path else s.path ++ [k],
                reg := (id, .ref s.out.length) :: s.reg,
                nis := (s.path, []) :: s.nis,
                out := s.out ++ [⟨nd.kind, []⟩],
                trace := s.trace ++ [.enter s.path k (.ref id) true] } := by
              simp [hstep, he, hst, hreg, hnd]
            rw [hh2]
            refine ⟨ent ++ [.ref id], some (.ref id), by simp, ?_⟩
            rw [← hst, hh]
            simp [contFromV, he]
    | exit k old new kd =>
      obtain ⟨hnew, hnis⟩ := hok k old new kd rest hst
      cases hn : s.nis with
      | nil => exact absurd hn hnis
      | cons x nr =>
        obtain ⟨p, items⟩ := x
        cases hh : hstep c h root s with
        | none => simp [hstep, he, hst, hn] at hh; cases nr <;> simp at hh
        | some s1 =>
          exact ⟨ent, _, fun _ => rfl,
            by rw [← hst, ← hn, srcLoop_exit c h root n ent val s s1 k old new kd rest p items nr hst he hn hnew hh,
              contFrom_eq]⟩

/-! ### the invariant behind `StepOK`, and whole runs -/

def newOf : HFrame → Option Nat
  | .exit _ _ new _ => some new
  | _ => none

@[simp] theorem filterMap_newOf_item (k : Key) (o : Obj) (l : List HFrame) :
    (HFrame.item k o :: l).filterMap newOf = l.filterMap newOf := rfl
@[simp] theorem filterMap_newOf_exit (k : Key) (old new : Nat) (kd : Kind) (l : List HFrame) :
    (HFrame.exit k old new kd :: l).filterMap newOf = new :: l.filterMap newOf := rfl

theorem lt_of_getElem?_eq_some {α : Type} {l : List α} {i : Nat} {x : α} (h : l[i]? = some x) : i < l.length := by
  rcases Nat.lt_or_ge i l.length with h1 | h1
  · exact h1
  · rw [List.getElem?_eq_none h1] at h; cases h

/-- the blank containers of the exit entries on the stack are blank, pairwise different, and as many as there are
    frames of collected items -/
structure LoopInv (s : HSt) : Prop where
  blank : ∀ k old new kd, HFrame.exit k old new kd ∈ s.stack → s.out[new]? = some ⟨kd, []⟩
  nodup : (s.stack.filterMap newOf).Nodup
  depth : s.err = none → (s.stack.filterMap newOf).length = s.nis.length

theorem LoopInv_init (root : Obj) : LoopInv (hinit root) := by
  constructor <;> simp [hinit, newOf]

theorem LoopInv.stepOK {s : HSt} (hi : LoopInv s) (he : s.err = none) : StepOK s := by
  intro k old new kd rest hst
  refine ⟨hi.blank k old new kd (by simp [hst]), ?_⟩
  have := hi.depth he
  intro hn
  simp [hst, hn, newOf] at this

theorem filterMap_newOf_itemFrames (l : List (Key × Obj)) : (itemFrames l).filterMap newOf = [] := by
  induction l with
  | nil => rfl
  | cons x r ih => simpa [itemFrames] using ih

theorem not_exit_mem_itemFrames (l : List (Key × Obj)) (k : Key) (old new : Nat) (kd : Kind) :
    HFrame.exit k old new kd ∉ itemFrames l := by
  simp [itemFrames]

@[simp] theorem finishItem_stack2 (c : HCfg) (s : HSt) (rest : List HFrame) (k : Key) (src val : Obj) :
    (finishItem c s rest k src val).stack = rest := by
  unfold finishItem; split <;> (try split) <;> simp [appendItem] <;> split <;> simp

@[simp] theorem finishItem_out2 (c : HCfg) (s : HSt) (rest : List HFrame) (k : Key) (src val : Obj) :
    (finishItem c s rest k src val).out = s.out := by
  unfold finishItem; split <;> (try split) <;> simp [appendItem] <;> split <;> simp

theorem finishItem_nis_length (c : HCfg) (s : HSt) (rest : List HFrame) (k : Key) (src val : Obj)
    (he : (finishItem c s rest k src val).err = none) : (finishItem c s rest k src val).nis.length = s.nis.length := by
  unfold finishItem at he ⊢
  split at he <;> (try split at he) <;> simp_all [appendItem] <;> (split at he <;> simp_all)

theorem mem_newOf {k : Key} {old new : Nat} {kd : Kind} {l : List HFrame} (h : HFrame.exit k old new kd ∈ l) :
    new ∈ l.filterMap newOf := by
  simp only [List.mem_filterMap]
  exact ⟨_, h, rfl⟩

/-- a state whose stack is a tail of the old one, same rebuilt heap -/
theorem LoopInv_tail (s s1 : HSt) (fr : HFrame) (rest : List HFrame) (hi : LoopInv s) (hst : s.stack = fr :: rest)
    (h1 : s1.stack = rest) (ho : s1.out = s.out)
    (hd : s1.err = none → (rest.filterMap newOf).length = s1.nis.length) : LoopInv s1 := by
  refine ⟨?_, ?_, ?_⟩
  · intro k old new kd hm
    rw [ho]; exact hi.blank k old new kd (by rw [hst]; exact List.mem_cons_of_mem _ (h1 ▸ hm))
  · rw [h1]
    have := hi.nodup
    rw [hst] at this
    cases fr with
    | item k o => simpa using this
    | exit k old new kd => simp at this; exact this.2
  · rw [h1]; exact hd

theorem exitNode_getElem_ne (kd : Kind) (new : Nat) (items : List (Key × Obj)) (out : Heap) (j : Nat)
    (hne : j ≠ new) (hj : j < out.length) : (exitNode kd new items out).1[j]? = out[j]? := by
  unfold exitNode
  split
  · simp [List.getElem?_set_ne (Ne.symm hne)]
  · simp [List.getElem?_append_left hj]

theorem LoopInv_step (c : HCfg) (h : Heap) (root : Obj) (s s1 : HSt) (hi : LoopInv s)
    (hs : hstep c h root s = some s1) : LoopInv s1 := by
  cases he : s.err with
  | some e => simp [hstep, he] at hs
  | none =>
  cases hst : s.stack with
  | nil => simp [hstep, he, hst] at hs
  | cons fr rest =>
    have hdep := hi.depth he
    cases fr with
    | item k o =>
      have hcount : (rest.filterMap newOf).length = s.nis.length := by simpa [hst, newOf] using hdep
      -- every `.item` case that is not an enter is a `finishItem` on a state with the same stack tail / heap / nis
      have fin : ∀ (s0 : HSt) (src val : Obj), s0.out = s.out → s0.nis = s.nis →
          LoopInv (finishItem c s0 rest k src val) := fun s0 src val ho hn =>
        LoopInv_tail s _ _ rest hi hst (by simp) (by simp [ho])
          (fun he1 => by rw [finishItem_nis_length c s0 rest k src val he1, hn]; exact hcount)
      cases o with
      | atom a => simp [hstep, he, hst] at hs; subst hs; exact fin _ _ _ rfl rfl
      | ref id =>
        cases hreg : lookup id s.reg with
        | some v => simp [hstep, he, hst, hreg] at hs; subst hs; exact fin _ _ _ rfl rfl
        | none =>
          cases hnd : h[id]? with
          | none => simp [hstep, he, hst, hreg, hnd] at hs; subst hs; exact fin _ _ _ rfl rfl
          | some nd =>
            simp [hstep, he, hst, hreg, hnd] at hs; subst hs
            have hlt : ∀ j ∈ rest.filterMap newOf, j < s.out.length := by
              intro j hj
              simp only [List.mem_filterMap] at hj
              obtain ⟨fr, hm, hfr⟩ := hj
              cases fr with
              | item k o => simp [newOf] at hfr
              | exit k2 old new kd =>
                simp [newOf] at hfr; subst hfr
                exact lt_of_getElem?_eq_some (hi.blank k2 old new kd (by rw [hst]; exact List.mem_cons_of_mem _ hm))
            refine ⟨?_, ?_, ?_⟩
            · intro k2 old new kd hm
              simp only [List.mem_append, List.mem_cons] at hm
              rcases hm with hm | hm | hm
              · exact absurd hm (not_exit_mem_itemFrames _ _ _ _ _)
              · injection hm with _ _ h3 h4; subst h3; subst h4; simp
              · have hb := hi.blank k2 old new kd (by rw [hst]; exact List.mem_cons_of_mem _ hm)
                have : new < s.out.length := hlt new (mem_newOf hm)
                simpa [List.getElem?_append_left this] using hb
            · have hnd2 : (rest.filterMap newOf).Nodup := by
                have := hi.nodup; rw [hst] at this; simpa [newOf] using this
              simp only [List.filterMap_append, filterMap_newOf_itemFrames, List.nil_append, List.filterMap_cons, newOf]
              refine List.nodup_cons.2 ⟨fun hm => ?_, hnd2⟩
              exact absurd (hlt _ hm) (by omega)
            · intro _
              simp [List.filterMap_append, filterMap_newOf_itemFrames, newOf, hcount]
    | exit k old new kd =>
      have hcount : (rest.filterMap newOf).length + 1 = s.nis.length := by simpa [hst, newOf] using hdep
      cases hn : s.nis with
      | nil => simp [hn] at hcount
      | cons x nr =>
        obtain ⟨p, items⟩ := x
        have hnd2 : new ∉ rest.filterMap newOf ∧ (rest.filterMap newOf).Nodup := by
          have := hi.nodup; rw [hst] at this; simpa [newOf] using this
        have hcount2 : (rest.filterMap newOf).length = nr.length := by simpa [hn] using hcount
        have hblank : ∀ k2 old2 new2 kd2, HFrame.exit k2 old2 new2 kd2 ∈ rest →
            (exitNode kd new items s.out).1[new2]? = some ⟨kd2, []⟩ := by
          intro k2 old2 new2 kd2 hm
          have hb := hi.blank k2 old2 new2 kd2 (by rw [hst]; exact List.mem_cons_of_mem _ hm)
          have hne : new2 ≠ new := fun hc => hnd2.1 (hc ▸ mem_newOf hm)
          have hlt : new2 < s.out.length := lt_of_getElem?_eq_some hb
          rw [exitNode_getElem_ne kd new items s.out new2 hne hlt]; exact hb
        cases nr with
        | nil =>
          simp [hstep, he, hst, hn] at hs; subst hs
          exact ⟨fun k2 old2 new2 kd2 hm => hblank k2 old2 new2 kd2 hm, hnd2.2, fun _ => by simpa using hcount2⟩
        | cons y nr2 =>
          simp [hstep, he, hst, hn] at hs; subst hs
          refine ⟨?_, ?_, ?_⟩
          · intro k2 old2 new2 kd2 hm
            simp only [finishItem_stack2] at hm
            simpa using hblank k2 old2 new2 kd2 hm
          · simpa using hnd2.2
          · intro he1
            rw [finishItem_nis_length _ _ _ _ _ _ he1]
            simpa using hcount2

theorem hrun_of_stop (c : HCfg) (h : Heap) (root : Obj) (s : HSt) (hs : hstep c h root s = none) (n : Nat) :
    hrun c h root n s = s := by
  cases n <;> simp [hrun, hs]

theorem hrun_of_step (c : HCfg) (h : Heap) (root : Obj) (s s1 : HSt) (hs : hstep c h root s = some s1) (n : Nat) :
    hrun c h root (n + 1) s = hrun c h root n s1 := by
  simp [hrun, hs]

theorem hstep_of_err (c : HCfg) (h : Heap) (root : Obj) (s : HSt) (e : Err) (he : s.err = some e) :
    hstep c h root s = none := by
  simp [hstep, he]

/-- the exception the source raises for an error the model records -/
def excOf : Err → Exc
  | .typeError => .TypeError
  | .visitError => .Other

/-- what `fuel = n + 1` iterations of the translated loop give, in terms of the model's runs `hrun n` / `hrun (n+1)` -/
def LoopResult (c : HCfg) (h : Heap) (root : Obj) (n : Nat) (s : HSt) (val : Option Obj)
    (r : R Heap (List Obj × List (List Atom × List (Atom × Obj)) × List Atom × List (Obj × Obj) ×
      List (PyRtC08.Frame Obj Atom) × Option Obj)) : Prop :=
  match (hrun c h root (n + 1) s).err with
  | some e => r = .error (excOf e)
  | none =>
    if (hrun c h root n s).stack = [] then
      ∃ ent1 v1, r = .ok ((ent1, (hrun c h root n s).nis, (hrun c h root n s).path, regOf (hrun c h root n s).reg, [], v1),
          (hrun c h root n s).out) ∧
        (s.stack ≠ [] → v1 = some (hrun c h root n s).value) ∧ (s.stack = [] → v1 = val)
    else r = .error .OutOfFuel

/-- A WHOLE RUN of the translated loop is the model's `hrun`: the exception for the error the model records within
    `n + 1` steps; else, if the model is done after `n` steps, the source returns with the model's collected items,
    path, registry, rebuilt heap and (after at least one iteration) last value; else the fuel was too small. -/
theorem src_remap_loop_eq_hrun (c : HCfg) (h : Heap) (root : Obj) (n : Nat) :
    ∀ (s : HSt) (ent : List Obj) (val : Option Obj), LoopInv s → s.err = none →
      LoopResult c h root n s val
        (srcLoop c h root (n + 1) ent s.nis s.path (regOf s.reg) (s.stack.map frameOf) val s.out) := by
  induction n with
  | zero =>
    intro s ent val hi he
    have hstp := src_remap_loop_simulates_hstep c h root 0 ent val s he (hi.stepOK he)
    cases hs : hstep c h root s with
    | none =>
      rw [hs] at hstp
      have hnil : s.stack = [] := by
        cases hst : s.stack with
        | nil => rfl
        | cons fr rest =>
          exfalso
          cases fr with
          | item k o =>
            cases o with
            | atom a => simp [hstep, he, hst] at hs
            | ref id =>
              cases hreg : lookup id s.reg <;> cases hnd : h[id]? <;> simp [hstep, he, hst, hreg, hnd] at hs
          | exit k old new kd =>
            cases hn : s.nis with
            | nil => simp [hstep, he, hst, hn] at hs
            | cons x nr => cases nr <;> simp [hstep, he, hst, hn] at hs
      simp only at hstp
      rw [hnil] at hstp
      simp only [LoopResult, hrun_of_stop c h root s hs, he, hnil, if_true]
      exact ⟨ent, val, hstp, by simp, fun _ => rfl⟩
    | some s1 =>
      rw [hs] at hstp
      simp only at hstp
      obtain ⟨ent1, v1, _, heq⟩ := hstp
      have hne : s.stack ≠ [] := by
        intro hnil; simp [hstep, he, hnil] at hs
      have e1 : hrun c h root (0 + 1) s = s1 := by simp [hrun, hs]
      have e0 : hrun c h root 0 s = s := rfl
      simp only [LoopResult, e1, e0]
      rw [heq]
      cases he1 : s1.err with
      | some e => cases e <;> simp [contFromV, he1, excOf]
      | none =>
        simp only [contFromV, he1, hne, if_false]
        simp only [srcLoop]; rw [remap_loop.loop1]
  | succ n ih =>
    intro s ent val hi he
    have hstp := src_remap_loop_simulates_hstep c h root (n + 1) ent val s he (hi.stepOK he)
    cases hs : hstep c h root s with
    | none =>
      rw [hs] at hstp
      have hnil : s.stack = [] := by
        cases hst : s.stack with
        | nil => rfl
        | cons fr rest =>
          exfalso
          cases fr with
          | item k o =>
            cases o with
            | atom a => simp [hstep, he, hst] at hs
            | ref id =>
              cases hreg : lookup id s.reg <;> cases hnd : h[id]? <;> simp [hstep, he, hst, hreg, hnd] at hs
          | exit k old new kd =>
            cases hn : s.nis with
            | nil => simp [hstep, he, hst, hn] at hs
            | cons x nr => cases nr <;> simp [hstep, he, hst, hn] at hs
      simp only at hstp
      rw [hnil] at hstp
      simp only [LoopResult, hrun_of_stop c h root s hs, he, hnil, if_true]
      exact ⟨ent, val, hstp, by simp, fun _ => rfl⟩
    | some s1 =>
      rw [hs] at hstp
      simp only at hstp
      obtain ⟨ent1, v1, hv1, heq⟩ := hstp
      have hne : s.stack ≠ [] := by
        intro hnil; simp [hstep, he, hnil] at hs
      have hi1 := LoopInv_step c h root s s1 hi hs
      simp only [LoopResult, hrun_of_step c h root s s1 hs]
      rw [heq]
      cases he1 : s1.err with
      | some e =>
        have hstop := hstep_of_err c h root s1 e he1
        simp only [hrun_of_stop c h root s1 hstop, he1, contFromV]
        cases e <;> simp [excOf]
      | none =>
        have := ih s1 ent1 v1 hi1 he1
        simp only [LoopResult] at this
        simp only [contFromV, he1]
        cases hge : (hrun c h root (n + 1) s1).err with
        | some e => rw [hge] at this; simpa using this
        | none =>
          rw [hge] at this
          simp only at this ⊢
          by_cases hdone : (hrun c h root n s1).stack = []
          · rw [if_pos hdone] at this ⊢
            obtain ⟨ent2, v2, hr, hva, hvb⟩ := this
            refine ⟨ent2, v2, hr, fun _ => ?_, fun hc => absurd hc hne⟩
            by_cases h1nil : s1.stack = []
            · have hstop : hstep c h root s1 = none := by simp [hstep, he1, h1nil]
              rw [hrun_of_stop c h root s1 hstop]
              rw [hvb h1nil]; exact hv1 h1nil
            · exact hva h1nil
          · rw [if_neg hdone] at this ⊢
            exact this

theorem hrun_succ_right (c : HCfg) (h : Heap) (root : Obj) (n : Nat) (s : HSt) :
    hrun c h root (n + 1) s = hrun c h root 1 (hrun c h root n s) := by
  induction n generalizing s with
  | zero => rfl
  | succ n ih =>
    cases hs : hstep c h root s with
    | none => simp [hrun, hs]
    | some s1 => rw [hrun_of_step c h root s s1 hs, ih s1, hrun_of_step c h root s s1 hs]

/-- `remap(root, visit)` - the translated initialisation, main loop and `return value` with the translated default
    callbacks - returns what the model's machine ends with (`hfinal`: value and rebuilt heap), whenever the model's
    run ends without error -/
theorem src_remap_eq_hfinal (c : HCfg) (h : Heap) (root : Obj) (hdone : (hfinal c h root).stack = [])
    (herr : (hfinal c h root).err = none) :
    remap_loop (hbound h + 1) [] root (visitOf c) (default_enter (gOps fun _ => h)) (default_exit (gOps id)) false
      c.reraise Atom.none = .ok ((hfinal c h root).value, (hfinal c h root).out) := by
  have hr := src_remap_loop_eq_hrun c h root (hbound h) (hinit root) [] none (LoopInv_init root) rfl
  have hstop : hstep c h root (hfinal c h root) = none := by simp [hstep, herr, hdone]
  have hnext : hrun c h root (hbound h + 1) (hinit root) = hfinal c h root := by
    rw [hrun_succ_right]; exact hrun_of_stop c h root _ hstop 1
  simp only [LoopResult, hnext] at hr
  rw [show hrun c h root (hbound h) (hinit root) = hfinal c h root from rfl] at hr
  simp only [herr, hdone, if_true] at hr
  obtain ⟨ent1, v1, heq, hv, _⟩ := hr
  have hv1 : v1 = some (hfinal c h root).value := hv (by simp [hinit])
  subst hv1
  simp only [srcLoop, hinit, regOf, List.map_nil, List.map_cons, frameOf] at heq
  simp only [remap_loop, heq]

/-- … and so, through `heap_remap_eq_rec`, what the memoised bottom-up recursion `recRoot` returns: for EVERY heap
    (sharing, cycles), container root and non-raising visit callback, the SOURCE loop returns the recursion's
    value and rebuilt heap -/
theorem src_remap_eq_rec (c : HCfg) (h : Heap) (rid : Nat) (nd : Node) (hnr : NoRaise c) (hnd : h[rid]? = some nd) :
    ∃ st v, recRoot c h (.ref rid) (hbound h) = some (st, v) ∧
      remap_loop (hbound h + 1) [] (.ref rid) (visitOf c) (default_enter (gOps fun _ => h)) (default_exit (gOps id))
        false c.reraise Atom.none = .ok (v, st.out) := by
  obtain ⟨st, v, hrec, hfin⟩ := heap_remap_eq_rec c h rid nd hnr hnd
  refine ⟨st, v, hrec, ?_⟩
  have := src_remap_eq_hfinal c h (.ref rid) (by rw [hfin]) (by rw [hfin])
  rw [this, hfin]

/-- non-vacuity: `x = [7]; [x, x]` (a shared list) with the keep-everything visit -/
example : remap_loop (hbound exShared + 1) [] (.ref 0) (visitOf ⟨hkeepVisit, true⟩)
    (default_enter (gOps fun _ => exShared)) (default_exit (gOps id)) false true Atom.none
    = .ok ((hfinal ⟨hkeepVisit, true⟩ exShared (.ref 0)).value, (hfinal ⟨hkeepVisit, true⟩ exShared (.ref 0)).out) :=
  src_remap_eq_hfinal _ _ _ (by decide) (by decide)

end C08
