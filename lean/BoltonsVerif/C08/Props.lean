import BoltonsVerif.C08.Proofs
/-
C08 — property theorems for the models of `remap` / `research` / `get_path`
(statements, short derivations from `Proofs.lean`, non-vacuity examples).

Tree level (`Val`): values without identity; `c : Cfg` is an ARBITRARY visit callback
(`Path → Key → Val → keep | drop | replace k v | raise`) together with an ARBITRARY exit callback.
Heap level (`Heap`, `Obj`): objects with identity, sharing and cycles; `c : HCfg` is an arbitrary
visit callback that may also inspect the rebuilt heap.
-/
namespace C08

/-! ## tree level -/

/-- `remap`'s explicit-stack loop returns exactly what the bottom-up recursion returns — for every
    nesting of the five container kinds, every visit callback and every exit callback; the loop ends
    with an empty work stack, an empty new-items stack and the root path. -/
theorem remap_eq_rec (c : Cfg) (kd : Kind) (its : Items) :
    remapIter c (.node kd its) = some (remapRec c (.node kd its)) ∧
    (remapFinal c kd its).stack = [] ∧ (remapFinal c kd its).nis = [] ∧
    (remapFinal c kd its).path = [] := by
  simp [remapIter, remapFinal_eq]

/-- the sequence of `enter` calls (what `research` filters) is the pre-order traversal -/
theorem enter_calls_preorder (c : Cfg) (kd : Kind) (its : Items) :
    (remapFinal c kd its).log = ([], .none, .node kd its) :: nestedLog (.node kd its) := by
  simp [remapFinal_eq]

/-- a scalar root is rejected (`TypeError: expected remappable root`) -/
theorem scalar_root_rejected (c : Cfg) (a : Atom) : remapIter c (.leaf a) = none := rfl

/-! ## heap level -/

/-- `remap` terminates on every heap — shared sub-objects and reference cycles included — within
    `hbound h = 1 + Σ (len(items) + 2)` loop iterations, whatever the visit callback does. -/
theorem heap_terminates (c : HCfg) (h : Heap) (root : Obj) :
    hstep c h root (hfinal c h root) = none ∧
    ((hfinal c h root).err ≠ none ∨ (hfinal c h root).stack = []) :=
  ⟨hfinal_halted c h root, halted_cases c h root _ (hfinal_halted c h root)⟩

/-- every container is entered at most once and exited at most once, only entered containers are
    exited, and when `remap` returns normally the exited containers are exactly the entered ones. -/
theorem enter_exit_once_per_id (c : HCfg) (h : Heap) (root : Obj) :
    (enterIds (hfinal c h root).trace).Nodup ∧
    (exitIds (hfinal c h root).trace).Nodup ∧
    (∀ id ∈ exitIds (hfinal c h root).trace, id ∈ enterIds (hfinal c h root).trace) ∧
    ((hfinal c h root).err = none →
      (exitIds (hfinal c h root).trace).Perm (enterIds (hfinal c h root).trace)) := by
  have hi := OInv_final c h root
  refine ⟨hi.nodup, hi.exitsNodup, hi.exitsSub, fun he => ?_⟩
  have hp := hi.perm he
  rcases (heap_terminates c h root).2 with h1 | h1
  · exact absurd he h1
  · simpa [h1, frameIds] using hp

end C08
