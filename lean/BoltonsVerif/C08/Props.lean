import BoltonsVerif.C08.Proofs
import BoltonsVerif.C08.Trace
import BoltonsVerif.Generated.C08_Facts
/-
C08 — property theorems for the models of `remap` / `research` / `get_path`
(statements, short derivations from `Proofs.lean`, non-vacuity examples).

Tree level (`Val`): values without identity; `c : Cfg` is an ARBITRARY visit callback
(`Path → Key → Val → keep | drop | replace k v | raise`) together with an ARBITRARY exit callback.
Heap level (`Heap`, `Obj`): objects with identity, sharing and cycles; `c : HCfg` is an arbitrary
visit callback that may also inspect the rebuilt heap.
-/
namespace C08

/-! ## tree level -/

/-- `remap`'s explicit-stack loop returns exactly what the bottom-up recursion returns — for every
    nesting of the five container kinds, every visit callback and every exit callback; the loop ends
    with an empty work stack, an empty new-items stack and the root path. -/
theorem remap_eq_rec (c : Cfg) (kd : Kind) (its : Items) :
    remapIter c (.node kd its) = some (remapRec c (.node kd its)) ∧
    (remapFinal c kd its).stack = [] ∧ (remapFinal c kd its).nis = [] ∧
    (remapFinal c kd its).path = [] := by
  simp [remapIter, remapFinal_eq]

/-- the sequence of `enter` calls (what `research` filters) is the pre-order traversal -/
theorem enter_calls_preorder (c : Cfg) (kd : Kind) (its : Items) :
    (remapFinal c kd its).log = ([], .none, .node kd its) :: nestedLog (.node kd its) := by
  simp [remapFinal_eq]

/-- a scalar root is rejected (`TypeError: expected remappable root`) -/
theorem scalar_root_rejected (c : Cfg) (a : Atom) : remapIter c (.leaf a) = none := rfl

/-- scalar leaves — `None`, ints, floats, bools and the two Sequence types `default_enter` names as
    leaves, `str` and `bytes` — are never traversed: a leaf item is entered once (one `enter` call,
    nothing below it is reported to `research`), handed to `visit` once, as a whole, under its own
    key, and what `visit` returns for it is what the parent is rebuilt from. -/
theorem scalar_leaf_visited_whole (c : Cfg) (kd : Kind) (k : Key) (a : Atom) (rest : Items) :
    remapIter c (.node kd (.cons k (.leaf a) rest)) =
      some (c.ex [] .none (.node kd (.cons k (.leaf a) rest))
        (applyVisit c.vf [] (effKey kd 0 k) (.leaf a) ++ rebuildItems c [] kd 1 rest)) ∧
    nestedLog (.node kd (.cons k (.leaf a) rest)) =
      ([], effKey kd 0 k, .leaf a) :: preLogItems [] kd 1 rest := by
  simp [remapIter, remapFinal_eq, remapRec, rebuildItems, rebuildChild, nestedLog, preLogItems, preLog]

/-- `[b'ab', 1]` under a visit that drops every int: the bytes object stays whole (its byte values
    97, 98 are not items), the int 1 goes -/
example : remapIter ⟨progVisit [⟨false, .isInt, .drop⟩], defaultExit⟩
      (.node .list (.cons (.int 0) (.leaf (.bytes [97, 98])) (.cons (.int 1) (.leaf (.int 1)) .nil))) =
    some (.node .list (.cons (.int 0) (.leaf (.bytes [97, 98])) .nil)) := by
  rw [(scalar_leaf_visited_whole _ _ _ _ _).1]
  simp [applyVisit, progVisit, evalProg, evalCond, evalAct, VAct.toVisit, Val.view, rebuildItems,
    rebuildChild, effKey, defaultExit, buildItems, renumber, ofList]

/-- with the default callbacks the result is an equal copy: same container types, same keys, same
    order (tree level: structural equality; `Canon` = dict keys distinct, sequence items numbered
    0,1,2,…, set members pairwise not `==` — facts about every Python value). -/
theorem default_is_deep_copy (kd : Kind) (its : Items) (hc : Canon (.node kd its)) :
    remapIter copyCfg (.node kd its) = some (.node kd its) := by
  simp [remapIter, remapFinal_eq, remapRec_copy _ hc]

/-- {'a': [1, frozenset({None})], None: ()} -/
def exT : Val :=
  .node .dict (.cons (.str "a") (.node .list (.cons (.int 0) (.leaf (.int 1))
      (.cons (.int 1) (.node .fset (.cons (.int 0) (.leaf .none) .nil)) .nil)))
    (.cons .none (.node .tuple .nil) .nil))

example : Canon exT := by
  simp [exT, Canon, CanonItems, Items.toList, renumber, DistinctBy, Kind.isSet]

/-- container kinds are preserved by `default_exit`, whatever the visit callback does -/
theorem kinds_preserved (vf : VisitFn Val) (kd : Kind) (its : Items) :
    ∃ its', remapIter ⟨vf, defaultExit⟩ (.node kd its) = some (.node kd its') := by
  simp [remapIter, remapFinal_eq, remapRec, defaultExit]

/- Full statement: every `(path, value)` that `research` reports for a nested item satisfies
   `getPath root path = some value`.  It is FALSE for the code as it is (members of sets /
   frozensets are reported with their enumeration index, and `get_path` cannot index a set):
   see `research_set_path_not_retrievable`.  Proved: all reported paths that do not lead into
   a set / frozenset (`setOnPath root path = false`, a decidable condition). -/
theorem paths_correct_partial (q : Path → Key → Val → Bool) (kd : Kind) (its : Items)
    (hw : WFKeys (.node kd its)) (pv : Path × Val)
    (hm : pv ∈ researchOf q (nestedLog (.node kd its)))
    (hs : setOnPath (.node kd its) pv.1 = false) :
    getPath (.node kd its) pv.1 = some pv.2 := by
  simp only [researchOf, List.mem_map, List.mem_filter] at hm
  obtain ⟨e, ⟨he, _⟩, rfl⟩ := hm
  exact nested_paths_retrievable kd its hw e he hs

/-- [frozenset({1})] -/
def exS : Val := .node .list (.cons (.int 0) (.node .fset (.cons (.int 0) (.leaf (.int 1)) .nil)) .nil)

/-- {'k': [7, (None,)]}: a nested path that meets the hypotheses of `paths_correct_partial` -/
def exP : Val :=
  .node .dict (.cons (.str "k") (.node .list (.cons (.int 0) (.leaf (.int 7))
    (.cons (.int 1) (.node .tuple (.cons (.int 0) (.leaf .none) .nil)) .nil))) .nil)

example : WFKeys exP ∧ ([.str "k", .int 1, .int 0], Val.leaf .none) ∈ researchOf (fun _ _ _ => true) (nestedLog exP) ∧
    setOnPath exP [.str "k", .int 1, .int 0] = false := by
  simp [exP, WFKeys, WFKeysItems, keysOf, effKey, researchOf, nestedLog, preLogItems, preLog, setOnPath,
    lookupItems, Kind.isSet]

/-- the negation of the full path clause, by a witness: `research([frozenset({1})])` reports
    `((0, 0), 1)` and `get_path` fails on it (known finding C08-research-set-paths) -/
theorem research_set_path_not_retrievable :
    ∃ root q pv, WFKeys root ∧ pv ∈ researchOf q (nestedLog root) ∧ getPath root pv.1 = none :=
  ⟨exS, fun _ _ _ => true, ([.int 0, .int 0], .leaf (.int 1)),
   by simp [exS, WFKeys, WFKeysItems], by simp [exS, researchOf, nestedLog, preLogItems, preLog, effKey],
   by simp [exS, getPath, getChild, lookupItems, effKey, Kind.isSet]⟩


/-- "same keys, same order": under a filtering visit callback (one that returns `True` / `False`)
    the rebuilt dict's keys are a subsequence of the original keys, in the original order -/
theorem filter_keeps_dict_keys_in_order (vf : VisitFn Val) (hf : FilterVisit vf) (its : Items)
    (hn : (keysOf .dict 0 its).Nodup) :
    ∃ its', remapIter ⟨vf, defaultExit⟩ (.node .dict its) = some (.node .dict its') ∧
      (its'.toList.map Prod.fst).Sublist (keysOf .dict 0 its) := by
  have hs := rebuildItems_keys_sublist ⟨vf, defaultExit⟩ hf [] .dict its 0
  refine ⟨ofList (rebuildItems ⟨vf, defaultExit⟩ [] .dict 0 its), ?_, ?_⟩
  · simp only [remapIter, remapFinal_eq, remapRec, defaultExit, buildItems]
    rw [dictUpdate_nodup [] _ (by simpa using hs.nodup hn)]
    simp
  · rw [toList_ofList]; exact hs

example : FilterVisit (progVisit [⟨false, .isNone, .drop⟩]) := by
  intro p k v
  simp only [progVisit, evalProg]
  split <;> simp [evalAct, VAct.toVisit]

/-! ## heap level -/

/-- `remap` terminates on every heap — shared sub-objects and reference cycles included — within
    `hbound h = 1 + Σ (len(items) + 2)` loop iterations, whatever the visit callback does. -/
theorem heap_terminates (c : HCfg) (h : Heap) (root : Obj) :
    hstep c h root (hfinal c h root) = none ∧
    ((hfinal c h root).err ≠ none ∨ (hfinal c h root).stack = []) :=
  ⟨hfinal_halted c h root, halted_cases c h root _ (hfinal_halted c h root)⟩

/-- every container is entered at most once and exited at most once, only entered containers are
    exited, and when `remap` returns normally the exited containers are exactly the entered ones. -/
theorem enter_exit_once_per_id (c : HCfg) (h : Heap) (root : Obj) :
    (enterIds (hfinal c h root).trace).Nodup ∧
    (exitIds (hfinal c h root).trace).Nodup ∧
    (∀ id ∈ exitIds (hfinal c h root).trace, id ∈ enterIds (hfinal c h root).trace) ∧
    ((hfinal c h root).err = none →
      (exitIds (hfinal c h root).trace).Perm (enterIds (hfinal c h root).trace)) := by
  have hi := OInv_final c h root
  refine ⟨hi.nodup, hi.exitsNodup, hi.exitsSub, fun he => ?_⟩
  have hp := hi.perm he
  rcases (heap_terminates c h root).2 with h1 | h1
  · exact absurd he h1
  · simpa [h1, frameIds] using hp

/-- an object referenced several times is rebuilt once (`enter_exit_once_per_id`) and stays shared:
    every visit of a reference to container `id` that happens after `id` has been exited is handed
    one and the same rebuilt object — the one the registry holds when `remap` returns. -/
theorem shared_stays_shared (c : HCfg) (h : Heap) (root : Obj) (id : Nat) (p : Path) (k : Key) (v : Obj)
    (hv : Ev.visit p k (.ref id) v ∈ afterExit id (hfinal c h root).trace) :
    lookup id (hfinal c h root).reg = some v :=
  SharedInv_final c h root id p k v hv

/-- t = (l, 1); l = [t] -/
def exTupleCycle : Heap :=
  [⟨.tuple, [(.int 0, .ref 1), (.int 1, .atom (.int 1))]⟩, ⟨.list, [(.int 0, .ref 0)]⟩]

/-- l = [l, 5] -/
def exListCycle : Heap := [⟨.list, [(.int 0, .ref 0), (.int 1, .atom (.int 5))]⟩]

/-- x = [7]; root = [x, x] -/
def exShared : Heap := [⟨.list, [(.int 0, .ref 1), (.int 1, .ref 1)]⟩, ⟨.list, [(.int 0, .atom (.int 7))]⟩]

def copyH : HCfg := ⟨hkeepVisit, true⟩

/-- non-vacuity of `shared_stays_shared`: the second reference to `x` is visited after `x` was exited -/
example : Ev.visit [] (.int 1) (.ref 1) (.ref 1) ∈ afterExit 1 (hfinal copyH exShared (.ref 0)).trace := by
  decide +kernel

/-- a cycle through mutable containers is copied as a cycle … -/
example :
    (hfinal copyH exListCycle (.ref 0)).value = .ref 0 ∧
    (hfinal copyH exListCycle (.ref 0)).out.map (·.items) =
      [[(.int 0, .ref 0), (.int 1, .atom (.int 5))]] := by
  decide +kernel

/-- … but the clause "the result is an equal deep copy" is FALSE for a cycle that passes through a
    tuple (known finding C08-tuple-cycle-backref): in the rebuilt `t' = (l', 1)`, `l'[0]` is the empty
    placeholder tuple `out[0]`, not `t' = out[2]`. -/
theorem tuple_cycle_not_copied :
    (hfinal copyH exTupleCycle (.ref 0)).err = none ∧
    (hfinal copyH exTupleCycle (.ref 0)).value = .ref 2 ∧
    (hfinal copyH exTupleCycle (.ref 0)).out.map (·.items) =
      [[], [(.int 0, .ref 0)], [(.int 0, .ref 1), (.int 1, .atom (.int 1))]] := by
  decide +kernel

/-- The explicit-stack loop with its `id()`-keyed registry computes exactly what the memoised
    bottom-up recursion `recRoot` computes (each container rebuilt once, registered before its
    children so that back references terminate): same rebuilt heap, same result, same registry,
    same sequence of enter / visit / exit calls — for EVERY heap (shared sub-objects and reference
    cycles included) and every visit callback that does not raise (`NoRaise`: it never raises, or
    `reraise_visit=False`); the recursion returns within fuel `hbound h`. -/
theorem heap_remap_eq_rec (c : HCfg) (h : Heap) (id : Nat) (nd : Node) (hnr : NoRaise c)
    (hnd : h[id]? = some nd) :
    ∃ st' v, recRoot c h (.ref id) (hbound h) = some (st', v) ∧
      hfinal c h (.ref id) = ⟨[], [], st'.reg, [], st'.out, v, st'.trace, none⟩ := by
  obtain ⟨st', v, hr⟩ := recRoot_returns c h id nd hnr hnd
  exact ⟨st', v, hr, hfinal_eq_recRoot c h (.ref id) _ st' v hr⟩

/-- the same for an arbitrary (possibly raising) visit callback, whenever the recursion returns
    (i.e. no visit raised on this input) -/
theorem heap_remap_eq_rec_partial (c : HCfg) (h : Heap) (root : Obj) (n : Nat) (st' : RSt) (v : Obj)
    (hr : recRoot c h root n = some (st', v)) :
    hfinal c h root = ⟨[], [], st'.reg, [], st'.out, v, st'.trace, none⟩ :=
  hfinal_eq_recRoot c h root n st' v hr

/-- TOTAL version, raising visit callbacks included: for EVERY heap (sharing, cycles) and EVERY visit
    callback - one that raises with `reraise_visit=True` too - the memoised recursion `recRootE` (which
    reports "a visit raised" together with the state at that moment) returns within fuel `hbound h`, and
    `remap`'s loop ends in agreement with it: same result, registry, rebuilt heap and enter / visit / exit
    sequence when no visit raised; otherwise the loop stops with the visit's exception, and registry,
    rebuilt heap and call sequence - up to and including the raising visit - are the recursion's. -/
theorem heap_remap_eq_rec_raising (c : HCfg) (h : Heap) (id : Nat) (nd : Node) (hnd : h[id]? = some nd) :
    ∃ r, recRootE c h (.ref id) (hbound h) = some r ∧ Agrees (hfinal c h (.ref id)) r := by
  obtain ⟨r, hr⟩ := recRootE_returns c h id nd hnd
  exact ⟨r, hr, hfinal_agrees_recRootE c h (.ref id) _ r hr⟩

/-- non-vacuity: on `x = [7]; [x, x]` a visit that raises on ints (re-raised) stops `remap` at the very
    first visit: root and `x` entered, 7 entered and visited - four events, nothing exited -/
example : (match recRootE ⟨hprogVisit [⟨false, .isInt, .raise⟩], true⟩ exShared (.ref 0) (hbound exShared) with
    | some (.raised st) => st.trace.length == 4 && (exitIds st.trace).isEmpty
    | _ => false) = true ∧
    (hfinal ⟨hprogVisit [⟨false, .isInt, .raise⟩], true⟩ exShared (.ref 0)).err = some .visitError := by
  decide +kernel

example : NoRaise copyH := by
  intro out p k v; simp [visitOut, copyH, hkeepVisit]

example (vf : HVisitFn) : NoRaise ⟨vf, false⟩ := by
  intro out p k v; simp only [visitOut]; split <;> simp

/-- the recursion on the tuple cycle: it returns, with the placeholder inside (cf. `tuple_cycle_not_copied`) -/
example : (recRoot copyH exTupleCycle (.ref 0) (hbound exTupleCycle)).map (fun r => (r.2, r.1.out.map (·.items))) =
    some (.ref 2, [[], [(.int 0, .ref 0)], [(.int 0, .ref 1), (.int 1, .atom (.int 1))]]) := by
  decide +kernel

/-- "shares no container with the input": the rebuilt structure lives entirely in the output heap —
    the result and every item of every rebuilt container is a scalar or a reference to an object
    created by this `remap` call (never a reference into the input heap) — for every well-formed
    heap (sharing, cycles), every non-raising visit callback that returns the value it was given or
    a scalar (`LocalVisit`; the whole table-defined family is: `hprogVisit_local`). -/
theorem output_closed (c : HCfg) (h : Heap) (id : Nat) (nd : Node) (hw : HeapWF h) (hl : LocalVisit c)
    (hnr : NoRaise c) (hnd : h[id]? = some nd) :
    objClosed (hfinal c h (.ref id)).out.length (hfinal c h (.ref id)).value ∧
    ∀ nd' ∈ (hfinal c h (.ref id)).out, itemsClosed (hfinal c h (.ref id)).out.length nd'.items := by
  have hid : id < h.length := by
    rcases Nat.lt_or_ge id h.length with hlt | hge
    · exact hlt
    · simp [List.getElem?_eq_none hge] at hnd
  have hc := CInv_final c h (.ref id) hw hl hid
  obtain ⟨st', v, hr, hf⟩ := heap_remap_eq_rec c h id nd hnr hnd
  refine ⟨?_, hc.out⟩
  have hm := recRoot_result_registered c h id _ st' v hr
  have := hc.reg (id, v) (by rw [hf]; exact hm)
  rw [hf] at this ⊢
  exact this

example : HeapWF exTupleCycle ∧ HeapWF exShared ∧ LocalVisit copyH := by
  refine ⟨?_, ?_, ?_⟩
  · simp [HeapWF, exTupleCycle, objClosed]
    rintro a b (⟨_, rfl⟩ | ⟨_, rfl⟩) <;> simp
  · simp [HeapWF, exShared, objClosed]
    rintro a b (⟨_, rfl⟩ | ⟨_, rfl⟩) <;> simp
  · intro out p k v k' v' hv; simp [copyH, hkeepVisit] at hv

/- Heap-level path clause (sharing and cycles included).  Full statement: every `(path, value)`
   reported for a nested item satisfies `hgetPath h root path = some value`; false because of
   sets (see `research_set_path_not_retrievable`).  Proved: every `enter` call that `remap` /
   `research` makes for a nested item — a shared object is reported once, under the path of its
   first encounter — is retrievable unless the path leads into a set / frozenset, for every heap
   whose dicts have distinct keys and whatever the visit callback does. -/
theorem heap_paths_correct_partial (c : HCfg) (h : Heap) (root : Obj) (hd : DictKeysNodup h)
    (e : Path × Key × Obj) (he : e ∈ nestedEnters (hfinal c h root))
    (hs : hsetOnPath h root (e.1 ++ [e.2.1]) = false) :
    hgetPath h root (e.1 ++ [e.2.1]) = some e.2.2 := by
  rw [hgetPath_eq_of_noSet h root _ hs]
  exact LogOK_final c h root hd e he

/-- non-vacuity: in `root = [x, x]`, `x = [7]` the item 7 is reported once, under path (0, 0) -/
example : DictKeysNodup exShared ∧
    ([.int 0], .int 0, Obj.atom (.int 7)) ∈ nestedEnters (hfinal copyH exShared (.ref 0)) ∧
    hsetOnPath exShared (.ref 0) [.int 0, .int 0] = false ∧
    (nestedEnters (hfinal copyH exShared (.ref 0))).length = 2 := by
  refine ⟨by simp [DictKeysNodup, exShared], by decide +kernel, by decide +kernel, by decide +kernel⟩


/-! ## research as a function of the query (truthy / falsy / raising), both root conventions -/

/-- every `(path, value)` that `research` reports is a nested item retrievable with `get_path` - unless its
    path leads into a set / frozenset (the known finding) - or is the root's own entry `((None,), root)`,
    which only an implementation that queries the root (`rootQ`) reports; whatever the query answers or
    raises, with and without re-raising. -/
theorem research_paths_correct_partial (rootQ reraise : Bool) (q : Path → Key → Val → Option Bool)
    (kd : Kind) (its : Items) (hw : WFKeys (.node kd its)) (l : List (Path × Val))
    (hr : research rootQ q reraise (.node kd its) = some l) (pv : Path × Val) (hm : pv ∈ l) :
    (rootQ = true ∧ pv = ([.none], .node kd its)) ∨
    (setOnPath (.node kd its) pv.1 = false → getPath (.node kd its) pv.1 = some pv.2) := by
  obtain ⟨e, he, _, rfl⟩ := researchRun_mem q reraise _ l hr pv hm
  simp only [researchCalls, List.mem_append] at he
  rcases he with he | he
  · left
    cases rootQ with
    | false => simp at he
    | true => simp at he; subst he; simp
  · right
    intro hs
    exact nested_paths_retrievable kd its hw e he hs

/-- the two conventions differ by the root's own entry and nothing else: when both calls return, the one
    that queries the root reports what the other reports, preceded by `((None,), root)` if the query is
    truthy on the root -/
theorem research_root_convention (reraise : Bool) (q : Path → Key → Val → Option Bool) (root : Val)
    (l0 l1 : List (Path × Val))
    (h0 : research false q reraise root = some l0) (h1 : research true q reraise root = some l1) :
    l1 = l0 ∨ l1 = ([.none], root) :: l0 := by
  simp only [research, researchCalls, if_true, List.singleton_append, Bool.false_eq_true, if_false,
    List.nil_append] at h0 h1
  simp only [researchRun] at h1
  split at h1
  · split at h1
    · simp at h1
    · left; rw [h0] at h1; injection h1 with h1; exact h1.symm
  · left; rw [h0] at h1; injection h1 with h1; exact h1.symm
  · right; rw [h0] at h1; simp at h1; exact h1.symm

/-- `get_path(root, path, default)`: the default replaces the `PathAccessError` and nothing else -/
theorem get_path_default (root : Val) (path : Path) (d : Val) :
    (∀ v, getPath root path = some v → getPathD root path d = v) ∧
    (getPath root path = none → getPathD root path d = d) := by
  constructor
  · intro v h; simp [getPathD, h]
  · intro h; simp [getPathD, h]


/-- non-vacuity: on `{'k': [7, (None,)]}` a query that raises on ints and is truthy otherwise, not
    re-raised, reports the three non-int nested items; re-raised, the call fails; the root convention
    adds `((None,), root)` in front -/
example :
    (research false (fun _ _ v => match v with | .leaf (.int _) => none | _ => some true) false exP).map
        (fun l => l.map Prod.fst) = some [[.str "k"], [.str "k", .int 1], [.str "k", .int 1, .int 0]] ∧
    (research false (fun _ _ v => match v with | .leaf (.int _) => none | _ => some true) true exP).isNone ∧
    (research true (fun _ _ _ => some true) true exP).map (fun l => l.map Prod.fst) =
      some [[.none], [.str "k"], [.str "k", .int 0], [.str "k", .int 1], [.str "k", .int 1, .int 0]] := by
  refine ⟨by rfl, by rfl, by rfl⟩

/-- `remap`'s first `enter` call is the root's own (empty path, key `None`), whatever the heap and the
    visit callback: this is the call an implementation of `research` may or may not hand to the query -/
theorem remap_enters_root_first (c : HCfg) (h : Heap) (root : Obj) :
    ∀ e ∈ (enterLog (hfinal c h root).trace).take 1, e = ([], Atom.none, root) :=
  first_enter_is_root c h root

/-- heap level (sharing and cycles included): every `(path, value)` that `research` reports is retrievable
    with `get_path` unless the path leads into a set / frozenset, or is the root's own entry -/
theorem hresearch_paths_correct_partial (rootQ reraise : Bool) (q : Path → Key → Obj → Option Bool)
    (h : Heap) (root : Obj) (hd : DictKeysNodup h) (l : List (Path × Obj))
    (hr : hresearch rootQ q reraise h root = some l) (pv : Path × Obj) (hm : pv ∈ l) :
    (rootQ = true ∧ pv = ([.none], root)) ∨
    (hsetOnPath h root pv.1 = false → hgetPath h root pv.1 = some pv.2) := by
  obtain ⟨e, he, _, rfl⟩ := researchRun_mem q reraise _ l hr pv hm
  simp only [hresearchCalls, List.mem_append] at he
  rcases he with he | he
  · left
    cases rootQ with
    | false => simp at he
    | true =>
      refine ⟨rfl, ?_⟩
      simp only [if_true] at he
      rw [first_enter_is_root _ h root e he]; rfl
  · right
    intro hs
    rw [hgetPath_eq_of_noSet h root _ hs]
    exact LogOK_final _ h root hd e he

example : (hresearch true (fun _ _ _ => some true) false exShared (.ref 0)).map (fun l => l.map Prod.fst) =
    some [[.none], [.int 0], [.int 0, .int 0]] := by decide +kernel

/-! ## custom `enter` / `exit` callbacks -/

/-- For ARBITRARY `enter`, `visit` and `exit` callbacks (an `enter` that refuses to traverse, prunes,
    reorders or invents items and new parents; an `exit` that builds anything from path, key, old
    parent, new parent and new items): whenever the bottom-up recursion `gRoot` returns - a value or the
    `TypeError` for a root that `enter` does not traverse - `remap`'s explicit-stack loop returns exactly
    that after finitely many iterations, and keeps returning it however long it is run. -/
theorem custom_callbacks_loop_eq_rec (c : GCfg) (n : Nat) (root : Val) (r : GRes)
    (hr : gRoot c n root = some r) :
    ∃ m, ∀ m', m ≤ m' → gRemapIter c m' root = some r :=
  gRemap_eq_rec_aux c n root r hr

/-- non-vacuity: `{'a': [1, frozenset({None})], None: ()}` with tuples not traversed and an exit that
    returns `(key, len(old_parent), default_exit(...))`: the recursion returns -/
example : ∃ v, gRoot (progCfg (.skipKind .tuple) [] .keyOld) 12 exT = some (.ok v) := ⟨_, rfl⟩

/-- an `enter` that does not traverse the root: `TypeError`, from the recursion and from the loop -/
example : gRoot (progCfg (.depthLimit 0) [] .dflt) 1 exT = some .typeError ∧
    ∃ m, ∀ m', m ≤ m' → gRemapIter (progCfg (.depthLimit 0) [] .dflt) m' exT = some .typeError :=
  ⟨rfl, custom_callbacks_loop_eq_rec _ 1 _ _ rfl⟩

/-! ## the `trace` keyword (round 5)

`trace` occurs in none of the models above: it only selects which events the loop PRINTS.  `Trace.lean`
extends the generic machine by a log of printed lines (`gstepT`: the untraced step, plus the lines
`gprints` derives from the state the iteration starts in). -/

/-- `remap(..., trace=t)` returns what `remap(...)` returns, for every selection `t` of traced events,
    ARBITRARY enter / visit / exit callbacks, every root and every number of loop iterations -/
theorem trace_does_not_change_result (c : GCfg) (t : TraceSel) (m : Nat) (root : Val) :
    (gRemapIterT c t m root).1 = gRemapIter c m root := by
  simp only [gRemapIterT, gRemapIter, grunT_fst]

/-- with tracing off (the default `()`, `False`, or only unknown event names) nothing is printed -/
theorem trace_off_prints_nothing (c : GCfg) (m : Nat) (root : Val) :
    (gRemapIterT c .off m root).2 = [] :=
  grunT_off_snd c m _ []

/-- hence the traced loop, too, returns exactly what the bottom-up recursion returns
    (`custom_callbacks_loop_eq_rec` with any `trace`) -/
theorem traced_loop_eq_rec (c : GCfg) (t : TraceSel) (n : Nat) (root : Val) (r : GRes)
    (hr : gRoot c n root = some r) :
    ∃ m, ∀ m', m ≤ m' → (gRemapIterT c t m' root).1 = some r := by
  obtain ⟨m, hm⟩ := gRemap_eq_rec_aux c n root r hr
  exact ⟨m, fun m' h => by rw [trace_does_not_change_result]; exact hm m' h⟩

/-- non-vacuity: `{'a': [1, frozenset({None})], None: ()}` with `trace=True` prints 34 lines, with
    `trace='exit'` 8 (four containers), with `trace='enter'` 16 - and the traced loop returns -/
example : (gRemapIterT (dflt keepVisit) .all 40 exT).2.length = 34 ∧
    (gRemapIterT (dflt keepVisit) ⟨false, false, true⟩ 40 exT).2.length = 8 ∧
    (gRemapIterT (dflt keepVisit) ⟨true, false, false⟩ 40 exT).2.length = 16 ∧
    (gRemapIterT (dflt keepVisit) .all 40 exT).1.isSome = true := by
  decide +kernel

/-- the generic model specialises to the main one: with `default_enter` / `default_exit` plugged in,
    the generic recursion (fuel > size) is the bottom-up rebuild `remapRec` of `remap_eq_rec` -/
theorem custom_callbacks_generalise_default (vf : VisitFn Val) (kd : Kind) (its : Items) (n : Nat)
    (hn : isize its < n) :
    gRoot (dflt vf) n (.node kd its) = some (.ok (remapRec ⟨vf, defaultExit⟩ (.node kd its))) :=
  gRoot_default vf kd its n hn


/-! ## facts regenerated from the current source on every run (`Generated/C08_Facts.lean`)

`regen()` EVALUATES `default_enter`, `default_exit`, `remap` and `research` of the current source on fixed
samples (one per leaf class and container kind) and writes the resulting tables; the theorems below
re-establish, on every run, that the model's built-in default callbacks produce exactly those tables.
An equivalent rewrite of the source gives the same tables (nothing is pattern-matched). -/

def keyTok : Atom → String
  | .none => "n"
  | .int i => "i" ++ toString i
  | .str s => "s:" ++ s
  | _ => "?"

def kindTok : Kind → String
  | .dict => "D" | .list => "L" | .tuple => "T" | .set => "S" | .fset => "F"

/-- `{'a': 5, None: 6}` / `[5, 6]` / `(5, 6)` / `{5, 6}` / `frozenset({5, 6})` -/
def twoItems (kd : Kind) : Val :=
  .node kd (.cons (.str "a") (.leaf (.int 5)) (.cons .none (.leaf (.int 6)) .nil))

def enterSamples : List (String × Val) :=
  [("none", .leaf .none), ("int", .leaf (.int 5)), ("str", .leaf (.str "ab")), ("bytes", .leaf (.bytes [97, 98])),
   ("float", .leaf (.float 3)), ("bool", .leaf (.bool true)), ("other", .leaf (.other 0)),
   ("dict", twoItems .dict), ("list", twoItems .list), ("tuple", twoItems .tuple), ("set", twoItems .set),
   ("fset", twoItems .fset)]

/-- what the model's `default_enter` does on the samples, in the format of `Gen.enterTable` -/
def modelEnterTable : List (String × Bool × String × List String) :=
  enterSamples.map fun s =>
    match defaultEnterG [] .none s.2 with
    | none => (s.1, false, "", [])
    | some (.node kd its, items) => (s.1, its.length == 0, kindTok kd, items.map fun kv => keyTok kv.1)
    | some (.leaf _, _) => (s.1, false, "?", [])

/-- `default_enter` of the current source, evaluated on one sample per leaf class and container kind,
    does what the model's does: scalars (str and bytes included) are not traversed; a container gives an
    empty container of its own class, dict items under their own keys, the members of sequences and
    sets under 0, 1, … -/
theorem default_enter_table_matches_model : Gen.enterTable = modelEnterTable := by decide +kernel

mutual
def plainT : Val → String
  | .leaf a => keyTok a
  | .node kd its => kindTok kd ++ "[" ++ plainIts (kd == .dict) true its ++ "]"
def plainIts (isDict first : Bool) : Items → String
  | .nil => ""
  | .cons k v r =>
    (if first then "" else ",") ++ (if isDict then keyTok k ++ "=" else "") ++ plainT v ++ plainIts isDict false r
end

/-- new items with a repeated key: `[(0, 5), (1, 6), (0, 7)]` -/
def exitSampleItems : List (Key × Val) := [(.int 0, .leaf (.int 5)), (.int 1, .leaf (.int 6)), (.int 0, .leaf (.int 7))]

def modelExitTable : List (String × String) :=
  [("dict", Kind.dict), ("list", .list), ("tuple", .tuple), ("set", .set), ("fset", .fset)].map fun nk =>
    (nk.1, plainT (defaultExit [] .none (.node nk.2 .nil) exitSampleItems))

/-- `default_exit` of the current source on an empty new parent of each kind: a container of the new
    parent's class; a dict keeps the position of a repeated key and takes its last value; sequences and
    sets take the values in order and ignore the keys -/
theorem default_exit_table_matches_model : Gen.exitTable = modelExitTable := by decide +kernel

/-- the keyword defaults the harness relies on when it calls without them: a raising visit propagates
    (`reraise_visit=True`, cf. `copyH`), a raising query does not (`reraise=False`) -/
theorem keyword_defaults_match_model :
    Gen.reraiseVisitDefault = copyH.reraise ∧ Gen.researchReraiseDefault = false := by decide

end C08
