/-
PyHeap — the OBJECT STORE of the source translator (`harness/py2lean.py`, heap mode; rules in
notes/SRCTIE.md §2 "Object store").

The value-semantics translation refuses every flow that could create two references to one mutable
object.  Classes whose correctness IS about aliasing (`LRI`/`LRU`: four-slot list cells shared between the
ring and `_link_lookup`; `BasePriorityQueue`: entries shared between `_entry_map` and the backend;
`OrderedMultiDict`: cells shared between the linked list and `_map`) are translated with an explicit store:

  * a mutable Python list that the class shares is a CELL of the store, identified by its address (a natural
    number; a list display allocates the next unused address; nothing is ever freed: garbage stays);
  * what a cell slot / a variable / an attribute / a dict value holds is a dynamically typed `Val`:
    `None`, a module-level sentinel object (`_MISSING`, `_REMOVED`), a reference to a cell, a key, a value
    (the two abstract item types of the class), an `int`;
  * `x[i]`, `x[i] = v`, `x[:] = [...]` on a `Val` are store operations with Python's own failure modes
    (`TypeError` on a non-list, `IndexError` out of range); `x is y` is address equality on references.

Core Lean only; part of the trusted base of the source tie (like `PyRt.lean`); compared with CPython object
graphs (up to renaming of addresses) by `harness/py2lean_selftest.py`.
-/
import BoltonsVerif.PyRt

namespace PyHeap

/-- what a slot of a cell (a local variable, an attribute, a dict value) can hold -/
inductive Val (κ ν : Type) where
  | none                    -- Python `None`
  | sentinel                -- the module-level marker object of the spec (`_MISSING`, `_REMOVED`)
  | ref (a : Nat)           -- a reference to the cell at address `a`
  | key (k : κ)             -- an object of the class's key type
  | val (v : ν)             -- an object of the class's value type
  | int (i : Int)
deriving Repr

instance {κ ν : Type} : Inhabited (Val κ ν) := ⟨.none⟩

/-- the store: the cells in allocation order (address = position) -/
structure Heap (κ ν : Type) where
  cells : List (List (Val κ ν))

namespace Heap
variable {κ ν : Type}

def empty : Heap κ ν := ⟨[]⟩
instance : Inhabited (Heap κ ν) := ⟨empty⟩

/-- the reference the next list display evaluates to -/
def next (h : Heap κ ν) : Val κ ν := .ref h.cells.length

/-- `[v0, v1, ...]` (a list display): a new cell at the next unused address -/
def alloc (h : Heap κ ν) (c : List (Val κ ν)) : Heap κ ν := ⟨h.cells ++ [c]⟩

/-- the contents of the cell at address `a` (an address nothing was allocated at reads as the empty list;
    such addresses do not occur: every reference comes from `next`) -/
def cell (h : Heap κ ν) (a : Nat) : List (Val κ ν) := h.cells.getD a []

/-- `r[i]`: `TypeError` when `r` is not a reference (`None`, a sentinel `object()`, an int are not
    subscriptable; keys and values are opaque objects of the spec's item types), `IndexError` out of range -/
def get? (h : Heap κ ν) (r : Val κ ν) (i : Int) : Except PyExc (Val κ ν) :=
  match r with
  | .ref a => PyRt.index? (h.cell a) i
  | _ => .error PyExc.TypeError

/-- `r[i] = v` -/
def set? (h : Heap κ ν) (r : Val κ ν) (i : Int) (v : Val κ ν) : Except PyExc (Heap κ ν) :=
  match r with
  | .ref a =>
    let c := h.cell a
    let n := PyRt.normIdx c i
    if 0 ≤ n ∧ n < c.length then .ok ⟨h.cells.set a (c.set n.toNat v)⟩ else .error PyExc.IndexError
  | _ => .error PyExc.TypeError

/-- `r[:] = [v0, v1, ...]`: the cell keeps its identity and gets new contents -/
def assign? (h : Heap κ ν) (r : Val κ ν) (c : List (Val κ ν)) : Except PyExc (Heap κ ν) :=
  match r with
  | .ref a => .ok ⟨h.cells.set a c⟩
  | _ => .error PyExc.TypeError

/-- `len(r)` -/
def len? (h : Heap κ ν) (r : Val κ ν) : Except PyExc Int :=
  match r with
  | .ref a => .ok (h.cell a).length
  | _ => .error PyExc.TypeError

end Heap

namespace Val
variable {κ ν : Type}

/-- a dynamic value used as the key of a lookup / deletion in a dict whose keys are of the key type:
    a key is itself; a cell (a list) is unhashable; anything else (`None`, a sentinel, an int, a value
    object) is a hashable object that is not among the keys -/
def asKey? : Val κ ν → Except PyExc κ
  | .key k => .ok k
  | .ref _ => .error PyExc.TypeError
  | _ => .error PyExc.KeyError

/-- `a is b`.  Exact whenever one of the two is a reference, `None` or a sentinel (such an object is identical
    only to itself).  The identity of two key / value / int objects is not modelled: `PyExc.Other`, which no
    handler catches and which the tie theorems show not to occur. -/
def is? : Val κ ν → Val κ ν → Except PyExc Bool
  | .ref a, .ref b => .ok (a == b)
  | .ref _, _ => .ok false
  | _, .ref _ => .ok false
  | .none, .none => .ok true
  | .none, _ => .ok false
  | _, .none => .ok false
  | .sentinel, .sentinel => .ok true
  | .sentinel, _ => .ok false
  | _, .sentinel => .ok false
  | _, _ => .error PyExc.Other

/-- `a is <sentinel>` / `a is None` with the constant written in the source: always exact -/
def isSentinel : Val κ ν → Bool
  | .sentinel => true
  | _ => false

def isNone : Val κ ν → Bool
  | .none => true
  | _ => false

end Val

/-- a call `f(x)` of an attribute holding a callable or `None` (`self.on_miss(key)`): what the callable does
    is a parameter (returns a value or raises); calling `None` is a `TypeError`.  The callable is assumed
    not to touch the object. -/
def callOpt? {α β : Type} (f : Option (α → Except PyExc β)) (x : α) : Except PyExc β :=
  match f with
  | some g => g x
  | none => .error PyExc.TypeError

end PyHeap

namespace PyHeap

/-- the items of an unpacked cell, by position (`none` past the end: `unpack?` has checked the length) -/
def nth {κ ν : Type} (l : List (Val κ ν)) (i : Nat) : Val κ ν := l.getD i .none

/-- `a, b, … = r` (n targets): `TypeError` when `r` is not a list, `ValueError` when its length is not `n` -/
def Heap.unpack? {κ ν : Type} (h : Heap κ ν) (r : Val κ ν) (n : Nat) : Except PyExc (List (Val κ ν)) :=
  match r with
  | .ref a => if (h.cell a).length = n then .ok (h.cell a) else .error PyExc.ValueError
  | _ => .error PyExc.TypeError

/-- the operations of an attribute the class treats as an ABSTRACT BACKEND (spec `backend`): a container of
    references whose own code is not translated (`heapq` on a list, `BList` + `bisect.insort`).  `push` / `pop` may read
    the store (they compare entries).  An instance is a parameter of the generated definitions; the tie theorems state
    what they need of it. -/
class Backend (κ ν : outParam Type) (β : Type) where
  /-- `if backend:` / `while backend:` -/
  truthy : β → Bool
  /-- `backend[0]` (`IndexError` when empty) -/
  front : β → Except PyExc (Val κ ν)
  /-- `self._push_entry(backend, entry)` -/
  push : Heap κ ν → β → Val κ ν → Except PyExc β
  /-- `self._pop_entry(backend)`: (the entry, the backend afterwards) -/
  pop : Heap κ ν → β → Except PyExc (Val κ ν × β)

end PyHeap
