import BoltonsVerif.Common
import BoltonsVerif.C18.Model
import BoltonsVerif.C18.Calls
import BoltonsVerif.Generated.C18_Consts
/-
C18 line protocol.  One line = one whole history.

  B <max_size> <op> ...            SpooledBytesIO(max_size)
  S <max_size> <chunk> <op> ...    SpooledStringIO(max_size) with READ_CHUNK_SIZE = chunk (`R` = the value in the source)
  M b|t <n> <hex>*n <mop> ...      MultiFileReader over n BytesIO (b) / StringIO (t) members
  F b|t|d <op> ...                 the REFERENCE file the theorems refine to, run by itself: `Spec.run bytesSem` (b, against
                                   io.BytesIO and tempfile.TemporaryFile), `Spec.run textSem` (t, io.StringIO(newline='')),
                                   `Spec.run lfSem` (d, the default io.StringIO()); also overwriting writes and (b) gaps

ops:  w<hex> write | W<hex>,<hex>… writelines (W alone = empty batch) | r<n> read(n) | ra read() | rl readline() | rL<n> readline(n) | rs readlines()
      sk<n> seek(n) | sc<n> seek(n, SEEK_CUR) | se<n> seek(∓n, SEEK_END) | t tell() | g getvalue()
      l len(f) | n next(f) | it list(f) | dr [x for x in f] | ro f.rollover()
      round 5 — REJECTED calls (`C18.Call`, `none`): x  a call that raises before doing anything (record `N@<tell>`, state
      unchanged) | xw<hex> write of a text whose bytes the model's own UTF-8 decoder must judge (`C18.rawWrite`: a lone
      surrogate, sent as its 'surrogatepass' bytes, is refused -> rejected) | xW<hex>,<hex>… writelines that stops at the
      first piece that is no payload / not UTF-8 (`C18.rawWritelines`: the pieces before it are written)
mops: r<n> read(n) | ra read() | s seek(0)
  MO b|t <n> <hex>*n <pos>*n <mop> ...   round 5: MultiFileReader over members handed over at their own positions
                                   (`C18.MFR.initAt`; positions in bytes / code points)
Payloads are hex (bytes, or the UTF-8 of a text), `-` = empty.
Text is rendered through the model's own bytes (`realBytes (encode cs)`, = `String.toUTF8` by
`C18.utf8_stored_bytes`), a text payload is decoded by the model's real-bytes decoder (`decodeR`) and accepted only
if it decodes completely and the model re-encodes it to the very bytes received,
and the lines of `readlines()` are cut at the byte level (`splitB`, = the encodings of the model's lines by
`C18.readlines_bytes_level`).

Output: one record per op joined by `;`:  <result>@<tell after the op>
  N unit | D<hex> bytes/text | L<hex>,<hex>… list | I<n> int | STOP | XUnicodeDecodeError (history ends)
-/
namespace C18.Driver
open BV C18

def hexOfBytes (b : List Byte) : String := if b.isEmpty then "-" else bytesToHex b
def hexOfChars (cs : List Char) : String := hexOfBytes (realBytes (encode cs))

def bytesOfHex? (s : String) : Option (List Byte) := if s = "-" then some [] else hexToBytes? s
def charsOfHex? (s : String) : Option (List Char) :=
  match bytesOfHex? s with
  | some bs => textOfBytes? bs
  | none => none

def showOut {α : Type} (h : List α → String) : Out α → String
  | .unit => "N"
  | .data x => "D" ++ h x
  | .lines xs => "L" ++ ",".intercalate (xs.map h)
  | .num n => s!"I{n}"
  | .stop => "STOP"

def parseOp {α : Type} (payload : String → Option (List α)) (tok : String) : Option (Op α) :=
  let nat (k : Nat) : Option Nat := (tok.drop k).toString.toNat?
  if tok = "ra" then some .readAll
  else if tok = "rl" then some .readline
  else if tok = "rs" then some .readlines
  else if tok = "t" then some .tell
  else if tok = "g" then some .getvalue
  else if tok = "l" then some .len
  else if tok = "n" then some .next
  else if tok = "it" then some .list
  else if tok = "dr" then some .drain
  else if tok = "ro" then some .rollover
  else if tok.startsWith "rL" then (nat 2).map .readlineN
  else if tok.startsWith "sk" then (nat 2).map .seek
  else if tok.startsWith "sc" then (nat 2).map .seekCur
  else if tok.startsWith "se" then (nat 2).map .seekEnd
  else if tok.startsWith "w" then (payload (tok.drop 1).toString).map .write
  else if tok = "W" then some (.writelines [])
  else if tok.startsWith "W" then
    ((splitOnChar (tok.drop 1).toString ',').foldr (fun t acc => match acc, payload t with
      | some l, some d => some (d :: l)
      | _, _ => none) (some [])).map .writelines
  else if tok.startsWith "r" then (nat 1).map .read
  else none

def parseOps {α : Type} (payload : String → Option (List α)) (toks : List String) : Option (List (Op α)) :=
  toks.foldr (fun t acc => match acc, parseOp payload t with
    | some l, some op => some (op :: l)
    | _, _ => none) (some [])

/-- a token that may stand for a rejected call (`x…`), else an ordinary op -/
def parseCall {α : Type} (payload : String → Option (List α)) (tok : String) : Option (Call α) :=
  if tok = "x" then some none
  else if tok.startsWith "xw" then
    some ((payload (tok.drop 2).toString).map .write)
  else if tok.startsWith "xW" then
    some (rawWritelines .writelines ((splitOnChar (tok.drop 2).toString ',').map payload))
  else (parseOp payload tok).map some

def parseCalls {α : Type} (payload : String → Option (List α)) (toks : List String) : Option (List (Call α)) :=
  toks.foldr (fun t acc => match acc, parseCall payload t with
    | some l, some c => some (c :: l)
    | _, _ => none) (some [])

def runBytes (s : SBytes) : List (Call Byte) → List String → List String
  | [], acc => acc.reverse
  | c :: cs, acc =>
    let r := stepCall SBytes.step s c
    runBytes r.2 cs (s!"{showOut hexOfBytes r.1}@{r.2.buf.pos}" :: acc)

def runStr (s : SStr) : List (Call Char) → List String → List String
  | [], acc => acc.reverse
  | c :: cs, acc =>
    let r := stepCall SStr.step s c
    if r.2.rd.bad then ("XUnicodeDecodeError" :: acc).reverse
    else
      let shown := match c, r.1 with
        | some .readlines, .lines xs => "L" ++ ",".intercalate ((splitB (realBytes (encode xs.flatten))).map hexOfBytes)
        | _, o => showOut hexOfChars o
      runStr r.2 cs (s!"{shown}@{r.2.tell}" :: acc)

/-- the plain reference file by itself (the right-hand side of the refinement theorems) -/
def runSpec {α : Type} [Inhabited α] (sem : LineSem α) (h : List α → String) (f : File α) :
    List (Op α) → List String → List String
  | [], acc => acc.reverse
  | op :: ops, acc =>
    let r := Spec.step sem f op
    runSpec sem h r.2 ops (s!"{showOut h r.1}@{r.2.pos}" :: acc)

def parseMOp (tok : String) : Option MOp :=
  if tok = "ra" then some .readAll
  else if tok = "s" then some .seek0
  else if tok.startsWith "r" then ((tok.drop 1).toString.toNat?).map .read
  else none

def runMFR {α : Type} (h : List α → String) (m : MFR α) : List MOp → List String → List String
  | [], acc => acc.reverse
  | op :: ops, acc =>
    let r := m.step op
    runMFR h r.2 ops ((match r.1 with | some d => "D" ++ h d | none => "N") :: acc)

/-- `offs = true`: after the `n` contents come `n` positions (the members are handed over there) -/
def handleM {α : Type} (payload : String → Option (List α)) (h : List α → String)
    (n : Nat) (rest : List String) (offs : Bool := false) : String :=
  let files := rest.take n
  let poss := if offs then (rest.drop n).take n else []
  let toks := rest.drop (if offs then 2 * n else n)
  if files.length ≠ n || (offs && poss.length ≠ n) then "bad-op" else
  match files.foldr (fun t acc => match acc, payload t with
      | some l, some d => some (d :: l)
      | _, _ => none) (some []),
    poss.foldr (fun t acc => match acc, t.toNat? with
      | some l, some p => some (p :: l)
      | _, _ => none) (some []),
    toks.foldr (fun t acc => match acc, parseMOp t with
      | some l, some op => some (op :: l)
      | _, _ => none) (some []) with
  | some contents, some ps, some ops =>
    let m : MFR α := if offs then MFR.initAt ((contents.zip ps).map (fun dp => ⟨dp.1, dp.2⟩)) else MFR.init contents
    ";".intercalate (runMFR h m ops [])
  | _, _, _ => "bad-op"

def handle (line : String) : String :=
  match words line with
  | "B" :: ms :: toks =>
    match ms.toNat?, parseCalls bytesOfHex? toks with
    | some ms, some ops => ";".intercalate (runBytes (SBytes.init ms) ops [])
    | _, _ => "bad-op"
  | "S" :: ms :: ch :: toks =>
    match ms.toNat?, (if ch = "R" then some C18.Generated.READ_CHUNK_SIZE else ch.toNat?), parseCalls charsOfHex? toks with
    | some ms, some ch, some ops => ";".intercalate (runStr (SStr.init ms ch) ops [])
    | _, _, _ => "bad-op"
  | "F" :: kind :: toks =>
    if kind = "b" then
      match parseOps bytesOfHex? toks with
      | some ops => ";".intercalate (runSpec bytesSem hexOfBytes File.empty ops [])
      | none => "bad-op"
    else if kind = "t" || kind = "d" then
      match parseOps charsOfHex? toks with
      | some ops => ";".intercalate (runSpec (if kind = "t" then textSem else lfSem) hexOfChars File.empty ops [])
      | none => "bad-op"
    else "bad-op"
  | "M" :: kind :: n :: rest =>
    match n.toNat? with
    | some n =>
      if kind = "b" then handleM bytesOfHex? hexOfBytes n rest
      else if kind = "t" then handleM charsOfHex? hexOfChars n rest
      else "bad-op"
    | none => "bad-op"
  | "MO" :: kind :: n :: rest =>
    match n.toNat? with
    | some n =>
      if kind = "b" then handleM bytesOfHex? hexOfBytes n rest true
      else if kind = "t" then handleM charsOfHex? hexOfChars n rest true
      else "bad-op"
    | none => "bad-op"
  | _ => "bad-op"

end C18.Driver
