import BoltonsVerif.C18.Model
/-
C18 — lemmas about the abstract file (`File`), `takeLine` / `splitLines`.
-/
namespace C18

variable {α : Type}

/-! ### abstract file -/

theorem File.write_empty [Inhabited α] (d : List α) : (File.empty : File α).write d = ⟨d, d.length⟩ := by
  simp [File.write, File.empty]

@[simp] theorem File.rest_seek0 (f : File α) : (f.seek 0).rest = f.data := by simp [File.rest, File.seek]
@[simp] theorem File.seek_data (f : File α) (p : Nat) : (f.seek p).data = f.data := rfl
@[simp] theorem File.seek_pos (f : File α) (p : Nat) : (f.seek p).pos = p := rfl
@[simp] theorem File.seek_seek (f : File α) (p q : Nat) : (f.seek p).seek q = f.seek q := rfl
theorem File.seek_self (f : File α) : f.seek f.pos = f := rfl

theorem File.rest_length (f : File α) : f.rest.length = f.data.length - f.pos := by simp [File.rest]

theorem File.rest_nil_of_ge (f : File α) (h : f.data.length ≤ f.pos) : f.rest = [] := by
  simp [File.rest, h]

/-- lines: the first line is a prefix of the text -/
theorem takeLine_append_drop (nl : α → Bool) (l : List α) :
    takeLine nl l ++ l.drop (takeLine nl l).length = l := by
  induction l with
  | nil => simp [takeLine]
  | cons x xs ih => by_cases h : nl x <;> simp [takeLine, h, ih]

theorem takeLine_length_le (nl : α → Bool) (l : List α) : (takeLine nl l).length ≤ l.length := by
  induction l with
  | nil => simp [takeLine]
  | cons x xs ih => by_cases h : nl x <;> simp [takeLine, h] <;> omega

theorem takeLine_eq_nil (nl : α → Bool) (l : List α) : takeLine nl l = [] ↔ l = [] := by
  cases l with
  | nil => simp [takeLine]
  | cons x xs => by_cases h : nl x <;> simp [takeLine, h]

/-- `readlines()` is repeated `readline()` -/
theorem splitLines_cons (nl : α → Bool) (l : List α) (h : l ≠ []) :
    splitLines nl l = takeLine nl l :: splitLines nl (l.drop (takeLine nl l).length) := by
  induction l with
  | nil => exact absurd rfl h
  | cons x xs ih =>
    by_cases hx : nl x
    · simp [splitLines, takeLine, hx]
    · simp only [splitLines, takeLine, hx]
      cases xs with
      | nil => simp [splitLines, takeLine]
      | cons y ys =>
        have := ih (by simp)
        rw [this]
        simp


def InRange (f : File α) : Prop := f.pos ≤ f.data.length

theorem File.readN_fst (f : File α) (n : Nat) : (f.readN n).1 = f.rest.take n := rfl
theorem File.readN_data (f : File α) (n : Nat) : (f.readN n).2.data = f.data := rfl
theorem File.readN_rest (f : File α) (n : Nat) : (f.readN n).2.rest = f.rest.drop n := by
  simp only [File.readN, File.rest, List.length_take, List.length_drop, List.drop_drop]
  by_cases h : n ≤ f.data.length - f.pos
  · rw [Nat.min_eq_left h]
  · have h' : f.data.length - f.pos ≤ n := by omega
    rw [Nat.min_eq_right h']
    rw [List.drop_eq_nil_of_le (by omega), List.drop_eq_nil_of_le (by omega)]
theorem File.readAll_fst (f : File α) : f.readAll.1 = f.rest := rfl
theorem File.readAll_data (f : File α) : f.readAll.2.data = f.data := rfl
theorem File.readAll_rest (f : File α) : f.readAll.2.rest = [] := by
  simp only [File.readAll, File.rest, List.length_drop]
  exact List.drop_eq_nil_of_le (by omega)

/-- how many units `read(size)` asks for -/
def amount (f : File α) : Option Nat → Nat
  | none => f.rest.length
  | some n => n

theorem File.read_facts (f : File α) (size : Option Nat) :
    (f.read size).1 = f.rest.take (amount f size) ∧ (f.read size).2.rest = f.rest.drop (amount f size) ∧
    (f.read size).2.data = f.data ∧ (InRange f → InRange (f.read size).2) := by
  cases size with
  | none =>
    refine ⟨by simp [File.read, amount, File.readAll_fst], by simp [File.read, amount, File.readAll_rest],
      rfl, ?_⟩
    intro h; have := File.rest_length f; simp [File.read, File.readAll, InRange] at *; omega
  | some n =>
    refine ⟨rfl, by simp [File.read, amount, File.readN_rest], rfl, ?_⟩
    intro h; have := File.rest_length f; simp [File.read, File.readN, InRange] at *; omega

theorem File.write_inRange [Inhabited α] (f : File α) (s : List α) (h : InRange f) : InRange (f.write s) := by
  unfold InRange File.write at *
  simp
  omega

theorem File.write_end [Inhabited α] (f : File α) (s : List α) (h : f.pos = f.data.length) :
    f.write s = ⟨f.data ++ s, f.pos + s.length⟩ := by
  simp [File.write, h]

/-- two consecutive writes are one write of the concatenation (whatever the position: overwriting, extending) -/
theorem File.write_write [Inhabited α] (f : File α) (a b : List α) : (f.write a).write b = f.write (a ++ b) := by
  have hlen : (f.data.take f.pos ++ List.replicate (f.pos - f.data.length) default).length = f.pos := by
    simp only [List.length_append, List.length_take, List.length_replicate]; omega
  unfold File.write
  simp only [File.mk.injEq]
  refine ⟨?_, by simp only [List.length_append]; omega⟩
  generalize hP : f.data.take f.pos ++ List.replicate (f.pos - f.data.length) default = P at hlen
  have e1 : (P ++ a ++ f.data.drop (f.pos + a.length)).take (f.pos + a.length) = P ++ a := by
    rw [List.take_append_of_le_length (by simp only [List.length_append]; omega)]
    exact List.take_of_length_le (by simp only [List.length_append]; omega)
  have e2 : (P ++ a ++ f.data.drop (f.pos + a.length)).drop (f.pos + a.length + b.length)
      = f.data.drop (f.pos + (a ++ b).length) := by
    rw [List.drop_append, List.drop_of_length_le (by simp only [List.length_append]; omega), List.drop_drop]
    simp only [List.length_append, List.nil_append]
    congr 1; omega
  have e3 : f.pos + a.length - (P ++ a ++ f.data.drop (f.pos + a.length)).length = 0 := by
    simp only [List.length_append]; omega
  rw [e1, e2, e3]
  simp [List.append_assoc]

/-- `writelines`: the loop of writes is one write of the joined pieces (inside the data; an empty batch beyond
    the end would differ only by `File.write`'s padding) -/
theorem File.foldl_write [Inhabited α] (f : File α) (ss : List (List α)) (h : InRange f) :
    ss.foldl File.write f = f.write ss.flatten := by
  induction ss generalizing f with
  | nil =>
    unfold InRange at h
    cases f with
    | mk d p =>
      simp only [List.foldl_nil, List.flatten_nil, File.write, List.append_nil, List.length_nil, Nat.add_zero] at h ⊢
      rw [Nat.sub_eq_zero_of_le h]
      simp
  | cons a ss ih =>
    simp only [List.foldl_cons, List.flatten_cons]
    rw [ih _ (File.write_inRange f a h), File.write_write]

end C18
