import BoltonsVerif.C18.Model
/-
C18 — the prefix code standing for UTF-8: `encode`, `fit`, the incremental decoder on valid input.
-/
namespace C18


/-! ### the prefix code -/

theorem width_pos (c : Char) : 0 < width c := Char.utf8Size_pos c

theorem encChar_length (c : Char) : (encChar c).length = width c := by simp [encChar]

theorem encChar_eq (c : Char) : ∃ t, encChar c = (c, 0) :: t ∧ t.length + 1 = width c := by
  have h := width_pos c
  unfold encChar
  obtain ⟨n, hn⟩ : ∃ n, width c = n + 1 := ⟨width c - 1, by omega⟩
  rw [hn, List.range_succ_eq_map]
  exact ⟨_, rfl, by simp⟩

@[simp] theorem encode_nil : encode [] = [] := rfl
theorem encode_cons (c : Char) (cs : List Char) : encode (c :: cs) = encChar c ++ encode cs := by
  simp [encode]
theorem encode_append (a b : List Char) : encode (a ++ b) = encode a ++ encode b := by
  simp [encode]

/-- number of code units -/
def blen (cs : List Char) : Nat := (encode cs).length
@[simp] theorem blen_nil : blen [] = 0 := rfl
theorem blen_cons (c : Char) (cs : List Char) : blen (c :: cs) = width c + blen cs := by
  simp [blen, encode_cons, encChar_length]
theorem blen_append (a b : List Char) : blen (a ++ b) = blen a + blen b := by
  simp [blen, encode_append]
theorem length_le_blen (cs : List Char) : cs.length ≤ blen cs := by
  induction cs with
  | nil => simp
  | cons c cs ih => have := width_pos c; rw [blen_cons]; simp; omega

/-- how many whole characters of `cs` fit into `m` code units -/
def fit : Nat → List Char → Nat
  | _, [] => 0
  | m, c :: cs => if width c ≤ m then fit (m - width c) cs + 1 else 0

theorem fit_le (m : Nat) (cs : List Char) : fit m cs ≤ cs.length := by
  induction cs generalizing m with
  | nil => simp [fit]
  | cons c cs ih => unfold fit; split <;> simp; exact ih _

theorem blen_take_fit (m : Nat) (cs : List Char) : blen (cs.take (fit m cs)) ≤ m := by
  induction cs generalizing m with
  | nil => simp [fit]
  | cons c cs ih =>
    unfold fit; split
    · next h => rw [List.take_succ_cons, blen_cons]; have := ih (m - width c); omega
    · simp

/-- the character after the fitted ones does not fit -/
theorem fit_maximal (m : Nat) (cs : List Char) (c : Char) (t : List Char)
    (h : cs.drop (fit m cs) = c :: t) : m - blen (cs.take (fit m cs)) < width c := by
  induction cs generalizing m with
  | nil => simp at h
  | cons d cs ih =>
    unfold fit at h ⊢
    split
    · next hd =>
      rw [if_pos hd] at h
      rw [List.take_succ_cons, blen_cons]
      have := ih (m - width d) (by simpa using h)
      omega
    · next hd =>
      rw [if_neg hd] at h
      simp at h
      simp
      rw [← h.1]; omega

theorem fit_all (m : Nat) (cs : List Char) (h : blen cs ≤ m) : fit m cs = cs.length := by
  induction cs generalizing m with
  | nil => simp [fit]
  | cons c cs ih =>
    rw [blen_cons] at h
    unfold fit
    rw [if_pos (by omega), ih _ (by omega)]
    simp

/-- the incremental decoder on a prefix of a valid encoding -/
theorem decodeF_take (fuel m : Nat) (cs : List Char) (hf : ((encode cs).take m).length ≤ fuel) :
    decodeF fuel ((encode cs).take m) =
      (cs.take (fit m cs), (encode (cs.drop (fit m cs))).take (m - blen (cs.take (fit m cs))), false) := by
  induction cs generalizing fuel m with
  | nil => cases fuel <;> simp [decodeF, fit]
  | cons c cs ih =>
    rcases encChar_eq c with ⟨t, ht, htl⟩
    rw [encode_cons, ht] at hf ⊢
    cases m with
    | zero => cases fuel <;> simp [decodeF, fit, width_pos c, Nat.not_le.2 (width_pos c)]
    | succ m =>
      simp only [List.cons_append, List.take_succ_cons, List.length_cons] at hf ⊢
      cases fuel with
      | zero => omega
      | succ fuel =>
        simp only [decodeF]
        rw [if_neg (by simp)]
        by_cases hw : width c ≤ m + 1
        · have hlen : ¬ ((List.take 3 (List.take m (t ++ encode cs))).length + 1 < width c) := by
            simp only [List.length_take, List.length_append]
            have : t.length ≤ m := by omega
            have : width c ≤ 4 := Char.utf8Size_le_four c
            omega
          rw [if_neg hlen]
          have hdrop : List.drop (width c - 1) (List.take m (t ++ encode cs))
              = List.take (m + 1 - width c) (encode cs) := by
            have ht' : width c - 1 = t.length := by omega
            rw [ht', List.drop_take, List.drop_left']
            · congr 1; omega
            · rfl
          rw [hdrop]
          have hfuel : ((encode cs).take (m + 1 - width c)).length ≤ fuel := by
            simp only [List.length_take, List.length_append] at hf ⊢
            have : t.length ≤ m := by omega
            omega
          rw [ih fuel (m + 1 - width c) hfuel]
          simp only [fit, if_pos hw, List.take_succ_cons, List.drop_succ_cons, blen_cons]
          rw [Nat.sub_sub]
        · have hlen : (List.take 3 (List.take m (t ++ encode cs))).length + 1 < width c := by
            simp only [List.length_take]; omega
          rw [if_pos hlen]
          simp [fit, hw, encode_cons, ht]

theorem decode_take (m : Nat) (cs : List Char) :
    decode ((encode cs).take m) =
      (cs.take (fit m cs), (encode (cs.drop (fit m cs))).take (m - blen (cs.take (fit m cs))), false) :=
  decodeF_take _ m cs (Nat.le_refl _)
end C18
