import BoltonsVerif.C18.ReadLine
/-
C18 — SpooledStringIO refines a plain text file (coherence invariant `CohAt`).
-/
namespace C18


/-- the spooled text file is coherent with the text `text` at logical position `a` (code points) -/
structure CohAt (s : SStr) (text : List Char) (a : Nat) : Prop where
  data : s.st.data = encode text
  inr : InRange s.st
  ale : a ≤ text.length
  rc : ∃ X p, RC s.st s.rd X p ∧ text.drop a = pend s.rd ++ X
  lb : LbOK s.rd

theorem CohAt_congr (s s' : SStr) (text : List Char) (a : Nat) (h : CohAt s text a)
    (h1 : s'.st = s.st) (h2 : s'.rd = s.rd) : CohAt s' text a := by
  rcases h with ⟨hd, hi, ha, hr, hl⟩
  exact ⟨by rw [h1]; exact hd, by rw [h1]; exact hi, ha, by rw [h1, h2]; exact hr, by rw [h2]; exact hl⟩

theorem SStr.read_spec (s : SStr) (text : List Char) (a : Nat) (h : CohAt s text a) (size : Option Nat) :
    (s.read size).1 = wanted size (text.drop a) ∧
    CohAt (s.read size).2 text (a + (s.read size).1.length) ∧
    (s.read size).2.tell = s.tell + (s.read size).1.length ∧
    (s.read size).2.chunk = s.chunk := by
  rcases h with ⟨hd, hi, ha, ⟨X, p, hrc, hx⟩, hl⟩
  rcases Reader.read_spec s.st s.rd X p hrc hi size with ⟨hout, X', p', hrc', hlb', hcb', hd', hin'⟩
  have hout' : (s.read size).1 = wanted size (text.drop a) := by
    simp only [SStr.read]; rw [hout, hx]
  have hlen : (s.read size).1.length ≤ (text.drop a).length := by
    rw [hout']; exact wanted_length_le _ _
  refine ⟨hout', ⟨?_, ?_, ?_, ⟨X', p', ?_, ?_⟩, ?_⟩, rfl, rfl⟩
  · simp only [SStr.read]; rw [hd', hd]
  · exact hin'
  · simp only [List.length_drop] at hlen; omega
  · exact hrc'
  · show text.drop (a + (s.read size).1.length) = pend (Reader.read s.st s.rd size).2.2 ++ X'
    rw [pend_of_nil _ hlb', hcb', ← hx, List.drop_drop]
    rfl
  · left; exact hlb'

theorem SStr.read_some_len (s : SStr) (text : List Char) (a n : Nat) (h : CohAt s text a)
    (hn : a + n ≤ text.length) : (s.read (some n)).1.length = n := by
  rw [(SStr.read_spec s text a h (some n)).1]
  simp only [wanted_some, List.length_take, List.length_drop]; omega

theorem SStr.traverse_spec (fuel : Nat) (s : SStr) (text : List Char) (cur dest : Nat)
    (h : CohAt s text cur) (hd : dest ≤ text.length) (hc : cur ≤ dest) (hch : 0 < s.chunk)
    (hf : dest - cur + 1 ≤ fuel) :
    CohAt (SStr.traverse fuel s cur dest) text dest ∧ (SStr.traverse fuel s cur dest).chunk = s.chunk := by
  induction fuel generalizing s cur with
  | zero => omega
  | succ fuel ih =>
    unfold SStr.traverse
    by_cases h1 : cur = dest
    · rw [if_pos h1]; subst h1; exact ⟨h, rfl⟩
    · rw [if_neg h1]
      by_cases h2 : cur + s.chunk > dest
      · rw [if_pos h2]
        have hr := SStr.read_spec s text cur h (some (dest - cur))
        have hl := SStr.read_some_len s text cur (dest - cur) h (by omega)
        rw [hl] at hr
        refine ⟨?_, hr.2.2.2⟩
        have : cur + (dest - cur) = dest := by omega
        rw [this] at hr
        exact hr.2.1
      · rw [if_neg h2]
        have hr := SStr.read_spec s text cur h (some s.chunk)
        have hl := SStr.read_some_len s text cur s.chunk h (by omega)
        have hne : ¬ (s.read (some s.chunk)).1.isEmpty = true := by
          intro he
          have := List.isEmpty_iff.1 he
          rw [this] at hl; simp at hl; omega
        rw [if_neg hne]
        rw [hl] at hr
        have := ih (s.read (some s.chunk)).2 (cur + s.chunk) hr.2.1 (by omega) (by rw [hr.2.2.2]; exact hch)
          (by omega)
        rw [hr.2.2.2] at this
        exact this

theorem CohAt_bseek0 (s : SStr) (text : List Char) (a : Nat) (h : CohAt s text a) :
    CohAt (s.bseek 0) text 0 := by
  refine ⟨h.data, by simp [SStr.bseek, InRange, File.seek], Nat.zero_le _, ⟨text, 0, ⟨?_, rfl, ?_, rfl⟩, ?_⟩, Or.inl rfl⟩
  · simp [SStr.bseek, File.rest, File.seek, h.data]
  · cases text with
    | nil => rfl
    | cons c t => exact width_pos c
  · simp [SStr.bseek, pend, Reader.merge, Reader.reset]

theorem SStr.seek_spec (s : SStr) (text : List Char) (a p : Nat) (h : CohAt s text a)
    (hp : p ≤ text.length) (hch : 0 < s.chunk) :
    CohAt (s.seek p) text p ∧ (s.seek p).tell = p ∧ (s.seek p).chunk = s.chunk := by
  have h0 := CohAt_bseek0 s text a h
  have ht := SStr.traverse_spec (p + 1) (s.bseek 0) text 0 p h0 hp (Nat.zero_le _) hch (by omega)
  exact ⟨CohAt_congr _ _ text p ht.1 rfl rfl, rfl, ht.2⟩

theorem SStr.seekCur_spec (s : SStr) (text : List Char) (n : Nat) (h : CohAt s text s.tell)
    (hp : s.tell + n ≤ text.length) (hch : 0 < s.chunk) :
    CohAt (s.seekCur n) text (s.tell + n) ∧ (s.seekCur n).tell = s.tell + n ∧ (s.seekCur n).chunk = s.chunk := by
  have ht := SStr.traverse_spec (n + 1) s text s.tell (s.tell + n) h hp (by omega) hch (by omega)
  exact ⟨CohAt_congr _ _ text _ ht.1 rfl rfl, rfl, ht.2⟩

theorem SStr.lenLoop_spec (fuel : Nat) (s : SStr) (text : List Char) (cur total : Nat)
    (h : CohAt s text cur) (hch : 0 < s.chunk) (hf : text.length - cur + 1 ≤ fuel) :
    (SStr.lenLoop fuel s total).1 = total + (text.length - cur) ∧
    CohAt (SStr.lenLoop fuel s total).2 text text.length ∧
    (SStr.lenLoop fuel s total).2.chunk = s.chunk := by
  induction fuel generalizing s cur total with
  | zero => omega
  | succ fuel ih =>
    unfold SStr.lenLoop
    have hr := SStr.read_spec s text cur h (some s.chunk)
    by_cases he : (s.read (some s.chunk)).1.isEmpty = true
    · rw [if_pos he]
      have hnil := List.isEmpty_iff.1 he
      have hcur : cur = text.length := by
        have h1 := hr.1
        rw [hnil] at h1
        have := h.ale
        have h2 : ((text.drop cur).take s.chunk).length = 0 := by rw [wanted_some] at h1; rw [← h1]; rfl
        simp only [List.length_take, List.length_drop] at h2
        omega
      rw [hnil] at hr
      subst hcur
      exact ⟨by simp, by simpa using hr.2.1, hr.2.2.2⟩
    · rw [if_neg he]
      have hpos : 0 < (s.read (some s.chunk)).1.length := by
        apply List.length_pos_iff.2
        intro hh; apply he; simp [hh]
      have hle : cur + (s.read (some s.chunk)).1.length ≤ text.length := hr.2.1.ale
      have := ih (s.read (some s.chunk)).2 (cur + (s.read (some s.chunk)).1.length)
        (total + (s.read (some s.chunk)).1.length) hr.2.1 (by rw [hr.2.2.2]; exact hch) (by omega)
      rw [hr.2.2.2] at this
      refine ⟨?_, this.2⟩
      rw [this.1]; omega

theorem SStr.len_spec (s : SStr) (text : List Char) (h : CohAt s text s.tell) (hch : 0 < s.chunk) :
    s.len.1 = text.length ∧ CohAt s.len.2 text s.tell ∧ s.len.2.tell = s.tell ∧ s.len.2.chunk = s.chunk := by
  have h0 := CohAt_bseek0 s text s.tell h
  have hfuel : text.length - 0 + 1 ≤ s.st.data.length + 2 := by
    rw [h.data]; have := length_le_blen text; simp only [blen] at this; omega
  have hl := SStr.lenLoop_spec (s.st.data.length + 2) (s.bseek 0) text 0 0 h0 hch hfuel
  have hs := SStr.seek_spec (SStr.lenLoop (s.st.data.length + 2) (s.bseek 0) 0).2 text text.length s.tell
    hl.2.1 h.ale (by rw [hl.2.2]; exact hch)
  refine ⟨by simp only [SStr.len]; rw [hl.1]; simp, hs.1, hs.2.1, ?_⟩
  simp only [SStr.len]; rw [hs.2.2, hl.2.2]; rfl



theorem splitL_sum_length (u : Bool) (l : List Char) : ((splitL u l).map List.length).sum = l.length := by
  rw [← List.length_flatten, splitL_flatten]

/-- full coherence: the logical position is `tell` -/
def Coh (s : SStr) (text : List Char) : Prop := CohAt s text s.tell

theorem CohAt_end (s : SStr) (text : List Char) (h : CohAt s text text.length) :
    pend s.rd = [] ∧ s.st.pos = s.st.data.length ∧ s.rd.bytebuf = [] ∧ s.rd.bad = false := by
  rcases h with ⟨hd, hi, ha, ⟨X, p, hrc, hx⟩, hl⟩
  rw [List.drop_length] at hx
  have hx' := List.append_eq_nil_iff.1 hx.symm
  rcases hx' with ⟨hp, hX⟩
  subst hX
  have hp0 : p = 0 := hrc.part
  subst hp0
  have hrest : s.st.rest = [] := by rw [hrc.rest]; simp
  have hlen := File.rest_length s.st
  rw [hrest] at hlen
  unfold InRange at hi
  simp at hlen
  exact ⟨hp, by omega, by rw [hrc.bb]; simp, hrc.good⟩

theorem SStr.rollover_spec (s : SStr) (text : List Char) (h : Coh s text) (hch : 0 < s.chunk) :
    Coh s.rollover text ∧ s.rollover.tell = s.tell ∧ s.rollover.chunk = s.chunk := by
  unfold SStr.rollover
  split
  · exact ⟨h, rfl, rfl⟩
  · have h0 : CohAt { s with st := (File.empty : File CU).write s.st.data, rd := Reader.reset, rolled := true }
        text text.length := by
      refine ⟨?_, ?_, Nat.le_refl _, ⟨[], 0, ⟨?_, rfl, rfl, rfl⟩, ?_⟩, Or.inl rfl⟩
      · show ((File.empty : File CU).write s.st.data).data = encode text
        rw [File.write_empty]; exact h.data
      · show InRange ((File.empty : File CU).write s.st.data)
        rw [File.write_empty]; simp [InRange]
      · show ((File.empty : File CU).write s.st.data).rest = _
        rw [File.write_empty]; simp [File.rest]
      · simp [pend, Reader.merge, Reader.reset]
    have hs := SStr.seek_spec _ text text.length s.tell h0 h.ale hch
    refine ⟨?_, hs.2.1, hs.2.2⟩
    unfold Coh; rw [hs.2.1]; exact hs.1

theorem SStr.write_spec (s : SStr) (text cs : List Char) (h : Coh s text) (he : s.tell = text.length)
    (hch : 0 < s.chunk) :
    Coh (s.write cs) (text ++ cs) ∧ (s.write cs).tell = (text ++ cs).length ∧ (s.write cs).chunk = s.chunk := by
  -- appending to any coherent state that stands at the end
  have key : ∀ (s0 s' : SStr), Coh s0 text → s0.tell = text.length → s'.st = s0.st.write (encode cs) →
      s'.rd = s0.rd → s'.tell = s0.tell + cs.length → Coh s' (text ++ cs) := by
    intro s0 s' h0 he0 hst hrd htell
    unfold Coh at h0
    rw [he0] at h0
    rcases CohAt_end s0 text h0 with ⟨hp, hpos, hbb, hgood⟩
    have hw := File.write_end s0.st (encode cs) hpos
    unfold Coh
    have ht : s'.tell = (text ++ cs).length := by rw [htell, he0]; simp
    rw [ht]
    refine ⟨?_, ?_, Nat.le_refl _, ⟨[], 0, ⟨?_, ?_, rfl, ?_⟩, ?_⟩, by rw [hrd]; exact h0.lb⟩
    · rw [hst, hw, h0.data, encode_append]
    · rw [hst, hw]; simp [InRange, hpos]
    · rw [hst, hw]; simp [File.rest, hpos]
    · rw [hrd, hbb]; rfl
    · rw [hrd]; exact hgood
    · rw [hrd, hp]; simp
  unfold SStr.write
  split
  · have hro := SStr.rollover_spec s text h hch
    refine ⟨key s.rollover _ hro.1 (by rw [hro.2.1, he]) rfl rfl (by simp [hro.2.1]), by simp [he], hro.2.2⟩
  · exact ⟨key s _ h he rfl rfl rfl, by simp [he], rfl⟩

/-- `writelines`: the loop of writes (each with its own rollover decision) appends the joined pieces -/
theorem SStr.writelines_spec (ss : List (List Char)) (s : SStr) (text : List Char) (h : Coh s text)
    (he : s.tell = text.length) (hch : 0 < s.chunk) :
    Coh (ss.foldl SStr.write s) (text ++ ss.flatten) ∧ (ss.foldl SStr.write s).tell = (text ++ ss.flatten).length ∧
    (ss.foldl SStr.write s).chunk = s.chunk := by
  induction ss generalizing s text with
  | nil => simpa using ⟨h, he⟩
  | cons cs ss ih =>
    have hw := SStr.write_spec s text cs h he hch
    have := ih (s.write cs) (text ++ cs) hw.1 hw.2.1 (by rw [hw.2.2]; exact hch)
    simp only [List.foldl_cons, List.flatten_cons, ← List.append_assoc]
    exact ⟨this.1, this.2.1, by rw [this.2.2, hw.2.2]⟩

theorem SStr.readlines_spec (s : SStr) (text : List Char) (h : Coh s text) :
    s.readlines.1 = splitL false (text.drop s.tell) ∧ Coh s.readlines.2 text ∧
    s.readlines.2.tell = text.length ∧ s.readlines.2.chunk = s.chunk := by
  have hr := SStr.read_spec s text s.tell h none
  simp only [wanted_none] at hr
  have hout : (s.rd.read s.st none).1 = text.drop s.tell := hr.1
  have hle := h.ale
  have htell : s.readlines.2.tell = text.length := by
    simp only [SStr.readlines]
    rw [hout, splitL_sum_length, List.length_drop]; omega
  refine ⟨by simp only [SStr.readlines]; rw [hout], ?_, htell, rfl⟩
  unfold Coh
  rw [htell]
  have h2 := hr.2.1
  rw [hr.1, List.length_drop] at h2
  have : s.tell + (text.length - s.tell) = text.length := by omega
  rw [this] at h2
  exact CohAt_congr _ _ text _ h2 rfl rfl

theorem SStr.getvalue_spec (s : SStr) (text : List Char) (h : Coh s text) (hch : 0 < s.chunk) :
    s.getvalue.1 = text ∧ Coh s.getvalue.2 text ∧ s.getvalue.2.tell = s.tell ∧
    s.getvalue.2.chunk = s.chunk := by
  have h0 := SStr.seek_spec s text s.tell 0 h (Nat.zero_le _) hch
  have hr := SStr.read_spec (s.seek 0) text 0 h0.1 none
  simp only [wanted_none, List.drop_zero] at hr
  have hs := SStr.seek_spec ((s.seek 0).read none).2 text _ s.tell hr.2.1 h.ale
    (by rw [hr.2.2.2, h0.2.2]; exact hch)
  refine ⟨hr.1, ?_, hs.2.1, ?_⟩
  · unfold Coh; simp only [SStr.getvalue]; rw [hs.2.1]; exact hs.1
  · simp only [SStr.getvalue]; rw [hs.2.2, hr.2.2.2, h0.2.2]

theorem SStr.seekEnd_spec (s : SStr) (text : List Char) (n : Nat) (h : Coh s text) (hch : 0 < s.chunk) :
    Coh (s.seekEnd n) text ∧ (s.seekEnd n).tell = text.length - n ∧ (s.seekEnd n).chunk = s.chunk ∧
    s.len.1 = text.length := by
  have hl := SStr.len_spec s text h hch
  have h0 := CohAt_bseek0 s.len.2 text _ hl.2.1
  have ht := SStr.traverse_spec (s.len.1 - n + 1) (s.len.2.bseek 0) text 0 (s.len.1 - n) h0
    (by rw [hl.1]; omega) (Nat.zero_le _) (by show 0 < s.len.2.chunk; rw [hl.2.2.2]; exact hch) (by omega)
  refine ⟨?_, by simp only [SStr.seekEnd]; rw [hl.1], ?_, hl.1⟩
  · unfold Coh
    simp only [SStr.seekEnd]
    exact CohAt_congr _ _ text _ ht.1 rfl rfl
  · simp only [SStr.seekEnd]; rw [ht.2]; show s.len.2.chunk = s.chunk; exact hl.2.2.2



/-! ### readline / iteration of SpooledStringIO -/

theorem CohAt.toRS {s : SStr} {text : List Char} {a : Nat} (h : CohAt s text a) : RS s.st s.rd (text.drop a) := by
  rcases h.rc with ⟨X, p, hrc, hx⟩
  exact ⟨⟨X, p, hrc, hx⟩, h.inr⟩

theorem firstLine_length_le (u : Bool) (l : List Char) : (firstLine u l).length ≤ l.length := by
  fun_induction firstLine u l <;> simp_all <;> omega

/-- one line of the codec reader, from any coherent state: the first `str.splitlines` line of what is left -/
theorem SStr.codecLine_spec (s : SStr) (text : List Char) (a : Nat) (h : CohAt s text a) :
    s.codecLine.1 = firstLine true (text.drop a) ∧ CohAt s.codecLine.2 text (a + s.codecLine.1.length) ∧
    s.codecLine.2.tell = s.tell ∧ s.codecLine.2.chunk = s.chunk ∧
    s.codecLine.2.maxSize = s.maxSize ∧ s.codecLine.2.rolled = s.rolled := by
  have hr := Reader.readline_spec s.st s.rd (text.drop a) (CohAt.toRS h) h.lb
  have hout : s.codecLine.1 = firstLine true (text.drop a) := hr.1
  have hlen : s.codecLine.1.length ≤ (text.drop a).length := by
    rw [hout]; exact firstLine_length_le _ _
  refine ⟨hout, ?_, rfl, rfl, rfl, rfl⟩
  rcases hr.2.1 with ⟨⟨X, p, hrc, hx⟩, hin⟩
  refine ⟨?_, hin, ?_, ⟨X, p, hrc, ?_⟩, hr.2.2.1⟩
  · show (s.rd.readline s.st).2.1.data = encode text
    rw [hr.2.2.2, h.data]
  · have := h.ale; simp only [List.length_drop] at hlen; omega
  · rw [← List.drop_drop]; exact hx

/-! #### joining codec lines until one ends in CR / LF gives io.StringIO's line -/

theorem endsCRLF_nil : endsCRLF [] = false := rfl

theorem endsCRLF_cons (c : Char) (cs : List Char) (h : cs ≠ []) : endsCRLF (c :: cs) = endsCRLF cs := by
  cases cs with
  | nil => exact absurd rfl h
  | cons d ds => simp [endsCRLF, List.getLast?_cons_cons]

theorem endsCRLF_append (a b : List Char) (h : b ≠ []) : endsCRLF (a ++ b) = endsCRLF b := by
  induction a with
  | nil => rfl
  | cons c a ih =>
    rw [List.cons_append, endsCRLF_cons c (a ++ b) (by simp [h]), ih]

theorem endsCRLF_single (c : Char) : endsCRLF [c] = (decide (c = '\r') || decide (c = '\n')) := by
  simp [endsCRLF]

/-- io.StringIO's line = the codec reader's line, continued (when that one stopped at a boundary that is not CR / LF,
    i.e. VT, FF, FS, GS, RS, NEL, LS, PS) by io.StringIO's line of what follows -/
theorem firstLine_join (l : List Char) :
    firstLine false l = firstLine true l ++
      (if endsCRLF (firstLine true l) then [] else firstLine false (l.drop (firstLine true l).length)) := by
  induction l with
  | nil => simp [firstLine, endsCRLF]
  | cons c cs ih =>
    by_cases hcr : c = '\r'
    · subst hcr
      cases cs with
      | nil => simp [firstLine, endsCRLF]
      | cons d cs' => by_cases hd : d = '\n' <;> simp [firstLine, hd, endsCRLF]
    · by_cases hlf : c = '\n'
      · subst hlf; simp [firstLine, isBrk, endsCRLF]
      · have hbf : isBrk false c = false := by simp [isBrk, hlf]
        by_cases hex : isExotic c = true
        · have hbt : isBrk true c = true := by simp [isBrk, hex]
          have h1 : firstLine true (c :: cs) = [c] := by simp [firstLine, hcr, hbt]
          have h2 : firstLine false (c :: cs) = c :: firstLine false cs := by simp [firstLine, hcr, hbf]
          rw [h1, h2, endsCRLF_single]
          simp [hcr, hlf]
        · have hbt : isBrk true c = false := by simp [isBrk, hlf, hex]
          have h1 : firstLine true (c :: cs) = c :: firstLine true cs := by simp [firstLine, hcr, hbt]
          have h2 : firstLine false (c :: cs) = c :: firstLine false cs := by simp [firstLine, hcr, hbf]
          rw [h1, h2]
          by_cases hn : firstLine true cs = []
          · have hcs : cs = [] := (firstLine_eq_nil true cs).1 hn
            subst hcs
            simp [firstLine, endsCRLF_single, hcr, hlf]
          · rw [endsCRLF_cons c _ hn]
            simp only [List.length_cons, List.drop_succ_cons, List.cons_append]
            rw [← ih]

/-- the loop of the fixed `readline()`, from a coherent state with `ret` already read: it returns `ret`, continued by
    io.StringIO's line of what is left unless `ret` is empty or already ends in CR / LF -/
theorem SStr.rlJoin_spec (fuel : Nat) (ret : List Char) (s : SStr) (text : List Char) (a : Nat)
    (h : CohAt s text a) (hf : (text.drop a).length + 1 ≤ fuel) :
    (SStr.rlJoin fuel ret s).1 =
      ret ++ (if ret.isEmpty || endsCRLF ret then [] else firstLine false (text.drop a)) ∧
    CohAt (SStr.rlJoin fuel ret s).2 text (a + ((SStr.rlJoin fuel ret s).1.length - ret.length)) ∧
    (SStr.rlJoin fuel ret s).2.tell = s.tell ∧ (SStr.rlJoin fuel ret s).2.chunk = s.chunk ∧
    (SStr.rlJoin fuel ret s).2.maxSize = s.maxSize ∧ (SStr.rlJoin fuel ret s).2.rolled = s.rolled := by
  induction fuel generalizing ret s a with
  | zero => omega
  | succ fuel ih =>
    unfold SStr.rlJoin
    by_cases h1 : (ret.isEmpty || endsCRLF ret) = true
    · rw [if_pos h1, if_pos h1]
      refine ⟨by simp, ?_, rfl, rfl, rfl, rfl⟩
      show CohAt s text (a + (ret.length - ret.length))
      rw [Nat.sub_self, Nat.add_zero]; exact h
    · rw [if_neg h1, if_neg h1]
      have hc := SStr.codecLine_spec s text a h
      by_cases h2 : s.codecLine.1.isEmpty = true
      · rw [if_pos h2]
        have hnil : s.codecLine.1 = [] := List.isEmpty_iff.1 h2
        have hrest : text.drop a = [] := (firstLine_eq_nil true _).1 (by rw [← hc.1]; exact hnil)
        have hcoh := hc.2.1
        rw [hnil] at hcoh
        simp only [List.length_nil, Nat.add_zero] at hcoh
        rw [hrest]
        refine ⟨by simp [firstLine], ?_, hc.2.2.1, hc.2.2.2.1, hc.2.2.2.2.1, hc.2.2.2.2.2⟩
        show CohAt s.codecLine.2 text (a + (ret.length - ret.length))
        rw [Nat.sub_self, Nat.add_zero]; exact hcoh
      · rw [if_neg h2]
        have hne : s.codecLine.1 ≠ [] := fun h0 => h2 (by rw [h0]; rfl)
        have hpos : 0 < s.codecLine.1.length := List.length_pos_iff.2 hne
        have hle : s.codecLine.1.length ≤ (text.drop a).length := by
          rw [hc.1]; exact firstLine_length_le _ _
        have hdrop : text.drop (a + s.codecLine.1.length) = (text.drop a).drop s.codecLine.1.length := by
          rw [List.drop_drop]
        have := ih (ret ++ s.codecLine.1) s.codecLine.2 (a + s.codecLine.1.length) hc.2.1
          (by rw [hdrop, List.length_drop]; omega)
        rcases this with ⟨i1, i2, i3, i4, i5, i6⟩
        have hnotE : ((ret ++ s.codecLine.1).isEmpty || endsCRLF (ret ++ s.codecLine.1))
            = endsCRLF (firstLine true (text.drop a)) := by
          rw [endsCRLF_append _ _ hne, hc.1]
          have : (ret ++ firstLine true (text.drop a)).isEmpty = false := by
            rw [← hc.1]; cases ret <;> simp_all
          rw [this]; rfl
        have hout : (SStr.rlJoin fuel (ret ++ s.codecLine.1) s.codecLine.2).1
            = ret ++ firstLine false (text.drop a) := by
          rw [i1, hnotE, hdrop, firstLine_join (text.drop a), hc.1, List.append_assoc]
        refine ⟨hout, ?_, by rw [i3, hc.2.2.1], by rw [i4, hc.2.2.2.1], by rw [i5, hc.2.2.2.2.1],
          by rw [i6, hc.2.2.2.2.2]⟩
        have hlen1 : ret.length + s.codecLine.1.length
            ≤ (SStr.rlJoin fuel (ret ++ s.codecLine.1) s.codecLine.2).1.length := by
          rw [i1]; simp only [List.length_append]; omega
        have : a + s.codecLine.1.length +
            ((SStr.rlJoin fuel (ret ++ s.codecLine.1) s.codecLine.2).1.length - (ret ++ s.codecLine.1).length)
            = a + ((SStr.rlJoin fuel (ret ++ s.codecLine.1) s.codecLine.2).1.length - ret.length) := by
          simp only [List.length_append]; omega
        rw [this] at i2
        exact i2

/-- `readline()` (after the fix) returns io.StringIO's line: up to and including the first LF, CR or CRLF -/
theorem SStr.readline_spec (s : SStr) (text : List Char) (h : Coh s text) :
    s.readline.1 = firstLine false (text.drop s.tell) ∧ Coh s.readline.2 text ∧
    s.readline.2.tell = s.tell + s.readline.1.length ∧ s.readline.2.chunk = s.chunk := by
  have hc := SStr.codecLine_spec s text s.tell h
  have hle : s.codecLine.1.length ≤ (text.drop s.tell).length := by
    rw [hc.1]; exact firstLine_length_le _ _
  have hdata : s.st.data.length = blen text := by rw [h.data]; rfl
  have hfuel : (text.drop (s.tell + s.codecLine.1.length)).length + 1 ≤ s.st.data.length + 2 := by
    have := length_le_blen text
    simp only [List.length_drop]; omega
  have hj := SStr.rlJoin_spec (s.st.data.length + 2) s.codecLine.1 s.codecLine.2 text
    (s.tell + s.codecLine.1.length) hc.2.1 hfuel
  have hout : s.readline.1 = firstLine false (text.drop s.tell) := by
    show (SStr.rlJoin (s.st.data.length + 2) s.codecLine.1 s.codecLine.2).1 = _
    rw [hj.1, firstLine_join (text.drop s.tell), hc.1, List.drop_drop]
    by_cases hn : firstLine true (text.drop s.tell) = []
    · have hrest : text.drop s.tell = [] := (firstLine_eq_nil true _).1 hn
      simp [hrest, firstLine, endsCRLF]
    · have : (firstLine true (text.drop s.tell)).isEmpty = false := by
        cases hfl : firstLine true (text.drop s.tell) with
        | nil => exact absurd hfl hn
        | cons _ _ => rfl
      rw [this, Bool.false_or]
  refine ⟨hout, ?_, rfl, ?_⟩
  · unfold Coh
    show CohAt s.readline.2 text (s.tell + s.readline.1.length)
    have hlen : s.codecLine.1.length ≤ s.readline.1.length := by
      show _ ≤ (SStr.rlJoin (s.st.data.length + 2) s.codecLine.1 s.codecLine.2).1.length
      rw [hj.1]; simp
    have h2 := hj.2.1
    have : s.tell + s.codecLine.1.length +
        ((SStr.rlJoin (s.st.data.length + 2) s.codecLine.1 s.codecLine.2).1.length - s.codecLine.1.length)
        = s.tell + s.readline.1.length := by
      show _ = s.tell + (SStr.rlJoin (s.st.data.length + 2) s.codecLine.1 s.codecLine.2).1.length
      have := hlen
      simp only [SStr.readline] at this
      omega
    rw [this] at h2
    exact CohAt_congr _ _ text _ h2 rfl rfl
  · show (SStr.rlJoin (s.st.data.length + 2) s.codecLine.1 s.codecLine.2).2.chunk = s.chunk
    rw [hj.2.2.2.1, hc.2.2.2.1]

end C18
