import BoltonsVerif.C18.Lines
import BoltonsVerif.C18.Codec
/-
C18 — the abstract code units are real UTF-8: what the model's decoder tests (`i = 0`, `width c`) can be read off
the real bytes, CR / LF bytes are the encodings of CR / LF only, and `bytes.splitlines` on the stored bytes cuts
where `splitL false` cuts the text.  Built on `String.utf8EncodeChar` and the public lemmas of Lean core
(`Init/Data/String/Decode.lean`).
-/
namespace C18

/-- every byte is `UInt8.ofNat` of a number below 256: lets `decide` enumerate bytes -/
theorem forall_byte (P : UInt8 → Prop) (h : ∀ n : Fin 256, P (UInt8.ofNat n.val)) : ∀ x, P x := by
  intro x
  have := h ⟨x.toNat, x.toNat_lt⟩
  simpa using this

theorem lead2_facts : ∀ x : UInt8, leadWidth (x &&& 0x1f ||| 0xc0) = 2 ∧ (x &&& 0x1f ||| 0xc0) ≠ 10 ∧
    (x &&& 0x1f ||| 0xc0) ≠ 13 :=
  forall_byte _ (by decide +kernel)
theorem lead3_facts : ∀ x : UInt8, leadWidth (x &&& 0x0f ||| 0xe0) = 3 ∧ (x &&& 0x0f ||| 0xe0) ≠ 10 ∧
    (x &&& 0x0f ||| 0xe0) ≠ 13 :=
  forall_byte _ (by decide +kernel)
theorem lead4_facts : ∀ x : UInt8, leadWidth (x &&& 0x07 ||| 0xf0) = 4 ∧ (x &&& 0x07 ||| 0xf0) ≠ 10 ∧
    (x &&& 0x07 ||| 0xf0) ≠ 13 :=
  forall_byte _ (by decide +kernel)
theorem cont_facts : ∀ x : UInt8, (x &&& 0x3f ||| 0x80) ≠ 10 ∧ (x &&& 0x3f ||| 0x80) ≠ 13 :=
  forall_byte _ (by decide +kernel)

/-- a one-byte character is its own byte -/
theorem ascii_facts (c : Char) (h : c.utf8Size = 1) :
    leadWidth c.val.toUInt8 = 1 ∧ (c.val.toUInt8 = 10 ↔ c = '\n') ∧ (c.val.toUInt8 = 13 ↔ c = '\r') := by
  have hv : c.val.toNat ≤ 127 := by
    have := Char.utf8Size_eq_one_iff.1 h
    simpa [UInt32.le_iff_toNat_le] using this
  have hb : c.val.toUInt8.toNat = c.val.toNat := by
    rw [UInt32.toNat_toUInt8]; omega
  refine ⟨?_, ?_, ?_⟩
  · have : c.val.toUInt8 < 0x80 := by rw [UInt8.lt_iff_toNat_lt, hb]; show c.val.toNat < 128; omega
    unfold leadWidth; rw [if_pos this]
  · constructor
    · intro e
      have e' : c.val.toNat = 10 := by rw [← hb, e]; rfl
      apply Char.ext
      apply UInt32.toNat_inj.1
      rw [e']; rfl
    · intro e; subst e; rfl
  · constructor
    · intro e
      have e' : c.val.toNat = 13 := by rw [← hb, e]; rfl
      apply Char.ext
      apply UInt32.toNat_inj.1
      rw [e']; rfl
    · intro e; subst e; rfl

theorem size_cases (c : Char) : c.utf8Size = 1 ∨ c.utf8Size = 2 ∨ c.utf8Size = 3 ∨ c.utf8Size = 4 := by
  have := c.utf8Size_pos; have := c.utf8Size_le_four; omega

theorem cuByte_getElem (c : Char) (i : Nat) (h : i < (String.utf8EncodeChar c).length) :
    cuByte (c, i) = (String.utf8EncodeChar c)[i] := by
  simp only [cuByte, List.getD_eq_getElem?_getD]
  rw [List.getElem?_eq_getElem h]; rfl

/-- the unit `(c, i)` starts a character exactly when `i = 0`: the decoder's "invalid start" test and the
    character boundaries can be read off the real byte -/
theorem cuByte_isLead (c : Char) (i : Nat) (h : i < width c) : isLead (cuByte (c, i)) = true ↔ i = 0 := by
  have hi : i < (String.utf8EncodeChar c).length := by simpa [width] using h
  rw [cuByte_getElem c i hi]
  simp [isLead]

/-- the number of units of a character is a function of its first byte -/
theorem leadWidth_cuByte (c : Char) : leadWidth (cuByte (c, 0)) = width c := by
  unfold cuByte width
  rcases size_cases c with h | h | h | h
  · rw [String.utf8EncodeChar_eq_singleton h, h]; exact (ascii_facts c h).1
  · rw [String.utf8EncodeChar_eq_cons_cons h, h]; exact (lead2_facts _).1
  · rw [String.utf8EncodeChar_eq_cons_cons_cons h, h]; exact (lead3_facts _).1
  · rw [String.utf8EncodeChar_eq_cons_cons_cons_cons h, h]; exact (lead4_facts _).1

/-- no byte of a multi-byte character is CR or LF -/
theorem multibyte_no_crlf (c : Char) (h : 1 < c.utf8Size) (i : Nat) (hi : i < c.utf8Size) :
    cuByte (c, i) ≠ 10 ∧ cuByte (c, i) ≠ 13 := by
  unfold cuByte
  rcases size_cases c with h1 | h2 | h3 | h4
  · omega
  · rw [String.utf8EncodeChar_eq_cons_cons h2]
    obtain rfl | rfl : i = 0 ∨ i = 1 := by omega
    · exact (lead2_facts _).2
    · exact cont_facts _
  · rw [String.utf8EncodeChar_eq_cons_cons_cons h3]
    obtain rfl | rfl | rfl : i = 0 ∨ i = 1 ∨ i = 2 := by omega
    · exact (lead3_facts _).2
    · exact cont_facts _
    · exact cont_facts _
  · rw [String.utf8EncodeChar_eq_cons_cons_cons_cons h4]
    obtain rfl | rfl | rfl | rfl : i = 0 ∨ i = 1 ∨ i = 2 ∨ i = 3 := by omega
    · exact (lead4_facts _).2
    · exact cont_facts _
    · exact cont_facts _
    · exact cont_facts _

/-- an LF byte in the stream is the character LF, a CR byte the character CR — whatever the unit -/
theorem cuByte_eq_lf (c : Char) (i : Nat) (h : i < width c) : cuByte (c, i) = 10 ↔ c = '\n' := by
  unfold width at h
  by_cases h1 : c.utf8Size = 1
  · have hi : i = 0 := by omega
    subst hi
    unfold cuByte
    rw [String.utf8EncodeChar_eq_singleton h1]
    exact (ascii_facts c h1).2.1
  · have hm : 1 < c.utf8Size := by have := c.utf8Size_pos; omega
    constructor
    · intro e; exact absurd e (multibyte_no_crlf c hm i h).1
    · intro e; subst e; exact absurd rfl h1

theorem cuByte_eq_cr (c : Char) (i : Nat) (h : i < width c) : cuByte (c, i) = 13 ↔ c = '\r' := by
  unfold width at h
  by_cases h1 : c.utf8Size = 1
  · have hi : i = 0 := by omega
    subst hi
    unfold cuByte
    rw [String.utf8EncodeChar_eq_singleton h1]
    exact (ascii_facts c h1).2.2
  · have hm : 1 < c.utf8Size := by have := c.utf8Size_pos; omega
    constructor
    · intro e; exact absurd e (multibyte_no_crlf c hm i h).2
    · intro e; subst e; exact absurd rfl h1

/-! ### the stored bytes -/

theorem realBytes_encChar (c : Char) : realBytes (encChar c) = String.utf8EncodeChar c := by
  apply List.ext_getElem
  · simp [realBytes, encChar, width]
  · intro i h1 h2
    simp only [realBytes, encChar, List.getElem_map, List.getElem_range]
    exact cuByte_getElem c i h2

theorem realBytes_append (a b : List CU) : realBytes (a ++ b) = realBytes a ++ realBytes b := by
  simp [realBytes]

/-- the model's stored stream, byte for byte, is the UTF-8 encoding of the text -/
theorem realBytes_encode (cs : List Char) : realBytes (encode cs) = cs.flatMap String.utf8EncodeChar := by
  induction cs with
  | nil => rfl
  | cons c cs ih => rw [encode_cons, realBytes_append, realBytes_encChar, ih]; rfl

/-! ### the real-bytes decoder agrees with the abstract one -/

theorem realBytes_length (us : List CU) : (realBytes us).length = us.length := by simp [realBytes]
theorem realBytes_take (n : Nat) (us : List CU) : realBytes (us.take n) = (realBytes us).take n := by
  simp [realBytes, List.map_take]
theorem realBytes_drop (n : Nat) (us : List CU) : realBytes (us.drop n) = (realBytes us).drop n := by
  simp [realBytes, List.map_drop]

/-- the real-bytes incremental decoder on a prefix of the stored stream: the whole characters that fit, the real
    bytes of the incomplete rest, no error -/
theorem decodeRF_take (fuel m : Nat) (cs : List Char) (hf : ((encode cs).take m).length ≤ fuel) :
    decodeRF fuel (realBytes ((encode cs).take m)) =
      (cs.take (fit m cs), realBytes ((encode (cs.drop (fit m cs))).take (m - blen (cs.take (fit m cs)))), false) := by
  induction cs generalizing fuel m with
  | nil => cases fuel <;> simp [decodeRF, fit, realBytes]
  | cons c cs ih =>
    rcases encChar_eq c with ⟨t, ht, htl⟩
    rw [encode_cons, ht] at hf ⊢
    cases m with
    | zero => cases fuel <;> simp [decodeRF, fit, Nat.not_le.2 (width_pos c), realBytes]
    | succ m =>
      simp only [List.cons_append, List.take_succ_cons, List.length_cons] at hf ⊢
      cases fuel with
      | zero => omega
      | succ fuel =>
        have hcons : realBytes ((c, 0) :: List.take m (t ++ encode cs)) =
            cuByte (c, 0) :: realBytes (List.take m (t ++ encode cs)) := rfl
        rw [hcons]
        simp only [decodeRF]
        have hl : isLead (cuByte (c, 0)) = true := (cuByte_isLead c 0 (width_pos c)).2 rfl
        rw [if_neg (by simp [hl]), leadWidth_cuByte]
        by_cases hw : width c ≤ m + 1
        · have htm : t.length ≤ m := by omega
          have hlen : ¬ ((List.take 3 (realBytes (List.take m (t ++ encode cs)))).length + 1 < width c) := by
            have : width c ≤ 4 := Char.utf8Size_le_four c
            simp only [List.length_take, List.length_append, realBytes_length]; omega
          rw [if_neg hlen]
          have hdrop : List.drop (width c - 1) (List.take m (t ++ encode cs))
              = List.take (m + 1 - width c) (encode cs) := by
            have ht' : width c - 1 = t.length := by omega
            rw [ht', List.drop_take, List.drop_left']
            · congr 1; omega
            · rfl
          -- the bytes start with the whole encoding of `c`: core's decoder returns `c`
          have hsplit : List.take m (t ++ encode cs) = t ++ List.take (m - t.length) (encode cs) := by
            rw [List.take_append, List.take_of_length_le htm]
          have hbytes : cuByte (c, 0) :: realBytes (List.take m (t ++ encode cs)) =
              String.utf8EncodeChar c ++ realBytes (List.take (m - t.length) (encode cs)) := by
            rw [hsplit, realBytes_append, ← realBytes_encChar c, ht]; rfl
          have hdec : ((cuByte (c, 0) :: realBytes (List.take m (t ++ encode cs))).take 4).toByteArray.utf8DecodeChar? 0
              = some c := by
            have h4 : (String.utf8EncodeChar c).length ≤ 4 := by
              rw [String.length_utf8EncodeChar]; exact c.utf8Size_le_four
            rw [hbytes, List.take_append, List.take_of_length_le h4, List.toByteArray_append]
            exact ByteArray.utf8DecodeChar?_utf8EncodeChar_append
          rw [hdec]
          simp only
          rw [← realBytes_drop, hdrop]
          have hfuel : ((encode cs).take (m + 1 - width c)).length ≤ fuel := by
            simp only [List.length_take, List.length_append] at hf ⊢
            omega
          rw [ih fuel (m + 1 - width c) hfuel]
          simp only [fit, if_pos hw, List.take_succ_cons, List.drop_succ_cons, blen_cons]
          rw [Nat.sub_sub]
        · have hlen : (List.take 3 (realBytes (List.take m (t ++ encode cs)))).length + 1 < width c := by
            simp only [List.length_take, realBytes_length]; omega
          rw [if_pos hlen]
          simp [fit, hw, encode_cons, ht, realBytes]

/-- on the real bytes of (a prefix of) the model's stream the real-bytes decoder returns what the abstract decoder
    returns on the units: the same characters, the real bytes of the same undecoded rest, the same flag -/
theorem decodeR_take (m : Nat) (cs : List Char) :
    decodeR (realBytes ((encode cs).take m)) =
      ((decode ((encode cs).take m)).1, realBytes (decode ((encode cs).take m)).2.1,
       (decode ((encode cs).take m)).2.2) := by
  rw [decode_take]
  unfold decodeR
  rw [decodeRF_take _ m cs (by rw [realBytes_length]; exact Nat.le_refl _)]

/-- in particular it inverts the encoding: the text comes back, nothing is left over -/
theorem decodeR_encode (cs : List Char) : decodeR (realBytes (encode cs)) = (cs, [], false) := by
  have h := decodeRF_take (realBytes (encode cs)).length (encode cs).length cs
    (by rw [realBytes_length]; simp)
  rw [List.take_length] at h
  unfold decodeR
  have hfit : fit (encode cs).length cs = cs.length := fit_all _ _ (Nat.le_refl _)
  rw [h, hfit]
  simp [realBytes]

/-! ### `bytes.splitlines` on the stored bytes = `splitL false` on the text -/

theorem splitB_cr_lf (bs : List UInt8) : splitB (13 :: 10 :: bs) = [13, 10] :: splitB bs := by simp [splitB]
theorem splitB_cr_other (d : UInt8) (bs : List UInt8) (hd : d ≠ 10) :
    splitB (13 :: d :: bs) = [13] :: splitB (d :: bs) := by
  rw [splitB.eq_def]; simp [hd]
theorem splitB_cr_end : splitB [13] = [[13]] := by simp [splitB]
theorem splitB_lf (bs : List UInt8) : splitB (10 :: bs) = [10] :: splitB bs := by
  rw [splitB.eq_def]; simp
theorem splitB_other (b : UInt8) (bs : List UInt8) (h10 : b ≠ 10) (h13 : b ≠ 13) :
    splitB (b :: bs) = match splitB bs with
      | [] => [[b]]
      | l :: ls => (b :: l) :: ls := by
  rw [splitB.eq_def]; simp only [if_neg h13, if_neg h10]
  generalize splitB bs = x
  cases x <;> rfl

theorem splitB_plain_append (w r : List UInt8) (hw : w ≠ []) (hp : ∀ b ∈ w, b ≠ 10 ∧ b ≠ 13) :
    splitB (w ++ r) = match splitB r with
      | [] => [w]
      | l :: ls => (w ++ l) :: ls := by
  induction w with
  | nil => exact absurd rfl hw
  | cons b w ih =>
    have hb := hp b (by simp)
    by_cases hwn : w = []
    · subst hwn
      simp only [List.cons_append, List.nil_append]
      rw [splitB_other b r hb.1 hb.2]
    · have := ih hwn (fun x hx => hp x (by simp [hx]))
      simp only [List.cons_append]
      rw [splitB_other b _ hb.1 hb.2, this]
      cases splitB r <;> rfl

theorem realBytes_encChar_cr : realBytes (encChar '\r') = [13] := by rw [realBytes_encChar]; decide
theorem realBytes_encChar_lf : realBytes (encChar '\n') = [10] := by rw [realBytes_encChar]; decide

theorem realBytes_encode_cons (c : Char) (cs : List Char) :
    realBytes (encode (c :: cs)) = realBytes (encChar c) ++ realBytes (encode cs) := by
  rw [encode_cons, realBytes_append]

theorem realBytes_encChar_plain (c : Char) (hr : c ≠ '\r') (hn : c ≠ '\n') :
    realBytes (encChar c) ≠ [] ∧ ∀ b ∈ realBytes (encChar c), b ≠ 10 ∧ b ≠ 13 := by
  constructor
  · rcases encChar_eq c with ⟨t, ht, _⟩
    rw [ht]; simp [realBytes]
  · intro b hb
    unfold realBytes encChar at hb
    rw [List.map_map, List.mem_map] at hb
    rcases hb with ⟨i, hi, rfl⟩
    rw [List.mem_range] at hi
    exact ⟨fun e => hn ((cuByte_eq_lf c i hi).1 e), fun e => hr ((cuByte_eq_cr c i hi).1 e)⟩

/-- `StreamRecoder.readlines` re-encodes the text and cuts the BYTES with `bytes.splitlines`; that is the
    encoding of `splitL false` of the text, piece by piece (no CR / LF byte hides inside a character) -/
theorem splitB_realBytes (cs : List Char) :
    splitB (realBytes (encode cs)) = (splitL false cs).map (fun l => realBytes (encode l)) := by
  fun_induction splitL false cs with
  | case1 => rfl
  | case2 cs' ih =>
    simp only [realBytes_encode_cons, realBytes_encChar_cr, realBytes_encChar_lf, List.cons_append,
      List.nil_append, List.map_cons]
    rw [splitB_cr_lf, ih]
    rfl
  | case3 d cs' hd ih =>
    rcases encChar_eq d with ⟨t, ht, _⟩
    have hb0 : cuByte (d, 0) ≠ 10 := fun e => hd ((cuByte_eq_lf d 0 (width_pos d)).1 e)
    have hcons : realBytes (encode (d :: cs')) = cuByte (d, 0) :: (realBytes t ++ realBytes (encode cs')) := by
      rw [realBytes_encode_cons, ht]; rfl
    rw [hcons] at ih
    rw [realBytes_encode_cons, realBytes_encChar_cr, hcons]
    simp only [List.cons_append, List.nil_append, List.map_cons]
    rw [splitB_cr_other _ _ hb0, ih]
    rfl
  | case4 => rw [realBytes_encode_cons, realBytes_encChar_cr]; exact splitB_cr_end
  | case5 c cs hc hb ih =>
    have hn : c = '\n' := by simpa [isBrk] using hb
    subst hn
    simp only [realBytes_encode_cons, realBytes_encChar_lf, List.cons_append, List.nil_append, List.map_cons]
    rw [splitB_lf, ih]
    rfl
  | case6 c cs hc hb hs ih =>
    have hn : c ≠ '\n' := by simpa [isBrk] using hb
    have hp := realBytes_encChar_plain c hc hn
    rw [realBytes_encode_cons, splitB_plain_append _ _ hp.1 hp.2, ih, hs]
    simp [realBytes_encode_cons]
    rfl
  | case7 c cs hc hb l' ls hs ih =>
    have hn : c ≠ '\n' := by simpa [isBrk] using hb
    have hp := realBytes_encChar_plain c hc hn
    rw [realBytes_encode_cons, splitB_plain_append _ _ hp.1 hp.2, ih, hs]
    simp [realBytes_encode_cons]

end C18
