import BoltonsVerif.C18.Model
/-
C18, round 5 — two things the histories of rounds 1-4 did not have.

1. REJECTED CALLS.  A history is a list of *calls*; a call is `some op` or `none` = a call the class rejects: it
   raises (TypeError for an argument of the wrong type, UnicodeEncodeError for a str holding a lone surrogate, ValueError
   for a whence that does not exist, OSError for a negative truncate …) BEFORE it stores or moves anything.  The
   transliteration of "raises before doing anything" is: the state is returned unchanged.  `runCalls` is the history the
   driver runs; `Props.lean` proves that the accepted calls of such a history return, and leave behind, exactly what
   the history WITHOUT the rejected calls does (`rejected_calls_invisible_*`), hence what io.BytesIO / io.StringIO do
   when they skip them (`*_refines_*_with_rejected_calls`).
   Which write is rejected is decided inside the model as well: `rawWrite bs` is the write of a text that arrives as
   bytes; it is a write only if the model's real-bytes UTF-8 decoder (`decodeR`) accepts ALL of it and the model
   re-encodes it to the very same bytes — a lone surrogate (`ED A0 80` …) is refused, so the call is `none`.
   `rawWritelines` is `writelines`: the loop of writes stops at the first piece that is refused, the pieces before it
   ARE written (as io's own `writelines` does).

2. MultiFileReader over members that are NOT at offset 0 when they are handed over (`MFR.initAt`): just written
   (position at the end), or with a header already read.
-/
namespace C18
variable {α σ : Type}

/-- one call of a history: `some op`, or `none` = rejected (raises, nothing stored, nothing moved) -/
abbrev Call (α : Type) := Option (Op α)

def stepCall (step : σ → Op α → Out α × σ) (s : σ) : Call α → Out α × σ
  | none => (.unit, s)
  | some op => step s op

def runCalls (step : σ → Op α → Out α × σ) (s : σ) : List (Call α) → List (Out α) × σ
  | [] => ([], s)
  | c :: cs => (((stepCall step s c).1 :: (runCalls step (stepCall step s c).2 cs).1),
                (runCalls step (stepCall step s c).2 cs).2)

/-- the same recursion as `SBytes.run` / `SStr.run`, for any step function -/
def runOps (step : σ → Op α → Out α × σ) (s : σ) : List (Op α) → List (Out α) × σ
  | [] => ([], s)
  | op :: ops => (((step s op).1 :: (runOps step (step s op).2 ops).1), (runOps step (step s op).2 ops).2)

/-- the outputs at the accepted calls -/
def acceptedOuts : List (Call α) → List (Out α) → List (Out α)
  | some _ :: cs, o :: os => o :: acceptedOuts cs os
  | none :: cs, _ :: os => acceptedOuts cs os
  | _, _ => []

/-- the outputs at the rejected calls -/
def rejectedOuts : List (Call α) → List (Out α) → List (Out α)
  | some _ :: cs, _ :: os => rejectedOuts cs os
  | none :: cs, o :: os => o :: rejectedOuts cs os
  | _, _ => []

/-- the accepted calls, in order: the history without the rejected ones -/
def accepted (cs : List (Call α)) : List (Op α) := cs.filterMap id

def SBytes.runCalls (s : SBytes) (cs : List (Call Byte)) : List (Out Byte) × SBytes := C18.runCalls SBytes.step s cs
def SStr.runCalls (s : SStr) (cs : List (Call Char)) : List (Out Char) × SStr := C18.runCalls SStr.step s cs

/-- a text payload that arrives as bytes: accepted only if the model's UTF-8 decoder takes all of it and the model
    re-encodes it to the same bytes -/
def textOfBytes? (bs : List UInt8) : Option (List Char) :=
  match decodeR bs with
  | (cs, [], false) => if realBytes (encode cs) = bs then some cs else none
  | _ => none

/-- `write(s)` of a str given by its ('surrogatepass') bytes -/
def rawWrite (bs : List UInt8) : Call Char := (textOfBytes? bs).map .write

/-- the pieces before the first one that is refused -/
def goodPrefix {β : Type} : List (Option β) → List β
  | some x :: xs => x :: goodPrefix xs
  | _ => []

/-- `writelines(pieces)`: every piece is written until one is refused -/
def rawWritelines {β : Type} (mk : List β → Op α) (ps : List (Option β)) : Call α :=
  if ps.all Option.isSome then some (mk (goodPrefix ps))
  else if (goodPrefix ps).isEmpty then none else some (mk (goodPrefix ps))

/-! ## MultiFileReader over members handed over at their own positions -/

/-- `MultiFileReader(*files)`: the members as they are, each with its own position -/
def MFR.initAt (fs : List (File α)) : MFR α := ⟨fs, 0⟩

end C18
