import BoltonsVerif.Generated.Src_ioutils
import BoltonsVerif.C18.Props
/-
C18 — source-translator tie for `boltons.ioutils.SpooledBytesIO` (on `SpooledIOBase`) and `MultiFileReader`.
-/
namespace C18
open Src.ioutils PyRtC18

/-! ## 0. evaluation of the statement combinators -/

section combinators
variable {σ ρ α τ : Type}

@[simp] theorem seq_apply (a b : Stmt σ ρ) (s : σ) :
    seq a b s = (match a s with | (.next, s1) => b s1 | (fl, s1) => (fl, s1)) := rfl
@[simp] theorem skip_apply (s : σ) : (skip : Stmt σ ρ) s = (.next, s) := rfl
@[simp] theorem assign_apply (f : σ → σ) (s : σ) : (assign f : Stmt σ ρ) s = (.next, f s) := rfl
@[simp] theorem cond_apply (c : σ → Bool) (a b : Stmt σ ρ) (s : σ) : cond c a b s = if c s then a s else b s := rfl
@[simp] theorem ret_apply (e : σ → ρ) (s : σ) : ret e s = (.ret (e s), s) := rfl
@[simp] theorem brk_apply (s : σ) : (brk : Stmt σ ρ) s = (.brk, s) := rfl
@[simp] theorem cont_apply (s : σ) : (cont : Stmt σ ρ) s = (.cont, s) := rfl
@[simp] theorem raise_apply (e : PyExc) (s : σ) : (raise e : Stmt σ ρ) s = (.exc e, s) := rfl
@[simp] theorem bindE_apply (m : σ → Except PyExc α × σ) (k : α → Stmt σ ρ) (s : σ) :
    bindE m k s = (match m s with | (.ok v, s1) => k v s1 | (.error e, s1) => (.exc e, s1)) := rfl
@[simp] theorem finish_ret (proj : σ → τ) (v : ρ) (s : σ) : finish proj (Flow.ret v, s) = (.ok v, proj s) := rfl
@[simp] theorem finish_exc (proj : σ → τ) (e : PyExc) (s : σ) :
    finish proj ((Flow.exc e : Flow ρ), s) = (.error e, proj s) := rfl

end combinators

/-! ## 1. SpooledBytesIO: every translated method is the abstract file operation behind a closed-check -/

abbrev SB := SpooledBytesIO.St

/-- run an operation of the abstract file on the buffer of the object -/
def onBuf {ρ : Type} (st : SB) (r : Res ρ (FileObj UInt8)) : Except PyExc ρ × SB := (r.1, { st with buffer := r.2 })

theorem src_sb_closed_eq_model (st : SB) : SpooledBytesIO.closed st = (.ok st.buffer.closed, st) := by
  simp [SpooledBytesIO.closed, SpooledBytesIO.closed.body, FileObj.isClosed]

theorem src_sb_checkClosed_eq_model (st : SB) (msg : Option Unit) :
    SpooledBytesIO.checkClosed st msg = (if st.buffer.closed then .error .ValueError else .ok (), st) := by
  cases h : st.buffer.closed <;>
    simp [SpooledBytesIO.checkClosed, SpooledBytesIO.checkClosed.body, src_sb_closed_eq_model, h]

theorem src_sb_rolled_eq_model (st : SB) : SpooledBytesIO.rolled st = (.ok st.buffer.real, st) := by
  simp [SpooledBytesIO.rolled, SpooledBytesIO.rolled.body, FileObj.isMem]

/-- what every public method starts with -/
theorem checkClosed_open (st : SB) (msg : Option Unit) (h : st.buffer.closed = false) :
    SpooledBytesIO.checkClosed st msg = (.ok (), st) := by simp [src_sb_checkClosed_eq_model, h]
theorem checkClosed_closed (st : SB) (msg : Option Unit) (h : st.buffer.closed = true) :
    SpooledBytesIO.checkClosed st msg = (.error .ValueError, st) := by simp [src_sb_checkClosed_eq_model, h]

/-- `tell()`: the position, ValueError on a closed file; the object is unchanged -/
theorem src_sb_tell_eq_model (st : SB) :
    SpooledBytesIO.tell st = (if st.buffer.closed then .error .ValueError else .ok (st.buffer.f.pos : Int), st) := by
  cases h : st.buffer.closed <;>
    simp [SpooledBytesIO.tell, SpooledBytesIO.tell.body, src_sb_checkClosed_eq_model, FileObj.tell, h]

/-- `seek(pos, mode)` IS the abstract file's `seek` on the buffer -/
theorem src_sb_seek_eq_model (st : SB) (pos mode : Int) :
    SpooledBytesIO.seek st pos mode = onBuf st (FileObj.seek st.buffer pos mode) := by
  cases h : st.buffer.closed
  · simp only [SpooledBytesIO.seek, SpooledBytesIO.seek.body, seq_apply, bindE_apply, checkClosed_open _ _ h,
      skip_apply, ret_apply, onBuf]
    rcases hr : FileObj.seek st.buffer pos mode with ⟨_ | _, o⟩ <;> simp
  · simp [SpooledBytesIO.seek, SpooledBytesIO.seek.body, checkClosed_closed _ _ h, FileObj.seek, onBuf, h]

/-- `read(n)` IS the abstract file's `read` on the buffer -/
theorem src_sb_read_eq_model (st : SB) (n : Int) :
    SpooledBytesIO.read st n = onBuf st (FileObj.read st.buffer n) := by
  cases h : st.buffer.closed
  · simp only [SpooledBytesIO.read, SpooledBytesIO.read.body, seq_apply, bindE_apply, checkClosed_open _ _ h,
      skip_apply, ret_apply, onBuf]
    rcases hr : FileObj.read st.buffer n with ⟨_ | _, o⟩ <;> simp
  · simp [SpooledBytesIO.read, SpooledBytesIO.read.body, checkClosed_closed _ _ h, FileObj.read, onBuf, h]

/-- the limit `readline(length)` hands to the buffer: `if length:` — `None` and `0` mean "no limit" -/
def rlLimit : Option Int → Option Int
  | none => none
  | some n => if n = 0 then none else some n

/-- `readline(length)` IS the abstract file's `readline` with that limit -/
theorem src_sb_readline_eq_model (st : SB) (length : Option Int) :
    SpooledBytesIO.readline st length = onBuf st (FileObj.readline PyRtC18.isNL st.buffer (rlLimit length)) := by
  cases h : st.buffer.closed
  · rcases length with _ | n
    · simp [SpooledBytesIO.readline, SpooledBytesIO.readline.body, checkClosed_open _ _ h, rlLimit, truthyOptInt,
        FileObj.readline, onBuf, h]
    · by_cases hn : n = 0 <;> by_cases hneg : n < 0 <;>
        simp [hneg, SpooledBytesIO.readline, SpooledBytesIO.readline.body, checkClosed_open _ _ h, rlLimit, truthyOptInt,
          FileObj.readline, onBuf, h, hn, PyRt.unwrap]
  · simp [SpooledBytesIO.readline, SpooledBytesIO.readline.body, checkClosed_closed _ _ h, FileObj.readline, onBuf, h]

/-- the object after `rollover()` of an open, in-memory object: a temporary file with the same content and position -/
def rolledOver (st : SB) : SB :=
  { st with buffer := ⟨((File.empty : File UInt8).write st.buffer.f.data).seek st.buffer.f.pos, false, true, false⟩ }

/-- `rollover()`: nothing when already on disk (the closed-check is NOT made); otherwise content and position move to
    a new temporary file and the BytesIO is closed; ValueError (from `buffer.tell()`) on a closed BytesIO -/
theorem src_sb_rollover_eq_model (st : SB) :
    SpooledBytesIO.rollover st =
      (if st.buffer.real then (.ok (), st)
       else if st.buffer.closed then (.error .ValueError, st) else (.ok (), rolledOver st)) := by
  cases hr : st.buffer.real <;> cases hc : st.buffer.closed <;>
    simp [SpooledBytesIO.rollover, SpooledBytesIO.rollover.body, src_sb_rolled_eq_model, FileObj.tell, FileObj.getvalue,
      FileObj.write, FileObj.seek, FileObj.target, FileObj.close, FileObj.newReal, hr, hc, rolledOver]
  -- the copy: `tmp.write(getvalue())` (nothing is written for empty data), then `tmp.seek(pos)`
  have hp : ¬ ((st.buffer.f.pos : Int) < 0) := by omega
  by_cases hd : st.buffer.f.data = [] <;> simp [hd, hp, File.write, File.empty, File.seek]

/-- the object `write(s)` writes into: rolled over first when the write would reach `max_size` -/
def writeTarget (st : SB) (b : List UInt8) : SB :=
  if (st.buffer.f.pos : Int) + b.length ≥ st.max_size ∧ st.buffer.real = false then rolledOver st else st

/-- `write(s)` on an open object: the rollover decision, then the abstract file's `write` on the buffer -/
theorem src_sb_write_eq_model (st : SB) (b : List UInt8) (h : st.buffer.closed = false) :
    SpooledBytesIO.write st b = ((.ok (), (onBuf (writeTarget st b) (FileObj.write (writeTarget st b).buffer b)).2)) := by
  by_cases hm : (st.buffer.f.pos : Int) + b.length ≥ st.max_size <;> cases hr : st.buffer.real <;>
    simp [SpooledBytesIO.write, SpooledBytesIO.write.body, checkClosed_open _ _ h, src_sb_tell_eq_model,
      src_sb_rollover_eq_model, h, hm, hr, writeTarget, onBuf, FileObj.write, rolledOver, PyRt.len] <;>
    (try (by_cases hb : b = [] <;> simp [hb]))

/-- `write(s)` on a closed object: ValueError, nothing changes -/
theorem src_sb_write_closed (st : SB) (b : List UInt8) (h : st.buffer.closed = true) :
    SpooledBytesIO.write st b = (.error .ValueError, st) := by
  simp [SpooledBytesIO.write, SpooledBytesIO.write.body, checkClosed_closed _ _ h]

/-- `fileno()`: rolls over first -/
theorem src_sb_fileno_eq_model (st : SB) (h : st.buffer.closed = false) :
    SpooledBytesIO.fileno st = (.ok ⟨⟩, if st.buffer.real then st else rolledOver st) := by
  cases hr : st.buffer.real <;>
    simp [SpooledBytesIO.fileno, SpooledBytesIO.fileno.body, src_sb_rollover_eq_model, FileObj.fileno, h, hr, rolledOver]

/-- the `len` property of an open object whose position is inside the data: the length of the data; the position is
    restored, and a temporary file is flushed (`stale` cleared) — `os.fstat` is asked only after the `seek(0)` that
    makes its answer the length of the data -/
theorem src_sb_len_eq_model (st : SB) (h : st.buffer.closed = false) :
    SpooledBytesIO.len st =
      (.ok (st.buffer.f.data.length : Int), { st with buffer := { st.buffer with stale := false } }) := by
  have hp : ¬ ((st.buffer.f.pos : Int) < 0) := by omega
  have hl : ¬ ((st.buffer.f.data.length : Int) < 0) := by omega
  cases hr : st.buffer.real <;>
    simp [SpooledBytesIO.len, SpooledBytesIO.len.body, src_sb_tell_eq_model, src_sb_rolled_eq_model,
      src_sb_seek_eq_model, src_sb_fileno_eq_model, onBuf, FileObj.seek, FileObj.target, FileObj.fstatSize,
      File.seek, h, hr, hp, hl]

/-- `getvalue()` of an open object: the whole data; the position is restored -/
theorem src_sb_getvalue_eq_model (st : SB) (h : st.buffer.closed = false) :
    SpooledBytesIO.getvalue st = (.ok st.buffer.f.data, { st with buffer := { st.buffer with stale := false } }) := by
  have hp : ¬ ((st.buffer.f.pos : Int) < 0) := by omega
  simp [SpooledBytesIO.getvalue, SpooledBytesIO.getvalue.body, checkClosed_open, src_sb_tell_eq_model,
    src_sb_seek_eq_model, src_sb_read_eq_model, onBuf, FileObj.seek, FileObj.target, FileObj.read, File.seek,
    File.readAll, File.rest, h, hp]

/-- data of a file cut at `n` (`truncate()` at position `n`): a temporary file past its end is extended with zeros -/
def truncData (real : Bool) (d : List UInt8) (n : Nat) : List UInt8 :=
  if real then d.take n ++ List.replicate (n - d.length) default else d.take n

/-- the buffer after `truncate(size)` -/
def truncated (st : SB) : Option Int → SB
  | none => { st with buffer := { st.buffer with
      f := ⟨truncData st.buffer.real st.buffer.f.data st.buffer.f.pos, st.buffer.f.pos⟩, stale := false } }
  | some n => { st with buffer := { st.buffer with
      f := ⟨truncData st.buffer.real st.buffer.f.data n.toNat, min st.buffer.f.pos n.toNat⟩, stale := false } }

/-- `truncate(size)` of an open object (no operation of the hand model corresponds; stated against the abstract file,
    and about the OBJECT only — what the call returns is left open): `truncate()` cuts at the position;
    `truncate(n)`, `n ≥ 0`, cuts at `n` and leaves the position at `min pos n`; a negative size raises and changes nothing -/
theorem src_sb_truncate_eq_model (st : SB) (size : Option Int) (h : st.buffer.closed = false) :
    (match size with
     | some n => if n < 0 then (SpooledBytesIO.truncate st size).1.toBool = false ∧ (SpooledBytesIO.truncate st size).2 = st
                 else (SpooledBytesIO.truncate st size).1.toBool = true ∧ (SpooledBytesIO.truncate st size).2 = truncated st size
     | none => (SpooledBytesIO.truncate st size).1.toBool = true ∧ (SpooledBytesIO.truncate st size).2 = truncated st size) := by
  have hp : ¬ ((st.buffer.f.pos : Int) < 0) := by omega
  rcases size with _ | n
  · cases hr : st.buffer.real <;>
      simp [SpooledBytesIO.truncate, SpooledBytesIO.truncate.body, checkClosed_open _ _ h, src_sb_tell_eq_model,
        FileObj.truncate, truncData, truncated, Except.toBool, h, hr]
  · by_cases hn : n < 0
    · simp [SpooledBytesIO.truncate, SpooledBytesIO.truncate.body, checkClosed_open _ _ h, hn, PyRt.unwrap, Except.toBool]
    · by_cases hlt : (st.buffer.f.pos : Int) < n <;> cases hr : st.buffer.real <;>
        simp [SpooledBytesIO.truncate, SpooledBytesIO.truncate.body, checkClosed_open _ _ h, src_sb_tell_eq_model,
          src_sb_seek_eq_model, onBuf, FileObj.seek, FileObj.target, FileObj.truncate, File.seek, truncData, truncated,
          Except.toBool, h, hn, hp, hlt, hr, PyRt.unwrap] <;> omega

/-! ## 2. SpooledBytesIO against the hand model `SBytes` -/

/-- the object state `st` stands for the model state `s`: an open buffer with the model's content and position, a
    temporary file iff the model has rolled over.  (`stale` is free: the model has no such notion.) -/
structure RelB (st : SB) (s : SBytes) : Prop where
  f : st.buffer.f = s.buf
  opened : st.buffer.closed = false
  real : st.buffer.real = s.rolled
  max : st.max_size = (s.maxSize : Int)

/-- what `SpooledBytesIO(max_size=m)` is before the first call (`__init__` stores `max_size` / `dir`; the `buffer`
    property creates the empty BytesIO on first use — the normal form the translator accepts) -/
def srcInitB (m : Nat) : SB := { buffer := FileObj.newMem, max_size := m, dir := () }

theorem RelB_init (m : Nat) : RelB (srcInitB m) (SBytes.init m) := ⟨rfl, rfl, rfl, rfl⟩

theorem File_write_nil (f : File UInt8) (h : InRange f) : f.write [] = f := by
  unfold InRange at h
  cases f with
  | mk d p => simp only [File.write, List.append_nil, List.length_nil, Nat.add_zero] at *
              rw [Nat.sub_eq_zero_of_le h]; simp

/-- a public call of the model's history language on the GENERATED definitions -/
def outOf {ρ : Type} (g : ρ → Out Byte) (r : Except PyExc ρ × SB) : Except PyExc (Out Byte) × SB :=
  (match r.1 with | .ok v => .ok (g v) | .error e => .error e, r.2)

def srcStepB (st : SB) : Op Byte → Except PyExc (Out Byte) × SB
  | .write b => outOf (fun _ => .unit) (SpooledBytesIO.write st b)
  | .read n => outOf .data (SpooledBytesIO.read st n)
  | .readAll => outOf .data (SpooledBytesIO.read st (-1))
  | .readline => outOf .data (SpooledBytesIO.readline st none)
  | .readlineN n => outOf .data (SpooledBytesIO.readline st (some n))
  | .seek p => outOf (fun v => .num v.toNat) (SpooledBytesIO.seek st p 0)
  | .seekCur n => outOf (fun v => .num v.toNat) (SpooledBytesIO.seek st n 1)
  | .seekEnd n => outOf (fun v => .num v.toNat) (SpooledBytesIO.seek st (-(n : Int)) 2)
  | .tell => outOf (fun v => .num v.toNat) (SpooledBytesIO.tell st)
  | .getvalue => outOf .data (SpooledBytesIO.getvalue st)
  | .len => outOf (fun v => .num v.toNat) (SpooledBytesIO.len st)
  | .rollover => outOf (fun _ => .unit) (SpooledBytesIO.rollover st)
  | _ => (.error .Other, st)

/-- the calls whose methods are translated (not: `readlines`, iteration, `writelines`) -/
def tiedB : Op Byte → Bool
  | .readlines => false
  | .next => false
  | .list => false
  | .drain => false
  | .writelines _ => false
  | _ => true

theorem rolledOver_rel (st : SB) (s : SBytes) (h : RelB st s) (hr : s.rolled = false) (hin : InRange s.buf) :
    RelB (rolledOver st) s.rollover := by
  refine ⟨?_, rfl, ?_, ?_⟩
  · simp [rolledOver, SBytes.rollover, hr, h.f]
  · simp [rolledOver, SBytes.rollover, hr]
  · simp [rolledOver, SBytes.rollover, hr, h.max]

/-- the model state `write` writes into -/
def SBytes.target (s : SBytes) (b : List Byte) : SBytes :=
  if s.buf.pos + b.length ≥ s.maxSize then s.rollover else s

theorem SBytes.write_target (s : SBytes) (b : List Byte) :
    s.write b = { s.target b with buf := (s.target b).buf.write b } := by
  unfold SBytes.write SBytes.target; split <;> rfl

theorem SBytes.rollover_inRange (s : SBytes) (h : InRange s.buf) : InRange s.rollover.buf := by
  rw [SBytes.rollover_buf]; exact h

theorem writeTarget_rel (st : SB) (s : SBytes) (b : List Byte) (h : RelB st s) (hin : InRange s.buf) :
    RelB (writeTarget st b) (s.target b) := by
  have hpos : (st.buffer.f.pos : Int) = s.buf.pos := by rw [h.f]
  unfold writeTarget SBytes.target
  by_cases hge : s.buf.pos + b.length ≥ s.maxSize
  · have hgeI : (st.buffer.f.pos : Int) + b.length ≥ st.max_size := by rw [hpos, h.max]; omega
    rw [if_pos hge]
    cases hr : s.rolled
    · rw [if_pos ⟨hgeI, by rw [h.real, hr]⟩]; exact rolledOver_rel st s h hr hin
    · rw [if_neg (by rw [h.real, hr]; simp)]; simpa [SBytes.rollover, hr] using h
  · have hgeI : ¬ ((st.buffer.f.pos : Int) + b.length ≥ st.max_size) := by rw [hpos, h.max]; omega
    rw [if_neg hge, if_neg (fun hh => hgeI hh.1)]; exact h

theorem write_rel (st : SB) (s : SBytes) (b : List Byte) (h : RelB st s) (hin : InRange s.buf) :
    RelB (onBuf st (FileObj.write st.buffer b)).2 { s with buf := s.buf.write b } := by
  obtain ⟨hf, hc, hr, hm⟩ := h
  by_cases hb : b = []
  · subst hb
    refine ⟨?_, ?_, ?_, ?_⟩ <;> simp [onBuf, FileObj.write, hc, hf, hr, hm, File_write_nil _ hin]
  · have hbe : b.isEmpty = false := by cases b <;> simp_all
    refine ⟨?_, ?_, ?_, ?_⟩ <;> simp [onBuf, FileObj.write, hc, hf, hr, hm, hbe]

/-- ONE STEP: a translated call on an object standing for `s` returns what the model returns and ends in an object
    standing for the model's next state — for every state whose position is inside the data and every call in the
    statement's domain (`okB`) -/
theorem src_sb_step_eq_model (st : SB) (s : SBytes) (op : Op Byte) (h : RelB st s) (ht : tiedB op = true)
    (hin : InRange s.buf) (hok : okB s.buf op = true) :
    (srcStepB st op).1 = .ok (s.step op).1 ∧ RelB (srcStepB st op).2 (s.step op).2 := by
  by_cases hw : ∃ b, op = .write b
  · obtain ⟨b, rfl⟩ := hw
    have ht := writeTarget_rel st s b h hin
    have hti : InRange (s.target b).buf := by
      unfold SBytes.target; split
      · exact SBytes.rollover_inRange s hin
      · exact hin
    have hw := write_rel _ _ b ht hti
    refine ⟨by simp [srcStepB, outOf, src_sb_write_eq_model _ _ h.opened, SBytes.step], ?_⟩
    simpa [srcStepB, outOf, src_sb_write_eq_model _ _ h.opened, SBytes.step, SBytes.write_target] using hw
  obtain ⟨hf, hc, hr, hm⟩ := h
  rcases st with ⟨⟨⟨d, p⟩, cl, rl, sl⟩, ms, dir⟩
  rcases s with ⟨buf, rolled, maxSize⟩
  simp only at hf hc hr hm hin
  subst hf hc hr hm
  unfold InRange at hin
  simp only at hin
  have hp : ¬ ((p : Int) < 0) := by omega
  cases op with
  | write b => exact absurd ⟨b, rfl⟩ hw
  | read n =>
    have hn : ¬ ((n : Int) < 0) := by omega
    refine ⟨by simp [srcStepB, outOf, src_sb_read_eq_model, onBuf, FileObj.read, SBytes.step, hn], ?_⟩
    constructor <;> simp [srcStepB, outOf, src_sb_read_eq_model, onBuf, FileObj.read, SBytes.step, hn]
  | readAll =>
    refine ⟨by simp [srcStepB, outOf, src_sb_read_eq_model, onBuf, FileObj.read, SBytes.step], ?_⟩
    constructor <;> simp [srcStepB, outOf, src_sb_read_eq_model, onBuf, FileObj.read, SBytes.step]
  | readline =>
    refine ⟨by simp [srcStepB, outOf, src_sb_readline_eq_model, onBuf, FileObj.readline, rlLimit, SBytes.step,
      SBytes.readline, PyRtC18.isNL], ?_⟩
    constructor <;> simp [srcStepB, outOf, src_sb_readline_eq_model, onBuf, FileObj.readline, rlLimit, SBytes.step,
      SBytes.readline, PyRtC18.isNL]
  | readlineN n =>
    rcases n with _ | n
    · simp [okB] at hok
    · have h0 : ¬ ((n : Int) + 1 = 0) := by omega
      have h1 : ¬ ((n : Int) + 1 < 0) := by omega
      have h2 : ((n : Int) + 1).toNat = n + 1 := by omega
      refine ⟨by simp [srcStepB, outOf, src_sb_readline_eq_model, onBuf, FileObj.readline, rlLimit, SBytes.step,
        SBytes.readline, PyRtC18.isNL, h0, h1, h2], ?_⟩
      constructor <;> simp [srcStepB, outOf, src_sb_readline_eq_model, onBuf, FileObj.readline, rlLimit, SBytes.step,
        SBytes.readline, PyRtC18.isNL, h0, h1, h2]
  | seek q =>
    have hq : ¬ ((q : Int) < 0) := by omega
    refine ⟨by simp [srcStepB, outOf, src_sb_seek_eq_model, onBuf, FileObj.seek, FileObj.target, SBytes.step, hq], ?_⟩
    constructor <;> simp [srcStepB, outOf, src_sb_seek_eq_model, onBuf, FileObj.seek, FileObj.target, SBytes.step, hq]
  | seekCur n =>
    have hq : ¬ ((p : Int) + (n : Int) < 0) := by omega
    have e : ((p : Int) + (n : Int)).toNat = p + n := by omega
    refine ⟨by simp [srcStepB, outOf, src_sb_seek_eq_model, onBuf, FileObj.seek, FileObj.target, SBytes.step, hq, e], ?_⟩
    constructor <;> simp [srcStepB, outOf, src_sb_seek_eq_model, onBuf, FileObj.seek, FileObj.target, SBytes.step, hq, e]
  | seekEnd n =>
    simp only [okB, decide_eq_true_eq] at hok
    have hq : ¬ ((d.length : Int) + -(n : Int) < 0) := by omega
    have e : ((d.length : Int) + -(n : Int)).toNat = d.length - n := by omega
    refine ⟨by simp [srcStepB, outOf, src_sb_seek_eq_model, onBuf, FileObj.seek, FileObj.target, SBytes.step, hq, e], ?_⟩
    constructor <;> simp [srcStepB, outOf, src_sb_seek_eq_model, onBuf, FileObj.seek, FileObj.target, SBytes.step, hq, e]
  | tell =>
    refine ⟨by simp [srcStepB, outOf, src_sb_tell_eq_model, SBytes.step], ?_⟩
    constructor <;> simp [srcStepB, outOf, src_sb_tell_eq_model, SBytes.step]
  | getvalue =>
    refine ⟨by simp [srcStepB, outOf, src_sb_getvalue_eq_model, SBytes.step, SBytes.getvalue, File.seek, File.readAll, File.rest], ?_⟩
    constructor <;> simp [srcStepB, outOf, src_sb_getvalue_eq_model, SBytes.step, SBytes.getvalue, File.seek, File.readAll]
  | len =>
    refine ⟨by cases rl <;> simp [srcStepB, outOf, src_sb_len_eq_model, SBytes.step, SBytes.len, File.seek, File.seekEnd], ?_⟩
    cases rl <;> constructor <;> simp [srcStepB, outOf, src_sb_len_eq_model, SBytes.step, SBytes.len, File.seek, File.seekEnd]
  | rollover =>
    refine ⟨by cases rl <;> simp [srcStepB, outOf, src_sb_rollover_eq_model, SBytes.step], ?_⟩
    cases rl <;> constructor <;>
      simp [srcStepB, outOf, src_sb_rollover_eq_model, SBytes.step, SBytes.rollover, rolledOver]
  | readlines => simp [tiedB] at ht
  | next => simp [tiedB] at ht
  | list => simp [tiedB] at ht
  | drain => simp [tiedB] at ht
  | writelines ss => simp [tiedB] at ht

/-- a history of public calls on the GENERATED definitions -/
def srcRunB (st : SB) : List (Op Byte) → List (Except PyExc (Out Byte)) × SB
  | [] => ([], st)
  | op :: ops => ((srcStepB st op).1 :: (srcRunB (srcStepB st op).2 ops).1, (srcRunB (srcStepB st op).2 ops).2)

theorem src_sb_run_eq_model (st : SB) (s : SBytes) (ops : List (Op Byte)) (h : RelB st s)
    (ht : ∀ op ∈ ops, tiedB op = true) (hin : InRange s.buf) (hv : validB s.buf ops = true) :
    (srcRunB st ops).1 = (s.run ops).1.map .ok ∧ RelB (srcRunB st ops).2 (s.run ops).2 := by
  induction ops generalizing st s with
  | nil => exact ⟨rfl, h⟩
  | cons op ops ih =>
    simp only [validB, Bool.and_eq_true] at hv
    have h1 := src_sb_step_eq_model st s op h (ht op (by simp)) hin hv.1
    have hbuf : (s.step op).2.buf = (Spec.step bytesSem s.buf op).2 := by
      rw [(SBytes.step_eq s op).2, bStep_spec s.buf op hin hv.1]
    have h2 := ih (srcStepB st op).2 (s.step op).2 h1.2 (fun o ho => ht o (by simp [ho]))
      (by rw [hbuf]; exact spec_inRange s.buf op hin hv.1) (by rw [hbuf]; exact hv.2)
    simp only [srcRunB, SBytes.run, List.map_cons]
    exact ⟨by rw [h1.1, h2.1], h2.2⟩

/-- HISTORIES: from a fresh object, every history of translated calls inside the statement's domain runs on the
    generated definitions without an exception, returns call by call what the model returns, and ends in an object
    standing for the model's final state -/
theorem src_sb_history_refines (m : Nat) (ops : List (Op Byte)) (ht : ∀ op ∈ ops, tiedB op = true)
    (hv : validB File.empty ops = true) :
    (srcRunB (srcInitB m) ops).1 = ((SBytes.init m).run ops).1.map .ok ∧
    RelB (srcRunB (srcInitB m) ops).2 ((SBytes.init m).run ops).2 :=
  src_sb_run_eq_model _ _ ops (RelB_init m) ht (by simp [InRange, SBytes.init, File.empty]) hv

/-- hence the property holds of what the SOURCE computes: a history of translated calls returns exactly what
    `io.BytesIO` returns and ends with its content and position — whatever `max_size` -/
theorem src_bytes_refines_BytesIO (m : Nat) (ops : List (Op Byte)) (ht : ∀ op ∈ ops, tiedB op = true)
    (hv : validB File.empty ops = true) :
    (srcRunB (srcInitB m) ops).1 = (Spec.run bytesSem File.empty ops).1.map .ok ∧
    (srcRunB (srcInitB m) ops).2.buffer.f = (Spec.run bytesSem File.empty ops).2 := by
  have h := src_sb_history_refines m ops ht hv
  have hb := bytes_refines_BytesIO m ops hv
  exact ⟨by rw [h.1, hb.1], by rw [h.2.f, hb.2]⟩

/-- rolling over is invisible in what the source returns -/
theorem src_rollover_invisible (m₁ m₂ : Nat) (ops : List (Op Byte)) (ht : ∀ op ∈ ops, tiedB op = true)
    (hv : validB File.empty ops = true) :
    (srcRunB (srcInitB m₁) ops).1 = (srcRunB (srcInitB m₂) ops).1 ∧
    (srcRunB (srcInitB m₁) ops).2.buffer.f = (srcRunB (srcInitB m₂) ops).2.buffer.f := by
  have h1 := src_bytes_refines_BytesIO m₁ ops ht hv
  have h2 := src_bytes_refines_BytesIO m₂ ops ht hv
  exact ⟨by rw [h1.1, h2.1], by rw [h1.2, h2.2]⟩

/-- non-vacuity: a history with a rollover by `max_size`, reads, seeks of all three kinds, `len`, `getvalue` -/
def demoSrcB : List (Op Byte) :=
  [.write [104, 105, 10], .seek 0, .read 2, .len, .readline, .seekEnd 1, .write [120, 10, 121], .seekCur 0,
   .getvalue, .tell, .rollover, .readlineN 2, .readAll]

example : (∀ op ∈ demoSrcB, tiedB op = true) ∧ validB File.empty demoSrcB = true := by decide
set_option maxRecDepth 8000 in
example : (srcRunB (srcInitB 4) demoSrcB).1 =
    [.ok .unit, .ok (.num 0), .ok (.data [104, 105]), .ok (.num 3), .ok (.data [10]), .ok (.num 2), .ok .unit,
     .ok (.num 5), .ok (.data [104, 105, 120, 10, 121]), .ok (.num 5), .ok .unit, .ok (.data []), .ok (.data [])] := by
  decide
set_option maxRecDepth 8000 in
example : (srcRunB (srcInitB 4) demoSrcB).2.buffer.real = true ∧ (srcRunB (srcInitB 100) demoSrcB).2.buffer.real = true := by
  decide
/-- the closed-check: every call after `close()` raises ValueError and changes nothing -/
example : (SpooledBytesIO.read { buffer := { (FileObj.newMem : FileObj UInt8) with closed := true }, max_size := 3, dir := () } 1).1
    = .error .ValueError := by decide
/-- `len` on a temporary file with unflushed appended data: the `seek(0)` comes first, so `fstat` is specified -/
example : (SpooledBytesIO.len { buffer := ⟨⟨[1, 2, 3], 3⟩, false, true, true⟩, max_size := 1, dir := () }).1 = .ok 3 := by
  decide
example : (SpooledBytesIO.truncate { buffer := ⟨⟨[1, 2, 3], 3⟩, false, false, false⟩, max_size := 9, dir := () } (some 1)).2
    = { buffer := ⟨⟨[1], 1⟩, false, false, false⟩, max_size := 9, dir := () } := by decide

/-! ## 3. MultiFileReader against the hand model `MFR` -/

section mfr
variable {β : Type} [Inhabited β]

abbrev MS (β : Type) := MultiFileReader.St β

/-- the object stands for the model state: open member files with the model's contents and positions -/
structure RelM (st : MS β) (m : MFR β) : Prop where
  files : st.fileobjs.map (·.f) = m.files
  opened : ∀ o ∈ st.fileobjs, o.closed = false
  index : st.index = (m.index : Int)
  joiner : st.joiner = []

theorem forEachFile_ok {ρ : Type} (op : FileObj β → Res ρ (FileObj β)) (r : FileObj β → ρ)
    (g : FileObj β → FileObj β) (fs : List (FileObj β)) (h : ∀ o ∈ fs, op o = (.ok (r o), g o)) :
    forEachFile op fs = (.ok (fs.map r), fs.map g) := by
  induction fs with
  | nil => rfl
  | cons o os ih =>
    simp only [forEachFile, h o (by simp), ih (fun x hx => h x (by simp [hx])), List.map_cons]

theorem join_nil (ps : List (List β)) : join ([] : List β) ps = ps.flatten := by
  induction ps with
  | nil => rfl
  | cons p qs ih =>
    cases qs with
    | nil => simp [join]
    | cons q qs => simp only [join, List.append_nil, ih, List.flatten_cons]

theorem index?_append_last {α : Type} (l : List α) (x : α) : PyRt.index? (l ++ [x]) (-1) = .ok x := by
  have h : PyRt.normIdx (l ++ [x]) (-1) = (l.length : Int) := by
    simp [PyRt.normIdx]; omega
  simp [PyRt.index?, h]

/-- `seek(0)`: every member is rewound and the index reset — `MFR.seek0` -/
theorem src_mfr_seek_eq_model (st : MS β) (m : MFR β) (h : RelM st m) :
    (MultiFileReader.seek st 0 0).1 = .ok () ∧ RelM (MultiFileReader.seek st 0 0).2 m.seek0 := by
  have hfe := forEachFile_ok (fun o => FileObj.seek o 0 0) (fun _ => (0 : Int))
    (fun o => { o with f := o.f.seek 0, stale := false }) st.fileobjs
    (by intro o ho; simp [FileObj.seek, FileObj.target, h.opened o ho])
  refine ⟨by simp [MultiFileReader.seek, MultiFileReader.seek.body, hfe], ?_⟩
  constructor
  · simp [MultiFileReader.seek, MultiFileReader.seek.body, hfe, MFR.seek0, ← h.files, Function.comp_def]
  · intro o ho
    simp [MultiFileReader.seek, MultiFileReader.seek.body, hfe] at ho
    obtain ⟨a, ha, rfl⟩ := ho
    exact h.opened a ha
  · simp [MultiFileReader.seek, MultiFileReader.seek.body, hfe, MFR.seek0]
  · simp [MultiFileReader.seek, MultiFileReader.seek.body, hfe, h.joiner]

/-- any other `seek` raises (NotImplementedError) and touches nothing -/
theorem src_mfr_seek_unsupported (st : MS β) (offset whence : Int) (h : offset ≠ 0 ∨ whence ≠ 0) :
    MultiFileReader.seek st offset whence = (.error .Other, st) := by
  by_cases hw : whence = 0 <;> by_cases ho : offset = 0 <;>
    simp_all [MultiFileReader.seek, MultiFileReader.seek.body]

/-- `read()` / `read(None)` / `read(0)`: every member is read to its end, in order, the index stays — `MFR.readAll` -/
theorem src_mfr_read_all_eq_model (lfuel : Nat) (st : MS β) (m : MFR β) (amt : Option Int) (h : RelM st m)
    (ha : truthyOptInt amt = false) :
    (MultiFileReader.read lfuel st amt).1 = .ok m.readAll.1 ∧ RelM (MultiFileReader.read lfuel st amt).2 m.readAll.2 := by
  have hfe := forEachFile_ok (fun o => FileObj.readAll o) (fun o => o.f.readAll.1)
    (fun o => { o with f := o.f.readAll.2 }) st.fileobjs
    (by intro o ho; simp [FileObj.readAll, FileObj.read, h.opened o ho])
  refine ⟨by simp [MultiFileReader.read, MultiFileReader.read.body, hfe, ha, h.joiner, join_nil, MFR.readAll,
    ← h.files, Function.comp_def], ?_⟩
  constructor
  · simp [MultiFileReader.read, MultiFileReader.read.body, hfe, ha, MFR.readAll, ← h.files, Function.comp_def]
  · intro o ho
    simp [MultiFileReader.read, MultiFileReader.read.body, hfe, ha] at ho
    obtain ⟨a, ha', rfl⟩ := ho
    exact h.opened a ha'
  · simp [MultiFileReader.read, MultiFileReader.read.body, hfe, ha, MFR.readAll, h.index]
  · simp [MultiFileReader.read, MultiFileReader.read.body, hfe, ha, h.joiner]

/-- what ONE iteration of the sized-read loop does to an object whose current member `o` is open: the member is read,
    the chunk appended, the index advanced when the member came up short, the amount reduced by what was got
    (the scratch local `got` is not mentioned) -/
theorem mfr_body_spec (s : MultiFileReader.read.St β) (i a : Nat) (o : FileObj β)
    (hi : s.self.index = (i : Int)) (ho : s.self.fileobjs[i]? = some o) (hc : o.closed = false)
    (ha : s.amt = some (a : Int)) :
    (∃ s', MultiFileReader.read.loop1.body s = (.next, s')) ∧
      (MultiFileReader.read.loop1.body s).2.self.fileobjs = s.self.fileobjs.set i { o with f := (o.f.readN a).2 } ∧
      (MultiFileReader.read.loop1.body s).2.self.index = ((if (o.f.readN a).1.length < a then i + 1 else i : Nat) : Int) ∧
      (MultiFileReader.read.loop1.body s).2.self.joiner = s.self.joiner ∧
      (MultiFileReader.read.loop1.body s).2.amt = some ((a - (o.f.readN a).1.length : Nat) : Int) ∧
      (MultiFileReader.read.loop1.body s).2.loc1 = s.loc1 ++ [(o.f.readN a).1] := by
  have hn : PyRt.normIdx s.self.fileobjs (i : Int) = (i : Int) := by simp [PyRt.normIdx]; omega
  have hin : ¬ ((i : Int) < 0) := by omega
  have hle : (o.f.readN a).1.length ≤ a := by simp [File.readN]; omega
  have hnn : ¬ ((a : Int) < 0) := by omega
  have hsub : ((a : Int) - ((o.f.readN a).1.length : Int)) = ((a - (o.f.readN a).1.length : Nat) : Int) := by omega
  by_cases hlt : (o.f.readN a).1.length < a
  -- (the test may be written on the amount before or after it is reduced: both forms are given to `simp`)
  · have hltI : ((o.f.readN a).1.length : Int) < (a : Int) := by omega
    have hpos : (0 : Int) < ((a - (o.f.readN a).1.length : Nat) : Int) := by omega
    simp [MultiFileReader.read.loop1.body, atFile, hi, hn, hin, ho, FileObj.read, hc, ha, PyRt.unwrap, hnn,
      PyRt.append, index?_append_last, PyRt.len, hltI, hlt, hsub, hpos]
  · have hltI : ¬ (((o.f.readN a).1.length : Int) < (a : Int)) := by omega
    have hpos : ¬ ((0 : Int) < ((a - (o.f.readN a).1.length : Nat) : Int)) := by omega
    simp [MultiFileReader.read.loop1.body, atFile, hi, hn, hin, ho, FileObj.read, hc, ha, PyRt.unwrap, hnn,
      PyRt.append, index?_append_last, PyRt.len, hltI, hlt, hsub, hpos]

/-- a bound on the tests of the loop condition still to come -/
def mfrMeasure (m : MFR β) (a : Nat) : Nat := if a = 0 then 0 else (m.files.length - m.index) + 1

theorem whileLoop_succ {σ ρ : Type} (c : σ → Bool) (body : Stmt σ ρ) (n : Nat) (s : σ) :
    whileLoop c body (n + 1) s =
      (if c s then
        match body s with
        | (.next, s1) => whileLoop c body n s1
        | (.cont, s1) => whileLoop c body n s1
        | (.brk, s1) => (.next, s1)
        | (fl, s1) => (fl, s1)
      else (.next, s)) := rfl

/-- THE LOOP: with enough fuel on both sides, the generated `while` loop ends normally in an object standing for
    what the model's `readLoop` computes, with the same chunks (the model keeps them in reverse order) -/
theorem mfr_loop_sim (n : Nat) : ∀ (k : Nat) (s : MultiFileReader.read.St β) (m : MFR β) (a : Nat)
    (parts : List (List β)), RelM s.self m → s.amt = some (a : Int) → s.loc1 = parts.reverse →
    mfrMeasure m a < n → mfrMeasure m a < k →
    ∃ s', whileLoop MultiFileReader.read.loop1.cond MultiFileReader.read.loop1.body n s = (.next, s') ∧
      RelM s'.self (MFR.readLoop k m a parts).2 ∧ s'.loc1 = (MFR.readLoop k m a parts).1.reverse := by
  induction n with
  | zero => intro k s m a parts _ _ _ hn; omega
  | succ n ih =>
    intro k s m a parts hr ha hp hn hk
    obtain ⟨k, rfl⟩ : ∃ k', k = k' + 1 := ⟨k - 1, by omega⟩
    have hlen : s.self.fileobjs.length = m.files.length := by rw [← hr.files]; simp
    have hcond : MultiFileReader.read.loop1.cond s = decide (0 < a ∧ m.index < m.files.length) := by
      simp [MultiFileReader.read.loop1.cond, ha, PyRt.unwrap, hr.index, PyRt.len, hlen]
    rw [whileLoop_succ, hcond]
    unfold MFR.readLoop
    by_cases ha0 : 0 < a
    · cases hf : m.files[m.index]? with
      | none =>
        have : ¬ m.index < m.files.length := by
          intro hlt; rw [List.getElem?_eq_getElem hlt] at hf; cases hf
        simp [ha0, this, hf]
        exact ⟨hr, hp⟩
      | some f =>
        have hlt : m.index < m.files.length := by
          apply Classical.byContradiction; intro hge
          rw [List.getElem?_eq_none (by omega)] at hf; cases hf
        have hlt' : m.index < s.self.fileobjs.length := by omega
        have ho : s.self.fileobjs[m.index]? = some s.self.fileobjs[m.index] := List.getElem?_eq_getElem hlt'
        have hof : (s.self.fileobjs[m.index]).f = f := by
          have := hr.files
          have h2 : (s.self.fileobjs.map (·.f))[m.index]? = some f := by rw [this]; exact hf
          simpa [List.getElem?_map, ho] using h2
        have hoc := hr.opened _ (List.getElem_mem hlt')
        obtain ⟨⟨s1, hs1⟩, hfs, hidx, hj, hamt, hl1⟩ :=
          mfr_body_spec s m.index a _ hr.index ho hoc ha
        rw [hs1] at hfs hidx hj hamt hl1
        simp only at hfs hidx hj hamt hl1
        rw [hof] at hfs hidx hamt hl1
        simp only [ha0, hlt, and_self, decide_true, if_true, hs1, gt_iff_lt]
        -- the model's next state
        have hrel : ∀ idx : Nat, s1.self.index = (idx : Int) →
            RelM s1.self ⟨setAt m.files m.index (f.readN a).2, idx⟩ := by
          intro idx hidx'
          refine ⟨?_, ?_, hidx', by rw [hj]; exact hr.joiner⟩
          · rw [hfs, setAt, ← hr.files]; simp [List.map_set]
          · intro o ho'
            rw [hfs] at ho'
            rcases List.mem_or_eq_of_mem_set ho' with h1 | h1
            · exact hr.opened o h1
            · rw [h1]; exact hoc
        have hlen' : (setAt m.files m.index (f.readN a).2).length = m.files.length := by simp [setAt]
        by_cases hshort : (f.readN a).1.length < a
        · rw [if_pos hshort] at hidx ⊢
          have hm : mfrMeasure ⟨setAt m.files m.index (f.readN a).2, m.index + 1⟩ (a - (f.readN a).1.length) <
              mfrMeasure m a := by
            have ha' : a - (f.readN a).1.length ≠ 0 := by omega
            have ha0' : a ≠ 0 := by omega
            simp only [mfrMeasure, if_neg ha', if_neg ha0', hlen']; omega
          exact ih k s1 _ _ _ (hrel _ hidx) hamt (by rw [hl1, hp]; simp) (by omega) (by omega)
        · rw [if_neg hshort] at hidx ⊢
          have hm : mfrMeasure ⟨setAt m.files m.index (f.readN a).2, m.index⟩ (a - (f.readN a).1.length) <
              mfrMeasure m a := by
            have ha' : a - (f.readN a).1.length = 0 := by omega
            have ha0' : a ≠ 0 := by omega
            simp only [mfrMeasure, if_pos ha', if_neg ha0']; omega
          exact ih k s1 _ _ _ (hrel _ hidx) hamt (by rw [hl1, hp]; simp) (by omega) (by omega)
    · have : a = 0 := by omega
      subst this
      simp
      exact ⟨hr, hp⟩

/-- the same, for a run of the loop given by its equation (so that a proof never has to write the record of locals) -/
theorem mfr_loop_sim_of_eq (n k : Nat) (s s' : MultiFileReader.read.St β) (fl : Flow (List β)) (m : MFR β) (a : Nat)
    (parts : List (List β))
    (heq : whileLoop MultiFileReader.read.loop1.cond MultiFileReader.read.loop1.body n s = (fl, s'))
    (hr : RelM s.self m) (ha : s.amt = some (a : Int)) (hp : s.loc1 = parts.reverse)
    (hn : mfrMeasure m a < n) (hk : mfrMeasure m a < k) :
    fl = .next ∧
    RelM s'.self (MFR.readLoop k m a parts).2 ∧ s'.loc1 = (MFR.readLoop k m a parts).1.reverse := by
  obtain ⟨s2, hs2, hrel, hparts⟩ := mfr_loop_sim n k s m a parts hr ha hp hn hk
  rw [hs2] at heq
  cases heq
  exact ⟨rfl, hrel, hparts⟩

/-- `read(amt)`, `amt > 0`: the loop over the members — `MFR.read`, for every fuel the model's own bound allows -/
theorem src_mfr_read_sized_eq_model (lfuel : Nat) (st : MS β) (m : MFR β) (n : Nat) (h : RelM st m)
    (hfuel : m.files.length - m.index + 2 ≤ lfuel) :
    (MultiFileReader.read lfuel st (some ((n + 1 : Nat) : Int))).1 = .ok (m.read (some (n + 1))).1 ∧
    RelM (MultiFileReader.read lfuel st (some ((n + 1 : Nat) : Int))).2 (m.read (some (n + 1))).2 := by
  have hmu : mfrMeasure m (n + 1) = m.files.length - m.index + 1 := by simp [mfrMeasure]
  have ht : truthyOptInt (some ((n + 1 : Nat) : Int)) = true := by
    simp [truthyOptInt]; omega
  simp only [MultiFileReader.read, MultiFileReader.read.body, seq_apply, cond_apply, ht, assign_apply, skip_apply,
    decide_not, decide_true, Bool.not_true, Bool.false_eq_true, if_false, ret_apply]
  split
  · rename_i x s1 heq
    obtain ⟨_, hrel, hparts⟩ := mfr_loop_sim_of_eq lfuel (m.files.length - m.index + 2) _ _ _ m (n + 1) [] heq
      (by simpa using h) (by simp) (by simp) (by omega) (by omega)
    have hj : s1.self.joiner = [] := hrel.joiner
    exact ⟨by simp [MFR.read, hj, join_nil, hparts], by simpa [MFR.read] using hrel⟩
  · rename_i x fl s1 hne heq
    obtain ⟨hfl, _, _⟩ := mfr_loop_sim_of_eq lfuel (m.files.length - m.index + 2) _ _ _ m (n + 1) [] heq
      (by simpa using h) (by simp) (by simp) (by omega) (by omega)
    exact absurd hfl hne

/-- the amount `read(amt)` asks the model for -/
def amtOf : Option Int → Option Nat
  | none => none
  | some n => some n.toNat

/-- `MultiFileReader.read(amt)` for `amt = None` or `amt ≥ 0` IS the model's `MFR.read` -/
theorem src_mfr_read_eq_model (lfuel : Nat) (st : MS β) (m : MFR β) (amt : Option Int) (h : RelM st m)
    (hamt : ∀ n, amt = some n → 0 ≤ n) (hfuel : m.files.length - m.index + 2 ≤ lfuel) :
    (MultiFileReader.read lfuel st amt).1 = .ok (m.read (amtOf amt)).1 ∧
    RelM (MultiFileReader.read lfuel st amt).2 (m.read (amtOf amt)).2 := by
  rcases amt with _ | n
  · exact src_mfr_read_all_eq_model lfuel st m none h rfl
  · have hn := hamt n rfl
    rcases hk : n.toNat with _ | k
    · have : n = 0 := by omega
      subst this
      simpa [amtOf, MFR.read] using src_mfr_read_all_eq_model lfuel st m (some 0) h rfl
    · have : n = ((k + 1 : Nat) : Int) := by omega
      subst this
      simpa [amtOf, hk] using src_mfr_read_sized_eq_model lfuel st m k h hfuel

/-- a public call of the model's history language on the GENERATED definitions -/
def srcStepM (lfuel : Nat) (st : MS β) : MOp → Except PyExc (Option (List β)) × MS β
  | .read n => (match (MultiFileReader.read lfuel st (some n)).1 with | .ok v => .ok (some v) | .error e => .error e,
                (MultiFileReader.read lfuel st (some n)).2)
  | .readAll => (match (MultiFileReader.read lfuel st none).1 with | .ok v => .ok (some v) | .error e => .error e,
                 (MultiFileReader.read lfuel st none).2)
  | .seek0 => (match (MultiFileReader.seek st 0 0).1 with | .ok _ => .ok none | .error e => .error e,
               (MultiFileReader.seek st 0 0).2)

def srcRunM (lfuel : Nat) (st : MS β) : List MOp → List (Except PyExc (Option (List β))) × MS β
  | [] => ([], st)
  | op :: ops => ((srcStepM lfuel st op).1 :: (srcRunM lfuel (srcStepM lfuel st op).2 ops).1,
                  (srcRunM lfuel (srcStepM lfuel st op).2 ops).2)

theorem src_mfr_step_eq_model (lfuel : Nat) (st : MS β) (m : MFR β) (op : MOp) (h : RelM st m)
    (hfuel : m.files.length + 2 ≤ lfuel) :
    (srcStepM lfuel st op).1 = .ok (m.step op).1 ∧ RelM (srcStepM lfuel st op).2 (m.step op).2 := by
  cases op with
  | read n =>
    have := src_mfr_read_eq_model lfuel st m (some (n : Int)) h (by intro k hk; cases hk; omega) (by omega)
    simp only [amtOf, Int.toNat_natCast] at this
    exact ⟨by simp [srcStepM, this.1, MFR.step], by simpa [srcStepM, MFR.step] using this.2⟩
  | readAll =>
    have := src_mfr_read_eq_model lfuel st m none h (by intro k hk; cases hk) (by omega)
    simp only [amtOf] at this
    exact ⟨by simp [srcStepM, this.1, MFR.step], by simpa [srcStepM, MFR.step] using this.2⟩
  | seek0 =>
    have := src_mfr_seek_eq_model st m h
    exact ⟨by simp [srcStepM, this.1, MFR.step], by simpa [srcStepM, MFR.step] using this.2⟩

/-- the initial object: what `MultiFileReader(*files)` stores for open files at their start -/
def srcInitM (cs : List (List β)) : MS β :=
  { fileobjs := cs.map (fun d => ⟨⟨d, 0⟩, false, false, false⟩), index := 0, joiner := [] }

theorem RelM_init (cs : List (List β)) : RelM (srcInitM cs) (MFR.init cs) := by
  refine ⟨by simp [srcInitM, MFR.init, Function.comp_def], ?_, rfl, rfl⟩
  intro o ho
  simp [srcInitM] at ho
  obtain ⟨a, _, rfl⟩ := ho
  rfl

theorem RelM.length {st : MS β} {m : MFR β} (h : RelM st m) : m.files.length = st.fileobjs.length := by
  rw [← h.files]; simp

omit [Inhabited β] in
theorem MFR.readLoop_length (k : Nat) (m : MFR β) (a : Nat) (parts : List (List β)) :
    (MFR.readLoop k m a parts).2.files.length = m.files.length := by
  induction k generalizing m a parts with
  | zero => rfl
  | succ k ih =>
    unfold MFR.readLoop
    split
    · split
      · split <;> (rw [ih]; simp [setAt])
      · rfl
    · rfl

omit [Inhabited β] in
theorem MFR.step_length (m : MFR β) (op : MOp) : (m.step op).2.files.length = m.files.length := by
  cases op with
  | read n =>
    rcases n with _ | n
    · simp [MFR.step, MFR.read, MFR.readAll]
    · simp [MFR.step, MFR.read, MFR.readLoop_length]
  | readAll => simp [MFR.step, MFR.read, MFR.readAll]
  | seek0 => simp [MFR.step, MFR.seek0]

theorem src_mfr_run_eq_model (lfuel : Nat) (st : MS β) (m : MFR β) (ops : List MOp) (h : RelM st m)
    (hfuel : m.files.length + 2 ≤ lfuel) :
    (srcRunM lfuel st ops).1 = (m.run ops).1.map .ok ∧ RelM (srcRunM lfuel st ops).2 (m.run ops).2 := by
  induction ops generalizing st m with
  | nil => exact ⟨rfl, h⟩
  | cons op ops ih =>
    have h1 := src_mfr_step_eq_model lfuel st m op h hfuel
    have h2 := ih (srcStepM lfuel st op).2 (m.step op).2 h1.2 (by rw [MFR.step_length]; exact hfuel)
    simp only [srcRunM, MFR.run, List.map_cons]
    exact ⟨by rw [h1.1, h2.1], h2.2⟩

/-- HISTORIES: from a fresh reader over open files, every history of `read(n)` / `read()` / `seek(0)` runs on the
    generated definitions without an exception (in particular the `while` loop never runs out of the fuel
    `number of files + 2`) and returns call by call what the model returns -/
theorem src_mfr_history_refines (lfuel : Nat) (cs : List (List β)) (ops : List MOp) (hfuel : cs.length + 2 ≤ lfuel) :
    (srcRunM lfuel (srcInitM cs) ops).1 = ((MFR.init cs).run ops).1.map .ok ∧
    RelM (srcRunM lfuel (srcInitM cs) ops).2 ((MFR.init cs).run ops).2 :=
  src_mfr_run_eq_model lfuel _ _ ops (RelM_init cs) (by simpa [MFR.init] using hfuel)

/-- hence the property holds of what the SOURCE computes: the reader returns what ONE file holding the concatenation
    of the members returns -/
theorem src_mfr_concat (lfuel : Nat) (cs : List (List β)) (ops : List MOp) (hfuel : cs.length + 2 ≤ lfuel) :
    (srcRunM lfuel (srcInitM cs) ops).1 = (MFR.specRun ⟨cs.flatten, 0⟩ ops).1.map .ok := by
  rw [(src_mfr_history_refines lfuel cs ops hfuel).1, mfr_concat]

end mfr

/-- non-vacuity: three members, sized reads across the borders, a rewind, an unsized read -/
example : (srcRunM 5 (srcInitM [[1, 2], [3, 4], [5]]) [.read 3, .read 3, .read 1, .seek0, .read 0, .seek0, .readAll]).1 =
    ([.ok (some [1, 2, 3]), .ok (some [4, 5]), .ok (some []), .ok none, .ok (some [1, 2, 3, 4, 5]), .ok none,
      .ok (some [1, 2, 3, 4, 5])] : List (Except PyExc (Option (List Nat)))) := by decide
/-- too little fuel is reported as such (`OutOfFuel`), never as a wrong value -/
example : (MultiFileReader.read 1 (srcInitM [[1, 2], [3, 4], [5]]) (some 4)).1 = (.error .OutOfFuel : Except PyExc (List Nat)) := by
  decide
/-- a closed member: ValueError from its `read`, the members before it keep what was read from them -/
example : (MultiFileReader.read 9 { fileobjs := [⟨⟨[1], 0⟩, false, false, false⟩, ⟨⟨[2], 0⟩, true, false, false⟩],
                                    index := 0, joiner := [] } (some 3)) =
    ((.error .ValueError : Except PyExc (List Nat)),
     { fileobjs := [⟨⟨[1], 1⟩, false, false, false⟩, ⟨⟨[2], 0⟩, true, false, false⟩], index := 1, joiner := [] }) := by
  decide

/-! ## 4. SpooledStringIO against the hand model `SStr` (round 3c, second part)

`_buffer` is the spec-declared abstract codec file `PyRtC18.CFile` = the model's stream `File CU` + its transliterated
`codecs.StreamReader` (`C18.Reader`); its operations are the model's own (`Reader.read`, `Reader.readline`, `File.write`,
`bseek`).  Where the model only sets its `bad` flag (Python: UnicodeDecodeError) the abstract operation is unspecified;
the ties below therefore carry the hypothesis that the reads involved are good (`goodRead`, `travOk` …), which the
model's own proofs establish for coherent states (`RC`, `Reader.read_spec`). -/

abbrev SS := SpooledStringIO.St

theorem src_ss_closed_eq_model (st : SS) : SpooledStringIO.closed st = (.ok st.buffer.closed, st) := by
  simp [SpooledStringIO.closed, SpooledStringIO.closed.body, CFile.isClosed]

theorem src_ss_checkClosed_eq_model (st : SS) (msg : Option Unit) :
    SpooledStringIO.checkClosed st msg = (if st.buffer.closed then .error .ValueError else .ok (), st) := by
  cases h : st.buffer.closed <;>
    simp [SpooledStringIO.checkClosed, SpooledStringIO.checkClosed.body, src_ss_closed_eq_model, h]

theorem ss_checkClosed_open (st : SS) (msg : Option Unit) (h : st.buffer.closed = false) :
    SpooledStringIO.checkClosed st msg = (.ok (), st) := by simp [src_ss_checkClosed_eq_model, h]

theorem src_ss_rolled_eq_model (st : SS) : SpooledStringIO.rolled st = (.ok st.buffer.real, st) := by
  simp [SpooledStringIO.rolled, SpooledStringIO.rolled.body, CFile.isMem]

/-- `tell()`: the code-point counter `_tell`; ValueError on a closed object -/
theorem src_ss_tell_eq_model (st : SS) :
    SpooledStringIO.tell st = (if st.buffer.closed then .error .ValueError else .ok st.tell, st) := by
  cases h : st.buffer.closed <;>
    simp [SpooledStringIO.tell, SpooledStringIO.tell.body, src_ss_checkClosed_eq_model, h]

/-- the object state stands for the model state -/
structure RelS (st : SS) (s : SStr) : Prop where
  stream : st.buffer.st = s.st
  reader : st.buffer.rd = s.rd
  opened : st.buffer.closed = false
  real : st.buffer.real = s.rolled
  tell : st.tell = (s.tell : Int)
  max : st.max_size = (s.maxSize : Int)
  chunk : st.chunk = (s.chunk : Int)

/-- the size the model's reader is asked for -/
def sizeOf (n : Int) : Option Nat := if n < 0 then none else some n.toNat

/-- the read does not hit a decoding error (the model's `bad` flag stays down) -/
def goodRead (s : SStr) (size : Option Nat) : Bool := !(s.rd.read s.st size).2.2.bad

/-- `read(n)`: `SStr.read` -/
theorem src_ss_read_eq_model (st : SS) (s : SStr) (n : Int) (h : RelS st s) (hg : goodRead s (sizeOf n) = true) :
    (SpooledStringIO.read st n).1 = .ok (s.read (sizeOf n)).1 ∧ RelS (SpooledStringIO.read st n).2 (s.read (sizeOf n)).2 := by
  obtain ⟨h1, h2, h3, h4, h5, h6, h7⟩ := h
  rcases st with ⟨⟨bst, brd, bcl, brl⟩, tl, ms, dir, ch⟩
  simp only at h1 h2 h3 h4 h5 h6 h7
  subst h1 h2 h3 h4 h5 h6 h7
  simp only [goodRead, Bool.not_eq_true', sizeOf] at hg
  refine ⟨?_, ?_⟩
  · simp [SpooledStringIO.read, SpooledStringIO.read.body, ss_checkClosed_open, src_ss_tell_eq_model, CFile.read,
      sizeOf, hg, SStr.read]
  · constructor <;>
      simp [SpooledStringIO.read, SpooledStringIO.read.body, ss_checkClosed_open, src_ss_tell_eq_model, CFile.read,
        sizeOf, hg, SStr.read, PyRt.len]

/-- the model's `traverse` ends by one of its exits (not by its fuel) and every read on the way is good -/
def travOk : Nat → SStr → Nat → Nat → Bool
  | 0, _, _, _ => false
  | k + 1, s, cur, dest =>
    if cur = dest then true
    else if cur + s.chunk > dest then goodRead s (some (dest - cur))
    else goodRead s (some s.chunk) &&
      ((s.read (some s.chunk)).1.isEmpty || travOk k (s.read (some s.chunk)).2 (cur + s.chunk) dest)

theorem SStr.read_chunk (s : SStr) (size : Option Nat) : (s.read size).2.chunk = s.chunk := rfl

/-- THE LOOP of `_traverse_codepoints`: with at least the model's fuel the generated loop ends normally in an object
    standing for `SStr.traverse` -/
theorem ss_trav_sim (k : Nat) : ∀ (n : Nat) (s0 : SpooledStringIO.traverse.St) (s : SStr) (cur dest : Nat),
    RelS s0.self s → s0.current_position = (cur : Int) → s0.loc1 = (dest : Int) → cur ≤ dest →
    travOk k s cur dest = true → k ≤ n →
    ∃ s', whileLoop SpooledStringIO.traverse.loop1.cond SpooledStringIO.traverse.loop1.body n s0 = (.next, s') ∧
      RelS s'.self (SStr.traverse k s cur dest) ∧ s'.loc1 = (dest : Int) := by
  induction k with
  | zero => intro n s0 s cur dest _ _ _ _ hok; simp [travOk] at hok
  | succ k ih =>
    intro n s0 s cur dest hr hcur hdest hle hok hn
    obtain ⟨n, rfl⟩ : ∃ n', n = n' + 1 := ⟨n - 1, by omega⟩
    have hch := hr.chunk
    rw [whileLoop_succ]
    have hc : SpooledStringIO.traverse.loop1.cond s0 = true := by simp [SpooledStringIO.traverse.loop1.cond]
    rw [hc, if_pos rfl]
    unfold travOk at hok
    unfold SStr.traverse
    by_cases h1 : cur = dest
    · subst h1
      simp only [if_true] at hok ⊢
      refine ⟨s0, ?_, hr, hdest⟩
      simp [SpooledStringIO.traverse.loop1.body, hcur, hdest]
    · have h1I : ¬ (s0.current_position = s0.loc1) := by rw [hcur, hdest]; omega
      rw [if_neg h1] at hok ⊢
      by_cases h2 : cur + s.chunk > dest
      · rw [if_pos h2] at hok ⊢
        have h2I : s0.current_position + s0.self.chunk > s0.loc1 := by rw [hcur, hdest, hch]; omega
        have harg : s0.loc1 - s0.current_position = ((dest - cur : Nat) : Int) := by rw [hcur, hdest]; omega
        have hsz : sizeOf (s0.loc1 - s0.current_position) = some (dest - cur) := by
          rw [harg]; simp [sizeOf]
        have hrd := src_ss_read_eq_model s0.self s _ hr (by rw [hsz]; exact hok)
        rw [hsz] at hrd
        rcases hread : SpooledStringIO.read s0.self (s0.loc1 - s0.current_position) with ⟨r, st1⟩
        rw [hread] at hrd
        simp only at hrd
        refine ⟨{ s0 with self := st1 }, ?_, hrd.2, hdest⟩
        simp [SpooledStringIO.traverse.loop1.body, h1I, h2I, hread, hrd.1]
      · rw [if_neg h2] at hok ⊢
        have h2I : ¬ (s0.current_position + s0.self.chunk > s0.loc1) := by rw [hcur, hdest, hch]; omega
        simp only [Bool.and_eq_true, Bool.or_eq_true] at hok
        have hsz : sizeOf s0.self.chunk = some s.chunk := by rw [hch]; simp [sizeOf]
        have hrd := src_ss_read_eq_model s0.self s _ hr (by rw [hsz]; exact hok.1)
        rw [hsz] at hrd
        rcases hread : SpooledStringIO.read s0.self s0.self.chunk with ⟨r, st1⟩
        rw [hread] at hrd
        simp only at hrd
        have hch1 : st1.chunk = s0.self.chunk := by rw [hrd.2.chunk, hch]; rfl
        by_cases h3 : (s.read (some s.chunk)).1.isEmpty = true
        · rw [if_pos h3]
          have h3' : (s.read (some s.chunk)).1 = [] := by simpa using h3
          refine ⟨{ s0 with self := st1, loc2 := (s.read (some s.chunk)).1,
                            current_position := s0.current_position + s0.self.chunk }, ?_, hrd.2, hdest⟩
          simp [SpooledStringIO.traverse.loop1.body, h1I, h2I, hread, hrd.1, h3', hch1]
        · rw [if_neg h3]
          have h3' : (s.read (some s.chunk)).1 ≠ [] := by simpa using h3
          have hok2 : travOk k (s.read (some s.chunk)).2 (cur + s.chunk) dest = true := by
            rcases hok.2 with h | h
            · exact absurd h h3
            · exact h
          obtain ⟨s', hs', hrel', hd'⟩ := ih n
            { s0 with self := st1, loc2 := (s.read (some s.chunk)).1,
                      current_position := s0.current_position + s0.self.chunk }
            (s.read (some s.chunk)).2 (cur + s.chunk) dest hrd.2
            (by simp [hcur, hch]) hdest (by omega) hok2 (by omega)
          refine ⟨s', ?_, hrel', hd'⟩
          rw [← hs']
          simp [SpooledStringIO.traverse.loop1.body, h1I, h2I, hread, hrd.1, h3', hch1]

theorem ss_trav_sim_of_eq (k n : Nat) (s0 s1 : SpooledStringIO.traverse.St) (fl : Flow Int) (s : SStr) (cur dest : Nat)
    (heq : whileLoop SpooledStringIO.traverse.loop1.cond SpooledStringIO.traverse.loop1.body n s0 = (fl, s1))
    (hr : RelS s0.self s) (hcur : s0.current_position = (cur : Int)) (hdest : s0.loc1 = (dest : Int)) (hle : cur ≤ dest)
    (hok : travOk k s cur dest = true) (hk : k ≤ n) :
    fl = .next ∧ RelS s1.self (SStr.traverse k s cur dest) ∧ s1.loc1 = (dest : Int) := by
  obtain ⟨s', hs', hrel, hd⟩ := ss_trav_sim k n s0 s cur dest hr hcur hdest hle hok hk
  rw [hs'] at heq
  cases heq
  exact ⟨rfl, hrel, hd⟩

/-- `_traverse_codepoints(cur, n)`: `SStr.traverse` to `cur + n`; returns the destination -/
theorem src_ss_traverse_eq_model (lfuel k : Nat) (st : SS) (s : SStr) (cur n : Nat) (h : RelS st s)
    (hok : travOk k s cur (cur + n) = true) (hk : k ≤ lfuel) :
    (SpooledStringIO.traverse lfuel st cur n).1 = .ok ((cur + n : Nat) : Int) ∧
    RelS (SpooledStringIO.traverse lfuel st cur n).2 (SStr.traverse k s cur (cur + n)) := by
  simp only [SpooledStringIO.traverse, SpooledStringIO.traverse.body, seq_apply, assign_apply, ret_apply]
  split
  · rename_i x s1 heq
    obtain ⟨_, hrel, hd⟩ := ss_trav_sim_of_eq k lfuel _ _ _ s cur (cur + n) heq (by simpa using h) (by simp)
      (by simp) (by omega) hok hk
    exact ⟨by simp [hd], by simpa using hrel⟩
  · rename_i x fl s1 hne heq
    obtain ⟨hfl, _, _⟩ := ss_trav_sim_of_eq k lfuel _ _ _ s cur (cur + n) heq (by simpa using h) (by simp)
      (by simp) (by omega) hok hk
    exact absurd hfl hne

theorem RelS.bseek0 {st : SS} {s : SStr} (h : RelS st s) :
    RelS { st with buffer := { st.buffer with st := st.buffer.st.seek 0, rd := Reader.reset } } (s.bseek 0) :=
  ⟨by simp [SStr.bseek, h.stream], by simp [SStr.bseek], h.opened, h.real, h.tell, h.max, h.chunk⟩

/-- `seek(p)` (`os.SEEK_SET`): rewind the stream, reset the codec, traverse `p` code points, `_tell = p` — `SStr.seek` -/
theorem src_ss_seek0_eq_model (lfuel : Nat) (st : SS) (s : SStr) (p : Nat) (h : RelS st s)
    (hok : travOk (p + 1) (s.bseek 0) 0 p = true) (hk : p + 1 ≤ lfuel) :
    (SpooledStringIO.seek0 lfuel st p).1 = .ok (p : Int) ∧ RelS (SpooledStringIO.seek0 lfuel st p).2 (s.seek p) := by
  rcases st with ⟨⟨bst, brd, bcl, brl⟩, tl, ms, dir, ch⟩
  have hcl : bcl = false := h.opened
  subst hcl
  have hb : RelS { buffer := ⟨bst.seek 0, Reader.reset, false, brl⟩, tell := tl, max_size := ms, dir := dir, chunk := ch }
      (s.bseek 0) := h.bseek0
  have ht := src_ss_traverse_eq_model lfuel (p + 1) _ (s.bseek 0) 0 p hb (by simpa using hok) hk
  simp only [Nat.zero_add] at ht
  rcases htr : SpooledStringIO.traverse lfuel
      { buffer := ⟨bst.seek 0, Reader.reset, false, brl⟩, tell := tl, max_size := ms, dir := dir, chunk := ch }
      ((0 : Nat) : Int) (p : Int) with ⟨r, st1⟩
  rw [htr] at ht
  simp only at ht
  have hc1 : st1.buffer.closed = false := ht.2.opened
  have hrel := ht.2
  have ht0 : ((0 : Nat) : Int) = 0 := rfl
  rw [ht0] at htr
  -- a source that refuses negative positions first (`if pos < 0: raise ValueError`) takes the same path for `p : Nat`
  have hp0 : ((p : Int) < 0) = False := by simp
  have hp0' : ((0 : Int) ≤ (p : Int)) = True := by simp
  refine ⟨?_, ?_⟩
  · simp [SpooledStringIO.seek0, SpooledStringIO.seek0.body, src_ss_checkClosed_eq_model, CFile.seek,
      htr, ht.1, src_ss_tell_eq_model, hc1, hp0, hp0']
  · constructor <;>
      simp [SpooledStringIO.seek0, SpooledStringIO.seek0.body, src_ss_checkClosed_eq_model, CFile.seek,
        htr, ht.1, src_ss_tell_eq_model, hc1, SStr.seek, hrel.stream, hrel.reader, hrel.real, hrel.max, hrel.chunk,
        hp0, hp0']

/-- an unknown `mode`: ValueError, nothing moves (open object) -/
theorem src_ss_seek_bad_mode (lfuel : Nat) (st : SS) (p mode : Int) (h : st.buffer.closed = false)
    (hm : mode ≠ 0 ∧ mode ≠ 1 ∧ mode ≠ 2) :
    SpooledStringIO.seek lfuel st p mode = (.error .ValueError, st) := by
  simp [SpooledStringIO.seek, SpooledStringIO.seek.body, ss_checkClosed_open _ _ h, hm.1, hm.2.1, hm.2.2]

/-- PARTIAL ties (the methods are translated and validated against CPython by the self-test; their loops — the reading
    loop of `len`, the joining loop of `readline` — and `rollover` / `write` on top of `seek` are not yet simulated
    against `SStr.lenLoop` / `SStr.rlJoin` / `SStr.rollover` / `SStr.write`): the closed-check comes first -/
theorem src_ss_len_closed (lfuel : Nat) (st : SS) (h : st.buffer.closed = true) :
    SpooledStringIO.len lfuel st = (.error .ValueError, st) := by
  simp [SpooledStringIO.len, SpooledStringIO.len.body, src_ss_tell_eq_model, h]

theorem src_ss_write_closed (lfuel : Nat) (st : SS) (b : List Char) (h : st.buffer.closed = true) :
    SpooledStringIO.write lfuel st b = (.error .ValueError, st) := by
  simp [SpooledStringIO.write, SpooledStringIO.write.body, src_ss_checkClosed_eq_model, h]

theorem src_ss_readline_closed (lfuel : Nat) (st : SS) (length : Option Int) (h : st.buffer.closed = true) :
    SpooledStringIO.readline lfuel st length = (.error .ValueError, st) := by
  simp [SpooledStringIO.readline, SpooledStringIO.readline.body, src_ss_checkClosed_eq_model, h]

/-- `rollover()` on an object that is already on disk does nothing (no closed-check, no fuel) -/
theorem src_ss_rollover_rolled (lfuel : Nat) (st : SS) (h : st.buffer.real = true) :
    SpooledStringIO.rollover lfuel st = (.ok (), st) := by
  simp [SpooledStringIO.rollover, SpooledStringIO.rollover.body, src_ss_rolled_eq_model, h]

/-- non-vacuity: a code-point traversal over multi-byte text meets the hypotheses of the traverse / seek ties -/
example : travOk 3 (SStr.bseek ⟨⟨encode ['a', 'é', '日'], 6⟩, {}, 3, false, 100, 2⟩ 0) 0 2 = true := by decide

/-! ## 5. SpooledStringIO, round 3f: `len`, `seek(·, 1|2)`, `readline`, `rollover`, `write` completed -/

/-- the model's `lenLoop` ends by its exit (an empty read), not by its fuel, and every read on the way is good -/
def lenOk : Nat → SStr → Bool
  | 0, _ => false
  | k + 1, s =>
    goodRead s (some s.chunk) &&
      ((s.read (some s.chunk)).1.isEmpty || lenOk k (s.read (some s.chunk)).2)

/-- THE READING LOOP of `len`: with at least the model's fuel the generated loop ends normally in an object standing
    for `SStr.lenLoop`, with the same running total; the saved position (`loc1`) is not touched -/
theorem ss_len_sim (k : Nat) : ∀ (n : Nat) (s0 : SpooledStringIO.len.St) (s : SStr) (total : Nat),
    RelS s0.self s → s0.loc2 = (total : Int) → lenOk k s = true → k ≤ n →
    ∃ s', whileLoop SpooledStringIO.len.loop1.cond SpooledStringIO.len.loop1.body n s0 = (.next, s') ∧
      RelS s'.self (SStr.lenLoop k s total).2 ∧ s'.loc2 = ((SStr.lenLoop k s total).1 : Int) ∧ s'.loc1 = s0.loc1 := by
  induction k with
  | zero => intro n s0 s total _ _ hok; simp [lenOk] at hok
  | succ k ih =>
    intro n s0 s total hr htot hok hn
    obtain ⟨n, rfl⟩ : ∃ n', n = n' + 1 := ⟨n - 1, by omega⟩
    have hch := hr.chunk
    rw [whileLoop_succ]
    have hc : SpooledStringIO.len.loop1.cond s0 = true := by simp [SpooledStringIO.len.loop1.cond]
    rw [hc, if_pos rfl]
    unfold lenOk at hok
    unfold SStr.lenLoop
    simp only [Bool.and_eq_true, Bool.or_eq_true] at hok
    have hsz : sizeOf s0.self.chunk = some s.chunk := by rw [hch]; simp [sizeOf]
    have hrd := src_ss_read_eq_model s0.self s _ hr (by rw [hsz]; exact hok.1)
    rw [hsz] at hrd
    rcases hread : SpooledStringIO.read s0.self s0.self.chunk with ⟨r, st1⟩
    rw [hread] at hrd
    simp only at hrd
    by_cases h3 : (s.read (some s.chunk)).1.isEmpty = true
    · rw [if_pos h3]
      have h3' : (s.read (some s.chunk)).1 = [] := by simpa using h3
      refine ⟨{ s0 with self := st1, loc3 := (s.read (some s.chunk)).1 }, ?_, hrd.2, htot, rfl⟩
      simp [SpooledStringIO.len.loop1.body, hread, hrd.1, h3', PyRt.len]
    · rw [if_neg h3]
      have h3' : (s.read (some s.chunk)).1 ≠ [] := by simpa using h3
      have hok2 : lenOk k (s.read (some s.chunk)).2 = true := by
        rcases hok.2 with h | h
        · exact absurd h h3
        · exact h
      obtain ⟨s', hs', hrel', ht', hl'⟩ := ih n
        { s0 with self := st1, loc3 := (s.read (some s.chunk)).1,
                  loc2 := s0.loc2 + PyRt.len (s.read (some s.chunk)).1 }
        (s.read (some s.chunk)).2 (total + (s.read (some s.chunk)).1.length) hrd.2
        (by simp [htot, PyRt.len]) hok2 (by omega)
      refine ⟨s', ?_, hrel', ht', hl'⟩
      rw [← hs']
      simp [SpooledStringIO.len.loop1.body, hread, hrd.1, h3', PyRt.len]

theorem ss_len_sim_of_eq (k n : Nat) (s0 s1 : SpooledStringIO.len.St) (fl : Flow Int) (s : SStr) (total : Nat)
    (heq : whileLoop SpooledStringIO.len.loop1.cond SpooledStringIO.len.loop1.body n s0 = (fl, s1))
    (hr : RelS s0.self s) (htot : s0.loc2 = (total : Int)) (hok : lenOk k s = true) (hk : k ≤ n) :
    fl = .next ∧ RelS s1.self (SStr.lenLoop k s total).2 ∧ s1.loc2 = ((SStr.lenLoop k s total).1 : Int) ∧
      s1.loc1 = s0.loc1 := by
  obtain ⟨s', hs', hrel, ht, hl⟩ := ss_len_sim k n s0 s total hr htot hok hk
  rw [hs'] at heq
  cases heq
  exact ⟨rfl, hrel, ht, hl⟩

/-- what `len` needs of the model state: the reading loop from the start ends by an empty read with good reads, and
    the code-point seek back to `_tell` is a good traversal -/
def lenAllOk (s : SStr) : Bool :=
  lenOk (s.st.data.length + 2) (s.bseek 0) &&
    travOk (s.tell + 1) ((SStr.lenLoop (s.st.data.length + 2) (s.bseek 0) 0).2.bseek 0) 0 s.tell

/-- the `len` property: `SStr.len` — the number of code points, the code-point position saved and restored by `seek` -/
theorem src_ss_len_eq_model (lfuel : Nat) (st : SS) (s : SStr) (h : RelS st s) (hok : lenAllOk s = true)
    (hk : s.st.data.length + 2 ≤ lfuel) (hk2 : s.tell + 1 ≤ lfuel) :
    (SpooledStringIO.len lfuel st).1 = .ok (s.len.1 : Int) ∧ RelS (SpooledStringIO.len lfuel st).2 s.len.2 := by
  simp only [lenAllOk, Bool.and_eq_true] at hok
  rcases st with ⟨⟨bst, brd, bcl, brl⟩, tl, ms, dir, ch⟩
  have hcl : bcl = false := h.opened
  subst hcl
  have htl : tl = (s.tell : Int) := h.tell
  have hb : RelS { buffer := ⟨bst.seek 0, Reader.reset, false, brl⟩, tell := tl, max_size := ms, dir := dir, chunk := ch }
      (s.bseek 0) := h.bseek0
  simp only [SpooledStringIO.len, SpooledStringIO.len.body, seq_apply, bindE_apply, assign_apply, skip_apply, ret_apply,
    src_ss_tell_eq_model, CFile.seek, Bool.false_eq_true, if_false, Int.lt_irrefl, Int.toNat_zero]
  split
  · rename_i x s1 heq
    obtain ⟨_, hrel, ht, hl⟩ := ss_len_sim_of_eq (s.st.data.length + 2) lfuel _ _ _ (s.bseek 0) 0 heq
      (by simpa using hb) (by simp) hok.1 hk
    simp only at hl
    have hsk := src_ss_seek0_eq_model lfuel s1.self _ s.tell hrel hok.2 hk2
    rw [hl, htl]
    rcases hseek : SpooledStringIO.seek0 lfuel s1.self (s.tell : Int) with ⟨r, st2⟩
    rw [hseek] at hsk
    simp only at hsk
    rw [hsk.1]
    exact ⟨by simp [ht, SStr.len], by simpa [SStr.len] using hsk.2⟩
  · rename_i x fl s1 hne heq
    obtain ⟨hfl, _, _⟩ := ss_len_sim_of_eq (s.st.data.length + 2) lfuel _ _ _ (s.bseek 0) 0 heq
      (by simpa using hb) (by simp) hok.1 hk
    exact absurd hfl hne

/-- non-vacuity: the hypotheses of the `len` tie hold of an object holding multi-byte text, read in chunks of 2 code points -/
def demoModS : SStr := ⟨⟨encode ['a', 'é'], 3⟩, {}, 2, false, 100, 2⟩
def demoSrcS : SS :=
  { buffer := ⟨⟨encode ['a', 'é'], 3⟩, {}, false, false⟩, tell := 2, max_size := 100, dir := (), chunk := 2 }
example : RelS demoSrcS demoModS ∧ lenAllOk demoModS = true := ⟨⟨rfl, rfl, rfl, rfl, rfl, rfl, rfl⟩, by decide⟩

/-- `seek(p, os.SEEK_SET)` of the full method (the `mode` dispatch): `SStr.seek` -/
theorem src_ss_seek_set_eq_model (lfuel : Nat) (st : SS) (s : SStr) (p : Nat) (h : RelS st s)
    (hok : travOk (p + 1) (s.bseek 0) 0 p = true) (hk : p + 1 ≤ lfuel) :
    (SpooledStringIO.seek lfuel st p 0).1 = .ok (p : Int) ∧ RelS (SpooledStringIO.seek lfuel st p 0).2 (s.seek p) := by
  rcases st with ⟨⟨bst, brd, bcl, brl⟩, tl, ms, dir, ch⟩
  have hcl : bcl = false := h.opened
  subst hcl
  have hb : RelS { buffer := ⟨bst.seek 0, Reader.reset, false, brl⟩, tell := tl, max_size := ms, dir := dir, chunk := ch }
      (s.bseek 0) := h.bseek0
  have ht := src_ss_traverse_eq_model lfuel (p + 1) _ (s.bseek 0) 0 p hb (by simpa using hok) hk
  simp only [Nat.zero_add] at ht
  rcases htr : SpooledStringIO.traverse lfuel
      { buffer := ⟨bst.seek 0, Reader.reset, false, brl⟩, tell := tl, max_size := ms, dir := dir, chunk := ch }
      ((0 : Nat) : Int) (p : Int) with ⟨r, st1⟩
  rw [htr] at ht
  simp only at ht
  have hc1 : st1.buffer.closed = false := ht.2.opened
  have hrel := ht.2
  have ht0 : ((0 : Nat) : Int) = 0 := rfl
  rw [ht0] at htr
  -- a source that refuses negative positions first (`if pos < 0: raise ValueError`) takes the same path for `p : Nat`
  have hp0 : ((p : Int) < 0) = False := by simp
  have hp0' : ((0 : Int) ≤ (p : Int)) = True := by simp
  refine ⟨?_, ?_⟩
  · simp [SpooledStringIO.seek, SpooledStringIO.seek.body, src_ss_checkClosed_eq_model, CFile.seek,
      htr, ht.1, src_ss_tell_eq_model, hc1, hp0, hp0']
  · constructor <;>
      simp [SpooledStringIO.seek, SpooledStringIO.seek.body, src_ss_checkClosed_eq_model, CFile.seek,
        htr, ht.1, src_ss_tell_eq_model, hc1, SStr.seek, hrel.stream, hrel.reader, hrel.real, hrel.max, hrel.chunk,
        hp0, hp0']

/-- `seek(n, os.SEEK_CUR)`: traverse `n` code points from `_tell` on, no rewind — `SStr.seekCur`; returns `_tell + n` -/
theorem src_ss_seek_cur_eq_model (lfuel : Nat) (st : SS) (s : SStr) (n : Nat) (h : RelS st s)
    (hok : travOk (n + 1) s s.tell (s.tell + n) = true) (hk : n + 1 ≤ lfuel) :
    (SpooledStringIO.seek lfuel st n 1).1 = .ok ((s.tell + n : Nat) : Int) ∧
      RelS (SpooledStringIO.seek lfuel st n 1).2 (s.seekCur n) := by
  rcases st with ⟨⟨bst, brd, bcl, brl⟩, tl, ms, dir, ch⟩
  have hcl : bcl = false := h.opened
  subst hcl
  have htl : tl = (s.tell : Int) := h.tell
  subst htl
  have ht := src_ss_traverse_eq_model lfuel (n + 1) _ s s.tell n h hok hk
  rcases htr : SpooledStringIO.traverse lfuel
      { buffer := ⟨bst, brd, false, brl⟩, tell := (s.tell : Int), max_size := ms, dir := dir, chunk := ch }
      (s.tell : Int) (n : Int) with ⟨r, st1⟩
  rw [htr] at ht
  simp only at ht
  have hc1 : st1.buffer.closed = false := ht.2.opened
  have hrel := ht.2
  refine ⟨?_, ?_⟩
  · simp [SpooledStringIO.seek, SpooledStringIO.seek.body, src_ss_checkClosed_eq_model,
      htr, ht.1, src_ss_tell_eq_model, hc1] <;> try omega
  · constructor <;>
      simp [SpooledStringIO.seek, SpooledStringIO.seek.body, src_ss_checkClosed_eq_model,
        htr, ht.1, src_ss_tell_eq_model, hc1, SStr.seekCur, hrel.stream, hrel.reader, hrel.real, hrel.max, hrel.chunk] <;>
      try omega

/-- `seek(n, os.SEEK_END)` with `n ≤ len`: the `len` property, a rewind, a traversal of `len - n` code points —
    `SStr.seekEnd`; returns `len - n` -/
theorem src_ss_seek_end_eq_model (lfuel : Nat) (st : SS) (s : SStr) (n : Nat) (h : RelS st s)
    (hlen : lenAllOk s = true) (hn : n ≤ s.len.1)
    (hok : travOk (s.len.1 - n + 1) (s.len.2.bseek 0) 0 (s.len.1 - n) = true)
    (hk : s.st.data.length + 2 ≤ lfuel) (hk2 : s.tell + 1 ≤ lfuel) (hk3 : s.len.1 - n + 1 ≤ lfuel) :
    (SpooledStringIO.seek lfuel st n 2).1 = .ok ((s.len.1 - n : Nat) : Int) ∧
      RelS (SpooledStringIO.seek lfuel st n 2).2 (s.seekEnd n) := by
  have hcl : st.buffer.closed = false := h.opened
  have hl := src_ss_len_eq_model lfuel st s h hlen hk hk2
  rcases hlr : SpooledStringIO.len lfuel st with ⟨r0, st0⟩
  rw [hlr] at hl
  simp only at hl
  obtain ⟨hl1, hl2⟩ := hl
  subst hl1
  rcases st0 with ⟨⟨bst, brd, bcl, brl⟩, tl, ms, dir, ch⟩
  have hcl0 : bcl = false := hl2.opened
  subst hcl0
  have hb : RelS { buffer := ⟨bst.seek 0, Reader.reset, false, brl⟩, tell := tl, max_size := ms, dir := dir, chunk := ch }
      (s.len.2.bseek 0) := hl2.bseek0
  have ht := src_ss_traverse_eq_model lfuel (s.len.1 - n + 1) _ (s.len.2.bseek 0) 0 (s.len.1 - n) hb
    (by simpa using hok) hk3
  simp only [Nat.zero_add] at ht
  have harg : ((s.len.1 : Int) - (n : Int)) = ((s.len.1 - n : Nat) : Int) := by omega
  rcases htr : SpooledStringIO.traverse lfuel
      { buffer := ⟨bst.seek 0, Reader.reset, false, brl⟩, tell := tl, max_size := ms, dir := dir, chunk := ch }
      ((0 : Nat) : Int) ((s.len.1 - n : Nat) : Int) with ⟨r, st1⟩
  rw [htr] at ht
  simp only at ht
  have hc1 : st1.buffer.closed = false := ht.2.opened
  have hrel := ht.2
  have ht0 : ((0 : Nat) : Int) = 0 := rfl
  rw [ht0] at htr
  refine ⟨?_, ?_⟩
  · simp [SpooledStringIO.seek, SpooledStringIO.seek.body, ss_checkClosed_open _ _ hcl, hlr, harg, CFile.seek,
      htr, ht.1, src_ss_tell_eq_model, hc1]
  · constructor <;>
      simp [SpooledStringIO.seek, SpooledStringIO.seek.body, ss_checkClosed_open _ _ hcl, hlr, harg, CFile.seek,
        htr, ht.1, src_ss_tell_eq_model, hc1, SStr.seekEnd, hrel.stream, hrel.reader, hrel.real, hrel.max, hrel.chunk]

/-- non-vacuity: the hypotheses of the three `seek` ties hold of an object holding multi-byte text (one code point
    forward from the start; one code point back from the end) -/
def demoModS0 : SStr := ⟨⟨encode ['a', 'é'], 0⟩, {}, 0, false, 100, 2⟩
example : travOk 2 (demoModS0.bseek 0) 0 1 = true ∧ travOk 2 demoModS0 demoModS0.tell (demoModS0.tell + 1) = true := by decide
example : lenAllOk demoModS = true ∧ 1 ≤ demoModS.len.1 ∧
    travOk (demoModS.len.1 - 1 + 1) (demoModS.len.2.bseek 0) 0 (demoModS.len.1 - 1) = true := by decide

/-- the codec's `readline` does not hit a decoding error -/
def goodLine (s : SStr) : Bool := !(s.rd.readline s.st).2.2.bad

/-- one `self.buffer.readline().decode('utf-8')` on an object standing for `s`: `SStr.codecLine` -/
theorem ss_codecLine_eq_model (st : SS) (s : SStr) (h : RelS st s) (hg : goodLine s = true) :
    (CFile.readlineText st.buffer none).1 = .ok s.codecLine.1 ∧
      RelS { st with buffer := (CFile.readlineText st.buffer none).2 } s.codecLine.2 := by
  obtain ⟨h1, h2, h3, h4, h5, h6, h7⟩ := h
  rcases st with ⟨⟨bst, brd, bcl, brl⟩, tl, ms, dir, ch⟩
  simp only at h1 h2 h3 h4 h5 h6 h7
  subst h1 h2 h3 h4 h5 h6 h7
  simp only [goodLine, Bool.not_eq_true'] at hg
  refine ⟨?_, ?_⟩
  · simp [CFile.readlineText, hg, SStr.codecLine]
  · constructor <;> simp [CFile.readlineText, hg, SStr.codecLine]

/-- the loop test `ret and ret[-1] not in '\r\n'` is the negation of the model's exit test -/
theorem ss_rl_cond (s0 : SpooledStringIO.readline.St) (h : s0.length = none) :
    SpooledStringIO.readline.loop1.cond s0 = !(s0.loc1.isEmpty || endsCRLF s0.loc1) := by
  unfold SpooledStringIO.readline.loop1.cond lastNotIn endsCRLF
  rcases hl : s0.loc1.getLast? with _ | c
  · have : s0.loc1 = [] := List.getLast?_eq_none_iff.mp hl
    simp [h, this]
  · have hne : s0.loc1 ≠ [] := by intro h0; simp [h0] at hl
    have hne' : s0.loc1.isEmpty = false := by simpa using hne
    simp [h, hne, hne']

/-- the model's `rlJoin` ends by one of its exits (not by its fuel) and every codec line on the way is good -/
def rlOk : Nat → List Char → SStr → Bool
  | 0, _, _ => false
  | k + 1, ret, s =>
    if ret.isEmpty || endsCRLF ret then true
    else goodLine s && (s.codecLine.1.isEmpty || rlOk k (ret ++ s.codecLine.1) s.codecLine.2)

/-- THE JOINING LOOP of `readline`: with at least the model's fuel the generated loop ends normally in an object
    standing for `SStr.rlJoin`, with the same line -/
theorem ss_rl_sim (k : Nat) : ∀ (n : Nat) (s0 : SpooledStringIO.readline.St) (s : SStr) (ret : List Char),
    RelS s0.self s → s0.length = none → s0.loc1 = ret → rlOk k ret s = true → k ≤ n →
    ∃ s', whileLoop SpooledStringIO.readline.loop1.cond SpooledStringIO.readline.loop1.body n s0 = (.next, s') ∧
      RelS s'.self (SStr.rlJoin k ret s).2 ∧ s'.loc1 = (SStr.rlJoin k ret s).1 := by
  induction k with
  | zero => intro n s0 s ret _ _ _ hok; simp [rlOk] at hok
  | succ k ih =>
    intro n s0 s ret hr hlen hret hok hn
    obtain ⟨n, rfl⟩ : ∃ n', n = n' + 1 := ⟨n - 1, by omega⟩
    rw [whileLoop_succ, ss_rl_cond s0 hlen, hret]
    unfold rlOk at hok
    unfold SStr.rlJoin
    by_cases h1 : (ret.isEmpty || endsCRLF ret) = true
    · rw [if_pos h1]
      refine ⟨s0, ?_, hr, hret⟩
      simp [h1]
    · rw [if_neg h1] at hok ⊢
      have h1' : (!(ret.isEmpty || endsCRLF ret)) = true := by simpa using h1
      rw [h1', if_pos rfl]
      simp only [Bool.and_eq_true, Bool.or_eq_true] at hok
      have hcl := ss_codecLine_eq_model s0.self s hr hok.1
      rcases hline : CFile.readlineText s0.self.buffer none with ⟨r, b1⟩
      rw [hline] at hcl
      simp only at hcl
      by_cases h3 : s.codecLine.1.isEmpty = true
      · rw [if_pos h3]
        have h3' : s.codecLine.1 = [] := by simpa using h3
        refine ⟨{ s0 with self := { s0.self with buffer := b1 }, loc2 := s.codecLine.1 }, ?_, hcl.2, hret⟩
        simp [SpooledStringIO.readline.loop1.body, hline, hcl.1, h3']
      · rw [if_neg h3]
        have h3' : s.codecLine.1 ≠ [] := by simpa using h3
        have hok2 : rlOk k (ret ++ s.codecLine.1) s.codecLine.2 = true := by
          rcases hok.2 with h | h
          · exact absurd h h3
          · exact h
        obtain ⟨s', hs', hrel', hl'⟩ := ih n
          { s0 with self := { s0.self with buffer := b1 }, loc2 := s.codecLine.1, loc1 := s0.loc1 ++ s.codecLine.1 }
          s.codecLine.2 (ret ++ s.codecLine.1) hcl.2 hlen (by simp [hret]) hok2 (by omega)
        refine ⟨s', ?_, hrel', hl'⟩
        rw [← hs']
        simp [SpooledStringIO.readline.loop1.body, hline, hcl.1, h3']

theorem ss_rl_sim_of_eq (k n : Nat) (s0 s1 : SpooledStringIO.readline.St) (fl : Flow (List Char)) (s : SStr)
    (ret : List Char)
    (heq : whileLoop SpooledStringIO.readline.loop1.cond SpooledStringIO.readline.loop1.body n s0 = (fl, s1))
    (hr : RelS s0.self s) (hlen : s0.length = none) (hret : s0.loc1 = ret) (hok : rlOk k ret s = true) (hk : k ≤ n) :
    fl = .next ∧ RelS s1.self (SStr.rlJoin k ret s).2 ∧ s1.loc1 = (SStr.rlJoin k ret s).1 := by
  obtain ⟨s', hs', hrel, hl⟩ := ss_rl_sim k n s0 s ret hr hlen hret hok hk
  rw [hs'] at heq
  cases heq
  exact ⟨rfl, hrel, hl⟩

theorem SStr.rlJoin_tell (k : Nat) : ∀ (ret : List Char) (s : SStr), (SStr.rlJoin k ret s).2.tell = s.tell := by
  induction k with
  | zero => intro ret s; rfl
  | succ k ih =>
    intro ret s
    unfold SStr.rlJoin
    split
    · rfl
    · split
      · rfl
      · rw [ih]; rfl

/-- what `readline()` needs of the model state: the first codec line is good and the joining loop ends by an exit -/
def rlAllOk (s : SStr) : Bool :=
  goodLine s && rlOk (s.st.data.length + 2) s.codecLine.1 s.codecLine.2

/-- `readline()` (no length): `SStr.readline` — codec lines joined until one ends in CR / LF, `_tell` advanced by the
    number of code points returned -/
theorem src_ss_readline_eq_model (lfuel : Nat) (st : SS) (s : SStr) (h : RelS st s) (hok : rlAllOk s = true)
    (hk : s.st.data.length + 2 ≤ lfuel) :
    (SpooledStringIO.readline lfuel st none).1 = .ok s.readline.1 ∧
      RelS (SpooledStringIO.readline lfuel st none).2 s.readline.2 := by
  simp only [rlAllOk, Bool.and_eq_true] at hok
  have hcl := ss_codecLine_eq_model st s h hok.1
  rcases hline : CFile.readlineText st.buffer none with ⟨r, b1⟩
  rw [hline] at hcl
  simp only at hcl
  obtain ⟨hcl1, hcl2⟩ := hcl
  subst hcl1
  simp only [SpooledStringIO.readline, SpooledStringIO.readline.body, seq_apply, bindE_apply, assign_apply, skip_apply,
    ret_apply, ss_checkClosed_open _ _ h.opened, hline]
  split
  · rename_i x s1 heq
    obtain ⟨_, hrel, hl⟩ := ss_rl_sim_of_eq (s.st.data.length + 2) lfuel _ _ _ s.codecLine.2 s.codecLine.1 heq
      (by simpa using hcl2) rfl rfl hok.2 hk
    have hc1 : s1.self.buffer.closed = false := hrel.opened
    refine ⟨?_, ?_⟩
    · simp [src_ss_tell_eq_model, hc1, hl, SStr.readline]
    · constructor <;>
        simp [src_ss_tell_eq_model, hc1, hl, SStr.readline, hrel.stream, hrel.reader, hrel.real, hrel.max, hrel.chunk,
          hrel.tell, PyRt.len, SStr.rlJoin_tell, SStr.codecLine]
  · rename_i x fl s1 hne heq
    obtain ⟨hfl, _, _⟩ := ss_rl_sim_of_eq (s.st.data.length + 2) lfuel _ _ _ s.codecLine.2 s.codecLine.1 heq
      (by simpa using hcl2) rfl rfl hok.2 hk
    exact absurd hfl hne

/-- non-vacuity: the hypotheses of the `readline` tie hold where the codec ends a line at a form feed and the loop joins
    the next codec line (up to the LF) to it -/
def demoModL : SStr := ⟨⟨encode ['é', Char.ofNat 12, 'b', Char.ofNat 10, 'c'], 0⟩, {}, 0, false, 100, 2⟩
example : rlAllOk demoModL = true ∧ demoModL.readline.1 = ['é', Char.ofNat 12, 'b', Char.ofNat 10] := by decide

/-- the model's object right after the content moved to the temporary file, before the position is re-established -/
def SStr.moved (s : SStr) : SStr :=
  { s with st := (File.empty : File CU).write s.st.data, rd := Reader.reset, rolled := true }

theorem SStr.rollover_unrolled (s : SStr) (h : s.rolled = false) : s.rollover = s.moved.seek s.tell := by
  simp [SStr.rollover, h, SStr.moved]

/-- what `rollover()` needs of the model state: the code-point seek back to `_tell` in the new file is a good traversal -/
def rollOk (s : SStr) : Bool := s.rolled || travOk (s.tell + 1) (s.moved.bseek 0) 0 s.tell

theorem CFile_write_newReal (b : List CU) :
    CFile.write CFile.newReal b = (.ok (), ⟨(File.empty : File CU).write b, {}, false, true⟩) := by
  cases b <;> simp [CFile.write, CFile.newReal, File.write, File.empty]

/-- `rollover()`: `SStr.rollover` — nothing on a temporary file; else the bytes go to a new codec file over a temporary
    file, the old one is closed, and the position is re-established by a code-point `seek(_tell)` -/
theorem src_ss_rollover_eq_model (lfuel : Nat) (st : SS) (s : SStr) (h : RelS st s) (hok : rollOk s = true)
    (hk : s.tell + 1 ≤ lfuel) :
    (SpooledStringIO.rollover lfuel st).1 = .ok () ∧ RelS (SpooledStringIO.rollover lfuel st).2 s.rollover := by
  by_cases hr : s.rolled = true
  · have hreal : st.buffer.real = true := by rw [h.real]; exact hr
    rw [src_ss_rollover_rolled lfuel st hreal]
    have : s.rollover = s := by simp [SStr.rollover, hr]
    rw [this]
    exact ⟨rfl, h⟩
  · have hr' : s.rolled = false := by simpa using hr
    simp only [rollOk, hr', Bool.false_or] at hok
    rw [SStr.rollover_unrolled s hr']
    obtain ⟨h1, h2, h3, h4, h5, h6, h7⟩ := h
    rcases st with ⟨⟨bst, brd, bcl, brl⟩, tl, ms, dir, ch⟩
    simp only at h1 h2 h3 h4 h5 h6 h7
    subst h1 h2 h3 h5 h6 h7
    rw [hr'] at h4
    subst h4
    have hm : RelS (⟨⟨(File.empty : File CU).write s.st.data, {}, false, true⟩, (s.tell : Int), (s.maxSize : Int), dir,
        (s.chunk : Int)⟩ : SS) s.moved := ⟨rfl, rfl, rfl, rfl, rfl, rfl, rfl⟩
    have hsk := src_ss_seek0_eq_model lfuel _ s.moved s.tell hm hok hk
    rcases hseek : SpooledStringIO.seek0 lfuel (⟨⟨(File.empty : File CU).write s.st.data, {}, false, true⟩, (s.tell : Int),
        (s.maxSize : Int), dir, (s.chunk : Int)⟩ : SS) (s.tell : Int) with ⟨r, st2⟩
    rw [hseek] at hsk
    simp only at hsk
    simp [SpooledStringIO.rollover, SpooledStringIO.rollover.body, src_ss_rolled_eq_model, CFile.getvalue,
      CFile_write_newReal, CFile.close, hseek, hsk.1, hsk.2]

theorem File_write_nil_cu (f : File CU) (h : InRange f) : f.write [] = f := by
  unfold InRange at h
  cases f with
  | mk d p => simp only [File.write, List.append_nil, List.length_nil, Nat.add_zero] at *
              rw [Nat.sub_eq_zero_of_le h]; simp

/-- `buffer.write(bytes)` on an open codec file whose stream position is inside the data: the model's `File.write` -/
theorem CFile_write_inRange (o : CFile) (b : List CU) (hc : o.closed = false) (hin : InRange o.st) :
    CFile.write o b = (.ok (), { o with st := o.st.write b }) := by
  rcases o with ⟨ost, ord, ocl, orl⟩
  simp only at hc hin
  subst hc
  unfold CFile.write
  by_cases hb : b = []
  · subst hb
    simp [File_write_nil_cu _ hin]
  · have hb' : b.isEmpty = false := by simpa using hb
    have hlt : ¬ (ost.data.length < ost.pos) := by unfold InRange at hin; omega
    simp [hb', hlt]

/-- what `write(cs)` needs of the model state: if the write rolls the object over, the rollover's seek is a good
    traversal; the stream position the bytes go to is inside the data (the statement's domain: appending writes) -/
def writeOk (s : SStr) (cs : List Char) : Prop :=
  if s.st.pos + (encode cs).length ≥ s.maxSize then rollOk s = true ∧ InRange s.rollover.st else InRange s.st

/-- `write(cs)`: `SStr.write` — the rollover decision `buffer.tell() + len(cs.encode('utf-8')) >= max_size`, then the
    bytes go to the stream and `_tell` advances by the number of code points -/
theorem src_ss_write_eq_model (lfuel : Nat) (st : SS) (s : SStr) (cs : List Char) (h : RelS st s)
    (hok : writeOk s cs) (hk : s.tell + 1 ≤ lfuel) :
    (SpooledStringIO.write lfuel st cs).1 = .ok () ∧ RelS (SpooledStringIO.write lfuel st cs).2 (s.write cs) := by
  unfold writeOk at hok
  by_cases hd : s.st.pos + (encode cs).length ≥ s.maxSize
  · rw [if_pos hd] at hok
    have hro := src_ss_rollover_eq_model lfuel st s h hok.1 hk
    rcases hroll : SpooledStringIO.rollover lfuel st with ⟨r, st1⟩
    rw [hroll] at hro
    simp only at hro
    obtain ⟨hro1, hro2⟩ := hro
    subst hro1
    have hw := CFile_write_inRange st1.buffer (encode cs) hro2.opened (by rw [hro2.stream]; exact hok.2)
    obtain ⟨h1, h2, h3, h4, h5, h6, h7⟩ := h
    rcases st with ⟨⟨bst, brd, bcl, brl⟩, tl, ms, dir, ch⟩
    simp only at h1 h2 h3 h4 h5 h6 h7
    subst h1 h2 h3 h4 h5 h6 h7
    have hdI : (s.maxSize : Int) ≤ (s.st.pos : Int) + ((encode cs).length : Int) := by omega
    refine ⟨?_, ?_⟩
    · simp [SpooledStringIO.write, SpooledStringIO.write.body, src_ss_checkClosed_eq_model, src_ss_tell_eq_model,
        CFile.tell, hdI, hroll, hw, PyRt.len]
    · constructor <;>
        simp [SpooledStringIO.write, SpooledStringIO.write.body, src_ss_checkClosed_eq_model, src_ss_tell_eq_model,
          CFile.tell, hdI, hroll, hw, SStr.write, hd, hro2.stream, hro2.reader, hro2.real, hro2.max, hro2.chunk,
          hro2.opened, PyRt.len]
  · rw [if_neg hd] at hok
    have hw := CFile_write_inRange st.buffer (encode cs) h.opened (by rw [h.stream]; exact hok)
    obtain ⟨h1, h2, h3, h4, h5, h6, h7⟩ := h
    rcases st with ⟨⟨bst, brd, bcl, brl⟩, tl, ms, dir, ch⟩
    simp only at h1 h2 h3 h4 h5 h6 h7
    subst h1 h2 h3 h4 h5 h6 h7
    have hdI : ¬ ((s.maxSize : Int) ≤ (s.st.pos : Int) + ((encode cs).length : Int)) := by omega
    simp only at hw
    refine ⟨?_, ?_⟩
    · simp [SpooledStringIO.write, SpooledStringIO.write.body, src_ss_checkClosed_eq_model, src_ss_tell_eq_model,
        CFile.tell, hdI, hw, PyRt.len]
    · constructor <;>
        simp [SpooledStringIO.write, SpooledStringIO.write.body, src_ss_checkClosed_eq_model, src_ss_tell_eq_model,
          CFile.tell, hdI, hw, SStr.write, hd, PyRt.len]

/-- non-vacuity: the hypotheses of the `rollover` / `write` ties hold of an object holding multi-byte text, for a write
    that stays in memory (`max_size` 100) and for one that rolls the object over (`max_size` 4) -/
def demoModW : SStr := ⟨⟨encode ['a', 'é'], 3⟩, {}, 2, false, 4, 2⟩
example : rollOk demoModS = true ∧ (demoModS.rollover).rolled = true := by decide
example : writeOk demoModS ['b'] ∧ writeOk demoModW ['b'] ∧ (demoModW.write ['b']).rolled = true ∧
    (demoModS.write ['b']).rolled = false := by
  unfold writeOk InRange; decide

/-! ## 6. the `…Ok` hypotheses of the SpooledStringIO ties hold in every COHERENT model state (`CohAt` / `Coh`, the
invariant of `C18/Text.lean`): no read of a coherent object hits a decoding error and every model loop ends by its exit -/

theorem goodRead_of_coh (s : SStr) (text : List Char) (a : Nat) (h : CohAt s text a) (size : Option Nat) :
    goodRead s size = true := by
  obtain ⟨X, p, hrc, _⟩ := (SStr.read_spec s text a h size).2.1.rc
  have hg : (s.read size).2.rd.bad = false := hrc.good
  simp only [goodRead, Bool.not_eq_true']
  exact hg

theorem goodLine_of_coh (s : SStr) (text : List Char) (a : Nat) (h : CohAt s text a) : goodLine s = true := by
  obtain ⟨X, p, hrc, _⟩ := (SStr.codecLine_spec s text a h).2.1.rc
  have hg : s.codecLine.2.rd.bad = false := hrc.good
  simp only [goodLine, Bool.not_eq_true']
  exact hg

theorem travOk_of_coh (fuel : Nat) (s : SStr) (text : List Char) (cur dest : Nat)
    (h : CohAt s text cur) (hd : dest ≤ text.length) (hc : cur ≤ dest) (hch : 0 < s.chunk)
    (hf : dest - cur + 1 ≤ fuel) : travOk fuel s cur dest = true := by
  induction fuel generalizing s cur with
  | zero => omega
  | succ fuel ih =>
    unfold travOk
    by_cases h1 : cur = dest
    · rw [if_pos h1]
    · rw [if_neg h1]
      by_cases h2 : cur + s.chunk > dest
      · rw [if_pos h2]; exact goodRead_of_coh s text cur h _
      · rw [if_neg h2]
        have hr := SStr.read_spec s text cur h (some s.chunk)
        have hl := SStr.read_some_len s text cur s.chunk h (by omega)
        rw [hl] at hr
        have := ih (s.read (some s.chunk)).2 (cur + s.chunk) hr.2.1 (by omega) (by rw [hr.2.2.2]; exact hch) (by omega)
        simp [goodRead_of_coh s text cur h, this]

theorem lenOk_of_coh (fuel : Nat) (s : SStr) (text : List Char) (cur : Nat)
    (h : CohAt s text cur) (hch : 0 < s.chunk) (hf : text.length - cur + 1 ≤ fuel) : lenOk fuel s = true := by
  induction fuel generalizing s cur with
  | zero => omega
  | succ fuel ih =>
    unfold lenOk
    have hr := SStr.read_spec s text cur h (some s.chunk)
    by_cases he : (s.read (some s.chunk)).1.isEmpty = true
    · simp [goodRead_of_coh s text cur h, he]
    · have hpos : 0 < (s.read (some s.chunk)).1.length := by
        apply List.length_pos_iff.2
        intro hh; apply he; simp [hh]
      have hle : cur + (s.read (some s.chunk)).1.length ≤ text.length := hr.2.1.ale
      have := ih (s.read (some s.chunk)).2 (cur + (s.read (some s.chunk)).1.length) hr.2.1
        (by rw [hr.2.2.2]; exact hch) (by omega)
      simp [goodRead_of_coh s text cur h, this]

theorem lenAllOk_of_coh (s : SStr) (text : List Char) (h : Coh s text) (hch : 0 < s.chunk) : lenAllOk s = true := by
  have h0 := CohAt_bseek0 s text s.tell h
  have hfuel : text.length - 0 + 1 ≤ s.st.data.length + 2 := by
    rw [h.data]; have := length_le_blen text; simp only [blen] at this; omega
  have hl := SStr.lenLoop_spec (s.st.data.length + 2) (s.bseek 0) text 0 0 h0 hch hfuel
  have h1 := lenOk_of_coh (s.st.data.length + 2) (s.bseek 0) text 0 h0 hch hfuel
  have h2 := travOk_of_coh (s.tell + 1) ((SStr.lenLoop (s.st.data.length + 2) (s.bseek 0) 0).2.bseek 0) text 0 s.tell
    (CohAt_bseek0 _ text text.length hl.2.1) h.ale (Nat.zero_le _)
    (by show 0 < (SStr.lenLoop (s.st.data.length + 2) (s.bseek 0) 0).2.chunk; rw [hl.2.2]; exact hch) (by omega)
  simp [lenAllOk, h1, h2]

theorem rlOk_of_coh (fuel : Nat) (ret : List Char) (s : SStr) (text : List Char) (a : Nat)
    (h : CohAt s text a) (hf : (text.drop a).length + 1 ≤ fuel) : rlOk fuel ret s = true := by
  induction fuel generalizing ret s a with
  | zero => omega
  | succ fuel ih =>
    unfold rlOk
    by_cases h1 : (ret.isEmpty || endsCRLF ret) = true
    · rw [if_pos h1]
    · rw [if_neg h1]
      have hc := SStr.codecLine_spec s text a h
      by_cases h2 : s.codecLine.1.isEmpty = true
      · simp [goodLine_of_coh s text a h, h2]
      · have hne : s.codecLine.1 ≠ [] := fun h0 => h2 (by rw [h0]; rfl)
        have hpos : 0 < s.codecLine.1.length := List.length_pos_iff.2 hne
        have hle : s.codecLine.1.length ≤ (text.drop a).length := by
          rw [hc.1]; exact firstLine_length_le _ _
        have hdrop : text.drop (a + s.codecLine.1.length) = (text.drop a).drop s.codecLine.1.length := by
          rw [List.drop_drop]
        have := ih (ret ++ s.codecLine.1) s.codecLine.2 (a + s.codecLine.1.length) hc.2.1
          (by rw [hdrop, List.length_drop]; omega)
        simp [goodLine_of_coh s text a h, this]

theorem rlAllOk_of_coh (s : SStr) (text : List Char) (h : Coh s text) : rlAllOk s = true := by
  have hc := SStr.codecLine_spec s text s.tell h
  have hfuel : (text.drop (s.tell + s.codecLine.1.length)).length + 1 ≤ s.st.data.length + 2 := by
    have hdata : s.st.data.length = blen text := by rw [h.data]; rfl
    have := length_le_blen text
    simp only [List.length_drop]; omega
  have := rlOk_of_coh (s.st.data.length + 2) s.codecLine.1 s.codecLine.2 text _ hc.2.1 hfuel
  simp [rlAllOk, goodLine_of_coh s text s.tell h, this]

theorem rollOk_of_coh (s : SStr) (text : List Char) (h : Coh s text) (hch : 0 < s.chunk) : rollOk s = true := by
  unfold rollOk
  by_cases hr : s.rolled = true
  · simp [hr]
  · have h0 : CohAt s.moved text text.length := by
      refine ⟨?_, ?_, Nat.le_refl _, ⟨[], 0, ⟨?_, rfl, rfl, rfl⟩, ?_⟩, Or.inl rfl⟩
      · show ((File.empty : File CU).write s.st.data).data = encode text
        rw [File.write_empty]; exact h.data
      · show InRange ((File.empty : File CU).write s.st.data)
        rw [File.write_empty]; simp [InRange]
      · show ((File.empty : File CU).write s.st.data).rest = _
        rw [File.write_empty]; simp [File.rest]
      · simp [pend, Reader.merge, Reader.reset, SStr.moved]
    have := travOk_of_coh (s.tell + 1) (s.moved.bseek 0) text 0 s.tell (CohAt_bseek0 _ text _ h0) h.ale (Nat.zero_le _)
      hch (by omega)
    simp [this]

theorem writeOk_of_coh (s : SStr) (text cs : List Char) (h : Coh s text) (hch : 0 < s.chunk) : writeOk s cs := by
  unfold writeOk
  split
  · exact ⟨rollOk_of_coh s text h hch, (SStr.rollover_spec s text h hch).1.inr⟩
  · exact h.inr

/-! ## 7. SpooledStringIO: one call, histories, io.StringIO -/

def outOfS {ρ : Type} (g : ρ → Out Char) (r : Except PyExc ρ × SS) : Except PyExc (Out Char) × SS :=
  (match r.1 with | .ok v => .ok (g v) | .error e => .error e, r.2)

/-- a public call of the model's history language on the GENERATED definitions of `SpooledStringIO` -/
def srcStepS (lfuel : Nat) (st : SS) : Op Char → Except PyExc (Out Char) × SS
  | .write cs => outOfS (fun _ => .unit) (SpooledStringIO.write lfuel st cs)
  | .read n => outOfS .data (SpooledStringIO.read st n)
  | .readAll => outOfS .data (SpooledStringIO.read st (-1))
  | .readline => outOfS .data (SpooledStringIO.readline lfuel st none)
  | .seek p => outOfS (fun v => .num v.toNat) (SpooledStringIO.seek lfuel st p 0)
  | .seekCur n => outOfS (fun v => .num v.toNat) (SpooledStringIO.seek lfuel st n 1)
  | .seekEnd n => outOfS (fun v => .num v.toNat) (SpooledStringIO.seek lfuel st n 2)
  | .tell => outOfS (fun v => .num v.toNat) (SpooledStringIO.tell st)
  | .len => outOfS (fun v => .num v.toNat) (SpooledStringIO.len lfuel st)
  | .rollover => outOfS (fun _ => .unit) (SpooledStringIO.rollover lfuel st)
  | _ => (.error .Other, st)

/-- the calls whose `SpooledStringIO` methods are translated AND tied (not: `readlines`, `getvalue`, iteration,
    `writelines`, sized `readline`) -/
def tiedS : Op Char → Bool
  | .write _ => true
  | .read _ => true
  | .readAll => true
  | .readline => true
  | .seek _ => true
  | .seekCur _ => true
  | .seekEnd _ => true
  | .tell => true
  | .len => true
  | .rollover => true
  | _ => false

/-- ONE CALL: on an object standing for a coherent model state (which itself stands for the reference text file `f`),
    a translated call inside the statement's domain (`okS`) with enough loop fuel raises nothing, returns what
    `SStr.step` returns and ends in an object standing for the model's next state -/
theorem src_ss_step_eq_model (lfuel : Nat) (st : SS) (s : SStr) (f : File Char) (op : Op Char) (h : RelS st s)
    (hs : SRel s f) (ht : tiedS op = true) (hok : okS f op = true) (hfuel : s.st.data.length + 2 ≤ lfuel) :
    (srcStepS lfuel st op).1 = .ok (s.step op).1 ∧ RelS (srcStepS lfuel st op).2 (s.step op).2 := by
  obtain ⟨hc, hpos, hch⟩ := hs
  have hdl : f.data.length ≤ s.st.data.length := by rw [hc.data]; exact length_le_blen f.data
  have hale : s.tell ≤ f.data.length := hc.ale
  cases op with
  | write cs =>
    have := src_ss_write_eq_model lfuel st s cs h (writeOk_of_coh s f.data cs hc hch) (by omega)
    exact ⟨by simp [srcStepS, outOfS, this.1, SStr.step], this.2⟩
  | read n =>
    have hsz : sizeOf ((n : Nat) : Int) = some n := by simp [sizeOf]
    have := src_ss_read_eq_model st s n h (goodRead_of_coh s f.data s.tell hc _)
    rw [hsz] at this
    exact ⟨by simp [srcStepS, outOfS, this.1, SStr.step], this.2⟩
  | readAll =>
    have hsz : sizeOf (-1) = none := by simp [sizeOf]
    have := src_ss_read_eq_model st s (-1) h (goodRead_of_coh s f.data s.tell hc _)
    rw [hsz] at this
    exact ⟨by simp [srcStepS, outOfS, this.1, SStr.step], this.2⟩
  | readline =>
    have := src_ss_readline_eq_model lfuel st s h (rlAllOk_of_coh s f.data hc) hfuel
    exact ⟨by simp [srcStepS, outOfS, this.1, SStr.step], this.2⟩
  | seek p =>
    simp only [okS, decide_eq_true_eq] at hok
    have := src_ss_seek_set_eq_model lfuel st s p h
      (travOk_of_coh (p + 1) (s.bseek 0) f.data 0 p (CohAt_bseek0 s f.data s.tell hc) hok (Nat.zero_le _) hch (by omega))
      (by omega)
    exact ⟨by simp [srcStepS, outOfS, this.1, SStr.step], this.2⟩
  | seekCur n =>
    simp only [okS, decide_eq_true_eq] at hok
    have := src_ss_seek_cur_eq_model lfuel st s n h
      (travOk_of_coh (n + 1) s f.data s.tell (s.tell + n) hc (by omega) (by omega) hch (by omega)) (by omega)
    exact ⟨by simp [srcStepS, outOfS, this.1, SStr.step]; omega, this.2⟩
  | seekEnd n =>
    simp only [okS, decide_eq_true_eq] at hok
    have hl := SStr.len_spec s f.data hc hch
    have := src_ss_seek_end_eq_model lfuel st s n h (lenAllOk_of_coh s f.data hc hch) (by rw [hl.1]; exact hok)
      (travOk_of_coh (s.len.1 - n + 1) (s.len.2.bseek 0) f.data 0 (s.len.1 - n)
        (CohAt_bseek0 s.len.2 f.data s.tell hl.2.1) (by rw [hl.1]; omega) (Nat.zero_le _)
        (by show 0 < s.len.2.chunk; rw [hl.2.2.2]; exact hch) (by omega))
      hfuel (by omega) (by rw [hl.1]; omega)
    exact ⟨by simp [srcStepS, outOfS, this.1, SStr.step], this.2⟩
  | tell =>
    have := src_ss_tell_eq_model st
    rw [h.opened] at this
    refine ⟨?_, ?_⟩
    · simp [srcStepS, outOfS, this, SStr.step, h.tell]
    · simpa [srcStepS, outOfS, this, SStr.step] using h
  | len =>
    have := src_ss_len_eq_model lfuel st s h (lenAllOk_of_coh s f.data hc hch) hfuel (by omega)
    exact ⟨by simp [srcStepS, outOfS, this.1, SStr.step], this.2⟩
  | rollover =>
    have := src_ss_rollover_eq_model lfuel st s h (rollOk_of_coh s f.data hc hch) (by omega)
    exact ⟨by simp [srcStepS, outOfS, this.1, SStr.step], this.2⟩
  | readlineN _ => simp [tiedS] at ht
  | readlines => simp [tiedS] at ht
  | getvalue => simp [tiedS] at ht
  | next => simp [tiedS] at ht
  | list => simp [tiedS] at ht
  | drain => simp [tiedS] at ht
  | writelines _ => simp [tiedS] at ht

/-- a history of public calls on the GENERATED definitions -/
def srcRunS (lfuel : Nat) (st : SS) : List (Op Char) → List (Except PyExc (Out Char)) × SS
  | [] => ([], st)
  | op :: ops =>
    ((srcStepS lfuel st op).1 :: (srcRunS lfuel (srcStepS lfuel st op).2 ops).1,
     (srcRunS lfuel (srcStepS lfuel st op).2 ops).2)

/-- the loop fuel covers every state of the history: two more than the UTF-8 length of the reference content -/
def fuelS (lfuel : Nat) (f : File Char) : List (Op Char) → Bool
  | [] => true
  | op :: ops => decide (blen f.data + 2 ≤ lfuel) && fuelS lfuel (Spec.step textSem f op).2 ops

theorem src_ss_run_eq_model (lfuel : Nat) (st : SS) (s : SStr) (f : File Char) (ops : List (Op Char)) (h : RelS st s)
    (hs : SRel s f) (ht : ∀ op ∈ ops, tiedS op = true) (hv : validS f ops = true) (hf : fuelS lfuel f ops = true) :
    (srcRunS lfuel st ops).1 = (s.run ops).1.map .ok ∧ RelS (srcRunS lfuel st ops).2 (s.run ops).2 := by
  induction ops generalizing st s f with
  | nil => exact ⟨rfl, h⟩
  | cons op ops ih =>
    simp only [validS, Bool.and_eq_true] at hv
    simp only [fuelS, Bool.and_eq_true, decide_eq_true_eq] at hf
    have hdata : s.st.data.length = blen f.data := by rw [hs.1.data]; rfl
    have h1 := src_ss_step_eq_model lfuel st s f op h hs (ht op (by simp)) hv.1 (by omega)
    have hs2 := (SStr.step_spec s f op hs hv.1).2
    have h2 := ih (srcStepS lfuel st op).2 (s.step op).2 _ h1.2 hs2 (fun o ho => ht o (by simp [ho])) hv.2 hf.2
    simp only [srcRunS, SStr.run, List.map_cons]
    exact ⟨by rw [h1.1, h2.1], h2.2⟩

/-- a fresh `SpooledStringIO(max_size=m)` with `READ_CHUNK_SIZE = ch` -/
def srcInitS (m ch : Nat) : SS := { buffer := CFile.newMem, tell := 0, max_size := m, dir := (), chunk := ch }

theorem RelS_init (m ch : Nat) : RelS (srcInitS m ch) (SStr.init m ch) := ⟨rfl, rfl, rfl, rfl, rfl, rfl, rfl⟩

/-- HISTORIES: from a fresh object, every history of translated calls inside the statement's domain runs on the
    generated definitions without an exception (no decoding error, no loop out of fuel), returns call by call what the
    model returns, and ends in an object standing for the model's final state -/
theorem src_ss_history_refines (lfuel m ch : Nat) (hch : 0 < ch) (ops : List (Op Char))
    (ht : ∀ op ∈ ops, tiedS op = true) (hv : validS File.empty ops = true) (hf : fuelS lfuel File.empty ops = true) :
    (srcRunS lfuel (srcInitS m ch) ops).1 = ((SStr.init m ch).run ops).1.map .ok ∧
    RelS (srcRunS lfuel (srcInitS m ch) ops).2 ((SStr.init m ch).run ops).2 :=
  src_ss_run_eq_model lfuel _ _ File.empty ops (RelS_init m ch) (SRel_init m ch hch) ht hv hf

/-- hence the property holds of what the SOURCE computes: a history of translated `SpooledStringIO` calls returns
    exactly what `io.StringIO(newline='')` returns, ends with its position (in code points) and with its content
    (UTF-8 encoded in the stream) — whatever `max_size` and `READ_CHUNK_SIZE` -/
theorem src_string_refines_StringIO (lfuel m ch : Nat) (hch : 0 < ch) (ops : List (Op Char))
    (ht : ∀ op ∈ ops, tiedS op = true) (hv : validS File.empty ops = true) (hf : fuelS lfuel File.empty ops = true) :
    (srcRunS lfuel (srcInitS m ch) ops).1 = (Spec.run textSem File.empty ops).1.map .ok ∧
    (srcRunS lfuel (srcInitS m ch) ops).2.tell = ((Spec.run textSem File.empty ops).2.pos : Int) ∧
    (srcRunS lfuel (srcInitS m ch) ops).2.buffer.st.data = encode (Spec.run textSem File.empty ops).2.data := by
  have h := src_ss_history_refines lfuel m ch hch ops ht hv hf
  have hb := string_refines_StringIO m ch hch ops hv
  exact ⟨by rw [h.1, hb.1], by rw [h.2.tell, hb.2.1], by rw [h.2.stream, hb.2.2]⟩

/-- rolling over (and the chunk size) is invisible in what the source returns -/
theorem src_string_rollover_invisible (lfuel m₁ m₂ ch₁ ch₂ : Nat) (h₁ : 0 < ch₁) (h₂ : 0 < ch₂) (ops : List (Op Char))
    (ht : ∀ op ∈ ops, tiedS op = true) (hv : validS File.empty ops = true) (hf : fuelS lfuel File.empty ops = true) :
    (srcRunS lfuel (srcInitS m₁ ch₁) ops).1 = (srcRunS lfuel (srcInitS m₂ ch₂) ops).1 ∧
    (srcRunS lfuel (srcInitS m₁ ch₁) ops).2.tell = (srcRunS lfuel (srcInitS m₂ ch₂) ops).2.tell ∧
    (srcRunS lfuel (srcInitS m₁ ch₁) ops).2.buffer.st.data = (srcRunS lfuel (srcInitS m₂ ch₂) ops).2.buffer.st.data := by
  have a := src_string_refines_StringIO lfuel m₁ ch₁ h₁ ops ht hv hf
  have b := src_string_refines_StringIO lfuel m₂ ch₂ h₂ ops ht hv hf
  exact ⟨by rw [a.1, b.1], by rw [a.2.1, b.2.1], by rw [a.2.2, b.2.2]⟩

/-- non-vacuity: a history with multi-byte text, a rollover by `max_size`, reads, a line, seeks of all three kinds, `len` -/
def demoOpsS : List (Op Char) :=
  [.write ['é', 'a', Char.ofNat 10], .seek 1, .read 1, .len, .seekEnd 0, .write ['b'], .seekCur 0, .seek 0, .readline,
   .tell, .rollover, .readAll]
example : (∀ op ∈ demoOpsS, tiedS op = true) ∧ validS File.empty demoOpsS = true ∧ fuelS 9 File.empty demoOpsS = true := by
  decide

end C18
