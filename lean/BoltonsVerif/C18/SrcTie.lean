import BoltonsVerif.Generated.Src_ioutils
import BoltonsVerif.C18.Props
/-
C18 — source-translator tie for `boltons.ioutils.SpooledBytesIO` (on `SpooledIOBase`) and `MultiFileReader`.
-/
namespace C18
open Src.ioutils PyRtC18

/-! ## 0. evaluation of the statement combinators -/

section combinators
variable {σ ρ α τ : Type}

@[simp] theorem seq_apply (a b : Stmt σ ρ) (s : σ) :
    seq a b s = (match a s with | (.next, s1) => b s1 | (fl, s1) => (fl, s1)) := rfl
@[simp] theorem skip_apply (s : σ) : (skip : Stmt σ ρ) s = (.next, s) := rfl
@[simp] theorem assign_apply (f : σ → σ) (s : σ) : (assign f : Stmt σ ρ) s = (.next, f s) := rfl
@[simp] theorem cond_apply (c : σ → Bool) (a b : Stmt σ ρ) (s : σ) : cond c a b s = if c s then a s else b s := rfl
@[simp] theorem ret_apply (e : σ → ρ) (s : σ) : ret e s = (.ret (e s), s) := rfl
@[simp] theorem raise_apply (e : PyExc) (s : σ) : (raise e : Stmt σ ρ) s = (.exc e, s) := rfl
@[simp] theorem bindE_apply (m : σ → Except PyExc α × σ) (k : α → Stmt σ ρ) (s : σ) :
    bindE m k s = (match m s with | (.ok v, s1) => k v s1 | (.error e, s1) => (.exc e, s1)) := rfl
@[simp] theorem finish_ret (proj : σ → τ) (v : ρ) (s : σ) : finish proj (Flow.ret v, s) = (.ok v, proj s) := rfl
@[simp] theorem finish_exc (proj : σ → τ) (e : PyExc) (s : σ) :
    finish proj ((Flow.exc e : Flow ρ), s) = (.error e, proj s) := rfl

end combinators

/-! ## 1. SpooledBytesIO: every translated method is the abstract file operation behind a closed-check -/

abbrev SB := SpooledBytesIO.St

/-- run an operation of the abstract file on the buffer of the object -/
def onBuf {ρ : Type} (st : SB) (r : Res ρ (FileObj UInt8)) : Except PyExc ρ × SB := (r.1, { st with buffer := r.2 })

theorem src_sb_closed_eq_model (st : SB) : SpooledBytesIO.closed st = (.ok st.buffer.closed, st) := by
  simp [SpooledBytesIO.closed, SpooledBytesIO.closed.body, FileObj.isClosed]

theorem src_sb_checkClosed_eq_model (st : SB) (msg : Option Unit) :
    SpooledBytesIO.checkClosed st msg = (if st.buffer.closed then .error .ValueError else .ok (), st) := by
  cases h : st.buffer.closed <;>
    simp [SpooledBytesIO.checkClosed, SpooledBytesIO.checkClosed.body, src_sb_closed_eq_model, h]

theorem src_sb_rolled_eq_model (st : SB) : SpooledBytesIO.rolled st = (.ok st.buffer.real, st) := by
  simp [SpooledBytesIO.rolled, SpooledBytesIO.rolled.body, FileObj.isMem]

/-- what every public method starts with -/
theorem checkClosed_open (st : SB) (msg : Option Unit) (h : st.buffer.closed = false) :
    SpooledBytesIO.checkClosed st msg = (.ok (), st) := by simp [src_sb_checkClosed_eq_model, h]
theorem checkClosed_closed (st : SB) (msg : Option Unit) (h : st.buffer.closed = true) :
    SpooledBytesIO.checkClosed st msg = (.error .ValueError, st) := by simp [src_sb_checkClosed_eq_model, h]

/-- `tell()`: the position, ValueError on a closed file; the object is unchanged -/
theorem src_sb_tell_eq_model (st : SB) :
    SpooledBytesIO.tell st = (if st.buffer.closed then .error .ValueError else .ok (st.buffer.f.pos : Int), st) := by
  cases h : st.buffer.closed <;>
    simp [SpooledBytesIO.tell, SpooledBytesIO.tell.body, src_sb_checkClosed_eq_model, FileObj.tell, h]

/-- `seek(pos, mode)` IS the abstract file's `seek` on the buffer -/
theorem src_sb_seek_eq_model (st : SB) (pos mode : Int) :
    SpooledBytesIO.seek st pos mode = onBuf st (FileObj.seek st.buffer pos mode) := by
  cases h : st.buffer.closed
  · simp only [SpooledBytesIO.seek, SpooledBytesIO.seek.body, seq_apply, bindE_apply, checkClosed_open _ _ h,
      skip_apply, ret_apply, onBuf]
    rcases hr : FileObj.seek st.buffer pos mode with ⟨_ | _, o⟩ <;> simp
  · simp [SpooledBytesIO.seek, SpooledBytesIO.seek.body, checkClosed_closed _ _ h, FileObj.seek, onBuf, h]

/-- `read(n)` IS the abstract file's `read` on the buffer -/
theorem src_sb_read_eq_model (st : SB) (n : Int) :
    SpooledBytesIO.read st n = onBuf st (FileObj.read st.buffer n) := by
  cases h : st.buffer.closed
  · simp only [SpooledBytesIO.read, SpooledBytesIO.read.body, seq_apply, bindE_apply, checkClosed_open _ _ h,
      skip_apply, ret_apply, onBuf]
    rcases hr : FileObj.read st.buffer n with ⟨_ | _, o⟩ <;> simp
  · simp [SpooledBytesIO.read, SpooledBytesIO.read.body, checkClosed_closed _ _ h, FileObj.read, onBuf, h]

/-- the limit `readline(length)` hands to the buffer: `if length:` — `None` and `0` mean "no limit" -/
def rlLimit : Option Int → Option Int
  | none => none
  | some n => if n = 0 then none else some n

/-- `readline(length)` IS the abstract file's `readline` with that limit -/
theorem src_sb_readline_eq_model (st : SB) (length : Option Int) :
    SpooledBytesIO.readline st length = onBuf st (FileObj.readline PyRtC18.isNL st.buffer (rlLimit length)) := by
  cases h : st.buffer.closed
  · rcases length with _ | n
    · simp [SpooledBytesIO.readline, SpooledBytesIO.readline.body, checkClosed_open _ _ h, rlLimit, truthyOptInt,
        FileObj.readline, onBuf, h]
    · by_cases hn : n = 0 <;> by_cases hneg : n < 0 <;>
        simp [hneg, SpooledBytesIO.readline, SpooledBytesIO.readline.body, checkClosed_open _ _ h, rlLimit, truthyOptInt,
          FileObj.readline, onBuf, h, hn, PyRt.unwrap]
  · simp [SpooledBytesIO.readline, SpooledBytesIO.readline.body, checkClosed_closed _ _ h, FileObj.readline, onBuf, h]

/-- the object after `rollover()` of an open, in-memory object: a temporary file with the same content and position -/
def rolledOver (st : SB) : SB :=
  { st with buffer := ⟨((File.empty : File UInt8).write st.buffer.f.data).seek st.buffer.f.pos, false, true, false⟩ }

/-- `rollover()`: nothing when already on disk (the closed-check is NOT made); otherwise content and position move to
    a new temporary file and the BytesIO is closed; ValueError (from `buffer.tell()`) on a closed BytesIO -/
theorem src_sb_rollover_eq_model (st : SB) :
    SpooledBytesIO.rollover st =
      (if st.buffer.real then (.ok (), st)
       else if st.buffer.closed then (.error .ValueError, st) else (.ok (), rolledOver st)) := by
  cases hr : st.buffer.real <;> cases hc : st.buffer.closed <;>
    simp [SpooledBytesIO.rollover, SpooledBytesIO.rollover.body, src_sb_rolled_eq_model, FileObj.tell, FileObj.getvalue,
      FileObj.write, FileObj.seek, FileObj.target, FileObj.close, FileObj.newReal, hr, hc, rolledOver]
  -- the copy: `tmp.write(getvalue())` (nothing is written for empty data), then `tmp.seek(pos)`
  have hp : ¬ ((st.buffer.f.pos : Int) < 0) := by omega
  by_cases hd : st.buffer.f.data = [] <;> simp [hd, hp, File.write, File.empty, File.seek]

/-- the object `write(s)` writes into: rolled over first when the write would reach `max_size` -/
def writeTarget (st : SB) (b : List UInt8) : SB :=
  if (st.buffer.f.pos : Int) + b.length ≥ st.max_size ∧ st.buffer.real = false then rolledOver st else st

/-- `write(s)` on an open object: the rollover decision, then the abstract file's `write` on the buffer -/
theorem src_sb_write_eq_model (st : SB) (b : List UInt8) (h : st.buffer.closed = false) :
    SpooledBytesIO.write st b = ((.ok (), (onBuf (writeTarget st b) (FileObj.write (writeTarget st b).buffer b)).2)) := by
  by_cases hm : (st.buffer.f.pos : Int) + b.length ≥ st.max_size <;> cases hr : st.buffer.real <;>
    simp [SpooledBytesIO.write, SpooledBytesIO.write.body, checkClosed_open _ _ h, src_sb_tell_eq_model,
      src_sb_rollover_eq_model, h, hm, hr, writeTarget, onBuf, FileObj.write, rolledOver, PyRt.len] <;>
    (try (by_cases hb : b = [] <;> simp [hb]))

/-- `write(s)` on a closed object: ValueError, nothing changes -/
theorem src_sb_write_closed (st : SB) (b : List UInt8) (h : st.buffer.closed = true) :
    SpooledBytesIO.write st b = (.error .ValueError, st) := by
  simp [SpooledBytesIO.write, SpooledBytesIO.write.body, checkClosed_closed _ _ h]

/-- `fileno()`: rolls over first -/
theorem src_sb_fileno_eq_model (st : SB) (h : st.buffer.closed = false) :
    SpooledBytesIO.fileno st = (.ok ⟨⟩, if st.buffer.real then st else rolledOver st) := by
  cases hr : st.buffer.real <;>
    simp [SpooledBytesIO.fileno, SpooledBytesIO.fileno.body, src_sb_rollover_eq_model, FileObj.fileno, h, hr, rolledOver]

/-- the `len` property of an open object whose position is inside the data: the length of the data; the position is
    restored, and a temporary file is flushed (`stale` cleared) — `os.fstat` is asked only after the `seek(0)` that
    makes its answer the length of the data -/
theorem src_sb_len_eq_model (st : SB) (h : st.buffer.closed = false) :
    SpooledBytesIO.len st =
      (.ok (st.buffer.f.data.length : Int), { st with buffer := { st.buffer with stale := false } }) := by
  have hp : ¬ ((st.buffer.f.pos : Int) < 0) := by omega
  have hl : ¬ ((st.buffer.f.data.length : Int) < 0) := by omega
  cases hr : st.buffer.real <;>
    simp [SpooledBytesIO.len, SpooledBytesIO.len.body, src_sb_tell_eq_model, src_sb_rolled_eq_model,
      src_sb_seek_eq_model, src_sb_fileno_eq_model, onBuf, FileObj.seek, FileObj.target, FileObj.fstatSize,
      FileObj.fileno, File.seek, h, hr, hp, hl]

/-- `getvalue()` of an open object: the whole data; the position is restored -/
theorem src_sb_getvalue_eq_model (st : SB) (h : st.buffer.closed = false) :
    SpooledBytesIO.getvalue st = (.ok st.buffer.f.data, { st with buffer := { st.buffer with stale := false } }) := by
  have hp : ¬ ((st.buffer.f.pos : Int) < 0) := by omega
  simp [SpooledBytesIO.getvalue, SpooledBytesIO.getvalue.body, checkClosed_open, src_sb_tell_eq_model,
    src_sb_seek_eq_model, src_sb_read_eq_model, onBuf, FileObj.seek, FileObj.target, FileObj.read, File.seek,
    File.readAll, File.rest, h, hp]

end C18
