import BoltonsVerif.C18.Files
/-
C18 — SpooledBytesIO (every operation is a function of the buffer; refinement to the
plain file) and MultiFileReader (refinement to one file over the concatenation).  The text side is in
`Codec.lean`, `Reader.lean`, `Text.lean`.
-/
namespace C18
variable {α : Type}
/-! ### SpooledBytesIO: every operation is a function of the buffer alone -/

def bReadline (f : File Byte) (length : Option Nat) : List Byte × File Byte :=
  match length with
  | some (n + 1) => f.readline isNL (some (n + 1))
  | _ => f.readline isNL none

def bNext (f : File Byte) : Out Byte × File Byte :=
  if (bReadline f none).1.isEmpty then
    if (bReadline f none).2.pos = (bReadline f none).2.seekEnd.pos then (.stop, (bReadline f none).2.seekEnd)
    else (.data [], (bReadline f none).2.seekEnd.seek (bReadline f none).2.pos)
  else (.data (bReadline f none).1, (bReadline f none).2)

def bDrain : Nat → File Byte → List (List Byte) → List (List Byte) × File Byte
  | 0, f, acc => (acc.reverse, f)
  | fuel + 1, f, acc =>
    match bNext f with
    | (.data l, f') => bDrain fuel f' (l :: acc)
    | (_, f') => (acc.reverse, f')

def bStep (f : File Byte) : Op Byte → Out Byte × File Byte
  | .write b => (.unit, f.write b)
  | .read n => (.data (f.readN n).1, (f.readN n).2)
  | .readAll => (.data f.readAll.1, f.readAll.2)
  | .readline => (.data (bReadline f none).1, (bReadline f none).2)
  | .readlineN n => (.data (bReadline f (some n)).1, (bReadline f (some n)).2)
  | .readlines => (.lines (f.readlines isNL).1, (f.readlines isNL).2)
  | .seek p => (.num p, f.seek p)
  | .seekCur n => (.num (f.pos + n), f.seek (f.pos + n))
  | .seekEnd n => (.num (f.data.length - n), f.seek (f.data.length - n))
  | .tell => (.num f.pos, f)
  | .getvalue => (.data f.data, f)
  | .len => (.num f.data.length, f)
  | .next => bNext f
  | .list => (.lines (bDrain (f.data.length + 2) f []).1, (bDrain (f.data.length + 2) f []).2)
  | .drain => (.lines (bDrain (f.data.length + 2) f []).1, (bDrain (f.data.length + 2) f []).2)
  | .rollover => (.unit, f)
  | .writelines ss => (.unit, ss.foldl File.write f)

theorem SBytes.rollover_buf (s : SBytes) : s.rollover.buf = s.buf := by
  unfold SBytes.rollover
  split
  · rfl
  · simp [File.write_empty, File.seek]

theorem SBytes.write_buf (s : SBytes) (b : List Byte) : (s.write b).buf = s.buf.write b := by
  unfold SBytes.write
  split <;> simp [SBytes.rollover_buf]

theorem SBytes.writelines_buf (ss : List (List Byte)) (s : SBytes) :
    (ss.foldl SBytes.write s).buf = ss.foldl File.write s.buf := by
  induction ss generalizing s with
  | nil => rfl
  | cons b ss ih => simp only [List.foldl_cons]; rw [ih, SBytes.write_buf]

theorem SBytes.len_eq (s : SBytes) : s.len.1 = s.buf.data.length ∧ s.len.2.buf = s.buf := by
  unfold SBytes.len
  split <;> simp [File.seek, File.seekEnd]

theorem SBytes.getvalue_eq (s : SBytes) : s.getvalue.1 = s.buf.data ∧ s.getvalue.2.buf = s.buf := by
  simp [SBytes.getvalue, File.seek, File.readAll, File.rest]

theorem SBytes.readline_eq (s : SBytes) (l : Option Nat) :
    (s.readline l).1 = (bReadline s.buf l).1 ∧ (s.readline l).2.buf = (bReadline s.buf l).2 := by
  unfold SBytes.readline bReadline
  split <;> simp

theorem SBytes.next_eq (s : SBytes) : s.next.1 = (bNext s.buf).1 ∧ s.next.2.buf = (bNext s.buf).2 := by
  have h1 := (SBytes.readline_eq s none).1
  have h2 := (SBytes.readline_eq s none).2
  unfold SBytes.next bNext
  rw [h1, h2]
  split
  · split <;> simp
  · simp [h2]

theorem SBytes.drain_eq (fuel : Nat) (s : SBytes) (acc : List (List Byte)) :
    (SBytes.drain fuel s acc).1 = (bDrain fuel s.buf acc).1 ∧
    (SBytes.drain fuel s acc).2.buf = (bDrain fuel s.buf acc).2 := by
  induction fuel generalizing s acc with
  | zero => simp [SBytes.drain, bDrain]
  | succ n ih =>
    unfold SBytes.drain bDrain
    have h1 := (SBytes.next_eq s).1
    have h2 := (SBytes.next_eq s).2
    rcases hs : s.next with ⟨o, s'⟩
    rcases hb : bNext s.buf with ⟨o', f'⟩
    rw [hs, hb] at h1 h2
    simp only at h1 h2
    subst h1
    subst h2
    cases o <;> simp [ih]

/-- the observable result and the new buffer of every operation depend on the buffer only -/
theorem SBytes.step_eq (s : SBytes) (op : Op Byte) :
    (s.step op).1 = (bStep s.buf op).1 ∧ (s.step op).2.buf = (bStep s.buf op).2 := by
  cases op <;> simp only [SBytes.step, bStep, SBytes.write_buf, SBytes.readline_eq, SBytes.next_eq,
    SBytes.getvalue_eq, SBytes.len_eq, SBytes.drain_eq, SBytes.rollover_buf, SBytes.writelines_buf, and_self]

def bRun (f : File Byte) : List (Op Byte) → List (Out Byte) × File Byte
  | [] => ([], f)
  | op :: ops => ((bStep f op).1 :: (bRun (bStep f op).2 ops).1, (bRun (bStep f op).2 ops).2)

theorem SBytes.run_eq (s : SBytes) (ops : List (Op Byte)) :
    (s.run ops).1 = (bRun s.buf ops).1 ∧ (s.run ops).2.buf = (bRun s.buf ops).2 := by
  induction ops generalizing s with
  | nil => simp [SBytes.run, bRun]
  | cons op ops ih =>
    simp only [SBytes.run, bRun]
    rw [(SBytes.step_eq s op).1, (ih _).1, (ih _).2, (SBytes.step_eq s op).2]
    simp

/-! ### SpooledBytesIO refines io.BytesIO -/


theorem Spec.next_nil (sem : LineSem α) (f : File α) (h : sem.first f.rest = []) :
    Spec.next sem f = (.stop, f) := by
  unfold Spec.next; simp [h]

theorem Spec.next_cons (sem : LineSem α) (f : File α) (h : sem.first f.rest ≠ []) :
    Spec.next sem f = (.data (sem.first f.rest), ⟨f.data, f.pos + (sem.first f.rest).length⟩) := by
  unfold Spec.next; simp [h]

theorem bNext_spec (f : File Byte) (h : InRange f) : bNext f = Spec.next bytesSem f := by
  unfold bNext Spec.next bReadline
  simp only [File.readline, bytesSem]
  by_cases he : (takeLine isNL f.rest).isEmpty
  · have hr : f.rest = [] := by
      rw [List.isEmpty_iff] at he
      exact (takeLine_eq_nil _ _).1 he
    have hl := File.rest_length f
    rw [hr] at hl
    have hp : f.pos = f.data.length := by
      unfold InRange at h
      simp at hl
      omega
    simp [he, hr, takeLine, File.seekEnd, hp]
    cases f
    simp_all
  · simp [he]

theorem bDrain_spec (fuel : Nat) (f : File Byte) (acc : List (List Byte)) (h : InRange f)
    (hf : f.rest.length + 1 ≤ fuel) :
    bDrain fuel f acc = (acc.reverse ++ splitLines isNL f.rest, ⟨f.data, f.pos + f.rest.length⟩) := by
  induction fuel generalizing f acc with
  | zero => omega
  | succ n ih =>
    unfold bDrain
    rw [bNext_spec f h]
    by_cases he : takeLine isNL f.rest = []
    · have hr : f.rest = [] := (takeLine_eq_nil _ _).1 he
      rw [Spec.next_nil bytesSem f he]
      simp [hr, splitLines]
    · rw [Spec.next_cons bytesSem f he]
      show bDrain n ⟨f.data, f.pos + (takeLine isNL f.rest).length⟩ (takeLine isNL f.rest :: acc) = _
      have hne : f.rest ≠ [] := fun hr => he ((takeLine_eq_nil _ _).2 hr)
      have hlen := takeLine_length_le isNL f.rest
      have hpos : 0 < (takeLine isNL f.rest).length := List.length_pos_iff.2 he
      have hrl := File.rest_length f
      have hrest : (⟨f.data, f.pos + (takeLine isNL f.rest).length⟩ : File Byte).rest
          = f.rest.drop (takeLine isNL f.rest).length := by
        simp [File.rest, List.drop_drop]
      have hin : InRange (⟨f.data, f.pos + (takeLine isNL f.rest).length⟩ : File Byte) := by
        unfold InRange at h ⊢
        simp only
        omega
      rw [ih _ _ hin (by rw [hrest]; simp; omega)]
      rw [hrest, splitLines_cons isNL f.rest hne]
      simp only [List.reverse_cons, List.append_assoc, List.singleton_append, List.length_drop]
      congr 2
      omega

theorem bStep_spec (f : File Byte) (op : Op Byte) (h : InRange f) (hok : okB f op = true) :
    bStep f op = Spec.step bytesSem f op := by
  cases op with
  | writelines ss => simp only [bStep, Spec.step]; rw [File.foldl_write f ss h]
  | readlineN n =>
    cases n with
    | zero => simp [okB] at hok
    | succ k => simp [bStep, Spec.step, bReadline, File.readline, bytesSem]
  | next => simp [bStep, Spec.step, bNext_spec f h]
  | list =>
    simp only [bStep, Spec.step]
    rw [bDrain_spec _ f [] h (by have := File.rest_length f; omega)]
    simp [bytesSem]
  | drain =>
    simp only [bStep, Spec.step]
    rw [bDrain_spec _ f [] h (by have := File.rest_length f; omega)]
    simp [bytesSem]
  | _ => simp [bStep, Spec.step, bReadline, File.readline, File.readlines, bytesSem, File.seek, File.readAll, File.rest]

theorem spec_inRange (f : File Byte) (op : Op Byte) (h : InRange f) (hok : okB f op = true) :
    InRange (Spec.step bytesSem f op).2 := by
  have hrl := File.rest_length f
  cases op with
  | write s => exact File.write_inRange f s h
  | read n => simp [Spec.step, File.readN, InRange] at *; omega
  | readAll => simp [Spec.step, File.readAll, InRange] at *; omega
  | readline =>
    have := takeLine_length_le isNL f.rest
    simp [Spec.step, InRange, bytesSem] at *; omega
  | readlineN n =>
    have := takeLine_length_le isNL f.rest
    simp [Spec.step, InRange, bytesSem] at *; omega
  | readlines => simp [Spec.step, InRange] at *; omega
  | seek p => simpa [Spec.step, InRange, okB] using hok
  | seekCur n => simpa [Spec.step, InRange, okB] using hok
  | seekEnd n => simp [Spec.step, InRange]
  | tell => simpa [Spec.step] using h
  | getvalue => simpa [Spec.step] using h
  | len => simpa [Spec.step] using h
  | next =>
    have := takeLine_length_le isNL f.rest
    show InRange (Spec.next bytesSem f).2
    by_cases he : takeLine isNL f.rest = []
    · rw [Spec.next_nil bytesSem f he]; exact h
    · rw [Spec.next_cons bytesSem f he]
      show InRange ⟨f.data, f.pos + (takeLine isNL f.rest).length⟩
      simp [InRange] at *; omega
  | list => simp [Spec.step, InRange] at *; omega
  | drain => simp [Spec.step, InRange] at *; omega
  | rollover => simpa [Spec.step] using h
  | writelines ss => exact File.write_inRange f _ h

theorem bRun_spec (f : File Byte) (ops : List (Op Byte)) (h : InRange f) (hv : validB f ops = true) :
    bRun f ops = Spec.run bytesSem f ops := by
  induction ops generalizing f with
  | nil => rfl
  | cons op ops ih =>
    simp only [validB, Bool.and_eq_true] at hv
    simp only [bRun, Spec.run]
    rw [bStep_spec f op h hv.1, ih _ (spec_inRange f op h hv.1) hv.2]

variable {α : Type}

/-! ### MultiFileReader -/

/-- what is still to be delivered: the unread parts of the members from the current one on -/
def MFR.rem (m : MFR α) : List α := ((m.files.drop m.index).map File.rest).flatten

/-- the members before the current one are exhausted -/
def MFR.Inv (m : MFR α) : Prop := ∀ f ∈ m.files.take m.index, f.rest = []

def MFR.contents (m : MFR α) : List (List α) := m.files.map File.data

theorem flatten_rest_take_drop (fs : List (File α)) (i : Nat) (h : ∀ f ∈ fs.take i, f.rest = []) :
    (fs.map File.rest).flatten = ((fs.drop i).map File.rest).flatten := by
  induction fs generalizing i with
  | nil => simp
  | cons f fs ih =>
    cases i with
    | zero => simp
    | succ i =>
      have hf : f.rest = [] := h f (by simp)
      have := ih i (fun g hg => h g (by simp [hg]))
      simp [hf, this]

theorem MFR.readAll_spec (m : MFR α) (h : m.Inv) :
    m.readAll.1 = m.rem ∧ m.readAll.2.rem = [] ∧ m.readAll.2.Inv ∧ m.readAll.2.contents = m.contents := by
  refine ⟨?_, ?_, ?_, ?_⟩
  · simp only [MFR.readAll, MFR.rem]
    have : (fun (f : File α) => f.readAll.1) = File.rest := by funext f; rfl
    rw [this]
    exact flatten_rest_take_drop m.files m.index h
  · simp only [MFR.readAll, MFR.rem, List.map_drop, List.map_map]
    have : (File.rest ∘ fun (f : File α) => f.readAll.2) = fun _ => [] := by
      funext f; exact File.readAll_rest f
    rw [this]
    simp only [List.flatten_eq_nil_iff]
    intro l hl
    have := List.mem_of_mem_drop hl
    simp at this
    exact this.2
  · intro f hf
    simp only [MFR.readAll] at hf
    have := List.mem_of_mem_take hf
    rcases List.mem_map.1 this with ⟨g, _, rfl⟩
    exact File.readAll_rest g
  · simp [MFR.readAll, MFR.contents, File.readAll]


theorem drop_succ_set (l : List α) (i : Nat) (a : α) : (l.set i a).drop (i+1) = l.drop (i+1) := by
  rw [List.drop_set]; simp
theorem drop_set_self (l : List α) (i : Nat) (a : α) (h : i < l.length) :
    (l.set i a).drop i = a :: l.drop (i+1) := by
  rw [List.drop_eq_getElem_cons (by simpa using h), drop_succ_set]; simp

theorem MFR.readLoop_zero (fuel : Nat) (m : MFR α) (parts : List (List α)) :
    MFR.readLoop fuel m 0 parts = (parts, m) := by
  cases fuel <;> simp [MFR.readLoop]

theorem MFR.rem_of_get (m : MFR α) (f : File α) (h : m.files[m.index]? = some f) :
    m.rem = f.rest ++ ((m.files.drop (m.index + 1)).map File.rest).flatten := by
  have hlt : m.index < m.files.length := by
    rcases List.getElem?_eq_some_iff.1 h with ⟨hl, _⟩; exact hl
  have hf : m.files[m.index] = f := by
    rcases List.getElem?_eq_some_iff.1 h with ⟨_, he⟩; exact he
  unfold MFR.rem
  rw [List.drop_eq_getElem_cons hlt, hf]
  simp

theorem MFR.rem_of_none (m : MFR α) (h : m.files[m.index]? = none) : m.rem = [] := by
  have : m.files.length ≤ m.index := List.getElem?_eq_none_iff.1 h
  simp [MFR.rem, List.drop_eq_nil_of_le this]

theorem MFR.readLoop_spec (fuel : Nat) (m : MFR α) (amt : Nat) (parts : List (List α)) (h : m.Inv)
    (hf : m.files.length - m.index + 1 ≤ fuel) :
    (MFR.readLoop fuel m amt parts).1.reverse.flatten = parts.reverse.flatten ++ m.rem.take amt ∧
    (MFR.readLoop fuel m amt parts).2.rem = m.rem.drop amt ∧
    (MFR.readLoop fuel m amt parts).2.Inv ∧
    (MFR.readLoop fuel m amt parts).2.contents = m.contents := by
  induction fuel generalizing m amt parts with
  | zero => omega
  | succ n ih =>
    unfold MFR.readLoop
    by_cases ha : amt > 0
    · rw [if_pos ha]
      cases hg : m.files[m.index]? with
      | none => simp [MFR.rem_of_none m hg, h]
      | some f =>
        simp only
        have hlt : m.index < m.files.length := by
          rcases List.getElem?_eq_some_iff.1 hg with ⟨hl, _⟩; exact hl
        have hrem := MFR.rem_of_get m f hg
        have hdata : (setAt m.files m.index (f.readN amt).2).map File.data = m.files.map File.data := by
          unfold setAt
          rw [List.map_set]
          simp only [File.readN_data]
          have hf' : m.files[m.index] = f := by
            rcases List.getElem?_eq_some_iff.1 hg with ⟨_, he⟩; exact he
          rw [← hf']
          apply List.ext_getElem
          · simp
          · intro i h1 h2
            simp only [List.getElem_set, List.getElem_map]
            split
            · next hi => subst hi; rfl
            · rfl
        by_cases hlt2 : (f.readN amt).1.length < amt
        · rw [if_pos hlt2]
          have hshort : f.rest.length < amt := by
            simp only [File.readN_fst, List.length_take] at hlt2; omega
          have hgot : (f.readN amt).1 = f.rest := by
            rw [File.readN_fst, List.take_of_length_le (by omega)]
          have hinv : (⟨setAt m.files m.index (f.readN amt).2, m.index + 1⟩ : MFR α).Inv := by
            intro g hgm
            simp only [setAt] at hgm
            rw [List.take_succ_eq_append_getElem (by simpa using hlt)] at hgm
            rcases List.mem_append.1 hgm with hgm | hgm
            · rw [List.take_set_of_le (Nat.le_refl _)] at hgm
              exact h g hgm
            · simp only [List.getElem_set_self, List.mem_singleton] at hgm
              rw [hgm, File.readN_rest, List.drop_eq_nil_of_le (by omega)]
          have hrem' : (⟨setAt m.files m.index (f.readN amt).2, m.index + 1⟩ : MFR α).rem
              = ((m.files.drop (m.index + 1)).map File.rest).flatten := by
            simp only [MFR.rem, setAt, drop_succ_set]
          have := ih ⟨setAt m.files m.index (f.readN amt).2, m.index + 1⟩
            (amt - (f.readN amt).1.length) ((f.readN amt).1 :: parts) hinv
            (by simp [setAt]; omega)
          rcases this with ⟨h1, h2, h3, h4⟩
          refine ⟨?_, ?_, h3, ?_⟩
          · rw [h1, hrem', hrem, hgot, List.take_append]
            simp [List.take_of_length_le (Nat.le_of_lt hshort)]
          · rw [h2, hrem', hrem, hgot, List.drop_append]
            simp [List.drop_eq_nil_of_le (Nat.le_of_lt hshort)]
          · rw [h4]; simp only [MFR.contents]; exact hdata
        · rw [if_neg hlt2]
          have hlen : (f.readN amt).1.length = amt := by
            have : (f.readN amt).1.length ≤ amt := by simp [File.readN_fst, List.length_take]; omega
            omega
          have hge : amt ≤ f.rest.length := by
            simp only [File.readN_fst, List.length_take] at hlen; omega
          rw [hlen, Nat.sub_self, MFR.readLoop_zero]
          refine ⟨?_, ?_, ?_, ?_⟩
          · simp only [List.reverse_cons, List.flatten_append, List.flatten_cons, List.flatten_nil,
              List.append_nil]
            rw [hrem, List.take_append_of_le_length hge, File.readN_fst]
          · simp only [MFR.rem, setAt]
            rw [drop_set_self _ _ _ hlt]
            have hrem2 : (List.map File.rest (List.drop m.index m.files)).flatten = m.rem := rfl
            rw [hrem2, hrem, List.drop_append_of_le_length hge]
            simp [File.readN_rest]
          · intro g hgm
            simp only [setAt] at hgm
            rw [List.take_set_of_le (Nat.le_refl _)] at hgm
            exact h g hgm
          · simp only [MFR.contents]; exact hdata
    · rw [if_neg ha]
      have : amt = 0 := by omega
      subst this
      simp [h]

/-- the MultiFileReader `m` behaves like the single file `f` -/
def MRel (m : MFR α) (f : File α) : Prop :=
  f.data = m.contents.flatten ∧ f.rest = m.rem ∧ m.Inv

theorem MRel_init (cs : List (List α)) : MRel (MFR.init cs) ⟨cs.flatten, 0⟩ := by
  refine ⟨?_, ?_, ?_⟩
  · simp [MFR.init, MFR.contents, Function.comp_def]
  · simp [MFR.init, MFR.rem, File.rest, Function.comp_def]
  · intro f hf; simp [MFR.init] at hf

theorem MFR.step_spec (m : MFR α) (f : File α) (op : MOp) (h : MRel m f) :
    (m.step op).1 = (MFR.specStep f op).1 ∧ MRel (m.step op).2 (MFR.specStep f op).2 := by
  rcases h with ⟨hd, hr, hi⟩
  have hall : (m.readAll).1 = f.readAll.1 ∧ MRel (m.readAll).2 f.readAll.2 := by
    rcases MFR.readAll_spec m hi with ⟨h1, h2, h3, h4⟩
    refine ⟨by rw [h1, File.readAll_fst, hr], ?_, ?_, h3⟩
    · rw [File.readAll_data, h4, hd]
    · rw [File.readAll_rest, h2]
  cases op with
  | readAll => simpa [MFR.step, MFR.specStep, MFR.read] using hall
  | seek0 =>
    refine ⟨rfl, ?_, ?_, ?_⟩
    · simp only [MFR.step, MFR.specStep, MFR.seek0, MFR.contents, List.map_map, Function.comp_def]
      show f.data = _
      rw [hd]; rfl
    · simp only [MFR.step, MFR.specStep, MFR.seek0, MFR.rem, List.drop_zero, List.map_map, Function.comp_def]
      show (f.seek 0).rest = (List.map (fun x => (x.seek 0).rest) m.files).flatten
      have : (fun (x : File α) => (x.seek 0).rest) = File.data := by funext x; simp [File.rest, File.seek]
      rw [this, show (f.seek 0).rest = f.data by simp [File.rest, File.seek], hd]; rfl
    · intro g hg; simp [MFR.step, MFR.seek0] at hg
  | read n =>
    cases n with
    | zero => simpa [MFR.step, MFR.specStep, MFR.read] using hall
    | succ k =>
      rcases MFR.readLoop_spec (m.files.length - m.index + 2) m (k + 1) [] hi (by omega) with ⟨h1, h2, h3, h4⟩
      simp only [MFR.step, MFR.specStep, MFR.read]
      refine ⟨?_, ?_, ?_, h3⟩
      · rw [h1, File.readN_fst, hr]; simp
      · rw [File.readN_data, h4, hd]
      · rw [File.readN_rest, h2, hr]

theorem MFR.run_spec (m : MFR α) (f : File α) (ops : List MOp) (h : MRel m f) :
    (m.run ops).1 = (MFR.specRun f ops).1 ∧ MRel (m.run ops).2 (MFR.specRun f ops).2 := by
  induction ops generalizing m f with
  | nil => exact ⟨rfl, h⟩
  | cons op ops ih =>
    have hs := MFR.step_spec m f op h
    have := ih _ _ hs.2
    simp only [MFR.run, MFR.specRun]
    exact ⟨by rw [hs.1, this.1], this.2⟩
end C18
