import BoltonsVerif.C18.Files
import BoltonsVerif.C18.Codec
/-
C18 — `codecs.StreamReader.read` on a valid stream returns exactly the next characters.
-/
namespace C18

variable {α : Type}

/-! ### `codecs.StreamReader` on a valid stream -/

/-- `p` code units of the first undecoded character sit in the byte buffer -/
def PartOK (p : Nat) : List Char → Prop
  | [] => p = 0
  | c :: _ => p < width c

/-- stream/reader coherence: the characters not yet decoded are `X`, the first `p` code units of
    their encoding have been read into `bytebuf`, the stream holds the others -/
structure RC (st : File CU) (r : Reader) (X : List Char) (p : Nat) : Prop where
  rest : st.rest = (encode X).drop p
  bb : r.bytebuf = (encode X).take p
  part : PartOK p X
  good : r.bad = false

theorem PartOK_lt (p : Nat) (X : List Char) (h : PartOK p X) (hx : X ≠ []) : p < blen X := by
  cases X with
  | nil => exact absurd rfl hx
  | cons c cs => simp only [PartOK] at h; rw [blen_cons]; omega

theorem PartOK_le (p : Nat) (X : List Char) (h : PartOK p X) : p ≤ blen X := by
  cases X with
  | nil => simp only [PartOK] at h; simp [h]
  | cons c cs => simp only [PartOK] at h; rw [blen_cons]; omega

theorem PartOK_nil (p : Nat) (h : PartOK p []) : p = 0 := h

theorem rdLoop_spec (size : Option Nat) (fuel : Nat) (st : File CU) (r : Reader) (X : List Char) (p : Nat)
    (h : RC st r X p) (hin : InRange st) (hf : st.rest.length + 1 ≤ fuel) :
    ∃ j p', j ≤ X.length ∧
      (rdLoop size fuel st r).2.charbuf = r.charbuf ++ X.take j ∧
      (rdLoop size fuel st r).2.linebuf = r.linebuf ∧
      RC (rdLoop size fuel st r).1 (rdLoop size fuel st r).2 (X.drop j) p' ∧
      (rdLoop size fuel st r).1.data = st.data ∧ InRange (rdLoop size fuel st r).1 ∧
      (enough size (rdLoop size fuel st r).2.charbuf = true ∨ j = X.length) := by
  induction fuel generalizing st r X p with
  | zero => omega
  | succ fuel ih =>
    unfold rdLoop
    by_cases he : enough size r.charbuf = true
    · rw [if_pos he]
      exact ⟨0, p, by simp, by simp, rfl, by simpa using h, rfl, hin, Or.inl he⟩
    · rw [if_neg he]
      rcases File.read_facts st size with ⟨hnd, hrest1, hdata1, hin1⟩
      -- the amount asked for is positive
      have hkpos : st.rest ≠ [] → (st.read size).1 ≠ [] := by
        intro hne
        rw [hnd]
        cases size with
        | none => simp [amount, hne]
        | some n =>
          have : 0 < n := by
            cases n with
            | zero => simp [enough] at he
            | succ k => omega
          cases hr : st.rest with
          | nil => exact absurd hr hne
          | cons a b => simp [amount]; omega
      have hdata : r.bytebuf ++ (st.read size).1 = (encode X).take (p + (st.read size).1.length) := by
        rw [List.take_add, ← h.bb, ← h.rest, hnd]
        simp
      by_cases hde : (r.bytebuf ++ (st.read size).1).isEmpty = true
      · rw [if_pos hde]
        have hnil : (st.read size).1 = [] := by
          rw [List.isEmpty_iff] at hde
          exact (List.append_eq_nil_iff.1 hde).2
        have hrn : st.rest = [] := by
          apply Classical.byContradiction
          intro hne; exact hkpos hne hnil
        have hX : X = [] := by
          apply Classical.byContradiction
          intro hne
          have hlt := PartOK_lt p X h.part hne
          have : ((encode X).drop p).length = 0 := by rw [← h.rest, hrn]; rfl
          simp [blen] at *
          omega
        subst hX
        refine ⟨0, p, by simp, by simp, rfl, ⟨?_, h.bb, h.part, h.good⟩, hdata1, hin1 hin, Or.inr rfl⟩
        rw [hrest1, hrn]; simp
      · rw [if_neg hde]
        by_cases hne : (st.read size).1.isEmpty = true
        · -- no new data but undecoded bytes: impossible on a valid stream
          exfalso
          have hnil : (st.read size).1 = [] := List.isEmpty_iff.1 hne
          have hrn : st.rest = [] := by
            apply Classical.byContradiction
            intro hne'; exact hkpos hne' hnil
          have hX : X = [] := by
            apply Classical.byContradiction
            intro hne'
            have hlt := PartOK_lt p X h.part hne'
            have : ((encode X).drop p).length = 0 := by rw [← h.rest, hrn]; rfl
            simp [blen] at *
            omega
          apply hde
          rw [hnil, h.bb, hX]; simp
        · rw [if_neg hne]
          have hnn : (st.read size).1 ≠ [] := fun hh => hne (by simp [hh])
          have hlenpos : 0 < (st.read size).1.length := List.length_pos_iff.2 hnn
          generalize hm : p + (st.read size).1.length = m at hdata
          rw [hdata, decode_take m X]
          simp only
          -- the state after this pass
          have hble := blen_take_fit m X
          have hsplit : encode X = encode (X.take (fit m X)) ++ encode (X.drop (fit m X)) := by
            rw [← encode_append, List.take_append_drop]
          have hrest' : (st.read size).2.rest =
              (encode (X.drop (fit m X))).drop (m - blen (X.take (fit m X))) := by
            rw [hrest1, h.rest, List.drop_drop]
            have : (st.read size).1.length = amount st size ∨ (st.read size).2.rest = [] := by
              rw [hnd, List.length_take]
              by_cases hle : amount st size ≤ st.rest.length
              · left; omega
              · right; rw [hrest1]; exact List.drop_eq_nil_of_le (by omega)
            rcases this with hk | hk
            · rw [← hk, hm]
              conv => lhs; rw [hsplit]
              rw [List.drop_append]
              have : List.drop m (encode (List.take (fit m X) X)) = [] :=
                List.drop_eq_nil_of_le (by simpa [blen] using hble)
              rw [this]; simp [blen]
            · -- everything was read
              rw [hrest1] at hk
              have h1 := List.drop_eq_nil_iff.1 hk
              have h2 : (st.read size).1.length = st.rest.length := by
                rw [hnd, List.length_take]; omega
              have h3 : st.rest.length = (encode X).length - p := by rw [h.rest]; simp
              have h4 := PartOK_le p X h.part
              simp only [blen] at h4
              have hall : (encode X).length ≤ m := by omega
              rw [List.drop_eq_nil_of_le (by omega)]
              rw [fit_all m X (by simpa [blen] using hall)]
              simp
          have hrc : ∃ p1, RC (st.read size).2
              { r with bytebuf := (encode (X.drop (fit m X))).take (m - blen (X.take (fit m X))),
                       charbuf := r.charbuf ++ X.take (fit m X), bad := r.bad || false }
              (X.drop (fit m X)) p1 := by
            cases RC_adv : (X.drop (fit m X)) with
            | nil =>
              refine ⟨0, ?_, ?_, ?_, ?_⟩
              · rw [hrest', RC_adv]; simp
              · simp
              · rfl
              · simp [h.good]
            | cons c t =>
              have hpo := fit_maximal m X c t RC_adv
              refine ⟨m - blen (X.take (fit m X)), ?_, rfl, hpo, ?_⟩
              · rw [hrest', RC_adv]
              · simp [h.good]
          rcases hrc with ⟨p1, hrc⟩
          have hfuel : (st.read size).2.rest.length + 1 ≤ fuel := by
            rw [hrest1, List.length_drop]
            have : 0 < amount st size := by
              rw [hnd, List.length_take] at hlenpos; omega
            have : st.rest ≠ [] := by
              intro hh; rw [hnd, hh] at hnn; simp at hnn
            have := List.length_pos_iff.2 this
            omega
          rcases ih _ _ _ _ hrc (hin1 hin) hfuel with ⟨j2, p2, hj2, hcb, hlb, hrc2, hd2, hin2, hfin⟩
          refine ⟨fit m X + j2, p2, ?_, ?_, ?_, ?_, ?_, hin2, ?_⟩
          · have := fit_le m X; rw [List.length_drop] at hj2; omega
          · rw [hcb]; simp only [List.append_assoc]; rw [List.take_add]
          · rw [hlb]
          · rw [← List.drop_drop]; exact hrc2
          · rw [hd2, hdata1]
          · rcases hfin with hfin | hfin
            · exact Or.inl hfin
            · right
              have := fit_le m X
              rw [hfin, List.length_drop]; omega



/-- decoded characters not yet handed out -/
def pend (r : Reader) : List Char := r.merge.charbuf

theorem merge_linebuf (r : Reader) : r.merge.linebuf = [] := by
  unfold Reader.merge; split
  · next h => exact List.isEmpty_iff.1 h
  · rfl

theorem RC_merge (st : File CU) (r : Reader) (X : List Char) (p : Nat) (h : RC st r X p) :
    RC st r.merge X p := by
  unfold Reader.merge; split
  · exact h
  · exact ⟨h.rest, h.bb, h.part, h.good⟩

/-- what `read(size)` must return when `R` is left -/
def wanted (size : Option Nat) (R : List Char) : List Char :=
  match size with
  | none => R
  | some n => R.take n
@[simp] theorem wanted_none (R : List Char) : wanted none R = R := rfl
@[simp] theorem wanted_some (n : Nat) (R : List Char) : wanted (some n) R = R.take n := rfl
theorem wanted_length_le (size : Option Nat) (R : List Char) : (wanted size R).length ≤ R.length := by
  cases size <;> simp [List.length_take]; omega

theorem Reader.read_spec (st : File CU) (r : Reader) (X : List Char) (p : Nat)
    (h : RC st r X p) (hin : InRange st) (size : Option Nat) :
    (Reader.read st r size).1 = wanted size (pend r ++ X) ∧
    ∃ X' p', RC (Reader.read st r size).2.1 (Reader.read st r size).2.2 X' p' ∧
      (Reader.read st r size).2.2.linebuf = [] ∧
      (Reader.read st r size).2.2.charbuf ++ X' = (pend r ++ X).drop (Reader.read st r size).1.length ∧
      (Reader.read st r size).2.1.data = st.data ∧ InRange (Reader.read st r size).2.1 := by
  rcases rdLoop_spec size (st.rest.length + 2) st r.merge X p (RC_merge st r X p h) hin (by omega)
    with ⟨j, p', hj, hcb, hlb, hrc, hd, hin', hfin⟩
  rw [merge_linebuf] at hlb
  cases size with
  | none =>
    have hjX : j = X.length := by
      rcases hfin with hfin | hfin
      · simp [enough] at hfin
      · exact hfin
    subst hjX
    simp only [List.take_length] at hcb
    simp only [Reader.read]
    refine ⟨by rw [hcb]; rfl, [], p', ?_, hlb, ?_, hd, hin'⟩
    · simp only [List.drop_length] at hrc
      exact ⟨hrc.rest, hrc.bb, hrc.part, hrc.good⟩
    · rw [hcb]; simp [pend]
  | some n =>
    simp only [Reader.read]
    have hR : pend r ++ X = (rdLoop (some n) (st.rest.length + 2) st r.merge).2.charbuf ++ X.drop j := by
      rw [hcb]; simp [pend]
    have hcase : n ≤ (rdLoop (some n) (st.rest.length + 2) st r.merge).2.charbuf.length ∨ X.drop j = [] := by
      rcases hfin with hfin | hfin
      · left; simpa [enough] using hfin
      · right; rw [hfin]; simp
    refine ⟨?_, X.drop j, p', ⟨hrc.rest, hrc.bb, hrc.part, hrc.good⟩, hlb, ?_, hd, hin'⟩
    · rw [hR, wanted_some]
      rcases hcase with hc | hc
      · rw [List.take_append_of_le_length hc]
      · rw [hc]; simp
    · rw [hR]
      simp only [List.length_take]
      rcases hcase with hc | hc
      · rw [Nat.min_eq_left hc, List.drop_append_of_le_length hc]
      · rw [hc]; simp

end C18
