import BoltonsVerif.C18.Driver
def main : IO Unit := BV.mainLoop C18.Driver.handle
