import BoltonsVerif.C18.Text
import BoltonsVerif.C18.Bytes
/-
C18 — SpooledStringIO refines io.StringIO(newline=''): domain predicate, simulation relation, step and run lemmas.
-/
namespace C18
/-- the spooled text file `s` stands for the reference file `f` -/
def SRel (s : SStr) (f : File Char) : Prop := Coh s f.data ∧ s.tell = f.pos ∧ 0 < s.chunk

theorem SRel_init (ms ch : Nat) (h : 0 < ch) : SRel (SStr.init ms ch) File.empty := by
  refine ⟨⟨rfl, by simp [SStr.init, InRange, File.empty], Nat.le_refl _, ⟨[], 0, ⟨rfl, rfl, rfl, rfl⟩, rfl⟩, Or.inl rfl⟩,
    rfl, h⟩

theorem SRel.readline (s : SStr) (f : File Char) (h : SRel s f) :
    s.readline.1 = firstLine true f.rest ∧
    SRel s.readline.2 ⟨f.data, f.pos + (firstLine true f.rest).length⟩ := by
  rcases h with ⟨hc, ht, hch⟩
  have hr := SStr.readline_spec s f.data hc
  have hout : s.readline.1 = firstLine true f.rest := by
    rw [hr.1, ht]; rfl
  exact ⟨hout, hr.2.1, by rw [hr.2.2.1, hout, ht], by rw [hr.2.2.2]; exact hch⟩

theorem SRel.next (s : SStr) (f : File Char) (h : SRel s f) :
    s.next.1 = (Spec.next codecSem f).1 ∧ SRel s.next.2 (Spec.next codecSem f).2 := by
  have hr := SRel.readline s f h
  have hle : f.pos ≤ f.data.length := by rw [← h.2.1]; exact h.1.ale
  unfold SStr.next
  by_cases he : firstLine true f.rest = []
  · rw [Spec.next_nil codecSem f he]
    rw [if_pos (by rw [hr.1, he]; rfl)]
    rw [he] at hr
    rcases hr.2 with ⟨hc1, ht1, hch1⟩
    simp only [List.length_nil, Nat.add_zero] at ht1
    have hrest : f.rest = [] := (firstLine_eq_nil true _).1 he
    have hend : f.pos = f.data.length := by
      have := File.rest_length f; rw [hrest] at this; simp at this; omega
    have hcoh : CohAt s.readline.2 f.data f.data.length := by
      have := hc1; unfold Coh at this; rw [ht1, hend] at this; exact this
    rcases CohAt_end _ _ hcoh with ⟨_, hpos, _, _⟩
    rw [if_pos hpos]
    refine ⟨rfl, ?_, by simp only; rw [ht1], hch1⟩
    show Coh _ f.data
    unfold Coh
    simp only
    rw [ht1, hend]
    refine ⟨hcoh.data, by simp [InRange, File.seekEnd], Nat.le_refl _, ⟨[], 0, ⟨?_, rfl, rfl, rfl⟩, ?_⟩, Or.inl rfl⟩
    · simp [File.rest, File.seekEnd]
    · simp [pend, Reader.merge, Reader.reset]
  · rw [Spec.next_cons codecSem f he]
    rw [if_neg (by rw [hr.1]; simpa using he)]
    exact ⟨by rw [hr.1]; rfl, hr.2⟩

theorem SRel.drain (fuel : Nat) (s : SStr) (f : File Char) (acc : List (List Char)) (h : SRel s f)
    (hf : f.rest.length + 1 ≤ fuel) :
    (SStr.drain fuel s acc).1 = acc.reverse ++ splitL true f.rest ∧
    SRel (SStr.drain fuel s acc).2 ⟨f.data, f.pos + f.rest.length⟩ := by
  induction fuel generalizing s f acc with
  | zero => omega
  | succ fuel ih =>
    have hn := SRel.next s f h
    have hle : f.pos ≤ f.data.length := by rw [← h.2.1]; exact h.1.ale
    unfold SStr.drain
    by_cases he : firstLine true f.rest = []
    · rw [Spec.next_nil codecSem f he] at hn
      have hrest : f.rest = [] := (firstLine_eq_nil true _).1 he
      rcases hs : s.next with ⟨o, s'⟩
      rw [hs] at hn
      simp only at hn
      rcases hn with ⟨h1, h2⟩
      subst h1
      simp only
      rw [hrest]
      exact ⟨by simp [splitL], by simpa using h2⟩
    · rw [Spec.next_cons codecSem f he] at hn
      have hne : f.rest ≠ [] := fun h0 => he ((firstLine_eq_nil true _).2 h0)
      rcases hs : s.next with ⟨o, s'⟩
      rw [hs] at hn
      simp only at hn
      rcases hn with ⟨h1, h2⟩
      subst h1
      simp only
      have hlen := firstLine_length_le true f.rest
      have hpos : 0 < (codecSem.first f.rest).length := List.length_pos_iff.2 he
      have hrl := File.rest_length f
      have hrest' : (⟨f.data, f.pos + (codecSem.first f.rest).length⟩ : File Char).rest
          = f.rest.drop (codecSem.first f.rest).length := by
        simp [File.rest, List.drop_drop]
      have := ih s' ⟨f.data, f.pos + (codecSem.first f.rest).length⟩ (codecSem.first f.rest :: acc) h2
        (by rw [hrest', List.length_drop]; show f.rest.length - (firstLine true f.rest).length + 1 ≤ fuel
            have : 0 < (firstLine true f.rest).length := hpos
            omega)
      rw [hrest'] at this
      refine ⟨?_, ?_⟩
      · rw [this.1, splitL_head true f.rest hne]
        simp only [List.reverse_cons, List.append_assoc, List.singleton_append]
        rfl
      · have h3 := this.2
        simp only [List.length_drop] at h3
        have hh : f.pos + (codecSem.first f.rest).length + (f.rest.length - (codecSem.first f.rest).length)
            = f.pos + f.rest.length := by
          have : (codecSem.first f.rest).length ≤ f.rest.length := hlen
          omega
        rw [hh] at h3
        exact h3

theorem SStr.step_spec (s : SStr) (f : File Char) (op : Op Char) (h : SRel s f) (hok : okS f op = true) :
    (s.step op).1 = (Spec.step codecSem f op).1 ∧ SRel (s.step op).2 (Spec.step codecSem f op).2 := by
  rcases h with ⟨hc, ht, hch⟩
  have hle : f.pos ≤ f.data.length := by rw [← ht]; exact hc.ale
  cases op with
  | write cs =>
    simp only [okS, decide_eq_true_eq] at hok
    have hw := SStr.write_spec s f.data cs hc (by rw [ht, hok]) hch
    simp only [SStr.step, Spec.step]
    rw [File.write_end f cs hok]
    refine ⟨trivial, hw.1, ?_, by rw [hw.2.2]; exact hch⟩
    rw [hw.2.1, hok]; simp
  | writelines ss =>
    simp only [okS, decide_eq_true_eq] at hok
    have hw := SStr.writelines_spec ss s f.data hc (by rw [ht, hok]) hch
    simp only [SStr.step, Spec.step]
    rw [File.write_end f ss.flatten hok]
    refine ⟨trivial, hw.1, ?_, by rw [hw.2.2]; exact hch⟩
    rw [hw.2.1, hok]; simp
  | read n =>
    have hr := SStr.read_spec s f.data s.tell hc (some n)
    simp only [SStr.step, Spec.step, File.readN, File.rest]
    rw [hr.1, ht]
    refine ⟨rfl, ?_, ?_, by rw [hr.2.2.2]; exact hch⟩
    · unfold Coh; rw [hr.2.2.1]; exact hr.2.1
    · rw [hr.2.2.1, hr.1, ht]; rfl
  | readAll =>
    have hr := SStr.read_spec s f.data s.tell hc none
    simp only [SStr.step, Spec.step, File.readAll, File.rest]
    rw [hr.1, ht]
    refine ⟨rfl, ?_, ?_, by rw [hr.2.2.2]; exact hch⟩
    · unfold Coh; rw [hr.2.2.1]; exact hr.2.1
    · rw [hr.2.2.1, hr.1, ht]; rfl
  | readline =>
    have hr := SRel.readline s f ⟨hc, ht, hch⟩
    exact ⟨by simp only [SStr.step, Spec.step]; rw [hr.1]; rfl, hr.2⟩
  | readlineN n => simp [okS] at hok
  | readlines =>
    have hr := SStr.readlines_spec s f.data hc
    simp only [SStr.step, Spec.step, codecSem, File.rest]
    rw [hr.1, ht]
    refine ⟨rfl, hr.2.1, ?_, by rw [hr.2.2.2]; exact hch⟩
    rw [hr.2.2.1, List.length_drop]; simp only; omega
  | seek p =>
    simp only [okS, decide_eq_true_eq] at hok
    have hr := SStr.seek_spec s f.data s.tell p hc hok hch
    refine ⟨rfl, ?_, hr.2.1, by simp only [SStr.step]; rw [hr.2.2]; exact hch⟩
    show Coh (s.seek p) f.data
    unfold Coh; rw [hr.2.1]; exact hr.1
  | seekCur n =>
    simp only [okS, decide_eq_true_eq] at hok
    have hr := SStr.seekCur_spec s f.data n hc (by rw [ht]; exact hok) hch
    refine ⟨by simp [SStr.step, Spec.step, ht], ?_, by simp only [SStr.step, Spec.step]; rw [hr.2.1, ht]; rfl,
      by simp only [SStr.step]; rw [hr.2.2]; exact hch⟩
    show Coh (s.seekCur n) f.data
    unfold Coh; rw [hr.2.1]; exact hr.1
  | seekEnd n =>
    have hr := SStr.seekEnd_spec s f.data n hc hch
    refine ⟨by simp [SStr.step, Spec.step, hr.2.2.2], hr.1, by simp only [SStr.step, Spec.step]; rw [hr.2.1]; rfl,
      by simp only [SStr.step]; rw [hr.2.2.1]; exact hch⟩
  | tell => exact ⟨by simp [SStr.step, Spec.step, ht], hc, ht, hch⟩
  | getvalue =>
    have hr := SStr.getvalue_spec s f.data hc hch
    exact ⟨by simp [SStr.step, Spec.step, hr.1], hr.2.1, by simp only [SStr.step, Spec.step]; rw [hr.2.2.1, ht],
      by simp only [SStr.step]; rw [hr.2.2.2]; exact hch⟩
  | len =>
    have hr := SStr.len_spec s f.data hc hch
    refine ⟨by simp [SStr.step, Spec.step, hr.1], ?_, by simp only [SStr.step, Spec.step]; rw [hr.2.2.1, ht],
      by simp only [SStr.step]; rw [hr.2.2.2]; exact hch⟩
    show Coh s.len.2 f.data
    unfold Coh; rw [hr.2.2.1]; exact hr.2.1
  | next => exact SRel.next s f ⟨hc, ht, hch⟩
  | rollover =>
    have hr := SStr.rollover_spec s f.data hc hch
    exact ⟨rfl, hr.1, by simp only [SStr.step, Spec.step]; rw [hr.2.1, ht], by simp only [SStr.step]; rw [hr.2.2]; exact hch⟩
  | list =>
    have hl := SStr.len_spec s f.data hc hch
    have hrel : SRel s.len.2 f := ⟨by unfold Coh; rw [hl.2.2.1]; exact hl.2.1, by rw [hl.2.2.1, ht],
      by rw [hl.2.2.2]; exact hch⟩
    have hfuel : f.rest.length + 1 ≤ s.st.data.length + 2 := by
      rw [hc.data, File.rest_length]
      have := length_le_blen f.data; simp only [blen] at this; omega
    have hd := SRel.drain (s.st.data.length + 2) s.len.2 f [] hrel hfuel
    exact ⟨by simp only [SStr.step, Spec.step]; rw [hd.1]; rfl, hd.2⟩
  | drain =>
    have hfuel : f.rest.length + 1 ≤ s.st.data.length + 2 := by
      rw [hc.data, File.rest_length]
      have := length_le_blen f.data; simp only [blen] at this; omega
    have hd := SRel.drain (s.st.data.length + 2) s f [] ⟨hc, ht, hch⟩ hfuel
    exact ⟨by simp only [SStr.step, Spec.step]; rw [hd.1]; rfl, hd.2⟩

theorem SStr.run_spec (s : SStr) (f : File Char) (ops : List (Op Char)) (h : SRel s f)
    (hv : validS f ops = true) :
    (s.run ops).1 = (Spec.run codecSem f ops).1 ∧ SRel (s.run ops).2 (Spec.run codecSem f ops).2 := by
  induction ops generalizing s f with
  | nil => exact ⟨rfl, h⟩
  | cons op ops ih =>
    simp only [validS, Bool.and_eq_true] at hv
    have hs := SStr.step_spec s f op h hv.1
    have := ih _ _ hs.2 hv.2
    simp only [SStr.run, Spec.run]
    exact ⟨by rw [hs.1, this.1], this.2⟩

theorem splitL_noExotic (l : List Char) (h : noExotic l = true) : splitL true l = splitL false l := by
  fun_induction splitL true l with
  | case1 => simp [splitL]
  | case2 cs' ih =>
    have : noExotic cs' = true := by
      simp only [noExotic, List.all_cons, Bool.and_eq_true] at h ⊢; exact h.2.2
    rw [splitL_cr_lf, ih this]
  | case3 d cs' hd ih =>
    have : noExotic (d :: cs') = true := by
      simp only [noExotic, List.all_cons, Bool.and_eq_true] at h ⊢; exact h.2
    rw [splitL_cr_other false d cs' hd, ih this]
  | case4 => rw [splitL_cr_end]
  | case5 c cs hc hb ih =>
    have hce : isExotic c = false := by
      simp only [noExotic, List.all_cons, Bool.and_eq_true, Bool.not_eq_true'] at h; exact h.1
    have : noExotic cs = true := by
      simp only [noExotic, List.all_cons, Bool.and_eq_true] at h ⊢; exact h.2
    rw [splitL_brk false c cs hc (by rw [← isBrk_noExotic c hce]; exact hb), ih this]
  | case6 c cs hc hb hs ih =>
    have hce : isExotic c = false := by
      simp only [noExotic, List.all_cons, Bool.and_eq_true, Bool.not_eq_true'] at h; exact h.1
    have : noExotic cs = true := by
      simp only [noExotic, List.all_cons, Bool.and_eq_true] at h ⊢; exact h.2
    rw [splitL_other_nil false c cs hc (by rw [← isBrk_noExotic c hce]; exact hb) (by rw [← ih this]; exact hs)]
  | case7 c cs hc hb l' ls hs ih =>
    have hce : isExotic c = false := by
      simp only [noExotic, List.all_cons, Bool.and_eq_true, Bool.not_eq_true'] at h; exact h.1
    have : noExotic cs = true := by
      simp only [noExotic, List.all_cons, Bool.and_eq_true] at h ⊢; exact h.2
    rw [splitL_other_cons false c cs l' ls hc (by rw [← isBrk_noExotic c hce]; exact hb) (by rw [← ih this]; exact hs)]

/-- on texts without exotic line boundaries the codec's line cutting is io.StringIO's -/
theorem Spec.step_plain (f : File Char) (op : Op Char) (hp : plainOp f op = true) :
    Spec.step codecSem f op = Spec.step textSem f op := by
  cases op with
  | readline =>
    simp only [plainOp] at hp
    have := firstLine_noExotic f.rest (noExotic_drop _ _ hp)
    simp only [Spec.step, codecSem, textSem, this]
  | next =>
    simp only [plainOp] at hp
    have := firstLine_noExotic f.rest (noExotic_drop _ _ hp)
    simp only [Spec.step, Spec.next, codecSem, textSem, this]
    rfl
  | readlineN n =>
    simp only [plainOp] at hp
    have := firstLine_noExotic f.rest (noExotic_drop _ _ hp)
    simp only [Spec.step, codecSem, textSem, this]
  | list =>
    simp only [plainOp] at hp
    have := splitL_noExotic f.rest (noExotic_drop _ _ hp)
    simp only [Spec.step, codecSem, textSem, this]
  | drain =>
    simp only [plainOp] at hp
    have := splitL_noExotic f.rest (noExotic_drop _ _ hp)
    simp only [Spec.step, codecSem, textSem, this]
  | _ => rfl

theorem Spec.run_plain (f : File Char) (ops : List (Op Char)) (hp : plainS f ops = true) :
    Spec.run codecSem f ops = Spec.run textSem f ops := by
  induction ops generalizing f with
  | nil => rfl
  | cons op ops ih =>
    simp only [plainS, Bool.and_eq_true] at hp
    simp only [Spec.run]
    rw [Spec.step_plain f op hp.1, ← ih _ (by rw [← Spec.step_plain f op hp.1]; exact hp.2)]

/-! ### the tighter hypothesis `plainT` -/

theorem Spec.step_plainT (f : File Char) (op : Op Char) (hp : plainOpT f op = true) :
    Spec.step codecSem f op = Spec.step textSem f op := by
  cases op with
  | readline =>
    simp only [plainOpT] at hp
    have := firstLine_noExotic_line f.rest hp
    simp only [Spec.step, codecSem, textSem, this]
  | next =>
    simp only [plainOpT] at hp
    have := firstLine_noExotic_line f.rest hp
    simp only [Spec.step, Spec.next, codecSem, textSem, this]
    rfl
  | readlineN n =>
    simp only [plainOpT] at hp
    have := firstLine_noExotic_line f.rest hp
    simp only [Spec.step, codecSem, textSem, this]
  | list =>
    simp only [plainOpT] at hp
    have := splitL_noExotic f.rest hp
    simp only [Spec.step, codecSem, textSem, this]
  | drain =>
    simp only [plainOpT] at hp
    have := splitL_noExotic f.rest hp
    simp only [Spec.step, codecSem, textSem, this]
  | _ => rfl

theorem Spec.run_plainT (f : File Char) (ops : List (Op Char)) (hp : plainT f ops = true) :
    Spec.run codecSem f ops = Spec.run textSem f ops := by
  induction ops generalizing f with
  | nil => rfl
  | cons op ops ih =>
    simp only [plainT, Bool.and_eq_true] at hp
    simp only [Spec.run]
    rw [Spec.step_plainT f op hp.1, ← ih _ (by rw [← Spec.step_plainT f op hp.1]; exact hp.2)]

/-- the io line is a prefix of the unread rest -/
theorem firstLine_eq_take (u : Bool) (l : List Char) : firstLine u l = l.take (firstLine u l).length := by
  induction l with
  | nil => rfl
  | cons c cs ih =>
    by_cases hcr : c = '\r'
    · subst hcr
      cases cs with
      | nil => simp [firstLine]
      | cons d cs' => by_cases hd : d = '\n' <;> simp [firstLine, hd]
    · by_cases hb : isBrk u c = true
      · simp [firstLine, hcr, hb]
      · have hfl : firstLine u (c :: cs) = c :: firstLine u cs := by simp [firstLine, hcr, hb]
        rw [hfl]; simp only [List.length_cons, List.take_succ_cons]; rw [← ih]

/-- `plainS` (no exotic character anywhere in the text) implies `plainT` -/
theorem plainOp_imp_plainOpT (f : File Char) (op : Op Char) (h : plainOp f op = true) : plainOpT f op = true := by
  have hr : noExotic f.data = true → noExotic f.rest = true := fun h => noExotic_drop _ _ h
  have hl : noExotic f.data = true → noExotic (firstLine false f.rest) = true := by
    intro h; rw [firstLine_eq_take]; exact noExotic_of_sublist_take _ _ (hr h)
  cases op <;> simp only [plainOp, plainOpT] at h ⊢ <;> first | exact hl h | exact hr h | rfl

theorem plainS_imp_plainT (f : File Char) (ops : List (Op Char)) (h : plainS f ops = true) : plainT f ops = true := by
  induction ops generalizing f with
  | nil => rfl
  | cons op ops ih =>
    simp only [plainS, plainT, Bool.and_eq_true] at h ⊢
    exact ⟨plainOp_imp_plainOpT f op h.1, ih _ h.2⟩

end C18
