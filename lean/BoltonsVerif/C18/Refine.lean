import BoltonsVerif.C18.Text
import BoltonsVerif.C18.Bytes
/-
C18 — SpooledStringIO refines io.StringIO(newline=''): domain predicate, simulation relation, step and run lemmas.
-/
namespace C18
/-- the spooled text file `s` stands for the reference file `f` -/
def SRel (s : SStr) (f : File Char) : Prop := Coh s f.data ∧ s.tell = f.pos ∧ 0 < s.chunk

theorem SRel_init (ms ch : Nat) (h : 0 < ch) : SRel (SStr.init ms ch) File.empty := by
  refine ⟨⟨rfl, by simp [SStr.init, InRange, File.empty], Nat.le_refl _, ⟨[], 0, ⟨rfl, rfl, rfl, rfl⟩, rfl⟩, Or.inl rfl⟩,
    rfl, h⟩

theorem SRel.readline (s : SStr) (f : File Char) (h : SRel s f) :
    s.readline.1 = firstLine false f.rest ∧
    SRel s.readline.2 ⟨f.data, f.pos + (firstLine false f.rest).length⟩ := by
  rcases h with ⟨hc, ht, hch⟩
  have hr := SStr.readline_spec s f.data hc
  have hout : s.readline.1 = firstLine false f.rest := by
    rw [hr.1, ht]; rfl
  exact ⟨hout, hr.2.1, by rw [hr.2.2.1, hout, ht], by rw [hr.2.2.2]; exact hch⟩

theorem SRel.next (s : SStr) (f : File Char) (h : SRel s f) :
    s.next.1 = (Spec.next textSem f).1 ∧ SRel s.next.2 (Spec.next textSem f).2 := by
  have hr := SRel.readline s f h
  have hle : f.pos ≤ f.data.length := by rw [← h.2.1]; exact h.1.ale
  unfold SStr.next
  by_cases he : firstLine false f.rest = []
  · rw [Spec.next_nil textSem f he]
    rw [if_pos (by rw [hr.1, he]; rfl)]
    rw [he] at hr
    rcases hr.2 with ⟨hc1, ht1, hch1⟩
    simp only [List.length_nil, Nat.add_zero] at ht1
    have hrest : f.rest = [] := (firstLine_eq_nil false _).1 he
    have hend : f.pos = f.data.length := by
      have := File.rest_length f; rw [hrest] at this; simp at this; omega
    have hcoh : CohAt s.readline.2 f.data f.data.length := by
      have := hc1; unfold Coh at this; rw [ht1, hend] at this; exact this
    rcases CohAt_end _ _ hcoh with ⟨_, hpos, _, _⟩
    rw [if_pos hpos]
    refine ⟨rfl, ?_, by simp only; rw [ht1], hch1⟩
    show Coh _ f.data
    unfold Coh
    simp only
    rw [ht1, hend]
    refine ⟨hcoh.data, by simp [InRange, File.seekEnd], Nat.le_refl _, ⟨[], 0, ⟨?_, rfl, rfl, rfl⟩, ?_⟩, Or.inl rfl⟩
    · simp [File.rest, File.seekEnd]
    · simp [pend, Reader.merge, Reader.reset]
  · rw [Spec.next_cons textSem f he]
    rw [if_neg (by rw [hr.1]; simpa using he)]
    exact ⟨by rw [hr.1]; rfl, hr.2⟩

theorem SRel.drain (fuel : Nat) (s : SStr) (f : File Char) (acc : List (List Char)) (h : SRel s f)
    (hf : f.rest.length + 1 ≤ fuel) :
    (SStr.drain fuel s acc).1 = acc.reverse ++ splitL false f.rest ∧
    SRel (SStr.drain fuel s acc).2 ⟨f.data, f.pos + f.rest.length⟩ := by
  induction fuel generalizing s f acc with
  | zero => omega
  | succ fuel ih =>
    have hn := SRel.next s f h
    have hle : f.pos ≤ f.data.length := by rw [← h.2.1]; exact h.1.ale
    unfold SStr.drain
    by_cases he : firstLine false f.rest = []
    · rw [Spec.next_nil textSem f he] at hn
      have hrest : f.rest = [] := (firstLine_eq_nil false _).1 he
      rcases hs : s.next with ⟨o, s'⟩
      rw [hs] at hn
      simp only at hn
      rcases hn with ⟨h1, h2⟩
      subst h1
      simp only
      rw [hrest]
      exact ⟨by simp [splitL], by simpa using h2⟩
    · rw [Spec.next_cons textSem f he] at hn
      have hne : f.rest ≠ [] := fun h0 => he ((firstLine_eq_nil false _).2 h0)
      rcases hs : s.next with ⟨o, s'⟩
      rw [hs] at hn
      simp only at hn
      rcases hn with ⟨h1, h2⟩
      subst h1
      simp only
      have hlen := firstLine_length_le false f.rest
      have hpos : 0 < (textSem.first f.rest).length := List.length_pos_iff.2 he
      have hrl := File.rest_length f
      have hrest' : (⟨f.data, f.pos + (textSem.first f.rest).length⟩ : File Char).rest
          = f.rest.drop (textSem.first f.rest).length := by
        simp [File.rest, List.drop_drop]
      have := ih s' ⟨f.data, f.pos + (textSem.first f.rest).length⟩ (textSem.first f.rest :: acc) h2
        (by rw [hrest', List.length_drop]; show f.rest.length - (firstLine false f.rest).length + 1 ≤ fuel
            have : 0 < (firstLine false f.rest).length := hpos
            omega)
      rw [hrest'] at this
      refine ⟨?_, ?_⟩
      · rw [this.1, splitL_head false f.rest hne]
        simp only [List.reverse_cons, List.append_assoc, List.singleton_append]
        rfl
      · have h3 := this.2
        simp only [List.length_drop] at h3
        have hh : f.pos + (textSem.first f.rest).length + (f.rest.length - (textSem.first f.rest).length)
            = f.pos + f.rest.length := by
          have : (textSem.first f.rest).length ≤ f.rest.length := hlen
          omega
        rw [hh] at h3
        exact h3

theorem SStr.step_spec (s : SStr) (f : File Char) (op : Op Char) (h : SRel s f) (hok : okS f op = true) :
    (s.step op).1 = (Spec.step textSem f op).1 ∧ SRel (s.step op).2 (Spec.step textSem f op).2 := by
  rcases h with ⟨hc, ht, hch⟩
  have hle : f.pos ≤ f.data.length := by rw [← ht]; exact hc.ale
  cases op with
  | write cs =>
    simp only [okS, decide_eq_true_eq] at hok
    have hw := SStr.write_spec s f.data cs hc (by rw [ht, hok]) hch
    simp only [SStr.step, Spec.step]
    rw [File.write_end f cs hok]
    refine ⟨trivial, hw.1, ?_, by rw [hw.2.2]; exact hch⟩
    rw [hw.2.1, hok]; simp
  | writelines ss =>
    simp only [okS, decide_eq_true_eq] at hok
    have hw := SStr.writelines_spec ss s f.data hc (by rw [ht, hok]) hch
    simp only [SStr.step, Spec.step]
    rw [File.write_end f ss.flatten hok]
    refine ⟨trivial, hw.1, ?_, by rw [hw.2.2]; exact hch⟩
    rw [hw.2.1, hok]; simp
  | read n =>
    have hr := SStr.read_spec s f.data s.tell hc (some n)
    simp only [SStr.step, Spec.step, File.readN, File.rest]
    rw [hr.1, ht]
    refine ⟨rfl, ?_, ?_, by rw [hr.2.2.2]; exact hch⟩
    · unfold Coh; rw [hr.2.2.1]; exact hr.2.1
    · rw [hr.2.2.1, hr.1, ht]; rfl
  | readAll =>
    have hr := SStr.read_spec s f.data s.tell hc none
    simp only [SStr.step, Spec.step, File.readAll, File.rest]
    rw [hr.1, ht]
    refine ⟨rfl, ?_, ?_, by rw [hr.2.2.2]; exact hch⟩
    · unfold Coh; rw [hr.2.2.1]; exact hr.2.1
    · rw [hr.2.2.1, hr.1, ht]; rfl
  | readline =>
    have hr := SRel.readline s f ⟨hc, ht, hch⟩
    exact ⟨by simp only [SStr.step, Spec.step]; rw [hr.1]; rfl, hr.2⟩
  | readlineN n => simp [okS] at hok
  | readlines =>
    have hr := SStr.readlines_spec s f.data hc
    simp only [SStr.step, Spec.step, textSem, File.rest]
    rw [hr.1, ht]
    refine ⟨rfl, hr.2.1, ?_, by rw [hr.2.2.2]; exact hch⟩
    rw [hr.2.2.1, List.length_drop]; simp only; omega
  | seek p =>
    simp only [okS, decide_eq_true_eq] at hok
    have hr := SStr.seek_spec s f.data s.tell p hc hok hch
    refine ⟨rfl, ?_, hr.2.1, by simp only [SStr.step]; rw [hr.2.2]; exact hch⟩
    show Coh (s.seek p) f.data
    unfold Coh; rw [hr.2.1]; exact hr.1
  | seekCur n =>
    simp only [okS, decide_eq_true_eq] at hok
    have hr := SStr.seekCur_spec s f.data n hc (by rw [ht]; exact hok) hch
    refine ⟨by simp [SStr.step, Spec.step, ht], ?_, by simp only [SStr.step, Spec.step]; rw [hr.2.1, ht]; rfl,
      by simp only [SStr.step]; rw [hr.2.2]; exact hch⟩
    show Coh (s.seekCur n) f.data
    unfold Coh; rw [hr.2.1]; exact hr.1
  | seekEnd n =>
    have hr := SStr.seekEnd_spec s f.data n hc hch
    refine ⟨by simp [SStr.step, Spec.step, hr.2.2.2], hr.1, by simp only [SStr.step, Spec.step]; rw [hr.2.1]; rfl,
      by simp only [SStr.step]; rw [hr.2.2.1]; exact hch⟩
  | tell => exact ⟨by simp [SStr.step, Spec.step, ht], hc, ht, hch⟩
  | getvalue =>
    have hr := SStr.getvalue_spec s f.data hc hch
    exact ⟨by simp [SStr.step, Spec.step, hr.1], hr.2.1, by simp only [SStr.step, Spec.step]; rw [hr.2.2.1, ht],
      by simp only [SStr.step]; rw [hr.2.2.2]; exact hch⟩
  | len =>
    have hr := SStr.len_spec s f.data hc hch
    refine ⟨by simp [SStr.step, Spec.step, hr.1], ?_, by simp only [SStr.step, Spec.step]; rw [hr.2.2.1, ht],
      by simp only [SStr.step]; rw [hr.2.2.2]; exact hch⟩
    show Coh s.len.2 f.data
    unfold Coh; rw [hr.2.2.1]; exact hr.2.1
  | next => exact SRel.next s f ⟨hc, ht, hch⟩
  | rollover =>
    have hr := SStr.rollover_spec s f.data hc hch
    exact ⟨rfl, hr.1, by simp only [SStr.step, Spec.step]; rw [hr.2.1, ht], by simp only [SStr.step]; rw [hr.2.2]; exact hch⟩
  | list =>
    have hl := SStr.len_spec s f.data hc hch
    have hrel : SRel s.len.2 f := ⟨by unfold Coh; rw [hl.2.2.1]; exact hl.2.1, by rw [hl.2.2.1, ht],
      by rw [hl.2.2.2]; exact hch⟩
    have hfuel : f.rest.length + 1 ≤ s.st.data.length + 2 := by
      rw [hc.data, File.rest_length]
      have := length_le_blen f.data; simp only [blen] at this; omega
    have hd := SRel.drain (s.st.data.length + 2) s.len.2 f [] hrel hfuel
    exact ⟨by simp only [SStr.step, Spec.step]; rw [hd.1]; rfl, hd.2⟩
  | drain =>
    have hfuel : f.rest.length + 1 ≤ s.st.data.length + 2 := by
      rw [hc.data, File.rest_length]
      have := length_le_blen f.data; simp only [blen] at this; omega
    have hd := SRel.drain (s.st.data.length + 2) s f [] ⟨hc, ht, hch⟩ hfuel
    exact ⟨by simp only [SStr.step, Spec.step]; rw [hd.1]; rfl, hd.2⟩

theorem SStr.run_spec (s : SStr) (f : File Char) (ops : List (Op Char)) (h : SRel s f)
    (hv : validS f ops = true) :
    (s.run ops).1 = (Spec.run textSem f ops).1 ∧ SRel (s.run ops).2 (Spec.run textSem f ops).2 := by
  induction ops generalizing s f with
  | nil => exact ⟨rfl, h⟩
  | cons op ops ih =>
    simp only [validS, Bool.and_eq_true] at hv
    have hs := SStr.step_spec s f op h hv.1
    have := ih _ _ hs.2 hv.2
    simp only [SStr.run, Spec.run]
    exact ⟨by rw [hs.1, this.1], this.2⟩

/-! ### default `io.StringIO()` (lines end at LF only) on texts without a lone CR -/

theorem noLoneCR_tail (c : Char) (cs : List Char) (h : noLoneCR (c :: cs) = true) : noLoneCR cs = true := by
  simp only [noLoneCR, Bool.and_eq_true] at h; exact h.2

theorem firstLine_lf (l : List Char) (h : noLoneCR l = true) : firstLine false l = takeLine isLF l := by
  induction l with
  | nil => rfl
  | cons c cs ih =>
    have ht := noLoneCR_tail c cs h
    by_cases hcr : c = '\r'
    · subst hcr
      cases cs with
      | nil => simp [noLoneCR] at h
      | cons d cs' =>
        have hd : d = '\n' := by
          simp only [noLoneCR, Bool.and_eq_true] at h; simpa using h.1
        subst hd
        simp [firstLine, takeLine, isLF]
    · by_cases hlf : c = '\n'
      · subst hlf; simp [firstLine, takeLine, isLF, isBrk]
      · have h1 : firstLine false (c :: cs) = c :: firstLine false cs := by simp [firstLine, hcr, isBrk, hlf]
        have h2 : takeLine isLF (c :: cs) = c :: takeLine isLF cs := by simp [takeLine, isLF, hlf]
        rw [h1, h2, ih ht]

theorem splitLines_lf_cons (c : Char) (cs : List Char) (hc : c ≠ '\n') (hcs : cs ≠ []) :
    splitLines isLF (c :: cs) = (c :: (splitLines isLF cs).headD []) :: (splitLines isLF cs).tail := by
  cases cs with
  | nil => exact absurd rfl hcs
  | cons d ds =>
    have hne : splitLines isLF (d :: ds) ≠ [] := by
      unfold splitLines; split
      · simp
      · split <;> simp
    cases hs : splitLines isLF (d :: ds) with
    | nil => exact absurd hs hne
    | cons l ls =>
      rw [splitLines, if_neg (by simp [isLF, hc]), hs]; rfl

theorem splitL_lf (l : List Char) (h : noLoneCR l = true) : splitL false l = splitLines isLF l := by
  fun_induction splitL false l with
  | case1 => rfl
  | case2 cs' ih =>
    have h2 : noLoneCR cs' = true := noLoneCR_tail _ _ (noLoneCR_tail _ _ h)
    rw [ih h2]
    simp [splitLines, isLF]
  | case3 d cs' hd ih =>
    have : d = '\n' := by
      simp only [noLoneCR, Bool.and_eq_true] at h; simpa using h.1
    exact absurd this hd
  | case4 => simp [noLoneCR] at h
  | case5 c cs hc hb ih =>
    have hlf : c = '\n' := by simpa [isBrk] using hb
    subst hlf
    rw [ih (noLoneCR_tail _ _ h)]
    simp [splitLines, isLF]
  | case6 c cs hc hb hs ih =>
    have hlf : c ≠ '\n' := by simpa [isBrk] using hb
    have hcs : cs = [] := splitL_eq_nil false cs hs
    subst hcs
    simp [splitLines, isLF, hlf]
  | case7 c cs hc hb l' ls hs ih =>
    have hlf : c ≠ '\n' := by simpa [isBrk] using hb
    have hcs : cs ≠ [] := by intro h0; subst h0; simp [splitL] at hs
    rw [splitLines_lf_cons c cs hlf hcs, ← ih (noLoneCR_tail _ _ h), hs]
    rfl

/-- where the line-cutting operations meet no lone CR, io.StringIO(newline='') and the default io.StringIO() agree -/
theorem Spec.step_lf (f : File Char) (op : Op Char) (hp : lfOp f op = true) :
    Spec.step textSem f op = Spec.step lfSem f op := by
  cases op with
  | readline =>
    simp only [lfOp] at hp
    simp only [Spec.step, textSem, lfSem, firstLine_lf f.rest hp]
  | next =>
    simp only [lfOp] at hp
    simp only [Spec.step, Spec.next, textSem, lfSem, firstLine_lf f.rest hp]
    rfl
  | readlineN n =>
    simp only [lfOp] at hp
    simp only [Spec.step, textSem, lfSem, firstLine_lf f.rest hp]
  | readlines =>
    simp only [lfOp] at hp
    simp only [Spec.step, textSem, lfSem, splitL_lf f.rest hp]
  | list =>
    simp only [lfOp] at hp
    simp only [Spec.step, textSem, lfSem, splitL_lf f.rest hp]
  | drain =>
    simp only [lfOp] at hp
    simp only [Spec.step, textSem, lfSem, splitL_lf f.rest hp]
  | _ => rfl

theorem Spec.run_lf (f : File Char) (ops : List (Op Char)) (hp : lfOnly f ops = true) :
    Spec.run textSem f ops = Spec.run lfSem f ops := by
  induction ops generalizing f with
  | nil => rfl
  | cons op ops ih =>
    simp only [lfOnly, Bool.and_eq_true] at hp
    simp only [Spec.run]
    rw [← Spec.step_lf f op hp.1, ih _ hp.2]

end C18
