import BoltonsVerif.Generated.C18_Consts
/-
C18 — model of `boltons.ioutils`: `SpooledBytesIO`, `SpooledStringIO` (on
`SpooledIOBase`) and `MultiFileReader`.

Environment (modelled, validated by the correspondence, not verified):
  * `io.BytesIO` and `tempfile.TemporaryFile` are both the abstract random-access
    file `File α = { data, pos }` (section 1);
  * UTF-8 is abstracted to a prefix code: the code units of a character `c` are the
    pairs `(c, 0) … (c, width c - 1)` with `width c = c.utf8Size`; the incremental
    decoder returns the maximal prefix of whole characters and keeps the rest
    (`decode`, section 3).  Round 2: the units are tied to REAL bytes (`cuByte`,
    `realBytes`, `isLead`, `leadWidth`, `decodeR`, `splitB`; theorems in Utf8.lean / Props.lean),
    so what is left to trust here is only that CPython's UTF-8 codec is the UTF-8 of Lean core;
  * `codecs.StreamReader.read / readline / seek / reset` and the `StreamRecoder`
    wrappers (CPython 3.12 `Lib/codecs.py`), which `SpooledStringIO` sits on through
    `codecs.EncodedFile`, are transliterated in section 3 (`Reader`).
Everything else is a transliteration of the boltons methods, statement by statement.
Core Lean only.
-/
namespace C18
open C18.Generated (CODECS_READLINE_SIZE CODECS_READSIZE_CAP CODECS_READSIZE_FACTOR)

/-! ## 1. abstract random-access file (`io.BytesIO`, `tempfile.TemporaryFile`) -/

structure File (α : Type) where
  data : List α
  pos  : Nat
deriving Repr, DecidableEq

variable {α : Type}

def File.empty : File α := ⟨[], 0⟩

/-- what is left to read -/
def File.rest (f : File α) : List α := f.data.drop f.pos

/-- `read(n)` for `n ≥ 0` -/
def File.readN (f : File α) (n : Nat) : List α × File α :=
  ((f.rest).take n, ⟨f.data, f.pos + ((f.rest).take n).length⟩)

/-- `read()` / `read(-1)` -/
def File.readAll (f : File α) : List α × File α :=
  (f.rest, ⟨f.data, f.pos + f.rest.length⟩)

/-- `read(size)`, `none` = no size -/
def File.read (f : File α) : Option Nat → List α × File α
  | none => f.readAll
  | some n => f.readN n

/-- `seek(p)` -/
def File.seek (f : File α) (p : Nat) : File α := ⟨f.data, p⟩

/-- `seek(0, os.SEEK_END)` -/
def File.seekEnd (f : File α) : File α := ⟨f.data, f.data.length⟩

/-- `write(s)` at the current position (overwrites, extends, pads a gap with the default element) -/
def File.write [Inhabited α] (f : File α) (s : List α) : File α :=
  ⟨f.data.take f.pos ++ List.replicate (f.pos - f.data.length) default ++ s
      ++ f.data.drop (f.pos + s.length), f.pos + s.length⟩

/-- first line of a byte string: up to and including the first newline -/
def takeLine (nl : α → Bool) : List α → List α
  | [] => []
  | x :: xs => if nl x then [x] else x :: takeLine nl xs

/-- all lines of a byte string (what repeated `readline()` returns) -/
def splitLines (nl : α → Bool) : List α → List (List α)
  | [] => []
  | x :: xs =>
    if nl x then [x] :: splitLines nl xs
    else match splitLines nl xs with
      | [] => [[x]]
      | l :: ls => (x :: l) :: ls

/-- `readline()` (`limit = none`) / `readline(n)` -/
def File.readline (nl : α → Bool) (f : File α) (limit : Option Nat) : List α × File α :=
  match limit with
  | none => (takeLine nl f.rest, ⟨f.data, f.pos + (takeLine nl f.rest).length⟩)
  | some n => ((takeLine nl f.rest).take n, ⟨f.data, f.pos + ((takeLine nl f.rest).take n).length⟩)

/-- `readlines()` -/
def File.readlines (nl : α → Bool) (f : File α) : List (List α) × File α :=
  (splitLines nl f.rest, ⟨f.data, f.pos + f.rest.length⟩)

/-! ## operations and results shared by all file-like models -/

inductive Op (α : Type) where
  | write (s : List α)
  | read (n : Nat)          -- read(n), n ≥ 0
  | readAll                 -- read() / read(-1)
  | readline                -- readline()
  | readlineN (n : Nat)     -- readline(n)   (SpooledBytesIO only)
  | readlines               -- readlines()
  | seek (p : Nat)          -- seek(p)
  | seekCur (n : Nat)       -- seek(n, os.SEEK_CUR), n ≥ 0
  | seekEnd (n : Nat)       -- bytes: seek(-n, os.SEEK_END); SpooledStringIO: seek(n, os.SEEK_END)
  | tell
  | getvalue
  | len                     -- len(f)
  | next                    -- next(f)
  | list                    -- list(f): asks len(f) as a length hint, then iterates to the end
  | drain                   -- [x for x in f]: iterates to the end
  | rollover                -- f.rollover() (also what fileno() does first)
  | writelines (ss : List (List α))  -- f.writelines(iterable): `for line in lines: self.write(line)`
deriving Repr

inductive Out (α : Type) where
  | unit
  | data (x : List α)
  | lines (xs : List (List α))
  | num (n : Nat)
  | stop                    -- StopIteration
deriving Repr, DecidableEq

/-! ## 2. SpooledBytesIO -/

abbrev Byte := UInt8
def isNL (b : Byte) : Bool := b == 10

structure SBytes where
  buf     : File Byte
  rolled  : Bool
  maxSize : Nat
deriving Repr

def SBytes.init (maxSize : Nat) : SBytes := ⟨File.empty, false, maxSize⟩

/-- `rollover`: a new temporary file gets the content, then the position -/
def SBytes.rollover (s : SBytes) : SBytes :=
  if s.rolled then s
  else { s with buf := ((File.empty : File Byte).write s.buf.data).seek s.buf.pos, rolled := true }

def SBytes.write (s : SBytes) (b : List Byte) : SBytes :=
  if s.buf.pos + b.length ≥ s.maxSize then
    { s.rollover with buf := s.rollover.buf.write b }
  else { s with buf := s.buf.write b }

/-- the `len` property: both branches save and restore the position -/
def SBytes.len (s : SBytes) : Nat × SBytes :=
  if s.rolled then
    (((s.buf.seek 0).data.length), { s with buf := (s.buf.seek 0).seek s.buf.pos })
  else
    ((s.buf.seekEnd.pos), { s with buf := s.buf.seekEnd.seek s.buf.pos })

def SBytes.getvalue (s : SBytes) : List Byte × SBytes :=
  (((s.buf.seek 0).readAll).1, { s with buf := (((s.buf.seek 0).readAll).2).seek s.buf.pos })

/-- `readline(length)`: `if length: buffer.readline(length) else: buffer.readline()` -/
def SBytes.readline (s : SBytes) (length : Option Nat) : List Byte × SBytes :=
  match length with
  | some (n + 1) => ((s.buf.readline isNL (some (n + 1))).1, { s with buf := (s.buf.readline isNL (some (n + 1))).2 })
  | _ => ((s.buf.readline isNL none).1, { s with buf := (s.buf.readline isNL none).2 })

/-- `__next__`: a line, or StopIteration when the empty line was read at the end of the buffer -/
def SBytes.next (s : SBytes) : Out Byte × SBytes :=
  if (s.readline none).1.isEmpty then
    if (s.readline none).2.buf.pos = (s.readline none).2.buf.seekEnd.pos then
      (.stop, { (s.readline none).2 with buf := (s.readline none).2.buf.seekEnd })
    else
      (.data [], { (s.readline none).2 with buf := (s.readline none).2.buf.seekEnd.seek (s.readline none).2.buf.pos })
  else (.data (s.readline none).1, (s.readline none).2)

/-- iterate until StopIteration (`fuel` bounds the number of lines) -/
def SBytes.drain : Nat → SBytes → List (List Byte) → List (List Byte) × SBytes
  | 0, s, acc => (acc.reverse, s)
  | fuel + 1, s, acc =>
    match s.next with
    | (.data l, s') => SBytes.drain fuel s' (l :: acc)
    | (_, s') => (acc.reverse, s')

def SBytes.step (s : SBytes) : Op Byte → Out Byte × SBytes
  | .write b => (.unit, s.write b)
  | .read n => (.data (s.buf.readN n).1, { s with buf := (s.buf.readN n).2 })
  | .readAll => (.data s.buf.readAll.1, { s with buf := s.buf.readAll.2 })
  | .readline => (.data (s.readline none).1, (s.readline none).2)
  | .readlineN n => (.data (s.readline (some n)).1, (s.readline (some n)).2)
  | .readlines => (.lines (s.buf.readlines isNL).1, { s with buf := (s.buf.readlines isNL).2 })
  | .seek p => (.num p, { s with buf := s.buf.seek p })
  | .seekCur n => (.num (s.buf.pos + n), { s with buf := s.buf.seek (s.buf.pos + n) })
  | .seekEnd n => (.num (s.buf.data.length - n), { s with buf := s.buf.seek (s.buf.data.length - n) })
  | .tell => (.num s.buf.pos, s)
  | .getvalue => (.data s.getvalue.1, s.getvalue.2)
  | .len => (.num s.len.1, s.len.2)
  | .next => s.next
  | .list => (.lines (SBytes.drain (s.buf.data.length + 2) s.len.2 []).1,
              (SBytes.drain (s.buf.data.length + 2) s.len.2 []).2)
  | .drain => (.lines (SBytes.drain (s.buf.data.length + 2) s []).1,
               (SBytes.drain (s.buf.data.length + 2) s []).2)
  | .rollover => (.unit, s.rollover)
  | .writelines ss => (.unit, ss.foldl SBytes.write s)

def SBytes.run (s : SBytes) : List (Op Byte) → List (Out Byte) × SBytes
  | [] => ([], s)
  | op :: ops => (((s.step op).1 :: ((s.step op).2.run ops).1), ((s.step op).2.run ops).2)

/-! ## 3. UTF-8 as a prefix code, and `codecs.StreamReader` -/

/-- one code unit of the encoded stream: (character, index of the unit inside its encoding) -/
abbrev CU := Char × Nat

def width (c : Char) : Nat := c.utf8Size

def encChar (c : Char) : List CU := (List.range (width c)).map (fun i => (c, i))

/-- `s.encode('utf-8')` -/
def encode (cs : List Char) : List CU := cs.flatMap encChar

/-- incremental decoder: (whole characters, undecoded tail, invalid-start flag) -/
def decodeF : Nat → List CU → List Char × List CU × Bool
  | 0, bs => ([], bs, false)
  | _ + 1, [] => ([], [], false)
  | fuel + 1, (c, i) :: bs =>
    if i ≠ 0 then ([], (c, i) :: bs, true)
    else if (bs.take 3).length + 1 < width c then ([], (c, i) :: bs, false)   -- incomplete (`width c ≤ 4`)
    else ((c :: (decodeF fuel (bs.drop (width c - 1))).1),
          (decodeF fuel (bs.drop (width c - 1))).2.1,
          (decodeF fuel (bs.drop (width c - 1))).2.2)

def decode (bs : List CU) : List Char × List CU × Bool := decodeF bs.length bs

/-- line boundaries of `str.splitlines` other than CR and LF -/
def isExotic (c : Char) : Bool :=
  c.toNat = 0x0b || c.toNat = 0x0c || c.toNat = 0x1c || c.toNat = 0x1d || c.toNat = 0x1e ||
  c.toNat = 0x85 || c.toNat = 0x2028 || c.toNat = 0x2029

/-- a line break other than CR: LF always; the exotic ones when `u` (universal, `str.splitlines`) -/
def isBrk (u : Bool) (c : Char) : Bool := c == '\n' || (u && isExotic c)

/-- `splitlines(keepends=True)`: `u = true` for `str`, `u = false` for `bytes`
    (CR, LF, CRLF only).  CRLF is one boundary. -/
def splitL (u : Bool) : List Char → List (List Char)
  | [] => []
  | c :: cs =>
    if c = '\r' then
      match cs with
      | d :: cs' => if d = '\n' then ['\r', '\n'] :: splitL u cs' else ['\r'] :: splitL u (d :: cs')
      | [] => [['\r']]
    else if isBrk u c then [c] :: splitL u cs
    else match splitL u cs with
      | [] => [[c]]
      | l :: ls => (c :: l) :: ls

/-- the first line: `io.StringIO(newline='').readline()` for `u = false` -/
def firstLine (u : Bool) : List Char → List Char
  | [] => []
  | c :: cs =>
    if c = '\r' then
      match cs with
      | d :: _ => if d = '\n' then ['\r', '\n'] else ['\r']
      | [] => ['\r']
    else if isBrk u c then [c]
    else c :: firstLine u cs

/-- the last character is a `str.splitlines` boundary (`line0withend != line0withoutend`) -/
def endsWithBrk (l : List Char) : Bool :=
  match l.getLast? with
  | some c => c = '\r' || isBrk true c
  | none => false

def endsWithCR (l : List Char) : Bool := l.getLast? = some '\r'

/-- buffers of `codecs.StreamReader` (`linebuf = []` stands for `None`) -/
structure Reader where
  bytebuf : List CU := []
  charbuf : List Char := []
  linebuf : List (List Char) := []
  bad     : Bool := false          -- a UnicodeDecodeError happened
deriving Repr

def Reader.reset : Reader := {}

/-- `chars >= 0 and len(self.charbuffer) >= chars` -/
def enough : Option Nat → List Char → Bool
  | none, _ => false
  | some n, cb => n ≤ cb.length

/-- the `while True` loop of `StreamReader.read(size, chars = size)` -/
def rdLoop (size : Option Nat) : Nat → File CU → Reader → File CU × Reader
  | 0, st, r => (st, r)
  | fuel + 1, st, r =>
    if enough size r.charbuf then (st, r)
    else if (r.bytebuf ++ (st.read size).1).isEmpty then ((st.read size).2, r)
    else if (st.read size).1.isEmpty then
      ((st.read size).2,
       { r with bytebuf := (decode (r.bytebuf ++ (st.read size).1)).2.1,
                charbuf := r.charbuf ++ (decode (r.bytebuf ++ (st.read size).1)).1,
                bad := r.bad || (decode (r.bytebuf ++ (st.read size).1)).2.2 })
    else
      rdLoop size fuel (st.read size).2
       { r with bytebuf := (decode (r.bytebuf ++ (st.read size).1)).2.1,
                charbuf := r.charbuf ++ (decode (r.bytebuf ++ (st.read size).1)).1,
                bad := r.bad || (decode (r.bytebuf ++ (st.read size).1)).2.2 }

/-- merge cached lines back into characters (first statement of `read`) -/
def Reader.merge (r : Reader) : Reader :=
  if r.linebuf.isEmpty then r else { r with charbuf := r.linebuf.flatten, linebuf := [] }

/-- `StreamReader.read(size, size)` (`some n`) and `StreamReader.read()` (`none`) -/
def Reader.read (st : File CU) (r : Reader) (size : Option Nat) : List Char × File CU × Reader :=
  match size with
  | none =>
    ((rdLoop none (st.rest.length + 2) st r.merge).2.charbuf,
     (rdLoop none (st.rest.length + 2) st r.merge).1,
     { (rdLoop none (st.rest.length + 2) st r.merge).2 with charbuf := [] })
  | some n =>
    ((rdLoop (some n) (st.rest.length + 2) st r.merge).2.charbuf.take n,
     (rdLoop (some n) (st.rest.length + 2) st r.merge).1,
     { (rdLoop (some n) (st.rest.length + 2) st r.merge).2 with
         charbuf := (rdLoop (some n) (st.rest.length + 2) st r.merge).2.charbuf.drop n })

/-- `lines[-1] += charbuffer` -/
def appendLast (ls : List (List Char)) (cb : List Char) : List (List Char) :=
  match ls with
  | [] => []
  | [l] => [l ++ cb]
  | l :: ls' => l :: appendLast ls' cb

/-- `read(readsize, firstline=True)` followed by the one extra character after a trailing CR -/
def Reader.readChunk (st : File CU) (r : Reader) (readsize : Nat) : List Char × File CU × Reader :=
  if !(Reader.read st r (some readsize)).1.isEmpty && endsWithCR (Reader.read st r (some readsize)).1 then
    ((Reader.read st r (some readsize)).1 ++
       (Reader.read (Reader.read st r (some readsize)).2.1 (Reader.read st r (some readsize)).2.2 (some 1)).1,
     (Reader.read (Reader.read st r (some readsize)).2.1 (Reader.read st r (some readsize)).2.2 (some 1)).2)
  else Reader.read st r (some readsize)

/-- the `while True` loop of `StreamReader.readline()` (size = None, keepends = True); the first read size (72), the cap
    of its doubling (8000) and the factor (2) are re-read from the interpreter's Lib/codecs.py on every run
    (`C18.Generated.CODECS_*`) -/
def rlLoop : Nat → Nat → List Char → File CU → Reader → List Char × File CU × Reader
  | 0, _, line, st, r => (line, st, r)
  | fuel + 1, readsize, line, st, r =>
    match splitL true (line ++ (Reader.readChunk st r readsize).1) with
    | l0 :: l1 :: ls =>
      if ls.isEmpty then
        (l0, (Reader.readChunk st r readsize).2.1,
         { (Reader.readChunk st r readsize).2.2 with
             charbuf := l1 ++ (Reader.readChunk st r readsize).2.2.charbuf })
      else
        (l0, (Reader.readChunk st r readsize).2.1,
         { (Reader.readChunk st r readsize).2.2 with
             linebuf := appendLast (l1 :: ls) (Reader.readChunk st r readsize).2.2.charbuf,
             charbuf := [] })
    | [l0] =>
      if endsWithBrk l0 then (l0, (Reader.readChunk st r readsize).2)
      else if (Reader.readChunk st r readsize).1.isEmpty then
        (line ++ (Reader.readChunk st r readsize).1, (Reader.readChunk st r readsize).2)
      else rlLoop fuel (if readsize < CODECS_READSIZE_CAP then readsize * CODECS_READSIZE_FACTOR else readsize)
             (line ++ (Reader.readChunk st r readsize).1)
             (Reader.readChunk st r readsize).2.1 (Reader.readChunk st r readsize).2.2
    | [] =>
      if (Reader.readChunk st r readsize).1.isEmpty then
        (line ++ (Reader.readChunk st r readsize).1, (Reader.readChunk st r readsize).2)
      else rlLoop fuel (if readsize < CODECS_READSIZE_CAP then readsize * CODECS_READSIZE_FACTOR else readsize)
             (line ++ (Reader.readChunk st r readsize).1)
             (Reader.readChunk st r readsize).2.1 (Reader.readChunk st r readsize).2.2

/-- `StreamReader.readline()` -/
def Reader.readline (st : File CU) (r : Reader) : List Char × File CU × Reader :=
  match r.linebuf with
  | l :: rest =>
    (l, st, match rest with
            | [only] => { r with charbuf := only, linebuf := [] }
            | _ => { r with linebuf := rest })
  | [] => rlLoop (r.charbuf.length + st.rest.length + 2) CODECS_READLINE_SIZE [] st r

/-! ### the abstract code units as REAL UTF-8 bytes

`CU = (character, index)` is what the model's decoder works on.  `cuByte` is the byte that unit stands for in the
real stream (`String.utf8EncodeChar` of Lean core, proved there to be the inverse of its UTF-8 decoder).  The
two tests the abstract decoder makes — "is this unit the start of a character" (`i = 0`) and "how many units
does the character started here have" (`width c`) — are functions of that byte alone (`isLead`, `leadWidth`;
`C18.cuByte_isLead`, `C18.leadWidth_cuByte` in Utf8.lean), and CR / LF bytes are the encodings of CR / LF only
(`C18.cuByte_eq_lf`, `C18.cuByte_eq_cr`), so that `bytes.splitlines` on the stored bytes (`splitB`) cuts where
`splitL false` cuts the text (`C18.splitB_realBytes`). -/

/-- the real byte an abstract code unit stands for -/
def cuByte (u : CU) : UInt8 := (String.utf8EncodeChar u.1).getD u.2 0

def realBytes (us : List CU) : List UInt8 := us.map cuByte

/-- a byte that can start the encoding of a character (`0xxxxxxx`, `110xxxxx`, `1110xxxx`, `11110xxx`), i.e. not
    a continuation byte `10xxxxxx` -/
def isLead (b : UInt8) : Bool := decide b.IsUTF8FirstByte

/-- number of bytes of the character a lead byte starts -/
def leadWidth (b : UInt8) : Nat := if b < 0x80 then 1 else if b < 0xE0 then 2 else if b < 0xF0 then 3 else 4

/-- the incremental UTF-8 decoder on REAL bytes: same loop as `decodeF`, but every decision is taken from the
    bytes (lead / continuation byte, length class of the lead byte) and one character is decoded by Lean core's
    verified `ByteArray.utf8DecodeChar?`.  `C18.decodeR_take`: on the real bytes of the model's stream it returns what
    `decode` returns on the abstract units. -/
def decodeRF : Nat → List UInt8 → List Char × List UInt8 × Bool
  | 0, bs => ([], bs, false)
  | _ + 1, [] => ([], [], false)
  | fuel + 1, b :: bs =>
    if !isLead b then ([], b :: bs, true)
    else if (bs.take 3).length + 1 < leadWidth b then ([], b :: bs, false)   -- incomplete (`leadWidth b ≤ 4`)
    else match ((b :: bs).take 4).toByteArray.utf8DecodeChar? 0 with
      | some c => (c :: (decodeRF fuel (bs.drop (leadWidth b - 1))).1,
                   (decodeRF fuel (bs.drop (leadWidth b - 1))).2.1,
                   (decodeRF fuel (bs.drop (leadWidth b - 1))).2.2)
      | none => ([], b :: bs, true)

def decodeR (bs : List UInt8) : List Char × List UInt8 × Bool := decodeRF bs.length bs

/-- `bytes.splitlines(keepends=True)`: boundaries are LF, CR and CRLF -/
def splitB : List UInt8 → List (List UInt8)
  | [] => []
  | b :: bs =>
    if b = 13 then
      match bs with
      | d :: bs' => if d = 10 then [13, 10] :: splitB bs' else [13] :: splitB (d :: bs')
      | [] => [[13]]
    else if b = 10 then [10] :: splitB bs
    else match splitB bs with
      | [] => [[b]]
      | l :: ls => (b :: l) :: ls

/-! ## 4. SpooledStringIO -/

structure SStr where
  st      : File CU       -- the BytesIO / TemporaryFile under the EncodedFile
  rd      : Reader        -- the EncodedFile's StreamReader
  tell    : Nat           -- `_tell`
  rolled  : Bool
  maxSize : Nat
  chunk   : Nat           -- READ_CHUNK_SIZE
deriving Repr

def SStr.init (maxSize chunk : Nat) : SStr := ⟨File.empty, {}, 0, false, maxSize, chunk⟩

/-- `self.buffer.seek(p)`: raw seek of the stream, codec buffers reset -/
def SStr.bseek (s : SStr) (p : Nat) : SStr := { s with st := s.st.seek p, rd := Reader.reset }

/-- `read(n)`: `ret = self.buffer.reader.read(n, n); self._tell = self.tell() + len(ret)` -/
def SStr.read (s : SStr) (n : Option Nat) : List Char × SStr :=
  ((s.rd.read s.st n).1,
   { s with st := (s.rd.read s.st n).2.1, rd := (s.rd.read s.st n).2.2,
            tell := s.tell + (s.rd.read s.st n).1.length })

/-- `_traverse_codepoints(cur, dest - cur)` -/
def SStr.traverse : Nat → SStr → Nat → Nat → SStr
  | 0, s, _, _ => s
  | fuel + 1, s, cur, dest =>
    if cur = dest then s
    else if cur + s.chunk > dest then (s.read (some (dest - cur))).2
    else if (s.read (some s.chunk)).1.isEmpty then (s.read (some s.chunk)).2
    else SStr.traverse fuel (s.read (some s.chunk)).2 (cur + s.chunk) dest

/-- `seek(p)` (os.SEEK_SET) -/
def SStr.seek (s : SStr) (p : Nat) : SStr :=
  { SStr.traverse (p + 1) (s.bseek 0) 0 p with tell := p }

/-- `rollover` (after the fix): a new EncodedFile (fresh codec reader) over a temporary file gets the
    content; the position is re-established by a code-point seek to `_tell` -/
def SStr.rollover (s : SStr) : SStr :=
  if s.rolled then s
  else SStr.seek { s with st := (File.empty : File CU).write s.st.data, rd := Reader.reset, rolled := true } s.tell

def SStr.write (s : SStr) (cs : List Char) : SStr :=
  if s.st.pos + (encode cs).length ≥ s.maxSize then
    { s.rollover with st := s.rollover.st.write (encode cs), tell := s.tell + cs.length }
  else { s with st := s.st.write (encode cs), tell := s.tell + cs.length }

/-- `seek(n, os.SEEK_CUR)` -/
def SStr.seekCur (s : SStr) (n : Nat) : SStr :=
  { SStr.traverse (n + 1) s s.tell (s.tell + n) with tell := s.tell + n }

/-- the reading loop of the `len` property -/
def SStr.lenLoop : Nat → SStr → Nat → Nat × SStr
  | 0, s, total => (total, s)
  | fuel + 1, s, total =>
    if (s.read (some s.chunk)).1.isEmpty then (total, (s.read (some s.chunk)).2)
    else SStr.lenLoop fuel (s.read (some s.chunk)).2 (total + (s.read (some s.chunk)).1.length)

/-- the `len` property (after the fix: the code-point position is saved and restored by `seek`) -/
def SStr.len (s : SStr) : Nat × SStr :=
  ((SStr.lenLoop (s.st.data.length + 2) (s.bseek 0) 0).1,
   (SStr.lenLoop (s.st.data.length + 2) (s.bseek 0) 0).2.seek s.tell)

/-- `seek(n, os.SEEK_END)`: `n` code points back from the end -/
def SStr.seekEnd (s : SStr) (n : Nat) : SStr :=
  { SStr.traverse (s.len.1 - n + 1) (s.len.2.bseek 0) 0 (s.len.1 - n) with tell := s.len.1 - n }

/-- the line ends in CR or LF (`ret[-1] in '\r\n'`) -/
def endsCRLF (l : List Char) : Bool :=
  match l.getLast? with
  | some c => c = '\r' || c = '\n'
  | none => false

/-- one `self.buffer.readline().decode('utf-8')`: a line of the codec reader, which ends at EVERY
    `str.splitlines` boundary (also VT, FF, FS, GS, RS, NEL, LS, PS); `_tell` is not touched -/
def SStr.codecLine (s : SStr) : List Char × SStr :=
  ((s.rd.readline s.st).1, { s with st := (s.rd.readline s.st).2.1, rd := (s.rd.readline s.st).2.2 })

/-- the loop of `readline()` (after the fix):
    `while ret and ret[-1] not in '\r\n': more = buffer.readline().decode(); if not more: break; ret += more` -/
def SStr.rlJoin : Nat → List Char → SStr → List Char × SStr
  | 0, ret, s => (ret, s)
  | fuel + 1, ret, s =>
    if ret.isEmpty || endsCRLF ret then (ret, s)
    else if s.codecLine.1.isEmpty then (ret, s.codecLine.2)
    else SStr.rlJoin fuel (ret ++ s.codecLine.1) s.codecLine.2

/-- `readline()` (after the fix): codec lines are joined until one ends in CR / LF (or nothing is left), then
    `self._tell = self.tell() + len(ret)`.  Every round of the loop consumes a character: `fuel` suffices. -/
def SStr.readline (s : SStr) : List Char × SStr :=
  ((SStr.rlJoin (s.st.data.length + 2) s.codecLine.1 s.codecLine.2).1,
   { (SStr.rlJoin (s.st.data.length + 2) s.codecLine.1 s.codecLine.2).2 with
       tell := s.tell + (SStr.rlJoin (s.st.data.length + 2) s.codecLine.1 s.codecLine.2).1.length })

/-- `readlines()`: `StreamRecoder.readlines` = everything, re-encoded, `bytes.splitlines` -/
def SStr.readlines (s : SStr) : List (List Char) × SStr :=
  (splitL false (s.rd.read s.st none).1,
   { s with st := (s.rd.read s.st none).2.1, rd := (s.rd.read s.st none).2.2,
            tell := s.tell + ((splitL false (s.rd.read s.st none).1).map List.length).sum })

def SStr.getvalue (s : SStr) : List Char × SStr :=
  ((((s.seek 0).read none).1), ((s.seek 0).read none).2.seek s.tell)

/-- `__next__` of SpooledIOBase -/
def SStr.next (s : SStr) : Out Char × SStr :=
  if s.readline.1.isEmpty then
    if s.readline.2.st.pos = s.readline.2.st.data.length then
      (.stop, { s.readline.2 with st := s.readline.2.st.seekEnd, rd := Reader.reset })
    else (.data [], (s.readline.2).bseek s.readline.2.st.pos)
  else (.data s.readline.1, s.readline.2)

def SStr.drain : Nat → SStr → List (List Char) → List (List Char) × SStr
  | 0, s, acc => (acc.reverse, s)
  | fuel + 1, s, acc =>
    match s.next with
    | (.data l, s') => SStr.drain fuel s' (l :: acc)
    | (_, s') => (acc.reverse, s')

def SStr.step (s : SStr) : Op Char → Out Char × SStr
  | .write cs => (.unit, s.write cs)
  | .read n => (.data (s.read (some n)).1, (s.read (some n)).2)
  | .readAll => (.data (s.read none).1, (s.read none).2)
  | .readline => (.data s.readline.1, s.readline.2)
  | .readlineN _ => (.data s.readline.1, s.readline.2)     -- not used for SpooledStringIO
  | .readlines => (.lines s.readlines.1, s.readlines.2)
  | .seek p => (.num p, s.seek p)
  | .seekCur n => (.num (s.tell + n), s.seekCur n)
  | .seekEnd n => (.num (s.len.1 - n), s.seekEnd n)
  | .tell => (.num s.tell, s)
  | .getvalue => (.data s.getvalue.1, s.getvalue.2)
  | .len => (.num s.len.1, s.len.2)
  | .next => s.next
  | .list => (.lines (SStr.drain (s.st.data.length + 2) s.len.2 []).1,
              (SStr.drain (s.st.data.length + 2) s.len.2 []).2)
  | .drain => (.lines (SStr.drain (s.st.data.length + 2) s []).1,
               (SStr.drain (s.st.data.length + 2) s []).2)
  | .rollover => (.unit, s.rollover)
  | .writelines ss => (.unit, ss.foldl SStr.write s)

def SStr.run (s : SStr) : List (Op Char) → List (Out Char) × SStr
  | [] => ([], s)
  | op :: ops => (((s.step op).1 :: ((s.step op).2.run ops).1), ((s.step op).2.run ops).2)

/-! ## 5. the reference: `io.BytesIO` / `io.StringIO(newline='')` as a plain file -/

/-- how lines are cut: `first` = what `readline()` / `next()` return from the unread rest,
    `all` = what `readlines()` returns, `iter` = what iterating to the end yields -/
structure LineSem (α : Type) where
  first : List α → List α
  all   : List α → List (List α)
  iter  : List α → List (List α)

/-- io.BytesIO: lines end at LF -/
def bytesSem : LineSem Byte := ⟨takeLine isNL, splitLines isNL, splitLines isNL⟩
/-- io.StringIO(newline=''): lines end at LF, CR, CRLF -/
def textSem : LineSem Char := ⟨firstLine false, splitL false, splitL false⟩
/-- what the codec reader ALONE would give (and SpooledStringIO gave before the fix): `readline` / iteration cut at
    every `str.splitlines` boundary (`codecs.StreamReader.readline`), `readlines` only at LF, CR, CRLF.  Kept to state
    that the joining loop of `SStr.readline` is needed (`C18.codec_line_alone_is_not_enough`). -/
def codecSem : LineSem Char := ⟨firstLine true, splitL false, splitL true⟩

def Spec.next (sem : LineSem α) (f : File α) : Out α × File α :=
  if (sem.first f.rest).isEmpty then (.stop, f)
  else (.data (sem.first f.rest), ⟨f.data, f.pos + (sem.first f.rest).length⟩)

def Spec.step [Inhabited α] (sem : LineSem α) (f : File α) : Op α → Out α × File α
  | .write s => (.unit, f.write s)
  | .read n => (.data (f.readN n).1, (f.readN n).2)
  | .readAll => (.data f.readAll.1, f.readAll.2)
  | .readline => (.data (sem.first f.rest), ⟨f.data, f.pos + (sem.first f.rest).length⟩)
  | .readlineN n => (.data ((sem.first f.rest).take n), ⟨f.data, f.pos + ((sem.first f.rest).take n).length⟩)
  | .readlines => (.lines (sem.all f.rest), ⟨f.data, f.pos + f.rest.length⟩)
  | .seek p => (.num p, f.seek p)
  | .seekCur n => (.num (f.pos + n), f.seek (f.pos + n))
  | .seekEnd n => (.num (f.data.length - n), f.seek (f.data.length - n))
  | .tell => (.num f.pos, f)
  | .getvalue => (.data f.data, f)
  | .len => (.num f.data.length, f)
  | .next => Spec.next sem f
  | .list => (.lines (sem.iter f.rest), ⟨f.data, f.pos + f.rest.length⟩)
  | .drain => (.lines (sem.iter f.rest), ⟨f.data, f.pos + f.rest.length⟩)
  | .rollover => (.unit, f)
  | .writelines ss => (.unit, f.write ss.flatten)      -- io: ONE write of the concatenation

def Spec.run [Inhabited α] (sem : LineSem α) (f : File α) : List (Op α) → List (Out α) × File α
  | [] => ([], f)
  | op :: ops => (((Spec.step sem f op).1 :: (Spec.run sem (Spec.step sem f op).2 ops).1),
                  (Spec.run sem (Spec.step sem f op).2 ops).2)

/-! ### the domain of the statement (decidable, evaluated along the run of the reference file) -/

/-- `tell`, `getvalue`, `len` -/
def isQuery : Op α → Bool
  | .tell => true
  | .getvalue => true
  | .len => true
  | _ => false

/-- SpooledBytesIO: seek targets inside the data; `readline(0)` excluded (boltons treats 0 as "no limit") -/
def okB (f : File Byte) : Op Byte → Bool
  | .seek p => p ≤ f.data.length
  | .seekCur n => f.pos + n ≤ f.data.length
  | .seekEnd n => n ≤ f.data.length
  | .readlineN n => n ≠ 0
  | _ => true

def validB (f : File Byte) : List (Op Byte) → Bool
  | [] => true
  | op :: ops => okB f op && validB (Spec.step bytesSem f op).2 ops

/-- SpooledStringIO: appending writes, seek targets inside the data, no `readline(n)` -/
def okS (f : File Char) : Op Char → Bool
  | .write _ => f.pos = f.data.length
  | .writelines _ => f.pos = f.data.length
  | .seek p => p ≤ f.data.length
  | .seekCur n => f.pos + n ≤ f.data.length
  | .seekEnd n => n ≤ f.data.length
  | .readlineN _ => false
  | _ => true

def validS (f : File Char) : List (Op Char) → Bool
  | [] => true
  | op :: ops => okS f op && validS (Spec.step textSem f op).2 ops

/-! ### the other reading of "io.StringIO": the DEFAULT constructor (`newline='\n'`), lines end at LF only -/

def isLF (c : Char) : Bool := c == '\n'

/-- `io.StringIO()` (default `newline='\n'`): no translation, a line ends at LF only -/
def lfSem : LineSem Char := ⟨takeLine isLF, splitLines isLF, splitLines isLF⟩

/-- every CR is immediately followed by LF (the text uses LF and CRLF line ends only) -/
def noLoneCR : List Char → Bool
  | [] => true
  | c :: cs =>
    (if c = '\r' then (match cs with
                       | d :: _ => decide (d = '\n')
                       | [] => false) else true) && noLoneCR cs

/-- line-cutting operations (readline, next, iteration, readlines) meet no lone CR in what is left to read -/
def lfOp (f : File Char) : Op Char → Bool
  | .readline => noLoneCR f.rest
  | .readlineN _ => noLoneCR f.rest
  | .readlines => noLoneCR f.rest
  | .next => noLoneCR f.rest
  | .list => noLoneCR f.rest
  | .drain => noLoneCR f.rest
  | _ => true

def lfOnly (f : File Char) : List (Op Char) → Bool
  | [] => true
  | op :: ops => lfOp f op && lfOnly (Spec.step textSem f op).2 ops

/-! ## 6. MultiFileReader -/

structure MFR (α : Type) where
  files : List (File α)
  index : Nat
deriving Repr

def MFR.init (contents : List (List α)) : MFR α := ⟨contents.map (fun d => ⟨d, 0⟩), 0⟩

/-- `f.read()` on every member, joined -/
def MFR.readAll (m : MFR α) : List α × MFR α :=
  ((m.files.map (fun f => f.readAll.1)).flatten, ⟨m.files.map (fun f => f.readAll.2), m.index⟩)

/-- replace the file at position `i` -/
def setAt (fs : List (File α)) (i : Nat) (f : File α) : List (File α) := fs.set i f

/-- the `while amt > 0 and self._index < len(self._fileobjs)` loop; `parts` in reverse order -/
def MFR.readLoop : Nat → MFR α → Nat → List (List α) → List (List α) × MFR α
  | 0, m, _, parts => (parts, m)
  | fuel + 1, m, amt, parts =>
    if amt > 0 then
      match m.files[m.index]? with
      | some f =>
        if (f.readN amt).1.length < amt then
          MFR.readLoop fuel ⟨setAt m.files m.index (f.readN amt).2, m.index + 1⟩
            (amt - (f.readN amt).1.length) ((f.readN amt).1 :: parts)
        else
          MFR.readLoop fuel ⟨setAt m.files m.index (f.readN amt).2, m.index⟩
            (amt - (f.readN amt).1.length) ((f.readN amt).1 :: parts)
      | none => (parts, m)
    else (parts, m)

/-- `read(amt)`: `amt = none` for `read()`; `read(0)` is unsized too (`if not amt`) -/
def MFR.read (m : MFR α) : Option Nat → List α × MFR α
  | none => m.readAll
  | some 0 => m.readAll
  | some (n + 1) =>
    (((MFR.readLoop (m.files.length - m.index + 2) m (n + 1) []).1.reverse).flatten,
     (MFR.readLoop (m.files.length - m.index + 2) m (n + 1) []).2)

/-- `seek(0)` (after the fix: the index is reset too) -/
def MFR.seek0 (m : MFR α) : MFR α := ⟨m.files.map (fun f => f.seek 0), 0⟩

inductive MOp where
  | read (n : Nat)     -- read(n)
  | readAll            -- read()
  | seek0              -- seek(0)
deriving Repr

def MFR.step (m : MFR α) : MOp → Option (List α) × MFR α
  | .read n => (some (m.read (some n)).1, (m.read (some n)).2)
  | .readAll => ((m.read none).1, (m.read none).2)
  | .seek0 => (none, m.seek0)

def MOp.isRead : MOp → Bool
  | .seek0 => false
  | _ => true

def MFR.run (m : MFR α) : List MOp → List (Option (List α)) × MFR α
  | [] => ([], m)
  | op :: ops => (((m.step op).1 :: ((m.step op).2.run ops).1), ((m.step op).2.run ops).2)

/-- the reference for MultiFileReader: ONE file holding the concatenation of the members -/
def MFR.specStep (f : File α) : MOp → Option (List α) × File α
  | .read 0 => (some f.readAll.1, f.readAll.2)
  | .read (n + 1) => (some (f.readN (n + 1)).1, (f.readN (n + 1)).2)
  | .readAll => (some f.readAll.1, f.readAll.2)
  | .seek0 => (none, f.seek 0)

def MFR.specRun (f : File α) : List MOp → List (Option (List α)) × File α
  | [] => ([], f)
  | op :: ops => (((MFR.specStep f op).1 :: (MFR.specRun (MFR.specStep f op).2 ops).1),
                  (MFR.specRun (MFR.specStep f op).2 ops).2)

end C18
