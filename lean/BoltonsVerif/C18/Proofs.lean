import BoltonsVerif.C18.Refine
import BoltonsVerif.C18.Utf8
import BoltonsVerif.Generated.C18_Consts
/-
C18 — helper lemmas used directly by Props.lean (queries, position bookkeeping, MultiFileReader reads).
The bulk is in Files / Codec / Lines / Reader / ReadLine / Text / Bytes / Refine.
-/
namespace C18
variable {α : Type}

/-! ### queries -/
theorem Spec.query_state [Inhabited α] (sem : LineSem α) (f : File α) (q : Op α) (hq : isQuery q = true) :
    (Spec.step sem f q).2 = f := by
  cases q <;> simp [isQuery] at hq <;> rfl

theorem Spec.run_append [Inhabited α] (sem : LineSem α) (f : File α) (a b : List (Op α)) :
    Spec.run sem f (a ++ b) =
      ((Spec.run sem f a).1 ++ (Spec.run sem (Spec.run sem f a).2 b).1, (Spec.run sem (Spec.run sem f a).2 b).2) := by
  induction a generalizing f with
  | nil => simp [Spec.run]
  | cons op a ih => simp [Spec.run, ih]

theorem eraseIdx_middle (a b : List α) (x : α) : (a ++ x :: b).eraseIdx a.length = a ++ b := by
  induction a with
  | nil => simp
  | cons y a ih => simp [ih]

theorem Spec.run_length [Inhabited α] (sem : LineSem α) (f : File α) (a : List (Op α)) :
    (Spec.run sem f a).1.length = a.length := by
  induction a generalizing f with
  | nil => simp [Spec.run]
  | cons op a ih => simp [Spec.run, ih]

/-- on the reference file, dropping a query from a history changes nothing else -/
theorem Spec.query_invisible [Inhabited α] (sem : LineSem α) (f : File α) (a b : List (Op α)) (q : Op α)
    (hq : isQuery q = true) :
    (Spec.run sem f (a ++ q :: b)).1.eraseIdx a.length = (Spec.run sem f (a ++ b)).1 ∧
    (Spec.run sem f (a ++ q :: b)).2 = (Spec.run sem f (a ++ b)).2 := by
  rw [Spec.run_append, Spec.run_append]
  simp only [Spec.run]
  rw [Spec.query_state sem _ q hq]
  have := eraseIdx_middle (Spec.run sem f a).1 (Spec.run sem (Spec.run sem f a).2 b).1
    (Spec.step sem (Spec.run sem f a).2 q).1
  rw [Spec.run_length] at this
  exact ⟨this, rfl⟩

theorem validS_append (f : File Char) (a b : List (Op Char)) :
    validS f (a ++ b) = (validS f a && validS (Spec.run textSem f a).2 b) := by
  induction a generalizing f with
  | nil => simp [validS, Spec.run]
  | cons op a ih => simp [validS, Spec.run, ih, Bool.and_assoc]

theorem validB_append (f : File Byte) (a b : List (Op Byte)) :
    validB f (a ++ b) = (validB f a && validB (Spec.run bytesSem f a).2 b) := by
  induction a generalizing f with
  | nil => simp [validB, Spec.run]
  | cons op a ih => simp [validB, Spec.run, ih, Bool.and_assoc]

theorem okS_query (f : File Char) (q : Op Char) (hq : isQuery q = true) : okS f q = true := by
  cases q <;> simp [isQuery] at hq <;> rfl
theorem okB_query (f : File Byte) (q : Op Byte) (hq : isQuery q = true) : okB f q = true := by
  cases q <;> simp [isQuery] at hq <;> rfl

theorem validS_insert_query (f : File Char) (a b : List (Op Char)) (q : Op Char) (hq : isQuery q = true)
    (hv : validS f (a ++ b) = true) : validS f (a ++ q :: b) = true := by
  rw [validS_append] at hv ⊢
  simp only [Bool.and_eq_true] at hv ⊢
  refine ⟨hv.1, ?_⟩
  simp only [validS, Bool.and_eq_true]
  exact ⟨okS_query _ q hq, by rw [Spec.query_state _ _ q hq]; exact hv.2⟩

theorem validB_insert_query (f : File Byte) (a b : List (Op Byte)) (q : Op Byte) (hq : isQuery q = true)
    (hv : validB f (a ++ b) = true) : validB f (a ++ q :: b) = true := by
  rw [validB_append] at hv ⊢
  simp only [Bool.and_eq_true] at hv ⊢
  refine ⟨hv.1, ?_⟩
  simp only [validB, Bool.and_eq_true]
  exact ⟨okB_query _ q hq, by rw [Spec.query_state _ _ q hq]; exact hv.2⟩

/-! ### writelines -/

/-- on the reference file `writelines(ss)` IS `write(join(ss))` -/
theorem Spec.run_writelines [Inhabited α] (sem : LineSem α) (f : File α) (a b : List (Op α)) (ss : List (List α)) :
    Spec.run sem f (a ++ .writelines ss :: b) = Spec.run sem f (a ++ .write ss.flatten :: b) := by
  rw [Spec.run_append, Spec.run_append]; rfl

theorem validB_writelines (f : File Byte) (a b : List (Op Byte)) (ss : List (List Byte)) :
    validB f (a ++ .writelines ss :: b) = validB f (a ++ .write ss.flatten :: b) := by
  rw [validB_append, validB_append]; rfl

theorem validS_writelines (f : File Char) (a b : List (Op Char)) (ss : List (List Char)) :
    validS f (a ++ .writelines ss :: b) = validS f (a ++ .write ss.flatten :: b) := by
  rw [validS_append, validS_append]; rfl

theorem SBytes.run_append (s : SBytes) (a b : List (Op Byte)) :
    (s.run (a ++ b)).2 = ((s.run a).2.run b).2 := by
  induction a generalizing s with
  | nil => rfl
  | cons op a ih => simp only [List.cons_append, SBytes.run]; exact ih _

theorem SStr.run_append (s : SStr) (a b : List (Op Char)) :
    (s.run (a ++ b)).2 = ((s.run a).2.run b).2 := by
  induction a generalizing s with
  | nil => rfl
  | cons op a ih => simp only [List.cons_append, SStr.run]; exact ih _

/-- the state after `writelines(ss)` is the state after the writes one by one -/
theorem SBytes.writelines_as_writes (s : SBytes) (ss : List (List Byte)) :
    (s.step (.writelines ss)).2 = (s.run (ss.map .write)).2 := by
  show ss.foldl SBytes.write s = _
  induction ss generalizing s with
  | nil => rfl
  | cons b ss ih => simp only [List.foldl_cons, List.map_cons, SBytes.run]; exact ih _

theorem SStr.writelines_as_writes (s : SStr) (ss : List (List Char)) :
    (s.step (.writelines ss)).2 = (s.run (ss.map .write)).2 := by
  show ss.foldl SStr.write s = _
  induction ss generalizing s with
  | nil => rfl
  | cons b ss ih => simp only [List.foldl_cons, List.map_cons, SStr.run]; exact ih _

/-! ### position bookkeeping of SpooledStringIO -/

theorem Coh_stream_pos (s : SStr) (text : List Char) (h : Coh s text) :
    s.st.pos = blen (text.take s.tell) + blen (pend s.rd) + s.rd.bytebuf.length := by
  rcases h with ⟨hd, hi, ha, ⟨X, p, hrc, hx⟩, hl⟩
  have h1 := File.rest_length s.st
  rw [hrc.rest, hd] at h1
  have h2 : blen text = blen (text.take s.tell) + blen (pend s.rd) + blen X := by
    conv => lhs; rw [← List.take_append_drop s.tell text, hx]
    rw [blen_append, blen_append]; omega
  have h3 := PartOK_le p X hrc.part
  have h4 : s.rd.bytebuf.length = p := by
    rw [hrc.bb, List.length_take]; simp only [blen] at h3; omega
  unfold InRange at hi
  rw [hd] at hi
  simp only [List.length_drop] at h1
  simp only [blen] at *
  omega

/-! ### MultiFileReader: reads deliver the content once, in order -/

theorem MFR.specRun_reads (f : File α) (ops : List MOp) (hr : ∀ op ∈ ops, op.isRead = true) :
    ((MFR.specRun f ops).1.filterMap id).flatten ++ (MFR.specRun f ops).2.rest = f.rest := by
  induction ops generalizing f with
  | nil => simp [MFR.specRun]
  | cons op ops ih =>
    have hrest := ih (MFR.specStep f op).2 (fun o ho => hr o (by simp [ho]))
    simp only [MFR.specRun]
    cases op with
    | seek0 => have := hr .seek0 (by simp); simp [MOp.isRead] at this
    | readAll =>
      simp only [MFR.specStep, List.filterMap_cons, id, List.flatten_cons, List.append_assoc] at hrest ⊢
      rw [hrest, File.readAll_fst, File.readAll_rest]; simp
    | read n =>
      cases n with
      | zero =>
        simp only [MFR.specStep, List.filterMap_cons, id, List.flatten_cons, List.append_assoc] at hrest ⊢
        rw [hrest, File.readAll_fst, File.readAll_rest]; simp
      | succ k =>
        simp only [MFR.specStep, List.filterMap_cons, id, List.flatten_cons, List.append_assoc] at hrest ⊢
        rw [hrest, File.readN_fst, File.readN_rest]; simp


theorem MFR.specRun_append (f : File α) (a b : List MOp) :
    MFR.specRun f (a ++ b) =
      ((MFR.specRun f a).1 ++ (MFR.specRun (MFR.specRun f a).2 b).1, (MFR.specRun (MFR.specRun f a).2 b).2) := by
  induction a generalizing f with
  | nil => simp [MFR.specRun]
  | cons op a ih => simp [MFR.specRun, ih]

theorem MFR.specStep_data (f : File α) (op : MOp) : (MFR.specStep f op).2.data = f.data := by
  cases op with
  | read n => cases n <;> rfl
  | readAll => rfl
  | seek0 => rfl

theorem MFR.specRun_data (f : File α) (ops : List MOp) : (MFR.specRun f ops).2.data = f.data := by
  induction ops generalizing f with
  | nil => rfl
  | cons op ops ih => simp only [MFR.specRun]; rw [ih, MFR.specStep_data]

end C18
