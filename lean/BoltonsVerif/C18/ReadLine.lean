import BoltonsVerif.C18.Reader
import BoltonsVerif.C18.Lines
namespace C18

/-! C18 — `codecs.StreamReader.readline` on a valid stream returns the first `str.splitlines` line. -/

/-- the reader (buffers + stream) will deliver exactly the text `R` -/
structure RS (st : File CU) (r : Reader) (R : List Char) : Prop where
  ex : ∃ X p, RC st r X p ∧ R = pend r ++ X
  inr : InRange st

theorem pend_of_nil (r : Reader) (h : r.linebuf = []) : pend r = r.charbuf := by
  simp [pend, Reader.merge, h]

theorem RS.read (st : File CU) (r : Reader) (R : List Char) (h : RS st r R) (size : Option Nat) :
    (Reader.read st r size).1 = wanted size R ∧
    RS (Reader.read st r size).2.1 (Reader.read st r size).2.2 (R.drop (Reader.read st r size).1.length) ∧
    (Reader.read st r size).2.2.linebuf = [] ∧ (Reader.read st r size).2.1.data = st.data := by
  rcases h with ⟨⟨X, p, hrc, hR⟩, hin⟩
  rcases Reader.read_spec st r X p hrc hin size with ⟨hout, X', p', hrc', hlb', hcb', hd', hin'⟩
  refine ⟨by rw [hout, hR], ⟨⟨X', p', hrc', ?_⟩, hin'⟩, hlb', hd'⟩
  rw [pend_of_nil _ hlb', hcb', hR]

theorem take_length_take {α : Type} (R : List α) (n : Nat) : R.take (R.take n).length = R.take n := by
  rw [List.length_take]
  by_cases h : n ≤ R.length
  · rw [Nat.min_eq_left h]
  · rw [Nat.min_eq_right (by omega), List.take_of_length_le (Nat.le_refl _), List.take_of_length_le (by omega)]

theorem drop_length_take {α : Type} (R : List α) (n : Nat) : R.drop (R.take n).length = R.drop n := by
  rw [List.length_take]
  by_cases h : n ≤ R.length
  · rw [Nat.min_eq_left h]
  · rw [Nat.min_eq_right (by omega), List.drop_eq_nil_of_le (Nat.le_refl _), List.drop_eq_nil_of_le (by omega)]

theorem endsWithCR_iff (l : List Char) : endsWithCR l = true ↔ ∃ y, l = y ++ ['\r'] := by
  simp [endsWithCR, List.getLast?_eq_some_iff]

theorem endsWithCR_nil : endsWithCR [] = false := by simp [endsWithCR]

/-- `read(readsize)` plus the extra character after a trailing CR -/
theorem readChunk_spec (st : File CU) (r : Reader) (R : List Char) (h : RS st r R) (rs : Nat) (hrs : 0 < rs) :
    (Reader.readChunk st r rs).1 = R.take (Reader.readChunk st r rs).1.length ∧
    RS (Reader.readChunk st r rs).2.1 (Reader.readChunk st r rs).2.2 (R.drop (Reader.readChunk st r rs).1.length) ∧
    (Reader.readChunk st r rs).2.2.linebuf = [] ∧ (Reader.readChunk st r rs).2.1.data = st.data ∧
    ((Reader.readChunk st r rs).1 = [] → R = []) ∧
    (endsWithCR (Reader.readChunk st r rs).1 = true →
      (R.drop (Reader.readChunk st r rs).1.length).head? = some '\n' →
      ∃ y, (Reader.readChunk st r rs).1 = y ++ ['\r', '\r']) := by
  rcases RS.read st r R h (some rs) with ⟨h1, hs1, hl1, hd1⟩
  rw [wanted_some] at h1
  have hnil : (Reader.read st r (some rs)).1 = [] → R = [] := by
    intro he
    rw [h1] at he
    cases R with
    | nil => rfl
    | cons a b =>
      cases rs with
      | zero => omega
      | succ k => simp at he
  unfold Reader.readChunk
  by_cases hc : (!(Reader.read st r (some rs)).1.isEmpty && endsWithCR (Reader.read st r (some rs)).1) = true
  · rw [if_pos hc]
    simp only [Bool.and_eq_true, Bool.not_eq_true', List.isEmpty_eq_false_iff] at hc
    rcases RS.read _ _ _ hs1 (some 1) with ⟨h2, hs2, hl2, hd2⟩
    rw [wanted_some] at h2
    generalize hd1e : (Reader.read st r (some rs)).1 = d1 at *
    generalize hd2e : (Reader.read (Reader.read st r (some rs)).2.1 (Reader.read st r (some rs)).2.2 (some 1)).1 = d2 at *
    have hd1len : R.take d1.length = d1 := by rw [h1]; exact take_length_take R rs
    refine ⟨?_, ?_, hl2, by rw [hd2, hd1], ?_, ?_⟩
    · simp only [List.length_append]
      rw [List.take_add, hd1len]
      congr 1
      rw [h2]; exact (take_length_take _ 1).symm
    · simp only [List.length_append]
      rw [← List.drop_drop]; exact hs2
    · intro he
      have := (List.append_eq_nil_iff.1 he).1
      exact hnil this
    · intro hcr hhead
      rcases (endsWithCR_iff d1).1 hc.2 with ⟨y1, hy1⟩
      cases hd2c : d2 with
      | nil =>
        exfalso
        rw [hd2c] at h2
        have : R.drop d1.length = [] := by
          cases hr : R.drop d1.length with
          | nil => rfl
          | cons a b => rw [hr] at h2; simp at h2
        simp only [hd2c, List.append_nil] at hhead
        rw [this] at hhead; simp at hhead
      | cons c t =>
        have ht : t = [] := by
          have : d2.length ≤ 1 := by rw [h2, List.length_take]; omega
          rw [hd2c] at this; simp at this; exact this
        subst ht
        rw [hd2c] at hcr
        rcases (endsWithCR_iff (d1 ++ [c])).1 hcr with ⟨y, hy⟩
        have hcc : c = '\r' := by
          have := congrArg List.getLast? hy
          simp at this; exact this
        exact ⟨y1, by rw [hy1, hcc]; simp⟩
  · rw [if_neg hc]
    refine ⟨by rw [h1]; exact (take_length_take R rs).symm, hs1, hl1, hd1, hnil, ?_⟩
    intro hcr _
    exfalso
    apply hc
    simp only [Bool.and_eq_true, Bool.not_eq_true', List.isEmpty_eq_false_iff]
    refine ⟨?_, hcr⟩
    intro he; rw [he, endsWithCR_nil] at hcr; exact Bool.false_ne_true hcr


/-- lines cached by `readline` are the `splitlines` of some text, read-ahead appended to the last one -/
def LbOK (r : Reader) : Prop :=
  r.linebuf = [] ∨
  (r.charbuf = [] ∧ ∃ W e, 2 ≤ (splitL true W).length ∧ r.linebuf = appendLast (splitL true W) e)

theorem appendLast_cons (l : List Char) (ls : List (List Char)) (e : List Char) (h : ls ≠ []) :
    appendLast (l :: ls) e = l :: appendLast ls e := by
  cases ls with
  | nil => exact absurd rfl h
  | cons a b => simp [appendLast]

theorem appendLast_flatten (ls : List (List Char)) (e : List Char) (h : ls ≠ []) :
    (appendLast ls e).flatten = ls.flatten ++ e := by
  induction ls with
  | nil => exact absurd rfl h
  | cons l ls ih =>
    by_cases hl : ls = []
    · subst hl; simp [appendLast]
    · rw [appendLast_cons l ls e hl]; simp [ih hl]

theorem appendLast_length (ls : List (List Char)) (e : List Char) : (appendLast ls e).length = ls.length := by
  induction ls with
  | nil => rfl
  | cons l ls ih =>
    by_cases hl : ls = []
    · subst hl; simp [appendLast]
    · rw [appendLast_cons l ls e hl]; simp [ih]

theorem RS_congr (st : File CU) (r r' : Reader) (R : List Char) (h : RS st r R)
    (hb : r'.bytebuf = r.bytebuf) (hg : r'.bad = r.bad) (hp : pend r' = pend r) : RS st r' R := by
  rcases h with ⟨⟨X, p, hrc, hR⟩, hin⟩
  exact ⟨⟨X, p, ⟨hrc.rest, by rw [hb]; exact hrc.bb, hrc.part, by rw [hg]; exact hrc.good⟩, by rw [hp]; exact hR⟩, hin⟩

theorem endsWithCR_append (a b : List Char) (hb : b ≠ []) : endsWithCR (a ++ b) = endsWithCR b := by
  rcases List.eq_nil_or_concat b with h | ⟨y, c, h⟩
  · exact absurd h hb
  · subst h
    simp [endsWithCR, ← List.append_assoc]

/-- the loop of `StreamReader.readline()`: `line` has been consumed already and holds no line break -/
theorem rlLoop_spec (fuel rs : Nat) (line : List Char) (st : File CU) (r : Reader) (R : List Char)
    (h : RS st r R) (hrs : 0 < rs)
    (hline : (splitL true line).length ≤ 1 ∧ endsWithBrk line = false) (hf : R.length + 1 ≤ fuel) :
    (rlLoop fuel rs line st r).1 = firstLine true (line ++ R) ∧
    RS (rlLoop fuel rs line st r).2.1 (rlLoop fuel rs line st r).2.2
      ((line ++ R).drop (rlLoop fuel rs line st r).1.length) ∧
    LbOK (rlLoop fuel rs line st r).2.2 ∧ (rlLoop fuel rs line st r).2.1.data = st.data := by
  induction fuel generalizing rs line st r R with
  | zero => omega
  | succ fuel ih =>
    rcases readChunk_spec st r R h rs hrs with ⟨hdata, hs2, hl2, hd2, hnil, hcr⟩
    generalize hch : Reader.readChunk st r rs = ch at *
    rcases ch with ⟨data, st2, r2⟩
    simp only at hdata hs2 hl2 hd2 hnil hcr
    have hR : line ++ R = (line ++ data) ++ R.drop data.length := by
      rw [List.append_assoc]; congr 1
      conv => lhs; rw [← List.take_append_drop data.length R, ← hdata]
    unfold rlLoop
    rw [hch]
    simp only
    cases hsp : splitL true (line ++ data) with
    | nil =>
      simp only
      have hl0 : line ++ data = [] := splitL_eq_nil true _ hsp
      have hd0 : data = [] := (List.append_eq_nil_iff.1 hl0).2
      have hR0 : R = [] := hnil hd0
      have hline0 : line = [] := (List.append_eq_nil_iff.1 hl0).1
      rw [if_pos (by simp [hd0])]
      simp only
      subst hd0; subst hR0; subst hline0
      refine ⟨by simp [firstLine], ?_, Or.inl hl2, hd2⟩
      simpa using hs2
    | cons l0 rest =>
      have hne : line ++ data ≠ [] := by
        intro h0; rw [h0] at hsp; simp [splitL] at hsp
      have hhead := splitL_head true (line ++ data) hne
      rw [hsp] at hhead
      simp only [List.cons.injEq] at hhead
      rcases hhead with ⟨hl0, hrest⟩
      cases rest with
      | nil =>
        simp only
        have hone : l0 = line ++ data := by
          have := splitL_flatten true (line ++ data)
          rw [hsp] at this; simpa using this
        by_cases hb : endsWithBrk l0 = true
        · rw [if_pos hb]
          simp only
          -- a complete single line
          have hdne : data ≠ [] := by
            intro hd0
            rw [hone, hd0, List.append_nil, hline.2] at hb
            exact Bool.false_ne_true hb
          have hfl : firstLine true ((line ++ data) ++ R.drop data.length) = line ++ data := by
            apply firstLine_single
            · rw [hsp, hone]
            · rw [← hone]; exact hb
            · intro ⟨h1, h2⟩
              rw [endsWithCR_append line data hdne] at h1
              rcases hcr h1 h2 with ⟨y, hy⟩
              have := single_cr true (line ++ data) (line ++ y) ['\r'] (by rw [hsp]; simp)
                (by rw [hy]; simp)
              simp at this
          refine ⟨by rw [hR, hfl, hone], ?_, Or.inl hl2, hd2⟩
          rw [hone, hR, List.drop_left]
          exact hs2
        · rw [if_neg hb]
          by_cases hde : data.isEmpty = true
          · rw [if_pos hde]
            simp only
            have hd0 : data = [] := List.isEmpty_iff.1 hde
            have hR0 : R = [] := hnil hd0
            have hfl : firstLine true (line ++ data) = line ++ data := by rw [← hl0, hone]
            refine ⟨by rw [hR0, hd0] at *; simpa using hfl.symm, ?_, Or.inl hl2, hd2⟩
            rw [hR0, hd0] at hs2 ⊢
            simpa using hs2
          · rw [if_neg hde]
            have hdpos : 0 < data.length := by
              apply List.length_pos_iff.2; intro hh; apply hde; simp [hh]
            have hdlen : data.length ≤ R.length := by
              rw [hdata, List.length_take]; omega
            have := ih (if rs < C18.Generated.CODECS_READSIZE_CAP then rs * C18.Generated.CODECS_READSIZE_FACTOR else rs)
              (line ++ data) st2 r2 (R.drop data.length) hs2
              (by split
                  · exact Nat.mul_pos hrs (by decide)
                  · exact hrs)
              ⟨by rw [hsp]; simp, by rw [← hone]; simpa using hb⟩
              (by rw [List.length_drop]; omega)
            rw [← hR] at this
            exact ⟨this.1, this.2.1, this.2.2.1, by rw [this.2.2.2, hd2]⟩
      | cons l1 ls =>
        -- more than one line: the first one is complete
        have htwo : 2 ≤ (splitL true (line ++ data)).length := by rw [hsp]; simp
        have hfl : firstLine true ((line ++ data) ++ R.drop data.length) = l0 := by
          rw [firstLine_append_of_two true _ _ htwo, hl0]
        have hflat : (l1 :: ls).flatten = (line ++ data).drop l0.length := by
          rw [hrest, splitL_flatten, hl0]
        have hl0len : l0.length ≤ (line ++ data).length := by
          have := congrArg List.length (congrArg List.flatten hsp)
          rw [splitL_flatten, List.flatten_cons] at this
          rw [this, List.length_append]
          omega
        have hdropR : (line ++ R).drop l0.length = (l1 :: ls).flatten ++ R.drop data.length := by
          rw [hR, List.drop_append_of_le_length hl0len, hflat]
        simp only
        by_cases hls : ls.isEmpty = true
        · rw [if_pos hls]
          simp only
          have hls0 : ls = [] := List.isEmpty_iff.1 hls
          subst hls0
          refine ⟨by rw [hR, hfl], ?_, Or.inl hl2, hd2⟩
          rw [hdropR]
          rcases hs2 with ⟨⟨X, p, hrc, hRX⟩, hin⟩
          refine ⟨⟨X, p, ⟨hrc.rest, hrc.bb, hrc.part, hrc.good⟩, ?_⟩, hin⟩
          rw [pend_of_nil _ hl2] at hRX
          rw [pend_of_nil _ (by exact hl2), hRX]
          simp
        · rw [if_neg hls]
          simp only
          have hlsne : ls ≠ [] := fun hh => hls (by simp [hh])
          refine ⟨by rw [hR, hfl], ?_, ?_, hd2⟩
          · rw [hdropR]
            rcases hs2 with ⟨⟨X, p, hrc, hRX⟩, hin⟩
            refine ⟨⟨X, p, ⟨hrc.rest, hrc.bb, hrc.part, hrc.good⟩, ?_⟩, hin⟩
            rw [pend_of_nil _ hl2] at hRX
            have hp : pend { r2 with linebuf := appendLast (l1 :: ls) r2.charbuf, charbuf := [] }
                = (l1 :: ls).flatten ++ r2.charbuf := by
              have hne' : appendLast (l1 :: ls) r2.charbuf ≠ [] := by
                intro hh
                have := congrArg List.length hh
                rw [appendLast_length] at this; simp at this
              simp only [pend, Reader.merge]
              rw [if_neg (by simpa using hne')]
              exact appendLast_flatten _ _ (by simp)
            rw [hp, hRX]; simp
          · right
            refine ⟨rfl, (line ++ data).drop l0.length, r2.charbuf, ?_, ?_⟩
            · rw [← hl0] at hrest
              rw [← hrest]
              have := List.length_pos_iff.2 hlsne
              simp only [List.length_cons]; omega
            · show appendLast (l1 :: ls) r2.charbuf = _
              rw [← hl0] at hrest
              rw [← hrest]


theorem RC_len (st : File CU) (r : Reader) (X : List Char) (p : Nat) (h : RC st r X p) :
    X.length ≤ st.rest.length := by
  rw [h.rest, List.length_drop]
  cases X with
  | nil => simp
  | cons c t =>
    have hp : p < width c := h.part
    have := length_le_blen t
    have hb : (encode (c :: t)).length = width c + blen t := blen_cons c t
    rw [hb]; simp only [List.length_cons]; omega

/-- `StreamReader.readline()` returns the first `str.splitlines` line of what is left -/
theorem Reader.readline_spec (st : File CU) (r : Reader) (R : List Char) (h : RS st r R) (hlb : LbOK r) :
    (Reader.readline st r).1 = firstLine true R ∧
    RS (Reader.readline st r).2.1 (Reader.readline st r).2.2 (R.drop (Reader.readline st r).1.length) ∧
    LbOK (Reader.readline st r).2.2 ∧ (Reader.readline st r).2.1.data = st.data := by
  unfold Reader.readline
  cases hl : r.linebuf with
  | nil =>
    simp only
    rcases h with ⟨⟨X, p, hrc, hR⟩, hin⟩
    have hlen : R.length + 1 ≤ r.charbuf.length + st.rest.length + 2 := by
      rw [hR, pend_of_nil r hl, List.length_append]
      have := RC_len st r X p hrc
      omega
    have := rlLoop_spec (r.charbuf.length + st.rest.length + 2) C18.Generated.CODECS_READLINE_SIZE [] st r R
      ⟨⟨X, p, hrc, hR⟩, hin⟩ (by decide) ⟨by simp [splitL], by simp [endsWithBrk]⟩ hlen
    simpa using this
  | cons l rest =>
    simp only
    rcases hlb with hlb | ⟨hcb, W, e, hW, hlbW⟩
    · rw [hl] at hlb; simp at hlb
    · have hWne : W ≠ [] := by
        intro h0; subst h0; simp [splitL] at hW
      have hhead := splitL_head true W hWne
      rcases h with ⟨⟨X, p, hrc, hR⟩, hin⟩
      have hflen : (firstLine true W).length ≤ W.length := by
        have := congrArg List.length (congrArg List.flatten hhead)
        rw [splitL_flatten, List.flatten_cons] at this
        rw [this, List.length_append]; omega
      have hpend : pend r = W ++ e := by
        simp only [pend, Reader.merge, hl]
        rw [if_neg (by simp)]
        show (l :: rest).flatten = W ++ e
        rw [← hl, hlbW, appendLast_flatten _ _ (splitL_ne_nil true W hWne), splitL_flatten]
      generalize htl : splitL true (W.drop (firstLine true W).length) = tail at hhead
      have hflat : tail.flatten = W.drop (firstLine true W).length := by rw [← htl, splitL_flatten]
      have hdropR : ∀ n, n = (firstLine true W).length → R.drop n = (tail.flatten ++ e) ++ X := by
        intro n hn
        rw [hn, hR, hpend, List.append_assoc, List.drop_append_of_le_length hflen, hflat, List.append_assoc]
      have hfl : firstLine true R = firstLine true W := by
        rw [hR, hpend, List.append_assoc, firstLine_append_of_two true W _ hW]
      cases tail with
      | nil => rw [hhead] at hW; simp at hW
      | cons t1 ts =>
        rw [hhead, appendLast_cons _ _ _ (by simp), hl] at hlbW
        simp only [List.cons.injEq] at hlbW
        rcases hlbW with ⟨hl0, hrest⟩
        cases ts with
        | nil =>
          -- one cached line left: back to the character buffer
          simp only [appendLast] at hrest
          subst hrest
          simp only
          refine ⟨by rw [hfl, hl0], ?_, Or.inl rfl, by trivial⟩
          rw [hdropR _ (by rw [hl0])]
          refine ⟨⟨X, p, ⟨hrc.rest, hrc.bb, hrc.part, hrc.good⟩, ?_⟩, hin⟩
          simp [pend, Reader.merge]
        | cons t2 ts' =>
          have hal : appendLast (t1 :: t2 :: ts') e = t1 :: appendLast (t2 :: ts') e :=
            appendLast_cons _ _ _ (by simp)
          have hlen2 := appendLast_length (t2 :: ts') e
          cases hal2 : appendLast (t2 :: ts') e with
          | nil => rw [hal2] at hlen2; simp at hlen2
          | cons x y =>
            rw [hal, hal2] at hrest
            subst hrest
            simp only
            refine ⟨by rw [hfl, hl0], ?_, ?_, by trivial⟩
            · rw [hdropR _ (by rw [hl0])]
              refine ⟨⟨X, p, ⟨hrc.rest, hrc.bb, hrc.part, hrc.good⟩, ?_⟩, hin⟩
              simp only [pend, Reader.merge]
              rw [if_neg (by simp)]
              show _ = (t1 :: x :: y).flatten ++ X
              rw [← hal2, ← hal, appendLast_flatten _ _ (by simp)]
            · right
              refine ⟨hcb, W.drop (firstLine true W).length, e, by rw [htl]; simp, ?_⟩
              show t1 :: x :: y = _
              rw [htl, hal, hal2]

end C18
