import BoltonsVerif.C18.Proofs
import BoltonsVerif.C18.Calls
/-
C18, round 5 — lemmas behind the round-5 theorems of Props.lean:
rejected calls (`runCalls`) and MultiFileReader over members handed over at their own positions (`MFR.initAt`).
-/
namespace C18
variable {α σ : Type}

/-! ### rejected calls -/

/-- the accepted calls of a history with rejected calls return, and leave behind, what the history without the
    rejected calls does; a rejected call returns nothing; every call has its record -/
theorem runCalls_spec (step : σ → Op α → Out α × σ) (s : σ) (cs : List (Call α)) :
    acceptedOuts cs (runCalls step s cs).1 = (runOps step s (accepted cs)).1 ∧
    (runCalls step s cs).2 = (runOps step s (accepted cs)).2 ∧
    (∀ o ∈ rejectedOuts cs (runCalls step s cs).1, o = Out.unit) ∧
    (runCalls step s cs).1.length = cs.length := by
  induction cs generalizing s with
  | nil => simp [runCalls, runOps, accepted, acceptedOuts, rejectedOuts]
  | cons c cs ih =>
    cases c with
    | none =>
      have := ih s
      simp only [accepted, List.filterMap_cons, id] at this ⊢
      refine ⟨by simpa [runCalls, stepCall, acceptedOuts] using this.1, by simpa [runCalls, stepCall] using this.2.1,
        ?_, by simpa [runCalls, stepCall] using this.2.2.2⟩
      intro o ho
      simp only [runCalls, stepCall, rejectedOuts, List.mem_cons] at ho
      rcases ho with rfl | ho
      · rfl
      · exact this.2.2.1 o ho
    | some op =>
      have := ih (step s op).2
      simp only [accepted, List.filterMap_cons, id] at this ⊢
      refine ⟨by simp [runCalls, stepCall, acceptedOuts, runOps, this.1], by simp [runCalls, stepCall, runOps, this.2.1],
        ?_, by simpa [runCalls, stepCall] using this.2.2.2⟩
      intro o ho
      simp only [runCalls, stepCall, rejectedOuts] at ho
      exact this.2.2.1 o ho

theorem SBytes.run_eq_runOps (s : SBytes) (ops : List (Op Byte)) : s.run ops = runOps SBytes.step s ops := by
  induction ops generalizing s with
  | nil => rfl
  | cons op ops ih => simp [SBytes.run, runOps, ih]

theorem SStr.run_eq_runOps (s : SStr) (ops : List (Op Char)) : s.run ops = runOps SStr.step s ops := by
  induction ops generalizing s with
  | nil => rfl
  | cons op ops ih => simp [SStr.run, runOps, ih]

/-- a history without rejected calls is an ordinary history -/
theorem runCalls_all_accepted (step : σ → Op α → Out α × σ) (s : σ) (ops : List (Op α)) :
    runCalls step s (ops.map some) = runOps step s ops := by
  induction ops generalizing s with
  | nil => rfl
  | cons op ops ih => simp [runCalls, stepCall, runOps, ih]

/-! ### MultiFileReader over members at their own positions -/

/-- what is left of the reader is what is left of the single file `f` (no claim about the part already consumed) -/
def MRelR (m : MFR α) (f : File α) : Prop := f.rest = m.rem ∧ m.Inv

theorem MRelR_initAt (fs : List (File α)) : MRelR (MFR.initAt fs) ⟨(fs.map File.rest).flatten, 0⟩ := by
  refine ⟨?_, ?_⟩
  · simp [MFR.initAt, MFR.rem, File.rest]
  · intro f hf; simp [MFR.initAt] at hf

theorem MFR.read_step_specR (m : MFR α) (f : File α) (op : MOp) (hop : op.isRead = true) (h : MRelR m f) :
    (m.step op).1 = (MFR.specStep f op).1 ∧ MRelR (m.step op).2 (MFR.specStep f op).2 ∧
    (m.step op).2.contents = m.contents := by
  rcases h with ⟨hr, hi⟩
  have hall : (m.readAll).1 = f.readAll.1 ∧ MRelR (m.readAll).2 f.readAll.2 ∧ m.readAll.2.contents = m.contents := by
    rcases MFR.readAll_spec m hi with ⟨h1, h2, h3, h4⟩
    exact ⟨by rw [h1, File.readAll_fst, hr], ⟨by rw [File.readAll_rest, h2], h3⟩, h4⟩
  cases op with
  | readAll => simpa [MFR.step, MFR.specStep, MFR.read] using hall
  | seek0 => simp [MOp.isRead] at hop
  | read n =>
    cases n with
    | zero => simpa [MFR.step, MFR.specStep, MFR.read] using hall
    | succ k =>
      rcases MFR.readLoop_spec (m.files.length - m.index + 2) m (k + 1) [] hi (by omega) with ⟨h1, h2, h3, h4⟩
      simp only [MFR.step, MFR.specStep, MFR.read]
      refine ⟨?_, ⟨?_, h3⟩, h4⟩
      · rw [h1, File.readN_fst, hr]; simp
      · rw [File.readN_rest, h2, hr]

theorem MFR.run_reads_specR (m : MFR α) (f : File α) (ops : List MOp) (hr : ∀ op ∈ ops, op.isRead = true)
    (h : MRelR m f) :
    (m.run ops).1 = (MFR.specRun f ops).1 ∧ MRelR (m.run ops).2 (MFR.specRun f ops).2 ∧
    (m.run ops).2.contents = m.contents := by
  induction ops generalizing m f with
  | nil => exact ⟨rfl, h, rfl⟩
  | cons op ops ih =>
    have hs := MFR.read_step_specR m f op (hr op (by simp)) h
    have := ih _ _ (fun o ho => hr o (by simp [ho])) hs.2.1
    simp only [MFR.run, MFR.specRun]
    exact ⟨by rw [hs.1, this.1], this.2.1, by rw [this.2.2, hs.2.2]⟩

/-- `seek(0)` rewinds every member: the reader is the one freshly built over the members' whole contents -/
theorem MFR.seek0_eq_init (m : MFR α) : m.seek0 = MFR.init m.contents := by
  simp [MFR.seek0, MFR.init, MFR.contents, File.seek, Function.comp_def]

theorem MFR.step_inv_contents (m : MFR α) (op : MOp) (hi : m.Inv) :
    (m.step op).2.Inv ∧ (m.step op).2.contents = m.contents := by
  cases hop : op.isRead with
  | true =>
    have := MFR.read_step_specR m ⟨m.rem, 0⟩ op hop ⟨by simp [File.rest], hi⟩
    exact ⟨this.2.1.2, this.2.2⟩
  | false =>
    cases op with
    | seek0 =>
      refine ⟨?_, ?_⟩
      · intro g hg; simp [MFR.step, MFR.seek0] at hg
      · simp [MFR.step, MFR.seek0, MFR.contents, File.seek, Function.comp_def]
    | read n => simp [MOp.isRead] at hop
    | readAll => simp [MOp.isRead] at hop

theorem MFR.run_inv_contents (m : MFR α) (ops : List MOp) (hi : m.Inv) :
    (m.run ops).2.Inv ∧ (m.run ops).2.contents = m.contents := by
  induction ops generalizing m with
  | nil => exact ⟨hi, rfl⟩
  | cons op ops ih =>
    have hs := MFR.step_inv_contents m op hi
    have := ih _ hs.1
    simp only [MFR.run]
    exact ⟨this.1, by rw [this.2, hs.2]⟩

theorem MFR.run_append (m : MFR α) (a b : List MOp) :
    m.run (a ++ b) = ((m.run a).1 ++ ((m.run a).2.run b).1, ((m.run a).2.run b).2) := by
  induction a generalizing m with
  | nil => simp [MFR.run]
  | cons op a ih => simp [MFR.run, ih]

theorem MFR.initAt_inv (fs : List (File α)) : (MFR.initAt fs).Inv := by
  intro f hf; simp [MFR.initAt] at hf

end C18
