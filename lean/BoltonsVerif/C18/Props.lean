import BoltonsVerif.C18.Proofs
import BoltonsVerif.C18.Round5
/-
C18 — property theorems (statements, short derivations from the lemma files, non-vacuity examples).

Models (Model.lean): `SBytes` = SpooledBytesIO, `SStr` = SpooledStringIO on the transliterated
`codecs.StreamReader`, `MFR` = MultiFileReader, `File` = io.BytesIO / TemporaryFile, `Spec.run sem` = the
same history on a plain file (io.BytesIO for `bytesSem`, io.StringIO(newline='') for `textSem`).
A history is a `List Op` (round 2: also `writelines`); `validB` / `validS` are the statement's own domain
(appending writes of text, seek targets inside the data), evaluated along the reference run.
Round 2 also ties the model's abstract code units to real UTF-8 bytes (section "the code units of the model are
real UTF-8 bytes"; lemmas in Utf8.lean, built on `String.utf8EncodeChar` / `ByteArray.utf8DecodeChar?` of Lean core).
-/
namespace C18

/-! ## SpooledBytesIO -/

/-- outputs, final content and final position do not depend on `max_size` (rolled over or not) — every history -/
theorem rollover_invisible_bytes (ops : List (Op Byte)) (m₁ m₂ : Nat) :
    ((SBytes.init m₁).run ops).1 = ((SBytes.init m₂).run ops).1 ∧
    ((SBytes.init m₁).run ops).2.buf = ((SBytes.init m₂).run ops).2.buf := by
  have h1 := SBytes.run_eq (SBytes.init m₁) ops
  have h2 := SBytes.run_eq (SBytes.init m₂) ops
  exact ⟨by rw [h1.1, h2.1]; rfl, by rw [h1.2, h2.2]; rfl⟩

/-- SpooledBytesIO returns what io.BytesIO returns and ends with the same content and position -/
theorem bytes_refines_BytesIO (m : Nat) (ops : List (Op Byte)) (hv : validB File.empty ops = true) :
    ((SBytes.init m).run ops).1 = (Spec.run bytesSem File.empty ops).1 ∧
    ((SBytes.init m).run ops).2.buf = (Spec.run bytesSem File.empty ops).2 := by
  have h1 := SBytes.run_eq (SBytes.init m) ops
  have h2 := bRun_spec File.empty ops (by simp [InRange, File.empty]) hv
  exact ⟨by rw [h1.1]; show (bRun File.empty ops).1 = _; rw [h2], by rw [h1.2]; show (bRun File.empty ops).2 = _; rw [h2]⟩

/-- `tell`, `getvalue`, `len` report position, content, length and leave both untouched — in every state -/
theorem bytes_queries_do_not_move (s : SBytes) :
    (s.step .tell) = (.num s.buf.pos, s) ∧
    (s.step .getvalue).1 = .data s.buf.data ∧ (s.step .getvalue).2.buf = s.buf ∧
    (s.step .len).1 = .num s.buf.data.length ∧ (s.step .len).2.buf = s.buf := by
  have hg := SBytes.getvalue_eq s
  have hl := SBytes.len_eq s
  exact ⟨rfl, by simp [SBytes.step, hg.1], hg.2, by simp [SBytes.step, hl.1], hl.2⟩

/-- removing a query from a history changes no other output and not the final state -/
theorem bytes_queries_invisible (m : Nat) (ops₁ ops₂ : List (Op Byte)) (q : Op Byte) (hq : isQuery q = true)
    (hv : validB File.empty (ops₁ ++ ops₂) = true) :
    ((SBytes.init m).run (ops₁ ++ q :: ops₂)).1.eraseIdx ops₁.length = ((SBytes.init m).run (ops₁ ++ ops₂)).1 ∧
    ((SBytes.init m).run (ops₁ ++ q :: ops₂)).2.buf = ((SBytes.init m).run (ops₁ ++ ops₂)).2.buf := by
  have h1 := bytes_refines_BytesIO m _ (validB_insert_query File.empty ops₁ ops₂ q hq hv)
  have h2 := bytes_refines_BytesIO m _ hv
  have h3 := Spec.query_invisible bytesSem File.empty ops₁ ops₂ q hq
  exact ⟨by rw [h1.1, h2.1]; exact h3.1, by rw [h1.2, h2.2]; exact h3.2⟩

/-- `writelines(ss)` — a loop of writes, each taking its own rollover decision — is invisible as such: the history
    returns and ends exactly as with ONE `write` of the joined pieces (any `max_size`, any position) -/
theorem bytes_writelines_as_one_write (m : Nat) (ops₁ ops₂ : List (Op Byte)) (ss : List (List Byte))
    (hv : validB File.empty (ops₁ ++ .writelines ss :: ops₂) = true) :
    ((SBytes.init m).run (ops₁ ++ .writelines ss :: ops₂)).1 = ((SBytes.init m).run (ops₁ ++ .write ss.flatten :: ops₂)).1 ∧
    ((SBytes.init m).run (ops₁ ++ .writelines ss :: ops₂)).2.buf =
      ((SBytes.init m).run (ops₁ ++ .write ss.flatten :: ops₂)).2.buf := by
  have h1 := bytes_refines_BytesIO m _ hv
  have h2 := bytes_refines_BytesIO m _ (by rw [← validB_writelines]; exact hv)
  rw [h1.1, h1.2, h2.1, h2.2, Spec.run_writelines]
  exact ⟨rfl, rfl⟩

/-- and its state (buffer, rolled-over flag) is the state after the writes one by one -/
theorem bytes_writelines_as_writes (s : SBytes) (ss : List (List Byte)) :
    (s.step (.writelines ss)).2 = (s.run (ss.map .write)).2 :=
  SBytes.writelines_as_writes s ss

/-! ## SpooledStringIO -/

/-- the constant the source uses keeps the side condition of the theorems below -/
theorem real_chunk_size_pos : 0 < C18.Generated.READ_CHUNK_SIZE := by decide

/-- the constants of `codecs.StreamReader.readline` (first read size 72, doubling up to 8000), re-read from the
    interpreter's Lib/codecs.py on every run, keep the side conditions of the reader proofs (`rlLoop_spec` holds for
    every positive read size and every positive growth factor) -/
theorem codecs_readline_constants_ok :
    0 < C18.Generated.CODECS_READLINE_SIZE ∧ 0 < C18.Generated.CODECS_READSIZE_FACTOR := by decide

/-- the hand transliteration in Model.lean (section 3) was made from exactly this source: the docstring-free AST of
    `codecs.StreamReader.{__init__, read, readline, reset, seek}`, `StreamWriter.{write, reset, seek}`,
    `StreamRecoder.{__init__, read, readline, readlines, write, writelines, seek, reset, __getattr__}` and `EncodedFile`
    of the interpreter that runs the implementation hashes to the digest pinned here (CPython 3.12.1); an interpreter
    whose codecs.py differs in these functions breaks this obligation instead of being silently trusted -/
theorem codecs_source_is_the_transliterated_one :
    C18.Generated.CODECS_SOURCE_DIGEST = "8a193caf42c8e110a797e8f037452de5" := by decide

/-- SpooledStringIO (over the codec reader with its byte / character / line buffers) returns, for every history
    in the statement's domain and every `max_size` and READ_CHUNK_SIZE > 0, what io.StringIO(newline='') returns —
    the FULL clause, no restriction on the text (round 3: `readline` / `next` / iteration were repaired to join the
    codec reader's lines up to a CR / LF, so VT, FF, FS, GS, RS, NEL, LS, PS no longer end a line); positions count
    code points and the stored bytes are the encoding of the text -/
theorem string_refines_StringIO (ms ch : Nat) (hch : 0 < ch) (ops : List (Op Char))
    (hv : validS File.empty ops = true) :
    ((SStr.init ms ch).run ops).1 = (Spec.run textSem File.empty ops).1 ∧
    ((SStr.init ms ch).run ops).2.tell = (Spec.run textSem File.empty ops).2.pos ∧
    ((SStr.init ms ch).run ops).2.st.data = encode (Spec.run textSem File.empty ops).2.data := by
  have h := SStr.run_spec (SStr.init ms ch) File.empty ops (SRel_init ms ch hch) hv
  exact ⟨h.1, h.2.2.1, h.2.1.data⟩

/-- the same, for the chunk size the source actually uses (regenerated from boltons/ioutils.py on every run) -/
theorem string_refines_StringIO_real (ms : Nat) (ops : List (Op Char))
    (hv : validS File.empty ops = true) :
    ((SStr.init ms C18.Generated.READ_CHUNK_SIZE).run ops).1 = (Spec.run textSem File.empty ops).1 ∧
    ((SStr.init ms C18.Generated.READ_CHUNK_SIZE).run ops).2.tell = (Spec.run textSem File.empty ops).2.pos :=
  ⟨(string_refines_StringIO ms _ real_chunk_size_pos ops hv).1,
   (string_refines_StringIO ms _ real_chunk_size_pos ops hv).2.1⟩

/-- outputs, final position and final content do not depend on `max_size` (nor on the read chunk size) -/
theorem rollover_invisible_string (ops : List (Op Char)) (hv : validS File.empty ops = true)
    (ms₁ ms₂ ch₁ ch₂ : Nat) (h₁ : 0 < ch₁) (h₂ : 0 < ch₂) :
    ((SStr.init ms₁ ch₁).run ops).1 = ((SStr.init ms₂ ch₂).run ops).1 ∧
    ((SStr.init ms₁ ch₁).run ops).2.tell = ((SStr.init ms₂ ch₂).run ops).2.tell ∧
    ((SStr.init ms₁ ch₁).run ops).2.st.data = ((SStr.init ms₂ ch₂).run ops).2.st.data := by
  have a := string_refines_StringIO ms₁ ch₁ h₁ ops hv
  have b := string_refines_StringIO ms₂ ch₂ h₂ ops hv
  exact ⟨by rw [a.1, b.1], by rw [a.2.1, b.2.1], by rw [a.2.2, b.2.2]⟩

/-- iterating to the end (`[x for x in f]`, `list(f)`) yields exactly the lines `readlines()` returns and ends at the same
    position (before the repair the two cut differently on VT, FF, FS, GS, RS, NEL, LS, PS) -/
theorem string_iteration_is_readlines (ms ch : Nat) (hch : 0 < ch) (ops : List (Op Char))
    (hv : validS File.empty ops = true) :
    ((SStr.init ms ch).run (ops ++ [.drain])).1 = ((SStr.init ms ch).run (ops ++ [.readlines])).1 ∧
    ((SStr.init ms ch).run (ops ++ [.list])).1 = ((SStr.init ms ch).run (ops ++ [.readlines])).1 ∧
    ((SStr.init ms ch).run (ops ++ [.drain])).2.tell = ((SStr.init ms ch).run (ops ++ [.readlines])).2.tell := by
  have hd := string_refines_StringIO ms ch hch (ops ++ [.drain]) (by rw [validS_append]; simp [hv, validS, okS])
  have hl := string_refines_StringIO ms ch hch (ops ++ [.list]) (by rw [validS_append]; simp [hv, validS, okS])
  have hr := string_refines_StringIO ms ch hch (ops ++ [.readlines]) (by rw [validS_append]; simp [hv, validS, okS])
  rw [hd.1, hl.1, hr.1, hd.2.1, hr.2.1]
  simp only [Spec.run_append, Spec.run, Spec.step, textSem]
  exact ⟨trivial, trivial, trivial⟩

/-! ### the other reading of "io.StringIO": the default constructor -/

/-- against the DEFAULT `io.StringIO()` (`newline='\n'`: a line ends at LF only): SpooledStringIO returns the same for
    every history whose line-cutting operations (readline, next, iteration, readlines) meet no lone CR in what is left
    to read — texts with LF and CRLF line ends.  (`io.StringIO(newline='')`, which also ends a line at a lone CR as
    `bytes.splitlines` and the codec reader do, is the reading under which the clause holds for every text:
    `string_refines_StringIO`.) -/
theorem string_refines_default_StringIO (ms ch : Nat) (hch : 0 < ch) (ops : List (Op Char))
    (hv : validS File.empty ops = true) (hl : lfOnly File.empty ops = true) :
    ((SStr.init ms ch).run ops).1 = (Spec.run lfSem File.empty ops).1 ∧
    ((SStr.init ms ch).run ops).2.tell = (Spec.run lfSem File.empty ops).2.pos ∧
    ((SStr.init ms ch).run ops).2.st.data = encode (Spec.run lfSem File.empty ops).2.data := by
  rw [← Spec.run_lf File.empty ops hl]
  exact string_refines_StringIO ms ch hch ops hv

/-- and only there: on a lone CR SpooledStringIO ends the line (like io.StringIO(newline='')), the default
    io.StringIO() does not -/
theorem string_lone_cr_differs_from_default_StringIO :
    ∃ (ops : List (Op Char)), validS File.empty ops = true ∧
      ((SStr.init 100 3).run ops).1 = (Spec.run textSem File.empty ops).1 ∧
      ((SStr.init 100 3).run ops).1 ≠ (Spec.run lfSem File.empty ops).1 :=
  ⟨[.write ['a', '\r', 'b', '\n'], .seek 0, .readline], by decide +kernel, by decide +kernel, by decide +kernel⟩

/-! ### the line loop of the repaired `readline()` -/

/-- io.StringIO's line is the codec reader's line (`str.splitlines` boundaries), continued — when that one did not
    stop at a CR / LF — by io.StringIO's line of what follows: the identity the loop of `readline()` implements -/
theorem readline_joins_codec_lines (l : List Char) :
    firstLine false l = firstLine true l ++
      (if endsCRLF (firstLine true l) then [] else firstLine false (l.drop (firstLine true l).length)) :=
  firstLine_join l

/-- `readline()` in EVERY coherent state (any read-ahead in the codec reader's byte / character / line buffers,
    rolled over or not): io.StringIO's line of the unread text, position advanced by its length -/
theorem string_readline_is_StringIO_line (s : SStr) (text : List Char) (h : Coh s text) :
    s.readline.1 = firstLine false (text.drop s.tell) ∧ Coh s.readline.2 text ∧
    s.readline.2.tell = s.tell + s.readline.1.length :=
  ⟨(SStr.readline_spec s text h).1, (SStr.readline_spec s text h).2.1, (SStr.readline_spec s text h).2.2.1⟩

/-- one line of the codec reader alone (what `readline()` returned before the repair) stops at the form feed: the
    joining loop is needed — `write('a\x0cb\n'); seek(0)`: `codecLine` gives 'a\x0c', `readline()` and io.StringIO
    give 'a\x0cb\n' -/
theorem codec_line_alone_is_not_enough :
    ∃ (ops : List (Op Char)), validS File.empty ops = true ∧
      ((SStr.init 100 3).run ops).2.codecLine.1 ≠ firstLine false (Spec.run textSem File.empty ops).2.rest ∧
      ((SStr.init 100 3).run ops).2.readline.1 = firstLine false (Spec.run textSem File.empty ops).2.rest ∧
      (Spec.run codecSem File.empty (ops ++ [.readline])).1 ≠ (Spec.run textSem File.empty (ops ++ [.readline])).1 :=
  ⟨[.write ['a', Char.ofNat 0x0c, 'b', '\n'], .seek 0], by decide +kernel, by decide +kernel, by decide +kernel,
   by decide +kernel⟩

/-- `tell()` is the number of code points before the logical position; the raw stream position is that many
    characters' bytes plus the codec's decoded read-ahead plus its undecoded partial character -/
theorem tell_is_codepoint_index (ms ch : Nat) (hch : 0 < ch) (ops : List (Op Char))
    (hv : validS File.empty ops = true) :
    ((SStr.init ms ch).run ops).2.tell ≤ (Spec.run textSem File.empty ops).2.data.length ∧
    ((SStr.init ms ch).run ops).2.st.pos =
      blen ((Spec.run textSem File.empty ops).2.data.take ((SStr.init ms ch).run ops).2.tell)
      + blen (pend ((SStr.init ms ch).run ops).2.rd) + ((SStr.init ms ch).run ops).2.rd.bytebuf.length := by
  have h := SStr.run_spec (SStr.init ms ch) File.empty ops (SRel_init ms ch hch) hv
  exact ⟨h.2.1.ale, Coh_stream_pos _ _ h.2.1⟩

/-- `tell`, `getvalue`, `len` inserted anywhere change no other output, nor the final position and content -/
theorem string_queries_do_not_move (ms ch : Nat) (hch : 0 < ch) (ops₁ ops₂ : List (Op Char)) (q : Op Char)
    (hq : isQuery q = true) (hv : validS File.empty (ops₁ ++ ops₂) = true) :
    ((SStr.init ms ch).run (ops₁ ++ q :: ops₂)).1.eraseIdx ops₁.length = ((SStr.init ms ch).run (ops₁ ++ ops₂)).1 ∧
    ((SStr.init ms ch).run (ops₁ ++ q :: ops₂)).2.tell = ((SStr.init ms ch).run (ops₁ ++ ops₂)).2.tell ∧
    ((SStr.init ms ch).run (ops₁ ++ q :: ops₂)).2.st.data = ((SStr.init ms ch).run (ops₁ ++ ops₂)).2.st.data := by
  have h1 := string_refines_StringIO ms ch hch _ (validS_insert_query File.empty ops₁ ops₂ q hq hv)
  have h2 := string_refines_StringIO ms ch hch _ hv
  have h3 := Spec.query_invisible textSem File.empty ops₁ ops₂ q hq
  exact ⟨by rw [h1.1, h2.1]; exact h3.1, by rw [h1.2.1, h2.2.1, h3.2], by rw [h1.2.2, h2.2.2, h3.2]⟩

/-- `writelines(ss)` at the end of the text returns and ends as ONE `write` of the joined pieces -/
theorem string_writelines_as_one_write (ms ch : Nat) (hch : 0 < ch) (ops₁ ops₂ : List (Op Char))
    (ss : List (List Char)) (hv : validS File.empty (ops₁ ++ .writelines ss :: ops₂) = true) :
    ((SStr.init ms ch).run (ops₁ ++ .writelines ss :: ops₂)).1 =
      ((SStr.init ms ch).run (ops₁ ++ .write ss.flatten :: ops₂)).1 ∧
    ((SStr.init ms ch).run (ops₁ ++ .writelines ss :: ops₂)).2.tell =
      ((SStr.init ms ch).run (ops₁ ++ .write ss.flatten :: ops₂)).2.tell ∧
    ((SStr.init ms ch).run (ops₁ ++ .writelines ss :: ops₂)).2.st.data =
      ((SStr.init ms ch).run (ops₁ ++ .write ss.flatten :: ops₂)).2.st.data := by
  have h1 := string_refines_StringIO ms ch hch _ hv
  have h2 := string_refines_StringIO ms ch hch _ (by rw [← validS_writelines]; exact hv)
  rw [h1.1, h1.2.1, h1.2.2, h2.1, h2.2.1, h2.2.2, Spec.run_writelines]
  exact ⟨rfl, rfl, rfl⟩

theorem string_writelines_as_writes (s : SStr) (ss : List (List Char)) :
    (s.step (.writelines ss)).2 = (s.run (ss.map .write)).2 :=
  SStr.writelines_as_writes s ss

/-! ## the code units of the model are real UTF-8 bytes -/

/-- the stream the model stores is, byte for byte (`cuByte`), the UTF-8 encoding of the text — the one of Lean
    core (`String.utf8EncodeChar`, proved there to invert its UTF-8 decoder), i.e. `String.toUTF8` -/
theorem utf8_stored_bytes (cs : List Char) :
    realBytes (encode cs) = cs.flatMap String.utf8EncodeChar ∧
    realBytes (encode cs) = (String.ofList cs).toUTF8.data.toList := by
  refine ⟨realBytes_encode cs, ?_⟩
  rw [realBytes_encode]; simp [List.utf8Encode]

/-- for every history in the domain the bytes SpooledStringIO holds are the UTF-8 of io.StringIO's text -/
theorem string_stored_bytes_are_utf8 (ms ch : Nat) (hch : 0 < ch) (ops : List (Op Char))
    (hv : validS File.empty ops = true) :
    realBytes ((SStr.init ms ch).run ops).2.st.data =
      (String.ofList (Spec.run textSem File.empty ops).2.data).toUTF8.data.toList := by
  rw [(string_refines_StringIO ms ch hch ops hv).2.2]
  exact (utf8_stored_bytes _).2

/-- the two tests the model's incremental decoder makes on a code unit `(c, i)` — "does a character start here"
    (`i = 0`) and "how many units has the character that starts here" (`width c`) — are functions of the real
    byte alone: lead / continuation byte, and the length class of the lead byte -/
theorem utf8_decoder_tests_on_real_bytes (c : Char) (i : Nat) (h : i < width c) :
    (isLead (cuByte (c, i)) = true ↔ i = 0) ∧ leadWidth (cuByte (c, 0)) = width c :=
  ⟨cuByte_isLead c i h, leadWidth_cuByte c⟩

/-- the incremental decoder run on the REAL bytes (`decodeR`: lead / continuation test and length class read off
    the bytes, one character decoded by Lean core's verified UTF-8 decoder) returns, on any prefix of the stored
    stream, what the model's abstract decoder returns on the units: the same whole characters, the real bytes of the
    same incomplete rest, the same flag.  So "UTF-8 is a prefix code whose incremental decoder returns the maximal
    run of whole characters" is a theorem about real UTF-8, not an assumption about the abstraction. -/
theorem utf8_real_decoder_agrees (m : Nat) (cs : List Char) :
    decodeR (realBytes ((encode cs).take m)) =
      ((decode ((encode cs).take m)).1, realBytes (decode ((encode cs).take m)).2.1,
       (decode ((encode cs).take m)).2.2) :=
  decodeR_take m cs

/-- and it inverts the encoding -/
theorem utf8_real_decoder_inverts (cs : List Char) : decodeR (realBytes (encode cs)) = (cs, [], false) :=
  decodeR_encode cs

/-- a CR or LF byte anywhere in the stream is the character CR or LF (never part of another character) -/
theorem utf8_cr_lf_bytes (c : Char) (i : Nat) (h : i < width c) :
    (cuByte (c, i) = 10 ↔ c = '\n') ∧ (cuByte (c, i) = 13 ↔ c = '\r') :=
  ⟨cuByte_eq_lf c i h, cuByte_eq_cr c i h⟩

/-- `readlines()` (StreamRecoder: read all, re-encode, `bytes.splitlines`, decode each piece): cutting the stored
    BYTES at CR / LF / CRLF gives the encodings of the lines `splitL false` cuts from the text -/
theorem readlines_bytes_level (cs : List Char) :
    splitB (realBytes (encode cs)) = (splitL false cs).map (fun l => realBytes (encode l)) :=
  splitB_realBytes cs

/-- so, after any history in the domain, what `readlines()` returns is — encoded — the `bytes.splitlines` of the
    bytes after the position -/
theorem string_readlines_is_bytes_splitlines (ms ch : Nat) (hch : 0 < ch) (ops : List (Op Char))
    (hv : validS File.empty ops = true) :
    (((SStr.init ms ch).run ops).2.readlines.1).map (fun l => realBytes (encode l)) =
      splitB (realBytes (encode (Spec.run textSem File.empty ops).2.rest)) := by
  have h := SStr.run_spec (SStr.init ms ch) File.empty ops (SRel_init ms ch hch) hv
  have hr := SStr.readlines_spec _ _ h.2.1
  rw [hr.1, h.2.2.1, splitB_realBytes]; rfl

/-! ## MultiFileReader -/

variable {α : Type}

/-- any history of sized / unsized reads and `seek(0)` returns what ONE file holding the concatenation returns -/
theorem mfr_concat (cs : List (List α)) (ops : List MOp) :
    ((MFR.init cs).run ops).1 = (MFR.specRun ⟨cs.flatten, 0⟩ ops).1 :=
  (MFR.run_spec (MFR.init cs) ⟨cs.flatten, 0⟩ ops (MRel_init cs)).1

/-- without `seek(0)`: what the reads returned, followed by what is still unread, is the concatenation —
    every unit exactly once, in order -/
theorem mfr_each_unit_once (cs : List (List α)) (ops : List MOp) (hr : ∀ op ∈ ops, op.isRead = true) :
    (((MFR.init cs).run ops).1.filterMap id).flatten ++ ((MFR.init cs).run ops).2.rem = cs.flatten := by
  have h := MFR.run_spec (MFR.init cs) ⟨cs.flatten, 0⟩ ops (MRel_init cs)
  rw [h.1, ← h.2.2.1, MFR.specRun_reads _ ops hr]
  simp [File.rest]

/-- an unsized read after any reads returns all the rest: nothing is left -/
theorem mfr_read_all_drains (cs : List (List α)) (ops : List MOp) :
    ((MFR.init cs).run (ops ++ [.readAll])).2.rem = [] := by
  have h := MFR.run_spec (MFR.init cs) ⟨cs.flatten, 0⟩ (ops ++ [.readAll]) (MRel_init cs)
  rw [← h.2.2.1, MFR.specRun_append]
  simp [MFR.specRun, MFR.specStep, File.readAll_rest]

/-- after any history, `seek(0)` then `read()` returns the whole concatenation again -/
theorem mfr_seek0_restarts (cs : List (List α)) (ops : List MOp) :
    ((MFR.init cs).run (ops ++ [.seek0, .readAll])).1 = ((MFR.init cs).run ops).1 ++ [none, some cs.flatten] := by
  rw [mfr_concat, mfr_concat, MFR.specRun_append]
  simp only [MFR.specRun, MFR.specStep, File.readAll_fst]
  rw [File.rest_seek0, MFR.specRun_data]

/-! ## round 5: calls that are REJECTED (raise before storing anything) inside a history -/

/-- SpooledBytesIO: in a history with rejected calls (`write('text')`, `write(None)`, `seek(0, 7)`, `truncate(-1)`,
    `read('a')` … - they raise and leave the object alone) the accepted calls return, and leave behind, exactly what
    the history WITHOUT the rejected calls does; a rejected call returns nothing -/
theorem rejected_calls_invisible_bytes (m : Nat) (cs : List (Call Byte)) :
    acceptedOuts cs ((SBytes.init m).runCalls cs).1 = ((SBytes.init m).run (accepted cs)).1 ∧
    ((SBytes.init m).runCalls cs).2 = ((SBytes.init m).run (accepted cs)).2 ∧
    (∀ o ∈ rejectedOuts cs ((SBytes.init m).runCalls cs).1, o = Out.unit) := by
  have h := runCalls_spec SBytes.step (SBytes.init m) cs
  rw [SBytes.run_eq_runOps]
  exact ⟨h.1, h.2.1, h.2.2.1⟩

/-- the same for SpooledStringIO (a rejected call there is also the write of a str that UTF-8 cannot encode) -/
theorem rejected_calls_invisible_string (ms ch : Nat) (cs : List (Call Char)) :
    acceptedOuts cs ((SStr.init ms ch).runCalls cs).1 = ((SStr.init ms ch).run (accepted cs)).1 ∧
    ((SStr.init ms ch).runCalls cs).2 = ((SStr.init ms ch).run (accepted cs)).2 ∧
    (∀ o ∈ rejectedOuts cs ((SStr.init ms ch).runCalls cs).1, o = Out.unit) := by
  have h := runCalls_spec SStr.step (SStr.init ms ch) cs
  rw [SStr.run_eq_runOps]
  exact ⟨h.1, h.2.1, h.2.2.1⟩

/-- hence: what the accepted calls return, and the content and position at the end, are those of an io.BytesIO that
    SKIPPED the rejected calls - whatever `max_size` -/
theorem bytes_refines_BytesIO_with_rejected_calls (m : Nat) (cs : List (Call Byte))
    (hv : validB File.empty (accepted cs) = true) :
    acceptedOuts cs ((SBytes.init m).runCalls cs).1 = (Spec.run bytesSem File.empty (accepted cs)).1 ∧
    ((SBytes.init m).runCalls cs).2.buf = (Spec.run bytesSem File.empty (accepted cs)).2 := by
  have h := rejected_calls_invisible_bytes m cs
  have r := bytes_refines_BytesIO m (accepted cs) hv
  exact ⟨by rw [h.1, r.1], by rw [h.2.1, r.2]⟩

/-- … and of an io.StringIO(newline='') that skipped them: same answers, `tell()` = its code-point position (a failed
    write does not advance it), stored bytes = the encoding of its text -/
theorem string_refines_StringIO_with_rejected_calls (ms ch : Nat) (hch : 0 < ch) (cs : List (Call Char))
    (hv : validS File.empty (accepted cs) = true) :
    acceptedOuts cs ((SStr.init ms ch).runCalls cs).1 = (Spec.run textSem File.empty (accepted cs)).1 ∧
    ((SStr.init ms ch).runCalls cs).2.tell = (Spec.run textSem File.empty (accepted cs)).2.pos ∧
    ((SStr.init ms ch).runCalls cs).2.st.data = encode (Spec.run textSem File.empty (accepted cs)).2.data := by
  have h := rejected_calls_invisible_string ms ch cs
  have r := string_refines_StringIO ms ch hch (accepted cs) hv
  exact ⟨by rw [h.1, r.1], by rw [h.2.1, r.2.1], by rw [h.2.1, r.2.2]⟩

/-- which write is rejected is the model's own decision: a text that arrives as bytes is written only if the model's
    real-bytes UTF-8 decoder takes all of it - the three bytes a lone surrogate would have (U+D800 `ED A0 80`, U+DC00
    `ED B0 80`, U+DFFF `ED BF BF`) are refused wherever they stand, a well-formed text is a write -/
theorem lone_surrogate_write_is_rejected :
    (rawWrite [0x62, 0x61, 0x64, 0xED, 0xA0, 0x80]).isNone = true ∧ (rawWrite [0xED, 0xB0, 0x80]).isNone = true ∧
    (rawWrite [0xC3, 0xA9, 0xED, 0xBF, 0xBF, 0xF0, 0x9F, 0x98, 0x80]).isNone = true ∧
    (rawWrite [0x62, 0xC3, 0xA9, 0xF0, 0x9F, 0x98, 0x80]).isSome = true ∧
    textOfBytes? [0x62, 0xC3, 0xA9, 0xF0, 0x9F, 0x98, 0x80] = some ['b', 'é', Char.ofNat 0x1F600] := by
  decide +kernel

/-- `writelines` with a piece that is refused: the pieces before it are written, the rest is not -/
theorem writelines_stops_at_refused_piece :
    (rawWritelines (α := Char) .writelines [some ['o', 'k'], textOfBytes? [0x62, 0xED, 0xA0, 0x80], some ['n', 'o']]).isSome
      = true ∧
    goodPrefix [some ['o', 'k'], textOfBytes? [0x62, 0xED, 0xA0, 0x80], some ['n', 'o']] = [['o', 'k']] ∧
    (rawWritelines (α := Char) .writelines [textOfBytes? [0xED, 0xA0, 0x80], some ['n', 'o']]).isNone = true := by
  decide +kernel

/-! ## round 5: MultiFileReader over members that are NOT at offset 0 when they are handed over -/

/-- first pass (reads only): the reader delivers what each member still had to deliver, in order - the concatenation
    of the members' UNREAD parts, each unit exactly once -/
theorem mfr_offset_first_pass (fs : List (File α)) (ops : List MOp) (hr : ∀ op ∈ ops, op.isRead = true) :
    ((MFR.initAt fs).run ops).1 = (MFR.specRun ⟨(fs.map File.rest).flatten, 0⟩ ops).1 ∧
    (((MFR.initAt fs).run ops).1.filterMap id).flatten ++ ((MFR.initAt fs).run ops).2.rem
      = (fs.map File.rest).flatten := by
  have h := MFR.run_reads_specR (MFR.initAt fs) ⟨(fs.map File.rest).flatten, 0⟩ ops hr (MRelR_initAt fs)
  refine ⟨h.1, ?_⟩
  rw [h.1, ← h.2.1.1, MFR.specRun_reads _ ops hr]
  simp [File.rest]

/-- `seek(0)` rewinds EVERY member, wherever each one stood and however far the reads got: from then on the reader
    is one file holding the concatenation of the members' WHOLE contents (any mix of reads and further `seek(0)`) -/
theorem mfr_offset_seek0_restarts (fs : List (File α)) (ops₁ ops₂ : List MOp) :
    ((MFR.initAt fs).run (ops₁ ++ .seek0 :: ops₂)).1 =
      ((MFR.initAt fs).run ops₁).1 ++ none :: (MFR.specRun ⟨(fs.map File.data).flatten, 0⟩ ops₂).1 := by
  have hc := MFR.run_inv_contents (MFR.initAt fs) ops₁ (MFR.initAt_inv fs)
  rw [MFR.run_append]
  simp only [MFR.run, MFR.step]
  rw [MFR.seek0_eq_init, hc.2, mfr_concat]
  rfl

/-! ## non-vacuity: concrete histories inside the hypotheses -/

/-- a history with a rollover (by max_size 4, or explicit), multi-byte text, a read that stops inside a
    character's bytes, a code-point seek, `len` and iteration — it satisfies `validS` -/
def demoS : List (Op Char) :=
  [.write ['a', 'é', 'é', '\n'], .seek 0, .read 2, .len, .readline, .seekEnd 0, .write ['日', '\r', '\n', 'x'],
   .seek 3, .next, .rollover, .list, .getvalue, .tell]

example : validS File.empty demoS = true := by decide +kernel
example : ((SStr.init 4 2).run demoS).1 = (Spec.run textSem File.empty demoS).1 := by decide +kernel
example : ((SStr.init 4 2).run (demoS.take 9)).2.rolled = true ∧
    ((SStr.init 1000 2).run (demoS.take 9)).2.rolled = false := by
  decide +kernel
/-- the codec reader really holds state in this history: after `read(2)` on "aéé\n" the first code unit of the
    third character sits in the byte buffer, so the stream (offset 4) is ahead of the logical position (3 bytes);
    after `read(2)` on "éab" the decoded 'b' waits in the character buffer -/
example : ((SStr.init 1000 2).run (demoS.take 3)).2.rd.bytebuf = [('é', 0)] ∧
    ((SStr.init 1000 2).run (demoS.take 3)).2.st.pos = 4 ∧ ((SStr.init 1000 2).run (demoS.take 3)).2.tell = 2 := by
  decide +kernel
example : ((SStr.init 1000 2).run [.write ['é', 'a', 'b'], .seek 0, .read 2]).2.rd.charbuf = ['b'] := by
  decide +kernel

/-- a text WITH a form feed, a NEL and a line separator, cut by every line operation (readline, next, iteration,
    readlines) — inside `validS`, and the model returns what io.StringIO returns (before the repair it did not) -/
def demoT : List (Op Char) :=
  [.write ['a', Char.ofNat 0x0c, 'b', '\n', 'c', '\r', '\n', Char.ofNat 0x85, Char.ofNat 0x2028, 'd'], .seek 0,
   .readline, .next, .tell, .next, .next, .seek 0, .read 1, .readline, .seek 1, .drain, .seek 0, .list, .seek 0,
   .readlines, .getvalue]
example : validS File.empty demoT = true := by decide +kernel
example : ((SStr.init 4 2).run demoT).1 = (Spec.run textSem File.empty demoT).1 := by decide +kernel
example : ((SStr.init 4 2).run (demoT.take 2 ++ [.drain])).1 = ((SStr.init 4 2).run (demoT.take 2 ++ [.readlines])).1 := by
  decide +kernel
example : ((SStr.init 4 2).run (demoT.take 3)).1.getLast? = some (.data ['a', Char.ofNat 0x0c, 'b', '\n']) := by
  decide +kernel

/-- LF and CRLF line ends, multi-byte text, a seek into the middle of a CRLF: inside `lfOnly` -/
def demoLF : List (Op Char) :=
  [.write ['a', 'é', '\r', '\n', '日', '\n', '\n', 'x'], .seek 0, .readline, .next, .seek 3, .readline, .readlines,
   .seek 1, .list, .seek 2, .drain, .getvalue]
example : validS File.empty demoLF = true ∧ lfOnly File.empty demoLF = true := by decide +kernel
example : ((SStr.init 4 2).run demoLF).1 = (Spec.run lfSem File.empty demoLF).1 := by decide +kernel

def demoB : List (Op Byte) :=
  [.write [97, 10, 98], .seek 1, .readline, .write [99, 10], .seekEnd 2, .next, .len, .seek 0, .list, .tell]
example : validB File.empty demoB = true := by decide +kernel
example : ((SBytes.init 2).run demoB).2.rolled = true ∧ ((SBytes.init 99).run demoB).2.rolled = false := by
  decide +kernel

/-- writelines with an empty batch, empty pieces and a rollover in the middle of the batch (max_size 3) -/
def demoW : List (Op Byte) :=
  [.writelines [], .writelines [[97], [], [98, 10], [99]], .seek 1, .readline, .seekEnd 0, .writelines [[100]], .getvalue]
example : validB File.empty demoW = true := by decide +kernel
example : ((SBytes.init 3).run (demoW.take 2)).2.rolled = true ∧
    (((SBytes.init 3).step (.writelines [[97], []])).2.rolled = false) := by decide +kernel
def demoWS : List (Op Char) :=
  [.writelines [['a'], [], ['é', '\n'], ['日']], .seek 1, .readline, .seekEnd 0, .writelines [['x']], .getvalue]
example : validS File.empty demoWS = true := by decide +kernel
example : ((SStr.init 4 2).run demoWS).1 = (Spec.run textSem File.empty demoWS).1 := by decide +kernel

/-- real bytes: 'é' = C3 A9, '日' = E6 97 A5, '😀' = F0 9F 98 80; NEL (U+0085 = C2 85) holds no CR / LF byte -/
example : realBytes (encode ['a', 'é', '日', Char.ofNat 0x1F600]) =
    [0x61, 0xC3, 0xA9, 0xE6, 0x97, 0xA5, 0xF0, 0x9F, 0x98, 0x80] := by decide +kernel
/-- the real-bytes decoder stops inside '日' (E6 97 | A5) and keeps the two bytes; a stray continuation byte is an error -/
example : decodeR [0x61, 0xC3, 0xA9, 0xE6, 0x97] = (['a', 'é'], [0xE6, 0x97], false) ∧
    (decodeR [0xA9, 0x61]).2.2 = true := by decide +kernel
example : (isLead 0xC3, isLead 0xA9, leadWidth 0xC3, leadWidth 0xE6, leadWidth 0xF0) = (true, false, 2, 3, 4) := by
  decide +kernel
example : splitB (realBytes (encode ['é', '\r', '\n', Char.ofNat 0x85, '\r', 'b'])) =
    [[0xC3, 0xA9, 13, 10], [0xC2, 0x85, 13], [0x62]] := by decide +kernel

example : ((MFR.init [[1, 2], [], [3, 4, 5]] : MFR Nat).run [.read 3, .read 1, .seek0, .read 4, .readAll]).1
    = [some [1, 2, 3], some [4], none, some [1, 2, 3, 4], some [5]] := by decide +kernel

/-- round 5: a history with rejected calls (a write of the wrong type / of a lone surrogate between two writes, a bad
    whence after a read): inside the hypothesis, the rejected calls are really there, and the second write lands where
    the first one ended -/
def demoX : List (Call Char) :=
  [some (.write ['h', 'é']), rawWrite [0x62, 0xED, 0xA0, 0x80], none, some .tell, some (.write ['\n', 'x']), some (.seek 1),
   some (.read 1), none, some .readAll, some .getvalue]
example : validS File.empty (accepted demoX) = true ∧ demoX.length = (accepted demoX).length + 3 := by decide +kernel
example : ((SStr.init 3 2).runCalls demoX).1 =
    [.unit, .unit, .unit, .num 2, .unit, .num 1, .data ['é'], .unit, .data ['\n', 'x'], .data ['h', 'é', '\n', 'x']] := by
  decide +kernel

/-- round 5: members handed over just written (at the end), with a header consumed, and at 0 -/
example : ((MFR.initAt [⟨[1, 2], 2⟩, ⟨[3, 4, 5], 1⟩, ⟨[6], 0⟩] : MFR Nat).run
      [.read 1, .readAll, .seek0, .read 4, .readAll]).1
    = [some [4], some [5, 6], none, some [1, 2, 3, 4], some [5, 6]] := by decide +kernel

end C18
