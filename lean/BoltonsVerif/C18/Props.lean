import BoltonsVerif.C18.Proofs
/-
C18 — property theorems (statements, short derivations from the lemma files, non-vacuity examples).

Models (Model.lean): `SBytes` = SpooledBytesIO, `SStr` = SpooledStringIO on the transliterated
`codecs.StreamReader`, `MFR` = MultiFileReader, `File` = io.BytesIO / TemporaryFile, `Spec.run sem` = the
same history on a plain file (io.BytesIO for `bytesSem`, io.StringIO(newline='') for `textSem`).
A history is a `List Op`; `validB` / `validS` are the statement's own domain (appending writes of text,
seek targets inside the data), evaluated along the reference run.
-/
namespace C18

/-! ## SpooledBytesIO -/

/-- outputs, final content and final position do not depend on `max_size` (rolled over or not) — every history -/
theorem rollover_invisible_bytes (ops : List (Op Byte)) (m₁ m₂ : Nat) :
    ((SBytes.init m₁).run ops).1 = ((SBytes.init m₂).run ops).1 ∧
    ((SBytes.init m₁).run ops).2.buf = ((SBytes.init m₂).run ops).2.buf := by
  have h1 := SBytes.run_eq (SBytes.init m₁) ops
  have h2 := SBytes.run_eq (SBytes.init m₂) ops
  exact ⟨by rw [h1.1, h2.1]; rfl, by rw [h1.2, h2.2]; rfl⟩

/-- SpooledBytesIO returns what io.BytesIO returns and ends with the same content and position -/
theorem bytes_refines_BytesIO (m : Nat) (ops : List (Op Byte)) (hv : validB File.empty ops = true) :
    ((SBytes.init m).run ops).1 = (Spec.run bytesSem File.empty ops).1 ∧
    ((SBytes.init m).run ops).2.buf = (Spec.run bytesSem File.empty ops).2 := by
  have h1 := SBytes.run_eq (SBytes.init m) ops
  have h2 := bRun_spec File.empty ops (by simp [InRange, File.empty]) hv
  exact ⟨by rw [h1.1]; show (bRun File.empty ops).1 = _; rw [h2], by rw [h1.2]; show (bRun File.empty ops).2 = _; rw [h2]⟩

/-- `tell`, `getvalue`, `len` report position, content, length and leave both untouched — in every state -/
theorem bytes_queries_do_not_move (s : SBytes) :
    (s.step .tell) = (.num s.buf.pos, s) ∧
    (s.step .getvalue).1 = .data s.buf.data ∧ (s.step .getvalue).2.buf = s.buf ∧
    (s.step .len).1 = .num s.buf.data.length ∧ (s.step .len).2.buf = s.buf := by
  have hg := SBytes.getvalue_eq s
  have hl := SBytes.len_eq s
  exact ⟨rfl, by simp [SBytes.step, hg.1], hg.2, by simp [SBytes.step, hl.1], hl.2⟩

/-- removing a query from a history changes no other output and not the final state -/
theorem bytes_queries_invisible (m : Nat) (ops₁ ops₂ : List (Op Byte)) (q : Op Byte) (hq : isQuery q = true)
    (hv : validB File.empty (ops₁ ++ ops₂) = true) :
    ((SBytes.init m).run (ops₁ ++ q :: ops₂)).1.eraseIdx ops₁.length = ((SBytes.init m).run (ops₁ ++ ops₂)).1 ∧
    ((SBytes.init m).run (ops₁ ++ q :: ops₂)).2.buf = ((SBytes.init m).run (ops₁ ++ ops₂)).2.buf := by
  have h1 := bytes_refines_BytesIO m _ (validB_insert_query File.empty ops₁ ops₂ q hq hv)
  have h2 := bytes_refines_BytesIO m _ hv
  have h3 := Spec.query_invisible bytesSem File.empty ops₁ ops₂ q hq
  exact ⟨by rw [h1.1, h2.1]; exact h3.1, by rw [h1.2, h2.2]; exact h3.2⟩

/-! ## SpooledStringIO -/

/-- the constant the source uses keeps the side condition of the theorems below -/
theorem real_chunk_size_pos : 0 < C18.Generated.READ_CHUNK_SIZE := by decide

/-- SpooledStringIO (over the codec reader with its byte / character / line buffers) returns, for every history
    in the statement's domain and every `max_size` and READ_CHUNK_SIZE > 0, what a plain text file returns whose
    `readline` / iteration cut at `str.splitlines` boundaries (`codecSem`); positions count code points and the
    stored bytes are the encoding of the text -/
theorem string_refines_codec_reference (ms ch : Nat) (hch : 0 < ch) (ops : List (Op Char))
    (hv : validS File.empty ops = true) :
    ((SStr.init ms ch).run ops).1 = (Spec.run codecSem File.empty ops).1 ∧
    ((SStr.init ms ch).run ops).2.tell = (Spec.run codecSem File.empty ops).2.pos ∧
    ((SStr.init ms ch).run ops).2.st.data = encode (Spec.run codecSem File.empty ops).2.data := by
  have h := SStr.run_spec (SStr.init ms ch) File.empty ops (SRel_init ms ch hch) hv
  exact ⟨h.1, h.2.2.1, h.2.1.data⟩

/-- the same, for the chunk size the source actually uses (regenerated from boltons/ioutils.py on every run) -/
theorem string_refines_codec_reference_real (ms : Nat) (ops : List (Op Char))
    (hv : validS File.empty ops = true) :
    ((SStr.init ms C18.Generated.READ_CHUNK_SIZE).run ops).1 = (Spec.run codecSem File.empty ops).1 ∧
    ((SStr.init ms C18.Generated.READ_CHUNK_SIZE).run ops).2.tell = (Spec.run codecSem File.empty ops).2.pos :=
  ⟨(string_refines_codec_reference ms _ real_chunk_size_pos ops hv).1,
   (string_refines_codec_reference ms _ real_chunk_size_pos ops hv).2.1⟩

/-- outputs, final position and final content do not depend on `max_size` (nor on the read chunk size) -/
theorem rollover_invisible_string (ops : List (Op Char)) (hv : validS File.empty ops = true)
    (ms₁ ms₂ ch₁ ch₂ : Nat) (h₁ : 0 < ch₁) (h₂ : 0 < ch₂) :
    ((SStr.init ms₁ ch₁).run ops).1 = ((SStr.init ms₂ ch₂).run ops).1 ∧
    ((SStr.init ms₁ ch₁).run ops).2.tell = ((SStr.init ms₂ ch₂).run ops).2.tell ∧
    ((SStr.init ms₁ ch₁).run ops).2.st.data = ((SStr.init ms₂ ch₂).run ops).2.st.data := by
  have a := string_refines_codec_reference ms₁ ch₁ h₁ ops hv
  have b := string_refines_codec_reference ms₂ ch₂ h₂ ops hv
  exact ⟨by rw [a.1, b.1], by rw [a.2.1, b.2.1], by rw [a.2.2, b.2.2]⟩

/- FULL statement: for every history in the domain, SpooledStringIO = io.StringIO(newline='').
   It is FALSE on texts holding VT, FF, FS, GS, RS, NEL, LS or PS (see `string_readline_exotic_false`);
   proved for histories whose line-cutting operations (readline, next, iteration) meet no such character. -/
/-- SpooledStringIO returns what io.StringIO(newline='') returns, positions counting code points -/
theorem string_refines_StringIO_partial (ms ch : Nat) (hch : 0 < ch) (ops : List (Op Char))
    (hv : validS File.empty ops = true) (hp : plainS File.empty ops = true) :
    ((SStr.init ms ch).run ops).1 = (Spec.run textSem File.empty ops).1 ∧
    ((SStr.init ms ch).run ops).2.tell = (Spec.run textSem File.empty ops).2.pos ∧
    ((SStr.init ms ch).run ops).2.st.data = encode (Spec.run textSem File.empty ops).2.data := by
  rw [← Spec.run_plain File.empty ops hp]
  exact string_refines_codec_reference ms ch hch ops hv

/-- the unrestricted statement fails: after `write('a\x0cb\n'); seek(0)`, `readline()` stops at the form feed -/
theorem string_readline_exotic_false :
    ∃ (ops : List (Op Char)), validS File.empty ops = true ∧
      ((SStr.init 100 3).run ops).1 ≠ (Spec.run textSem File.empty ops).1 :=
  ⟨[.write ['a', Char.ofNat 0x0c, 'b', '\n'], .seek 0, .readline], by decide +kernel, by decide +kernel⟩

/-- `tell()` is the number of code points before the logical position; the raw stream position is that many
    characters' bytes plus the codec's decoded read-ahead plus its undecoded partial character -/
theorem tell_is_codepoint_index (ms ch : Nat) (hch : 0 < ch) (ops : List (Op Char))
    (hv : validS File.empty ops = true) :
    ((SStr.init ms ch).run ops).2.tell ≤ (Spec.run codecSem File.empty ops).2.data.length ∧
    ((SStr.init ms ch).run ops).2.st.pos =
      blen ((Spec.run codecSem File.empty ops).2.data.take ((SStr.init ms ch).run ops).2.tell)
      + blen (pend ((SStr.init ms ch).run ops).2.rd) + ((SStr.init ms ch).run ops).2.rd.bytebuf.length := by
  have h := SStr.run_spec (SStr.init ms ch) File.empty ops (SRel_init ms ch hch) hv
  exact ⟨h.2.1.ale, Coh_stream_pos _ _ h.2.1⟩

/-- `tell`, `getvalue`, `len` inserted anywhere change no other output, nor the final position and content -/
theorem string_queries_do_not_move (ms ch : Nat) (hch : 0 < ch) (ops₁ ops₂ : List (Op Char)) (q : Op Char)
    (hq : isQuery q = true) (hv : validS File.empty (ops₁ ++ ops₂) = true) :
    ((SStr.init ms ch).run (ops₁ ++ q :: ops₂)).1.eraseIdx ops₁.length = ((SStr.init ms ch).run (ops₁ ++ ops₂)).1 ∧
    ((SStr.init ms ch).run (ops₁ ++ q :: ops₂)).2.tell = ((SStr.init ms ch).run (ops₁ ++ ops₂)).2.tell ∧
    ((SStr.init ms ch).run (ops₁ ++ q :: ops₂)).2.st.data = ((SStr.init ms ch).run (ops₁ ++ ops₂)).2.st.data := by
  have h1 := string_refines_codec_reference ms ch hch _ (validS_insert_query File.empty ops₁ ops₂ q hq hv)
  have h2 := string_refines_codec_reference ms ch hch _ hv
  have h3 := Spec.query_invisible codecSem File.empty ops₁ ops₂ q hq
  exact ⟨by rw [h1.1, h2.1]; exact h3.1, by rw [h1.2.1, h2.2.1, h3.2], by rw [h1.2.2, h2.2.2, h3.2]⟩

/-! ## MultiFileReader -/

variable {α : Type}

/-- any history of sized / unsized reads and `seek(0)` returns what ONE file holding the concatenation returns -/
theorem mfr_concat (cs : List (List α)) (ops : List MOp) :
    ((MFR.init cs).run ops).1 = (MFR.specRun ⟨cs.flatten, 0⟩ ops).1 :=
  (MFR.run_spec (MFR.init cs) ⟨cs.flatten, 0⟩ ops (MRel_init cs)).1

/-- without `seek(0)`: what the reads returned, followed by what is still unread, is the concatenation —
    every unit exactly once, in order -/
theorem mfr_each_unit_once (cs : List (List α)) (ops : List MOp) (hr : ∀ op ∈ ops, op.isRead = true) :
    (((MFR.init cs).run ops).1.filterMap id).flatten ++ ((MFR.init cs).run ops).2.rem = cs.flatten := by
  have h := MFR.run_spec (MFR.init cs) ⟨cs.flatten, 0⟩ ops (MRel_init cs)
  rw [h.1, ← h.2.2.1, MFR.specRun_reads _ ops hr]
  simp [File.rest]

/-- an unsized read after any reads returns all the rest: nothing is left -/
theorem mfr_read_all_drains (cs : List (List α)) (ops : List MOp) :
    ((MFR.init cs).run (ops ++ [.readAll])).2.rem = [] := by
  have h := MFR.run_spec (MFR.init cs) ⟨cs.flatten, 0⟩ (ops ++ [.readAll]) (MRel_init cs)
  rw [← h.2.2.1, MFR.specRun_append]
  simp [MFR.specRun, MFR.specStep, File.readAll_rest]

/-- after any history, `seek(0)` then `read()` returns the whole concatenation again -/
theorem mfr_seek0_restarts (cs : List (List α)) (ops : List MOp) :
    ((MFR.init cs).run (ops ++ [.seek0, .readAll])).1 = ((MFR.init cs).run ops).1 ++ [none, some cs.flatten] := by
  rw [mfr_concat, mfr_concat, MFR.specRun_append]
  simp only [MFR.specRun, MFR.specStep, File.readAll_fst]
  rw [File.rest_seek0, MFR.specRun_data]

/-! ## non-vacuity: concrete histories inside the hypotheses -/

/-- a history with a rollover (by max_size 4, or explicit), multi-byte text, a read that stops inside a
    character's bytes, a code-point seek, `len` and iteration — it satisfies `validS` and `plainS` -/
def demoS : List (Op Char) :=
  [.write ['a', 'é', 'é', '\n'], .seek 0, .read 2, .len, .readline, .seekEnd 0, .write ['日', '\r', '\n', 'x'],
   .seek 3, .next, .rollover, .list, .getvalue, .tell]

example : validS File.empty demoS = true ∧ plainS File.empty demoS = true := by decide +kernel
example : ((SStr.init 4 2).run demoS).1 = (Spec.run textSem File.empty demoS).1 := by decide +kernel
example : ((SStr.init 4 2).run (demoS.take 9)).2.rolled = true ∧
    ((SStr.init 1000 2).run (demoS.take 9)).2.rolled = false := by
  decide +kernel
/-- the codec reader really holds state in this history: after `read(2)` on "aéé\n" the first code unit of the
    third character sits in the byte buffer, so the stream (offset 4) is ahead of the logical position (3 bytes);
    after `read(2)` on "éab" the decoded 'b' waits in the character buffer -/
example : ((SStr.init 1000 2).run (demoS.take 3)).2.rd.bytebuf = [('é', 0)] ∧
    ((SStr.init 1000 2).run (demoS.take 3)).2.st.pos = 4 ∧ ((SStr.init 1000 2).run (demoS.take 3)).2.tell = 2 := by
  decide +kernel
example : ((SStr.init 1000 2).run [.write ['é', 'a', 'b'], .seek 0, .read 2]).2.rd.charbuf = ['b'] := by
  decide +kernel

def demoB : List (Op Byte) :=
  [.write [97, 10, 98], .seek 1, .readline, .write [99, 10], .seekEnd 2, .next, .len, .seek 0, .list, .tell]
example : validB File.empty demoB = true := by decide +kernel
example : ((SBytes.init 2).run demoB).2.rolled = true ∧ ((SBytes.init 99).run demoB).2.rolled = false := by
  decide +kernel

example : ((MFR.init [[1, 2], [], [3, 4, 5]] : MFR Nat).run [.read 3, .read 1, .seek0, .read 4, .readAll]).1
    = [some [1, 2, 3], some [4], none, some [1, 2, 3, 4], some [5]] := by decide +kernel

end C18
