import BoltonsVerif.C18.Proofs
namespace C18
theorem placeholder_chunk_pos : 0 < C18.Generated.READ_CHUNK_SIZE := by decide
end C18
