import BoltonsVerif.C18.Model
namespace C18

/-! C18 — `splitlines` (`splitL`) and the first line (`firstLine`): pure list lemmas. -/

theorem splitL_flatten (u : Bool) (l : List Char) : (splitL u l).flatten = l := by
  fun_induction splitL u l <;> simp_all

theorem firstLine_eq_nil (u : Bool) (l : List Char) : firstLine u l = [] ↔ l = [] := by
  cases l with
  | nil => simp [firstLine]
  | cons c cs =>
    simp only [firstLine]
    split
    · split <;> (try split) <;> simp
    · split <;> simp

theorem splitL_ne_nil (u : Bool) (l : List Char) (h : l ≠ []) : splitL u l ≠ [] := by
  intro hs
  have := splitL_flatten u l
  rw [hs] at this
  exact h this.symm

/-- `splitlines` = first line, then `splitlines` of the rest -/
theorem splitL_head (u : Bool) (l : List Char) (h : l ≠ []) :
    splitL u l = firstLine u l :: splitL u (l.drop (firstLine u l).length) := by
  fun_induction splitL u l with
  | case1 => exact absurd rfl h
  | case2 cs' ih => simp [firstLine]
  | case3 d cs' hd ih => simp [firstLine, hd]
  | case4 => simp [firstLine, splitL]
  | case5 c cs hc hb ih => simp [firstLine, hc, hb]
  | case6 c cs hc hb hs ih =>
    have hcs : cs = [] := by
      apply Classical.byContradiction
      intro hne; exact splitL_ne_nil u cs hne hs
    subst hcs
    simp [firstLine, hc, hb, splitL]
  | case7 c cs hc hb l' ls hs ih =>
    have hne : cs ≠ [] := by intro h0; subst h0; simp [splitL] at hs
    have := ih hne
    rw [hs] at this
    simp only [firstLine, hc, hb]
    simp only [List.cons.injEq] at this
    simp [this.1, this.2]


theorem splitL_cr_lf (u : Bool) (cs : List Char) : splitL u ('\r' :: '\n' :: cs) = ['\r', '\n'] :: splitL u cs := by
  simp [splitL]
theorem splitL_cr_other (u : Bool) (d : Char) (cs : List Char) (hd : d ≠ '\n') :
    splitL u ('\r' :: d :: cs) = ['\r'] :: splitL u (d :: cs) := by
  rw [splitL]; simp [hd]
theorem splitL_cr_end (u : Bool) : splitL u ['\r'] = [['\r']] := by simp [splitL]
theorem splitL_brk (u : Bool) (c : Char) (cs : List Char) (hc : c ≠ '\r') (hb : isBrk u c = true) :
    splitL u (c :: cs) = [c] :: splitL u cs := by
  rw [splitL.eq_def]; simp [hc, hb]
theorem splitL_other_nil (u : Bool) (c : Char) (cs : List Char) (hc : c ≠ '\r') (hb : ¬ isBrk u c = true)
    (hs : splitL u cs = []) : splitL u (c :: cs) = [[c]] := by
  rw [splitL.eq_def]; simp [hc, hb, hs]
theorem splitL_other_cons (u : Bool) (c : Char) (cs l : List Char) (ls : List (List Char)) (hc : c ≠ '\r')
    (hb : ¬ isBrk u c = true) (hs : splitL u cs = l :: ls) : splitL u (c :: cs) = (c :: l) :: ls := by
  rw [splitL.eq_def]; simp [hc, hb, hs]

theorem splitL_cons_length (u : Bool) (c : Char) (cs : List Char) (hc : c ≠ '\r') (hb : ¬ isBrk u c = true)
    (hne : cs ≠ []) : (splitL u (c :: cs)).length = (splitL u cs).length := by
  cases hs : splitL u cs with
  | nil => exact absurd hs (splitL_ne_nil u cs hne)
  | cons l ls => rw [splitL_other_cons u c cs l ls hc hb hs]; simp

theorem splitL_length_pos (u : Bool) (l : List Char) (h : l ≠ []) : 1 ≤ (splitL u l).length := by
  cases hs : splitL u l with
  | nil => exact absurd hs (splitL_ne_nil u l h)
  | cons x y => simp

theorem splitL_eq_nil (u : Bool) (l : List Char) (h : splitL u l = []) : l = [] := by
  apply Classical.byContradiction
  intro hne; exact splitL_ne_nil u l hne h

/-- once a second line exists, the first line no longer depends on what follows -/
theorem firstLine_append_of_two (u : Bool) (W Y : List Char) (h : 2 ≤ (splitL u W).length) :
    firstLine u (W ++ Y) = firstLine u W := by
  fun_induction firstLine u W with
  | case1 => simp [splitL] at h
  | case2 cs' => simp [firstLine]
  | case3 d cs' hd => simp [firstLine, hd]
  | case4 => rw [splitL_cr_end] at h; simp at h
  | case5 c cs hc hb => simp [firstLine, hc, hb]
  | case6 c cs hc hb ih =>
    have hne : cs ≠ [] := by
      intro h0; subst h0
      rw [splitL_other_nil u c [] hc hb (by simp [splitL])] at h; simp at h
    rw [splitL_cons_length u c cs hc hb hne] at h
    simp [firstLine, hc, hb, ih h]

theorem endsWithBrk_cons (c : Char) (cs : List Char) (h : cs ≠ []) : endsWithBrk (c :: cs) = endsWithBrk cs := by
  cases cs with
  | nil => exact absurd rfl h
  | cons d ds => simp [endsWithBrk, List.getLast?_cons_cons]

theorem endsWithCR_cons (c : Char) (cs : List Char) (h : cs ≠ []) : endsWithCR (c :: cs) = endsWithCR cs := by
  cases cs with
  | nil => exact absurd rfl h
  | cons d ds => simp [endsWithCR, List.getLast?_cons_cons]

/-- a text that is one complete line stays the first line whatever follows, except that a final CR
    must not be followed by LF -/
theorem firstLine_single (l Y : List Char) (hs : splitL true l = [l]) (he : endsWithBrk l = true)
    (hcr : ¬ (endsWithCR l = true ∧ Y.head? = some '\n')) : firstLine true (l ++ Y) = l := by
  fun_induction firstLine true l with
  | case1 => simp [splitL] at hs
  | case2 cs' =>
    rw [splitL_cr_lf] at hs
    simp only [List.cons.injEq] at hs
    have h1 := hs.1
    simp only [List.cons.injEq, true_and] at h1
    subst h1
    simp [firstLine]
  | case3 d cs' hd =>
    rw [splitL_cr_other true d cs' hd] at hs
    simp only [List.cons.injEq] at hs
    exact absurd hs.2 (splitL_ne_nil true (d :: cs') (by simp))
  | case4 =>
    cases Y with
    | nil => simp [firstLine]
    | cons d ds =>
      by_cases hd : d = '\n'
      · exfalso; apply hcr; simp [endsWithCR, hd]
      · simp [firstLine, hd]
  | case5 c cs hc hb =>
    rw [splitL_brk true c cs hc hb] at hs
    simp only [List.cons.injEq] at hs
    have h1 := hs.1
    simp only [List.cons.injEq, true_and] at h1
    subst h1
    simp [firstLine, hc, hb]
  | case6 c cs hc hb ih =>
    by_cases hne : cs = []
    · subst hne
      simp [endsWithBrk, hc, hb] at he
    · cases hcs : splitL true cs with
      | nil => exact absurd hcs (splitL_ne_nil true cs hne)
      | cons l' ls =>
        rw [splitL_other_cons true c cs l' ls hc hb hcs] at hs
        simp only [List.cons.injEq] at hs
        rcases hs with ⟨h1, h2⟩
        simp only [List.cons.injEq, true_and] at h1
        subst h1; subst h2
        rw [endsWithBrk_cons c _ hne] at he
        rw [endsWithCR_cons c _ hne] at hcr
        simp [firstLine, hc, hb, ih hcs he hcr]

/-- in a text that `splitlines` leaves in one piece, a CR is last or is followed by a final LF -/
theorem single_cr (u : Bool) (l a b : List Char) (hs : (splitL u l).length ≤ 1) (hl : l = a ++ '\r' :: b) :
    b = [] ∨ b = ['\n'] := by
  induction a generalizing l with
  | nil =>
    subst hl
    cases b with
    | nil => left; rfl
    | cons d ds =>
      by_cases hd : d = '\n'
      · subst hd
        rw [List.nil_append, splitL_cr_lf] at hs
        have : splitL u ds = [] := by
          cases h : splitL u ds with
          | nil => rfl
          | cons x y => rw [h] at hs; simp at hs
        right; rw [splitL_eq_nil u ds this]
      · exfalso
        rw [List.nil_append, splitL_cr_other u d ds hd] at hs
        have := splitL_length_pos u (d :: ds) (by simp)
        simp only [List.length_cons] at hs; omega
  | cons c a' ih =>
    subst hl
    have hne : a' ++ '\r' :: b ≠ [] := by simp
    have hpos := splitL_length_pos u _ hne
    by_cases hc : c = '\r'
    · exfalso
      subst hc
      cases hrest : a' ++ '\r' :: b with
      | nil => exact hne hrest
      | cons d ds =>
        rw [List.cons_append, hrest] at hs
        by_cases hd : d = '\n'
        · subst hd
          rw [splitL_cr_lf] at hs
          have hds : ds ≠ [] := by
            cases a' with
            | nil => simp at hrest
            | cons x xs => simp at hrest; rw [← hrest.2]; simp
          have := splitL_length_pos u ds hds
          simp only [List.length_cons] at hs; omega
        · rw [splitL_cr_other u d ds hd] at hs
          have := splitL_length_pos u (d :: ds) (by simp)
          simp only [List.length_cons] at hs; omega
    · by_cases hb : isBrk u c = true
      · exfalso
        rw [List.cons_append, splitL_brk u c _ hc hb] at hs
        simp only [List.length_cons] at hs; omega
      · rw [List.cons_append, splitL_cons_length u c _ hc hb hne] at hs
        exact ih _ hs rfl

end C18
