import BoltonsVerif.PyRt
import BoltonsVerif.C18.Model
/-
PyRtC18 — runtime library of `harness/py2lean_c18.py`, the source translator for the file-like classes of
`boltons/ioutils.py` (round 3c; rules: notes/SRCTIE.md §2c).  Trusted like `PyRt.lean`; validated against CPython
(`io.BytesIO`, `tempfile.TemporaryFile`, the real boltons classes) by `py2lean_c18.selftest`.

1. The SPEC-DECLARED ABSTRACT FILE.  What the classes hold in `_buffer` / `_fileobjs` is an object of the standard
   library.  It is NOT translated; it is the abstract random-access file of the C18 hand model, `C18.File β`
   (`data`, `pos`), whose operations (`File.readN`, `File.readAll`, `File.seek`, `File.write`, `File.readline`) are
   used as they are — no second description of a file exists — wrapped into the Python-level calling convention
   (`FileObj`): integer arguments as Python passes them, the exception class Python raises on a closed file or on a
   bad argument, and three flags the hand model leaves implicit:
     `closed`  — `close()` was called (every later operation: ValueError);
     `real`    — a `tempfile.TemporaryFile` (`io.BufferedRandom`) rather than an `io.BytesIO`;
     `stale`   — (real files) data written since the last `seek`/`flush`/`truncate` may still sit in the userspace
                 buffer, so `os.fstat(fd).st_size` need not be the length of the data.  The hand model assumes
                 `st_size = data.length` outright (`SBytes.len`); here the assumption is made only for a file
                 that is not `stale`, and the tie theorem of `len` shows that the source asks only then.
   Arguments outside what is specified (a seek target before the start of a real file, an unknown `whence` on a
   real file, `fstat` on a stale file, `getvalue` of a real file) give `PyExc.Other`: "not specified".  The tie
   theorems show that the translated methods do not get there from the states they speak about.

2. STATEMENTS.  A Python statement list is a `Stmt σ ρ := σ → Flow ρ × σ` over the record `σ` of all Python
   variables of the method (`self` = the object state); `Flow` says how control leaves the statement.
-/
deriving instance DecidableEq for Except

namespace PyRtC18
open C18 (File)

/-! ## 1. the abstract file object -/

structure FileObj (β : Type) where
  f : File β
  closed : Bool := false
  real : Bool := false
  stale : Bool := false
deriving Repr, DecidableEq

/-- result of an operation on an object: the value or the exception class, and the object afterwards -/
abbrev Res (ρ σ : Type) := Except PyExc ρ × σ

namespace FileObj
variable {β : Type}

/-- `io.BytesIO()` -/
def newMem : FileObj β := ⟨File.empty, false, false, false⟩
/-- `tempfile.TemporaryFile(dir=…)` (mode `w+b`) -/
def newReal : FileObj β := ⟨File.empty, false, true, false⟩

instance : Inhabited (FileObj β) := ⟨newMem⟩

/-- the attribute `closed` -/
def isClosed (o : FileObj β) : Res Bool (FileObj β) := (.ok o.closed, o)

/-- `isinstance(o, BytesIO)` -/
def isMem (o : FileObj β) : Res Bool (FileObj β) := (.ok (!o.real), o)

/-- `o.read(n)`: `n ≥ 0` → `File.readN`; `-1` → `File.readAll`; below `-1`: BytesIO reads all, a real file raises -/
def read (o : FileObj β) (n : Int) : Res (List β) (FileObj β) :=
  if o.closed then (.error .ValueError, o)
  else if n < 0 then
    (if n < -1 ∧ o.real then (.error .ValueError, o) else (.ok o.f.readAll.1, { o with f := o.f.readAll.2 }))
  else (.ok (o.f.readN n.toNat).1, { o with f := (o.f.readN n.toNat).2 })

/-- `o.read()` -/
def readAll (o : FileObj β) : Res (List β) (FileObj β) := read o (-1)

/-- `o.tell()` -/
def tell (o : FileObj β) : Res Int (FileObj β) :=
  if o.closed then (.error .ValueError, o) else (.ok (o.f.pos : Int), o)

/-- where `seek(p, whence)` goes: `none` = not a position -/
def target (o : FileObj β) (p whence : Int) : Option Int :=
  if whence = 0 then some p
  else if whence = 1 then some (o.f.pos + p)
  else if whence = 2 then some (o.f.data.length + p)
  else none

/-- `o.seek(p, whence)` → the new position.  Before the start: BytesIO raises for `whence = 0` and clamps to 0
    otherwise; a real file raises OSError (here: not specified).  A successful seek of a real file leaves no
    size-changing write behind in the buffer. -/
def seek (o : FileObj β) (p whence : Int) : Res Int (FileObj β) :=
  if o.closed then (.error .ValueError, o)
  else match target o p whence with
    | none => (.error (if o.real then .Other else .ValueError), o)
    | some t =>
      if t < 0 then
        (if o.real then (.error .Other, o)
         else if whence = 0 then (.error .ValueError, o)
         else (.ok 0, { o with f := o.f.seek 0 }))
      else (.ok t, { o with f := o.f.seek t.toNat, stale := false })

/-- `o.write(s)` → `len(s)`.  Writing NOTHING changes nothing, also past the end of the data (`File.write` would pad
    the gap there; inside the data it is the identity for `s = []`, `PyRtC18.File_write_nil`) -/
def write [Inhabited β] (o : FileObj β) (s : List β) : Res Int (FileObj β) :=
  if o.closed then (.error .ValueError, o)
  else if s.isEmpty then (.ok 0, o)
  else (.ok (s.length : Int), { o with f := o.f.write s, stale := o.real })

/-- `o.readline()` / `o.readline(n)`: a negative limit is no limit -/
def readline (nl : β → Bool) (o : FileObj β) (n : Option Int) : Res (List β) (FileObj β) :=
  if o.closed then (.error .ValueError, o)
  else
    let lim : Option Nat := match n with
      | none => none
      | some k => if k < 0 then none else some k.toNat
    (.ok (o.f.readline nl lim).1, { o with f := (o.f.readline nl lim).2 })

/-- `o.getvalue()` (BytesIO only) -/
def getvalue (o : FileObj β) : Res (List β) (FileObj β) :=
  if o.real then (.error .Other, o)
  else if o.closed then (.error .ValueError, o) else (.ok o.f.data, o)

/-- `o.close()` -/
def close (o : FileObj β) : Res Unit (FileObj β) := (.ok (), { o with closed := true, stale := false })

/-- `o.flush()` -/
def flush (o : FileObj β) : Res Unit (FileObj β) :=
  if o.closed then (.error .ValueError, o) else (.ok (), { o with stale := false })

/-- `o.truncate()` → the position; the data is cut at the position (a real file positioned past its end is
    extended with zero bytes, a BytesIO is left alone) -/
def truncate [Inhabited β] (o : FileObj β) : Res Int (FileObj β) :=
  if o.closed then (.error .ValueError, o)
  else (.ok (o.f.pos : Int),
        { o with f := ⟨if o.real then o.f.data.take o.f.pos ++ List.replicate (o.f.pos - o.f.data.length) default
                        else o.f.data.take o.f.pos, o.f.pos⟩, stale := false })

/-- the file descriptor `o.fileno()` returns is only ever handed to `os.fstat`; it carries no information -/
structure Fd where
deriving Repr, DecidableEq
instance : Inhabited Fd := ⟨⟨⟩⟩

/-- `o.fileno()` (real files) -/
def fileno (o : FileObj β) : Res Fd (FileObj β) :=
  if o.closed then (.error .ValueError, o)
  else if o.real then (.ok ⟨⟩, o) else (.error .Other, o)

/-- `os.fstat(fd).st_size` for the descriptor of `o`: the length of the data, provided nothing written is still
    buffered (`stale`) -/
def fstatSize (o : FileObj β) (_fd : Fd) : Res Int (FileObj β) :=
  if o.closed ∨ !o.real ∨ o.stale then (.error .Other, o) else (.ok (o.f.data.length : Int), o)

end FileObj

/-! ## 1b. the abstract codec file: `codecs.EncodedFile(stream, data_encoding='utf-8')`

What `SpooledStringIO` holds in `_buffer` is a `codecs.StreamRecoder` over a BytesIO / temporary file.  It is the hand
model's pair (stream `File CU`, transliterated `codecs.StreamReader` `C18.Reader`); the operations below ARE the
model's (`Reader.read`, `Reader.readline`, `File.write`, the `bseek` reset), under Python's calling convention.
`PyExc.Other` = not specified: a closed file (the methods check `closed` first), a decoding error (the model only
sets its `bad` flag; Python raises UnicodeDecodeError), `reader.read(size, chars)` with `size ≠ chars`, a sized
`readline` (the hand model has none), a negative seek, a write past the end of the stream. -/

deriving instance DecidableEq for C18.Reader

structure CFile where
  st : File C18.CU
  rd : C18.Reader := {}
  closed : Bool := false
  real : Bool := false
deriving Repr, DecidableEq

namespace CFile
open C18 (Reader CU)

/-- `EncodedFile(BytesIO(), data_encoding='utf-8')` -/
def newMem : CFile := ⟨File.empty, {}, false, false⟩
/-- `EncodedFile(TemporaryFile(dir=…), data_encoding='utf-8')` -/
def newReal : CFile := ⟨File.empty, {}, false, true⟩
instance : Inhabited CFile := ⟨newMem⟩

def isClosed (o : CFile) : Res Bool CFile := (.ok o.closed, o)
/-- `isinstance(o.stream, BytesIO)` -/
def isMem (o : CFile) : Res Bool CFile := (.ok (!o.real), o)

/-- `o.reader.read(size, chars)` with `size = chars`: `Reader.read` (`none` for a negative size) -/
def read (o : CFile) (size chars : Int) : Res (List Char) CFile :=
  if o.closed ∨ size ≠ chars then (.error .Other, o)
  else
    let r := Reader.read o.st o.rd (if size < 0 then none else some size.toNat)
    if r.2.2.bad then (.error .Other, { o with st := r.2.1, rd := r.2.2 })
    else (.ok r.1, { o with st := r.2.1, rd := r.2.2 })

/-- `o.tell()`: the position of the stream -/
def tell (o : CFile) : Res Int CFile :=
  if o.closed then (.error .ValueError, o) else (.ok (o.st.pos : Int), o)

/-- `o.write(bytes)`: the bytes go to the stream at its position (decoding and re-encoding valid UTF-8 is the identity);
    the reader's buffers are not touched; writing nothing changes nothing -/
def write (o : CFile) (b : List CU) : Res Unit CFile :=
  if o.closed then (.error .ValueError, o)
  else if b.isEmpty then (.ok (), o)
  else if o.st.data.length < o.st.pos then (.error .Other, o)     -- a gap: Python pads with NUL bytes, `File.write` with `default`
  else (.ok (), { o with st := o.st.write b })

/-- `o.seek(p)`: raw seek of the stream, the codec buffers are reset (`SStr.bseek`) -/
def seek (o : CFile) (p : Int) : Res Unit CFile :=
  if o.closed then (.error .ValueError, o)
  else if p < 0 then (.error .Other, o)
  else (.ok (), { o with st := o.st.seek p.toNat, rd := Reader.reset })

/-- `o.readline(length).decode('utf-8')`: one line of the codec reader (`Reader.readline`), for `length = None` -/
def readlineText (o : CFile) (length : Option Int) : Res (List Char) CFile :=
  if o.closed ∨ length.isSome then (.error .Other, o)
  else
    let r := Reader.readline o.st o.rd
    if r.2.2.bad then (.error .Other, { o with st := r.2.1, rd := r.2.2 })
    else (.ok r.1, { o with st := r.2.1, rd := r.2.2 })

/-- `o.getvalue()` (a BytesIO underneath) -/
def getvalue (o : CFile) : Res (List CU) CFile :=
  if o.real then (.error .Other, o)
  else if o.closed then (.error .ValueError, o) else (.ok o.st.data, o)

def close (o : CFile) : Res Unit CFile := (.ok (), { o with closed := true })

end CFile

/-- `x and x[-1] not in '<chars>'` (evaluated only for a non-empty `x`) -/
def lastNotIn (x : List Char) (cs : List Char) : Bool :=
  match x.getLast? with
  | some c => !cs.contains c
  | none => false

/-- newline test of `io.BytesIO.readline` -/
def isNL : UInt8 → Bool := C18.isNL

/-- an operation on member `i` of a tuple of file objects (`fs[i].op(…)`; negative `i` counts from the end) -/
def atFile {β ρ : Type} (fs : List (FileObj β)) (i : Int) (op : FileObj β → Res ρ (FileObj β)) :
    Res ρ (List (FileObj β)) :=
  if PyRt.normIdx fs i < 0 then (.error .IndexError, fs)
  else match fs[(PyRt.normIdx fs i).toNat]? with
    | none => (.error .IndexError, fs)
    | some o => ((op o).1, fs.set (PyRt.normIdx fs i).toNat (op o).2)

/-- `[f.op(…) for f in fs]` / `for f in fs: f.op(…)`: the members in order; an exception stops the walk, the members
    visited so far (and the raising one) keep what the operation did to them -/
def forEachFile {β ρ : Type} (op : FileObj β → Res ρ (FileObj β)) : List (FileObj β) → Res (List ρ) (List (FileObj β))
  | [] => (.ok [], [])
  | o :: os =>
    match op o with
    | (.error e, o1) => (.error e, o1 :: os)
    | (.ok r, o1) =>
      match forEachFile op os with
      | (.error e, os1) => (.error e, o1 :: os1)
      | (.ok rs, os1) => (.ok (r :: rs), o1 :: os1)

/-- `sep.join(parts)` on sequences of units -/
def join {β : Type} (sep : List β) : List (List β) → List β
  | [] => []
  | [p] => p
  | p :: q :: ps => p ++ sep ++ join sep (q :: ps)

/-- truth value of an `int` that may be `None` -/
def truthyOptInt : Option Int → Bool
  | none => false
  | some n => n != 0

/-! ## 2. statements -/

inductive Flow (ρ : Type) where
  | next                  -- fell through to the next statement
  | brk | cont            -- `break` / `continue`
  | ret (r : ρ)           -- `return r`
  | exc (e : PyExc)       -- an exception is propagating
deriving Repr

abbrev Stmt (σ ρ : Type) := σ → Flow ρ × σ

variable {σ ρ α : Type}

def skip : Stmt σ ρ := fun s => (.next, s)

/-- `a; b` -/
def seq (a b : Stmt σ ρ) : Stmt σ ρ := fun s =>
  match a s with
  | (.next, s1) => b s1
  | (fl, s1) => (fl, s1)

/-- a state update that cannot raise (assignment of a pure expression) -/
def assign (f : σ → σ) : Stmt σ ρ := fun s => (.next, f s)

/-- `if c: a else: b` (the condition is pure; what can raise in it was bound before by `bindE`) -/
def cond (c : σ → Bool) (a b : Stmt σ ρ) : Stmt σ ρ := fun s => if c s then a s else b s

def ret (e : σ → ρ) : Stmt σ ρ := fun s => (.ret (e s), s)
def raise (e : PyExc) : Stmt σ ρ := fun s => (.exc e, s)
def brk : Stmt σ ρ := fun s => (.brk, s)
def cont : Stmt σ ρ := fun s => (.cont, s)

/-- run an operation that may raise / change the state, hand its value to the rest of the statement -/
def bindE (m : σ → Except PyExc α × σ) (k : α → Stmt σ ρ) : Stmt σ ρ := fun s =>
  match m s with
  | (.ok v, s1) => k v s1
  | (.error e, s1) => (.exc e, s1)

/-- `while c: body` with an explicit bound on the number of tests of the condition -/
def whileLoop (c : σ → Bool) (body : Stmt σ ρ) : Nat → Stmt σ ρ
  | 0 => fun s => (.exc .OutOfFuel, s)
  | n + 1 => fun s =>
    if c s then
      match body s with
      | (.next, s1) => whileLoop c body n s1
      | (.cont, s1) => whileLoop c body n s1
      | (.brk, s1) => (.next, s1)
      | (fl, s1) => (fl, s1)
    else (.next, s)

/-- the result of a method body (every body ends in a `return`; falling through cannot happen) -/
def finish {τ : Type} (proj : σ → τ) (r : Flow ρ × σ) : Except PyExc ρ × τ :=
  match r with
  | (.ret v, s) => (.ok v, proj s)
  | (.exc e, s) => (.error e, proj s)
  | (_, s) => (.error .Other, proj s)

end PyRtC18
