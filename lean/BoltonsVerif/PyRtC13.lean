/-
PyRtC13 — runtime definitions of the source translator's C13 extension (`harness/py2lean_c13.py`:
`boltons.funcutils.FunctionBuilder`, `update_wrapper`, `_parse_wraps_expected`).

The pre-pass of `py2lean_c13.py` rewrites a few Python builtins / container methods the base translator does
not know into calls of the operations below (notes/SRCTIE.md §1f lists the rewrites and their side
conditions).  Each is the TOTAL Lean function of the builtin on the static type the translator inferred, or
its raising twin (`Except PyExc`).  Trusted like `PyRt.lean`; compared with CPython through the generated
definitions by `harness/py2lean_selftest.py` (families in `py2lean_c13.py`).  Core Lean only.
-/
import BoltonsVerif.PyRt

namespace PyRtC13

/-- `reversed(l)` consumed on the spot (`list(reversed(l))`, an argument of `zip` / `dict`) -/
def reversed {α : Type} (l : List α) : List α := l.reverse

/-- `zip(a, b)` consumed on the spot: pairs up to the shorter length -/
def zip {α β : Type} (a : List α) (b : List β) : List (α × β) := List.zip a b

/-- `x or []` / `x or ()` where `x` is `None` or a sequence: an empty sequence and `None` both give the empty one -/
def orEmpty {α : Type} (o : Option (List α)) : List α := o.getD []

/-- `l.remove(x)`: the first occurrence goes; `ValueError` when there is none -/
def listRemove? {α : Type} [DecidableEq α] (l : List α) (x : α) : Except PyExc (List α) :=
  if x ∈ l then .ok (l.erase x) else .error PyExc.ValueError

/-- position at which `l.insert(i, x)` puts `x`: negative `i` counts from the end, both ends clamp -/
def insertPos {α : Type} (l : List α) (i : Int) : Nat :=
  if i < 0 then (i + l.length).toNat else min i.toNat l.length

/-- `l.insert(i, x)` (never raises) -/
def listInsert {α : Type} (l : List α) (i : Int) (x : α) : List α :=
  l.take (insertPos l i) ++ x :: l.drop (insertPos l i)

/-- `d.pop(k, None)` as a statement: the dict afterwards (the popped value is dropped) -/
def dictDiscard {κ ν : Type} [DecidableEq κ] (d : PyRt.Dict κ ν) (k : κ) : PyRt.Dict κ ν :=
  PyRt.Dict.erase d k

/-- `[d[a] for a in l if a in d]`: the guarded lookup never raises -/
def dictSelect {κ ν : Type} [DecidableEq κ] (d : PyRt.Dict κ ν) (l : List κ) : List ν :=
  l.filterMap (fun a => PyRt.Dict.find d a)

/-! ## user-defined exception classes

`PyExc` only has builtin leaf classes.  A user-defined subclass (`class MissingArgument(ValueError)`) is
modelled as its builtin BASE class plus a tag kept in the object state field `exc_sub`: the tag is set
immediately before the exception is raised and reset by the handler that catches it, so `exc_sub ≠ 0`
exactly while a user-defined exception is in flight (or has left the method: then it is part of the
state the method returns next to `.error base`). -/

/-- tag of "no user-defined exception" -/
def excNone : Int := 0

/-! ## abstract name operations (the `call_name` loop of `update_wrapper`)

Argument names are an abstract type `κ` in the translated methods.  Where the source builds a NAME from a
string literal (`'_call'`) or by prefixing one (`'_' + call_name`) the operation is a member of this class:
the literal text stays in the generated definition, what the operations DO is a parameter - the hand model
(`C13/Hygiene.lean`) assumes exactly an injective enumeration `cn` of the candidate spellings. -/
class Names (κ : Type) where
  /-- the name spelled by a string literal -/
  lit : List Char → κ
  /-- `prefix + name` -/
  cat : List Char → κ → κ

/-- strings themselves: the concrete instance (used by the translator self-test) -/
instance : Names (List Char) := ⟨fun s => s, fun p s => p ++ s⟩

end PyRtC13
