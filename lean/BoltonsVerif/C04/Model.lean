/-
C04 / C05 — abstract file system shared by both properties, the crash semantics,
the decidable acceptance predicate `SafeTrace`, and the straight-line event
trace of the transliterated `AtomicSaver` (`saverTrace`).

Only two names of the destination's directory matter: `dest` and `part`.
A directory maps each of them to an inode number; inodes carry what is on
stable storage (`durable`), what the kernel holds but has not synced (`tail`;
readers see `durable ++ tail`), and the permission bits.  The process has at
most one open file (the part file) with a user-space buffer.

Core Lean only.
-/
namespace C04

abbrev Bytes := List Nat
abbrev Errno := Nat
def ENOENT : Errno := 2
def EEXIST : Errno := 17
def EBADF : Errno := 9

structure Inode where
  durable : Bytes
  tail : Bytes
  mode : Nat
deriving DecidableEq, Repr

/-- what a reader of the inode sees (page cache) -/
def Inode.cache (i : Inode) : Bytes := i.durable ++ i.tail

structure Dir where
  dest : Option Nat
  part : Option Nat
deriving DecidableEq, Repr

structure OpenFile where
  ino : Nat
  buf : Bytes
deriving DecidableEq, Repr

structure FS where
  inodes : List Inode
  dir : Dir
  /-- every earlier state of the directory (newest first): after a power loss the directory is
      the result of some prefix of the directory operations performed so far -/
  hist : List Dir
  openf : Option OpenFile
  umask : Nat
deriving DecidableEq, Repr

/-- directory entries point to allocated inodes -/
def FS.WF (fs : FS) : Prop :=
  (∀ i, fs.dir.dest = some i → i < fs.inodes.length) ∧
  (∀ i, fs.dir.part = some i → i < fs.inodes.length)

def FS.wfb (fs : FS) : Bool :=
  fs.dir.dest.all (fun i => decide (i < fs.inodes.length)) && fs.dir.part.all (fun i => decide (i < fs.inodes.length))

theorem FS.wfb_iff (fs : FS) : fs.wfb = true ↔ fs.WF := by
  unfold FS.wfb FS.WF
  cases fs.dir.dest <;> cases fs.dir.part <;> simp

instance (fs : FS) : Decidable fs.WF := decidable_of_iff _ fs.wfb_iff

def FS.setDir (fs : FS) (d : Dir) : FS := { fs with dir := d, hist := fs.dir :: fs.hist }

def FS.inode? (fs : FS) (o : Option Nat) : Option Inode :=
  match o with
  | none => none
  | some i => fs.inodes[i]?

/-- content seen by a reader of the destination path -/
def FS.readDest (fs : FS) : Option Bytes := (fs.inode? fs.dir.dest).map Inode.cache
def FS.destMode (fs : FS) : Option Nat := (fs.inode? fs.dir.dest).map (·.mode)
def FS.readPart (fs : FS) : Option Bytes := (fs.inode? fs.dir.part).map Inode.cache
def FS.partMode (fs : FS) : Option Nat := (fs.inode? fs.dir.part).map (·.mode)

def modInode (l : List Inode) (i : Nat) (f : Inode → Inode) : List Inode :=
  match l[i]? with
  | none => l
  | some x => l.set i (f x)

/-! ### primitive operations (`Except Errno FS`: the errno the kernel itself reports) -/

/-- `os.open(part, O_RDWR|O_CREAT|O_EXCL, mode)`.  `excl = false` (without `O_EXCL`) re-opens an
    existing part file, which keeps its content; later writes are modelled as appended to it (the
    real overwrite-in-place from offset 0 likewise yields a mixture whenever the stale content is
    longer).  `SafeTrace` rejects every non-exclusive open, so this branch only serves the necessity
    witness `no_excl_breaks`. -/
def FS.openPart (fs : FS) (excl : Bool) (mode : Nat) : Except Errno FS :=
  match fs.dir.part with
  | some i => if excl then .error EEXIST else .ok { fs with openf := some ⟨i, []⟩ }
  | none =>
    .ok { (fs.setDir { fs.dir with part := some fs.inodes.length }) with
          inodes := fs.inodes ++ [⟨[], [], mode &&& (0o7777 ^^^ (fs.umask &&& 0o7777))⟩],
          openf := some ⟨fs.inodes.length, []⟩ }

def FS.chmodPart (fs : FS) (mode : Nat) : Except Errno FS :=
  match fs.dir.part with
  | none => .error ENOENT
  | some i => .ok { fs with inodes := modInode fs.inodes i (fun x => { x with mode := mode }) }

/-- `file.write(data)`: into the user-space buffer; the runtime may push the first `spill` bytes of
    the buffer through to the kernel (a `BufferedWriter` does so when its buffer is full) -/
def FS.write (fs : FS) (data : Bytes) (spill : Nat) : Except Errno FS :=
  match fs.openf with
  | none => .error EBADF
  | some f =>
    .ok { fs with inodes := modInode fs.inodes f.ino (fun x => { x with tail := x.tail ++ (f.buf ++ data).take spill }),
                  openf := some ⟨f.ino, (f.buf ++ data).drop spill⟩ }

def FS.flush (fs : FS) : Except Errno FS :=
  match fs.openf with
  | none => .error EBADF
  | some f =>
    .ok { fs with inodes := modInode fs.inodes f.ino (fun x => { x with tail := x.tail ++ f.buf }),
                  openf := some ⟨f.ino, []⟩ }

/-- `os.fsync(fd)`: everything the kernel holds for the inode becomes durable (not the user buffer) -/
def FS.fsync (fs : FS) : Except Errno FS :=
  match fs.openf with
  | none => .error EBADF
  | some f =>
    .ok { fs with inodes := modInode fs.inodes f.ino (fun x => { x with durable := x.durable ++ x.tail, tail := [] }) }

/-- `file.close()`: flushes the user buffer, then closes the descriptor -/
def FS.close (fs : FS) : Except Errno FS :=
  match fs.openf with
  | none => .error EBADF
  | some f =>
    .ok { fs with inodes := modInode fs.inodes f.ino (fun x => { x with tail := x.tail ++ f.buf }),
                  openf := none }

/-- `os.close(fd)`: closes the descriptor (no user-space buffer is involved) -/
def FS.closeFd (fs : FS) : Except Errno FS :=
  match fs.openf with
  | none => .error EBADF
  | some _ => .ok { fs with openf := none }

def FS.renamePartDest (fs : FS) : Except Errno FS :=
  match fs.dir.part with
  | none => .error ENOENT
  | some i => .ok (fs.setDir ⟨some i, none⟩)

def FS.linkPartDest (fs : FS) : Except Errno FS :=
  match fs.dir.part with
  | none => .error ENOENT
  | some i =>
    match fs.dir.dest with
    | some _ => .error EEXIST
    | none => .ok (fs.setDir ⟨some i, some i⟩)

def FS.unlinkPart (fs : FS) : Except Errno FS :=
  match fs.dir.part with
  | none => .error ENOENT
  | some _ => .ok (fs.setDir { fs.dir with part := none })

/-- operations that change the destination in place (never performed by a safe saver; they give the
    necessity witnesses something to execute) -/
def FS.truncDest (fs : FS) : Except Errno FS :=
  match fs.dir.dest with
  | none => .ok { (fs.setDir { fs.dir with dest := some fs.inodes.length }) with inodes := fs.inodes ++ [⟨[], [], 0o644⟩] }
  | some i => .ok { fs with inodes := modInode fs.inodes i (fun x => { x with durable := [], tail := [] }) }

def FS.writeDest (fs : FS) (data : Bytes) : Except Errno FS :=
  match fs.dir.dest with
  | none => .error ENOENT
  | some i => .ok { fs with inodes := modInode fs.inodes i (fun x => { x with tail := x.tail ++ data }) }

def FS.unlinkDest (fs : FS) : Except Errno FS :=
  match fs.dir.dest with
  | none => .error ENOENT
  | some _ => .ok (fs.setDir { fs.dir with dest := none })

/-! ### events -/

inductive Ev where
  /-- a read-only call, a call on an unrelated path, or a call that failed (no effect) -/
  | noop
  | openPart (excl sameDir : Bool) (mode : Nat)
  | chmodPart (mode : Nat)
  | write (data : Bytes) (spill : Nat)
  | flush
  | fsync
  | close
  | closeFd
  | renamePartDest
  | linkPartDest
  | unlinkPart
  | truncDest
  | writeDest (data : Bytes)
  | unlinkDest
  /-- a mutating call the recorder could not classify -/
  | unknown
deriving DecidableEq, Repr

def FS.step (fs : FS) : Ev → Except Errno FS
  | .noop => .ok fs
  | .openPart excl _ mode => fs.openPart excl mode
  | .chmodPart m => fs.chmodPart m
  | .write d k => fs.write d k
  | .flush => fs.flush
  | .fsync => fs.fsync
  | .close => fs.close
  | .closeFd => fs.closeFd
  | .renamePartDest => fs.renamePartDest
  | .linkPartDest => fs.linkPartDest
  | .unlinkPart => fs.unlinkPart
  | .truncDest => fs.truncDest
  | .writeDest d => fs.writeDest d
  | .unlinkDest => fs.unlinkDest
  | .unknown => .ok fs

/-- execute a trace of *successful* events; `none` when some event could not have succeeded -/
def exec (fs : FS) : List Ev → Option FS
  | [] => some fs
  | e :: t => match fs.step e with
    | .ok fs' => exec fs' t
    | .error _ => none

/-! ### crash semantics -/

/-- process death: the user-space buffer is lost, the kernel's state is kept -/
def FS.procCrash (fs : FS) : FS := { fs with openf := none }

/-- what a reader of `dest` finds after a process death -/
def FS.destAfterProcCrash (fs : FS) : Option Bytes := fs.procCrash.readDest

/-- a possible content of inode `i` after power loss: durable part plus any prefix of the unsynced tail -/
def Inode.afterPower (i : Inode) (k : Nat) : Bytes := i.durable ++ i.tail.take k

/-- `r` is a possible result of reading `dest` after a power loss in state `fs`: the directory is
    the current one or any earlier one; the inode keeps its durable bytes and a prefix of the rest -/
def FS.PowerDest (fs : FS) (r : Option Bytes) : Prop :=
  ∃ d ∈ fs.dir :: fs.hist, ∃ k : Nat, r = (fs.inode? d.dest).map (·.afterPower k)

/-- executable enumeration of `PowerDest` (used by the driver and the `decide` witnesses) -/
def FS.powerDests (fs : FS) : List (Option Bytes) :=
  (fs.dir :: fs.hist).flatMap fun d =>
    match fs.inode? d.dest with
    | none => [none]
    | some i => (List.range (i.tail.length + 1)).map fun k => some (i.afterPower k)

/-! ### the acceptance predicate -/

inductive Phase where
  | init      -- no part file created yet
  | part      -- part file created exclusively; not yet published
  | linked    -- `link part dest` done, `unlink part` pending
  | done      -- published
  | aborted   -- part file removed without publication
deriving DecidableEq, Repr

/-- abstract state of the acceptance automaton: phase, "the part file object is open",
    "its user buffer may be non-empty", "the kernel may hold unsynced bytes of the part file" -/
structure St where
  phase : Phase
  isOpen : Bool
  dirtyBuf : Bool
  unsynced : Bool
deriving DecidableEq, Repr

def St.init : St := ⟨.init, false, false, false⟩

def St.step (s : St) : Ev → Option St
  | .noop => some s
  | .openPart excl sameDir _ =>
    if s.phase = .init ∧ excl = true ∧ sameDir = true then some ⟨.part, true, false, false⟩ else none
  | .chmodPart _ => if s.phase = .part then some s else none
  | .write _ _ =>
    if s.isOpen = true ∧ (s.phase = .part ∨ s.phase = .aborted) then some { s with dirtyBuf := true, unsynced := true } else none
  | .flush => if s.isOpen = true then some { s with dirtyBuf := false, unsynced := s.unsynced || s.dirtyBuf } else none
  | .fsync => if s.isOpen = true then some { s with unsynced := false } else none
  | .close => if s.isOpen = true then some { s with isOpen := false, dirtyBuf := false, unsynced := s.unsynced || s.dirtyBuf } else none
  | .closeFd =>
    if s.isOpen = true ∧ (s.dirtyBuf = false ∨ s.phase = .aborted) then some { s with isOpen := false, dirtyBuf := false } else none
  | .renamePartDest =>
    if s.phase = .part ∧ s.dirtyBuf = false ∧ s.unsynced = false then some { s with phase := .done } else none
  | .linkPartDest =>
    if s.phase = .part ∧ s.dirtyBuf = false ∧ s.unsynced = false then some { s with phase := .linked } else none
  | .unlinkPart =>
    match s.phase with
    | .init => some s                       -- removal of a stale part file (overwrite_part)
    | .part => some { s with phase := .aborted }
    | .linked => some { s with phase := .done }
    | _ => none
  | .truncDest => none
  | .writeDest _ => none
  | .unlinkDest => none
  | .unknown => none

def St.run (s : St) : List Ev → Option St
  | [] => some s
  | e :: t => match s.step e with
    | some s' => s'.run t
    | none => none

/-- every write goes to a part file created with `O_CREAT|O_EXCL` in the destination's directory;
    the destination is touched by at most one publishing event (`rename part dest`, or
    `link part dest` followed by `unlink part`), which is preceded, in order, by all writes, a flush
    (or close) of everything written and an fsync of everything flushed; nothing is written after it.
    (Publication with the file object still open is accepted when its buffer is empty and synced.) -/
def SafeTrace (t : List Ev) : Bool := (St.init.run t).isSome

/-- all bytes written by the trace, in order -/
def allWrites : List Ev → Bytes
  | [] => []
  | .write d _ :: t => d ++ allWrites t
  | _ :: t => allWrites t

/-- does the trace contain a publishing event -/
def publishes : List Ev → Bool
  | [] => false
  | .renamePartDest :: _ => true
  | .linkPartDest :: _ => true
  | _ :: t => publishes t

/-! ### configuration and the straight-line saver trace -/

structure Cfg where
  overwrite : Bool := true
  overwritePart : Bool := false
  rmPartOnExc : Bool := true
  textMode : Bool := false
  perms : Option Nat := none
deriving DecidableEq, Repr

/-- the body of the `with` block: the data of each `write` call (with the amount the runtime pushes
    through on its own), and whether the block ends by raising -/
structure Body where
  writes : List (Bytes × Nat)
  raises : Bool
deriving DecidableEq, Repr

def RW_PERMS : Nat := 0o666

/-- the permission bits passed to `os.open`, and whether `os.chmod` follows
    (`_open_part_file`: explicit, else the replaced file's, else `RW_PERMS` subject to the umask) -/
def choosePerms (cfg : Cfg) (fs : FS) : Nat × Bool :=
  match cfg.perms with
  | some p => (p, true)
  | none => match fs.destMode with
    | some m => (m, true)
    | none => (RW_PERMS, false)

/-- the events of a save in which no call fails:
    `setup` (`unlink` of a stale part file when `overwrite_part`, exclusive creation, `fdopen`
    - no effect on the file system: `noop` -, `chmod`),
    the body's writes, `__exit__` (`flush`, `fsync`, `close`, then either the cleanup `unlink`
    when the body raised, or the publication by `rename` / `link`+`unlink`). -/
def saverTrace (cfg : Cfg) (fs : FS) (body : Body) : List Ev :=
  (if cfg.overwritePart && fs.dir.part.isSome then [Ev.unlinkPart] else []) ++
  [Ev.openPart true true (choosePerms cfg fs).1, Ev.noop] ++
  (if (choosePerms cfg fs).2 then [Ev.chmodPart (choosePerms cfg fs).1] else []) ++
  body.writes.map (fun w => Ev.write w.1 w.2) ++
  [Ev.flush, Ev.fsync, Ev.close] ++
  (if body.raises then (if cfg.rmPartOnExc then [Ev.unlinkPart] else [])
   else if cfg.overwrite then [Ev.renamePartDest] else [Ev.linkPartDest, Ev.unlinkPart])

end C04
