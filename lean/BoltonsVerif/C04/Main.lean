import BoltonsVerif.C04.Driver
def main : IO Unit := BV.mainLoop C04.Driver.handle
