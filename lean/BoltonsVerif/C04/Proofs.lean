import BoltonsVerif.C04.Model
/-
C04 — helper lemmas: the invariant tying the acceptance automaton (`St`) to the concrete file
system, preserved by every accepted event (`inv_step`), and what it implies for both crash semantics.
-/
namespace C04

theorem modInode_append_last (l : List Inode) (x : Inode) (f : Inode → Inode) :
    modInode (l ++ [x]) l.length f = l ++ [f x] := by
  simp [modInode]

def evWrites : Ev → Bytes
  | .write d _ => d
  | _ => []

/-- the invariant tying the abstract automaton state to the concrete file system; `P` is what is known
    about the destination's directory entry before publication, `ino0` the inode table at the start -/
def GInv (P : Option Nat → Prop) (ino0 : List Inode) (s : St) (fs : FS) (W : Bytes) : Prop :=
  match s.phase with
  | .init =>
    fs.inodes = ino0 ∧ P fs.dir.dest ∧ (∀ d ∈ fs.hist, P d.dest) ∧
    W = [] ∧ s.isOpen = false
  | .part =>
    P fs.dir.dest ∧ (∀ d ∈ fs.hist, P d.dest) ∧
    fs.dir.part = some ino0.length ∧
    ∃ x, fs.inodes = ino0 ++ [x] ∧ (s.unsynced = false → x.tail = []) ∧
      (if s.isOpen then ∃ buf, fs.openf = some ⟨ino0.length, buf⟩ ∧ x.durable ++ (x.tail ++ buf) = W ∧
          (s.dirtyBuf = false → buf = [])
       else x.durable ++ x.tail = W ∧ s.dirtyBuf = false)
  | .aborted =>
    P fs.dir.dest ∧ (∀ d ∈ fs.hist, P d.dest) ∧ fs.dir.part = none ∧
    ∃ x, fs.inodes = ino0 ++ [x] ∧
      (s.isOpen = true → ∃ buf, fs.openf = some ⟨ino0.length, buf⟩)
  | .linked =>
    fs.dir.dest = some ino0.length ∧ fs.dir.part = some ino0.length ∧
    (∀ d ∈ fs.hist, P d.dest ∨ d.dest = some ino0.length) ∧
    ∃ x, fs.inodes = ino0 ++ [x] ∧ x.durable = W ∧ x.tail = [] ∧
      (s.isOpen = true → fs.openf = some ⟨ino0.length, []⟩) ∧ s.dirtyBuf = false ∧ s.unsynced = false
  | .done =>
    fs.dir.dest = some ino0.length ∧ fs.dir.part = none ∧
    (∀ d ∈ fs.hist, P d.dest ∨ d.dest = some ino0.length) ∧
    ∃ x, fs.inodes = ino0 ++ [x] ∧ x.durable = W ∧ x.tail = [] ∧
      (s.isOpen = true → fs.openf = some ⟨ino0.length, []⟩) ∧ s.dirtyBuf = false ∧ s.unsynced = false

/-- C04's instance: before publication the destination's entry is the one from the start -/
abbrev Inv (fs0 : FS) (s : St) (fs : FS) (W : Bytes) : Prop :=
  GInv (fun d => d = fs0.dir.dest) fs0.inodes s fs W

theorem ginv_step (P : Option Nat → Prop) (ino0 : List Inode) (s s' : St) (fs fs' : FS) (W : Bytes) (e : Ev)
    (hi : GInv P ino0 s fs W) (hs : s.step e = some s') (hf : fs.step e = .ok fs') :
    GInv P ino0 s' fs' (W ++ evWrites e) := by
  obtain ⟨ph, op, db, us⟩ := s
  cases e with
  | noop =>
    simp [St.step] at hs; simp [FS.step] at hf; subst hs; subst hf; simpa [evWrites] using hi
  | openPart excl sd mode =>
    cases ph <;> simp [St.step] at hs
    obtain ⟨⟨rfl, rfl⟩, rfl⟩ := hs
    simp only [GInv] at hi
    obtain ⟨h1, h2, h3, rfl, rfl⟩ := hi
    simp only [FS.step, FS.openPart] at hf
    split at hf
    · simp at hf
    · simp at hf; subst hf
      simp [GInv, FS.setDir, evWrites, h1, h2]
      exact h3
  | chmodPart m =>
    cases ph <;> simp [St.step] at hs
    subst hs
    simp only [GInv] at hi ⊢
    obtain ⟨h1, h2, h3, x, h4, h5, h6⟩ := hi
    simp only [FS.step, FS.chmodPart, h3] at hf
    simp at hf; subst hf
    simp [h1, h3, h4, modInode_append_last, evWrites]
    exact ⟨h2, h5, h6⟩
  | write d k =>
    cases ph <;> simp [St.step] at hs
    · -- part
      obtain ⟨rfl, rfl⟩ := hs
      simp only [GInv] at hi ⊢
      obtain ⟨h1, h2, h3, x, h4, h5, h6⟩ := hi
      simp only [if_true] at h6
      obtain ⟨buf, h7, h8, h9⟩ := h6
      simp only [FS.step, FS.write, h7] at hf
      simp at hf; subst hf
      simp [h1, h3, h4, modInode_append_last, evWrites]
      refine ⟨h2, ?_⟩
      rw [← h8]
      have := List.take_append_drop k (buf ++ d)
      simp only [List.append_assoc] at this ⊢
    · -- aborted
      obtain ⟨rfl, rfl⟩ := hs
      simp only [GInv] at hi ⊢
      obtain ⟨h1, h2, hp0, x, h4, h6⟩ := hi
      obtain ⟨buf, h7⟩ := h6 trivial
      simp only [FS.step, FS.write, h7] at hf
      simp at hf; subst hf
      simp [h1, h4, hp0, modInode_append_last, evWrites]
      exact h2
  | flush =>
    simp [St.step] at hs
    obtain ⟨rfl, rfl⟩ := hs
    cases ph <;> simp only [GInv] at hi ⊢
    · simp at hi
    · obtain ⟨h1, h2, h3, x, h4, h5, h6⟩ := hi
      simp only [if_true] at h6
      obtain ⟨buf, h7, h8, h9⟩ := h6
      simp only [FS.step, FS.flush, h7] at hf
      simp at hf; subst hf
      simp [h1, h3, h4, modInode_append_last, evWrites]
      refine ⟨h2, ?_, h8⟩
      intro hu hd
      simp [h5 hu, h9 hd]
    · obtain ⟨h1, h2, h3, x, h4, h5, h6, h7, rfl, rfl⟩ := hi
      simp only [FS.step, FS.flush, h7 trivial] at hf
      simp at hf; subst hf
      simp [h1, h2, h4, modInode_append_last, evWrites, h5, h6]
      exact h3
    · obtain ⟨h1, h2, h3, x, h4, h5, h6, h7, rfl, rfl⟩ := hi
      simp only [FS.step, FS.flush, h7 trivial] at hf
      simp at hf; subst hf
      simp [h1, h2, h4, modInode_append_last, evWrites, h5, h6]
      exact h3
    · obtain ⟨h1, h2, hp0, x, h4, h6⟩ := hi
      obtain ⟨buf, h7⟩ := h6 trivial
      simp only [FS.step, FS.flush, h7] at hf
      simp at hf; subst hf
      simp [h1, h4, hp0, modInode_append_last, evWrites]
      exact h2
  | fsync =>
    simp [St.step] at hs
    obtain ⟨rfl, rfl⟩ := hs
    cases ph <;> simp only [GInv] at hi ⊢
    · simp at hi
    · obtain ⟨h1, h2, h3, x, h4, h5, h6⟩ := hi
      simp only [if_true] at h6
      obtain ⟨buf, h7, h8, h9⟩ := h6
      simp only [FS.step, FS.fsync, h7] at hf
      simp at hf; subst hf
      simp [h1, h3, h4, modInode_append_last, evWrites, h7]
      exact ⟨h2, h8, h9⟩
    · obtain ⟨h1, h2, h3, x, h4, h5, h6, h7, rfl, rfl⟩ := hi
      simp only [FS.step, FS.fsync, h7 trivial] at hf
      simp at hf; subst hf
      simp [h1, h2, h4, modInode_append_last, evWrites, h5, h6, h7]
      exact h3
    · obtain ⟨h1, h2, h3, x, h4, h5, h6, h7, rfl, rfl⟩ := hi
      simp only [FS.step, FS.fsync, h7 trivial] at hf
      simp at hf; subst hf
      simp [h1, h2, h4, modInode_append_last, evWrites, h5, h6, h7]
      exact h3
    · obtain ⟨h1, h2, hp0, x, h4, h6⟩ := hi
      obtain ⟨buf, h7⟩ := h6 trivial
      simp only [FS.step, FS.fsync, h7] at hf
      simp at hf; subst hf
      simp [h1, h4, hp0, modInode_append_last, evWrites, h7]
      exact h2
  | close =>
    simp [St.step] at hs
    obtain ⟨rfl, rfl⟩ := hs
    cases ph <;> simp only [GInv] at hi ⊢
    · simp at hi
    · obtain ⟨h1, h2, h3, x, h4, h5, h6⟩ := hi
      simp only [if_true] at h6
      obtain ⟨buf, h7, h8, h9⟩ := h6
      simp only [FS.step, FS.close, h7] at hf
      simp at hf; subst hf
      simp [h1, h3, h4, modInode_append_last, evWrites]
      refine ⟨h2, ?_, h8⟩
      intro hu hd
      simp [h5 hu, h9 hd]
    · obtain ⟨h1, h2, h3, x, h4, h5, h6, h7, rfl, rfl⟩ := hi
      simp only [FS.step, FS.close, h7 trivial] at hf
      simp at hf; subst hf
      simp [h1, h2, h4, modInode_append_last, evWrites, h5, h6]
      exact h3
    · obtain ⟨h1, h2, h3, x, h4, h5, h6, h7, rfl, rfl⟩ := hi
      simp only [FS.step, FS.close, h7 trivial] at hf
      simp at hf; subst hf
      simp [h1, h2, h4, modInode_append_last, evWrites, h5, h6]
      exact h3
    · obtain ⟨h1, h2, hp0, x, h4, h6⟩ := hi
      obtain ⟨buf, h7⟩ := h6 trivial
      simp only [FS.step, FS.close, h7] at hf
      simp at hf; subst hf
      simp [h1, h4, hp0, modInode_append_last, evWrites]
      exact h2
  | closeFd =>
    simp [St.step] at hs
    obtain ⟨⟨rfl, hd⟩, rfl⟩ := hs
    cases ph <;> simp only [GInv] at hi ⊢
    · simp at hi
    · obtain ⟨h1, h2, h3, x, h4, h5, h6⟩ := hi
      simp only [if_true] at h6
      obtain ⟨buf, h7, h8, h9⟩ := h6
      simp only [FS.step, FS.closeFd, h7] at hf
      simp at hf; subst hf
      simp at hd
      simp [h1, h3, h4, evWrites]
      have := h9 hd; subst this
      simp at h8
      exact ⟨h2, h5, h8⟩
    · obtain ⟨h1, h2, h3, x, h4, h5, h6, h7, rfl, rfl⟩ := hi
      simp only [FS.step, FS.closeFd, h7 trivial] at hf
      simp at hf; subst hf
      simp [h1, h2, h4, evWrites, h5, h6]
      exact h3
    · obtain ⟨h1, h2, h3, x, h4, h5, h6, h7, rfl, rfl⟩ := hi
      simp only [FS.step, FS.closeFd, h7 trivial] at hf
      simp at hf; subst hf
      simp [h1, h2, h4, evWrites, h5, h6]
      exact h3
    · obtain ⟨h1, h2, hp0, x, h4, h6⟩ := hi
      obtain ⟨buf, h7⟩ := h6 trivial
      simp only [FS.step, FS.closeFd, h7] at hf
      simp at hf; subst hf
      simp [h1, h4, hp0, evWrites]
      exact h2
  | renamePartDest =>
    simp [St.step] at hs
    obtain ⟨⟨rfl, rfl, rfl⟩, rfl⟩ := hs
    simp only [GInv] at hi ⊢
    obtain ⟨h1, h2, h3, x, h4, h5, h6⟩ := hi
    simp only [FS.step, FS.renamePartDest, h3] at hf
    simp at hf; subst hf
    have ht := h5 trivial
    simp [FS.setDir, h4, ht, evWrites]
    refine ⟨⟨Or.inl h1, fun d hd => Or.inl (h2 d hd)⟩, ?_⟩
    split at h6
    · obtain ⟨buf, h7, h8, h9⟩ := h6
      have := h9 trivial; subst this
      simp [ht] at h8
      exact ⟨h8, fun _ => h7⟩
    · simp [ht] at h6; simp [h6, *]
  | linkPartDest =>
    simp [St.step] at hs
    obtain ⟨⟨rfl, rfl, rfl⟩, rfl⟩ := hs
    simp only [GInv] at hi ⊢
    obtain ⟨h1, h2, h3, x, h4, h5, h6⟩ := hi
    simp only [FS.step, FS.linkPartDest, h3] at hf
    split at hf
    · simp at hf
    · simp at hf; subst hf
      have ht := h5 trivial
      simp [FS.setDir, h4, ht, evWrites]
      refine ⟨⟨Or.inl h1, fun d hd => Or.inl (h2 d hd)⟩, ?_⟩
      split at h6
      · obtain ⟨buf, h7, h8, h9⟩ := h6
        have := h9 trivial; subst this
        simp [ht] at h8
        exact ⟨h8, fun _ => h7⟩
      · simp [ht] at h6; simp [h6, *]
  | unlinkPart =>
    cases ph <;> simp [St.step] at hs <;> subst hs <;> simp only [GInv] at hi ⊢
    · obtain ⟨h1, h2, h3, rfl, rfl⟩ := hi
      simp only [FS.step, FS.unlinkPart] at hf
      split at hf
      · simp at hf
      · simp at hf; subst hf
        simp [FS.setDir, h1, h2, evWrites]
        exact h3
    · obtain ⟨h1, h2, h3, x, h4, h5, h6⟩ := hi
      simp only [FS.step, FS.unlinkPart, h3] at hf
      simp at hf; subst hf
      simp [FS.setDir, h1, h4, evWrites]
      refine ⟨h2, ?_⟩
      intro ho
      simp [ho] at h6
      obtain ⟨buf, h7, _⟩ := h6
      exact ⟨buf, h7⟩
    · obtain ⟨h1, h2, h3, x, h4, h5, h6, h7, rfl, rfl⟩ := hi
      simp only [FS.step, FS.unlinkPart, h2] at hf
      simp at hf; subst hf
      simp [FS.setDir, h1, h4, evWrites, h5, h6]
      exact ⟨h3, h7⟩
  | truncDest => simp [St.step] at hs
  | writeDest d => simp [St.step] at hs
  | unlinkDest => simp [St.step] at hs
  | unknown => simp [St.step] at hs

theorem inv_step (fs0 : FS) (s s' : St) (fs fs' : FS) (W : Bytes) (e : Ev)
    (hi : Inv fs0 s fs W) (hs : s.step e = some s') (hf : fs.step e = .ok fs') :
    Inv fs0 s' fs' (W ++ evWrites e) := ginv_step _ _ s s' fs fs' W e hi hs hf

theorem allWrites_cons (e : Ev) (t : List Ev) : allWrites (e :: t) = evWrites e ++ allWrites t := by
  cases e <;> simp [allWrites, evWrites]

theorem allWrites_append (p q : List Ev) : allWrites (p ++ q) = allWrites p ++ allWrites q := by
  induction p with
  | nil => simp [allWrites]
  | cons e p ih => simp [allWrites_cons, ih]

theorem inv_run (fs0 : FS) : ∀ (t : List Ev) (s s' : St) (fs fs' : FS) (W : Bytes),
    Inv fs0 s fs W → s.run t = some s' → exec fs t = some fs' → Inv fs0 s' fs' (W ++ allWrites t)
  | [], s, s', fs, fs', W, hi, hs, hf => by
    simp [St.run] at hs; simp [exec] at hf; subst hs; subst hf; simpa [allWrites] using hi
  | e :: t, s, s', fs, fs', W, hi, hs, hf => by
    simp only [St.run] at hs
    simp only [exec] at hf
    cases h1 : s.step e with
    | none => simp [h1] at hs
    | some s1 =>
      cases h2 : fs.step e with
      | error err => simp [h2] at hf
      | ok fs1 =>
        simp only [h1] at hs; simp only [h2] at hf
        have := inv_run fs0 t s1 s' fs1 fs' _ (inv_step fs0 s s1 fs fs1 W e hi h1 h2) hs hf
        simpa [allWrites_cons] using this

theorem inv_init (fs0 : FS) (hh : fs0.hist = []) : Inv fs0 St.init fs0 [] := by
  simp [GInv, St.init, hh]

theorem run_append (s : St) (p q : List Ev) :
    s.run (p ++ q) = (s.run p).bind (fun s' => s'.run q) := by
  induction p generalizing s with
  | nil => simp [St.run]
  | cons e p ih =>
    simp only [List.cons_append, St.run]
    cases s.step e with
    | none => simp
    | some s1 => simpa using ih s1

theorem exec_append (fs : FS) (p q : List Ev) :
    exec fs (p ++ q) = (exec fs p).bind (fun fs' => exec fs' q) := by
  induction p generalizing fs with
  | nil => simp [exec]
  | cons e p ih =>
    simp only [List.cons_append, exec]
    cases fs.step e with
    | error _ => simp
    | ok fs1 => simpa using ih fs1

/-- the automaton has seen the publishing event -/
def St.published (s : St) : Bool := s.phase == .linked || s.phase == .done

theorem published_step (s s' : St) (e : Ev) (h : s.step e = some s') :
    s'.published = (s.published || publishes [e]) ∧ (s.published = true → evWrites e = []) := by
  obtain ⟨ph, op, db, us⟩ := s
  cases e <;> cases ph <;> simp [St.step] at h
  all_goals (try (obtain ⟨_, rfl⟩ := h))
  all_goals (try subst h)
  all_goals simp [St.published, publishes, evWrites]
  all_goals decide

theorem publishes_cons (e : Ev) (t : List Ev) : publishes (e :: t) = (publishes [e] || publishes t) := by
  cases e <;> simp [publishes]

theorem published_run : ∀ (t : List Ev) (s s' : St), s.run t = some s' →
    s'.published = (s.published || publishes t) ∧ (s.published = true → allWrites t = [])
  | [], s, s', h => by simp [St.run] at h; subst h; simp [publishes, allWrites]
  | e :: t, s, s', h => by
    simp only [St.run] at h
    cases h1 : s.step e with
    | none => simp [h1] at h
    | some s1 =>
      simp only [h1] at h
      obtain ⟨a1, a2⟩ := published_step s s1 e h1
      obtain ⟨b1, b2⟩ := published_run t s1 s' h
      rw [publishes_cons, allWrites_cons]
      constructor
      · rw [b1, a1]; simp [Bool.or_assoc]
      · intro hp
        have : s1.published = true := by rw [a1, hp]; simp
        simp [a2 hp, b2 this]

/-- the destination's inode is fully synced (nothing of it can be lost by a power failure) -/
def DestSynced (fs : FS) : Prop :=
  ∀ i x, fs.dir.dest = some i → fs.inodes[i]? = some x → x.tail = []

theorem inode?_old (fs0 fs : FS) (x : Inode) (hwf : fs0.WF) (h : fs.inodes = fs0.inodes ++ [x]) :
    fs.inode? fs0.dir.dest = fs0.inode? fs0.dir.dest := by
  unfold FS.inode?
  cases hd : fs0.dir.dest with
  | none => rfl
  | some i =>
    have := hwf.1 i hd
    simp [h, List.getElem?_append_left this]

theorem afterPower_synced (x : Inode) (k : Nat) (h : x.tail = []) : x.afterPower k = x.cache := by
  simp [Inode.afterPower, Inode.cache, h]

/-- before publication: a reader of the destination finds exactly what was there at the start,
    after a process death and after a power loss -/
theorem inv_unpublished (fs0 fs : FS) (s : St) (W : Bytes) (hwf : fs0.WF) (hsy : DestSynced fs0)
    (hi : Inv fs0 s fs W) (hp : s.published = false) :
    fs.destAfterProcCrash = fs0.readDest ∧ ∀ r, fs.PowerDest r → r = fs0.readDest := by
  obtain ⟨ph, op, db, us⟩ := s
  have key : ∀ (x : Option Inode), fs.inode? fs0.dir.dest = fs0.inode? fs0.dir.dest →
      fs.dir.dest = fs0.dir.dest → (∀ d ∈ fs.hist, d.dest = fs0.dir.dest) →
      fs.destAfterProcCrash = fs0.readDest ∧ ∀ r, fs.PowerDest r → r = fs0.readDest := by
    intro _ hino hd hh
    constructor
    · simp [FS.destAfterProcCrash, FS.procCrash, FS.readDest, FS.inode?] at *
      rw [hd]; simpa [FS.inode?] using congrArg (Option.map Inode.cache) hino
    · rintro r ⟨d, hdm, k, rfl⟩
      have hdd : d.dest = fs0.dir.dest := by
        rcases List.mem_cons.1 hdm with rfl | h
        · exact hd
        · exact hh d h
      rw [hdd, hino]
      unfold FS.readDest
      cases hx : fs0.inode? fs0.dir.dest with
      | none => rfl
      | some x =>
        simp only [Option.map_some]
        congr 1
        apply afterPower_synced
        unfold FS.inode? at hx
        cases hd0 : fs0.dir.dest with
        | none => simp [hd0] at hx
        | some i => simp only [hd0] at hx; exact hsy i x hd0 hx
  cases ph <;> simp [St.published] at hp <;> simp only [GInv] at hi
  · obtain ⟨h1, h2, h3, _, _⟩ := hi
    exact key none (by simp [FS.inode?, h1]) h2 h3
  · obtain ⟨h1, h2, _, x, h4, _⟩ := hi
    exact key none (inode?_old fs0 fs x hwf h4) h1 h2
  · obtain ⟨h1, h2, _, x, h4, _⟩ := hi
    exact key none (inode?_old fs0 fs x hwf h4) h1 h2

/-- after publication: a process death leaves the complete new content; a power loss leaves the
    old state or the complete new content -/
theorem inv_published (fs0 fs : FS) (s : St) (W : Bytes) (hwf : fs0.WF) (hsy : DestSynced fs0)
    (hi : Inv fs0 s fs W) (hp : s.published = true) :
    fs.destAfterProcCrash = some W ∧ ∀ r, fs.PowerDest r → r = fs0.readDest ∨ r = some W := by
  obtain ⟨ph, op, db, us⟩ := s
  have key : ∀ x : Inode, fs.inodes = fs0.inodes ++ [x] → x.durable = W → x.tail = [] →
      fs.dir.dest = some fs0.inodes.length →
      (∀ d ∈ fs.hist, d.dest = fs0.dir.dest ∨ d.dest = some fs0.inodes.length) →
      fs.destAfterProcCrash = some W ∧ ∀ r, fs.PowerDest r → r = fs0.readDest ∨ r = some W := by
    intro x h4 h5 h6 h1 h3
    have hnew : fs.inode? (some fs0.inodes.length) = some x := by simp [FS.inode?, h4]
    constructor
    · simp [FS.destAfterProcCrash, FS.procCrash, FS.readDest, h1, FS.inode?, h4, Inode.cache, h5, h6]
    · rintro r ⟨d, hdm, k, rfl⟩
      have hdd : d.dest = fs0.dir.dest ∨ d.dest = some fs0.inodes.length := by
        rcases List.mem_cons.1 hdm with rfl | h
        · exact Or.inr h1
        · exact h3 d h
      rcases hdd with hdd | hdd
      · left
        rw [hdd, inode?_old fs0 fs x hwf h4]
        unfold FS.readDest
        cases hx : fs0.inode? fs0.dir.dest with
        | none => rfl
        | some y =>
          simp only [Option.map_some]
          congr 1
          apply afterPower_synced
          unfold FS.inode? at hx
          cases hd0 : fs0.dir.dest with
          | none => simp [hd0] at hx
          | some i => simp only [hd0] at hx; exact hsy i y hd0 hx
      · right
        rw [hdd, hnew]
        simp [Inode.afterPower, h5, h6]
  cases ph <;> simp [St.published] at hp <;> simp only [GInv] at hi
  · obtain ⟨h1, _, h3, x, h4, h5, h6, _⟩ := hi
    exact key x h4 h5 h6 h1 h3
  · obtain ⟨h1, _, h3, x, h4, h5, h6, _⟩ := hi
    exact key x h4 h5 h6 h1 h3

end C04

/-! ### the transliterated saver -/
namespace C04

theorem run_writes (ws : List (Bytes × Nat)) (db us : Bool) :
    ∃ db' us', (St.mk .part true db us).run (ws.map fun w => Ev.write w.1 w.2) = some ⟨.part, true, db', us'⟩ := by
  induction ws generalizing db us with
  | nil => exact ⟨db, us, by simp [St.run]⟩
  | cons w ws ih =>
    obtain ⟨db', us', h⟩ := ih true true
    exact ⟨db', us', by simpa [St.run, St.step] using h⟩

def saverFinal (cfg : Cfg) (body : Body) : St :=
  ⟨if body.raises then (if cfg.rmPartOnExc then .aborted else .part) else .done, false, false, false⟩

/-- the part of the saver's trace after the creation of the part file -/
def saverRest (cfg : Cfg) (fs : FS) (body : Body) : List Ev :=
  Ev.noop ::
  ((if (choosePerms cfg fs).2 then [Ev.chmodPart (choosePerms cfg fs).1] else []) ++
  (body.writes.map (fun w => Ev.write w.1 w.2) ++
  ([Ev.flush, Ev.fsync, Ev.close] ++
  (if body.raises then (if cfg.rmPartOnExc then [Ev.unlinkPart] else [])
   else if cfg.overwrite then [Ev.renamePartDest] else [Ev.linkPartDest, Ev.unlinkPart]))))

def saverPre (cfg : Cfg) (fs : FS) : List Ev :=
  if cfg.overwritePart && fs.dir.part.isSome then [Ev.unlinkPart] else []

theorem saverTrace_split (cfg : Cfg) (fs : FS) (body : Body) :
    saverTrace cfg fs body = saverPre cfg fs ++ ([Ev.openPart true true (choosePerms cfg fs).1] ++ saverRest cfg fs body) := by
  simp [saverTrace, saverPre, saverRest, List.append_assoc]

theorem saverRest_run (cfg : Cfg) (fs : FS) (body : Body) :
    (St.mk .part true false false).run (saverRest cfg fs body) = some (saverFinal cfg body) := by
  unfold saverRest
  simp only [St.run, St.step]
  have chm : ∀ t, (St.mk .part true false false).run ((if (choosePerms cfg fs).2 then [Ev.chmodPart (choosePerms cfg fs).1] else []) ++ t) = (St.mk .part true false false).run t := by
    intro t; split <;> simp [St.run, St.step]
  rw [chm, run_append]
  obtain ⟨db, us, hw⟩ := run_writes body.writes false false
  rw [hw]
  simp only [Option.bind_some]
  cases hr : body.raises <;> cases hm : cfg.rmPartOnExc <;> cases ho : cfg.overwrite <;>
    simp [St.run, St.step, saverFinal, hr, hm, ho]

theorem saver_run (cfg : Cfg) (fs : FS) (body : Body) :
    St.init.run (saverTrace cfg fs body) = some (saverFinal cfg body) := by
  rw [saverTrace_split, run_append]
  have pre : St.init.run (saverPre cfg fs) = some St.init := by
    unfold saverPre; split <;> simp [St.run, St.step, St.init]
  rw [pre]
  simp only [Option.bind_some, List.singleton_append]
  simp only [St.run, St.step, St.init]
  simpa using saverRest_run cfg fs body

theorem saver_safe (cfg : Cfg) (fs : FS) (body : Body) : SafeTrace (saverTrace cfg fs body) = true := by
  simp [SafeTrace, saver_run]

end C04
namespace C04

/-- events whose success is guaranteed by the invariant alone -/
def Ev.auto (dest0 : Option Nat) : Ev → Bool
  | .openPart _ _ _ => false
  | .linkPartDest => dest0.isNone
  | _ => true

theorem inv_openf (fs0 : FS) (s : St) (fs : FS) (W : Bytes) (hi : Inv fs0 s fs W)
    (ho : s.isOpen = true) : ∃ f, fs.openf = some f := by
  obtain ⟨ph, op, db, us⟩ := s
  simp at ho; subst ho
  cases ph <;> simp only [GInv] at hi
  · simp at hi
  · obtain ⟨_, _, _, x, _, _, h6⟩ := hi
    simp only [if_true] at h6
    obtain ⟨buf, h7, _⟩ := h6
    exact ⟨_, h7⟩
  · obtain ⟨_, _, _, x, _, _, _, h7, _⟩ := hi
    exact ⟨_, h7 trivial⟩
  · obtain ⟨_, _, _, x, _, _, _, h7, _⟩ := hi
    exact ⟨_, h7 trivial⟩
  · obtain ⟨_, _, _, x, _, h6⟩ := hi
    obtain ⟨buf, h7⟩ := h6 trivial
    exact ⟨_, h7⟩

theorem progress (fs0 : FS) (s s' : St) (fs : FS) (W : Bytes) (e : Ev)
    (hi : Inv fs0 s fs W) (hs : s.step e = some s') (hph : s.phase ≠ .init) (he : e.auto fs0.dir.dest = true) :
    ∃ fs', fs.step e = .ok fs' := by
  cases e with
  | noop => exact ⟨fs, rfl⟩
  | openPart a b c => simp [Ev.auto] at he
  | chmodPart m =>
    obtain ⟨ph, op, db, us⟩ := s
    cases ph <;> simp [St.step] at hs
    simp only [GInv] at hi
    obtain ⟨_, _, h3, _⟩ := hi
    simp [FS.step, FS.chmodPart, h3]
  | write d k =>
    have ho : s.isOpen = true := by simp [St.step] at hs; exact hs.1.1
    obtain ⟨f, hf⟩ := inv_openf fs0 s fs W hi ho
    simp [FS.step, FS.write, hf]
  | flush =>
    have ho : s.isOpen = true := by simp [St.step] at hs; exact hs.1
    obtain ⟨f, hf⟩ := inv_openf fs0 s fs W hi ho
    simp [FS.step, FS.flush, hf]
  | fsync =>
    have ho : s.isOpen = true := by simp [St.step] at hs; exact hs.1
    obtain ⟨f, hf⟩ := inv_openf fs0 s fs W hi ho
    simp [FS.step, FS.fsync, hf]
  | close =>
    have ho : s.isOpen = true := by simp [St.step] at hs; exact hs.1
    obtain ⟨f, hf⟩ := inv_openf fs0 s fs W hi ho
    simp [FS.step, FS.close, hf]
  | closeFd =>
    have ho : s.isOpen = true := by simp [St.step] at hs; exact hs.1.1
    obtain ⟨f, hf⟩ := inv_openf fs0 s fs W hi ho
    simp [FS.step, FS.closeFd, hf]
  | renamePartDest =>
    obtain ⟨ph, op, db, us⟩ := s
    simp [St.step] at hs
    obtain ⟨⟨rfl, _⟩, _⟩ := hs
    simp only [GInv] at hi
    obtain ⟨_, _, h3, _⟩ := hi
    simp [FS.step, FS.renamePartDest, h3]
  | linkPartDest =>
    obtain ⟨ph, op, db, us⟩ := s
    simp [St.step] at hs
    obtain ⟨⟨rfl, _⟩, _⟩ := hs
    simp only [GInv] at hi
    obtain ⟨h1, _, h3, _⟩ := hi
    simp [Ev.auto] at he
    simp [FS.step, FS.linkPartDest, h3, h1, he]
  | unlinkPart =>
    obtain ⟨ph, op, db, us⟩ := s
    cases ph <;> simp [St.step] at hs <;> simp at hph <;> simp only [GInv] at hi
    · obtain ⟨_, _, h3, _⟩ := hi
      simp [FS.step, FS.unlinkPart, h3]
    · obtain ⟨_, h3, _⟩ := hi
      simp [FS.step, FS.unlinkPart, h3]
  | truncDest => simp [St.step] at hs
  | writeDest d => simp [St.step] at hs
  | unlinkDest => simp [St.step] at hs
  | unknown => simp [St.step] at hs

theorem step_not_init (s s' : St) (e : Ev) (hs : s.step e = some s') (h : s.phase ≠ .init) : s'.phase ≠ .init := by
  obtain ⟨ph, op, db, us⟩ := s
  cases e <;> cases ph <;> simp [St.step] at hs <;> simp at h
  all_goals (try (obtain ⟨_, rfl⟩ := hs))
  all_goals (try subst hs)
  all_goals simp

theorem run_exec (fs0 : FS) : ∀ (t : List Ev) (s s' : St) (fs : FS) (W : Bytes),
    Inv fs0 s fs W → s.run t = some s' → s.phase ≠ .init → (∀ e ∈ t, e.auto fs0.dir.dest = true) →
    ∃ fs', exec fs t = some fs' ∧ Inv fs0 s' fs' (W ++ allWrites t)
  | [], s, s', fs, W, hi, hs, _, _ => by
    simp [St.run] at hs; subst hs; exact ⟨fs, rfl, by simpa [allWrites] using hi⟩
  | e :: t, s, s', fs, W, hi, hs, hph, hall => by
    simp only [St.run] at hs
    cases h1 : s.step e with
    | none => simp [h1] at hs
    | some s1 =>
      simp only [h1] at hs
      obtain ⟨fs1, h2⟩ := progress fs0 s s1 fs W e hi h1 hph (hall e (by simp))
      have hi1 := inv_step fs0 s s1 fs fs1 W e hi h1 h2
      obtain ⟨fs', h3, h4⟩ := run_exec fs0 t s1 s' fs1 _ hi1 hs (step_not_init s s1 e h1 hph)
        (fun e' he' => hall e' (by simp [he']))
      exact ⟨fs', by simp [exec, h2, h3], by simpa [allWrites_cons] using h4⟩

end C04

namespace C04

theorem saverRest_auto (cfg : Cfg) (fs : FS) (body : Body)
    (hd : cfg.overwrite = true ∨ fs.dir.dest = none ∨ body.raises = true) :
    ∀ e ∈ saverRest cfg fs body, e.auto fs.dir.dest = true := by
  intro e he
  simp only [saverRest, List.mem_cons, List.mem_append, List.mem_map] at he
  rcases he with he | he | he | he | he
  · subst he; rfl
  · split at he <;> simp at he; subst he; rfl
  · obtain ⟨w, _, rfl⟩ := he; rfl
  · simp at he; rcases he with rfl | rfl | rfl <;> rfl
  · cases hr : body.raises <;> cases ho : cfg.overwrite <;> cases hm : cfg.rmPartOnExc <;>
      simp [hr, ho, hm] at he hd <;> (try (rcases he with rfl | rfl)) <;> (try subst he) <;> simp [Ev.auto, hd]

/-- the saver's trace can always be executed when nothing is in its way: the part file name is free
    (or `overwrite_part` is set), and the destination may be replaced (or is absent, or the block raises) -/
theorem saver_exec (cfg : Cfg) (fs : FS) (body : Body) (hh : fs.hist = [])
    (hp : fs.dir.part = none ∨ cfg.overwritePart = true)
    (hd : cfg.overwrite = true ∨ fs.dir.dest = none ∨ body.raises = true) :
    ∃ fs', exec fs (saverTrace cfg fs body) = some fs' ∧
      Inv fs (saverFinal cfg body) fs' (allWrites (saverTrace cfg fs body)) := by
  -- the optional removal of a stale part file
  obtain ⟨fs1, hx1, hi1, hp1⟩ : ∃ fs1, exec fs (saverPre cfg fs) = some fs1 ∧ Inv fs St.init fs1 [] ∧ fs1.dir.part = none := by
    unfold saverPre
    cases hpp : fs.dir.part with
    | none => exact ⟨fs, by simp [exec], inv_init fs hh, hpp⟩
    | some i =>
      have ho : cfg.overwritePart = true := by
        rcases hp with h | h
        · simp [hpp] at h
        · exact h
      have hs : fs.step .unlinkPart = .ok (fs.setDir { fs.dir with part := none }) := by
        simp [FS.step, FS.unlinkPart, hpp]
      refine ⟨fs.setDir { fs.dir with part := none }, by simp [ho, exec, hs], ?_, by simp [FS.setDir]⟩
      have := inv_step fs St.init St.init fs _ [] .unlinkPart (inv_init fs hh) (by simp [St.step, St.init]) hs
      simpa [evWrites] using this
  -- the exclusive creation
  have hs2 : ∃ fs2, fs1.step (.openPart true true (choosePerms cfg fs).1) = .ok fs2 := by
    simp [FS.step, FS.openPart, hp1]
  obtain ⟨fs2, hs2⟩ := hs2
  have hi2 := inv_step fs St.init ⟨.part, true, false, false⟩ fs1 fs2 [] _ hi1 (by simp [St.step, St.init]) hs2
  simp only [evWrites, List.append_nil] at hi2
  obtain ⟨fs', hx3, hi3⟩ := run_exec fs (saverRest cfg fs body) _ _ fs2 [] hi2 (saverRest_run cfg fs body)
    (by simp) (saverRest_auto cfg fs body hd)
  refine ⟨fs', ?_, ?_⟩
  · rw [saverTrace_split, exec_append, hx1]
    simp [exec, hs2, hx3]
  · have : allWrites (saverTrace cfg fs body) = allWrites (saverRest cfg fs body) := by
      rw [saverTrace_split, allWrites_append]
      have : allWrites (saverPre cfg fs) = [] := by unfold saverPre; split <;> simp [allWrites]
      simp [this, allWrites]
    rw [this]; simpa using hi3

theorem allWrites_saverTrace (cfg : Cfg) (fs : FS) (body : Body) :
    allWrites (saverTrace cfg fs body) = (body.writes.map (·.1)).flatten := by
  have hw : ∀ ws : List (Bytes × Nat), allWrites (ws.map fun w => Ev.write w.1 w.2) = (ws.map (·.1)).flatten := by
    intro ws; induction ws with
    | nil => simp [allWrites]
    | cons w ws ih => simp [allWrites, ih]
  simp only [saverTrace, allWrites_append, hw]
  cases body.raises <;> cases cfg.rmPartOnExc <;> cases cfg.overwrite <;> cases (choosePerms cfg fs).2 <;>
    cases (cfg.overwritePart && fs.dir.part.isSome) <;> simp [allWrites]

end C04
