import BoltonsVerif.C04.Proofs
/-
C04 (round 3) — what OBSERVERS of the directory see while a save runs, and the `overwrite=False`
publication (`link part dest`, then `unlink part`) in detail.

* a live reader (no crash): the destination reads old-or-complete-new after every event; every inode
  that existed at the start is never modified (a reader that opened the destination before the save
  keeps reading exactly the old content through its descriptor, also after the publication);
  the destination's name never disappears;
* the directory listing: the part file's name is present exactly while the automaton is in the
  phases `part` / `linked`;
* the window between `link` and `unlink`: both names point to ONE inode holding the complete, durable
  new content; a process death there leaves the complete destination plus the part file's name
  (a second hard link); removing that name later does not touch the destination;
* publication by `link` never replaces a destination: with a destination present no accepted trace
  without a `rename` can get past its publishing event.

Core Lean only.
-/
namespace C04

/-- what `os.listdir` shows of the two names -/
def FS.hasDest (fs : FS) : Bool := fs.dir.dest.isSome
def FS.hasPart (fs : FS) : Bool := fs.dir.part.isSome

/-- the two names are hard links to one inode -/
def FS.sameInode (fs : FS) : Bool := fs.dir.dest.isSome && fs.dir.dest == fs.dir.part

/-- the process is gone and the directory has reached the disk -/
def FS.reboot (fs : FS) : FS := { fs.procCrash with hist := [] }

theorem inv_old_inodes (fs0 : FS) (s : St) (fs : FS) (W : Bytes) (hi : Inv fs0 s fs W) :
    ∀ i, i < fs0.inodes.length → fs.inodes[i]? = fs0.inodes[i]? := by
  intro i hlt
  obtain ⟨ph, op, db, us⟩ := s
  cases ph <;> simp only [GInv] at hi
  · rw [hi.1]
  · obtain ⟨_, _, _, x, h4, _⟩ := hi
    rw [h4, List.getElem?_append_left hlt]
  · obtain ⟨_, _, _, x, h4, _⟩ := hi
    rw [h4, List.getElem?_append_left hlt]
  · obtain ⟨_, _, _, x, h4, _⟩ := hi
    rw [h4, List.getElem?_append_left hlt]
  · obtain ⟨_, _, _, x, h4, _⟩ := hi
    rw [h4, List.getElem?_append_left hlt]

/-- the part file's name is in the directory exactly in the phases `part` and `linked`
    (in phase `init` it is whatever lay there at the start, minus a removed stale file) -/
theorem inv_hasPart (fs0 : FS) (s : St) (fs : FS) (W : Bytes) (hi : Inv fs0 s fs W) (h0 : s.phase ≠ .init) :
    fs.hasPart = (s.phase == .part || s.phase == .linked) := by
  obtain ⟨ph, op, db, us⟩ := s
  cases ph <;> simp only [GInv] at hi <;> simp at h0
  · simp [FS.hasPart, hi.2.2.1]
  · simp [FS.hasPart, hi.2.1]
  · simp [FS.hasPart, hi.2.1]
  · simp [FS.hasPart, hi.2.2.1]

/-- in the window between `link` and `unlink` -/
theorem inv_linked (fs0 : FS) (s : St) (fs : FS) (W : Bytes) (hi : Inv fs0 s fs W) (hl : s.phase = .linked) :
    fs.dir.dest = some fs0.inodes.length ∧ fs.dir.part = some fs0.inodes.length ∧
    fs.inodes[fs0.inodes.length]? = some ⟨W, [], (fs.inodes[fs0.inodes.length]?.map (·.mode)).getD 0⟩ := by
  obtain ⟨ph, op, db, us⟩ := s
  simp at hl; subst hl
  simp only [GInv] at hi
  obtain ⟨h1, h2, _, x, h4, h5, h6, _⟩ := hi
  refine ⟨h1, h2, ?_⟩
  rw [h4]
  simp
  cases x with
  | mk d t m => simp at h5 h6; subst h5; subst h6; rfl

/-- `publishes p` splits `p` at its first publishing event -/
theorem publishes_split : ∀ (p : List Ev), publishes p = true →
    ∃ p1 e p2, p = p1 ++ e :: p2 ∧ publishes p1 = false ∧ (e = .renamePartDest ∨ e = .linkPartDest)
  | [], h => by simp [publishes] at h
  | e :: t, h => by
    by_cases he : e = .renamePartDest ∨ e = .linkPartDest
    · exact ⟨[], e, t, rfl, rfl, he⟩
    · have ht : publishes t = true := by
        cases e <;> simp [publishes] at h he ⊢ <;> exact h
      obtain ⟨p1, e', p2, rfl, h1, h2⟩ := publishes_split t ht
      refine ⟨e :: p1, e', p2, rfl, ?_, h2⟩
      cases e <;> simp [publishes] at he ⊢ <;> exact h1

/-- does the trace contain `rename part dest` -/
def usesRename : List Ev → Bool
  | [] => false
  | .renamePartDest :: _ => true
  | _ :: t => usesRename t

theorem usesRename_append (p q : List Ev) : usesRename (p ++ q) = (usesRename p || usesRename q) := by
  induction p with
  | nil => simp [usesRename]
  | cons e p ih => cases e <;> simp [usesRename, ih]

theorem exec_prefix_some (fs : FS) (p q : List Ev) (fs' : FS) (h : exec fs (p ++ q) = some fs') :
    ∃ fs1, exec fs p = some fs1 ∧ exec fs1 q = some fs' := by
  rw [exec_append] at h
  cases hp : exec fs p with
  | none => simp [hp] at h
  | some fs1 => exact ⟨fs1, rfl, by simpa [hp] using h⟩

theorem run_prefix_some (s : St) (p q : List Ev) (s' : St) (h : s.run (p ++ q) = some s') :
    ∃ s1, s.run p = some s1 ∧ s1.run q = some s' := by
  rw [run_append] at h
  cases hp : s.run p with
  | none => simp [hp] at h
  | some s1 => exact ⟨s1, rfl, by simpa [hp] using h⟩

end C04
