import BoltonsVerif.C04.Proofs
/-
C04 — a with-body that closes the part file itself (`fo.close()`, `with fo:`, a wrapper such as
`io.TextIOWrapper(fo)` that closes the underlying stream) before the block ends.

`AtomicSaver.__exit__` then calls `flush()` on the closed file object, which raises `ValueError`
(no effect on the file system: `noop`); `fsync` is not reached; the `close()` in the `finally`
finds the file closed (`noop`); the `except Exception` branch removes the part file (when
`rm_part_on_exc`) and the `ValueError` is raised (or, when the block itself raised, the block's
exception propagates).  Nothing is published: what the body wrote was never synced by the saver.

Core Lean only (the driver links this file).
-/
namespace C04

/-- the part of the trace after the creation of the part file, for a body that closes the file -/
def closedRest (cfg : Cfg) (fs : FS) (writes : List (Bytes × Nat)) : List Ev :=
  Ev.noop ::
  ((if (choosePerms cfg fs).2 then [Ev.chmodPart (choosePerms cfg fs).1] else []) ++
  (writes.map (fun w => Ev.write w.1 w.2) ++
  ([Ev.close, Ev.noop, Ev.noop] ++ (if cfg.rmPartOnExc then [Ev.unlinkPart] else []))))

/-- the events of a save whose body closes the part file after its writes (raising or not) -/
def saverTraceClosed (cfg : Cfg) (fs : FS) (writes : List (Bytes × Nat)) : List Ev :=
  saverPre cfg fs ++ ([Ev.openPart true true (choosePerms cfg fs).1] ++ closedRest cfg fs writes)

def closedPhase (cfg : Cfg) : Phase := if cfg.rmPartOnExc then .aborted else .part

theorem closedRest_run (cfg : Cfg) (fs : FS) (writes : List (Bytes × Nat)) :
    ∃ us, (St.mk .part true false false).run (closedRest cfg fs writes) = some ⟨closedPhase cfg, false, false, us⟩ := by
  unfold closedRest
  simp only [St.run, St.step]
  have chm : ∀ t, (St.mk .part true false false).run ((if (choosePerms cfg fs).2 then [Ev.chmodPart (choosePerms cfg fs).1] else []) ++ t) = (St.mk .part true false false).run t := by
    intro t; split <;> simp [St.run, St.step]
  rw [chm, run_append]
  obtain ⟨db, us, hw⟩ := run_writes writes false false
  rw [hw]
  simp only [Option.bind_some]
  cases hm : cfg.rmPartOnExc <;> simp [St.run, St.step, closedPhase, hm]

theorem closed_run (cfg : Cfg) (fs : FS) (writes : List (Bytes × Nat)) :
    ∃ us, St.init.run (saverTraceClosed cfg fs writes) = some ⟨closedPhase cfg, false, false, us⟩ := by
  obtain ⟨us, h⟩ := closedRest_run cfg fs writes
  refine ⟨us, ?_⟩
  unfold saverTraceClosed
  rw [run_append]
  have pre : St.init.run (saverPre cfg fs) = some St.init := by
    unfold saverPre; split <;> simp [St.run, St.step, St.init]
  rw [pre]
  simp only [Option.bind_some, List.singleton_append]
  simp only [St.run, St.step, St.init]
  simpa using h

theorem closed_safe (cfg : Cfg) (fs : FS) (writes : List (Bytes × Nat)) :
    SafeTrace (saverTraceClosed cfg fs writes) = true := by
  obtain ⟨us, h⟩ := closed_run cfg fs writes
  simp [SafeTrace, h]

theorem closedRest_auto (cfg : Cfg) (fs : FS) (writes : List (Bytes × Nat)) :
    ∀ e ∈ closedRest cfg fs writes, e.auto fs.dir.dest = true := by
  intro e he
  simp only [closedRest, List.mem_cons, List.mem_append, List.mem_map] at he
  rcases he with he | he | he | he | he
  · subst he; rfl
  · split at he <;> simp at he; subst he; rfl
  · obtain ⟨w, _, rfl⟩ := he; rfl
  · simp at he; rcases he with rfl | rfl <;> rfl
  · split at he <;> simp at he; subst he; rfl

/-- after the (optional) removal of a stale part file and the exclusive creation, any continuation
    that the automaton accepts and that needs no luck (`Ev.auto`) can be executed -/
theorem open_then_exec (cfg : Cfg) (fs : FS) (rest : List Ev) (sfin : St) (hh : fs.hist = [])
    (hp : fs.dir.part = none ∨ cfg.overwritePart = true)
    (hrun : (St.mk .part true false false).run rest = some sfin)
    (hauto : ∀ e ∈ rest, e.auto fs.dir.dest = true) :
    ∃ fs', exec fs (saverPre cfg fs ++ ([Ev.openPart true true (choosePerms cfg fs).1] ++ rest)) = some fs' ∧
      Inv fs sfin fs' (allWrites rest) := by
  obtain ⟨fs1, hx1, hi1, hp1⟩ : ∃ fs1, exec fs (saverPre cfg fs) = some fs1 ∧ Inv fs St.init fs1 [] ∧ fs1.dir.part = none := by
    unfold saverPre
    cases hpp : fs.dir.part with
    | none => exact ⟨fs, by simp [exec], inv_init fs hh, hpp⟩
    | some i =>
      have ho : cfg.overwritePart = true := by
        rcases hp with h | h
        · simp [hpp] at h
        · exact h
      have hs : fs.step .unlinkPart = .ok (fs.setDir { fs.dir with part := none }) := by
        simp [FS.step, FS.unlinkPart, hpp]
      refine ⟨fs.setDir { fs.dir with part := none }, by simp [ho, exec, hs], ?_, by simp [FS.setDir]⟩
      have := inv_step fs St.init St.init fs _ [] .unlinkPart (inv_init fs hh) (by simp [St.step, St.init]) hs
      simpa [evWrites] using this
  have hs2 : ∃ fs2, fs1.step (.openPart true true (choosePerms cfg fs).1) = .ok fs2 := by
    simp [FS.step, FS.openPart, hp1]
  obtain ⟨fs2, hs2⟩ := hs2
  have hi2 := inv_step fs St.init ⟨.part, true, false, false⟩ fs1 fs2 [] _ hi1 (by simp [St.step, St.init]) hs2
  simp only [evWrites, List.append_nil] at hi2
  obtain ⟨fs', hx3, hi3⟩ := run_exec fs rest _ _ fs2 [] hi2 hrun (by simp) hauto
  refine ⟨fs', ?_, by simpa using hi3⟩
  rw [exec_append, hx1]
  simp [exec, hs2, hx3]

theorem publishes_append (p q : List Ev) : publishes (p ++ q) = (publishes p || publishes q) := by
  induction p with
  | nil => simp [publishes]
  | cons e p ih => rw [List.cons_append, publishes_cons, publishes_cons e p, ih, Bool.or_assoc]

theorem closed_never_publishes (cfg : Cfg) (fs : FS) (writes : List (Bytes × Nat)) :
    publishes (saverTraceClosed cfg fs writes) = false := by
  have hw : ∀ ws : List (Bytes × Nat), publishes (ws.map fun w => Ev.write w.1 w.2) = false := by
    intro ws; induction ws with
    | nil => simp [publishes]
    | cons w ws ih => simp [publishes, ih]
  unfold saverTraceClosed closedRest saverPre
  cases cfg.rmPartOnExc <;> cases (choosePerms cfg fs).2 <;>
    cases (cfg.overwritePart && fs.dir.part.isSome) <;> simp [publishes, publishes_append, hw]

end C04
