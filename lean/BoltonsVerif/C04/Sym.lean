import BoltonsVerif.C04.Proofs
/-
C04 (round 3) — a destination path that is a SYMBOLIC LINK.

The directory gets a third name `tgt` that the save never touches, and the destination's entry is
either a file or a symbolic link to `tgt` (which may be absent: a link to nothing).  Readers of the
destination PATH follow the link.  `rename part dest` replaces the entry itself (the link goes, the
target stays); `link part dest` refuses whenever the NAME exists, also for a link to nothing.

`SFS.abs` forgets the link: the destination's entry becomes the inode a reader of the path reaches.
Every step of the link-aware file system is a step of the plain one on the abstraction
(`sstep_sim`), so everything proved for `C04.FS` holds for what readers of a symlinked destination see.
In-place events (`truncDest`, `writeDest`, `unlinkDest`, `unknown`), which `SafeTrace` rejects anyway,
are not given a link-aware semantics (they fail here).

Core Lean only.
-/
namespace C04

inductive DEntry where
  | file (ino : Nat)
  | link
deriving DecidableEq, Repr

structure SDir where
  dest : Option DEntry
  part : Option Nat
  tgt : Option Nat
deriving DecidableEq, Repr

/-- the inode a reader of the destination path reaches -/
def SDir.resolve (d : SDir) : Option Nat :=
  match d.dest with
  | none => none
  | some (.file i) => some i
  | some .link => d.tgt

def SDir.abs (d : SDir) : Dir := ⟨d.resolve, d.part⟩

structure SFS where
  inodes : List Inode
  dir : SDir
  hist : List SDir
  openf : Option OpenFile
  umask : Nat
deriving DecidableEq, Repr

def SFS.abs (s : SFS) : FS := ⟨s.inodes, s.dir.abs, s.hist.map SDir.abs, s.openf, s.umask⟩

/-- what a reader of the destination PATH finds (the link is followed) -/
def SFS.readDest (s : SFS) : Option Bytes := s.abs.readDest

def SFS.setDir (s : SFS) (d : SDir) : SFS := { s with dir := d, hist := s.dir :: s.hist }

/-- events that do not change the directory act on the inode table / the open file exactly as in `FS` -/
def SFS.viaAbs (s : SFS) (e : Ev) : Except Errno SFS :=
  match s.abs.step e with
  | .ok fs' => .ok { s with inodes := fs'.inodes, openf := fs'.openf }
  | .error err => .error err

def SFS.step (s : SFS) : Ev → Except Errno SFS
  | .openPart excl sd mode =>
    match s.dir.part with
    | some i => if excl then .error EEXIST else .ok { s with openf := some ⟨i, []⟩ }
    | none =>
      .ok { (s.setDir { s.dir with part := some s.inodes.length }) with
            inodes := s.inodes ++ [⟨[], [], mode &&& (0o7777 ^^^ (s.umask &&& 0o7777))⟩],
            openf := some ⟨s.inodes.length, []⟩ }
  | .renamePartDest =>
    match s.dir.part with
    | none => .error ENOENT
    | some i => .ok (s.setDir ⟨some (.file i), none, s.dir.tgt⟩)
  | .linkPartDest =>
    match s.dir.part with
    | none => .error ENOENT
    | some i =>
      match s.dir.dest with
      | some _ => .error EEXIST          -- the NAME exists (a file, a link, a link to nothing)
      | none => .ok (s.setDir ⟨some (.file i), some i, s.dir.tgt⟩)
  | .unlinkPart =>
    match s.dir.part with
    | none => .error ENOENT
    | some _ => .ok (s.setDir { s.dir with part := none })
  | .truncDest => .error EBADF
  | .writeDest _ => .error EBADF
  | .unlinkDest => .error EBADF
  | .unknown => .error EBADF
  | e => s.viaAbs e

def SFS.exec (s : SFS) : List Ev → Option SFS
  | [] => some s
  | e :: t => match s.step e with
    | .ok s' => SFS.exec s' t
    | .error _ => none

theorem viaAbs_sim (s s' : SFS) (e : Ev) (hdir : ∀ fs', s.abs.step e = .ok fs' → fs'.dir = s.abs.dir ∧ fs'.hist = s.abs.hist ∧ fs'.umask = s.abs.umask)
    (h : s.viaAbs e = .ok s') : s.abs.step e = .ok s'.abs := by
  unfold SFS.viaAbs at h
  cases hs : s.abs.step e with
  | error err => simp [hs] at h
  | ok fs' =>
    simp [hs] at h
    obtain ⟨h1, h2, h3⟩ := hdir fs' hs
    subst h
    cases fs' with
    | mk ino dir hist openf umask =>
      simp only [SFS.abs] at h1 h2 h3 ⊢
      subst h1; subst h2; subst h3; rfl

/-- **Simulation**: a step of the link-aware file system is the same step of the plain file system on
    what readers of the paths see -/
theorem sstep_sim (s s' : SFS) (e : Ev) (h : s.step e = .ok s') : s.abs.step e = .ok s'.abs := by
  cases e with
  | openPart excl sd mode =>
    simp only [SFS.step] at h
    cases hp : s.dir.part with
    | some i =>
      simp only [hp] at h
      cases excl <;> simp at h
      subst h
      simp [FS.step, FS.openPart, SFS.abs, SDir.abs, hp]
    | none =>
      simp only [hp] at h
      simp at h; subst h
      simp [FS.step, FS.openPart, SFS.abs, SDir.abs, hp, SFS.setDir, FS.setDir, SDir.resolve]
  | renamePartDest =>
    simp only [SFS.step] at h
    cases hp : s.dir.part with
    | none => simp [hp] at h
    | some i =>
      simp [hp] at h; subst h
      simp [FS.step, FS.renamePartDest, SFS.abs, SDir.abs, hp, SFS.setDir, FS.setDir, SDir.resolve]
  | linkPartDest =>
    simp only [SFS.step] at h
    cases hp : s.dir.part with
    | none => simp [hp] at h
    | some i =>
      cases hd : s.dir.dest with
      | some x => simp [hp, hd] at h
      | none =>
        simp [hp, hd] at h; subst h
        simp [FS.step, FS.linkPartDest, SFS.abs, SDir.abs, hp, hd, SFS.setDir, FS.setDir, SDir.resolve]
  | unlinkPart =>
    simp only [SFS.step] at h
    cases hp : s.dir.part with
    | none => simp [hp] at h
    | some i =>
      simp [hp] at h; subst h
      simp [FS.step, FS.unlinkPart, SFS.abs, SDir.abs, hp, SFS.setDir, FS.setDir, SDir.resolve]
  | truncDest => simp [SFS.step] at h
  | writeDest d => simp [SFS.step] at h
  | unlinkDest => simp [SFS.step] at h
  | unknown => simp [SFS.step] at h
  | noop =>
    exact viaAbs_sim s s' _ (by intro fs' hf; simp [FS.step] at hf; subst hf; simp) h
  | chmodPart m =>
    refine viaAbs_sim s s' _ ?_ h
    intro fs' hf
    simp only [FS.step, FS.chmodPart] at hf
    split at hf <;> simp at hf
    subst hf; simp
  | write d k =>
    refine viaAbs_sim s s' _ ?_ h
    intro fs' hf
    simp only [FS.step, FS.write] at hf
    split at hf <;> simp at hf
    subst hf; simp
  | flush =>
    refine viaAbs_sim s s' _ ?_ h
    intro fs' hf
    simp only [FS.step, FS.flush] at hf
    split at hf <;> simp at hf
    subst hf; simp
  | fsync =>
    refine viaAbs_sim s s' _ ?_ h
    intro fs' hf
    simp only [FS.step, FS.fsync] at hf
    split at hf <;> simp at hf
    subst hf; simp
  | close =>
    refine viaAbs_sim s s' _ ?_ h
    intro fs' hf
    simp only [FS.step, FS.close] at hf
    split at hf <;> simp at hf
    subst hf; simp
  | closeFd =>
    refine viaAbs_sim s s' _ ?_ h
    intro fs' hf
    simp only [FS.step, FS.closeFd] at hf
    split at hf <;> simp at hf
    subst hf; simp

theorem sexec_sim : ∀ (t : List Ev) (s s' : SFS), SFS.exec s t = some s' → exec s.abs t = some s'.abs
  | [], s, s', h => by simp [SFS.exec] at h; subst h; rfl
  | e :: t, s, s', h => by
    simp only [SFS.exec] at h
    cases hs : s.step e with
    | error err => simp [hs] at h
    | ok s1 =>
      simp only [hs] at h
      simp only [exec, sstep_sim s s1 e hs]
      exact sexec_sim t s1 s' h

/-- the target's name is never touched -/
theorem sstep_tgt (s s' : SFS) (e : Ev) (h : s.step e = .ok s') : s'.dir.tgt = s.dir.tgt := by
  cases e with
  | openPart excl sd mode =>
    simp only [SFS.step] at h
    cases hp : s.dir.part with
    | some i =>
      simp only [hp] at h
      cases excl <;> simp at h
      subst h; rfl
    | none => simp only [hp] at h; simp at h; subst h; simp [SFS.setDir]
  | renamePartDest =>
    simp only [SFS.step] at h
    cases hp : s.dir.part with
    | none => simp [hp] at h
    | some i => simp [hp] at h; subst h; simp [SFS.setDir]
  | linkPartDest =>
    simp only [SFS.step] at h
    cases hp : s.dir.part with
    | none => simp [hp] at h
    | some i =>
      cases hd : s.dir.dest with
      | some x => simp [hp, hd] at h
      | none => simp [hp, hd] at h; subst h; simp [SFS.setDir]
  | unlinkPart =>
    simp only [SFS.step] at h
    cases hp : s.dir.part with
    | none => simp [hp] at h
    | some i => simp [hp] at h; subst h; simp [SFS.setDir]
  | truncDest => simp [SFS.step] at h
  | writeDest d => simp [SFS.step] at h
  | unlinkDest => simp [SFS.step] at h
  | unknown => simp [SFS.step] at h
  | noop | chmodPart _ | write _ _ | flush | fsync | close | closeFd =>
    simp only [SFS.step, SFS.viaAbs] at h
    split at h <;> simp at h
    subst h; rfl

theorem sexec_tgt : ∀ (t : List Ev) (s s' : SFS), SFS.exec s t = some s' → s'.dir.tgt = s.dir.tgt
  | [], s, s', h => by simp [SFS.exec] at h; subst h; rfl
  | e :: t, s, s', h => by
    simp only [SFS.exec] at h
    cases hs : s.step e with
    | error err => simp [hs] at h
    | ok s1 =>
      simp only [hs] at h
      rw [sexec_tgt t s1 s' h, sstep_tgt s s1 e hs]

/-- the destination's ENTRY changes only at a publishing event, and then it becomes a file -/
theorem sstep_dest (s s' : SFS) (e : Ev) (h : s.step e = .ok s') :
    (publishes [e] = false → s'.dir.dest = s.dir.dest) ∧
    (publishes [e] = true → ∃ i, s'.dir.dest = some (.file i)) := by
  cases e with
  | openPart excl sd mode =>
    simp only [SFS.step] at h
    cases hp : s.dir.part with
    | some i =>
      simp only [hp] at h
      cases excl <;> simp at h
      subst h; simp [publishes]
    | none => simp only [hp] at h; simp at h; subst h; simp [SFS.setDir, publishes]
  | renamePartDest =>
    simp only [SFS.step] at h
    cases hp : s.dir.part with
    | none => simp [hp] at h
    | some i => simp [hp] at h; subst h; simp [SFS.setDir, publishes]
  | linkPartDest =>
    simp only [SFS.step] at h
    cases hp : s.dir.part with
    | none => simp [hp] at h
    | some i =>
      cases hd : s.dir.dest with
      | some x => simp [hp, hd] at h
      | none => simp [hp, hd] at h; subst h; simp [SFS.setDir, publishes]
  | unlinkPart =>
    simp only [SFS.step] at h
    cases hp : s.dir.part with
    | none => simp [hp] at h
    | some i => simp [hp] at h; subst h; simp [SFS.setDir, publishes]
  | truncDest => simp [SFS.step] at h
  | writeDest d => simp [SFS.step] at h
  | unlinkDest => simp [SFS.step] at h
  | unknown => simp [SFS.step] at h
  | noop | chmodPart _ | write _ _ | flush | fsync | close | closeFd =>
    simp only [SFS.step, SFS.viaAbs] at h
    split at h <;> simp at h
    subst h; simp [publishes]

theorem sexec_dest : ∀ (t : List Ev) (s s' : SFS), SFS.exec s t = some s' →
    (publishes t = false → s'.dir.dest = s.dir.dest) ∧
    (publishes t = true → ∃ i, s'.dir.dest = some (.file i))
  | [], s, s', h => by simp [SFS.exec] at h; subst h; simp [publishes]
  | e :: t, s, s', h => by
    simp only [SFS.exec] at h
    cases hs : s.step e with
    | error err => simp [hs] at h
    | ok s1 =>
      simp only [hs] at h
      obtain ⟨a1, a2⟩ := sstep_dest s s1 e hs
      obtain ⟨b1, b2⟩ := sexec_dest t s1 s' h
      rw [publishes_cons]
      cases hb : publishes t with
      | true => simp; exact b2 hb
      | false =>
        cases ha : publishes [e] with
        | true =>
          simp
          obtain ⟨i, hi⟩ := a2 ha
          exact ⟨i, by rw [b1 hb, hi]⟩
        | false => simp; rw [b1 hb, a1 ha]

end C04
