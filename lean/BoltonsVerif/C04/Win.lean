import BoltonsVerif.C04.Proofs
import BoltonsVerif.C04.View
/-
C04 (round 3) — the WINDOWS branch of `replace()` / `atomic_rename()` (`if os.name == 'nt':`).

    def replace(src, dst):
        try:
            os.rename(src, dst); return           # Windows: refuses to replace an existing dst (EEXIST)
        except OSError as we:
            if we.errno == errno.EEXIST: pass     # continue with ReplaceFile
            else: raise
        res = _ReplaceFile(dst, src, None, 0, None, None)     # needs an existing dst
        if not res: raise OSError(...)

    def atomic_rename(src, dst, overwrite=False):
        if overwrite: replace(src, dst)
        else: os.rename(src, dst)

Kernel model: Windows `os.rename` = `rename part dest` that fails with `EEXIST` when the destination
exists; `ReplaceFile` = the same directory step, failing when the destination does NOT exist
(assumption: each is one atomic directory operation, as for POSIX `rename`).  The decision logic is
transliterated with the list of events it performs (a failed call has no effect: `noop`).

Core Lean only (the driver links this file).
-/
namespace C04

def FS.winRename (fs : FS) : Except Errno FS :=
  match fs.dir.dest with
  | some _ => .error EEXIST
  | none => fs.renamePartDest

def FS.replaceFile (fs : FS) : Except Errno FS :=
  match fs.dir.dest with
  | none => .error ENOENT
  | some _ => fs.renamePartDest

/-- nt `replace(part, dest)`: the outcome (new state, or the errno raised) and the events performed -/
def ntReplace (fs : FS) : Except Errno FS × List Ev :=
  match fs.winRename with
  | .ok fs' => (.ok fs', [.renamePartDest])
  | .error e =>
    if e = EEXIST then
      match fs.replaceFile with
      | .ok fs' => (.ok fs', [.noop, .renamePartDest])
      | .error e' => (.error e', [.noop, .noop])
    else (.error e, [.noop])

/-- nt `atomic_rename(part, dest, overwrite)` -/
def ntAtomicRename (overwrite : Bool) (fs : FS) : Except Errno FS × List Ev :=
  if overwrite then ntReplace fs
  else match fs.winRename with
    | .ok fs' => (.ok fs', [.renamePartDest])
    | .error _ => (fs.winRename, [.noop])

/-- the events of the publication step of a save on Windows, as a function of what is known when it
    starts: `overwrite`, and whether a destination exists -/
def ntPublish (overwrite destPresent : Bool) : List Ev :=
  if destPresent then (if overwrite then [.noop, .renamePartDest] else [.noop])
  else [.renamePartDest]

theorem ntAtomicRename_events (ow : Bool) (fs : FS) (hp : fs.hasPart = true) :
    (ntAtomicRename ow fs).2 = ntPublish ow fs.hasDest := by
  simp only [FS.hasPart] at hp
  cases hpp : fs.dir.part with
  | none => simp [hpp] at hp
  | some i =>
    cases hd : fs.dir.dest <;> cases ow <;>
      simp [ntAtomicRename, ntReplace, FS.winRename, FS.replaceFile, FS.renamePartDest, ntPublish, FS.hasDest, hd, hpp, EEXIST]

/-- the events of a whole save on Windows (no call fails except the first `os.rename` of `replace()`
    over an existing destination, which is how that function works); with `overwrite=False` and a
    destination present at publication time the rename fails, the part file is cleaned up -/
def saverTraceNt (cfg : Cfg) (fs : FS) (body : Body) : List Ev :=
  saverPre cfg fs ++ ([Ev.openPart true true (choosePerms cfg fs).1] ++ (Ev.noop ::
  ((if (choosePerms cfg fs).2 then [Ev.chmodPart (choosePerms cfg fs).1] else []) ++
  (body.writes.map (fun w => Ev.write w.1 w.2) ++
  ([Ev.flush, Ev.fsync, Ev.close] ++
  (if body.raises then (if cfg.rmPartOnExc then [Ev.unlinkPart] else [])
   else ntPublish cfg.overwrite fs.hasDest ++
     (if fs.hasDest && !cfg.overwrite && cfg.rmPartOnExc then [Ev.unlinkPart] else [])))))))

/-- the part of a save after the creation of the part file, up to and including the close -/
def ntRest (cfg : Cfg) (fs : FS) (writes : List (Bytes × Nat)) (tail : List Ev) : List Ev :=
  Ev.noop ::
  ((if (choosePerms cfg fs).2 then [Ev.chmodPart (choosePerms cfg fs).1] else []) ++
  (writes.map (fun w => Ev.write w.1 w.2) ++ ([Ev.flush, Ev.fsync, Ev.close] ++ tail)))

theorem ntRest_run (cfg : Cfg) (fs : FS) (writes : List (Bytes × Nat)) (tail : List Ev) :
    (St.mk .part true false false).run (ntRest cfg fs writes tail) = (St.mk .part false false false).run tail := by
  unfold ntRest
  simp only [St.run, St.step]
  have chm : ∀ t, (St.mk .part true false false).run ((if (choosePerms cfg fs).2 then [Ev.chmodPart (choosePerms cfg fs).1] else []) ++ t) = (St.mk .part true false false).run t := by
    intro t; split <;> simp [St.run, St.step]
  rw [chm, run_append]
  obtain ⟨db, us, hw⟩ := run_writes writes false false
  rw [hw]
  simp [St.run, St.step]

/-- everything up to the close of the part file is accepted and leaves the automaton in phase `part`
    with a closed, clean, synced file -/
theorem upToClose_run (cfg : Cfg) (fs : FS) (writes : List (Bytes × Nat)) (tail : List Ev) :
    St.init.run (saverPre cfg fs ++ ([Ev.openPart true true (choosePerms cfg fs).1] ++ ntRest cfg fs writes tail))
    = (St.mk .part false false false).run tail := by
  rw [run_append]
  have pre : St.init.run (saverPre cfg fs) = some St.init := by
    unfold saverPre; split <;> simp [St.run, St.step, St.init]
  rw [pre]
  simp only [Option.bind_some, List.singleton_append]
  simp only [St.run, St.step, St.init]
  simp only [and_self, if_true]
  exact ntRest_run cfg fs writes tail

theorem saverTraceNt_eq (cfg : Cfg) (fs : FS) (body : Body) :
    saverTraceNt cfg fs body = saverPre cfg fs ++ ([Ev.openPart true true (choosePerms cfg fs).1] ++
      ntRest cfg fs body.writes
        (if body.raises then (if cfg.rmPartOnExc then [Ev.unlinkPart] else [])
         else ntPublish cfg.overwrite fs.hasDest ++
           (if fs.hasDest && !cfg.overwrite && cfg.rmPartOnExc then [Ev.unlinkPart] else []))) := rfl

theorem saverNt_safe (cfg : Cfg) (fs : FS) (body : Body) : SafeTrace (saverTraceNt cfg fs body) = true := by
  unfold SafeTrace
  rw [saverTraceNt_eq, upToClose_run]
  cases body.raises <;> cases cfg.rmPartOnExc <;> cases cfg.overwrite <;> cases fs.hasDest <;>
    simp [St.run, St.step, ntPublish]

theorem allWrites_saverTraceNt (cfg : Cfg) (fs : FS) (body : Body) :
    allWrites (saverTraceNt cfg fs body) = (body.writes.map (·.1)).flatten := by
  have hw : ∀ ws : List (Bytes × Nat), allWrites (ws.map fun w => Ev.write w.1 w.2) = (ws.map (·.1)).flatten := by
    intro ws; induction ws with
    | nil => simp [allWrites]
    | cons w ws ih => simp [allWrites, ih]
  simp only [saverTraceNt, saverPre, allWrites_append, allWrites_cons, hw]
  cases body.raises <;> cases cfg.rmPartOnExc <;> cases cfg.overwrite <;> cases (choosePerms cfg fs).2 <;>
    cases (cfg.overwritePart && fs.dir.part.isSome) <;> cases fs.hasDest <;> simp [allWrites, evWrites, ntPublish]

end C04
