/-
C04 (round 3) — the NAME of the part file (`AtomicSaver.__init__`).

The file-system model (`C04.Dir`) has two distinct names in one directory, `dest` and `part`.
This file models how the saver chooses the second name, so that "distinct" and "same directory"
are proved instead of assumed:

    if not self.part_filename:  part_path = dest_path + '.part'
    else:                       part_path = os.path.join(dest_dir, part_filename)
                                if os.path.abspath(part_path) == dest_path: raise ValueError   (fix 5a407c9)

For a PLAIN file name (non-empty, no `/`, not `.` / `..`) `os.path.join(dest_dir, name)` is the entry
`name` of the destination's directory and `abspath` changes nothing, so the choice is a function of
the destination's base name and the `part_file` argument.  The suffix is a parameter (regenerated from
the current source: `C04.Gen.partSuffix`).

Core Lean only (the driver links this file).
-/
namespace C04

abbrev Name := List Char

/-- a plain file name: one directory entry, not a path -/
def Name.plain (n : Name) : Bool :=
  !n.isEmpty && !n.contains '/' && n != ['.'] && n != ['.', '.']

/-- the name the part file gets in the destination's directory; `none` = the constructor refuses
    (`part_file` names the destination itself) -/
def partName (suffix destName : Name) (pf : Option Name) : Option Name :=
  match pf with
  | none => some (destName ++ suffix)
  | some n =>
    if n.isEmpty then some (destName ++ suffix)      -- `if not self.part_filename`
    else if n = destName then none
    else some n

theorem append_ne_self (d s : Name) (hs : s ≠ []) : d ++ s ≠ d := by
  intro h
  have := congrArg List.length h
  simp at this
  exact hs this

/-- the part file's name is never the destination's name -/
theorem partName_ne_dest (suffix d : Name) (pf : Option Name) (n : Name) (hs : suffix ≠ [])
    (h : partName suffix d pf = some n) : n ≠ d := by
  unfold partName at h
  cases pf with
  | none => simp at h; subst h; exact append_ne_self d suffix hs
  | some m =>
    simp only at h
    split at h
    · simp at h; subst h; exact append_ne_self d suffix hs
    · split at h
      · simp at h
      · simp at h; subst h; assumption

theorem plain_append (d s : Name) (hd : d.plain = true) (hs : s ≠ []) (hsl : s.contains '/' = false) :
    (d ++ s).plain = true := by
  simp only [Name.plain, Bool.and_eq_true, Bool.not_eq_true', bne_iff_ne, ne_eq] at hd ⊢
  obtain ⟨⟨⟨h1, h2⟩, h3⟩, h4⟩ := hd
  have hdl : d.length ≥ 1 := by
    cases d with
    | nil => simp at h1
    | cons _ _ => simp
  have hsl' : s.length ≥ 1 := by
    cases s with
    | nil => exact absurd rfl hs
    | cons _ _ => simp
  refine ⟨⟨⟨?_, ?_⟩, ?_⟩, ?_⟩
  · cases d with
    | nil => simp at h1
    | cons _ _ => simp
  · simp only [List.contains_eq_mem, List.mem_append, decide_eq_false_iff_not] at h2 hsl ⊢
    simp at h2 hsl ⊢
    exact ⟨h2, hsl⟩
  · intro h
    have := congrArg List.length h
    simp at this; omega
  · intro h
    have hl := congrArg List.length h
    simp at hl
    have hd1 : d.length = 1 := by omega
    match d, hd1 with
    | [c], _ =>
      simp at h
      exact h3 (by rw [h.1])

/-- with plain inputs the chosen name is a plain name: the part file is an entry of the
    destination's own directory -/
theorem partName_plain (suffix d : Name) (pf : Option Name) (n : Name) (hs : suffix ≠ [])
    (hsl : suffix.contains '/' = false) (hd : d.plain = true)
    (hpf : ∀ m, pf = some m → m = [] ∨ m.plain = true) (h : partName suffix d pf = some n) :
    n.plain = true := by
  unfold partName at h
  cases pf with
  | none => simp at h; subst h; exact plain_append d suffix hd hs hsl
  | some m =>
    simp only at h
    split at h
    · simp at h; subst h; exact plain_append d suffix hd hs hsl
    · split at h
      · simp at h
      · simp at h; subst h
        rcases hpf m rfl with h0 | h0
        · subst h0; simp at *
        · exact h0

end C04
