import BoltonsVerif.C04.Proofs
import BoltonsVerif.C04.Closed
import BoltonsVerif.Generated.C04_Consts
/-
C04 — property theorems: a trace accepted by `SafeTrace` is crash safe at every prefix under both
crash semantics; the transliterated saver emits accepted traces; a normal exit leaves the complete
new content and no part file; each ingredient of `SafeTrace` is necessary (witnesses).

`fs0` is the file system at the start: well formed, its directory durable (`hist = []`) and the
destination's inode synced (otherwise a power loss could damage the OLD content by itself).
-/
namespace C04

/-- **Crash safety.**  Let `t` be accepted by `SafeTrace` and `p` any prefix of it that the file
    system could execute.  After a process death at that point a reader of the destination finds
    exactly the old state (old content / still absent) or exactly the complete new content
    `allWrites t`; the same holds for every outcome of a power loss.  As long as `p` contains no
    publishing event it is the old state in both cases; once it does, a process death leaves the
    complete new content. -/
theorem safeTrace_crash_safe (fs0 : FS) (t : List Ev) (hwf : fs0.WF) (hh : fs0.hist = [])
    (hsy : DestSynced fs0) (hsafe : SafeTrace t = true) :
    ∀ p q fs, t = p ++ q → exec fs0 p = some fs →
      (fs.destAfterProcCrash = fs0.readDest ∨ fs.destAfterProcCrash = some (allWrites t)) ∧
      (∀ r, fs.PowerDest r → r = fs0.readDest ∨ r = some (allWrites t)) ∧
      (publishes p = false → fs.destAfterProcCrash = fs0.readDest ∧ ∀ r, fs.PowerDest r → r = fs0.readDest) ∧
      (publishes p = true → fs.destAfterProcCrash = some (allWrites t)) := by
  intro p q fs ht hx
  subst ht
  unfold SafeTrace at hsafe
  rw [run_append] at hsafe
  cases hp : St.init.run p with
  | none => simp [hp] at hsafe
  | some s1 =>
    simp only [hp, Option.bind_some] at hsafe
    cases hq : s1.run q with
    | none => simp [hq] at hsafe
    | some s2 =>
      have hi := inv_run fs0 p St.init s1 fs0 fs [] (inv_init fs0 hh) hp hx
      simp only [List.nil_append] at hi
      obtain ⟨hpub, _⟩ := published_run p St.init s1 hp
      have hinit : St.init.published = false := by decide
      rw [hinit, Bool.false_or] at hpub
      cases hb : publishes p with
      | false =>
        obtain ⟨h1, h2⟩ := inv_unpublished fs0 fs s1 _ hwf hsy hi (by rw [hpub, hb])
        exact ⟨Or.inl h1, fun r hr => Or.inl (h2 r hr), fun _ => ⟨h1, h2⟩, fun h => by simp at h⟩
      | true =>
        have hs1 : s1.published = true := by rw [hpub, hb]
        obtain ⟨h1, h2⟩ := inv_published fs0 fs s1 _ hwf hsy hi hs1
        have hw : allWrites (p ++ q) = allWrites p := by
          rw [allWrites_append, (published_run q s1 s2 hq).2 hs1]; simp
        rw [hw]
        exact ⟨Or.inr h1, h2, fun h => by simp at h, fun _ => h1⟩

/-- non-vacuity: a destination with synced content `[7]`, a two-write save, every prefix -/
example : let fs0 : FS := ⟨[⟨[7], [], 0o644⟩], ⟨some 0, none⟩, [], none, 0o022⟩
    fs0.WF ∧ fs0.hist = [] ∧ SafeTrace (saverTrace {} fs0 ⟨[([1, 2], 0), ([3], 1)], false⟩) = true ∧
    (exec fs0 (saverTrace {} fs0 ⟨[([1, 2], 0), ([3], 1)], false⟩)).isSome = true := by decide

/-- **The saver is accepted.**  For every configuration, initial state and body (any list of writes
    with any amount pushed through by the runtime, raising or not) the trace emitted by the
    transliterated `AtomicSaver` satisfies `SafeTrace`. -/
theorem saver_emits_safeTrace (cfg : Cfg) (fs : FS) (body : Body) :
    SafeTrace (saverTrace cfg fs body) = true := saver_safe cfg fs body

/-- hence the saver itself is crash safe at every point of every save (both crash semantics) -/
theorem saver_crash_safe (cfg : Cfg) (fs0 : FS) (body : Body) (hwf : fs0.WF) (hh : fs0.hist = [])
    (hsy : DestSynced fs0) :
    ∀ p q fs, saverTrace cfg fs0 body = p ++ q → exec fs0 p = some fs →
      (fs.destAfterProcCrash = fs0.readDest ∨ fs.destAfterProcCrash = some (body.writes.map (·.1)).flatten) ∧
      (∀ r, fs.PowerDest r → r = fs0.readDest ∨ r = some (body.writes.map (·.1)).flatten) ∧
      (publishes p = false → fs.destAfterProcCrash = fs0.readDest ∧ ∀ r, fs.PowerDest r → r = fs0.readDest) := by
  intro p q fs ht hx
  have := safeTrace_crash_safe fs0 _ hwf hh hsy (saver_safe cfg fs0 body) p q fs ht hx
  rw [allWrites_saverTrace] at this
  exact ⟨this.1, this.2.1, this.2.2.1⟩

/-- **Normal exit.**  When nothing is in the way (the part name is free or `overwrite_part` is set;
    the destination may be replaced or is absent) and the block does not raise, the whole trace
    executes and leaves exactly the concatenation of the writes at the destination, fully durable,
    and no part file. -/
theorem normal_exit (cfg : Cfg) (fs : FS) (body : Body) (hh : fs.hist = [])
    (hp : fs.dir.part = none ∨ cfg.overwritePart = true)
    (hd : cfg.overwrite = true ∨ fs.dir.dest = none) (hr : body.raises = false) :
    ∃ fs', exec fs (saverTrace cfg fs body) = some fs' ∧
      fs'.readDest = some (body.writes.map (·.1)).flatten ∧ fs'.dir.part = none ∧
      (∀ i, fs'.inode? fs'.dir.dest = some i → i.tail = []) := by
  obtain ⟨fs', hx, hi⟩ := saver_exec cfg fs body hh hp (by rcases hd with h | h; exact Or.inl h; exact Or.inr (Or.inl h))
  refine ⟨fs', hx, ?_⟩
  rw [allWrites_saverTrace] at hi
  simp only [Inv, saverFinal, hr] at hi
  obtain ⟨h1, h2, _, x, h4, h5, h6, _⟩ := hi
  refine ⟨?_, h2, ?_⟩
  · simp [FS.readDest, FS.inode?, h1, h4, Inode.cache, h5, h6]
  · intro i hi'
    simp [FS.inode?, h1, h4] at hi'
    subst hi'; exact h6

/-- a block that raises leaves the destination exactly as it was -/
theorem raising_exit (cfg : Cfg) (fs : FS) (body : Body) (hwf : fs.WF) (hh : fs.hist = [])
    (hp : fs.dir.part = none ∨ cfg.overwritePart = true) (hr : body.raises = true) :
    ∃ fs', exec fs (saverTrace cfg fs body) = some fs' ∧ fs'.readDest = fs.readDest := by
  obtain ⟨fs', hx, hi⟩ := saver_exec cfg fs body hh hp (Or.inr (Or.inr hr))
  refine ⟨fs', hx, ?_⟩
  simp only [Inv, saverFinal, hr] at hi
  cases hm : cfg.rmPartOnExc <;> simp only [hm] at hi
  · obtain ⟨h1, _, _, x, h4, _⟩ := hi
    simp only [FS.readDest, h1, inode?_old fs fs' x hwf h4]
  · obtain ⟨h1, _, _, x, h4, _⟩ := hi
    simp only [FS.readDest, h1, inode?_old fs fs' x hwf h4]

/-- **A body that closes the part file itself** (`fo.close()`, `with fo:`, a wrapper that closes the
    underlying stream), after any writes, raising afterwards or not: for every configuration and initial
    state the transliterated `__exit__` (`flush` raises `ValueError`, the cleanup removes the part file)
    emits an accepted trace without a publishing event; it can be executed, leaves the destination exactly
    as it was, and (with `rm_part_on_exc`) no part file.  The save is refused - what the body wrote was
    never synced by the saver, so it must not be published. -/
theorem closed_body_refused (cfg : Cfg) (fs : FS) (writes : List (Bytes × Nat)) (hwf : fs.WF) (hh : fs.hist = [])
    (hp : fs.dir.part = none ∨ cfg.overwritePart = true) :
    SafeTrace (saverTraceClosed cfg fs writes) = true ∧ publishes (saverTraceClosed cfg fs writes) = false ∧
    ∃ fs', exec fs (saverTraceClosed cfg fs writes) = some fs' ∧ fs'.readDest = fs.readDest ∧
      (cfg.rmPartOnExc = true → fs'.dir.part = none) := by
  refine ⟨closed_safe cfg fs writes, closed_never_publishes cfg fs writes, ?_⟩
  obtain ⟨us, hrun⟩ := closedRest_run cfg fs writes
  obtain ⟨fs', hx, hi⟩ := open_then_exec cfg fs _ _ hh hp hrun (closedRest_auto cfg fs writes)
  refine ⟨fs', hx, ?_⟩
  simp only [Inv, closedPhase] at hi
  cases hm : cfg.rmPartOnExc <;> simp only [hm] at hi
  · obtain ⟨h1, _, _, x, h4, _⟩ := hi
    exact ⟨by simp only [FS.readDest, h1, inode?_old fs fs' x hwf h4], by simp⟩
  · obtain ⟨h1, _, h3, x, h4, _⟩ := hi
    exact ⟨by simp only [FS.readDest, h1, inode?_old fs fs' x hwf h4], fun _ => h3⟩

/-- non-vacuity: a present destination, a stale part file with `overwrite_part`, two writes, then the body closes -/
example : let fs0 : FS := ⟨[⟨[7], [], 0o644⟩, ⟨[9, 9], [], 0o640⟩], ⟨some 0, some 1⟩, [], none, 0o022⟩
    let cfg : Cfg := { overwritePart := true }
    fs0.WF ∧ fs0.hist = [] ∧ (exec fs0 (saverTraceClosed cfg fs0 [([1, 2], 0), ([3], 1)])).map FS.readDest = some (some [7]) := by decide

/-- ... and at every point of such a save a process death or a power loss leaves the old destination -/
theorem closed_body_crash_safe (cfg : Cfg) (fs0 : FS) (writes : List (Bytes × Nat)) (hwf : fs0.WF) (hh : fs0.hist = [])
    (hsy : DestSynced fs0) :
    ∀ p q fs, saverTraceClosed cfg fs0 writes = p ++ q → exec fs0 p = some fs →
      fs.destAfterProcCrash = fs0.readDest ∧ ∀ r, fs.PowerDest r → r = fs0.readDest := by
  intro p q fs ht hx
  have hpub : publishes p = false := by
    have := closed_never_publishes cfg fs0 writes
    rw [ht, publishes_append] at this
    cases h : publishes p
    · rfl
    · simp [h] at this
  exact (safeTrace_crash_safe fs0 _ hwf hh hsy (closed_safe cfg fs0 writes) p q fs ht hx).2.2.1 hpub

/-- `SafeTrace` is prefix closed: what has been accepted so far stays accepted -/
theorem safeTrace_prefix (p q : List Ev) (h : SafeTrace (p ++ q) = true) : SafeTrace p = true := by
  unfold SafeTrace at *
  rw [run_append] at h
  cases hp : St.init.run p with
  | none => simp [hp] at h
  | some s => simp

/-- translator obligation (regenerated from the current source on every run): the flags with which
    the part file is opened contain `O_CREAT` and `O_EXCL` and not `O_TRUNC`, in text and binary mode -
    what the model's `openPart true _ _` in `saverTrace` stands for -/
theorem source_open_flags_exclusive :
    Gen.textFlagsExcl = true ∧ Gen.textFlagsCreat = true ∧ Gen.textFlagsTrunc = false ∧
    Gen.binFlagsExcl = true ∧ Gen.binFlagsCreat = true ∧ Gen.binFlagsTrunc = false := by decide

/-! ### necessity: dropping an ingredient of `SafeTrace` allows a bad crash outcome -/

def fsOld : FS := ⟨[⟨[7], [], 0o644⟩], ⟨some 0, none⟩, [], none, 0o022⟩

/-- without `fsync`: after the rename a power loss can leave an EMPTY destination -/
theorem no_fsync_breaks :
    let t := [Ev.openPart true true 0o644, .write [1, 2] 0, .flush, .close, .renamePartDest]
    SafeTrace t = false ∧ ((exec fsOld t).map fun fs => fs.powerDests.contains (some [])) = some true := by decide

/-- renaming before the buffer is flushed: a process death right after the rename leaves an EMPTY destination -/
theorem rename_before_flush_breaks :
    let t := [Ev.openPart true true 0o644, .write [1, 2] 0, .renamePartDest]
    SafeTrace t = false ∧ (exec fsOld t).map FS.destAfterProcCrash = some (some []) := by decide

/-- writing to the destination directly: a process death between truncation and write leaves it EMPTY,
    one between two writes leaves it TRUNCATED -/
theorem direct_write_breaks :
    let t := [Ev.truncDest, .writeDest [1], .writeDest [2]]
    SafeTrace t = false ∧ (exec fsOld (t.take 1)).map FS.destAfterProcCrash = some (some []) ∧
      (exec fsOld (t.take 2)).map FS.destAfterProcCrash = some (some [1]) := by decide

/-- without `O_EXCL` a stale part file is re-used and the published content is a MIXTURE -/
theorem no_excl_breaks :
    let fs0 : FS := ⟨[⟨[7], [], 0o644⟩, ⟨[9, 9], [], 0o640⟩], ⟨some 0, some 1⟩, [], none, 0o022⟩
    let t := [Ev.openPart false true 0o644, .write [1, 2] 0, .flush, .fsync, .close, .renamePartDest]
    SafeTrace t = false ∧ (exec fs0 t).map FS.readDest = some (some [9, 9, 1, 2]) := by decide

/-- a write after the publication is visible at the destination before it is complete -/
theorem write_after_publish_breaks :
    let t := [Ev.openPart true true 0o644, .write [1] 0, .flush, .fsync, .renamePartDest, .write [2] 1]
    SafeTrace t = false ∧ allWrites t = [1, 2] ∧ (exec fsOld (t.take 5)).map FS.destAfterProcCrash = some (some [1]) := by decide

/-- publishing what a body wrote and CLOSED itself (no fsync of it is possible any more): after the
    rename a power loss can leave an EMPTY destination -/
theorem publish_after_body_close_breaks :
    let t := [Ev.openPart true true 0o644, .noop, .write [1, 2] 0, .close, .renamePartDest]
    SafeTrace t = false ∧ ((exec fsOld t).map fun fs => fs.powerDests.contains (some [])) = some true := by decide

/-- a fallback for a failed `link` (the `noop`) that claims the destination name by an exclusive create
    and then renames the part file over the claim: a process death between the two leaves an EMPTY
    destination where there was none -/
theorem claim_then_rename_breaks :
    let fs0 : FS := ⟨[], ⟨none, none⟩, [], none, 0o022⟩
    let t := [Ev.openPart true true 0o644, .write [1, 2] 0, .flush, .fsync, .close, .noop, .truncDest, .renamePartDest]
    SafeTrace t = false ∧ fs0.readDest = none ∧
      (exec fs0 (t.take 7)).map FS.destAfterProcCrash = some (some []) := by decide

end C04
