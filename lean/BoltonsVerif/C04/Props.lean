import BoltonsVerif.C04.Proofs
/-
C04 — property theorems: a trace accepted by `SafeTrace` is crash safe at every prefix under both
crash semantics; the transliterated saver emits accepted traces; a normal exit leaves the complete
new content and no part file; each ingredient of `SafeTrace` is necessary (witnesses).

`fs0` is the file system at the start: well formed, its directory durable (`hist = []`) and the
destination's inode synced (otherwise a power loss could damage the OLD content by itself).
-/
namespace C04

/-- **Crash safety.**  Let `t` be accepted by `SafeTrace` and `p` any prefix of it that the file
    system could execute.  After a process death at that point a reader of the destination finds
    exactly the old state (old content / still absent) or exactly the complete new content
    `allWrites t`; the same holds for every outcome of a power loss.  As long as `p` contains no
    publishing event it is the old state in both cases; once it does, a process death leaves the
    complete new content. -/
theorem safeTrace_crash_safe (fs0 : FS) (t : List Ev) (hwf : fs0.WF) (hh : fs0.hist = [])
    (hsy : DestSynced fs0) (hsafe : SafeTrace t = true) :
    ∀ p q fs, t = p ++ q → exec fs0 p = some fs →
      (fs.destAfterProcCrash = fs0.readDest ∨ fs.destAfterProcCrash = some (allWrites t)) ∧
      (∀ r, fs.PowerDest r → r = fs0.readDest ∨ r = some (allWrites t)) ∧
      (publishes p = false → fs.destAfterProcCrash = fs0.readDest ∧ ∀ r, fs.PowerDest r → r = fs0.readDest) ∧
      (publishes p = true → fs.destAfterProcCrash = some (allWrites t)) := by
  intro p q fs ht hx
  subst ht
  unfold SafeTrace at hsafe
  rw [run_append] at hsafe
  cases hp : St.init.run p with
  | none => simp [hp] at hsafe
  | some s1 =>
    simp only [hp, Option.bind_some] at hsafe
    cases hq : s1.run q with
    | none => simp [hq] at hsafe
    | some s2 =>
      have hi := inv_run fs0 p St.init s1 fs0 fs [] (inv_init fs0 hh) hp hx
      simp only [List.nil_append] at hi
      obtain ⟨hpub, _⟩ := published_run p St.init s1 hp
      have hinit : St.init.published = false := by decide
      rw [hinit, Bool.false_or] at hpub
      cases hb : publishes p with
      | false =>
        obtain ⟨h1, h2⟩ := inv_unpublished fs0 fs s1 _ hwf hsy hi (by rw [hpub, hb])
        exact ⟨Or.inl h1, fun r hr => Or.inl (h2 r hr), fun _ => ⟨h1, h2⟩, fun h => by simp at h⟩
      | true =>
        have hs1 : s1.published = true := by rw [hpub, hb]
        obtain ⟨h1, h2⟩ := inv_published fs0 fs s1 _ hwf hsy hi hs1
        have hw : allWrites (p ++ q) = allWrites p := by
          rw [allWrites_append, (published_run q s1 s2 hq).2 hs1]; simp
        rw [hw]
        exact ⟨Or.inr h1, h2, fun h => by simp at h, fun _ => h1⟩

/-- non-vacuity: a destination with synced content `[7]`, a two-write save, every prefix -/
example : let fs0 : FS := ⟨[⟨[7], [], 0o644⟩], ⟨some 0, none⟩, [], none, 0o022⟩
    fs0.WF ∧ fs0.hist = [] ∧ SafeTrace (saverTrace {} fs0 ⟨[([1, 2], 0), ([3], 1)], false⟩) = true ∧
    (exec fs0 (saverTrace {} fs0 ⟨[([1, 2], 0), ([3], 1)], false⟩)).isSome = true := by decide

end C04
