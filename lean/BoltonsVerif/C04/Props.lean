import BoltonsVerif.C04.Proofs
import BoltonsVerif.C04.Closed
import BoltonsVerif.C04.View
import BoltonsVerif.C04.Names
import BoltonsVerif.C04.Win
import BoltonsVerif.C04.Sym
import BoltonsVerif.Generated.C04_Consts
/-
C04 — property theorems: a trace accepted by `SafeTrace` is crash safe at every prefix under both
crash semantics; the transliterated saver emits accepted traces; a normal exit leaves the complete
new content and no part file; each ingredient of `SafeTrace` is necessary (witnesses).

`fs0` is the file system at the start: well formed, its directory durable (`hist = []`) and the
destination's inode synced (otherwise a power loss could damage the OLD content by itself).
-/
namespace C04

/-- **Crash safety.**  Let `t` be accepted by `SafeTrace` and `p` any prefix of it that the file
    system could execute.  After a process death at that point a reader of the destination finds
    exactly the old state (old content / still absent) or exactly the complete new content
    `allWrites t`; the same holds for every outcome of a power loss.  As long as `p` contains no
    publishing event it is the old state in both cases; once it does, a process death leaves the
    complete new content. -/
theorem safeTrace_crash_safe (fs0 : FS) (t : List Ev) (hwf : fs0.WF) (hh : fs0.hist = [])
    (hsy : DestSynced fs0) (hsafe : SafeTrace t = true) :
    ∀ p q fs, t = p ++ q → exec fs0 p = some fs →
      (fs.destAfterProcCrash = fs0.readDest ∨ fs.destAfterProcCrash = some (allWrites t)) ∧
      (∀ r, fs.PowerDest r → r = fs0.readDest ∨ r = some (allWrites t)) ∧
      (publishes p = false → fs.destAfterProcCrash = fs0.readDest ∧ ∀ r, fs.PowerDest r → r = fs0.readDest) ∧
      (publishes p = true → fs.destAfterProcCrash = some (allWrites t)) := by
  intro p q fs ht hx
  subst ht
  unfold SafeTrace at hsafe
  rw [run_append] at hsafe
  cases hp : St.init.run p with
  | none => simp [hp] at hsafe
  | some s1 =>
    simp only [hp, Option.bind_some] at hsafe
    cases hq : s1.run q with
    | none => simp [hq] at hsafe
    | some s2 =>
      have hi := inv_run fs0 p St.init s1 fs0 fs [] (inv_init fs0 hh) hp hx
      simp only [List.nil_append] at hi
      obtain ⟨hpub, _⟩ := published_run p St.init s1 hp
      have hinit : St.init.published = false := by decide
      rw [hinit, Bool.false_or] at hpub
      cases hb : publishes p with
      | false =>
        obtain ⟨h1, h2⟩ := inv_unpublished fs0 fs s1 _ hwf hsy hi (by rw [hpub, hb])
        exact ⟨Or.inl h1, fun r hr => Or.inl (h2 r hr), fun _ => ⟨h1, h2⟩, fun h => by simp at h⟩
      | true =>
        have hs1 : s1.published = true := by rw [hpub, hb]
        obtain ⟨h1, h2⟩ := inv_published fs0 fs s1 _ hwf hsy hi hs1
        have hw : allWrites (p ++ q) = allWrites p := by
          rw [allWrites_append, (published_run q s1 s2 hq).2 hs1]; simp
        rw [hw]
        exact ⟨Or.inr h1, h2, fun h => by simp at h, fun _ => h1⟩

/-- non-vacuity: a destination with synced content `[7]`, a two-write save, every prefix -/
example : let fs0 : FS := ⟨[⟨[7], [], 0o644⟩], ⟨some 0, none⟩, [], none, 0o022⟩
    fs0.WF ∧ fs0.hist = [] ∧ SafeTrace (saverTrace {} fs0 ⟨[([1, 2], 0), ([3], 1)], false⟩) = true ∧
    (exec fs0 (saverTrace {} fs0 ⟨[([1, 2], 0), ([3], 1)], false⟩)).isSome = true := by decide

/-- **The saver is accepted.**  For every configuration, initial state and body (any list of writes
    with any amount pushed through by the runtime, raising or not) the trace emitted by the
    transliterated `AtomicSaver` satisfies `SafeTrace`. -/
theorem saver_emits_safeTrace (cfg : Cfg) (fs : FS) (body : Body) :
    SafeTrace (saverTrace cfg fs body) = true := saver_safe cfg fs body

/-- hence the saver itself is crash safe at every point of every save (both crash semantics) -/
theorem saver_crash_safe (cfg : Cfg) (fs0 : FS) (body : Body) (hwf : fs0.WF) (hh : fs0.hist = [])
    (hsy : DestSynced fs0) :
    ∀ p q fs, saverTrace cfg fs0 body = p ++ q → exec fs0 p = some fs →
      (fs.destAfterProcCrash = fs0.readDest ∨ fs.destAfterProcCrash = some (body.writes.map (·.1)).flatten) ∧
      (∀ r, fs.PowerDest r → r = fs0.readDest ∨ r = some (body.writes.map (·.1)).flatten) ∧
      (publishes p = false → fs.destAfterProcCrash = fs0.readDest ∧ ∀ r, fs.PowerDest r → r = fs0.readDest) := by
  intro p q fs ht hx
  have := safeTrace_crash_safe fs0 _ hwf hh hsy (saver_safe cfg fs0 body) p q fs ht hx
  rw [allWrites_saverTrace] at this
  exact ⟨this.1, this.2.1, this.2.2.1⟩

/-- **Normal exit.**  When nothing is in the way (the part name is free or `overwrite_part` is set;
    the destination may be replaced or is absent) and the block does not raise, the whole trace
    executes and leaves exactly the concatenation of the writes at the destination, fully durable,
    and no part file. -/
theorem normal_exit (cfg : Cfg) (fs : FS) (body : Body) (hh : fs.hist = [])
    (hp : fs.dir.part = none ∨ cfg.overwritePart = true)
    (hd : cfg.overwrite = true ∨ fs.dir.dest = none) (hr : body.raises = false) :
    ∃ fs', exec fs (saverTrace cfg fs body) = some fs' ∧
      fs'.readDest = some (body.writes.map (·.1)).flatten ∧ fs'.dir.part = none ∧
      (∀ i, fs'.inode? fs'.dir.dest = some i → i.tail = []) := by
  obtain ⟨fs', hx, hi⟩ := saver_exec cfg fs body hh hp (by rcases hd with h | h; exact Or.inl h; exact Or.inr (Or.inl h))
  refine ⟨fs', hx, ?_⟩
  rw [allWrites_saverTrace] at hi
  simp only [Inv, saverFinal, hr] at hi
  obtain ⟨h1, h2, _, x, h4, h5, h6, _⟩ := hi
  refine ⟨?_, h2, ?_⟩
  · simp [FS.readDest, FS.inode?, h1, h4, Inode.cache, h5, h6]
  · intro i hi'
    simp [FS.inode?, h1, h4] at hi'
    subst hi'; exact h6

/-- a block that raises leaves the destination exactly as it was -/
theorem raising_exit (cfg : Cfg) (fs : FS) (body : Body) (hwf : fs.WF) (hh : fs.hist = [])
    (hp : fs.dir.part = none ∨ cfg.overwritePart = true) (hr : body.raises = true) :
    ∃ fs', exec fs (saverTrace cfg fs body) = some fs' ∧ fs'.readDest = fs.readDest := by
  obtain ⟨fs', hx, hi⟩ := saver_exec cfg fs body hh hp (Or.inr (Or.inr hr))
  refine ⟨fs', hx, ?_⟩
  simp only [Inv, saverFinal, hr] at hi
  cases hm : cfg.rmPartOnExc <;> simp only [hm] at hi
  · obtain ⟨h1, _, _, x, h4, _⟩ := hi
    simp only [FS.readDest, h1, inode?_old fs fs' x hwf h4]
  · obtain ⟨h1, _, _, x, h4, _⟩ := hi
    simp only [FS.readDest, h1, inode?_old fs fs' x hwf h4]

/-- **A body that closes the part file itself** (`fo.close()`, `with fo:`, a wrapper that closes the
    underlying stream), after any writes, raising afterwards or not: for every configuration and initial
    state the transliterated `__exit__` (`flush` raises `ValueError`, the cleanup removes the part file)
    emits an accepted trace without a publishing event; it can be executed, leaves the destination exactly
    as it was, and (with `rm_part_on_exc`) no part file.  The save is refused - what the body wrote was
    never synced by the saver, so it must not be published. -/
theorem closed_body_refused (cfg : Cfg) (fs : FS) (writes : List (Bytes × Nat)) (hwf : fs.WF) (hh : fs.hist = [])
    (hp : fs.dir.part = none ∨ cfg.overwritePart = true) :
    SafeTrace (saverTraceClosed cfg fs writes) = true ∧ publishes (saverTraceClosed cfg fs writes) = false ∧
    ∃ fs', exec fs (saverTraceClosed cfg fs writes) = some fs' ∧ fs'.readDest = fs.readDest ∧
      (cfg.rmPartOnExc = true → fs'.dir.part = none) := by
  refine ⟨closed_safe cfg fs writes, closed_never_publishes cfg fs writes, ?_⟩
  obtain ⟨us, hrun⟩ := closedRest_run cfg fs writes
  obtain ⟨fs', hx, hi⟩ := open_then_exec cfg fs _ _ hh hp hrun (closedRest_auto cfg fs writes)
  refine ⟨fs', hx, ?_⟩
  simp only [Inv, closedPhase] at hi
  cases hm : cfg.rmPartOnExc <;> simp only [hm] at hi
  · obtain ⟨h1, _, _, x, h4, _⟩ := hi
    exact ⟨by simp only [FS.readDest, h1, inode?_old fs fs' x hwf h4], by simp⟩
  · obtain ⟨h1, _, h3, x, h4, _⟩ := hi
    exact ⟨by simp only [FS.readDest, h1, inode?_old fs fs' x hwf h4], fun _ => h3⟩

/-- non-vacuity: a present destination, a stale part file with `overwrite_part`, two writes, then the body closes -/
example : let fs0 : FS := ⟨[⟨[7], [], 0o644⟩, ⟨[9, 9], [], 0o640⟩], ⟨some 0, some 1⟩, [], none, 0o022⟩
    let cfg : Cfg := { overwritePart := true }
    fs0.WF ∧ fs0.hist = [] ∧ (exec fs0 (saverTraceClosed cfg fs0 [([1, 2], 0), ([3], 1)])).map FS.readDest = some (some [7]) := by decide

/-- ... and at every point of such a save a process death or a power loss leaves the old destination -/
theorem closed_body_crash_safe (cfg : Cfg) (fs0 : FS) (writes : List (Bytes × Nat)) (hwf : fs0.WF) (hh : fs0.hist = [])
    (hsy : DestSynced fs0) :
    ∀ p q fs, saverTraceClosed cfg fs0 writes = p ++ q → exec fs0 p = some fs →
      fs.destAfterProcCrash = fs0.readDest ∧ ∀ r, fs.PowerDest r → r = fs0.readDest := by
  intro p q fs ht hx
  have hpub : publishes p = false := by
    have := closed_never_publishes cfg fs0 writes
    rw [ht, publishes_append] at this
    cases h : publishes p
    · rfl
    · simp [h] at this
  exact (safeTrace_crash_safe fs0 _ hwf hh hsy (closed_safe cfg fs0 writes) p q fs ht hx).2.2.1 hpub

/-- `SafeTrace` is prefix closed: what has been accepted so far stays accepted -/
theorem safeTrace_prefix (p q : List Ev) (h : SafeTrace (p ++ q) = true) : SafeTrace p = true := by
  unfold SafeTrace at *
  rw [run_append] at h
  cases hp : St.init.run p with
  | none => simp [hp] at h
  | some s => simp

/-- translator obligation (regenerated from the current source on every run): the flags with which
    the part file is opened contain `O_CREAT` and `O_EXCL` and not `O_TRUNC`, in text and binary mode -
    what the model's `openPart true _ _` in `saverTrace` stands for -/
theorem source_open_flags_exclusive :
    Gen.textFlagsExcl = true ∧ Gen.textFlagsCreat = true ∧ Gen.textFlagsTrunc = false ∧
    Gen.binFlagsExcl = true ∧ Gen.binFlagsCreat = true ∧ Gen.binFlagsTrunc = false := by decide

/-! ### necessity: dropping an ingredient of `SafeTrace` allows a bad crash outcome -/

def fsOld : FS := ⟨[⟨[7], [], 0o644⟩], ⟨some 0, none⟩, [], none, 0o022⟩

/-- without `fsync`: after the rename a power loss can leave an EMPTY destination -/
theorem no_fsync_breaks :
    let t := [Ev.openPart true true 0o644, .write [1, 2] 0, .flush, .close, .renamePartDest]
    SafeTrace t = false ∧ ((exec fsOld t).map fun fs => fs.powerDests.contains (some [])) = some true := by decide

/-- renaming before the buffer is flushed: a process death right after the rename leaves an EMPTY destination -/
theorem rename_before_flush_breaks :
    let t := [Ev.openPart true true 0o644, .write [1, 2] 0, .renamePartDest]
    SafeTrace t = false ∧ (exec fsOld t).map FS.destAfterProcCrash = some (some []) := by decide

/-- writing to the destination directly: a process death between truncation and write leaves it EMPTY,
    one between two writes leaves it TRUNCATED -/
theorem direct_write_breaks :
    let t := [Ev.truncDest, .writeDest [1], .writeDest [2]]
    SafeTrace t = false ∧ (exec fsOld (t.take 1)).map FS.destAfterProcCrash = some (some []) ∧
      (exec fsOld (t.take 2)).map FS.destAfterProcCrash = some (some [1]) := by decide

/-- without `O_EXCL` a stale part file is re-used and the published content is a MIXTURE -/
theorem no_excl_breaks :
    let fs0 : FS := ⟨[⟨[7], [], 0o644⟩, ⟨[9, 9], [], 0o640⟩], ⟨some 0, some 1⟩, [], none, 0o022⟩
    let t := [Ev.openPart false true 0o644, .write [1, 2] 0, .flush, .fsync, .close, .renamePartDest]
    SafeTrace t = false ∧ (exec fs0 t).map FS.readDest = some (some [9, 9, 1, 2]) := by decide

/-- a write after the publication is visible at the destination before it is complete -/
theorem write_after_publish_breaks :
    let t := [Ev.openPart true true 0o644, .write [1] 0, .flush, .fsync, .renamePartDest, .write [2] 1]
    SafeTrace t = false ∧ allWrites t = [1, 2] ∧ (exec fsOld (t.take 5)).map FS.destAfterProcCrash = some (some [1]) := by decide

/-- publishing what a body wrote and CLOSED itself (no fsync of it is possible any more): after the
    rename a power loss can leave an EMPTY destination -/
theorem publish_after_body_close_breaks :
    let t := [Ev.openPart true true 0o644, .noop, .write [1, 2] 0, .close, .renamePartDest]
    SafeTrace t = false ∧ ((exec fsOld t).map fun fs => fs.powerDests.contains (some [])) = some true := by decide

/-- a fallback for a failed `link` (the `noop`) that claims the destination name by an exclusive create
    and then renames the part file over the claim: a process death between the two leaves an EMPTY
    destination where there was none -/
theorem claim_then_rename_breaks :
    let fs0 : FS := ⟨[], ⟨none, none⟩, [], none, 0o022⟩
    let t := [Ev.openPart true true 0o644, .write [1, 2] 0, .flush, .fsync, .close, .noop, .truncDest, .renamePartDest]
    SafeTrace t = false ∧ fs0.readDest = none ∧
      (exec fs0 (t.take 7)).map FS.destAfterProcCrash = some (some []) := by decide

/-! ### round 3: observers of the directory, the `link`/`unlink` window, one writer per part file -/

/-- **What observers see while the save runs (no crash).**  After every event of an accepted trace:
    a reader of the destination path finds exactly the old state or exactly the complete new content;
    every inode that existed at the start is unchanged (a reader that OPENED the destination before the
    save keeps reading exactly the old content through its descriptor, also after the publication);
    the destination's name never disappears from the directory; before the publishing event the
    directory entry of the destination is the one from the start. -/
theorem safeTrace_live_view (fs0 : FS) (t : List Ev) (hwf : fs0.WF) (hh : fs0.hist = [])
    (hsafe : SafeTrace t = true) :
    ∀ p q fs, t = p ++ q → exec fs0 p = some fs →
      (fs.readDest = fs0.readDest ∨ fs.readDest = some (allWrites t)) ∧
      (∀ i, i < fs0.inodes.length → fs.inodes[i]? = fs0.inodes[i]?) ∧
      (fs0.hasDest = true → fs.hasDest = true) ∧
      (publishes p = false → fs.dir.dest = fs0.dir.dest) := by
  intro p q fs ht hx
  subst ht
  have hsp := safeTrace_prefix p q hsafe
  unfold SafeTrace at hsp
  cases hp : St.init.run p with
  | none => simp [hp] at hsp
  | some s1 =>
    have hi := inv_run fs0 p St.init s1 fs0 fs [] (inv_init fs0 hh) hp hx
    simp only [List.nil_append] at hi
    have hold := inv_old_inodes fs0 s1 fs _ hi
    obtain ⟨hpub, _⟩ := published_run p St.init s1 hp
    have hinit : St.init.published = false := by decide
    rw [hinit, Bool.false_or] at hpub
    -- the destination's entry
    have hdest : (publishes p = false → fs.dir.dest = fs0.dir.dest) ∧
        (publishes p = true → fs.dir.dest = some fs0.inodes.length ∧
          ∃ x, fs.inodes = fs0.inodes ++ [x] ∧ x.durable = allWrites p ∧ x.tail = []) := by
      obtain ⟨ph, op, db, us⟩ := s1
      cases ph <;> simp only [GInv] at hi
      · have hpv : publishes p = false := by rw [← hpub]; simp [St.published]
        simp [hpv]; exact hi.2.1
      · have hpv : publishes p = false := by rw [← hpub]; simp [St.published]
        simp [hpv]; exact hi.1
      · have hpv : publishes p = true := by rw [← hpub]; simp [St.published]
        obtain ⟨h1, _, _, x, h4, h5, h6, _⟩ := hi
        simp [hpv]; exact ⟨h1, x, h4, h5, h6⟩
      · have hpv : publishes p = true := by rw [← hpub]; simp [St.published]
        obtain ⟨h1, _, _, x, h4, h5, h6, _⟩ := hi
        simp [hpv]; exact ⟨h1, x, h4, h5, h6⟩
      · have hpv : publishes p = false := by rw [← hpub]; simp [St.published]
        simp [hpv]; exact hi.1
    have hread : fs.readDest = fs0.readDest ∨ fs.readDest = some (allWrites (p ++ q)) := by
      cases hb : publishes p with
      | false =>
        left
        have hd := hdest.1 hb
        unfold FS.readDest FS.inode?
        rw [hd]
        cases h0 : fs0.dir.dest with
        | none => rfl
        | some i => simp only; rw [hold i (hwf.1 i h0)]
      | true =>
        right
        obtain ⟨hd, x, h4, h5, h6⟩ := hdest.2 hb
        obtain ⟨s2, hq⟩ : ∃ s2, s1.run q = some s2 := by
          unfold SafeTrace at hsafe
          rw [run_append, hp] at hsafe
          cases hq : s1.run q with
          | none => simp [hq] at hsafe
          | some s2 => exact ⟨s2, rfl⟩
        have hs1 : s1.published = true := by rw [hpub, hb]
        have hw : allWrites (p ++ q) = allWrites p := by
          rw [allWrites_append, (published_run q s1 s2 hq).2 hs1]; simp
        rw [hw]
        simp [FS.readDest, FS.inode?, hd, h4, Inode.cache, h5, h6]
    refine ⟨hread, hold, ?_, hdest.1⟩
    intro h0
    cases hb : publishes p with
    | false => simp [FS.hasDest, hdest.1 hb] at h0 ⊢; exact h0
    | true => simp [FS.hasDest, (hdest.2 hb).1]



/-- **The window between `link part dest` and `unlink part`** (`overwrite=False`): both names are hard
    links to ONE inode that holds the complete new content, all of it durable; a process death there
    leaves the complete destination PLUS the part file's name; removing that name afterwards (what the
    interrupted `atomic_rename` had left to do, or a later `overwrite_part` save does) leaves the
    complete destination and no part file. -/
theorem link_window (fs0 : FS) (t : List Ev) (hh : fs0.hist = []) (hsafe : SafeTrace t = true) :
    ∀ p q fs s, t = p ++ q → exec fs0 p = some fs → St.init.run p = some s → s.phase = .linked →
      fs.sameInode = true ∧ fs.hasPart = true ∧
      fs.destAfterProcCrash = some (allWrites t) ∧ fs.procCrash.readPart = some (allWrites t) ∧
      (∀ i, fs.inode? fs.dir.dest = some i → i.tail = []) ∧
      ∃ fs', fs.procCrash.step .unlinkPart = .ok fs' ∧ fs'.readDest = some (allWrites t) ∧
        fs'.hasPart = false := by
  intro p q fs s ht hx hp hl
  subst ht
  have hi := inv_run fs0 p St.init s fs0 fs [] (inv_init fs0 hh) hp hx
  simp only [List.nil_append] at hi
  obtain ⟨s2, hq⟩ : ∃ s2, s.run q = some s2 := by
    unfold SafeTrace at hsafe
    rw [run_append, hp] at hsafe
    cases hq : s.run q with
    | none => simp [hq] at hsafe
    | some s2 => exact ⟨s2, rfl⟩
  have hs1 : s.published = true := by simp [St.published, hl]
  have hw : allWrites (p ++ q) = allWrites p := by
    rw [allWrites_append, (published_run q s s2 hq).2 hs1]; simp
  rw [hw]
  obtain ⟨ph, op, db, us⟩ := s
  simp at hl; subst hl
  simp only [GInv] at hi
  obtain ⟨h1, h2, _, x, h4, h5, h6, _⟩ := hi
  refine ⟨by simp [FS.sameInode, h1, h2], by simp [FS.hasPart, h2], ?_, ?_, ?_, ?_⟩
  · simp [FS.destAfterProcCrash, FS.procCrash, FS.readDest, FS.inode?, h1, h4, Inode.cache, h5, h6]
  · simp [FS.procCrash, FS.readPart, FS.inode?, h2, h4, Inode.cache, h5, h6]
  · intro i hi'
    simp [FS.inode?, h1, h4] at hi'
    subst hi'; exact h6
  · refine ⟨_, by simp [FS.step, FS.unlinkPart, FS.procCrash, h2]; rfl, ?_, ?_⟩
    · simp [FS.setDir, FS.readDest, FS.inode?, h1, h4, Inode.cache, h5, h6]
    · simp [FS.setDir, FS.hasPart]

/-- the window is entered by the `link` event -/
theorem linked_after_link (p : List Ev) (s : St) (h : St.init.run (p ++ [.linkPartDest]) = some s) :
    s.phase = .linked := by
  obtain ⟨s1, _, h2⟩ := run_prefix_some _ _ _ _ h
  simp only [St.run, St.step] at h2
  by_cases hc : s1.phase = Phase.part ∧ s1.dirtyBuf = false ∧ s1.unsynced = false
  · simp [hc] at h2; rw [← h2]
  · simp [hc] at h2

/-- **Publication by `link` never replaces a destination.**  If a destination exists at the start, no
    accepted trace that publishes by `link` (contains no `rename part dest`) can get past its publishing
    event (`link` fails with `EEXIST`): at every point the destination's entry and content are the
    original ones. -/
theorem link_never_replaces (fs0 : FS) (t : List Ev) (hwf : fs0.WF) (hh : fs0.hist = [])
    (hsafe : SafeTrace t = true) (hnr : usesRename t = false) (hd : fs0.hasDest = true) :
    ∀ p q fs, t = p ++ q → exec fs0 p = some fs →
      publishes p = false ∧ fs.dir.dest = fs0.dir.dest ∧ fs.readDest = fs0.readDest := by
  intro p q fs ht hx
  have hpub : publishes p = false := by
    cases hb : publishes p with
    | false => rfl
    | true =>
      exfalso
      obtain ⟨p1, e, p2, rfl, hp1, he⟩ := publishes_split p hb
      subst ht
      have he' : e = .linkPartDest := by
        rcases he with rfl | rfl
        · simp [usesRename_append, usesRename] at hnr
        · rfl
      subst he'
      obtain ⟨fs1, hx1, hx2⟩ := exec_prefix_some fs0 p1 _ fs hx
      have hsafe1 : SafeTrace (p1 ++ ((.linkPartDest :: p2) ++ q)) = true := by simpa using hsafe
      have hv := safeTrace_live_view fs0 _ hwf hh hsafe1 p1 _ fs1 rfl hx1
      have hd1 : fs1.dir.dest = fs0.dir.dest := hv.2.2.2 hp1
      simp only [exec, FS.step, FS.linkPartDest] at hx2
      simp only [FS.hasDest] at hd
      cases hdd : fs0.dir.dest with
      | none => simp [hdd] at hd
      | some i =>
        rw [hd1, hdd] at hx2
        cases hpp : fs1.dir.part <;> simp [hpp] at hx2
  have hv := safeTrace_live_view fs0 t hwf hh hsafe p q fs ht hx
  have hd1 := hv.2.2.2 hpub
  refine ⟨hpub, hd1, ?_⟩
  unfold FS.readDest FS.inode?
  rw [hd1]
  cases h0 : fs0.dir.dest with
  | none => rfl
  | some i => simp only; rw [hv.2.1 i (hwf.1 i h0)]

/-- **One writer per part file**: with a part file in the way and `overwrite_part=False` the exclusive
    creation fails with `EEXIST` and nothing of the save is executed. -/
theorem stale_part_blocks (cfg : Cfg) (fs : FS) (body : Body) (hp : fs.hasPart = true)
    (ho : cfg.overwritePart = false) :
    exec fs (saverTrace cfg fs body) = none ∧
    fs.step (.openPart true true (choosePerms cfg fs).1) = .error EEXIST := by
  simp only [FS.hasPart] at hp
  cases hpp : fs.dir.part with
  | none => simp [hpp] at hp
  | some i =>
    have h2 : fs.step (.openPart true true (choosePerms cfg fs).1) = .error EEXIST := by
      simp [FS.step, FS.openPart, hpp]
    refine ⟨?_, h2⟩
    simp [saverTrace, ho, exec, h2]

/-- the transliterated saver with `overwrite=False`: its trace is `p ++ [unlink part]`, and after `p`
    (a crash between `link` and `unlink`) the destination holds the complete new content and the part
    file's name is a second hard link to the same inode -/
theorem saver_link_window (cfg : Cfg) (fs0 : FS) (body : Body) (hh : fs0.hist = [])
    (hp : fs0.dir.part = none ∨ cfg.overwritePart = true) (ho : cfg.overwrite = false)
    (hd : fs0.dir.dest = none) (hr : body.raises = false) :
    ∃ p fs, saverTrace cfg fs0 body = p ++ [.unlinkPart] ∧ exec fs0 p = some fs ∧
      fs.sameInode = true ∧ fs.hasPart = true ∧
      fs.destAfterProcCrash = some (body.writes.map (·.1)).flatten ∧
      fs.procCrash.readPart = some (body.writes.map (·.1)).flatten := by
  obtain ⟨fsE, hxE, _⟩ := saver_exec cfg fs0 body hh hp (Or.inr (Or.inl hd))
  have hsplit : ∃ p0, saverTrace cfg fs0 body = (p0 ++ [.linkPartDest]) ++ [.unlinkPart] := by
    refine ⟨(if cfg.overwritePart && fs0.dir.part.isSome then [Ev.unlinkPart] else []) ++
      [Ev.openPart true true (choosePerms cfg fs0).1, Ev.noop] ++
      (if (choosePerms cfg fs0).2 then [Ev.chmodPart (choosePerms cfg fs0).1] else []) ++
      body.writes.map (fun w => Ev.write w.1 w.2) ++ [Ev.flush, Ev.fsync, Ev.close], ?_⟩
    simp [saverTrace, ho, hr, List.append_assoc]
  obtain ⟨p0, hs⟩ := hsplit
  rw [hs] at hxE
  obtain ⟨fs, hx, _⟩ := exec_prefix_some fs0 _ _ fsE hxE
  have hrun := saver_run cfg fs0 body
  rw [hs] at hrun
  obtain ⟨s, hrs, _⟩ := run_prefix_some _ _ _ _ hrun
  have hl := linked_after_link p0 s hrs
  have hw := link_window fs0 (saverTrace cfg fs0 body) hh (saver_safe cfg fs0 body) _ _ fs s hs hx hrs hl
  rw [allWrites_saverTrace] at hw
  exact ⟨_, fs, hs, hx, hw.1, hw.2.1, hw.2.2.1, hw.2.2.2.1⟩

/-- non-vacuity -/
example : let fs0 : FS := ⟨[], ⟨none, none⟩, [], none, 0o022⟩
    let t := saverTrace { overwrite := false } fs0 ⟨[([1, 2], 0), ([3], 1)], false⟩
    (exec fs0 t.dropLast).map (fun fs => (fs.sameInode, fs.hasPart, fs.destAfterProcCrash)) = some (true, true, some [1, 2, 3]) ∧
    (St.init.run t.dropLast).map (·.phase) = some .linked := by decide

/-- **Nothing a died save leaves behind blocks a later `overwrite_part` save**: from ANY state `fs`
    (in particular every crash state of an earlier save, incl. the link window), once the process is gone
    and the directory has reached the disk (`FS.reboot`), a save with `overwrite=True, overwrite_part=True`
    whose block exits normally completes with exactly its own content and no part file. -/
theorem save_after_crash (fs : FS) (cfg2 : Cfg) (body2 : Body) (ho : cfg2.overwrite = true)
    (hop : cfg2.overwritePart = true) (hr : body2.raises = false) :
    ∃ fs', exec fs.reboot (saverTrace cfg2 fs.reboot body2) = some fs' ∧
      fs'.readDest = some (body2.writes.map (·.1)).flatten ∧ fs'.dir.part = none := by
  obtain ⟨fs', h1, h2, h3, _⟩ := normal_exit cfg2 fs.reboot body2 rfl (Or.inr hop) (Or.inl ho) hr
  exact ⟨fs', h1, h2, h3⟩

example : let fs0 : FS := ⟨[⟨[7], [], 0o644⟩], ⟨some 0, none⟩, [], none, 0o022⟩
    fs0.WF ∧ fs0.hist = [] ∧ fs0.hasDest = true ∧
    SafeTrace [Ev.openPart true true 0o644, .write [1] 0, .flush, .fsync, .close, .linkPartDest, .unlinkPart] = true ∧
    usesRename [Ev.openPart true true 0o644, .write [1] 0, .flush, .fsync, .close, .linkPartDest, .unlinkPart] = false ∧
    exec fs0 [Ev.openPart true true 0o644, .write [1] 0, .flush, .fsync, .close, .linkPartDest] = none ∧
    (exec fs0 [Ev.openPart true true 0o644, .write [1] 0, .flush, .fsync, .close]).isSome = true := by decide

example : let fs0 : FS := ⟨[⟨[7], [], 0o644⟩, ⟨[9, 9], [], 0o640⟩], ⟨some 0, some 1⟩, [], none, 0o022⟩
    fs0.hasPart = true ∧ exec fs0 (saverTrace {} fs0 ⟨[([1], 0)], false⟩) = none := by decide


/-! ### round 3: the name of the part file -/

/-- translator obligation (regenerated from the current source on every run): the default part file
    name is the destination path plus a NON-EMPTY suffix without a path separator -/
theorem source_part_suffix : Gen.partSuffix ≠ [] ∧ Gen.partSuffix.contains '/' = false := by decide

/-- **The part file is a different entry of the destination's own directory.**  For a destination
    with a plain base name `d` and a `part_file` argument that is absent, empty or a plain file name,
    whenever the constructor accepts (`partName … = some n`) the part file's name `n` is a plain name
    (one entry of the destination's directory, so publication never crosses a file system) and differs
    from `d` (the two names of the file-system model `C04.Dir` really are two names).  A `part_file` that
    names the destination itself is refused. -/
theorem part_name_distinct_same_dir (d : Name) (pf : Option Name) (hd : d.plain = true)
    (hpf : ∀ m, pf = some m → m = [] ∨ m.plain = true) :
    (∀ n, partName Gen.partSuffix d pf = some n → n ≠ d ∧ n.plain = true) ∧
    (pf = some d → partName Gen.partSuffix d pf = none) ∧
    (pf ≠ some d → ∃ n, partName Gen.partSuffix d pf = some n) := by
  refine ⟨fun n h => ⟨partName_ne_dest _ d pf n source_part_suffix.1 h,
    partName_plain _ d pf n source_part_suffix.1 source_part_suffix.2 hd hpf h⟩, ?_, ?_⟩
  · intro h; subst h
    have : d.isEmpty = false := by
      cases d with
      | nil => simp [Name.plain] at hd
      | cons _ _ => rfl
    simp [partName, this]
  · intro h
    cases pf with
    | none => exact ⟨_, rfl⟩
    | some m =>
      by_cases h1 : m.isEmpty = true
      · exact ⟨d ++ Gen.partSuffix, by simp [partName, h1]⟩
      · by_cases h2 : m = d
        · exact absurd (by rw [h2]) h
        · exact ⟨m, by simp [partName, h1, h2]⟩

/-- non-vacuity: the default name, an explicit name, the empty name, the refused name -/
example : partName ".part".toList "dest.txt".toList none = some "dest.txt.part".toList ∧
    partName ".part".toList "dest.txt".toList (some "x.tmp".toList) = some "x.tmp".toList ∧
    partName ".part".toList "dest.txt".toList (some []) = some "dest.txt.part".toList ∧
    partName ".part".toList "dest.txt".toList (some "dest.txt".toList) = none ∧
    Name.plain "dest.txt".toList = true := by decide

/-- why the refusal is needed: were the part file the destination itself, the "exclusive creation of the
    part file" is the creation of an EMPTY destination in place and every write goes to the destination
    directly - a process death after the creation leaves an empty destination where there was none, one
    after the first write a truncated one (the events are those of `direct_write_breaks`) -/
theorem part_named_as_dest_breaks :
    let fs0 : FS := ⟨[], ⟨none, none⟩, [], none, 0o022⟩
    let t := [Ev.truncDest, .writeDest [1, 2], .writeDest [3]]
    SafeTrace t = false ∧ fs0.readDest = none ∧
      (exec fs0 (t.take 1)).map FS.destAfterProcCrash = some (some []) ∧
      (exec fs0 (t.take 2)).map FS.destAfterProcCrash = some (some [1, 2]) := by decide

/-! ### round 3: the Windows branch of `replace()` / `atomic_rename()` -/

/-- **Windows `replace()` is one atomic `rename part dest`** (whatever the directory looks like, as long as the finished part file is there): the Windows
    `replace()` - `os.rename`, and `ReplaceFile` when that refuses with `EEXIST` - has exactly the effect
    of ONE `rename part dest`; the calls it performs, read as events (the refused rename has no effect),
    contain one publishing event and execute to the same state: the destination reads what the part
    file held and the part file's name is gone. -/
theorem nt_replace_is_one_rename (fs : FS) (hp : fs.hasPart = true) :
    (ntReplace fs).1 = fs.renamePartDest ∧
    ∃ fs', fs.renamePartDest = .ok fs' ∧ exec fs (ntReplace fs).2 = some fs' ∧
      publishes (ntReplace fs).2 = true ∧ fs'.readDest = fs.readPart ∧ fs'.hasPart = false := by
  simp only [FS.hasPart] at hp
  cases hpp : fs.dir.part with
  | none => simp [hpp] at hp
  | some i =>
    cases hd : fs.dir.dest <;>
      simp [ntReplace, FS.winRename, FS.replaceFile, FS.renamePartDest, hd, hpp, EEXIST, exec, FS.step,
        publishes, FS.setDir, FS.readDest, FS.readPart, FS.hasPart, FS.inode?]

/-- Windows `atomic_rename(overwrite=False)` over an existing destination: `os.rename` refuses, the
    error is raised, nothing has changed -/
theorem nt_no_overwrite_never_replaces (fs : FS) (hd : fs.hasDest = true) :
    ntAtomicRename false fs = (.error EEXIST, [.noop]) ∧ exec fs (ntAtomicRename false fs).2 = some fs := by
  simp only [FS.hasDest] at hd
  cases hdd : fs.dir.dest with
  | none => simp [hdd] at hd
  | some i => simp [ntAtomicRename, FS.winRename, hdd, exec, FS.step]

/-- the transliterated saver with the Windows publication step emits accepted traces, for every
    configuration, initial state and body -/
theorem saver_nt_emits_safeTrace (cfg : Cfg) (fs : FS) (body : Body) :
    SafeTrace (saverTraceNt cfg fs body) = true := saverNt_safe cfg fs body

/-- ... hence it is crash safe at every point (both crash semantics), under the assumption that
    `ReplaceFile` / Windows `rename` are atomic directory operations -/
theorem saver_nt_crash_safe (cfg : Cfg) (fs0 : FS) (body : Body) (hwf : fs0.WF) (hh : fs0.hist = [])
    (hsy : DestSynced fs0) :
    ∀ p q fs, saverTraceNt cfg fs0 body = p ++ q → exec fs0 p = some fs →
      (fs.destAfterProcCrash = fs0.readDest ∨ fs.destAfterProcCrash = some (body.writes.map (·.1)).flatten) ∧
      (∀ r, fs.PowerDest r → r = fs0.readDest ∨ r = some (body.writes.map (·.1)).flatten) ∧
      (publishes p = false → fs.destAfterProcCrash = fs0.readDest ∧ ∀ r, fs.PowerDest r → r = fs0.readDest) := by
  intro p q fs ht hx
  have := safeTrace_crash_safe fs0 _ hwf hh hsy (saverNt_safe cfg fs0 body) p q fs ht hx
  rw [allWrites_saverTraceNt] at this
  exact ⟨this.1, this.2.1, this.2.2.1⟩

/-- normal exit on Windows: the complete new content at the destination and no part file -/
theorem nt_normal_exit (cfg : Cfg) (fs : FS) (body : Body) (hh : fs.hist = [])
    (hp : fs.dir.part = none ∨ cfg.overwritePart = true)
    (hd : cfg.overwrite = true ∨ fs.dir.dest = none) (hr : body.raises = false) :
    ∃ fs', exec fs (saverTraceNt cfg fs body) = some fs' ∧
      fs'.readDest = some (body.writes.map (·.1)).flatten ∧ fs'.dir.part = none := by
  have hnd : (fs.hasDest && !cfg.overwrite && cfg.rmPartOnExc) = false := by
    rcases hd with h | h
    · simp [h]
    · simp [FS.hasDest, h]
  have hrun : (St.mk .part true false false).run (ntRest cfg fs body.writes (ntPublish cfg.overwrite fs.hasDest)) =
      some ⟨.done, false, false, false⟩ := by
    rw [ntRest_run]
    rcases hd with h | h
    · cases fs.hasDest <;> simp [ntPublish, h, St.run, St.step]
    · simp [ntPublish, FS.hasDest, h, St.run, St.step]
  have hauto : ∀ e ∈ ntRest cfg fs body.writes (ntPublish cfg.overwrite fs.hasDest), e.auto fs.dir.dest = true := by
    intro e he
    simp only [ntRest, List.mem_cons, List.mem_append, List.mem_map] at he
    rcases he with he | he | he | he | he
    · subst he; rfl
    · split at he <;> simp at he; subst he; rfl
    · obtain ⟨w, _, rfl⟩ := he; rfl
    · simp at he; rcases he with rfl | rfl | rfl <;> rfl
    · unfold ntPublish at he
      split at he
      · split at he <;> simp at he
        · rcases he with rfl | rfl <;> rfl
        · subst he; rfl
      · simp at he; subst he; rfl
  obtain ⟨fs', hx, hi⟩ := open_then_exec cfg fs _ _ hh hp hrun hauto
  refine ⟨fs', ?_, ?_⟩
  · rw [saverTraceNt_eq]; simpa [hr, hnd] using hx
  · have hw : allWrites (ntRest cfg fs body.writes (ntPublish cfg.overwrite fs.hasDest)) = (body.writes.map (·.1)).flatten := by
      have := allWrites_saverTraceNt cfg fs body
      rw [saverTraceNt_eq] at this
      simp only [hr, hnd, allWrites_append] at this
      have hpre : allWrites (saverPre cfg fs) = [] := by unfold saverPre; split <;> simp [allWrites]
      simpa [hpre, allWrites] using this
    rw [hw] at hi
    simp only [GInv] at hi
    obtain ⟨h1, h2, _, x, h4, h5, h6, _⟩ := hi
    exact ⟨by simp [FS.readDest, FS.inode?, h1, h4, Inode.cache, h5, h6], h2⟩

/-- non-vacuity: over an existing destination the Windows save performs a refused rename, then the replacing step -/
example : let fs0 : FS := ⟨[⟨[7], [], 0o644⟩], ⟨some 0, none⟩, [], none, 0o022⟩
    saverTraceNt {} fs0 ⟨[([1, 2], 0)], false⟩ =
      [.openPart true true 0o644, .noop, .chmodPart 0o644, .write [1, 2] 0, .flush, .fsync, .close, .noop, .renamePartDest] ∧
    (exec fs0 (saverTraceNt {} fs0 ⟨[([1, 2], 0)], false⟩)).map FS.readDest = some (some [1, 2]) := by decide


/-! ### round 3: a destination path that is a symbolic link -/

/-- **A destination path that is a symbolic link** (to a file, or to nothing).  On the link-aware file
    system (`C04.SFS`: the destination's entry is a file or a link to a third name; readers follow the
    link) every accepted trace is crash safe at every prefix for what a reader of the PATH finds: after a
    process death exactly the old state (the target's content / no file) or exactly the complete new
    content, the same for every power-loss outcome; until the publishing event the entry is untouched
    (a link stays a link), afterwards the path holds the complete new content and the entry is a file;
    the target's name is never touched and every inode that existed at the start - the target's among
    them - is unchanged. -/
theorem symlinked_dest_crash_safe (s0 : SFS) (t : List Ev) (hwf : s0.abs.WF) (hh : s0.hist = [])
    (hsy : DestSynced s0.abs) (hsafe : SafeTrace t = true) :
    ∀ p q s, t = p ++ q → SFS.exec s0 p = some s →
      (s.abs.destAfterProcCrash = s0.readDest ∨ s.abs.destAfterProcCrash = some (allWrites t)) ∧
      (∀ r, s.abs.PowerDest r → r = s0.readDest ∨ r = some (allWrites t)) ∧
      (publishes p = false → s.abs.destAfterProcCrash = s0.readDest ∧ s.dir.dest = s0.dir.dest) ∧
      (publishes p = true → s.abs.destAfterProcCrash = some (allWrites t) ∧ s.dir.dest ≠ some .link) ∧
      s.dir.tgt = s0.dir.tgt ∧
      (∀ i, i < s0.inodes.length → s.inodes[i]? = s0.inodes[i]?) := by
  intro p q s ht hx
  have hxa := sexec_sim p s0 s hx
  have hh' : s0.abs.hist = [] := by simp [SFS.abs, hh]
  have h1 := safeTrace_crash_safe s0.abs t hwf hh' hsy hsafe p q s.abs ht hxa
  have h2 := safeTrace_live_view s0.abs t hwf hh' hsafe p q s.abs ht hxa
  refine ⟨h1.1, h1.2.1, ?_, ?_, sexec_tgt p s0 s hx, h2.2.1⟩
  · intro hp
    exact ⟨(h1.2.2.1 hp).1, (sexec_dest p s0 s hx).1 hp⟩
  · intro hp
    obtain ⟨i, hi⟩ := (sexec_dest p s0 s hx).2 hp
    exact ⟨h1.2.2.2 hp, by rw [hi]; simp⟩

/-- non-vacuity: the destination is a link to a file with synced content `[7]`; a full save through
    `rename`; afterwards the path reads the new content, the entry is a file, the target still holds `[7]` -/
example : let s0 : SFS := ⟨[⟨[7], [], 0o644⟩], ⟨some .link, none, some 0⟩, [], none, 0o022⟩
    let t := [Ev.openPart true true 0o644, .noop, .chmodPart 0o644, .write [1, 2] 0, .flush, .fsync, .close, .renamePartDest]
    s0.abs.WF ∧ s0.hist = [] ∧ s0.readDest = some [7] ∧ SafeTrace t = true ∧
    (SFS.exec s0 t).map (fun s => (s.readDest, s.dir.dest, s.inodes[0]?.map Inode.cache)) =
      some (some [1, 2], some (.file 1), some [7]) := by decide

/-- a link to nothing: `link part dest` (overwrite=False) refuses, since the NAME exists -/
example : let s0 : SFS := ⟨[], ⟨some .link, none, none⟩, [], none, 0o022⟩
    s0.readDest = none ∧
    SFS.exec s0 [Ev.openPart true true 0o644, .write [1] 0, .flush, .fsync, .close, .linkPartDest] = none ∧
    (SFS.exec s0 [Ev.openPart true true 0o644, .write [1] 0, .flush, .fsync, .close, .renamePartDest]).map SFS.readDest = some (some [1]) := by decide


end C04
