import BoltonsVerif.Common
import BoltonsVerif.C04.Model
import BoltonsVerif.C04.Closed
import BoltonsVerif.C04.View
import BoltonsVerif.C04.Names
import BoltonsVerif.C04.Win
import BoltonsVerif.C04.Sym
import BoltonsVerif.Generated.C04_Consts
/-
C04 line protocol.  Two kinds of line:

  A <umask> <dest> <part> <events...>      acceptance of an OBSERVED trace
      dest    `-` or `<mode>:<size>`  (old content = <size> bytes of value 7);
              `L<mode>:<size>`: the destination path is a symbolic link to such a file, `L-`: a link to nothing
              (the trace is then executed on the link-aware file system `C04.SFS`, the outputs are those of `SFS.abs`)
      part    0/1: a stale part file exists at the start
      events  n | o<excl><samedir>:<mode> | c<mode> | w<size> | f | s | x | xf | R | L | U | T | W<size> | D | ?
              (one token per recorded call; a write writes <size> bytes of value 1)
  S <umask> <dest> <part> <events...>      the same for a SYSCALL-level trace (strace view; `proc=-`)
    output:  safe=<0|1> exec=<ok|fail@k> proc=<letters> power=<ok|bad@k> final=<letter> part=<0|1> dirs=<letters> held=<letter>
      proc   one letter per prefix of the trace (k = 0..N): what a reader of the destination finds
             after a process death there: a absent, o old content, n new content (= all bytes
             written by the whole trace), b both (old = new), X anything else
      power  whether after every prefix every power-loss outcome reads old (as at the start) or new
      dirs   one letter per prefix: what a listing of the directory shows of the part file's name:
             - absent, p present, l present and a hard link to the destination's inode (the link window)
      held   what a reader that opened the destination BEFORE the save reads through its descriptor at the
             end: - no destination at the start, o the old content, X anything else

  T <flags> <perms> <umask> <dest> <part> <raises> <sizes>      the model's own trace (diagnostic)
      flags four digits 0/1: overwrite, overwrite_part, rm_part_on_exc, text_mode; perms `-` or decimal
    output:  the tokens of `saverTrace`
  T <flags> <perms> <umask> <dest> <part> <raises> <sizes> closed   the same for a body that closes the part file
    output:  the tokens of `saverTraceClosed`
  T ... nt                  (ninth word `nt`) the tokens of `saverTraceNt` (Windows publication step)

  P <dest base name, UTF-8 hex> <part_file: N = not given, else UTF-8 hex (`-` = empty string)>
    output:  ok <part file name, UTF-8 hex> | refused         (`C04.partName` with the regenerated suffix)
-/
namespace C04.Driver
open BV C04

def stale : Inode := ⟨[9, 9], [], 0o640⟩

def mkFS (dest : Option Inode) (part : Bool) (umask : Nat) : FS :=
  match dest, part with
  | none, false => ⟨[], ⟨none, none⟩, [], none, umask⟩
  | some d, false => ⟨[d], ⟨some 0, none⟩, [], none, umask⟩
  | none, true => ⟨[stale], ⟨none, some 0⟩, [], none, umask⟩
  | some d, true => ⟨[d, stale], ⟨some 0, some 1⟩, [], none, umask⟩

def parseDest? (s : String) : Option (Option Inode) :=
  if s = "-" then some none else
  match splitOnChar s ':' with
  | [m, c] => match m.toNat?, c.toNat? with
    | some m, some c => some (some ⟨List.replicate c 7, [], m⟩)
    | _, _ => none
  | _ => none

def bit? (c : Char) : Option Bool := if c = '0' then some false else if c = '1' then some true else none

def parseEv? (tok : String) : Option Ev :=
  let rest := (tok.drop 1).toString
  match tok with
  | "n" => some .noop
  | "f" => some .flush
  | "s" => some .fsync
  | "x" => some .close
  | "xf" => some .closeFd
  | "R" => some .renamePartDest
  | "L" => some .linkPartDest
  | "U" => some .unlinkPart
  | "T" => some .truncDest
  | "D" => some .unlinkDest
  | "?" => some .unknown
  | _ =>
    match tok.front with
    | 'w' => rest.toNat?.map fun n => .write (List.replicate n 1) 0
    | 'W' => rest.toNat?.map fun n => .writeDest (List.replicate n 1)
    | 'c' => rest.toNat?.map fun m => .chmodPart m
    | 'o' => match splitOnChar rest ':' with
      | [fl, m] => match fl.toList.map bit?, m.toNat? with
        | [some e, some sd], some m => some (.openPart e sd m)
        | _, _ => none
      | _ => none
    | _ => none

def showEv : Ev → String
  | .noop => "n"
  | .openPart e sd m => s!"o{if e then 1 else 0}{if sd then 1 else 0}:{m}"
  | .chmodPart m => s!"c{m}"
  | .write d _ => s!"w{d.length}"
  | .flush => "f"
  | .fsync => "s"
  | .close => "x"
  | .closeFd => "xf"
  | .renamePartDest => "R"
  | .linkPartDest => "L"
  | .unlinkPart => "U"
  | .truncDest => "T"
  | .writeDest d => s!"W{d.length}"
  | .unlinkDest => "D"
  | .unknown => "?"

def classify (old : Option Bytes) (new : Bytes) (r : Option Bytes) : Char :=
  match r with
  | none => 'a'
  | some c =>
    if old = some c then (if c = new then 'b' else 'o')
    else if c = new then 'n' else 'X'

/-- every byte the trace writes anywhere (part file or, for a rejected trace, the destination itself) -/
def allData : List Ev → Bytes
  | [] => []
  | .write d _ :: t => d ++ allData t
  | .writeDest d :: t => d ++ allData t
  | _ :: t => allData t

def allOpt {α} : List (Option α) → Option (List α)
  | [] => some []
  | none :: _ => none
  | some a :: t => (allOpt t).map (a :: ·)

/-- states after every prefix (k = 0..N), until the first infeasible event -/
def prefixStates (fs : FS) : List Ev → List FS
  | [] => [fs]
  | e :: t => match fs.step e with
    | .ok fs' => fs :: prefixStates fs' t
    | .error _ => [fs]

/-- the link-aware start state: the destination's entry is a link to the third name, which holds the old file (or nothing) -/
def mkSFS (dest : Option Inode) (part : Bool) (umask : Nat) : SFS :=
  match dest, part with
  | none, false => ⟨[], ⟨some .link, none, none⟩, [], none, umask⟩
  | some d, false => ⟨[d], ⟨some .link, none, some 0⟩, [], none, umask⟩
  | none, true => ⟨[stale], ⟨some .link, some 0, none⟩, [], none, umask⟩
  | some d, true => ⟨[d, stale], ⟨some .link, some 1, some 0⟩, [], none, umask⟩

def sprefixStates (s : SFS) : List Ev → List SFS
  | [] => [s]
  | e :: t => match s.step e with
    | .ok s' => s :: sprefixStates s' t
    | .error _ => [s]

def acceptStates (fs0 : FS) (sts : List FS) (evs : List Ev) (withProc : Bool) : String :=
  let old := fs0.readDest
  let new := allData evs
  let feasible := sts.length = evs.length + 1
  let proc := if withProc then String.ofList (sts.map fun fs => classify old new fs.destAfterProcCrash) else "-"
  let okLetters : List Char := [classify old new old, 'n', 'b']
  -- `FS.powerDests` without enumerating long tails: an inode with two or more unsynced bytes has at
  -- least three power-loss contents of different lengths, which cannot all be old or new
  let powerOk (fs : FS) : Bool := (fs.dir :: fs.hist).all fun d =>
    match fs.inode? d.dest with
    | none => okLetters.contains (classify old new none)
    | some i => i.tail.length < 2 &&
        (List.range (i.tail.length + 1)).all fun k => okLetters.contains (classify old new (some (i.afterPower k)))
  let badAt := (sts.zipIdx).find? fun p => !(powerOk p.1)
  let power := match badAt with | none => "ok" | some p => s!"bad@{p.2}"
  let final := match sts.getLast? with | some fs => fs | none => fs0
  let dirs := if withProc then String.ofList (sts.map fun fs => if fs.sameInode && fs.hasPart then 'l' else if fs.hasPart then 'p' else '-') else "-"
  let held := if !withProc then "-" else match fs0.dir.dest with
    | none => "-"
    | some i => if (final.inodes[i]?).map Inode.cache = (fs0.inodes[i]?).map Inode.cache then "o" else "X"
  s!"safe={if SafeTrace evs then 1 else 0} exec={if feasible then "ok" else s!"fail@{sts.length - 1}"} proc={proc} power={power} final={classify old new final.readDest} part={if final.dir.part.isSome then 1 else 0} dirs={dirs} held={held}"

def accept (umask : Nat) (dest : Option Inode) (part : Bool) (evs : List Ev) (withProc : Bool) : String :=
  let fs0 := mkFS dest part umask
  acceptStates fs0 (prefixStates fs0 evs) evs withProc

def acceptSym (umask : Nat) (dest : Option Inode) (part : Bool) (evs : List Ev) (withProc : Bool) : String :=
  let s0 := mkSFS dest part umask
  acceptStates s0.abs ((sprefixStates s0 evs).map SFS.abs) evs withProc

def handle (line : String) : String :=
  match words line with
  | "A" :: umask :: dest :: part :: evs =>
    let sym := dest.front == 'L'
    match umask.toNat?, parseDest? (if sym then (dest.drop 1).toString else dest), part.toList.map bit?, allOpt (evs.map parseEv?) with
    | some umask, some dest, [some part], some evs => if sym then acceptSym umask dest part evs true else accept umask dest part evs true
    | _, _, _, _ => "bad-op"
  | "S" :: umask :: dest :: part :: evs =>
    match umask.toNat?, parseDest? dest, part.toList.map bit?, allOpt (evs.map parseEv?) with
    | some umask, some dest, [some part], some evs => accept umask dest part evs false
    | _, _, _, _ => "bad-op"
  | ["T", flags, perms, umask, dest, part, raises, sizes] =>
    match flags.toList.map bit?, (if perms = "-" then some none else perms.toNat?.map some),
          umask.toNat?, parseDest? dest, part.toList.map bit?, raises.toList.map bit?, natList? sizes with
    | [some ow, some owp, some rm, some txt], some perms, some umask, some dest, [some part], [some raises], some sizes =>
      let cfg : Cfg := ⟨ow, owp, rm, txt, perms⟩
      let t := saverTrace cfg (mkFS dest part umask) ⟨sizes.map fun n => (List.replicate n 1, 0), raises⟩
      " ".intercalate (t.map showEv)
    | _, _, _, _, _, _, _ => "bad-op"
  | ["T", flags, perms, umask, dest, part, _raises, sizes, "closed"] =>
    match flags.toList.map bit?, (if perms = "-" then some none else perms.toNat?.map some),
          umask.toNat?, parseDest? dest, part.toList.map bit?, natList? sizes with
    | [some ow, some owp, some rm, some txt], some perms, some umask, some dest, [some part], some sizes =>
      let cfg : Cfg := ⟨ow, owp, rm, txt, perms⟩
      let t := saverTraceClosed cfg (mkFS dest part umask) (sizes.map fun n => (List.replicate n 1, 0))
      " ".intercalate (t.map showEv)
    | _, _, _, _, _, _ => "bad-op"
  | ["T", flags, perms, umask, dest, part, raises, sizes, "nt"] =>
    match flags.toList.map bit?, (if perms = "-" then some none else perms.toNat?.map some),
          umask.toNat?, parseDest? dest, part.toList.map bit?, raises.toList.map bit?, natList? sizes with
    | [some ow, some owp, some rm, some txt], some perms, some umask, some dest, [some part], [some raises], some sizes =>
      let cfg : Cfg := ⟨ow, owp, rm, txt, perms⟩
      let t := saverTraceNt cfg (mkFS dest part umask) ⟨sizes.map fun n => (List.replicate n 1, 0), raises⟩
      " ".intercalate (t.map showEv)
    | _, _, _, _, _, _, _ => "bad-op"
  | ["P", d, pf] =>
    match hexToString? d, (if pf = "N" then some none else (hexToString? pf).map some) with
    | some d, some pf =>
      match partName Gen.partSuffix d.toList (pf.map String.toList) with
      | some n => s!"ok {stringToHex (String.ofList n)}"
      | none => "refused"
    | _, _ => "bad-op"
  | _ => "bad-op"

end C04.Driver
