import BoltonsVerif.C02.Proofs
namespace C02
theorem placeholder_partial : True := trivial
end C02
