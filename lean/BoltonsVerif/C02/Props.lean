import BoltonsVerif.C02.Extra
import BoltonsVerif.C02.HRefine
import BoltonsVerif.C02.ReentFacts
import BoltonsVerif.C02.LLFrame
import BoltonsVerif.C02.LLFrameCalls
/-
C02 — property theorems for the LRI / LRU model (statements, short derivations from
`Proofs` / `Refine` / `Facts`, non-vacuity examples).

Histories are lists of world operations `WOp` (a dict-API call on cache number i, or
`==` / `!=` between two caches); cache 0 is the freshly constructed cache (a constructor
call with `values=…` is the history that starts with `update`), every `copy()` adds a
cache.  `reach … ops` is the world after the history, so "for all ops" is "after every
step of every history".  `max ≥ 1` is what the constructor enforces.
-/
namespace C02
variable {K V : Type} [DecidableEq K] [DecidableEq V]

/-- the caches that exist after history `ops` on a fresh `LRI`/`LRU(max_size=max, on_miss=om)` -/
abbrev reach (lru : Bool) (max : Nat) (om : Option (K → OmRes V)) (ops : List (WOp K V)) : List (Cache K V) :=
  wrun [Cache.initP lru max om] ops

/-- the same history on the reference cache of the statement (`Spec.lean`) -/
abbrev refReach (lru : Bool) (max : Nat) (om : Option (K → OmRes V)) (ops : List (WOp K V)) : List (Ref K V) :=
  Ref.wrun [Ref.initP lru max om] ops

/-! ### refinement: the cache behaves like the reference cache -/

/-- after every history the caches simulate the reference caches (same contents in the same
    dict order, same counters, ring = contents in stamp order) -/
theorem refines_ref (lru : Bool) (max : Nat) (hmax : 1 ≤ max) (om : Option (K → OmRes V)) (ops : List (WOp K V)) :
    WSim (reach lru max om ops) (refReach lru max om ops) :=
  ((WSim.single (Sim.initP lru max om hmax)).run ops).1

/-- contents (and iteration order) of every cache equal those of the reference cache, in which a
    new key entering a full cache evicts exactly the key whose latest insertion-or-assignment
    (LRI) / insertion, assignment or successful lookup (LRU) is oldest -/
theorem contents_eq_ref (lru : Bool) (max : Nat) (hmax : 1 ≤ max) (om : Option (K → OmRes V)) (ops : List (WOp K V)) :
    (reach lru max om ops).map (·.d) = (refReach lru max om ops).map (·.ents) :=
  (refines_ref lru max hmax om ops).contents

/-- every call returns what the reference cache returns (value, KeyError, item, bool, length,
    iteration order; for copy(): "a new cache") -/
theorem results_eq_ref (lru : Bool) (max : Nat) (hmax : 1 ≤ max) (om : Option (K → OmRes V)) (ops : List (WOp K V)) :
    (wouts [Cache.initP lru max om] ops).map Out.shape =
    (Ref.wouts [Ref.initP lru max om] ops).map Out.shape :=
  ((WSim.single (Sim.initP lru max om hmax)).run ops).2

/-- hit / miss / soft-miss counters and the record of on_miss calls equal the reference's -/
theorem counters_eq_ref (lru : Bool) (max : Nat) (hmax : 1 ≤ max) (om : Option (K → OmRes V)) (ops : List (WOp K V)) :
    (reach lru max om ops).map (fun c => (c.hit, c.miss, c.soft, c.omLog)) =
    (refReach lru max om ops).map (fun s => (s.hit, s.miss, s.soft, s.omLog)) :=
  (refines_ref lru max hmax om ops).counters

/-- the reference's eviction victim really is a stored key with the smallest stamp -/
theorem ref_victim_is_oldest (stamp : K → Nat) (l : List K) (m : K) (h : oldest stamp l = some m) :
    m ∈ l ∧ ∀ k ∈ l, stamp m ≤ stamp k := by
  induction l generalizing m with
  | nil => simp [oldest] at h
  | cons x xs ih =>
    simp only [oldest] at h
    split at h
    · rename_i hn
      have : xs = [] := by
        cases xs with
        | nil => rfl
        | cons y ys =>
          simp only [oldest] at hn
          split at hn
          · simp at hn
          · split at hn <;> simp at hn
      simp at h; subst h this; simp
    · rename_i m' hm'
      have := ih m' hm'
      split at h
      · rename_i hle
        simp at h; subst h
        refine ⟨by simp, fun k hk => ?_⟩
        simp only [List.mem_cons] at hk
        rcases hk with rfl | hk
        · exact Nat.le_refl _
        · exact Nat.le_trans hle (this.2 k hk)
      · rename_i hle
        simp at h; subst h
        refine ⟨List.mem_cons_of_mem _ this.1, fun k hk => ?_⟩
        simp only [List.mem_cons] at hk
        rcases hk with rfl | hk
        · omega
        · exact this.2 k hk

/-- the ring of every cache is its contents in the order of the reference's stamps (oldest
    first): the ring head is the key whose latest insertion / assignment / (LRU) lookup is oldest -/
theorem ring_is_recency_order (lru : Bool) (max : Nat) (hmax : 1 ≤ max) (om : Option (K → OmRes V))
    (ops : List (WOp K V)) (c : Cache K V) (hc : c ∈ reach lru max om ops) :
    ∃ s ∈ refReach lru max om ops, c.d = s.ents ∧ c.ring.Perm s.ents ∧
      c.ring.Pairwise (fun a b => s.stamp a.1 < s.stamp b.1) := by
  obtain ⟨s, hs, h⟩ := (refines_ref lru max hmax om ops).of_mem hc
  exact ⟨s, hs, h.d, h.d ▸ h.inv.sync.perm.symm, h.sorted⟩

/-- the reference cache by itself: assigning to a present key, or while there is room, touches
    no other key; a new key entering a full cache removes exactly the key with the oldest stamp;
    the assigned key gets the current time as its stamp, no other stamp changes -/
theorem ref_assign_evicts_oldest (s : Ref K V) (hn : (keys s.ents).Nodup) (hmax : 1 ≤ s.max) (k : K) (v : V) :
    lookup k (s.assign k v).ents = some v ∧
    (s.assign k v).stamp k = s.now ∧ (∀ k', k' ≠ k → (s.assign k v).stamp k' = s.stamp k') ∧
    s.now < (s.assign k v).now ∧
    ((lookup k s.ents).isSome ∨ s.ents.length < s.max →
      ∀ k', k' ≠ k → lookup k' (s.assign k v).ents = lookup k' s.ents) ∧
    (lookup k s.ents = none → ¬ s.ents.length < s.max →
      ∃ m, oldest s.stamp (keys s.ents) = some m ∧ (∀ k' ∈ keys s.ents, s.stamp m ≤ s.stamp k') ∧
        lookup m (s.assign k v).ents = none ∧
        ∀ k', k' ≠ m → k' ≠ k → lookup k' (s.assign k v).ents = lookup k' s.ents) := by
  refine ⟨lookup_dset_self _ _ _, by simp [Ref.assign, setStamp], ?_, by simp [Ref.assign], ?_, ?_⟩
  · intro k' h; simp [Ref.assign, setStamp, h]
  · intro h k' hne
    show lookup k' (dset k v (s.makeRoom k)) = _
    rw [lookup_dset_ne hne]; unfold Ref.makeRoom; rw [if_pos h]
  · intro hk hfull
    have hne : s.ents ≠ [] := by intro e; rw [e] at hfull; simp at hfull; omega
    cases ho : oldest s.stamp (keys s.ents) with
    | none =>
      exfalso
      cases hl : s.ents with
      | nil => exact hne hl
      | cons p l =>
        rw [hl] at ho; simp only [keys_cons, oldest] at ho
        split at ho
        · simp at ho
        · split at ho <;> simp at ho
    | some m =>
      have hm := ref_victim_is_oldest s.stamp _ m ho
      have hd : (s.assign k v).ents = dset k v (eraseKey m s.ents) := by
        show dset k v (s.makeRoom k) = _
        unfold Ref.makeRoom
        rw [if_neg (by rw [hk]; simp [hfull]), ho]
      have hmk : m ≠ k := by
        intro e; rw [e] at hm; exact (lookup_none_iff _ _).1 hk hm.1
      refine ⟨m, rfl, hm.2, ?_, ?_⟩
      · rw [hd, lookup_dset_ne hmk, lookup_eraseKey_self _ _ hn]
      · intro k' h1 h2; rw [hd, lookup_dset_ne h2, lookup_eraseKey_ne h1]

/-! ### capacity and the three structures staying in step -/

/-- the representation invariant holds in every reachable cache -/
theorem reachable_inv (lru : Bool) (max : Nat) (hmax : 1 ≤ max) (om : Option (K → OmRes V))
    (ops : List (WOp K V)) (c : Cache K V) (hc : c ∈ reach lru max om ops) : Inv c := by
  obtain ⟨s, _, h⟩ := (refines_ref lru max hmax om ops).of_mem hc
  exact h.inv

/-- class, capacity and on_miss of every cache of the world (copies included) are the
    constructor's -/
theorem config_constant (lru : Bool) (max : Nat) (om : Option (K → OmRes V)) (ops : List (WOp K V))
    (c : Cache K V) (hc : c ∈ reach lru max om ops) : c.lru = lru ∧ c.max = max ∧ c.onMiss = om := by
  have := wrun_config (w := [Cache.initP lru max om]) (cfg := (lru, max, om))
    (by intro c hc; simp at hc; subst hc; rfl) ops c hc
  simp only [Cache.config, Prod.mk.injEq] at this
  exact this

/-- an LRI / LRU never holds more than max_size items -/
theorem size_le_max (lru : Bool) (max : Nat) (hmax : 1 ≤ max) (om : Option (K → OmRes V))
    (ops : List (WOp K V)) (c : Cache K V) (hc : c ∈ reach lru max om ops) : c.d.length ≤ max := by
  have h := (reachable_inv lru max hmax om ops c hc).cap
  rwa [(config_constant lru max om ops c hc).2.1] at h

/-- dict, key->link table and ring describe the same mapping: same keys without duplicates,
    same values, and the ring is a permutation of the dict items -/
theorem ring_perm_keys (lru : Bool) (max : Nat) (hmax : 1 ≤ max) (om : Option (K → OmRes V))
    (ops : List (WOp K V)) (c : Cache K V) (hc : c ∈ reach lru max om ops) :
    c.ring.Perm c.d ∧ (keys c.ring).Nodup ∧ (keys c.d).Nodup ∧ ∀ k, lookup k c.d = lookup k c.ring := by
  have h := (reachable_inv lru max hmax om ops c hc).sync
  exact ⟨h.perm.symm, h.nr, h.nd, h.agree⟩

/-! ### lookups: results, counters, on_miss  (`c` is any cache satisfying the invariant, e.g.
    any reachable one by `reachable_inv`) -/

/-- a key that is not in the cache (never inserted, evicted or removed) is never returned:
    without on_miss, `c[k]` raises KeyError and get / setdefault answer with the caller's
    default; that is one miss and, for get / setdefault, one soft miss -/
theorem absent_not_returned {c : Cache K V} (hi : Inv c) {op : Op K V} {k : K}
    (hop : op.lookupKey = some k) (hk : lookup k c.d = none) (hom : c.onMiss = none) :
    (step c op).2 = (match op.dflt with | some d => .val d | none => .keyError) ∧
    (step c op).1.hit = c.hit ∧ (step c op).1.miss = c.miss + 1 ∧
    (step c op).1.soft = c.soft + (if op.dflt.isSome then 1 else 0) ∧ (step c op).1.omLog = c.omLog :=
  step_lookup_absent hi hop hk hom

/-- … and `in`, `pop` do not find it either -/
theorem absent_not_found (c : Cache K V) {k : K} (hk : lookup k c.d = none) (d : Option V) :
    (step c (.contains k)).2 = .bool false ∧
    (step c (.pop k d)).2 = (match d with | some v => .val v | none => .keyError) ∧
    (step c (.delitem k)).2 = .keyError := by
  simp only [step, hk]
  cases d <;> simp

/-- removed keys are gone: after `del c[k]` / `c.pop(k)` the key is absent, other keys are untouched -/
theorem removed_is_absent {c : Cache K V} (hi : Inv c) (k : K) (d : Option V) :
    lookup k (step c (.delitem k)).1.d = none ∧ lookup k (step c (.pop k d)).1.d = none ∧
    ∀ k', k' ≠ k → lookup k' (step c (.delitem k)).1.d = lookup k' c.d ∧
                   lookup k' (step c (.pop k d)).1.d = lookup k' c.d := by
  simp only [step]
  cases hk : lookup k c.d with
  | none => cases d <;> simp [hk]
  | some v =>
    simp only []
    exact ⟨remove_absent hi k, remove_absent hi k, fun k' h => ⟨remove_others k h, remove_others k h⟩⟩

/-- `popitem()` returns an item of the cache and removes exactly that key -/
theorem popitem_removes {c : Cache K V} (hi : Inv c) {k : K} {v : V}
    (h : (step c .popitem).2 = .item k v) :
    lookup k c.d = some v ∧ lookup k (step c .popitem).1.d = none ∧
    (∀ k', k' ≠ k → lookup k' (step c .popitem).1.d = lookup k' c.d) := by
  simp only [step] at h ⊢
  cases hp : c.d.getLast? with
  | none => rw [hp] at h; simp at h
  | some p =>
    rw [hp] at h; simp at h
    obtain ⟨rfl, rfl⟩ := h
    simp only []
    rw [dropLast_eq_eraseKey hi.sync.nd hp]
    exact ⟨lookup_of_mem hi.sync.nd (List.mem_of_getLast? hp), lookup_eraseKey_self _ _ hi.sync.nd,
      fun k' h' => lookup_eraseKey_ne h' _⟩

/-- `popitem()` on an empty cache raises KeyError; `clear()` empties the cache -/
theorem popitem_empty_clear (c : Cache K V) :
    (c.d = [] → (step c .popitem).2 = .keyError) ∧ (step c .clear).1.d = [] ∧ (step c .clear).1.ring = [] := by
  refine ⟨fun h => ?_, rfl, rfl⟩
  simp [step, h]

/-- inserting a NEW key into a FULL cache evicts the head of the ring — by
    `ring_is_recency_order` the key whose latest insertion / assignment / (LRU) lookup is oldest
    — and only it; the size stays max_size -/
theorem full_insert_evicts_ring_head {c : Cache K V} (hi : Inv c) (k : K) (v : V)
    (hk : lookup k c.d = none) (hfull : ¬ c.d.length < c.max) :
    ∃ e rest, c.ring = e :: rest ∧ lookup e.1 (c.setitem k v).d = none ∧
      (∀ k', k' ≠ e.1 → k' ≠ k → lookup k' (c.setitem k v).d = lookup k' c.d) ∧
      lookup k (c.setitem k v).d = some v ∧ (c.setitem k v).d.length = c.d.length := by
  obtain ⟨e, rest, h1, h2, h3, h4⟩ := setitem_evicts hi k v hk hfull
  exact ⟨e, rest, h1, h2, h3, setitem_lookup_self hi k v, h4⟩

/-- assigning to a present key, or inserting while there is room, evicts nothing -/
theorem other_insert_evicts_nothing {c : Cache K V} (hi : Inv c) (k : K) (v : V)
    (h : (lookup k c.d).isSome ∨ c.d.length < c.max) :
    lookup k (c.setitem k v).d = some v ∧ ∀ k', k' ≠ k → lookup k' (c.setitem k v).d = lookup k' c.d :=
  ⟨setitem_lookup_self hi k v, fun _ hne => setitem_keeps hi k v h hne⟩

/-- a lookup that finds the key returns the stored value, counts one hit, calls nothing -/
theorem found_is_hit {c : Cache K V} (hi : Inv c) {op : Op K V} {k : K} {v : V}
    (hop : op.lookupKey = some k) (hk : lookup k c.d = some v) :
    (step c op).2 = .val v ∧ (step c op).1.hit = c.hit + 1 ∧ (step c op).1.miss = c.miss ∧
    (step c op).1.soft = c.soft ∧ (step c op).1.omLog = c.omLog ∧ (step c op).1.d = c.d :=
  step_lookup_found hi hop hk

/-- on_miss is called exactly for lookups of absent keys: `omLog` grows by `[k]` iff the
    operation is a lookup of a key that is absent and on_miss is configured -/
theorem on_miss_called_iff_absent {c : Cache K V} (hi : Inv c) (op : Op K V) :
    (step c op).1.omLog = c.omLog ++
      (match op.lookupKey with
       | some k => if (lookup k c.d).isNone ∧ c.onMiss.isSome then [k] else []
       | none => []) := by
  cases hop : op.lookupKey with
  | none => simp [(step_nonlookup c op hop).2.2.2]
  | some k =>
    cases hk : lookup k c.d with
    | some v => simp [(step_lookup_found hi hop hk).2.2.2.2.1, hk]
    | none =>
      cases hom : c.onMiss with
      | none => simp [(step_lookup_absent hi hop hk hom).2.2.2.2, hk, hom]
      | some f =>
        cases hf : f k with
        | ret v => simp [(step_lookup_onMiss hi hop hk hom hf).2.2.2.2.1, hk, hom]
        | keyError => simp [(step_lookup_onMiss_keyError hi hop hk hom hf).2.2.2.2, hk, hom]
        | error => simp [(step_lookup_onMiss_error hi hop hk hom hf).2.2.2.2.1, hk, hom]

/-- … and when it returns, its result is returned and cached (one miss, no soft miss) -/
theorem on_miss_result_cached {c : Cache K V} (hi : Inv c) {op : Op K V} {k : K} {f : K → OmRes V} {v : V}
    (hop : op.lookupKey = some k) (hk : lookup k c.d = none) (hom : c.onMiss = some f) (hf : f k = .ret v) :
    (step c op).2 = .val v ∧ lookup k (step c op).1.d = some v ∧
    (step c op).1.hit = c.hit ∧ (step c op).1.miss = c.miss + 1 ∧ (step c op).1.soft = c.soft := by
  have := step_lookup_onMiss hi hop hk hom hf
  exact ⟨this.1, this.2.2.2.2.2, this.2.1, this.2.2.1, this.2.2.2.1⟩

/-- when on_miss raises KeyError the lookup is still a miss (counted before on_miss is called):
    `c[k]` raises KeyError, get / setdefault answer with the caller's default and count a soft
    miss on top of the miss — so soft_miss_count cannot overtake miss_count -/
theorem on_miss_keyError_is_a_miss {c : Cache K V} (hi : Inv c) {op : Op K V} {k : K} {f : K → OmRes V}
    (hop : op.lookupKey = some k) (hk : lookup k c.d = none) (hom : c.onMiss = some f) (hf : f k = .keyError) :
    (step c op).2 = (match op.dflt with | some d => .val d | none => .keyError) ∧
    (step c op).1.hit = c.hit ∧ (step c op).1.miss = c.miss + 1 ∧
    (step c op).1.soft = c.soft + (if op.dflt.isSome then 1 else 0) ∧
    (step c op).1.omLog = c.omLog ++ [k] :=
  step_lookup_onMiss_keyError hi hop hk hom hf

/-- when on_miss raises any other exception it propagates (also out of get / setdefault); the
    lookup is a miss, not a soft miss, and nothing is cached -/
theorem on_miss_error_propagates {c : Cache K V} (hi : Inv c) {op : Op K V} {k : K} {f : K → OmRes V}
    (hop : op.lookupKey = some k) (hk : lookup k c.d = none) (hom : c.onMiss = some f) (hf : f k = .error) :
    (step c op).2 = .raised ∧ (step c op).1.hit = c.hit ∧ (step c op).1.miss = c.miss + 1 ∧
    (step c op).1.soft = c.soft ∧ (step c op).1.omLog = c.omLog ++ [k] ∧ (step c op).1.d = c.d :=
  step_lookup_onMiss_error hi hop hk hom hf

/-- LRI: a successful lookup does not change the eviction order; LRU: it moves the key to the
    most-recent end of the ring (and nothing else) -/
theorem lookup_refreshes_only_lru {c : Cache K V} (hi : Inv c) {op : Op K V} {k : K} {v : V}
    (hop : op.lookupKey = some k) (hk : lookup k c.d = some v) :
    (step c op).1.ring = if c.lru then toFront k v c.ring else c.ring := by
  have hr : lookup k c.ring = some v := by rw [← hi.sync.agree, hk]
  cases op with
  | getitem k' => simp [Op.lookupKey] at hop; subst hop; simp [step, Cache.getitem_hit hr]
  | get k' d => simp [Op.lookupKey] at hop; subst hop; simp [step, Cache.getitem_hit hr]
  | setdefault k' d => simp [Op.lookupKey] at hop; subst hop; simp [step, Cache.getitem_hit hr]
  | _ => simp [Op.lookupKey] at hop

/-- insertion or assignment always makes the key the most recent one (LRI and LRU alike) -/
theorem assignment_refreshes {c : Cache K V} (hi : Inv c) (k : K) (v : V) :
    (c.setitem k v).ring.getLast? = some (k, v) := by
  unfold Cache.setitem
  split
  · simp [toFront]
  · split
    · simp
    · rename_i hfull
      split
      · rename_i hr; exact absurd hr (evict_ring_nonempty hi hfull)
      · simp

/-- on_miss does not supply a value for `k`: there is none, or it raises KeyError -/
def Cache.unanswered (c : Cache K V) (k : K) : Bool :=
  match c.onMiss with
  | none => true
  | some f => match f k with
    | .keyError => true
    | _ => false

/-- what one call adds to (hit, miss, soft_miss) according to the statement: a lookup that finds
    the key is a hit, one that does not is a miss — whatever on_miss then does —, and a miss
    answered by the caller's default (get / setdefault when on_miss supplies no value) is also a
    soft miss -/
def delta (c : Cache K V) (op : Op K V) : Nat × Nat × Nat :=
  match op.lookupKey with
  | none => (0, 0, 0)
  | some k =>
    if (lookup k c.d).isSome then (1, 0, 0)
    else (0, 1, if c.unanswered k ∧ op.dflt.isSome then 1 else 0)

/-- the lookups of a whole history on one cache, counted as the statement counts them -/
def tally (c : Cache K V) : List (Op K V) → Nat × Nat × Nat
  | [] => (0, 0, 0)
  | op :: ops =>
    ((delta c op).1 + (tally (step c op).1 ops).1,
     (delta c op).2.1 + (tally (step c op).1 ops).2.1,
     (delta c op).2.2 + (tally (step c op).1 ops).2.2)

theorem counters_step {c : Cache K V} (hi : Inv c) (op : Op K V) :
    (step c op).1.hit = c.hit + (delta c op).1 ∧ (step c op).1.miss = c.miss + (delta c op).2.1 ∧
    (step c op).1.soft = c.soft + (delta c op).2.2 := by
  unfold delta
  cases hop : op.lookupKey with
  | none => have := step_nonlookup c op hop; simp [this.1, this.2.1, this.2.2.1]
  | some k =>
    cases hk : lookup k c.d with
    | some v => have := step_lookup_found hi hop hk; simp [this.2.1, this.2.2.1, this.2.2.2.1, hk]
    | none =>
      cases hom : c.onMiss with
      | none =>
        have := step_lookup_absent hi hop hk hom
        simp [this.2.1, this.2.2.1, this.2.2.2.1, hk, hom, Cache.unanswered]
      | some f =>
        cases hf : f k with
        | ret v =>
          have := step_lookup_onMiss hi hop hk hom hf
          simp [this.2.1, this.2.2.1, this.2.2.2.1, hk, hom, hf, Cache.unanswered]
        | keyError =>
          have := step_lookup_onMiss_keyError hi hop hk hom hf
          simp [this.2.1, this.2.2.1, this.2.2.2.1, hk, hom, hf, Cache.unanswered]
        | error =>
          have := step_lookup_onMiss_error hi hop hk hom hf
          simp [this.2.1, this.2.2.1, this.2.2.2.1, hk, hom, hf, Cache.unanswered]

/-- hit_count, miss_count and soft_miss_count equal the numbers of lookups that found the key,
    that did not, and not-found lookups answered by a caller default — over every history -/
theorem counters_count_lookups {c : Cache K V} (hi : Inv c) (ops : List (Op K V)) :
    (run c ops).hit = c.hit + (tally c ops).1 ∧ (run c ops).miss = c.miss + (tally c ops).2.1 ∧
    (run c ops).soft = c.soft + (tally c ops).2.2 := by
  unfold run
  induction ops generalizing c with
  | nil => simp [tally]
  | cons op ops ih =>
    have h1 := counters_step hi op
    have h2 := ih (step_inv hi op)
    simp only [List.foldl_cons, tally]
    omega

/-- soft_miss_count ≤ miss_count always -/
theorem soft_le_miss (lru : Bool) (max : Nat) (hmax : 1 ≤ max) (om : Option (K → OmRes V))
    (ops : List (WOp K V)) (c : Cache K V) (hc : c ∈ reach lru max om ops) : c.soft ≤ c.miss :=
  (reachable_inv lru max hmax om ops c hc).soft_le

/-! ### copy(), |=, == -/

/-- copy() yields a cache with the same class, capacity, on_miss, contents (in the same dict
    order) and eviction order, with fresh counters … -/
theorem copy_same_contents_and_order (c : Cache K V) :
    ∃ n, (step c .copy).2 = .cache n ∧ n.d = c.d ∧ n.ring = c.ring ∧ n.max = c.max ∧ n.lru = c.lru ∧
      n.onMiss = c.onMiss ∧ (n.hit, n.miss, n.soft) = (0, 0, 0) :=
  ⟨c.copied, rfl, rfl, rfl, rfl, rfl, rfl, rfl⟩

/-- … and leaves the original — contents, eviction order, counters — unchanged -/
theorem copy_leaves_source (c : Cache K V) : (step c .copy).1 = c := rfl

/-- the copy is independent: a call on one cache of the world changes no other cache -/
theorem copy_independent (w : List (Cache K V)) (i j : Nat) (op : Op K V) (hj : j < w.length) (hne : j ≠ i) :
    (wstep w (.on i op)).1[j]? = w[j]? := wstep_others w i op j hj hne

/-- `c |= E` is `c.update(E)` (so it obeys max_size and the eviction order) -/
theorem ior_is_update (c : Cache K V) (e : Arg K V) : step c (.ior e) = step c (.update e []) := rfl

/-- the read-only calls (in, len, iteration, ==, !=, copy) change nothing -/
theorem readers_pure (c : Cache K V) (k : K) (o : Arg K V) :
    (step c (.contains k)).1 = c ∧ (step c .len).1 = c ∧ (step c .items).1 = c ∧
    (step c (.eq o)).1 = c ∧ (step c (.ne o)).1 = c ∧ (step c .copy).1 = c :=
  ⟨rfl, rfl, rfl, rfl, rfl, rfl⟩

/-- `!=` is the negation of `==`; a cache equals itself -/
theorem ne_is_not_eq (c : Cache K V) (o : Arg K V) :
    (step c (.ne o)).2 = .bool (!c.eqArg o) ∧ (step c (.eq o)).2 = .bool (c.eqArg o) ∧
    c.eqArg .self = true := ⟨rfl, rfl, rfl⟩

/-- `==` against a mapping answers whether the two mappings are equal (same keys, same values) -/
theorem eq_decides_mapping_equality {c : Cache K V} (hi : Inv c) (o : List (K × V)) (ho : (keys o).Nodup) :
    (step c (.eq (.pairs o))).2 = .bool true ↔ ∀ k, lookup k c.d = lookup k o := by
  simp only [step, Cache.eqArg, Out.bool.injEq]
  exact dictEq_iff hi.sync.nd ho

/-- same eviction order, observably: whatever is done to the copy and to the original from now
    on, both return the same results and hold the same contents in the same orders -/
theorem copy_behaves_like_source (c : Cache K V) (ops : List (Op K V)) :
    (outs c.copied ops).map Out.shape = (outs c ops).map Out.shape ∧
    (run c.copied ops).d = (run c ops).d ∧ (run c.copied ops).ring = (run c ops).ring := by
  have := (SameCore.copied c).run ops
  exact ⟨this.2, this.1.d, this.1.ring⟩

/-! ### update / |= with unusual arguments, == with a non-mapping -/

/-- `c.update(E)` / `c |= E` where iterating `E` yields the pairs `l` and then raises (an exhausted
    generator that throws, a malformed element): the exception propagates, the pairs received so
    far have been assigned exactly as `update(l)` assigns them — so the cache still obeys max_size
    and the eviction order (`reachable_inv`, `refines_ref` cover this call like any other) -/
theorem update_failing_keeps_prefix (c : Cache K V) (l : List (K × V)) :
    (step c (.updateFail l)).2 = .raised ∧ (step c (.updateFail l)).1 = (step c (.update (.pairs l) [])).1 :=
  ⟨rfl, rfl⟩

/-- `c == x` is False and `c != x` is True for an `x` that is not a mapping; nothing changes -/
theorem eq_other_is_false (c : Cache K V) :
    step c .eqOther = (c, .bool false) ∧ step c .neOther = (c, .bool true) := ⟨rfl, rfl⟩

/-- `c.update(c, **kw)` / `c |= c` do nothing (`if E is self: return`) -/
theorem update_from_self (w : List (Cache K V)) (i : Nat) (kw : List (K × V)) :
    wstep w (.updc i i kw) = (w, .none) := by
  simp only [wstep]
  cases w[i]? <;> simp

/-- `a.update(b, **kw)` / `a |= b` with another cache `b` (dict and ring of `b` in step, e.g. `b`
    reachable): `a` is updated with the items of `b` in `b`'s iteration order, then with `kw`,
    exactly as by `a.update(dict(b), **kw)`; `b` keeps its contents, every `E[k]` the update
    evaluates is a found lookup on `b` (one hit per item, no miss, on_miss never called); an LRI `b`
    keeps its eviction order, an LRU `b` ends up with its dict order as eviction order -/
theorem update_from_cache (w : List (Cache K V)) (i j : Nat) (kw : List (K × V)) {a b : Cache K V}
    (ha : w[i]? = some a) (hb : w[j]? = some b) (hne : i ≠ j) (hi : Inv b) :
    ∃ b', wstep w (.updc i j kw) = ((w.set i (a.update (.pairs b.d) kw)).set j b', .none) ∧
      b'.d = b.d ∧ b'.hit = b.hit + b.d.length ∧ b'.miss = b.miss ∧ b'.soft = b.soft ∧
      b'.omLog = b.omLog ∧ b'.ring = (if b.lru then b.d else b.ring) ∧ Inv b' := by
  have h := updFrom_hits (c := a) hi b.d (fun p hp => lookup_of_mem hi.sync.nd hp)
  obtain ⟨h1, h2, h3, h4, h5, h6, h7, h8, h9⟩ := h
  refine ⟨b.readAll (keys b.d), ?_, h2, h3, h4, h5, h6, ?_, h7⟩
  · simp only [wstep, ha, hb, hne, if_false, h1, Cache.update]
  · cases hl : b.lru with
    | false => simp [h8 hl]
    | true =>
      rw [h9 hl, foldl_toFront _ _ hi.sync.nd, eraseKeys_all _ _ hi.sync.nr]
      · simp
      · intro k hk
        rw [← lookup_isSome_iff] at hk ⊢
        rwa [hi.sync.agree]

/-! ### the linked list itself: links, PREV / NEXT pointers, the rotating anchor (`LL.lean`)

`HCache` transliterates `_init_ll`, `_get_link_and_move_to_front_of_ll`, `_set_key_and_add_to_front_of_ll`,
`_set_key_and_evict_last_in_ll`, `_remove_from_ll` and the traversal in `copy()` statement by statement
on a memory of links; `reach` above is the ring model.  The theorems below show that the pointer code
implements the ring operations, so everything proved above holds for the pointer-level cache. -/

/-- the pointer-level caches after history `ops` -/
abbrev hreach (lru : Bool) (max : Nat) (om : Option (K → OmRes V)) (ops : List (WOp K V)) : List (HCache K V) :=
  hwrun [HCache.initP lru max om] ops

/-- after every history the pointer-level caches simulate the ring-level caches (same dict, same
    counters, the links reachable from the anchor are the ring, oldest first) and every call returned
    the same result -/
theorem linked_list_refines_ring (lru : Bool) (max : Nat) (hmax : 1 ≤ max) (om : Option (K → OmRes V))
    (ops : List (WOp K V)) :
    HWSim (hreach lru max om ops) (reach lru max om ops) ∧
    (hwouts [HCache.initP lru max om] ops).map Out.shape = (wouts [Cache.initP lru max om] ops).map Out.shape :=
  (HWSim.single (HSim.initP lru max om hmax)).run ops

/-- every pointer-level cache corresponds to the ring-level cache with the same number -/
theorem linked_list_cache_of_mem (lru : Bool) (max : Nat) (hmax : 1 ≤ max) (om : Option (K → OmRes V))
    (ops : List (WOp K V)) (h : HCache K V) (hh : h ∈ hreach lru max om ops) :
    ∃ c ∈ reach lru max om ops, HSim h c := by
  have hw := (linked_list_refines_ring lru max hmax om ops).1
  obtain ⟨i, hi⟩ := List.mem_iff_getElem?.1 hh
  rcases hw.get i with ⟨h1, _⟩ | ⟨a, c, h1, h2, hs⟩
  · rw [h1] at hi; cases hi
  · rw [h1] at hi; cases hi
    exact ⟨c, List.mem_of_getElem? h2, hs⟩

/-- capacity, contents and counters of the pointer-level caches: never more than max_size items;
    dict contents (in order), hit / miss / soft-miss counters and on_miss calls equal the reference
    cache's — the statement of the property, for the code with the real linked list -/
theorem linked_list_contents_eq_ref (lru : Bool) (max : Nat) (hmax : 1 ≤ max) (om : Option (K → OmRes V))
    (ops : List (WOp K V)) :
    (hreach lru max om ops).map (fun h => (h.d, h.hit, h.miss, h.soft, h.omLog)) =
      (refReach lru max om ops).map (fun s => (s.ents, s.hit, s.miss, s.soft, s.omLog)) ∧
    (hwouts [HCache.initP lru max om] ops).map Out.shape = (Ref.wouts [Ref.initP lru max om] ops).map Out.shape ∧
    ∀ h ∈ hreach lru max om ops, h.d.length ≤ max := by
  have hw := linked_list_refines_ring lru max hmax om ops
  have hr := refines_ref lru max hmax om ops
  refine ⟨?_, hw.2.trans (results_eq_ref lru max hmax om ops), ?_⟩
  · apply List.ext_getElem?
    intro i
    rw [List.getElem?_map, List.getElem?_map]
    rcases hw.1.get i with ⟨h1, h2⟩ | ⟨a, c, h1, h2, hs⟩
    · rcases hr.get i with ⟨g1, g2⟩ | ⟨c', s, g1, _, _⟩
      · rw [h1, g2]; rfl
      · rw [h2] at g1; cases g1
    · rcases hr.get i with ⟨g1, _⟩ | ⟨c', s, g1, g2, hcs⟩
      · rw [h2] at g1; cases g1
      · rw [h2] at g1; cases g1
        rw [h1, g2]
        simp [hs.d, hs.hit, hs.miss, hs.soft, hs.log, hcs.d, hcs.hit, hcs.miss, hcs.soft, hcs.log]
  · intro h hh
    obtain ⟨c, hc, hs⟩ := linked_list_cache_of_mem lru max hmax om ops h hh
    rw [hs.d]; exact size_le_max lru max hmax om ops c hc

/-- the links of every reachable cache form a well-formed circular doubly linked list (`Rep`: NEXT /
    PREV consistent, no link twice, the anchor holds `_MISSING`-free neighbours, `_link_lookup` maps
    each key to its link), and walking it from the anchor as `copy()` does yields the items in
    eviction order: first the key whose latest insertion / assignment / (LRU) lookup is oldest -/
theorem linked_list_wellformed (lru : Bool) (max : Nat) (hmax : 1 ≤ max) (om : Option (K → OmRes V))
    (ops : List (WOp K V)) (h : HCache K V) (hh : h ∈ hreach lru max om ops) :
    ∃ c ∈ reach lru max om ops, ∃ cells, Rep h.ll cells ∧ ringOf cells = c.ring ∧ h.d = c.d ∧
      h.ll.flatten = c.ring.map (fun p => (some p.1, some p.2)) := by
  obtain ⟨c, hc, hs⟩ := linked_list_cache_of_mem lru max hmax om ops h hh
  obtain ⟨cells, hrep, hring⟩ := hs.rep
  exact ⟨c, hc, cells, hrep, hring, hs.d, by rw [hrep.flatten, hring]⟩

/-- the four `_ll` helpers on a well-formed list `l` representing the ring `cells` (key ↦ (address of
    its link, value), oldest first):
    move-to-front splices the link out and back in before the anchor; add-to-front allocates one
    link before the anchor; evict-last moves NO link — the old anchor becomes the newest link, the
    oldest link becomes the anchor and its key is the one reported as evicted; remove splices out -/
theorem ll_helpers_implement_ring_ops {l : LL K V} {cells : Cells K V} (h : Rep l cells) (k : K) (v : V) :
    (∀ n v0, lookup k cells = some (n, v0) →
      ∃ l', l.moveToFront k = some (l', n) ∧ Rep l' (eraseKey k cells ++ [(k, (n, v0))]) ∧
            Rep { l' with val := upd l'.val n (some v) } (eraseKey k cells ++ [(k, (n, v))]) ∧
      ∃ l'', l.remove k = some l'' ∧ Rep l'' (eraseKey k cells)) ∧
    (lookup k cells = none →
      l.moveToFront k = none ∧ l.remove k = none ∧ Rep (l.addFront k v) (cells ++ [(k, (l.fresh, v))]) ∧
      ∀ e ae ve rest, cells = (e, (ae, ve)) :: rest →
        ∃ l', l.evictLast k v = (l', some e) ∧ Rep l' (rest ++ [(k, (l.anchor, v))]) ∧
              l'.anchor = ae ∧ l'.next = l.next ∧ l'.prev = l.prev) := by
  refine ⟨fun n v0 hk => ?_, fun hk => ⟨h.moveToFront_none hk, h.remove_none hk, h.addFront v hk, ?_⟩⟩
  · obtain ⟨xs, ys, hsplit, _, herase⟩ := lookup_split hk
    subst hsplit
    obtain ⟨l', hm, hr', _⟩ := h.moveToFront
    obtain ⟨l'', hrm, hr''⟩ := h.remove
    rw [herase]
    exact ⟨l', hm, hr', hr'.setVal v, l'', hrm, hr''⟩
  · intro e ae ve rest hc
    subst hc
    obtain ⟨l', he, hr'⟩ := h.evictLast v hk
    refine ⟨l', he, hr', ?_⟩
    have hnx : rd l.next l.anchor = ae := h.chain.1
    have : l' = (l.evictLast k v).1 := by rw [he]
    subst this
    simp [LL.evictLast, hnx]

/-- the hypothesis of `ll_helpers_implement_ring_ops` is satisfiable by a non-empty list: two links added to
    a new list -/
example : ∃ cells : Cells Nat Nat, Rep (((LL.new : LL Nat Nat).addFront 1 5).addFront 2 6) cells ∧
    ringOf cells = [(1, 5), (2, 6)] :=
  ⟨_, (Rep.new.addFront 5 rfl).addFront 6 (by decide), rfl⟩

/-- `copy()` at pointer level: walking the source's links from its anchor and adding a fresh link per
    item to a new list gives a well-formed list with the same items in the same (eviction) order; the
    source's memory is not written -/
theorem ll_copy_rebuilds_ring {l : LL K V} {cells : Cells K V} (h : Rep l cells) :
    ∃ cells', Rep ((LL.new : LL K V).addAll l.flatten) cells' ∧ ringOf cells' = ringOf cells := by
  have hn : (keys (ringOf ([] : Cells K V) ++ ringOf cells)).Nodup := by
    simpa [ringOf, keys_mapVal] using h.nk
  obtain ⟨c1, g1, g2⟩ := (Rep.new : Rep (LL.new : LL K V) []).addAll (ringOf cells) hn
  exact ⟨c1, by rw [h.flatten]; exact g1, by simpa [ringOf] using g2⟩

/-! ### several lists in ONE memory (`LLFrame.lean`)

`HCache` gives each cache a memory of its own; in CPython all links live in one heap.  What keeps a cache
and its copy() independent there is proved here: every `_ll` helper writes only links of the list it is
called on — its anchor and the links reachable from it (`footprint`) — or links it allocates. -/

/-- on a well-formed list, `_get_link_and_move_to_front_of_ll`, `_set_key_and_add_to_front_of_ll`,
    `_set_key_and_evict_last_in_ll`, `_remove_from_ll`, `_init_ll` (clear) and `link[VALUE] = value` leave the
    PREV / NEXT / KEY / VALUE fields of every link that existed before and is not a link of this list untouched -/
theorem ll_ops_write_only_own_links {l : LL K V} {cells : Cells K V} (h : Rep l cells) (k : K) (v : V) :
    (∀ l' n, l.moveToFront k = some (l', n) → Touches l l' (footprint l cells) ∧
        Touches l { l' with val := upd l'.val n (some v) } (footprint l cells)) ∧
    Touches l (l.addFront k v) (footprint l cells) ∧
    Touches l (l.evictLast k v).1 (footprint l cells) ∧
    (∀ l', l.remove k = some l' → Touches l l' (footprint l cells)) ∧
    Touches l l.reinit (footprint l cells) := by
  refine ⟨fun l' n hm => ?_, h.touches_addFront k v, h.touches_evictLast k v, fun l' hm => (h.touches_remove hm).1,
    Rep.touches_reinit l _⟩
  obtain ⟨t, hn, _⟩ := h.touches_moveToFront hm
  exact ⟨t, t.trans (Rep.touches_setVal l' hn (some v)) (fun a ha => Or.inl ha)⟩

/-- SEPARATION: two well-formed lists that occupy disjoint links of one memory (a cache and its copy in the
    CPython heap): a step on the first that writes only its own or new links — by the theorem above: any helper —
    leaves the second list well formed with exactly the same cells, i.e. the same keys, values and eviction order -/
theorem ll_disjoint_lists_independent {l1 l1' l2 : LL K V} {c1 c2 : Cells K V} (h2 : Rep l2 c2)
    (hmem : l2.prev = l1.prev ∧ l2.next = l1.next ∧ l2.key = l1.key ∧ l2.val = l1.val ∧ l2.fresh = l1.fresh)
    (hdis : ∀ a ∈ footprint l2 c2, a ∉ footprint l1 c1) (ht : Touches l1 l1' (footprint l1 c1)) :
    Rep { l2 with prev := l1'.prev, next := l1'.next, key := l1'.key, val := l1'.val, fresh := l1'.fresh } c2 ∧
    ({ l2 with prev := l1'.prev, next := l1'.next, key := l1'.key, val := l1'.val, fresh := l1'.fresh } : LL K V).flatten
      = (ringOf c2).map (fun p => (some p.1, some p.2)) := by
  have hr := h2.separate hmem hdis ht
  exact ⟨hr, hr.flatten⟩

/-- WHOLE public method calls on the pointer-level cache — any history of them, with a re-entrant on_miss of any
    kind and depth: relative to the list before the history (links `footprint h.ll cells`) only links the list owned
    then or allocated since are written (`Track.touches`), and its anchor and link table point only to such links -/
theorem linked_list_calls_write_only_own_links {h : HCache K V} {c : Cache K V} (hs : HSim h c) {cells : Cells K V}
    (hrep : Rep h.ll cells) (P : List K → K → OmProg K V) (fuel : Nat) (ops : List (Op K V)) :
    Track h.ll (footprint h.ll cells) (HCache.mach.rrun P fuel h ops).ll ∧
    ∃ c', HSim (HCache.mach.rrun P fuel h ops) c' := by
  obtain ⟨c', hr, t⟩ := (HCache.machTrack h.ll (footprint h.ll cells)).rrun P fuel (n := 0)
    (⟨c, RHSim.zero_iff.2 hs, Track.start hrep⟩ : QT h.ll (footprint h.ll cells) 0 h) ops
  exact ⟨t, c', hr.1⟩

/-- … hence a cache whose list lives in the same memory on disjoint links (its copy in the CPython heap) is not
    disturbed by ANY history of calls on this cache: its list stays well formed with the same cells (keys, values,
    eviction order), and the two lists stay disjoint -/
theorem linked_list_calls_do_not_disturb_other_lists {h : HCache K V} {c : Cache K V} (hs : HSim h c)
    {cells c2 : Cells K V} (hrep : Rep h.ll cells) {l2 : LL K V} (h2 : Rep l2 c2)
    (hmem : l2.prev = h.ll.prev ∧ l2.next = h.ll.next ∧ l2.key = h.ll.key ∧ l2.val = h.ll.val ∧ l2.fresh = h.ll.fresh)
    (hdis : ∀ a ∈ footprint l2 c2, a ∉ footprint h.ll cells)
    (P : List K → K → OmProg K V) (fuel : Nat) (ops : List (Op K V)) :
    Rep { l2 with prev := (HCache.mach.rrun P fuel h ops).ll.prev, next := (HCache.mach.rrun P fuel h ops).ll.next,
                  key := (HCache.mach.rrun P fuel h ops).ll.key, val := (HCache.mach.rrun P fuel h ops).ll.val,
                  fresh := (HCache.mach.rrun P fuel h ops).ll.fresh } c2 ∧
    ∀ cells', Rep (HCache.mach.rrun P fuel h ops).ll cells' →
      ∀ a ∈ footprint (HCache.mach.rrun P fuel h ops).ll cells', a ∉ footprint l2 c2 := by
  obtain ⟨t, _⟩ := linked_list_calls_write_only_own_links hs hrep P fuel ops
  refine ⟨h2.separate hmem hdis t.touches, fun cells' hr' a ha ha2 => ?_⟩
  rcases t.owns hr' a ha with h1 | h1
  · exact hdis a ha2 h1
  · have := h2.bound a ha2
    rw [hmem.2.2.2.2] at this
    omega

/-- copy() in ONE memory (`ret = self.__class__(…)`: a new anchor; then one `_set_key_and_add_to_front_of_ll` per
    link met on the walk of the source): the new list holds the same items in the same eviction order, consists of
    NEW links only (disjoint from the source's links), and the source list is still well formed, with the same
    cells, in the memory that now also holds the copy — the copy shares no link with the original -/
theorem ll_copy_in_one_memory {l : LL K V} {cells : Cells K V} (h : Rep l cells) :
    ∃ cells', Rep (l.reinit.addAll l.flatten) cells' ∧ ringOf cells' = ringOf cells ∧
      (∀ a ∈ footprint (l.reinit.addAll l.flatten) cells', a ∉ footprint l cells) ∧
      Rep (l.inMemoryOf (l.reinit.addAll l.flatten)) cells ∧
      (l.inMemoryOf (l.reinit.addAll l.flatten)).flatten = l.flatten := by
  obtain ⟨cells', h1, h2, h3, h4⟩ := h.copy_in_same_memory
  exact ⟨cells', h1, h2, h3, h4, by rw [h4.flatten, h.flatten]⟩

/-- a source list with two links (the hypothesis `Rep l cells` is satisfiable) -/
example : ∃ cells : Cells Nat Nat, Rep (((LL.new : LL Nat Nat).addFront 1 5).addFront 2 6) cells ∧
    ((((LL.new : LL Nat Nat).addFront 1 5).addFront 2 6).reinit.addAll
      (((LL.new : LL Nat Nat).addFront 1 5).addFront 2 6).flatten).flatten = [(some 1, some 5), (some 2, some 6)] :=
  ⟨_, (Rep.new.addFront 5 rfl).addFront 6 (by decide), by decide⟩

/-- the hypotheses are satisfiable: a list with one link (anchor 0, link 1) and a second, empty list whose
    anchor (link 2) was allocated after it in the same memory; a link is added to the second list -/
example : ∃ (l1 l2 : LL Nat Nat) (c1 c2 : Cells Nat Nat), Rep l1 c1 ∧ Rep l2 c2 ∧
    (l1.prev = l2.prev ∧ l1.next = l2.next ∧ l1.key = l2.key ∧ l1.val = l2.val ∧ l1.fresh = l2.fresh) ∧
    (∀ a ∈ footprint l1 c1, a ∉ footprint l2 c2) ∧ c1 = [(1, (1, 5))] ∧ Touches l2 (l2.addFront 7 8) (footprint l2 c2) := by
  have ha : Rep ((LL.new : LL Nat Nat).addFront 1 5) [(1, (1, 5))] := Rep.new.addFront 5 rfl
  have hb : Rep ((LL.new : LL Nat Nat).addFront 1 5).reinit [] := Rep.reinit _
  refine ⟨{ ((LL.new : LL Nat Nat).addFront 1 5).reinit with anchor := 0, table := [(1, 1)] },
    ((LL.new : LL Nat Nat).addFront 1 5).reinit, [(1, (1, 5))], [], ?_, hb, ⟨rfl, rfl, rfl, rfl, rfl⟩, ?_, rfl,
    hb.touches_addFront 7 8⟩
  · refine ha.frame rfl rfl (by decide) (fun a ha' => ?_)
    simp only [footprint, addrsOf, List.map_cons, List.map_nil, List.mem_cons, List.not_mem_nil, or_false] at ha'
    rcases ha' with rfl | rfl <;> decide
  · intro a ha'
    simp only [footprint, addrsOf, List.map_cons, List.map_nil, List.mem_cons, List.not_mem_nil, or_false] at ha'
    rcases ha' with rfl | rfl <;> decide

/-- the hypotheses of `linked_list_calls_do_not_disturb_other_lists` are satisfiable: an empty cache whose anchor
    (link 2) lies in a memory that already holds another list (anchor 0, link 1 with key 1) -/
example : ∃ (h : HCache Nat Nat) (c : Cache Nat Nat) (cells c2 : Cells Nat Nat) (l2 : LL Nat Nat),
    HSim h c ∧ Rep h.ll cells ∧ Rep l2 c2 ∧
    (l2.prev = h.ll.prev ∧ l2.next = h.ll.next ∧ l2.key = h.ll.key ∧ l2.val = h.ll.val ∧ l2.fresh = h.ll.fresh) ∧
    (∀ a ∈ footprint l2 c2, a ∉ footprint h.ll cells) ∧ c2 = [(1, (1, 5))] := by
  have ha : Rep ((LL.new : LL Nat Nat).addFront 1 5) [(1, (1, 5))] := Rep.new.addFront 5 rfl
  have hb : Rep ((LL.new : LL Nat Nat).addFront 1 5).reinit [] := Rep.reinit _
  refine ⟨⟨false, 2, none, [], ((LL.new : LL Nat Nat).addFront 1 5).reinit, 0, 0, 0, []⟩, Cache.initP false 2 none, [],
    [(1, (1, 5))], { ((LL.new : LL Nat Nat).addFront 1 5).reinit with anchor := 0, table := [(1, 1)] },
    ⟨rfl, rfl, rfl, rfl, rfl, rfl, rfl, rfl, Inv.initP false 2 none (by decide), [], hb, rfl⟩, hb, ?_,
    ⟨rfl, rfl, rfl, rfl, rfl⟩, ?_, rfl⟩
  · refine ha.frame rfl rfl (by decide) (fun a ha' => ?_)
    simp only [footprint, addrsOf, List.map_cons, List.map_nil, List.mem_cons, List.not_mem_nil, or_false] at ha'
    rcases ha' with rfl | rfl <;> decide
  · intro a ha'
    simp only [footprint, addrsOf, List.map_cons, List.map_nil, List.mem_cons, List.not_mem_nil, or_false] at ha'
    rcases ha' with rfl | rfl <;> decide

/-! ### non-vacuity: concrete histories with evictions (keys, values : Nat) -/

/-- LRU, max_size 2: set 1, set 2, look 1 up, set 3 -> 2 (not 1) is evicted -/
example : (reach true 2 (none : Option (Nat → OmRes Nat))
    [.on 0 (.setitem 1 5), .on 0 (.setitem 2 6), .on 0 (.getitem 1), .on 0 (.setitem 3 7)]).map (·.d)
    = [[(1, 5), (3, 7)]] := by decide

/-- LRI, the same history: the lookup does not count, 1 is evicted -/
example : (reach false 2 (none : Option (Nat → OmRes Nat))
    [.on 0 (.setitem 1 5), .on 0 (.setitem 2 6), .on 0 (.getitem 1), .on 0 (.setitem 3 7)]).map (·.d)
    = [[(2, 6), (3, 7)]] := by decide

/-- copy keeps the eviction order: after the same insert both caches evict the same key, and the
    source's counters are untouched by the copy -/
example : (reach true 2 (none : Option (Nat → OmRes Nat))
    [.on 0 (.setitem 1 5), .on 0 (.setitem 2 6), .on 0 (.setitem 1 9), .on 0 .copy,
     .on 1 (.setitem 3 7), .on 0 (.setitem 3 7)]).map (fun c => (c.d, c.hit, c.miss))
    = [([(1, 9), (3, 7)], 0, 0), ([(1, 9), (3, 7)], 0, 0)] := by decide

/-- on_miss (k ↦ 2k+1), counters: miss, hit, soft miss is only for caller defaults -/
example : (reach false 2 (some (totalOm fun k : Nat => 2 * k + 1))
    [.on 0 (.getitem 4), .on 0 (.get 4 0), .on 0 (.get 5 0)]).map (fun c => (c.d, c.hit, c.miss, c.soft, c.omLog))
    = [([(4, 9), (5, 11)], 1, 2, 0, [4, 5])] := by decide

example : (reach true 1 (none : Option (Nat → OmRes Nat))
    [.on 0 (.get 4 0), .on 0 (.setdefault 4 3), .on 0 (.ior (.pairs [(7, 1), (8, 2)]))]).map
      (fun c => (c.d, c.hit, c.miss, c.soft))
    = [([(8, 2)], 0, 2, 2)] := by decide

/-- on_miss raising KeyError for key 4 and ValueError for key 5 (k ↦ 2k+1 otherwise): every such
    lookup is a miss; get's default counts a soft miss only for the KeyError; nothing is cached -/
example : (reach true 2 (some fun k : Nat => if k = 4 then OmRes.keyError else if k = 5 then .error else .ret (2 * k + 1))
    [.on 0 (.getitem 4), .on 0 (.get 4 0), .on 0 (.get 5 0), .on 0 (.setdefault 4 3), .on 0 (.getitem 6)]).map
      (fun c => (c.d, c.hit, c.miss, c.soft, c.omLog))
    = [([(4, 3), (6, 13)], 0, 5, 2, [4, 4, 5, 4, 6])] := by decide

/-- `b |= a` between two caches (an LRU and its copy): the source counts two hits and its eviction
    order becomes its dict order (1 before 2), so the next insert evicts 1 -/
example : (reach true 2 (none : Option (Nat → OmRes Nat))
    [.on 0 (.setitem 1 5), .on 0 (.setitem 2 6), .on 0 (.getitem 1), .on 0 .copy, .on 1 .clear,
     .updc 1 0 [], .on 0 (.setitem 3 7)]).map (fun c => (c.d, c.hit))
    = [([(2, 6), (3, 7)], 3), ([(1, 5), (2, 6)], 0)] := by decide

/-- a failing update keeps the prefix and obeys max_size; `== None` is False -/
example : (reach false 2 (none : Option (Nat → OmRes Nat))
    [.on 0 (.updateFail [(1, 5), (2, 6), (3, 7)]), .on 0 .eqOther]).map (fun c => (c.d, c.ring))
    = [([(2, 6), (3, 7)], [(2, 6), (3, 7)])] := by decide

/-- pointer level: LRU, max_size 2: set 1, set 2, look 1 up, set 3: the link of key 2 (address 2) has
    become the anchor, the old anchor (address 0) holds key 3; walking from the anchor gives 1, 3 -/
example : (hreach true 2 (none : Option (Nat → OmRes Nat))
    [.on 0 (.setitem 1 5), .on 0 (.setitem 2 6), .on 0 (.getitem 1), .on 0 (.setitem 3 7)]).map
      (fun h => (h.d, h.ll.flatten, h.ll.anchor))
    = [([(1, 5), (3, 7)], [(some 1, some 5), (some 3, some 7)], 2)] := by decide

example : (hreach true 2 (none : Option (Nat → OmRes Nat))
    [.on 0 (.setitem 1 5), .on 0 (.setitem 2 6), .on 0 (.getitem 1), .on 0 (.setitem 3 7)]).map
      (fun h => (h.ll.fresh, h.ll.table)) = [(3, [(1, 1), (3, 0)])] := by decide

/-- pointer level: three evictions rotate the anchor once around a ring of three links (no pointer is
    rewritten: NEXT = [1, 2, 0], PREV = [2, 0, 1]); copy() builds an equal list in its own memory -/
example : (hreach false 2 (none : Option (Nat → OmRes Nat))
    [.on 0 (.setitem 1 5), .on 0 (.setitem 2 6), .on 0 (.setitem 3 7), .on 0 (.setitem 4 8),
     .on 0 (.setitem 5 9), .on 0 .copy]).map
      (fun h => (h.ll.flatten, h.ll.anchor, h.ll.next, h.ll.prev))
    = [([(some 4, some 8), (some 5, some 9)], 0, [1, 2, 0], [2, 0, 1]),
       ([(some 4, some 8), (some 5, some 9)], 0, [1, 2, 0], [2, 0, 1])] := by decide

/-- hypotheses of `full_insert_evicts_ring_head` are satisfiable: a full reachable cache -/
example : let c := run (Cache.initP true 2 (none : Option (Nat → OmRes Nat))) [.setitem 1 5, .setitem 2 6, .getitem 1]
    lookup 3 c.d = none ∧ ¬ c.d.length < c.max ∧ c.ring = [(2, 6), (1, 5)] := by decide

/-! ### a re-entrant on_miss (`Reent.lean`)

`on_miss` is a strategy table `P`: `P log k` — what the callback does when called with `k` after having been
called with the keys `log` — is a tree of dict-API calls on the cache that is waiting for its result (the
RLock allows them), each chosen according to what the previous ones returned or raised (so: any branching,
any `try … except`), ending in return / raise (`OmProg`).  `fuel` is the nesting depth at which the callback
raises instead of running (CPython: RecursionError); every theorem holds for EVERY strategy table and EVERY
depth.  The reference cache runs the same program against itself (`Ref.mach`): nested lookups are
lookups, nested assignments are assignments, and the value on_miss finally returns is assigned. -/

/-- the caches after history `ops` on a fresh `LRI`/`LRU(max_size=max, on_miss=P)`; `om` is the value of the
    `on_miss` attribute (only ever tested against None; the callback itself is `P`) -/
abbrev rreach (lru : Bool) (max : Nat) (om : K → OmRes V) (P : List K → K → OmProg K V) (fuel : Nat) (ops : List (WOp K V)) : List (Cache K V) :=
  wrunG (rwstep P fuel) [Cache.initP lru max (some om)] ops

/-- the same history on the reference cache -/
abbrev rrefReach (lru : Bool) (max : Nat) (om : K → OmRes V) (P : List K → K → OmProg K V) (fuel : Nat) (ops : List (WOp K V)) : List (Ref K V) :=
  wrunG (Ref.rwstep P fuel) [Ref.initP lru max (some om)] ops

/-- … and on the pointer-level caches -/
abbrev rhreach (lru : Bool) (max : Nat) (om : K → OmRes V) (P : List K → K → OmProg K V) (fuel : Nat) (ops : List (WOp K V)) : List (HCache K V) :=
  wrunG (rhwstep P fuel) [HCache.initP lru max (some om)] ops

/-- with a re-entrant on_miss the caches still simulate the reference caches after every history, and
    every call returns what the reference returns -/
theorem reentrant_refines_ref (lru : Bool) (max : Nat) (hmax : 1 ≤ max) (om : K → OmRes V) (P : List K → K → OmProg K V) (fuel : Nat)
    (ops : List (WOp K V)) :
    WSim (rreach lru max om P fuel ops) (rrefReach lru max om P fuel ops) ∧
    (woutsG (rwstep P fuel) [Cache.initP lru max (some om)] ops).map Out.shape =
      (woutsG (Ref.rwstep P fuel) [Ref.initP lru max (some om)] ops).map Out.shape := by
  have h0 := WSim.toRel.1 (WSim.single (Sim.initP lru max (some om) hmax))
  have := WRel.run (fun _ _ op hw => WSim.rwstep P fuel hw op) h0 ops
  exact ⟨WSim.toRel.2 this.1, this.2⟩

/-- contents (in dict order), the three counters and the sequence of on_miss calls (nested calls included,
    in call order) equal the reference cache's -/
theorem reentrant_contents_eq_ref (lru : Bool) (max : Nat) (hmax : 1 ≤ max) (om : K → OmRes V) (P : List K → K → OmProg K V) (fuel : Nat)
    (ops : List (WOp K V)) :
    (rreach lru max om P fuel ops).map (·.d) = (rrefReach lru max om P fuel ops).map (·.ents) ∧
    (rreach lru max om P fuel ops).map (fun c => (c.hit, c.miss, c.soft, c.omLog)) =
      (rrefReach lru max om P fuel ops).map (fun s => (s.hit, s.miss, s.soft, s.omLog)) :=
  ⟨(reentrant_refines_ref lru max hmax om P fuel ops).1.contents, (reentrant_refines_ref lru max hmax om P fuel ops).1.counters⟩

/-- dict, key->link table and ring stay in step, the size never exceeds max_size, soft_miss_count <=
    miss_count, and the ring is the contents in the order of the reference's stamps — whatever on_miss
    does to the cache while a lookup is waiting for it -/
theorem reentrant_structures_in_step (lru : Bool) (max : Nat) (hmax : 1 ≤ max) (om : K → OmRes V) (P : List K → K → OmProg K V) (fuel : Nat)
    (ops : List (WOp K V)) (c : Cache K V) (hc : c ∈ rreach lru max om P fuel ops) :
    c.ring.Perm c.d ∧ (keys c.ring).Nodup ∧ (keys c.d).Nodup ∧ (∀ k, lookup k c.d = lookup k c.ring) ∧
    c.d.length ≤ max ∧ c.max = max ∧ c.lru = lru ∧ c.soft ≤ c.miss ∧
    ∃ s ∈ rrefReach lru max om P fuel ops, c.d = s.ents ∧ c.ring.Pairwise (fun a b => s.stamp a.1 < s.stamp b.1) := by
  obtain ⟨s, hs, h⟩ := (reentrant_refines_ref lru max hmax om P fuel ops).1.of_mem hc
  have hcfg := rwrun_config P fuel (w := [Cache.initP lru max (some om)]) (cfg := (lru, max, some om))
    (by intro c hc; simp at hc; subst hc; rfl) ops c hc
  simp only [Cache.config, Prod.mk.injEq] at hcfg
  have hi := h.inv
  exact ⟨hi.sync.perm.symm, hi.sync.nr, hi.sync.nd, hi.sync.agree, hcfg.2.1 ▸ hi.cap, hcfg.2.1, hcfg.1, hi.soft_le,
    s, hs, h.d, h.sorted⟩

/-- the copy stays independent under a re-entrant on_miss: a call on one cache of the world — whatever its
    callback does to THAT cache meanwhile — changes no other cache (ring model and pointer-level model) -/
theorem reentrant_copy_independent (P : List K → K → OmProg K V) (fuel : Nat) (i j : Nat) (op : Op K V) (hne : j ≠ i) :
    (∀ (w : List (Cache K V)), j < w.length → (rwstep P fuel w (.on i op)).1[j]? = w[j]?) ∧
    (∀ (w : List (HCache K V)), j < w.length → (rhwstep P fuel w (.on i op)).1[j]? = w[j]?) :=
  ⟨fun w hj => rwstepG_others _ _ w i op j hj hne, fun w hj => rwstepG_others _ _ w i op j hj hne⟩

/-- "same eviction order", observably, under a re-entrant on_miss that keeps no state of its own: whatever is
    done to the copy and to the original from now on — the callback working on whichever cache called it —, both
    hold the same contents in the same orders after every history and every further call returns the same result
    (a callback WITH state may of course tell the two apart: the copy starts with an empty call history) -/
theorem reentrant_copy_behaves_like_source (c : Cache K V) (P0 : K → OmProg K V) (fuel : Nat) (ops : List (Op K V)) :
    (Cache.mach.rrun (fun _ => P0) fuel c.copied ops).d = (Cache.mach.rrun (fun _ => P0) fuel c ops).d ∧
    (Cache.mach.rrun (fun _ => P0) fuel c.copied ops).ring = (Cache.mach.rrun (fun _ => P0) fuel c ops).ring ∧
    ∀ op, (Cache.mach.rstep (fun _ => P0) fuel (Cache.mach.rrun (fun _ => P0) fuel c.copied ops) op).2.shape =
          (Cache.mach.rstep (fun _ => P0) fuel (Cache.mach.rrun (fun _ => P0) fuel c ops) op).2.shape := by
  have h := (SameCore.copied c).rrun P0 fuel ops
  refine ⟨h.d, h.ring, fun op => ?_⟩
  rw [Cache.rstep_noLog]
  exact (SameCore.mach.rstep (fun _ => P0) fuel (n := 0) h op).2.shape_eq

/-- one public call with a re-entrant on_miss keeps the representation invariant (so: size bound, no
    duplicate link, dict = ring as mappings), at any depth, also when the callback raises half-way -/
theorem reentrant_step_inv {c : Cache K V} (hi : Inv c) (P : List K → K → OmProg K V) (fuel : Nat) (op : Op K V) :
    Inv (Cache.mach.rstep P fuel c op).1 ∧ (Cache.mach.rstep P fuel c op).1.max = c.max :=
  ⟨(Cache.machInv.rstep P fuel (InvN.zero_iff.2 hi) op).1.1,
   by have := ((Cache.machConfig c.config).rstep P fuel (n := 0) rfl op).1
      simp only [Cache.config, Prod.mk.injEq] at this; exact this.2.1⟩

/-- a lookup that finds the key does not call on_miss -/
theorem reentrant_found_is_hit {c : Cache K V} (hi : Inv c) (P : List K → K → OmProg K V) (fuel : Nat) {k : K} {v : V}
    (hk : lookup k c.d = some v) :
    Cache.mach.rget P fuel c k = c.getitem k ∧ (c.getitem k).2 = .val v ∧ (c.getitem k).1.omLog = c.omLog ∧
    (c.getitem k).1.hit = c.hit + 1 ∧ (c.getitem k).1.miss = c.miss := by
  have hr : lookup k c.ring = some v := by rw [← hi.sync.agree]; exact hk
  refine ⟨Cache.rget_found P fuel hr, ?_⟩
  rw [Cache.getitem_hit hr]
  exact ⟨rfl, rfl, rfl, rfl⟩

/-- every call that is not a lookup (item set / del, update, |=, pop, popitem, clear, copy, in, len, iteration,
    ==, !=) is literally the call of the plain model, on all three machines: all theorems above about these calls
    (removed keys are gone, a full insert evicts the ring head, copy / == / update …) hold verbatim for a cache whose
    on_miss is re-entrant; only item get / get / setdefault go through the callback interpreter -/
theorem reentrant_nonlookup_is_plain (P : List K → K → OmProg K V) (fuel : Nat) (op : Op K V) (hop : op.isLookup = false) :
    (∀ c : Cache K V, Cache.mach.rstep P fuel c op = step c op) ∧
    (∀ h : HCache K V, HCache.mach.rstep P fuel h op = hstep h op) ∧
    (∀ s : Ref K V, Ref.mach.rstep P fuel s op = Ref.step s op) := by
  refine ⟨fun c => ?_, fun h => ?_, fun s => ?_⟩ <;>
    (cases op <;> first | rfl | simp [Op.isLookup] at hop)

/-- with a re-entrant on_miss, too, on_miss is called exactly for lookups of absent keys: a call that is not
    a lookup and a lookup that finds its key add nothing to the log of on_miss calls (the latter is one hit, no
    miss); a lookup of an absent key enters on_miss with THAT key first — whatever the callback does then
    (nested lookups included) only extends the log — and counts at least the one miss -/
theorem reentrant_on_miss_called_iff_absent {c : Cache K V} (hi : Inv c) (P : List K → K → OmProg K V) (fuel : Nat) (op : Op K V) :
    match op.lookupKey with
    | none => (Cache.mach.rstep P fuel c op).1.omLog = c.omLog ∧ (Cache.mach.rstep P fuel c op).1.miss = c.miss ∧
              (Cache.mach.rstep P fuel c op).1.hit = c.hit
    | some k =>
      ((lookup k c.d).isSome → (Cache.mach.rstep P fuel c op).1.omLog = c.omLog ∧
          (Cache.mach.rstep P fuel c op).1.hit = c.hit + 1 ∧ (Cache.mach.rstep P fuel c op).1.miss = c.miss) ∧
      (lookup k c.d = none → (∃ l, (Cache.mach.rstep P fuel c op).1.omLog = c.omLog ++ k :: l) ∧
          c.miss + 1 ≤ (Cache.mach.rstep P fuel c op).1.miss ∧ c.hit ≤ (Cache.mach.rstep P fuel c op).1.hit) := by
  cases hop : op.lookupKey with
  | none =>
    have hs : Cache.mach.rstep P fuel c op = step c op := by
      cases op <;> first | rfl | simp [Op.lookupKey] at hop
    have := step_nonlookup c op hop
    simp only [hs]
    exact ⟨this.2.2.2, this.2.1, this.1⟩
  | some k =>
    obtain ⟨h1, h2, h3⟩ := Cache.rstep_lookup_log P fuel c hop
    simp only [h1, h2, h3]
    refine ⟨fun hs => ?_, fun hk => ?_⟩
    · obtain ⟨v, hv⟩ := Option.isSome_iff_exists.1 hs
      have hr : lookup k c.ring = some v := by rw [← hi.sync.agree]; exact hv
      rw [Cache.rget_found P fuel hr, Cache.getitem_hit hr]
      exact ⟨rfl, rfl, rfl⟩
    · have hr : lookup k c.ring = none := by rw [← hi.sync.agree]; exact hk
      exact Cache.rget_absent_log P fuel hr

/-- the value finally cached is the one on_miss RETURNED: when the run of on_miss(k) ends
    (state `body`) by returning `v`, the lookup answers `v` and `body[k] = v` is executed by the full
    `__setitem__` — whether the program stored `k` itself (re-assignment of the present key: one link,
    moved to the newest position), dropped it again, or filled the cache (insertion, evicting the oldest
    key): afterwards `k ↦ v` is in the cache, it is the most recent key, and the invariant holds -/
theorem reentrant_on_miss_result_cached {c : Cache K V} (hi : Inv c) (P : List K → K → OmProg K V) (n : Nat) {k : K} {v : V}
    {body : Cache K V} (hk : lookup k c.d = none)
    (hbody : runProg (Cache.mach.rstep P n) (Cache.mach.missed c k) (P c.omLog k) = (body, .ret v)) :
    Cache.mach.rget P (n + 1) c k = (body.setitem k v, .val v) ∧
    lookup k (body.setitem k v).d = some v ∧ (body.setitem k v).ring.getLast? = some (k, v) ∧
    Inv (body.setitem k v) ∧ (body.setitem k v).d.length ≤ c.max ∧ body.soft + 1 ≤ body.miss := by
  have hr : lookup k c.ring = none := by rw [← hi.sync.agree]; exact hk
  have hm : InvN 1 (Cache.mach.missed c k) := Cache.machInv.missed k (InvN.zero_iff.2 hi)
  have hb := Cache.machInv.runBody P n (P c.omLog k) hm
  have hcfg := (Cache.machConfig c.config).runBody P n (P c.omLog k) (n := 0) (c := Cache.mach.missed c k) rfl
  rw [hbody] at hb hcfg
  simp only [Cache.config, Prod.mk.injEq] at hcfg
  have hset := Cache.setitem_inv hb.1 k v
  refine ⟨?_, setitem_lookup_self hb.1 k v, assignment_refreshes hb.1 k v, hset, ?_, ?_⟩
  · rw [Cache.rget_absent P n hr hbody]; rfl
  · have := hset.cap; rw [setitem_max, hcfg.2.1] at this; exact this
  · exact hb.2

/-- an on_miss that raises AFTER mutating the cache (its own `raise`, an exception of one of its calls that it
    does not catch — e.g. `del` of an absent key —, or the depth guard): the exception propagates out of `c[k]`
    (KeyError is swallowed by get / setdefault as usual), the lookup is a miss, nothing is stored on top of
    what the program did itself, and the cache is left in a state that satisfies the invariant -/
theorem reentrant_on_miss_raises_after_mutating {c : Cache K V} (hi : Inv c) (P : List K → K → OmProg K V) (n : Nat) {k : K}
    {body : Cache K V} {r : OmRes V} (hk : lookup k c.d = none)
    (hbody : runProg (Cache.mach.rstep P n) (Cache.mach.missed c k) (P c.omLog k) = (body, r)) :
    (r = .keyError → Cache.mach.rget P (n + 1) c k = (body, .keyError)) ∧
    (r = .error → Cache.mach.rget P (n + 1) c k = (body, .raised)) ∧
    Cache.mach.rget P 0 c k = ({ c with miss := c.miss + 1, omLog := c.omLog ++ [k] }, .raised) ∧
    Inv body ∧ body.soft + 1 ≤ body.miss ∧ body.max = c.max := by
  have hr : lookup k c.ring = none := by rw [← hi.sync.agree]; exact hk
  have hm : InvN 1 (Cache.mach.missed c k) := Cache.machInv.missed k (InvN.zero_iff.2 hi)
  have hb := Cache.machInv.runBody P n (P c.omLog k) hm
  have hcfg := (Cache.machConfig c.config).runBody P n (P c.omLog k) (n := 0) (c := Cache.mach.missed c k) rfl
  rw [hbody] at hb hcfg
  simp only [Cache.config, Prod.mk.injEq] at hcfg
  refine ⟨fun he => ?_, fun he => ?_, Cache.rget_absent_zero P hr, hb.1, hb.2, hcfg.2.1⟩
  · subst he; rw [Cache.rget_absent P n hr hbody]; rfl
  · subst he; rw [Cache.rget_absent P n hr hbody]; rfl

/-- a callback that makes no calls is the plain on_miss of the theorems above: the two models agree call by
    call (depth >= 1) -/
theorem reentrant_pure_is_plain (P : List K → K → OmProg K V) (f : K → OmRes V) (hP : ∀ lg k, P lg k = .done (f k))
    (n : Nat) (c : Cache K V) (hom : c.onMiss = some f) (op : Op K V) : Cache.mach.rstep P (n + 1) c op = step c op :=
  Cache.rstep_pure P f hP n c hom op

/-- the nesting depth `fuel` only matters for callbacks that look keys up themselves: a callback none of whose
    calls is an item get / get / setdefault — whatever its other calls answer; e.g. the self-priming loader —
    never re-enters on_miss, and every depth >= 1 gives the same calls, on all three machines -/
theorem reentrant_depth_irrelevant_without_lookups (P : List K → K → OmProg K V) (hP : ∀ lg k, (P lg k).NoLookup) (n : Nat) :
    Cache.mach.rstep P (n + 1) = Cache.mach.rstep P 1 ∧ HCache.mach.rstep P (n + 1) = HCache.mach.rstep P 1 ∧
    Ref.mach.rstep P (n + 1) = Ref.mach.rstep P 1 := by
  unfold Mach.rstep
  exact ⟨by rw [Mach.rget_depth_irrelevant _ P hP], by rw [Mach.rget_depth_irrelevant _ P hP],
    by rw [Mach.rget_depth_irrelevant _ P hP]⟩

/-- … and in general the depth beyond what a run needs is irrelevant: if `c[k]`, run at depth `n`, never reaches
    the depth guard (`safeGet`: every lookup the callbacks make, at every level, either finds its key or still has
    depth left), then at every greater depth it is exactly the same run with the same result — the guard is only
    an artefact for callbacks that recurse for ever; for all three machines -/
theorem reentrant_depth_beyond_need_irrelevant (P : List K → K → OmProg K V) (n m : Nat) (k : K) :
    (∀ c : Cache K V, Cache.mach.safeGet P n c k → Cache.mach.rget P (n + m) c k = Cache.mach.rget P n c k) ∧
    (∀ h : HCache K V, HCache.mach.safeGet P n h k → HCache.mach.rget P (n + m) h k = HCache.mach.rget P n h k) ∧
    (∀ s : Ref K V, Ref.mach.safeGet P n s k → Ref.mach.rget P (n + m) s k = Ref.mach.rget P n s k) :=
  ⟨fun c h => (Cache.mach.rget_stable_all P n c k h m).1, fun c h => (HCache.mach.rget_stable_all P n c k h m).1,
   fun c h => (Ref.mach.rget_stable_all P n c k h m).1⟩

/-- the pointer-level caches (real links, PREV / NEXT, rotating anchor) simulate the ring-level caches under a
    re-entrant on_miss too, with equal results: a program that stores the key itself leaves ONE link for it -/
theorem reentrant_linked_list_refines_ring (lru : Bool) (max : Nat) (hmax : 1 ≤ max) (om : K → OmRes V) (P : List K → K → OmProg K V) (fuel : Nat)
    (ops : List (WOp K V)) :
    HWSim (rhreach lru max om P fuel ops) (rreach lru max om P fuel ops) ∧
    (woutsG (rhwstep P fuel) [HCache.initP lru max (some om)] ops).map Out.shape =
      (woutsG (rwstep P fuel) [Cache.initP lru max (some om)] ops).map Out.shape := by
  have h0 := HWSim.toRel.1 (HWSim.single (HSim.initP lru max (some om) hmax))
  have := WRel.run (fun _ _ op hw => HWSim.rwstep P fuel hw op) h0 ops
  exact ⟨HWSim.toRel.2 this.1, this.2⟩

/-- … hence: never more than max_size items, a well-formed circular list whose walk from the anchor is the
    ring, and the results of the reference cache -/
theorem reentrant_linked_list_wellformed (lru : Bool) (max : Nat) (hmax : 1 ≤ max) (om : K → OmRes V) (P : List K → K → OmProg K V) (fuel : Nat)
    (ops : List (WOp K V)) :
    (∀ h ∈ rhreach lru max om P fuel ops, ∃ c ∈ rreach lru max om P fuel ops, ∃ cells, Rep h.ll cells ∧
      ringOf cells = c.ring ∧ h.d = c.d ∧ h.d.length ≤ max ∧
      h.ll.flatten = c.ring.map (fun p => (some p.1, some p.2))) ∧
    (woutsG (rhwstep P fuel) [HCache.initP lru max (some om)] ops).map Out.shape =
      (woutsG (Ref.rwstep P fuel) [Ref.initP lru max (some om)] ops).map Out.shape := by
  have hw := reentrant_linked_list_refines_ring lru max hmax om P fuel ops
  refine ⟨fun h hh => ?_, hw.2.trans (reentrant_refines_ref lru max hmax om P fuel ops).2⟩
  obtain ⟨i, hi⟩ := List.mem_iff_getElem?.1 hh
  rcases hw.1.get i with ⟨h1, _⟩ | ⟨a, c, h1, h2, hs⟩
  · rw [h1] at hi; cases hi
  · rw [h1] at hi; cases hi
    have hc : c ∈ rreach lru max om P fuel ops := List.mem_of_getElem? h2
    obtain ⟨cells, hrep, hring⟩ := hs.rep
    have hsz := (reentrant_structures_in_step lru max hmax om P fuel ops c hc).2.2.2.2.1
    exact ⟨c, hc, cells, hrep, hring, hs.d, hs.d ▸ hsz, by rw [hrep.flatten, hring]⟩

/-! non-vacuity: re-entrant on_miss programs (keys, values : Nat) -/

/-- the self-priming loader of seeded change C02-8: on_miss(k) stores `k ↦ 9` itself and returns 2k+1 -/
def selfPriming : List Nat → Nat → OmProg Nat Nat := fun _ k => .ofList [(false, .setitem k 9)] (.ret (2 * k + 1))

/-- it makes no lookups (the hypothesis of `reentrant_depth_irrelevant_without_lookups` is satisfiable) -/
example : ∀ lg k, (selfPriming lg k).NoLookup := by
  intro lg k
  refine .call _ _ rfl (fun o => ?_)
  cases o <;> exact .done _

/-- … so depth 1 is enough for it, on any cache and key (hypothesis of `reentrant_depth_beyond_need_irrelevant`) -/
example (c : Cache Nat Nat) (k : Nat) : Cache.mach.safeGet selfPriming 1 c k := by
  cases hf : (Cache.mach (K := Nat) (V := Nat)).find c k with
  | true => exact Or.inl hf
  | false => exact Or.inr ⟨trivial, by cases ((Cache.mach (K := Nat) (V := Nat)).stepWith _ _ _).2 <;> trivial⟩

/-- LRU, max_size 3: load 1, 2, 3 through the self-priming loader — three entries, one link each, the returned
    values cached; look 1 up, insert 4: 2 (the oldest) is evicted -/
example : (rreach true 3 (fun _ => .keyError) selfPriming 3
    [.on 0 (.getitem 1), .on 0 (.getitem 2), .on 0 (.getitem 3), .on 0 (.getitem 1), .on 0 (.setitem 4 0)]).map
      (fun c => (c.d, c.ring, c.hit, c.miss, c.omLog))
    = [([(1, 3), (3, 7), (4, 0)], [(3, 7), (1, 3), (4, 0)], 1, 3, [1, 2, 3])] := by decide

/-- the same on the pointer-level model: three links besides the anchor -/
example : (rhreach true 3 (fun _ => .keyError) selfPriming 3
    [.on 0 (.getitem 1), .on 0 (.getitem 2), .on 0 (.getitem 3)]).map (fun h => (h.d, h.ll.flatten, h.ll.fresh))
    = [([(1, 3), (2, 5), (3, 7)], [(some 1, some 3), (some 2, some 5), (some 3, some 7)], 4)] := by decide

/-- a loader that looks the next key up (nested misses) until the depth guard (fuel 2) raises: three misses, no
    hit, nothing cached, the exception propagates; with `get` the same (ValueError is not swallowed) -/
example : (rreach false 2 (fun _ => .keyError) (fun _ (k : Nat) => .ofList [(false, .getitem (k + 1))] (.ret 5)) 2 [.on 0 (.get 0 7)]).map
      (fun c => (c.d, c.miss, c.soft, c.omLog)) = [([], 3, 0, [0, 1, 2])] := by decide

/-- a loader that fills the cache beyond capacity and then raises KeyError (`del` of an absent key): `get`
    answers the default, one miss and one soft miss, the mutations stay, the size bound holds -/
example : (rreach false 2 (fun _ => .keyError) (fun _ (_ : Nat) => .ofList [(false, .update (.pairs [(1, 1), (2, 2), (3, 3)]) []), (false, .delitem 9)] (.ret 5)) 3
    [.on 0 (.get 0 7)]).map (fun c => (c.d, c.ring, c.miss, c.soft)) = [([(2, 2), (3, 3)], [(2, 2), (3, 3)], 1, 1)] := by decide

/-- a callback that catches the KeyError of its own `del` (`try: del c[9] except KeyError: pass`) and a stateful
    one (returns 100 + the number of earlier calls): both are strategies; nothing propagates, the values returned
    are cached -/
example : (rreach true 2 (fun _ => .keyError)
      (fun (lg : List Nat) (k : Nat) => .ofList [(true, .delitem 9), (false, .setitem (k + 10) 1)] (.ret (100 + lg.length))) 3
    [.on 0 (.getitem 1), .on 0 (.getitem 2)]).map (fun c => (c.d, c.miss, c.omLog))
    = [([(12, 1), (2, 101)], 2, [1, 2])] := by decide

/-- a callback that BRANCHES on what it sees: it looks whether key 1 is in the cache and stores 7 under key 5 only
    if it is not -/
example : (rreach false 3 (fun _ => .keyError)
      (fun _ (_ : Nat) => .call (.contains 1) fun o =>
        match o with
        | .bool true => .done (.ret 0)
        | _ => .call (.setitem 5 7) fun _ => .done (.ret 0)) 3
    [.on 0 (.getitem 2), .on 0 (.setitem 1 1), .on 0 (.delitem 5), .on 0 (.getitem 3)]).map (fun c => c.d)
    = [[(2, 0), (1, 1), (3, 0)]] := by decide

/-- what the example below shows of a callback's final state -/
def bodySummary (r : Cache Nat Nat × OmRes Nat) : List (Nat × Nat) × List (Nat × Nat) × OmRes Nat × List (Nat × Nat) :=
  (r.1.d, r.1.ring, r.2, (r.1.setitem 4 1).ring)

/-- hypotheses of `reentrant_on_miss_result_cached`: the callback stores the key and fills the cache; the
    returned value replaces the stored one and the key is the most recent -/
example : bodySummary
    (runProg (Cache.mach.rstep (fun _ (k : Nat) => OmProg.ofList [(false, .setitem k 9), (false, .setitem 7 7)] (.ret 1)) 1)
      (Cache.mach.missed (Cache.initP true 2 (none : Option (Nat → OmRes Nat))) 4)
      (OmProg.ofList [(false, .setitem 4 9), (false, .setitem 7 7)] (.ret 1)))
    = ([(4, 9), (7, 7)], [(4, 9), (7, 7)], .ret 1, [(7, 7), (4, 1)]) := by decide

end C02
